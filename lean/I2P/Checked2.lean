import I2P.Checked
/-! Checked ("can it panic?") mirrors, second part: `data/mapping.go`, `data/mapping_values.go`, the
    `I2PString` accessors and `NewIntegerFromInt` they use, and three composite readers that embed a
    Mapping (`ReadLeaseSet2` end to end, `ReadRouterAddress`, `ReadRouterInfo`).  `ReadLeaseSet` is in
    `I2P/Checked3LS.lean`, `ReadMetaLeaseSet` in `I2P/Checked3Meta.lean`.

    Same conventions as `I2P/Checked.lean`: one Lean function per Go function (the Go name is in the doc
    comment), every index expression, slice expression, `make` and pointer dereference goes through a
    checked primitive.  `Props/C04b.lean` proves that none of them ever returns `.error _` and that each
    returns what the pure model returns.  Core-only. -/

namespace I2P.Checked
open I2P I2P.Spec I2P.Kac

/-- `l[i]` on a slice of structs / strings / errors -/
def getAt {α : Type} (l : List α) (i : Int) : Go α :=
  if h : 0 ≤ i ∧ i < l.length then .ok (l[i.toNat]'(by omega)) else .error .indexOOB

/-! ### data/string.go: `I2PString.Length`, `I2PString.Data` -/

/-- the errors of `I2PString.Length()`; `lengthRead` ("failed to read I2PString length byte") is unreachable -/
inductive StrLenErrC | zero | lengthRead | tooShort | tooLong
deriving DecidableEq, Repr

/-- `I2PString.Length()`: `ReadInteger(str[:], 1)` slices the receiver -/
def i2pStringLengthC (str : Sl) : Go (Int × Option StrLenErrC) := do
  if str.ilen = 0 then return (0, some .zero) else
  let (l, _) ← readIntegerC (← slice str 0 str.ilen) 1
  match l with
  | none => return (0, some .lengthRead)
  | some l =>
  let length ← integerIntC l
  let str_len := str.ilen
  let err : Option StrLenErrC := if length > str_len - 1 then some .tooShort else none
  let err : Option StrLenErrC := if str_len - 1 > length then some .tooLong else err
  return (length, err)

/-- `I2PString.Data()`: `string(str[1 : length+1])` is a slice expression on the receiver -/
def i2pStringDataC (str : Sl) : Go (Bytes × Option StrLenErrC) := do
  let (length, err) ← i2pStringLengthC str
  match err with
  | some e => return ([], some e)
  | none =>
  if length = 0 then return ([], none) else
  return ((← slice str 1 (length + 1)).data, none)

/-! ### data/integer.go: `NewInteger`, `NewIntegerFromInt` -/

/-- `data.NewInteger(bytes, size)`: the pointer is never nil and the error is always nil; the
    pointed-to Integer is `ReadInteger`'s (a nil Integer for an invalid size) -/
def newIntegerC (bytes : Sl) (size : Int) : Go (Option Sl × Sl) := readIntegerC bytes size

/-- `binary.BigEndian.PutUint64(b, v)`: starts with the bounds-check hint `_ = b[7]` -/
def putUint64C (b : Sl) (v : Nat) : Go Sl := do
  let _ ← index b 7
  copyAt b 0 8 (.ofBytes (beEnc 8 v))

/-- `validateIntegerInput`: `true` = no error -/
def validateIntegerInputC (value size : Int) : Bool := !(decide (value < 0)) && !(decide (size < 1 ∨ size > 8))

/-- `createIntegerFromBytes`: `bytes[MAX_INTEGER_SIZE-integerSize:]` -/
def createIntegerFromBytesC (value size : Int) : Go (Option Sl) := do
  let bytes ← mk 8
  let bytes ← putUint64C bytes (toUInt64 value)
  let integerSize : Int := if size < 8 then size else 8
  let (i, _) ← readIntegerC (← sliceFrom bytes (8 - integerSize)) integerSize
  return i

/-- `data.NewIntegerFromInt(value, size)`; `none` = error (`calculateMaxValueForSize` is `maxValueForSize`) -/
def newIntegerFromIntC (value size : Int) : Go (Option Sl) := do
  if !validateIntegerInputC value size then return none else
  if toUInt64 value > maxValueForSize size then return none else   -- validateValueBounds
  createIntegerFromBytesC value size

/-! ### data/mapping_values.go -/

/-- the errors the mapping readers can emit: the classes of the pure model, plus the two kinds that never
    reach a caller ("failed to read mapping size"; an I2PString error of a key or value, which a delimiter
    error always pre-empts) -/
inductive MapErrC
  | m (e : Mapping.E)
  | sizeRead
  | str (e : StrErrC)
deriving DecidableEq, Repr

/-- `[2]I2PString`: both strings are windows on the caller's buffer -/
abbrev PairS := Sl × Sl

/-- the bytes of a stored pair -/
def pairData (p : PairS) : Mapping.Pair := (p.1.data, p.2.data)

/-- `Mapping`: `size *Integer`, `vals *MappingValues` (both nil in the zero value) -/
structure MappingC where
  size : Option Sl := none
  vals : Option (List PairS) := none

/-- `validateMappingInput`: `true` = no error -/
def validateMappingInputC (remainder : Sl) : Bool := !(decide (remainder.ilen < 1))

/-- `validateMappingLength` -/
def validateMappingLengthC (remainder map_length : Sl) : Go (List MapErrC) := do
  let int_map_length ← integerIntC map_length
  let mapping_len := remainder.ilen
  if mapping_len > int_map_length then return [.m .beyond]
  else if int_map_length > mapping_len then return [.m .exceeds]
  else return []

/-- `hasMinimumBytesForKeyValuePair` -/
def hasMinimumBytesForKeyValuePairC (remainder : Sl) : Bool := !(decide (remainder.ilen < 6))

/-- `shouldStopLoop` -/
def shouldStopLoopC (pairCount : Int) (remainder : Sl) (lengthMismatch : Bool) : Bool :=
  if pairCount ≥ (Mapping.MAX_MAPPING_PAIRS : Int) then true
  else if remainder.ilen = 0 then true
  else if lengthMismatch then !hasMinimumBytesForKeyValuePairC remainder
  else false

/-- `appendMaxPairsError` -/
def appendMaxPairsErrorC (errs : List MapErrC) (pairCount : Int) : List MapErrC :=
  if pairCount ≥ (Mapping.MAX_MAPPING_PAIRS : Int) then errs ++ [.m .maxPairs] else errs

/-- `checkForwardProgress`: `none` = no error -/
def checkForwardProgressC (pairCount currentLength previousLength : Int) : Option MapErrC :=
  if currentLength ≥ previousLength ∧ pairCount > 0 then some (.m .noProgress) else none

/-- `stopValueRead`: `errors.Is(err, ErrZeroLength)` -/
def stopValueReadC (e : StrErrC) : Bool := e == .zero

/-- `shouldStopParsing`: `ErrMappingExpectedEquals` or `ErrMappingExpectedSemicolon` -/
def shouldStopParsingC (e : MapErrC) : Bool := e == .m .expEq || e == .m .expSemi

/-- `beginsWith`: `len(bytes) != 0 && bytes[0] == chr` (short-circuit) -/
def beginsWithC (bytes : Sl) (chr : UInt8) : Go Bool := do
  if bytes.ilen ≠ 0 then return (← index bytes 0) == chr else return false

/-- `validateAndConsumeDelimiter`: `remainder[1:]` after `beginsWith` -/
def validateAndConsumeDelimiterC (remainder : Sl) (delimiter : UInt8) : Go (Sl × Option MapErrC) := do
  if !(← beginsWithC remainder delimiter) then
    if delimiter = 0x3d then return (remainder, some (.m .expEq)) else return (remainder, some (.m .expSemi))
  else return (← sliceFrom remainder 1, none)

/-- `checkForDuplicateKey`; the map `encounteredKeysMap` is the list of keys stored so far -/
def checkForDuplicateKeyC (key_str : Sl) (seen : List Bytes) : Go (Option MapErrC) := do
  let (keyBytes, _) ← i2pStringDataC key_str
  if seen.contains keyBytes then return some (.m .dup) else return none

/-- `storeEncounteredKey` -/
def storeEncounteredKeyC (key_str : Sl) (seen : List Bytes) : Go (List Bytes) := do
  let (keyBytes, _) ← i2pStringDataC key_str
  return keyBytes :: seen

/-- `parseAndValidateKey` (with `parseKeyFromRemainder`) -/
def parseAndValidateKeyC (remainder : Sl) (seen : List Bytes) : Go (Sl × Sl × Option MapErrC) := do
  let (key_str, more, err) ← readStrS remainder
  let remainder := more
  match err with
  | some e =>
    if stopValueReadC e then return (remainder, key_str, some (.str e)) else
    match ← checkForDuplicateKeyC key_str seen with
    | some dupErr => return (remainder, key_str, some dupErr)
    | none => return (remainder, key_str, some (.str e))
  | none =>
    match ← checkForDuplicateKeyC key_str seen with
    | some dupErr => return (remainder, key_str, some dupErr)
    | none => return (remainder, key_str, none)

/-- `parseAndValidateValue` (with `parseValueFromRemainder`): both branches return the same triple -/
def parseAndValidateValueC (remainder : Sl) : Go (Sl × Sl × Option MapErrC) := do
  let (val_str, more, err) ← readStrS remainder
  return (more, val_str, err.map .str)

/-- `parseSingleKeyValuePair`; `accumulatedErrors[0]` is an index expression -/
def parseSingleKeyValuePairC (remainder : Sl) (seen : List Bytes) : Go (Sl × PairS × Option MapErrC) := do
  let accumulatedErrors : List MapErrC := []
  let (remainder, key_str, err) ← parseAndValidateKeyC remainder seen
  let accumulatedErrors := match err with | some e => accumulatedErrors ++ [e] | none => accumulatedErrors
  let keyValuePair : PairS := (key_str, Sl.nil)
  let (remainder, err) ← validateAndConsumeDelimiterC remainder 0x3d
  match err with
  | some e => return (remainder, keyValuePair, some e)
  | none =>
  let (remainder, val_str, err) ← parseAndValidateValueC remainder
  let accumulatedErrors := match err with | some e => accumulatedErrors ++ [e] | none => accumulatedErrors
  let keyValuePair : PairS := (keyValuePair.1, val_str)
  let (remainder, err) ← validateAndConsumeDelimiterC remainder 0x3b
  match err with
  | some e => return (remainder, keyValuePair, some e)
  | none =>
  if accumulatedErrors.length > 0 then return (remainder, keyValuePair, some (← getAt accumulatedErrors 0))
  else return (remainder, keyValuePair, none)

/-- `parseNextPair`; the last component is `stop` -/
def parseNextPairC (remainder : Sl) (map_values : List PairS) (errs : List MapErrC) (seen : List Bytes) :
    Go (Sl × List PairS × List MapErrC × Bool) := do
  let (remainder, keyValuePair, err) ← parseSingleKeyValuePairC remainder seen
  match err with
  | some e =>
    let errs := errs ++ [e]
    if shouldStopParsingC e then return (remainder, map_values, errs, true) else
    return (remainder, map_values ++ [keyValuePair], errs, decide (remainder.ilen = 0))
  | none => return (remainder, map_values ++ [keyValuePair], errs, decide (remainder.ilen = 0))

/-- the `for { … }` loop of `parseKeyValuePairs`; `fuel` is the structural recursion argument
    (`MAX_MAPPING_PAIRS + 2` suffices, as in the pure model).  `map_values[len(map_values)-1][0]` is an
    index expression on the values slice.  The last component of the result is a ghost counter: the
    number of loop bodies (calls of `parseNextPair`) executed. -/
def parseKeyValuePairsLoopC : (fuel : Nat) → (remainder : Sl) → (map_values : List PairS) → (errs : List MapErrC) →
    (seen : List Bytes) → (pairCount previousLength : Int) → (lengthMismatch : Bool) →
    Go (Sl × List PairS × List MapErrC × Nat)
  | 0, remainder, map_values, errs, _, _, _, _ => return (remainder, map_values, errs, 0)
  | fuel + 1, remainder, map_values, errs, seen, pairCount, previousLength, lengthMismatch => do
    if shouldStopLoopC pairCount remainder lengthMismatch then
      return (remainder, map_values, appendMaxPairsErrorC errs pairCount, 0)
    else
    match checkForwardProgressC pairCount remainder.ilen previousLength with
    | some e => return (remainder, map_values, errs ++ [e], 0)
    | none =>
    let previousLength := remainder.ilen
    let (remainder, map_values, errs, stop) ← parseNextPairC remainder map_values errs seen
    let pairCount := pairCount + 1
    if stop then return (remainder, map_values, errs, 1) else
    let last ← getAt map_values ((map_values.length : Int) - 1)
    let seen ← storeEncounteredKeyC last.1 seen
    let (remainder, map_values, errs, n) ←
      parseKeyValuePairsLoopC fuel remainder map_values errs seen pairCount previousLength lengthMismatch
    return (remainder, map_values, errs, n + 1)

/-- `parseKeyValuePairs` -/
def parseKeyValuePairsC (remainder : Sl) (map_values : List PairS) (errs : List MapErrC) :
    Go (Sl × List PairS × List MapErrC × Nat) :=
  parseKeyValuePairsLoopC (Mapping.MAX_MAPPING_PAIRS + 2) remainder map_values errs [] 0 remainder.ilen
    (decide (errs.length > 0))

/-- `data.ReadMappingValues(remainder, map_length)`: `remainder_bytes` is never assigned (nil) -/
def readMappingValuesS (remainder map_length : Sl) : Go (Option (List PairS) × Sl × List MapErrC) := do
  let _ ← integerIntC map_length                      -- log line
  if !validateMappingInputC remainder then return (none, Sl.nil, [.m .noData]) else
  let map_values : List PairS := []
  let errs ← validateMappingLengthC remainder map_length
  let (_, map_values, errs, _) ← parseKeyValuePairsC remainder map_values errs
  return (some map_values, Sl.nil, errs)

/-! ### data/mapping.go -/

/-- `validateMappingInputData`: `true` = no error -/
def validateMappingInputDataC (bytes : Sl) : Bool := !(decide (bytes.ilen < 2))

/-- `parseMappingSize`: (`size`, remainder, error?) -/
def parseMappingSizeC (bytes : Sl) : Go (Option Sl × Sl × Bool) := do
  let (i, remainder) ← readIntegerC bytes 2
  match i with
  | none => return (none, remainder, true)
  | some i => return (some i, remainder, false)

/-- `handleInsufficientData`; `*size` and `size.Int()` dereference the pointer -/
def handleInsufficientDataC (mapping : MappingC) (remainder : Sl) (size : Option Sl) (err : List MapErrC) :
    Go (MappingC × Sl × List MapErrC) := do
  let _ ← integerIntC (← deref size)                   -- log line
  let err := err ++ [.m .exceeds]
  let map_bytes := remainder
  let remainder := Sl.nil
  let (vals, _, mappingValueErrs) ← readMappingValuesS map_bytes (← deref size)
  let err := err ++ mappingValueErrs
  return ({ mapping with vals := vals }, remainder, err)

/-- `logMappingCompletionDetails`: evaluates `mapping.size.Int()` and `len(*mapping.vals)` -/
def logMappingCompletionDetailsC (mapping : MappingC) : Go Unit := do
  let _ ← integerIntC (← deref mapping.size)
  let _ ← deref mapping.vals
  return ()

/-- `processNormalMappingData`: `remainder[:size.Int()]`, `remainder[size.Int():]` -/
def processNormalMappingDataC (mapping : MappingC) (remainder : Sl) (size : Option Sl) (err : List MapErrC) :
    Go (MappingC × Sl × List MapErrC) := do
  let err ← (if remainder.ilen > (← integerIntC (← deref size)) then do
      let _ ← integerIntC (← deref size)               -- log line
      pure (err ++ [.m .beyond])
    else pure err)
  let map_bytes ← sliceTo remainder (← integerIntC (← deref size))
  let remainder ← sliceFrom remainder (← integerIntC (← deref size))
  let (vals, _, mappingValueErrs) ← readMappingValuesS map_bytes (← deref size)
  let err := err ++ mappingValueErrs
  let mapping := { mapping with vals := vals }
  let err := if mappingValueErrs.length > 0 then err ++ [.m .parseVals] else err   -- logAndAppendMappingValueErrors
  logMappingCompletionDetailsC mapping
  return (mapping, remainder, err)

/-- `processMappingData` -/
def processMappingDataC (mapping : MappingC) (remainder : Sl) (size : Option Sl) (err : List MapErrC) :
    Go (MappingC × Sl × List MapErrC) := do
  if remainder.ilen < (← integerIntC (← deref size)) then handleInsufficientDataC mapping remainder size err
  else processNormalMappingDataC mapping remainder size err

/-- `data.ReadMapping`; `size.Int()` dereferences a pointer that is nil when `parseMappingSize` fails -/
def readMappingS (bytes : Sl) : Go (MappingC × Sl × List MapErrC) := do
  let mapping : MappingC := {}
  if !validateMappingInputDataC bytes then return (mapping, Sl.nil, [.m .zeroLength]) else
  let (size, remainder, sizeErr) ← parseMappingSizeC bytes
  let err : List MapErrC := if sizeErr then [.sizeRead] else []
  let mapping := { mapping with size := size }
  if (← integerIntC (← deref size)) = 0 then
    return ({ mapping with vals := some [] }, remainder, err)
  else processMappingDataC mapping remainder size err

/-- `data.NewMapping`: the pointer is never nil; the log line evaluates `values.Values()` -/
def newMappingS (bytes : Sl) : Go (MappingC × Sl × List MapErrC) := readMappingS bytes

/-- `Mapping.Values()` -/
def MappingC.values (mapping : MappingC) : List PairS :=
  match mapping.vals with
  | none => []
  | some v => v

/-- `serializeOnePair`; `none` = error.  `pair[0][1:]`, `pair[1][1:]` are slice expressions on the stored
    strings, `keylen.Bytes()` is `i[:]` -/
def serializeOnePairC (pair : PairS) : Go (Option Bytes) := do
  let (klen, err) ← i2pStringLengthC pair.1
  if err.isSome then return none else
  match ← newIntegerFromIntC klen 1 with
  | none => return none
  | some keylen =>
  let (vlen, err) ← i2pStringLengthC pair.2
  if err.isSome then return none else
  match ← newIntegerFromIntC vlen 1 with
  | none => return none
  | some vallen =>
  let buf : Bytes := []
  let buf := buf ++ (← slice keylen 0 keylen.ilen).data
  let buf := buf ++ (← sliceFrom pair.1 1).data
  let buf := buf ++ [0x3d]
  let buf := buf ++ (← slice vallen 0 vallen.ilen).data
  let buf := buf ++ (← sliceFrom pair.2 1).data
  let buf := buf ++ [0x3b]
  return some buf

/-- `serializeMappingPairs`: pairs that fail to serialise are skipped -/
def serializeMappingPairsC : List PairS → Go Bytes
  | [] => return []
  | pair :: rest => do
    match ← serializeOnePairC pair with
    | none => serializeMappingPairsC rest
    | some serialized => return serialized ++ (← serializeMappingPairsC rest)

/-- `(*Mapping).Data()`; `none` = nil (nil receiver or nil size); `EncodeUint16(uint16(len(payload)))`
    truncates like `beEnc 2` -/
def mappingDataC (mapping : Option MappingC) : Go (Option Bytes) := do
  match mapping with
  | none => return none
  | some mapping =>
  if mapping.size.isNone then return none else
  let payload ← serializeMappingPairsC mapping.values
  return some (beEnc 2 payload.length ++ payload)

/-- the mapping errors a stream reader tolerates: `strings.Contains(err.Error(), "data exists beyond length
    of mapping")` holds for exactly one error text, the trailing-data warning (emitted by `ReadMapping` and
    by `validateMappingLength`) -/
def isBeyondWarningC (e : MapErrC) : Bool := e == .m .beyond

/-! ### byte-level entry points -/

/-- the observable result of `ReadMapping`: the fields of `Mapping.Res`, errors in the checked enum -/
structure ResC where
  hasSize : Bool
  vals : Option (List Mapping.Pair)
  rem : Bytes
  errs : List MapErrC

def ResC.ofPure (r : Mapping.Res) : ResC :=
  { hasSize := r.hasSize, vals := r.vals, rem := r.rem, errs := r.errs.map .m }

/-- `data.ReadMapping` on a caller buffer -/
def readMappingC (w : Bytes) : Go ResC := do
  let (m, rem, errs) ← readMappingS (.ofBytes w)
  return { hasSize := m.size.isSome, vals := m.vals.map (·.map pairData), rem := rem.data, errs := errs }

/-- `data.ReadMapping` followed by `Mapping.Data()` on a caller buffer -/
def readMappingDataC (w : Bytes) : Go (Option Bytes) := do
  let (m, _, _) ← readMappingS (.ofBytes w)
  mappingDataC (some m)

/-! ### lease_set2/lease_set2.go: `parseOptionsMapping`, `ReadLeaseSet2` -/

/-- the loop of `warnIfOptionsUnsorted`: `pair[0].Data()` for every pair, until one fails -/
def warnIfOptionsUnsortedLoopC : List PairS → Go Unit
  | [] => return ()
  | pair :: rest => do
    let (_, err) ← i2pStringDataC pair.1
    if err.isSome then return () else warnIfOptionsUnsortedLoopC rest

/-- `warnIfOptionsUnsorted`: only a warning (`make([]string, 0, len(vals))` has a non-negative capacity) -/
def warnIfOptionsUnsortedC (mapping : MappingC) : Go Unit := do
  let vals := mapping.values
  if (vals.length : Int) ≤ 1 then return () else warnIfOptionsUnsortedLoopC vals

/-- the error filter inside `parseOptionsMapping`: the trailing-data warning is dropped, `fatal[0]` is an
    index expression; `true` = no fatal error -/
def optionsFatalFilterC (errs : List MapErrC) : Go Bool := do
  if errs.length > 0 then
    let fatal := errs.filter (fun e => !isBeyondWarningC e)
    if fatal.length > 0 then
      let _ ← getAt fatal 0
      return false
    else return true
  else return true

/-- `parseOptionsMapping` of lease_set2 (the one of meta_leaseset has the same shape); the result is
    `ls2.options` and the remainder -/
def ls2ParseOptionsMappingC (data : Sl) : Go (Option (MappingC × Sl)) := do
  let (mapping, rem, errs) ← readMappingS data
  if !(← optionsFatalFilterC errs) then return none else
  warnIfOptionsUnsortedC mapping
  return some (mapping, rem)

/-- a complete `LeaseSet2`: the fields the helpers of `Checked.lean` write (`LS2`), and `options` -/
structure LS2F where
  core : LS2 := {}
  options : MappingC := {}

/-- `lease_set2.ReadLeaseSet2` -/
def readLeaseSet2S (data : Sl) : Go (Option (LS2F × Sl)) := do
  let ls2 : LS2 := {}
  match ← parseDestinationAndHeaderC ls2 data with
  | none => return none
  | some (ls2, data) =>
  match ← parseOfflineSignatureC ls2 data with
  | none => return none
  | some (ls2, data) =>
  match ← ls2ParseOptionsMappingC data with
  | none => return none
  | some (options, data) =>
  match ← parseKeysLeasesAndSignatureC ls2 data with
  | none => return none
  | some (ls2, remainder) => return some ({ core := ls2, options := options }, remainder)

/-! ### data/date.go `NewDate`, router_address/utils.go -/

/-- `data.NewInteger(bytes, size)` as a `*Integer`: the pointer is never nil and the error is always nil; a
    nil Integer (invalid size) is represented by the nil slice, which it is -/
def newIntegerPtrC (bytes : Sl) (size : Int) : Go (Sl × Sl) := do
  let (i, remainder) ← readIntegerC bytes size
  return (i.getD Sl.nil, remainder)

/-- `data.NewDate`; the success log line evaluates `date.Int()` once more -/
def newDateS (data : Sl) : Go (Option (Bytes × Sl)) := do
  match ← readDateS data with
  | none => return none
  | some (date, remainder) =>
    let _ ← integerIntC (.ofBytes date)
    return some (date, remainder)

/-- `RouterAddress`: three pointers and a string -/
structure RA where
  transportCost : Option Sl := none            -- *data.Integer
  expirationDate : Option Bytes := none        -- *data.Date
  transportType : Sl := Sl.nil
  transportOptions : Option MappingC := none   -- *data.Mapping

/-- `validateRouterAddressData`: `true` = no error -/
def validateRouterAddressDataC (data : Sl) : Bool := !(decide (data.ilen = 0)) && !(decide (data.ilen < 12))

/-- `parseTransportCost` (`NewInteger` never fails) -/
def parseTransportCostC (ra : RA) (routerData : Sl) : Go (RA × Sl) := do
  let (cost, remainder) ← newIntegerPtrC routerData 1
  return ({ ra with transportCost := some cost }, remainder)

/-- `parseExpirationDate`; `isAllZeros(expirationDate[:])` ranges over the array -/
def parseExpirationDateC (ra : RA) (routerData : Sl) : Go (Option (RA × Sl)) := do
  match ← newDateS routerData with
  | none => return none
  | some (expirationDate, remainder) => return some ({ ra with expirationDate := some expirationDate }, remainder)

/-- `parseTransportType` -/
def parseTransportTypeC (ra : RA) (routerData : Sl) : Go (Option (RA × Sl)) := do
  let (transportType, remainder, err) ← readStrS routerData
  if err.isSome then return none else
  return some ({ ra with transportType := transportType }, remainder)

/-- `parseTransportOptions`: the `for _, err := range errs` loop returns at the first error that is not the
    trailing-data warning -/
def parseTransportOptionsC (ra : RA) (routerData : Sl) : Go (Option (RA × Sl)) := do
  let (transportOptions, remainder, errs) ← newMappingS routerData
  let ra := { ra with transportOptions := some transportOptions }
  match errs.find? (fun e => !isBeyondWarningC e) with
  | some _ => return none
  | none => return some (ra, remainder)

/-- `router_address.ReadRouterAddress` -/
def readRouterAddressS (routerAddressData : Sl) : Go (Option (RA × Sl)) := do
  let ra : RA := {}
  if !validateRouterAddressDataC routerAddressData then return none else
  let (ra, remainder) ← parseTransportCostC ra routerAddressData
  match ← parseExpirationDateC ra remainder with
  | none => return none
  | some (ra, remainder) =>
  match ← parseTransportTypeC ra remainder with
  | none => return none
  | some (ra, remainder) => parseTransportOptionsC ra remainder

/-! ### router_identity, router_info/router_info_struct.go -/

/-- `validateRouterIdentityKeyTypes` after `ReadKeysAndCert` (`router_identity.ReadRouterIdentity`) -/
def readRouterIdentityS (data : Sl) : Go (Option (KeysAndCert × Sl)) := do
  match ← readKacS data with
  | none => return none
  | some (k, remainder) =>
    if ridAllowed k.kc.spk k.kc.cpk then return some (k, remainder) else return none

/-- `RouterInfo`: every field but `addresses` is a pointer -/
structure RI where
  router_identity : Option KeysAndCert := none
  published : Option Bytes := none
  size : Option Sl := none
  addresses : List RA := []
  peer_size : Option Sl := none
  options : Option MappingC := none
  signature : Option Bytes := none

/-- `parseRouterInfoCore` -/
def parseRouterInfoCoreC (bytes : Sl) : Go (Option (RI × Sl)) := do
  let info : RI := {}
  match ← readRouterIdentityS bytes with
  | none => return none
  | some (ident, remainder) =>
  let info := { info with router_identity := some ident }
  match ← newDateS remainder with
  | none => return none
  | some (published, remainder) =>
  let info := { info with published := some published }
  let (size, remainder) ← newIntegerPtrC remainder 1
  return some ({ info with size := some size }, remainder)

/-- the loop `for i := 0; i < size.Int(); i++` of `parseRouterAddresses`, from index `i` (`size.Int()` is
    evaluated, and the pointer dereferenced, at every test); `fuel` is the structural recursion argument
    (`size.Int() - i` suffices).  The last component is a ghost counter: the number of loop bodies executed. -/
def parseRouterAddressesLoopC : (fuel : Nat) → (i : Int) → (size : Option Sl) → List RA → Sl →
    Go (Option (List RA × Sl × Nat))
  | 0, _, _, addresses, remainder => return some (addresses, remainder, 0)
  | fuel + 1, i, size, addresses, remainder => do
    if ¬ (i < (← integerIntC (← deref size))) then return some (addresses, remainder, 0) else
    match ← readRouterAddressS remainder with
    | none => return none
    | some (address, more) =>
      match ← parseRouterAddressesLoopC fuel (i + 1) size (addresses ++ [address]) more with
      | none => return none
      | some (addresses, remainder, n) => return some (addresses, remainder, n + 1)

/-- `parseRouterAddresses` -/
def parseRouterAddressesC (size : Option Sl) (remainder : Sl) : Go (Option (List RA × Sl × Nat)) := do
  let n ← integerIntC (← deref size)
  parseRouterAddressesLoopC n.toNat 0 size [] remainder

/-- `parsePeerSizeFromBytes`; the warning evaluates `peer_size.Int()` again -/
def parsePeerSizeFromBytesC (remainder : Sl) : Go (Sl × Sl) := do
  let (peer_size, remainder) ← newIntegerPtrC remainder 1
  if (← integerIntC peer_size) ≠ 0 then
    let _ ← integerIntC peer_size
    return (peer_size, remainder)
  else return (peer_size, remainder)

/-- `hasCriticalMappingErrors` -/
def hasCriticalMappingErrorsC (errs : List MapErrC) : Bool := errs.any (fun e => !isBeyondWarningC e)

/-- the loop of `logCriticalMappingErrors`: `errMsgs[i] = e.Error()` is an indexed store -/
def logCriticalMappingErrorsLoopC : (errMsgs : List Unit) → (i : Int) → List MapErrC → Go (List Unit)
  | errMsgs, _, [] => return errMsgs
  | errMsgs, i, _ :: rest => do
    let errMsgs ← setAt errMsgs i ()
    logCriticalMappingErrorsLoopC errMsgs (i + 1) rest

/-- `logCriticalMappingErrors`: `make([]string, len(errs))`, then one store per error -/
def logCriticalMappingErrorsC (errs : List MapErrC) : Go Unit := do
  let _ ← logCriticalMappingErrorsLoopC (List.replicate errs.length ()) 0 errs
  return ()

/-- `parseOptionsMapping` of router_info: (`options`, remainder, no error?); `errs[0]` is an index expression -/
def riParseOptionsMappingC (remainder : Sl) : Go (MappingC × Sl × Bool) := do
  let (options, remainder, errs) ← newMappingS remainder
  if errs.length = 0 then return (options, remainder, true) else
  if hasCriticalMappingErrorsC errs then
    logCriticalMappingErrorsC errs
    let _ ← getAt errs 0
    return (options, remainder, false)
  else return (options, remainder, true)

/-- `parsePeerSizeAndOptions` -/
def parsePeerSizeAndOptionsC (remainder : Sl) : Go (Option (Sl × MappingC × Sl)) := do
  let (peer_size, remainder) ← parsePeerSizeFromBytesC remainder
  let (options, remainder, ok) ← riParseOptionsMappingC remainder
  if !ok then return none else return some (peer_size, options, remainder)

/-- `getCertificateTypeFromIdentity`: `router_identity.Certificate()` goes through the identity pointer -/
def getCertificateTypeFromIdentityC (ri : Option KeysAndCert) : Go (Option (Int × Sl)) := do
  let kac ← deref ri
  let cert := kac.kc.cert
  match ← certTypeC cert with
  | none => return none
  | some kind =>
  match ← certDataC cert with
  | none => return none
  | some certData => return some (kind, certData)

/-- `certificate.GetSignatureTypeFromCertificate`: `cert.payload[0:2]` after the length check -/
def getSignatureTypeFromCertificateC (cert : Cert) : Go (Option Int) := do
  match ← certTypeC cert with
  | none => return none
  | some kind =>
  if kind ≠ 5 then return none else
  let payload := Sl.ofBytes cert.payload
  if payload.ilen < 4 then return none else
  let sigType ← beUint16 (← slice payload 0 (0 + 2))
  return some (sigType : Int)

/-- `validateSignatureType` (`signature.SignatureSize` is `getSignatureLength`): `true` = no error -/
def validateSignatureTypeC (sigType : Int) : Bool := (getSignatureLengthC sigType).isSome

/-- `parseRouterInfoSignature` (with `getSignatureTypeFromCert`, `parseSignatureData`,
    `signature.NewSignature`) -/
def parseRouterInfoSignatureC (ri : Option KeysAndCert) (remainder : Sl) : Go (Option (Bytes × Sl)) := do
  match ← getCertificateTypeFromIdentityC ri with
  | none => return none
  | some (certType, _) =>
  let sigType? : Option Int ← (if certType = 5 then do
      let kac ← deref ri
      getSignatureTypeFromCertificateC kac.kc.cert
    else pure (some 0))
  match sigType? with
  | none => return none
  | some sigType =>
  if !validateSignatureTypeC sigType then return none else
  readSigS remainder sigType

/-- `router_info.ReadRouterInfo`; the third component is the ghost iteration count of the address loop -/
def readRouterInfoS' (bytes : Sl) : Go (Option (RI × Sl × Nat)) := do
  match ← parseRouterInfoCoreC bytes with
  | none => return none
  | some (info, remainder) =>
  match ← parseRouterAddressesC info.size remainder with
  | none => return none
  | some (addresses, remainder, n) =>
  let info := { info with addresses := addresses }
  match ← parsePeerSizeAndOptionsC remainder with
  | none => return none
  | some (peer_size, options, remainder) =>
  let info := { info with peer_size := some peer_size, options := some options }
  match ← parseRouterInfoSignatureC info.router_identity remainder with
  | none => return none
  | some (signature, remainder) => return some ({ info with signature := some signature }, remainder, n)

/-- `router_info.ReadRouterInfo` -/
def readRouterInfoS (bytes : Sl) : Go (Option (RI × Sl)) := do
  match ← readRouterInfoS' bytes with
  | none => return none
  | some (info, remainder, _) => return some (info, remainder)

/-! ### byte-level entry points (continued) -/

def readLeaseSet2C := onBytes readLeaseSet2S
def readRouterAddressC := onBytes readRouterAddressS
def readRouterIdentityC := onBytes readRouterIdentityS
def readRouterInfoC := onBytes readRouterInfoS

end I2P.Checked
