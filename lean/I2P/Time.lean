import I2P.Data
/-! Code-mirroring model of the expiry arithmetic of `lease/lease.go`, `lease/lease_struct.go`,
    `lease/lease2_struct.go`, `lease_set/lease_set.go` (Newest/OldestExpiration), `lease_set2/lease_set2.go`,
    `encrypted_leaseset/encrypted_leaseset.go`, `meta_leaseset/meta_leaseset.go`,
    `offline_signature/offline_signature.go` and `router_info/router_info_struct.go` (createPublishedDate).

    Wire fields are `Nat` (a `uint32` field is a `Nat < 2^32`, a `uint16` field a `Nat < 2^16`, an 8-byte
    Date a `Nat < 2^64`); Go `int64` values are `Int`; every cast and every fixed-width arithmetic
    operation the Go code performs is an explicit wrap function, so that an overflow — were one possible —
    would be visible in the model.  `time.Time` is `I2P.GoTime` (Unix seconds, nanoseconds in `[0,1e9)`),
    `time.Duration` is an `int64` count of nanoseconds.  `time.Now()` is a parameter `now`. -/

namespace I2P.Time
open I2P

/-! ### fixed-width conversions -/

/-- result of an `int64` arithmetic operation whose mathematical value is `v` (two's complement wrap) -/
def wrapInt64 (v : Int) : Int := toInt64 (toUInt64 v)
/-- Go `uint64(x)` for an `int64` x -/
def wrapUInt64 (v : Int) : Nat := toUInt64 v
/-- Go `uint32(x)` for an `int64` x -/
def wrapUInt32 (v : Int) : Nat := (v % 2^32).toNat
/-- Go `int64(x)` for a `uint32` x (value preserving; routed through the wrap so that it would show otherwise) -/
def int64OfUInt32 (u : Nat) : Int := wrapInt64 ((u % 2^32 : Nat) : Int)
/-- Go `int64(x)` for a `uint64` x (re-interpretation) -/
def int64OfUInt64 (u : Nat) : Int := toInt64 u
/-- Go `uint64(x) * 1000` for a `uint32` x: widened first, multiplied in `uint64` -/
def mulUInt64 (a b : Nat) : Nat := (a * b) % 2^64

def maxInt64 : Int := 2^63 - 1
/-- `time.Second` (nanoseconds) -/
def second : Int := 1000000000
/-- `time.Millisecond` (nanoseconds) -/
def millisecond : Int := 1000000
/-- `time.unixToInternal`: seconds from year 1 to 1970 -/
def unixToInternal : Int := 62135596800

/-! ### the part of package `time` the library uses -/

/-- `time.Duration(x) * time.Second` for an unsigned 16-bit x: conversion to `int64`, `int64` multiplication -/
def durationSeconds (x : Nat) : Int := wrapInt64 (wrapInt64 (x : Int) * second)

/-- `Time.addSec(d)` followed by `Time.Unix()`, on a Time without monotonic reading: Go keeps seconds since
    year 1 in an `int64` and saturates the sum on overflow. -/
def addSec (sec d : Int) : Int :=
  let ext := wrapInt64 (sec + unixToInternal)
  let sum := wrapInt64 (ext + d)
  let ext' := if (decide (sum > ext)) == (decide (d > 0)) then sum else if d > 0 then maxInt64 else -maxInt64
  wrapInt64 (ext' - unixToInternal)

/-- `Time.Add(d)`: Go splits `d` with truncating division, adjusts the nanoseconds, then `addSec`. -/
def timeAdd (t : GoTime) (d : Int) : GoTime :=
  let dsec := Int.tdiv d 1000000000
  let nsec : Int := (t.nsec : Int) + Int.tmod d 1000000000
  if nsec ≥ 1000000000 then { sec := addSec t.sec (dsec + 1), nsec := (nsec - 1000000000).toNat }
  else if nsec < 0 then { sec := addSec t.sec (dsec - 1), nsec := (nsec + 1000000000).toNat }
  else { sec := addSec t.sec dsec, nsec := nsec.toNat }

/-- `t.After(u)` (wall-clock comparison: `u` never carries a monotonic reading here) -/
def timeAfter (t u : GoTime) : Bool :=
  decide (t.sec > u.sec) || (decide (t.sec = u.sec) && decide (t.nsec > u.nsec))

/-- `t.Before(u)` -/
def timeBefore (t u : GoTime) : Bool :=
  decide (t.sec < u.sec) || (decide (t.sec = u.sec) && decide (t.nsec < u.nsec))

/-- `time.UnixMilli(msec)`: `Unix(msec/1e3, (msec%1e3)*1e6)` with Go's truncating `/` and `%` -/
def timeUnixMilli (ms : Int) : GoTime := timeUnix (Int.tdiv ms 1000) (Int.tmod ms 1000 * 1000000)

/-- `Time.Unix()` -/
def unixOf (t : GoTime) : Int := t.sec

/-! ### data.Date -/

/-- `Date.Int()` of the 8-byte date whose unsigned value is `d` (`intFromBytes`: `int(binary.BigEndian.Uint64)`) -/
def dateIntOf (d : Nat) : Int := toInt64 d
/-- `Date.Time()`: `time.UnixMilli(int64(millis.Int()))` -/
def dateTimeOf (d : Nat) : GoTime := timeUnixMilli (dateIntOf d)

/-! ### lease.Lease (8-byte millisecond end date) -/

/-- `lease.NewLease`: the stored end date, `uint64(expirationTime.UnixMilli())` — never rejects -/
def newLeaseDate (t : GoTime) : Nat := wrapUInt64 t.unixMilli
/-- `Lease.Time()`: `time.UnixMilli(int64(binary.BigEndian.Uint64(dateBytes))).UTC()` -/
def leaseTime (date : Nat) : GoTime := timeUnixMilli (int64OfUInt64 date)
/-- `Lease.Time().UnixMilli()` -/
def leaseTimeMillis (date : Nat) : Int := (leaseTime date).unixMilli
/-- `Lease.IsExpired()`: `lease.Time().Before(time.Now())` -/
def leaseIsExpired (now : GoTime) (date : Nat) : Bool := timeBefore (leaseTime date) now

/-! ### lease.Lease2 (4-byte second end date) -/

/-- `lease.NewLease2`: `unixSec := expirationTime.Unix(); if unixSec < 0 || uint64(unixSec) > LEASE2_MAX_END_DATE`
    rejects, otherwise stores `uint32(unixSec)`. -/
def newLease2 (unixSec : Int) : Option Nat :=
  if unixSec < 0 ∨ wrapUInt64 unixSec > 2^32 - 1 then none else some (wrapUInt32 unixSec)
/-- `lease.NewLease2` on the `time.Time` argument -/
def newLease2FromTime (t : GoTime) : Option Nat := newLease2 (unixOf t)
/-- `Lease2.Time()`: `time.Unix(int64(seconds), 0).UTC()` -/
def lease2Time (endDate : Nat) : GoTime := timeUnix (int64OfUInt32 endDate) 0
/-- `Lease2.Time().Unix()` -/
def lease2TimeSeconds (endDate : Nat) : Int := unixOf (lease2Time endDate)
/-- `Lease2.Date()`: `uint64(lease2.EndDate()) * 1000` as an unsigned 64-bit value -/
def lease2DateMillis (endDate : Nat) : Nat := mulUInt64 (endDate % 2^32) 1000
/-- `Lease2.Date()` bytes -/
def lease2Date (endDate : Nat) : Bytes := beEnc 8 (lease2DateMillis endDate)
/-- `Lease2.IsExpired()`: `lease2.Time().Before(time.Now())` -/
def lease2IsExpired (now : GoTime) (endDate : Nat) : Bool := timeBefore (lease2Time endDate) now

/-! ### lease_set.LeaseSet -/

/-- `LeaseSet.NewestExpiration()` over the end dates of the leases (in order): the loop keeps `newest` and replaces
    it when `date.Time().After(newest.Time())`; no leases is `ErrNoLeases`. -/
def newestExpiration : List Nat → Option Nat
  | [] => none
  | d :: ds => some (ds.foldl (fun newest date => if timeAfter (dateTimeOf date) (dateTimeOf newest) then date else newest) d)

/-- `LeaseSet.OldestExpiration()`: replaces when `date.Time().Before(earliest.Time())`. -/
def oldestExpiration : List Nat → Option Nat
  | [] => none
  | d :: ds => some (ds.foldl (fun earliest date => if timeBefore (dateTimeOf date) (dateTimeOf earliest) then date else earliest) d)

/-! ### lease_set2.LeaseSet2 -/

/-- `LeaseSet2.PublishedTime()`: `time.Unix(int64(ls2.published), 0).UTC()` -/
def ls2PublishedTime (published : Nat) : GoTime := timeUnix (int64OfUInt32 published) 0
/-- `LeaseSet2.ExpirationTime()`: `ls2.PublishedTime().Add(time.Duration(ls2.expires) * time.Second)` -/
def ls2ExpirationTime (published expires : Nat) : GoTime :=
  timeAdd (ls2PublishedTime published) (durationSeconds expires)
/-- `LeaseSet2.PublishedTime().Unix()` -/
def ls2PublishedSeconds (published : Nat) : Int := unixOf (ls2PublishedTime published)
/-- `LeaseSet2.ExpirationTime().Unix()` -/
def ls2ExpirationSeconds (published expires : Nat) : Int := unixOf (ls2ExpirationTime published expires)
/-- `LeaseSet2.IsExpired()`: `time.Now().After(ls2.ExpirationTime())` -/
def ls2IsExpired (now : GoTime) (published expires : Nat) : Bool := timeAfter now (ls2ExpirationTime published expires)

/-! ### encrypted_leaseset.EncryptedLeaseSet -/

/-- `validateEncryptedLeaseSetFields`: `ReadEncryptedLeaseSet` and the constructor reject `expires == 0` -/
def elsExpiresAccepted (expires : Nat) : Bool := expires != 0
/-- `EncryptedLeaseSet.PublishedTime()` -/
def elsPublishedTime (published : Nat) : GoTime := timeUnix (int64OfUInt32 published) 0
/-- `EncryptedLeaseSet.ExpirationTime()` -/
def elsExpirationTime (published expires : Nat) : GoTime :=
  timeAdd (elsPublishedTime published) (durationSeconds expires)
def elsPublishedSeconds (published : Nat) : Int := unixOf (elsPublishedTime published)
def elsExpirationSeconds (published expires : Nat) : Int := unixOf (elsExpirationTime published expires)
/-- `EncryptedLeaseSet.IsExpired()` -/
def elsIsExpired (now : GoTime) (published expires : Nat) : Bool := timeAfter now (elsExpirationTime published expires)

/-! ### meta_leaseset.MetaLeaseSet and MetaLeaseSetEntry -/

/-- `MetaLeaseSet.PublishedTime()` -/
def metaPublishedTime (published : Nat) : GoTime := timeUnix (int64OfUInt32 published) 0
/-- `MetaLeaseSet.ExpirationTime()` -/
def metaExpirationTime (published expires : Nat) : GoTime :=
  timeAdd (metaPublishedTime published) (durationSeconds expires)
def metaPublishedSeconds (published : Nat) : Int := unixOf (metaPublishedTime published)
def metaExpirationSeconds (published expires : Nat) : Int := unixOf (metaExpirationTime published expires)
/-- `MetaLeaseSet.IsExpired()` -/
def metaIsExpired (now : GoTime) (published expires : Nat) : Bool := timeAfter now (metaExpirationTime published expires)

/-- `MetaLeaseSetEntry.ExpiresTime()`: `time.Unix(int64(entry.expires), 0).UTC()` -/
def entryExpiresTime (expires : Nat) : GoTime := timeUnix (int64OfUInt32 expires) 0
def entryExpiresSeconds (expires : Nat) : Int := unixOf (entryExpiresTime expires)
/-- `MetaLeaseSetEntry.IsExpired()`: `time.Now().After(entry.ExpiresTime())` -/
def entryIsExpired (now : GoTime) (expires : Nat) : Bool := timeAfter now (entryExpiresTime expires)

/-! ### offline_signature.OfflineSignature -/

/-- `OfflineSignature.ExpiresTime()`: `time.Unix(int64(o.expires), 0).UTC()` -/
def offlineExpiresTime (expires : Nat) : GoTime := timeUnix (int64OfUInt32 expires) 0
/-- `OfflineSignature.ExpiresTime().Unix()` -/
def offlineExpiresSeconds (expires : Nat) : Int := unixOf (offlineExpiresTime expires)
/-- `OfflineSignature.ExpiresDate()`: `data.DateFromTime(time.Unix(int64(o.expires), 0).UTC())` -/
def offlineExpiresDate (expires : Nat) : Bytes := dateFromTime (timeUnix (int64OfUInt32 expires) 0)
/-- unsigned value of `OfflineSignature.ExpiresDate()` -/
def offlineExpiresDateMillis (expires : Nat) : Nat := beVal (offlineExpiresDate expires)
/-- `OfflineSignature.IsExpired()`: `time.Now().UTC().After(o.ExpiresTime())` -/
def offlineIsExpired (now : GoTime) (expires : Nat) : Bool := timeAfter now (offlineExpiresTime expires)

/-! ### router_info (published date of a new RouterInfo) -/

/-- `router_info.createPublishedDate`: `uint64(publishedTime.UnixMilli())` -/
def createPublishedDate (t : GoTime) : Nat := wrapUInt64 t.unixMilli

end I2P.Time
