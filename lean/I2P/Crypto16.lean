import I2P.Structs
/-! Symbolic model of `encrypted_leaseset/encryption.go` and `encrypted_leaseset/blinding.go` (property C16).

The cryptographic primitives are *parameters* (`EncScheme`, `BlindScheme`): the model fixes the data flow —
which bytes go into which primitive, how the blob is laid out, which length checks run, what is parsed at
the end — and nothing about X25519, HKDF, ChaCha20-Poly1305 or edwards25519 themselves.  Every fact about
the primitives that a theorem needs is a *named hypothesis* (`DhComm`, `AeadCorrect`, `AeadAuthAt`, …);
they are the trusted base of C16 and are listed, with their status (law / idealisation), below.

The harness (`harness/ops_c16.go`) checks the library's output through exactly this layout with crypto that
does not pass through the code under test, and validates `utcDay` differentially (`utcDay` op). -/

namespace I2P.Crypto16
open I2P I2P.Structs

/-! ## Encryption -/

/-- The primitives `encryption.go` is written against. -/
structure EncScheme where
  /-- `x25519.PrivateKey.SharedKey(peer)` = `curve25519.X25519(priv, peer)`; `none` = the error return
      (wrong length, all-zero output for a low-order peer point) -/
  dh : (priv peer : Bytes) → Option Bytes
  /-- `x25519.GenerateKey`: the public key `curve25519.X25519(priv, Basepoint)` of a private key -/
  pub : Bytes → Bytes
  /-- `deriveSymmetricKey`: HKDF-SHA-256(ikm = shared secret, no salt,
      info = "i2p-encrypted-leaseset-encryption", 32 bytes) -/
  derive : Bytes → Bytes
  /-- `chacha20poly1305.AEAD.Encrypt(plain, nil, nonce)`: ciphertext and 16-byte tag, no associated data -/
  aeadSeal : (key nonce plain : Bytes) → Bytes × Bytes
  /-- `chacha20poly1305.AEAD.Decrypt(ct, tag, nil, nonce)`; `none` = authentication failure -/
  aeadOpen : (key nonce ct tag : Bytes) → Option Bytes

/-- `x25519.PublicKeySize + chacha20poly1305.NonceSize + chacha20poly1305.TagSize` (`validateEncryptedDataLength`) -/
def minBlob : Nat := 32 + 12 + 16

/-- `EncryptInnerLeaseSet2(ls2, cookie, recipientPublicKey)` with its two random draws made explicit:
    `ephPriv` (the 32 bytes `x25519.GenerateKey` reads) and `nonce` (the 12 bytes `rand.Read` fills).
    `plain` is `ls2.Bytes()` (`serializeLeaseSet2Plaintext`).  The cookie is not used by the code.
    Result: `ephemeral_pub ‖ nonce ‖ ciphertext ‖ tag` (`encryptAndAssemble`). -/
def encryptLS2 (E : EncScheme) (plain recipientPub ephPriv nonce : Bytes) : Option Bytes :=
  -- extractRecipientPublicKeyBytes ([]byte / Curve25519PublicKey forms)
  if recipientPub.length ≠ 32 then none else
  -- deriveEncryptionKey
  match E.dh ephPriv recipientPub with
  | none => none
  | some shared =>
    let key := E.derive shared
    -- encryptAndAssemble; `AEAD.Encrypt` refuses other nonce sizes
    if nonce.length ≠ 12 then none else
    let ct := E.aeadSeal key nonce plain
    some (E.pub ephPriv ++ nonce ++ ct.1 ++ ct.2)

/-- `validateEphemeralPublicKey` (fix of D10): the most significant bit of the last byte must be clear -/
def ephCanonical (e : Bytes) : Bool := decide ((e.getD 31 0).toNat < 128)

/-- `(*EncryptedLeaseSet).DecryptInnerData(authCookie, privateKey)` on `encryptedInnerData = blob`;
    the result is `Bytes()` of the LeaseSet2 that `parseDecryptedLeaseSet2` returns (the remainder the
    LeaseSet2 reader leaves is discarded by the code, and so it is here). -/
def decryptLS2 (E : EncScheme) (cookie blob priv : Bytes) : Option Bytes :=
  if cookie.length ≠ 32 then none else
  -- extractX25519PrivateKey
  if priv.length ≠ 32 then none else
  -- validateEncryptedDataLength
  if blob.length < minBlob then none else
  -- validateEphemeralPublicKey
  if !ephCanonical (blob.take 32) then none else
  -- deriveDecryptionKey
  match E.dh priv (blob.take 32) with
  | none => none
  | some shared =>
    let key := E.derive shared
    -- extractEncryptionComponents
    let nonce := (blob.drop 32).take 12
    let ctTag := blob.drop 44
    if ctTag.length < 16 then none else
    let ct := ctTag.take (ctTag.length - 16)
    let tag := ctTag.drop (ctTag.length - 16)
    -- decryptWithAEAD
    match E.aeadOpen key nonce ct tag with
    | none => none
    | some plain =>
      -- parseDecryptedLeaseSet2
      match readLeaseSet2 plain with
      | none => none
      | some (b, _) => some b

/-! ### Hypotheses about the primitives (trusted base)

Laws (true of the real primitives): -/

/-- X25519: `X25519(a, X25519(b, 9)) = X25519(b, X25519(a, 9))` -/
def DhComm (E : EncScheme) : Prop := ∀ a b, E.dh a (E.pub b) = E.dh b (E.pub a)
/-- the public key of a 32-byte private key has 32 bytes -/
def PubLen (E : EncScheme) : Prop := ∀ a, a.length = 32 → (E.pub a).length = 32
/-- X25519 outputs are reduced modulo 2^255 − 19: bit 255 of a public key is clear -/
def PubCanonical (E : EncScheme) : Prop := ∀ a, ephCanonical (E.pub a) = true
/-- X25519 between two honestly generated 32-byte keys never fails (the public key of a clamped scalar has
    prime order, so the shared point is not the all-zero value that `curve25519.X25519` rejects) -/
def DhDefined (E : EncScheme) : Prop := ∀ a b, a.length = 32 → b.length = 32 → (E.dh a (E.pub b)).isSome
/-- the Poly1305 tag has 16 bytes -/
def TagLen (E : EncScheme) : Prop := ∀ k n p, (E.aeadSeal k n p).2.length = 16
/-- ChaCha20 is a stream cipher: the ciphertext is as long as the plaintext -/
def CtLen (E : EncScheme) : Prop := ∀ k n p, (E.aeadSeal k n p).1.length = p.length
/-- AEAD correctness: opening what was sealed, with the same key and nonce, returns the plaintext -/
def AeadCorrect (E : EncScheme) : Prop :=
  ∀ k n p, E.aeadOpen k n (E.aeadSeal k n p).1 (E.aeadSeal k n p).2 = some p

/-! Idealisations (computational security rendered as absolute statements; *not* literally true of any
16-byte-tag AEAD, 32-byte KDF or of X25519 — see each comment).  They are relative to one encryption
session `(k, n, p)` = (derived key, nonce, plaintext): an absolute "nothing else ever opens" would
contradict `AeadCorrect`, because whoever knows `k` can seal something else. -/

/-- `aead_auth` — ciphertext integrity for the one-time session key: under `k` nothing opens except the
    triple (nonce, ciphertext, tag) that was sealed.  (INT-CTXT with a single sealing query.) -/
def AeadAuthAt (E : EncScheme) (k n p : Bytes) : Prop :=
  ∀ n' c' t', (E.aeadOpen k n' c' t').isSome → n' = n ∧ c' = (E.aeadSeal k n p).1 ∧ t' = (E.aeadSeal k n p).2
/-- `aead_wrong_key` — what was sealed under `k` does not open under any other key. -/
def AeadWrongKeyAt (E : EncScheme) (k n p : Bytes) : Prop :=
  ∀ k', k' ≠ k → E.aeadOpen k' n (E.aeadSeal k n p).1 (E.aeadSeal k n p).2 = none
/-- `derive_inj` — HKDF has no collisions. -/
def DeriveInj (E : EncScheme) : Prop := ∀ s s', E.derive s = E.derive s' → s = s'
/-- `dh_inj` — for a fixed private key, X25519 is injective on the 32-byte strings satisfying `canon`.
    For the real X25519 `canon` cannot be `True`: bit 255 is masked (D10), values `≥ 2^255 − 19` are reduced,
    and adding a point of order dividing 8 does not change the result. -/
def DhInjOn (E : EncScheme) (canon : Bytes → Prop) : Prop :=
  ∀ sk e e' s, sk.length = 32 → e.length = 32 → e'.length = 32 → canon e → canon e' →
    E.dh sk e = some s → E.dh sk e' = some s → e = e'

/-! ## The UTC day (`deriveBlindedPublicKey`: `date.UTC().Format("2006-01-02")`) -/

/-- a `time.Time` as far as `Format` is concerned: the instant and the offset of its `Location` -/
structure GoInstant where
  unix : Int
  offset : Int
deriving Repr, DecidableEq

/-- `time.Unix(s, 0).In(time.FixedZone(_, off))` -/
def inZone (s off : Int) : GoInstant := ⟨s, off⟩
/-- `Time.UTC()`: same instant, `Location` UTC -/
def GoInstant.utc (t : GoInstant) : GoInstant := ⟨t.unix, 0⟩

/-- proleptic Gregorian (year, month, day) of a day number counted from 1970-01-01, as `Time.Date()` yields it
    (days-from-civil inverse; validated differentially against Go's `time` by the `utcDay` op) -/
def civil (days : Int) : Int × Int × Int :=
  let z := days + 719468
  let era := z / 146097
  let doe := z % 146097
  let yoe := (doe - doe / 1460 + doe / 36524 - doe / 146096) / 365
  let doy := doe - (365 * yoe + yoe / 4 - yoe / 100)
  let mp := (5 * doy + 2) / 153
  let d := doy - (153 * mp + 2) / 5 + 1
  let m := if mp < 10 then mp + 3 else mp - 9
  let y := yoe + era * 400
  (if m ≤ 2 then y + 1 else y, m, d)

def dec2 (n : Nat) : Bytes := [UInt8.ofNat (48 + n / 10 % 10), UInt8.ofNat (48 + n % 10)]
def dec4 (n : Nat) : Bytes := dec2 (n / 100) ++ dec2 (n % 100)

/-- `t.Format("2006-01-02")` followed by the validation of `kdf.DeriveBlindingFactor`
    (`^\d{4}-\d{2}-\d{2}$` and `time.Parse`): `none` when the year is not one of 0000 … 9999. -/
def formatDay (t : GoInstant) : Option Bytes :=
  let (y, m, d) := civil ((t.unix + t.offset) / 86400)
  if 0 ≤ y ∧ y ≤ 9999 then some (dec4 y.toNat ++ [45] ++ dec2 m.toNat ++ [45] ++ dec2 d.toNat) else none

/-- the date string `CreateBlindedDestination` derives for the instant `s` carried in a zone of offset `off` -/
def utcDay (s off : Int) : Option Bytes := formatDay (inZone s off).utc

/-- what the code would derive without the `.UTC()` call (mutant M43) — for contrast only -/
def localDay (s off : Int) : Option Bytes := formatDay (inZone s off)

/-! ## Blinding -/

/-- The primitives `blinding.go` is written against. -/
structure BlindScheme where
  /-- `kdf.DeriveBlindingFactor(secret, date)` after its own validation: HKDF-SHA-256(ikm = secret,
      salt = date, info = "i2p-blinding-factor", 64 bytes) reduced by `SetUniformBytes` -/
  factor : (secret date : Bytes) → Bytes
  /-- `ed25519.BlindPublicKey(P, alpha)` = `P + alpha·B`; `none` = not a point / non-canonical scalar /
      neutral element -/
  blind : (key alpha : Bytes) → Option Bytes

/-- the parts of a Destination the blinding code touches -/
structure Dest where
  encKey : Bytes
  padding : Bytes
  sigKey : Bytes
  cert : Bytes
  /-- `KeyCertificate.SigningPublicKeyType()` -/
  sigType : Nat
deriving DecidableEq

/-- `CreateBlindedDestination(dest, secret, time.Unix(s,0).In(FixedZone(off)))` -/
def createBlinded (B : BlindScheme) (d : Dest) (secret : Bytes) (s off : Int) : Option Dest :=
  -- validateBlindingSigType
  if d.sigType ≠ 7 ∧ d.sigType ≠ 11 then none else
  -- kdf.DeriveBlindingFactor: secret length, then the date
  if secret.length < 32 then none else
  match utcDay s off with
  | none => none
  | some date =>
    -- extractOriginalSigningKey
    if d.sigKey.length ≠ 32 then none else
    match B.blind d.sigKey (B.factor secret date) with
    | none => none
    -- assembleBlindedDestination
    | some k => some { d with sigKey := k }

/-- `extractEd25519SigningKey`: the signing types `validateBlindingSigType` admits (Ed25519 and RedDSA) -/
def ed25519KeyOf (d : Dest) : Option Bytes :=
  if d.sigType ≠ 7 ∧ d.sigType ≠ 11 then none else if d.sigKey.length ≠ 32 then none else some d.sigKey

/-- `VerifyBlindedSignature(blinded, original, alpha)` -/
def verifyBlinded (B : BlindScheme) (blinded original : Dest) (alpha : Bytes) : Bool :=
  match ed25519KeyOf original, ed25519KeyOf blinded with
  | some o, some b => B.blind o alpha == some b
  | _, _ => false

/-- `blind_inj` (idealisation, true of edwards25519 for canonical scalars): `α ↦ P + α·B` is injective -/
def BlindInj (B : BlindScheme) : Prop := ∀ k a a' r, B.blind k a = some r → B.blind k a' = some r → a = a'
/-- the blinded key has 32 bytes -/
def BlindLen (B : BlindScheme) : Prop := ∀ k a r, B.blind k a = some r → r.length = 32

end I2P.Crypto16
