/-! # An abstract shared-memory machine (C18)

Locations are natural numbers.  A thread is a list of atomic steps; the machine state is one shared
memory plus, per thread, the steps still to do, a *private* overlay memory (objects the thread allocated
itself: a `writePrivate` makes the location thread-local from then on) and the values it has read so far.
A schedule is a list of thread indices; each element lets that thread perform its next step (an index
that is out of range, or whose thread has finished, is a stutter step).

This is deliberately the smallest machine in which "read-only" can be *stated*: `read` observes the
private overlay first and the shared memory otherwise, `writePrivate` touches only the overlay,
`writeShared` is the only step that changes what other threads can observe.  What a Go function's
instructions are mapped to is the business of `I2P.Props.C18` (Theorem 2 and the effect facts). -/
namespace I2P.Conc

/-- one atomic memory access of a thread -/
inductive Step where
  /-- load from `loc`: the thread's private copy if it has one, the shared memory otherwise -/
  | read (loc : Nat)
  /-- store to an object the thread allocated itself (`new`, `make`, a fresh `append` result, a local) -/
  | writePrivate (loc : Nat) (val : Nat)
  /-- store to memory that other threads can see (receiver fields, backing arrays, package variables) -/
  | writeShared (loc : Nat) (val : Nat)
  deriving DecidableEq, Repr

abbrev Thread := List Step
abbrev Mem := Nat → Nat

def Step.loc : Step → Nat
  | .read l => l
  | .writePrivate l _ => l
  | .writeShared l _ => l

def Step.isSharedWrite : Step → Bool
  | .writeShared _ _ => true
  | _ => false

/-- two steps conflict when they touch the same location and at least one of them is a shared write
    (private writes never conflict: the overlay is per thread) -/
def conflict (a b : Step) : Bool :=
  a.loc == b.loc && (a.isSharedWrite || b.isSharedWrite)

/-- a thread is read-only when it performs no shared write -/
def readOnly (t : Thread) : Prop := ∀ s ∈ t, s.isSharedWrite = false

instance (t : Thread) : Decidable (readOnly t) := by unfold readOnly; infer_instance

def upd {α : Type} (m : Nat → α) (l : Nat) (v : α) : Nat → α := fun x => if x = l then v else m x

/-- per-thread state: pending steps, private overlay, values read so far (oldest first) -/
structure TState where
  todo : List Step
  priv : Nat → Option Nat
  reads : List Nat

def TState.init (t : Thread) : TState := ⟨t, fun _ => none, []⟩

/-- one step of one thread against the shared memory; a finished thread stutters -/
def tstep (s : TState) (mem : Mem) : TState × Mem :=
  match s.todo with
  | [] => (s, mem)
  | .read l :: rest => ({ s with todo := rest, reads := s.reads ++ [(s.priv l).getD (mem l)] }, mem)
  | .writePrivate l v :: rest => ({ s with todo := rest, priv := upd s.priv l (some v) }, mem)
  | .writeShared l v :: rest => ({ s with todo := rest }, upd mem l v)

structure Machine where
  threads : List TState
  mem : Mem

def Machine.init (ts : List Thread) (mem : Mem) : Machine := ⟨ts.map TState.init, mem⟩

/-- the scheduler picks thread `i` -/
def mstep (m : Machine) (i : Nat) : Machine :=
  match m.threads[i]? with
  | none => m
  | some s => { threads := m.threads.set i (tstep s m.mem).1, mem := (tstep s m.mem).2 }

def runMachine (m : Machine) (sched : List Nat) : Machine := sched.foldl mstep m

/-- the values each thread read when the threads are run under `sched` -/
def runInterleaved (ts : List Thread) (sched : List Nat) (mem : Mem) : List (List Nat) :=
  (runMachine (Machine.init ts mem) sched).threads.map (·.reads)

/-- the shared memory after running under `sched` -/
def memAfter (ts : List Thread) (sched : List Nat) (mem : Mem) : Mem :=
  (runMachine (Machine.init ts mem) sched).mem

/-- sequential semantics of a step list from a given overlay and memory: the values read -/
def runSeq : List Step → (Nat → Option Nat) → Mem → List Nat
  | [], _, _ => []
  | .read l :: rest, priv, mem => (priv l).getD (mem l) :: runSeq rest priv mem
  | .writePrivate l v :: rest, priv, mem => runSeq rest (upd priv l (some v)) mem
  | .writeShared l v :: rest, priv, mem => runSeq rest priv (upd mem l v)

/-- the values a thread reads when it runs alone on `mem` -/
def runAlone (t : Thread) (mem : Mem) : List Nat := runSeq t (fun _ => none) mem

/-- a schedule is complete for `ts` when every thread is scheduled at least as often as it has steps -/
def complete (ts : List Thread) (sched : List Nat) : Prop :=
  ∀ i (h : i < ts.length), ts[i].length ≤ sched.count i

instance (ts : List Thread) (sched : List Nat) : Decidable (complete ts sched) := by
  unfold complete; infer_instance

/-- the step the scheduler's choice `i` executes in state `m` (none: a stutter) -/
def executed (m : Machine) (i : Nat) : Option Step := (m.threads[i]?).bind (·.todo.head?)

/-- the trace of executed steps, tagged with the executing thread -/
def trace : Machine → List Nat → List (Nat × Step)
  | _, [] => []
  | m, i :: rest => ((executed m i).map (fun s => (i, s))).toList ++ trace (mstep m i) rest

/-! ## Lemmas -/

/-- what a thread will have read at the end if it runs undisturbed from state `s` on memory `mem` -/
def TState.final (s : TState) (mem : Mem) : List Nat := s.reads ++ runSeq s.todo s.priv mem

/-- all pending steps of all threads are read-only -/
def Machine.RO (m : Machine) : Prop := ∀ s ∈ m.threads, readOnly s.todo

theorem tstep_todo_length (s : TState) (mem : Mem) : (tstep s mem).1.todo.length = s.todo.length - 1 := by
  unfold tstep
  split <;> simp_all

theorem tstep_ro {s : TState} (mem : Mem) (h : readOnly s.todo) :
    (tstep s mem).2 = mem ∧ readOnly (tstep s mem).1.todo ∧ (tstep s mem).1.final mem = s.final mem := by
  unfold tstep
  split
  · exact ⟨rfl, h, rfl⟩
  · rename_i l rest heq
    refine ⟨rfl, ?_, ?_⟩
    · intro x hx; exact h x (by rw [heq]; exact List.mem_cons_of_mem _ hx)
    · simp [TState.final, heq, runSeq]
  · rename_i l v rest heq
    refine ⟨rfl, ?_, ?_⟩
    · intro x hx; exact h x (by rw [heq]; exact List.mem_cons_of_mem _ hx)
    · simp [TState.final, heq, runSeq]
  · rename_i l v rest heq
    have := h (.writeShared l v) (by rw [heq]; exact List.mem_cons_self)
    simp [Step.isSharedWrite] at this

theorem mstep_ro {m : Machine} (i : Nat) (h : m.RO) :
    (mstep m i).mem = m.mem ∧ (mstep m i).RO ∧
      (mstep m i).threads.map (·.final m.mem) = m.threads.map (·.final m.mem) := by
  unfold mstep
  cases hi : m.threads[i]? with
  | none => exact ⟨rfl, h, rfl⟩
  | some s =>
    have hs : s ∈ m.threads := List.mem_of_getElem? hi
    obtain ⟨h1, h2, h3⟩ := tstep_ro m.mem (h s hs)
    refine ⟨h1, ?_, ?_⟩
    · intro x hx
      rcases List.mem_or_eq_of_mem_set hx with hx | hx
      · exact h x hx
      · rw [hx]; exact h2
    · simp only [List.map_set, h3]
      apply List.ext_getElem?
      intro j
      rw [List.getElem?_set]
      split
      · rename_i hij
        subst hij
        simp only [List.length_map, List.getElem?_map, hi, Option.map_some]
        split <;> rename_i hlt
        · rfl
        · exact absurd (List.getElem?_eq_some_iff.mp hi).1 hlt
      · rfl

/-- read-only threads leave the shared memory alone and each thread's eventual result is invariant,
    whatever the schedule (induction on the schedule) -/
theorem run_ro (sched : List Nat) : ∀ {m : Machine}, m.RO →
    (runMachine m sched).mem = m.mem ∧ (runMachine m sched).RO ∧
      (runMachine m sched).threads.map (·.final m.mem) = m.threads.map (·.final m.mem) := by
  induction sched with
  | nil => intro m h; exact ⟨rfl, h, rfl⟩
  | cons i rest ih =>
    intro m h
    obtain ⟨h1, h2, h3⟩ := mstep_ro i h
    obtain ⟨k1, k2, k3⟩ := ih h2
    simp only [runMachine, List.foldl_cons] at *
    refine ⟨k1.trans h1, k2, ?_⟩
    rw [h1] at k3
    exact k3.trans h3

theorem mstep_progress (m : Machine) (i j : Nat) :
    ((mstep m i).threads[j]?).map (·.todo.length) =
      (m.threads[j]?).map (fun s => s.todo.length - (if i = j then 1 else 0)) := by
  unfold mstep
  cases hi : m.threads[i]? with
  | none =>
    by_cases hij : i = j
    · subst hij; simp [hi]
    · simp [hij]
  | some s =>
    simp only [List.getElem?_set]
    by_cases hij : i = j
    · subst hij
      obtain ⟨hlt, heq⟩ := List.getElem?_eq_some_iff.mp hi
      simp [hlt, heq, tstep_todo_length]
    · simp [hij]

/-- thread `j` has exactly `sched.count j` fewer pending steps (truncated at 0) after `sched` -/
theorem run_progress (sched : List Nat) : ∀ (m : Machine) (j : Nat),
    ((runMachine m sched).threads[j]?).map (·.todo.length) =
      (m.threads[j]?).map (fun s => s.todo.length - sched.count j) := by
  induction sched with
  | nil => intro m j; simp [runMachine]
  | cons i rest ih =>
    intro m j
    have h1 := ih (mstep m i) j
    have h2 := mstep_progress m i j
    show ((runMachine (mstep m i) rest).threads[j]?).map (·.todo.length) = _
    rw [h1]
    cases hm : (mstep m i).threads[j]? with
    | none =>
      rw [hm] at h2
      cases hj : m.threads[j]? with
      | none => rfl
      | some s => rw [hj] at h2; simp at h2
    | some s' =>
      rw [hm] at h2
      cases hj : m.threads[j]? with
      | none => rw [hj] at h2; simp at h2
      | some s =>
        rw [hj] at h2
        simp only [Option.map_some, Option.some.injEq] at h2 ⊢
        rw [h2, List.count_cons]
        by_cases hij : i = j
        · subst hij; simp; omega
        · have : (i == j) = false := by simp [hij]
          simp [hij, this]

theorem trace_ro (sched : List Nat) : ∀ {m : Machine}, m.RO →
    ∀ x ∈ trace m sched, x.2.isSharedWrite = false := by
  induction sched with
  | nil => intro m _ x hx; simp [trace] at hx
  | cons i rest ih =>
    intro m h x hx
    simp only [trace, List.mem_append] at hx
    rcases hx with hx | hx
    · unfold executed at hx
      cases hi : m.threads[i]? with
      | none => simp [hi] at hx
      | some s =>
        cases hh : s.todo.head? with
        | none => simp [hi, hh] at hx
        | some st =>
          simp [hi, hh] at hx
          subst hx
          exact h s (List.mem_of_getElem? hi) st (List.mem_of_head? hh)
    · exact ih (mstep_ro i h).2.1 x hx

theorem init_ro {ts : List Thread} (mem : Mem) (h : ∀ t ∈ ts, readOnly t) : (Machine.init ts mem).RO := by
  intro s hs
  simp only [Machine.init, List.mem_map] at hs
  obtain ⟨t, ht, rfl⟩ := hs
  exact h t ht

end I2P.Conc
