import I2P.Props.C12
#print axioms I2P.Props.C12.int_roundtrip
#print axioms I2P.Props.C12.int_reject
#print axioms I2P.Props.C12.int_read_back
#print axioms I2P.Props.C12.int_read_short
#print axioms I2P.Props.C12.uint_full_range
#print axioms I2P.Props.C12.date_roundtrip
#print axioms I2P.Props.C12.date_reject
#print axioms I2P.Props.C12.date_read_back
#print axioms I2P.Props.C12.string_roundtrip
#print axioms I2P.Props.C12.string_reject
#print axioms I2P.Props.C12.string_read_sound
