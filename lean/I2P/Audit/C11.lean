import I2P.Props.C11
#print axioms I2P.Props.C11.size_field
