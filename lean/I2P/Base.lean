import I2P.Bytes
/-! # base32 / base64 with the I2P alphabets (`/repo/base32`, `/repo/base64`)

Executable model of every exported encode/decode function of the two packages, faithful to what the
library does today.  The library delegates to Go's `encoding/base32` and `encoding/base64`
(Go 1.24.12); the decoders below are written after `(*Encoding).decode` of those packages, including
the leniencies of DESIGN.md appendix G:

* D25  the no-padding base32 decoder treats the byte `0xFF` (`byte(NoPadding)`) as a padding character;
* D26  both base32 decoders ignore whatever follows a valid padding run;
* D27  the no-padding base32 decoder returns no bytes and no error for a final quantum of 1, 3 or 6
       characters.

The encoders are written per 5-byte / 3-byte group with `/` and `%` on `Nat` (bit level; `omega`
can reason about it).  An independent bit-*list* formulation (`Spec.encode`) is kept next to it and is
compared with the group formulation on every case of the correspondence run (driver ops `b32enc`, …).

The post-fix variants `dec32Strict`, `dec32NoPadStrict`, … at the end of the file describe the library
after `fixes/D25-D27-base32-strict.diff` (input validated before delegating).  Core-only. -/

namespace I2P.Base

/-! ## Alphabets and limits (constants.go) -/

/-- `base32.I2PEncodeAlphabet` = "abcdefghijklmnopqrstuvwxyz234567" -/
def alpha32 : List UInt8 :=
  [97,98,99,100,101,102,103,104,105,106,107,108,109,110,111,112,113,114,115,116,117,118,119,120,121,122,
   50,51,52,53,54,55]

/-- `base64.I2PEncodeAlphabet` = "ABCDEFGHIJKLMNOPQRSTUVWXYZabcdefghijklmnopqrstuvwxyz0123456789-~" -/
def alpha64 : List UInt8 :=
  [65,66,67,68,69,70,71,72,73,74,75,76,77,78,79,80,81,82,83,84,85,86,87,88,89,90,
   97,98,99,100,101,102,103,104,105,106,107,108,109,110,111,112,113,114,115,116,117,118,119,120,121,122,
   48,49,50,51,52,53,54,55,56,57,45,126]

/-- `encoding/base32.StdPadding`, `encoding/base64.StdPadding` = '=' -/
def padChar : UInt8 := 61
/-- `byte(encoding/base32.NoPadding)` = `byte(rune(-1))` -/
def noPadByte : UInt8 := 255

/-- `base32.MAX_ENCODE_SIZE` = 10 MiB -/
def maxEncode32 : Nat := 10 * 1024 * 1024
/-- `base32.MAX_DECODE_SIZE` = (MAX_ENCODE_SIZE*8 + 4) / 5 -/
def maxDecode32 : Nat := (maxEncode32 * 8 + 4) / 5
/-- `base64.MAX_ENCODE_SIZE` = 10 MiB -/
def maxEncode64 : Nat := 10 * 1024 * 1024
/-- `base64.MAX_DECODE_SIZE` = ((MAX_ENCODE_SIZE + 2) / 3) * 4 -/
def maxDecode64 : Nat := ((maxEncode64 + 2) / 3) * 4

/-- `enc.encode[i]` -/
def chr (alpha : List UInt8) (i : Nat) : UInt8 := alpha.getD i 0
/-- `enc.decodeMap[c]` (`none` = 0xFF, "not in the alphabet") -/
def idx (alpha : List UInt8) (c : UInt8) : Option Nat := if c ∈ alpha then some (alpha.idxOf c) else none

abbrev chr32 := chr alpha32
abbrev idx32 := idx alpha32
abbrev chr64 := chr alpha64
abbrev idx64 := idx alpha64

/-- `stripNewlines` of encoding/base32; encoding/base64 skips the same two bytes inside its loop -/
def stripNL (s : Bytes) : Bytes := s.filter fun c => c != 10 && c != 13

/-! ## base32 -/

/-- `n` padding characters if the encoding pads -/
def pads (padded : Bool) (n : Nat) : Bytes := if padded then List.replicate n padChar else []

/-- `(*base32.Encoding).Encode` on the byte values: 5 bytes → 8 five-bit digits, a final group of
    1/2/3/4 bytes → 2/4/5/7 digits (low bits zero) followed by padding. -/
def enc32Core (padded : Bool) : Bytes → Bytes
  | [] => []
  | [a] =>
    [chr32 (a.toNat / 8), chr32 (a.toNat % 8 * 4)] ++ pads padded 6
  | [a, b] =>
    [chr32 (a.toNat / 8), chr32 (a.toNat % 8 * 4 + b.toNat / 64), chr32 (b.toNat / 2 % 32),
     chr32 (b.toNat % 2 * 16)] ++ pads padded 4
  | [a, b, c] =>
    [chr32 (a.toNat / 8), chr32 (a.toNat % 8 * 4 + b.toNat / 64), chr32 (b.toNat / 2 % 32),
     chr32 (b.toNat % 2 * 16 + c.toNat / 16), chr32 (c.toNat % 16 * 2)] ++ pads padded 3
  | [a, b, c, d] =>
    [chr32 (a.toNat / 8), chr32 (a.toNat % 8 * 4 + b.toNat / 64), chr32 (b.toNat / 2 % 32),
     chr32 (b.toNat % 2 * 16 + c.toNat / 16), chr32 (c.toNat % 16 * 2 + d.toNat / 128),
     chr32 (d.toNat / 4 % 32), chr32 (d.toNat % 4 * 8)] ++ pads padded 1
  | a :: b :: c :: d :: e :: rest =>
    chr32 (a.toNat / 8) :: chr32 (a.toNat % 8 * 4 + b.toNat / 64) :: chr32 (b.toNat / 2 % 32) ::
    chr32 (b.toNat % 2 * 16 + c.toNat / 16) :: chr32 (c.toNat % 16 * 2 + d.toNat / 128) ::
    chr32 (d.toNat / 4 % 32) :: chr32 (d.toNat % 4 * 8 + e.toNat / 32) :: chr32 (e.toNat % 32) ::
    enc32Core padded rest

/-- `base32.EncodeToString` -/
def enc32 (x : Bytes) : Bytes := enc32Core true x
/-- `base32.EncodeToStringNoPadding` -/
def enc32NoPad (x : Bytes) : Bytes := enc32Core false x

/-- the `switch dlen` at the end of a quantum in `(*base32.Encoding).decode`: 8/7/5/4/2 digits give
    5/4/3/2/1 bytes, **any other count gives nothing** (D27 when reached at the end of unpadded input).
    Shifts on `byte` truncate, hence the `%`. -/
def pack32 : List Nat → Bytes
  | [d0, d1] => [UInt8.ofNat (d0 * 8 + d1 / 4)]
  | [d0, d1, d2, d3] => [UInt8.ofNat (d0 * 8 + d1 / 4), UInt8.ofNat (d1 % 4 * 64 + d2 * 2 + d3 / 16)]
  | [d0, d1, d2, d3, d4] =>
    [UInt8.ofNat (d0 * 8 + d1 / 4), UInt8.ofNat (d1 % 4 * 64 + d2 * 2 + d3 / 16), UInt8.ofNat (d3 % 16 * 16 + d4 / 2)]
  | [d0, d1, d2, d3, d4, d5, d6] =>
    [UInt8.ofNat (d0 * 8 + d1 / 4), UInt8.ofNat (d1 % 4 * 64 + d2 * 2 + d3 / 16), UInt8.ofNat (d3 % 16 * 16 + d4 / 2),
     UInt8.ofNat (d4 % 2 * 128 + d5 * 4 + d6 / 8)]
  | [d0, d1, d2, d3, d4, d5, d6, d7] =>
    [UInt8.ofNat (d0 * 8 + d1 / 4), UInt8.ofNat (d1 % 4 * 64 + d2 * 2 + d3 / 16), UInt8.ofNat (d3 % 16 * 16 + d4 / 2),
     UInt8.ofNat (d4 % 2 * 128 + d5 * 4 + d6 / 8), UInt8.ofNat (d6 % 8 * 32 + d7)]
  | _ => []

/-- `byte(enc.padChar)` -/
def padByte (padded : Bool) : UInt8 := if padded then padChar else noPadByte

/-- `(*base32.Encoding).decode` (both loops flattened into one recursion over the input; `acc` holds
    `dbuf[0..j)` of the current quantum, `j = acc.length ≤ 7`).  `none` = `CorruptInputError`.

    * end of input inside a quantum: an error if the encoding pads, otherwise `dlen = j` — and `pack32`
      yields nothing for `j ∈ {1,3,6}` (D27);
    * a byte equal to `byte(enc.padChar)` (that is `0xFF` for the no-padding encoding, D25) at `j ≥ 2`
      with fewer than 8 bytes after it starts the padding: the next `7 - j` bytes must equal it, `j`
      must not be 1, 3 or 6, and **everything after them is ignored** (D26);
    * any other byte must be in the alphabet. -/
def dec32Loop (padded : Bool) : Bytes → List Nat → Option Bytes
  | [], acc => if acc.isEmpty then some [] else if padded then none else some (pack32 acc)
  | c :: rest, acc =>
    if c == padByte padded && decide (2 ≤ acc.length) && decide (rest.length < 8) then
      if rest.length + acc.length < 7 then none
      else if (rest.take (7 - acc.length)).all (· == padByte padded) = false then none
      else if acc.length == 1 || acc.length == 3 || acc.length == 6 then none
      else some (pack32 acc)
    else match idx32 c with
      | none => none
      | some v =>
        if acc.length + 1 == 8 then (dec32Loop padded rest []).map (pack32 (acc ++ [v]) ++ ·)
        else dec32Loop padded rest (acc ++ [v])

/-- `base32.DecodeString` = `I2PEncoding.DecodeString`: strip CR/LF, then `decode` -/
def dec32 (s : Bytes) : Option Bytes := dec32Loop true (stripNL s) []
/-- `base32.DecodeStringNoPadding` = `I2PEncodingNoPadding.DecodeString` -/
def dec32NoPad (s : Bytes) : Option Bytes := dec32Loop false (stripNL s) []

/-! ## base64 -/

/-- `(*base64.Encoding).Encode` on the byte values (standard padding) -/
def enc64 : Bytes → Bytes
  | [] => []
  | [a] => [chr64 (a.toNat / 4), chr64 (a.toNat % 4 * 16), padChar, padChar]
  | [a, b] => [chr64 (a.toNat / 4), chr64 (a.toNat % 4 * 16 + b.toNat / 16), chr64 (b.toNat % 16 * 4), padChar]
  | a :: b :: c :: rest =>
    chr64 (a.toNat / 4) :: chr64 (a.toNat % 4 * 16 + b.toNat / 16) :: chr64 (b.toNat % 16 * 4 + c.toNat / 64)
      :: chr64 (c.toNat % 64) :: enc64 rest

/-- `(*base64.Encoding).Decode` (padded, non-strict) after the CR/LF bytes have been dropped: groups of
    four alphabet characters; the last group may be `xx==` or `xxx=`; nothing may follow the padding;
    an unpadded tail is an error; non-zero trailing bits are accepted. -/
def dec64Core : Bytes → Option Bytes
  | [] => some []
  | x :: y :: z :: w :: rest =>
    if rest.isEmpty && w == padChar then
      if z == padChar then
        match idx64 x, idx64 y with
        | some p, some q => some [UInt8.ofNat (p * 4 + q / 16)]
        | _, _ => none
      else
        match idx64 x, idx64 y, idx64 z with
        | some p, some q, some r => some [UInt8.ofNat (p * 4 + q / 16), UInt8.ofNat (q % 16 * 16 + r / 4)]
        | _, _, _ => none
    else
      match idx64 x, idx64 y, idx64 z, idx64 w, dec64Core rest with
      | some p, some q, some r, some s, some t =>
        some (UInt8.ofNat (p * 4 + q / 16) :: UInt8.ofNat (q % 16 * 16 + r / 4) :: UInt8.ofNat (r % 4 * 64 + s) :: t)
      | _, _, _, _, _ => none
  | _ => none

/-- `base64.EncodeToString` is `enc64`; `base64.DecodeString`: CR and LF are ignored everywhere -/
def dec64 (s : Bytes) : Option Bytes := dec64Core (stripNL s)

/-! ## Size-guarded variants (utils.go) -/

inductive GuardErr where
  | empty      -- ErrEmptyData / ErrEmptyString
  | tooLarge   -- ErrDataTooLarge / ErrInputTooLarge / ErrStringTooLarge
deriving DecidableEq, Repr

/-- the two `if len(..)` tests that open every `…Safe` function -/
def sizeGuard (max n : Nat) : Option GuardErr :=
  if n = 0 then some .empty else if n > max then some .tooLarge else none

/-- `base32.EncodeToStringSafe` -/
def enc32Safe (x : Bytes) : Except GuardErr Bytes :=
  match sizeGuard maxEncode32 x.length with | some e => .error e | none => .ok (enc32 x)
/-- `base32.DecodeStringSafe` (`.ok none` = the decoder's own error) -/
def dec32Safe (s : Bytes) : Except GuardErr (Option Bytes) :=
  match sizeGuard maxDecode32 s.length with | some e => .error e | none => .ok (dec32 s)
/-- `base32.DecodeStringSafeNoPadding` -/
def dec32SafeNoPad (s : Bytes) : Except GuardErr (Option Bytes) :=
  match sizeGuard maxDecode32 s.length with | some e => .error e | none => .ok (dec32NoPad s)
/-- `base64.EncodeToStringSafe` -/
def enc64Safe (x : Bytes) : Except GuardErr Bytes :=
  match sizeGuard maxEncode64 x.length with | some e => .error e | none => .ok (enc64 x)
/-- `base64.DecodeStringSafe` -/
def dec64Safe (s : Bytes) : Except GuardErr (Option Bytes) :=
  match sizeGuard maxDecode64 s.length with | some e => .error e | none => .ok (dec64 s)

/-- `EncodedLen` of the padded base32 encoding (proved equal to `(enc32 x).length`) -/
def encodedLen32 (n : Nat) : Nat := (n + 4) / 5 * 8
/-- `EncodedLen` of the padded base64 encoding (proved equal to `(enc64 x).length`) -/
def encodedLen64 (n : Nat) : Nat := (n + 2) / 3 * 4

/-! ## Independent bit-list formulation (RFC 4648 read literally)

bytes → list of bits → groups of `k` bits (the last one filled with zero bits) → alphabet, then `=`
up to a multiple of the quantum.  Used by the driver to cross-check the group formulation above on
every generated case. -/
namespace Spec

def toBits (b : Bytes) : List Bool :=
  b.flatMap fun x => (List.range 8).map fun i => (x.toNat >>> (7 - i)) % 2 == 1

def fromBits (bs : List Bool) : Nat := bs.foldl (fun a b => a * 2 + (if b then 1 else 0)) 0

def chunks (k : Nat) : Nat → List Bool → List (List Bool)
  | 0, _ => []
  | fuel+1, l => if l.isEmpty then [] else l.take k :: chunks k fuel (l.drop k)

def encode (alpha : List UInt8) (k quantum : Nat) (pad : Bool) (b : Bytes) : Bytes :=
  let bits := toBits b
  let cs := (chunks k (bits.length + 1) bits).map fun c => chr alpha (fromBits (c ++ List.replicate (k - c.length) false))
  if pad then cs ++ List.replicate ((quantum - cs.length % quantum) % quantum) padChar else cs

def enc32 (x : Bytes) : Bytes := encode alpha32 5 8 true x
def enc32NoPad (x : Bytes) : Bytes := encode alpha32 5 8 false x
def enc64 (x : Bytes) : Bytes := encode alpha64 6 4 true x

end Spec

/-! ## Post-fix model (`fixes/D25-D27-base32-strict.diff`)

The patched library validates the text before handing it to `encoding/base32`: after dropping CR/LF it
must consist of alphabet characters, followed — for the padded encoding only — by a run of `=` that
fills the last quantum; the number of alphabet characters modulo 8 must not be 1, 3 or 6. -/

/-- `validate` of the patched base32/utils.go -/
def valid32 (padded : Bool) (s : Bytes) : Bool :=
  let t := stripNL s
  let body := t.takeWhile (· != padChar)
  let tail := t.dropWhile (· != padChar)
  body.all (· ∈ alpha32) &&
  (body.length % 8 != 1 && body.length % 8 != 3 && body.length % 8 != 6) &&
  (if padded then tail.all (· == padChar) && t.length % 8 == 0 && decide (tail.length < 8)
   else tail.isEmpty)

/-- `base32.DecodeString` after the fix -/
def dec32Strict (s : Bytes) : Option Bytes := if valid32 true s then dec32 s else none
/-- `base32.DecodeStringNoPadding` after the fix -/
def dec32NoPadStrict (s : Bytes) : Option Bytes := if valid32 false s then dec32NoPad s else none
/-- `base32.DecodeStringSafe` after the fix -/
def dec32SafeStrict (s : Bytes) : Except GuardErr (Option Bytes) :=
  match sizeGuard maxDecode32 s.length with | some e => .error e | none => .ok (dec32Strict s)
/-- `base32.DecodeStringSafeNoPadding` after the fix -/
def dec32SafeNoPadStrict (s : Bytes) : Except GuardErr (Option Bytes) :=
  match sizeGuard maxDecode32 s.length with | some e => .error e | none => .ok (dec32NoPadStrict s)

/-! ## Which variant describes /repo today

One-line switch: the driver uses `dec32Cur`, `dec32NoPadCur`, ….  Set `fixApplied := true` once
`fixes/D25-D27-base32-strict.diff` is committed to /repo (`Props/C13` proves the theorems of both
variants, so nothing else changes). -/

def fixApplied : Bool := true

def dec32Cur (s : Bytes) : Option Bytes := if fixApplied then dec32Strict s else dec32 s
def dec32NoPadCur (s : Bytes) : Option Bytes := if fixApplied then dec32NoPadStrict s else dec32NoPad s
def dec32SafeCur (s : Bytes) : Except GuardErr (Option Bytes) := if fixApplied then dec32SafeStrict s else dec32Safe s
def dec32SafeNoPadCur (s : Bytes) : Except GuardErr (Option Bytes) :=
  if fixApplied then dec32SafeNoPadStrict s else dec32SafeNoPad s

end I2P.Base
