import I2P.Time
import I2P.Proofs.DataLemmas
/-! Helper lemmas about the fixed-width and `time` primitives of `I2P/Time.lean`: inside the ranges the
    library reaches, every wrap function is the identity and `Time.Add` is exact. -/
namespace I2P.Time
open I2P

/-- the values a Go `int64` can hold -/
def IsInt64 (v : Int) : Prop := -2^63 ≤ v ∧ v < 2^63

theorem wrapInt64_id (v : Int) (h1 : -2^63 ≤ v) (h2 : v < 2^63) : wrapInt64 v = v := by
  unfold wrapInt64 toInt64 toUInt64
  by_cases h0 : 0 ≤ v
  · have e : v % 2^64 = v := Int.emod_eq_of_lt h0 (by omega)
    rw [e]
    obtain ⟨m, rfl⟩ := Int.eq_ofNat_of_zero_le h0
    simp only [Int.toNat_natCast]
    have : m % 2^64 = m := Nat.mod_eq_of_lt (by omega)
    rw [this, if_pos (by omega)]
  · have e : v % 2^64 = v + 2^64 := by omega
    rw [e]
    obtain ⟨m, hm⟩ := Int.eq_ofNat_of_zero_le (show 0 ≤ v + 2^64 by omega)
    rw [hm]
    simp only [Int.toNat_natCast]
    have : m % 2^64 = m := Nat.mod_eq_of_lt (by omega)
    rw [this, if_neg (by omega)]
    omega

theorem wrapUInt64_nat (m : Nat) (h : m < 2^64) : wrapUInt64 (m : Int) = m := toU m h

theorem wrapUInt64_neg (v : Int) (h1 : -2^63 ≤ v) (h2 : v < 0) : (wrapUInt64 v : Int) = v + 2^64 := by
  unfold wrapUInt64 toUInt64
  have e : v % 2^64 = v + 2^64 := by omega
  rw [e, Int.toNat_of_nonneg (by omega)]

theorem wrapUInt32_nat (m : Nat) (h : m < 2^32) : wrapUInt32 (m : Int) = m := by
  unfold wrapUInt32
  have e : (m : Int) % 2^32 = m := Int.emod_eq_of_lt (by omega) (by omega)
  rw [e]; simp

theorem int64OfUInt32_id (u : Nat) (h : u < 2^32) : int64OfUInt32 u = u := by
  unfold int64OfUInt32
  rw [Nat.mod_eq_of_lt h, wrapInt64_id _ (by omega) (by omega)]

theorem int64OfUInt64_small (u : Nat) (h : u < 2^63) : int64OfUInt64 u = u := toI u h

/-- `time.Duration(x) * time.Second` cannot overflow for a 16-bit x (65 535 s ≪ 292 years) -/
theorem durationSeconds_exact (x : Nat) (h : x < 2^16) : durationSeconds x = (x : Int) * 1000000000 := by
  unfold durationSeconds second
  rw [wrapInt64_id (x : Int) (by omega) (by omega), wrapInt64_id _ (by omega) (by omega)]

/-- `addSec` is exact far inside the `int64` range -/
theorem addSec_exact (sec d : Int) (hs1 : -2^61 ≤ sec) (hs2 : sec < 2^61) (hd1 : -2^61 ≤ d) (hd2 : d < 2^61) :
    addSec sec d = sec + d := by
  unfold addSec unixToInternal maxInt64
  simp only
  rw [wrapInt64_id (sec + 62135596800) (by omega) (by omega), wrapInt64_id (sec + 62135596800 + d) (by omega) (by omega)]
  have hc : (decide (sec + 62135596800 + d > sec + 62135596800) == decide (d > 0)) = true := by
    by_cases hd : d > 0
    · have : sec + 62135596800 + d > sec + 62135596800 := by omega
      simp [hd, this]
    · have : ¬ (sec + 62135596800 + d > sec + 62135596800) := by omega
      simp [hd, this]
  rw [if_pos hc, wrapInt64_id _ (by omega) (by omega)]
  omega

theorem timeUnix_whole (s : Int) : timeUnix s 0 = { sec := s, nsec := 0 } := by
  unfold timeUnix
  congr 1
  · omega

/-- adding a whole, non-negative number of seconds to a whole-second instant -/
theorem timeAdd_whole (s k : Int) (hs1 : -2^61 ≤ s) (hs2 : s < 2^61) (hk0 : 0 ≤ k) (hk : k < 2^33) :
    timeAdd { sec := s, nsec := 0 } (k * 1000000000) = { sec := s + k, nsec := 0 } := by
  unfold timeAdd
  have h0 : (0 : Int) ≤ k * 1000000000 := by omega
  simp only [Int.tdiv_eq_ediv_of_nonneg h0, Int.tmod_eq_emod_of_nonneg h0]
  have hd : k * 1000000000 / 1000000000 = k := by omega
  have hm : k * 1000000000 % 1000000000 = 0 := by omega
  rw [hd, hm]
  simp only [Int.natCast_zero, Int.add_zero]
  rw [if_neg (by omega), if_neg (by omega), addSec_exact s k hs1 hs2 (by omega) (by omega)]
  rfl

/-- header arithmetic shared by LeaseSet2, EncryptedLeaseSet and MetaLeaseSet -/
theorem header_expiration (p e : Nat) (hp : p < 2^32) (he : e < 2^16) :
    timeAdd (timeUnix (int64OfUInt32 p) 0) (durationSeconds e) = { sec := (p : Int) + e, nsec := 0 } := by
  rw [int64OfUInt32_id p hp, durationSeconds_exact e he, timeUnix_whole]
  exact timeAdd_whole (p : Int) (e : Int) (by omega) (by omega) (by omega) (by omega)

theorem unix32_time (x : Nat) (h : x < 2^32) : timeUnix (int64OfUInt32 x) 0 = { sec := (x : Int), nsec := 0 } := by
  rw [int64OfUInt32_id x h, timeUnix_whole]


/-! ### millisecond dates -/

/-- `time.UnixMilli` of a non-negative count: whole seconds and the millisecond remainder as nanoseconds -/
theorem timeUnixMilli_nat (m : Nat) :
    timeUnixMilli (m : Int) = { sec := ((m / 1000 : Nat) : Int), nsec := m % 1000 * 1000000 } := by
  unfold timeUnixMilli timeUnix
  have h0 : (0 : Int) ≤ (m : Int) := by omega
  simp only [Int.tdiv_eq_ediv_of_nonneg h0, Int.tmod_eq_emod_of_nonneg h0]
  congr 1
  · omega
  · omega

theorem dateTimeOf_small (d : Nat) (h : d < 2^63) :
    dateTimeOf d = { sec := ((d / 1000 : Nat) : Int), nsec := d % 1000 * 1000000 } := by
  unfold dateTimeOf dateIntOf
  rw [toI d h, timeUnixMilli_nat]

theorem leaseTime_small (d : Nat) (h : d < 2^63) :
    leaseTime d = { sec := ((d / 1000 : Nat) : Int), nsec := d % 1000 * 1000000 } := by
  unfold leaseTime
  rw [int64OfUInt64_small d h, timeUnixMilli_nat]

/-- `UnixMilli()` of an instant with a representable millisecond count -/
theorem unixMilli_exact (t : GoTime) (h1 : -2^63 ≤ t.sec * 1000 + t.nsec / 1000000) (h2 : t.sec * 1000 + t.nsec / 1000000 < 2^63) :
    t.unixMilli = t.sec * 1000 + ((t.nsec / 1000000 : Nat) : Int) := by
  unfold GoTime.unixMilli
  exact wrapInt64_id _ (by omega) (by omega)

/-- comparing two dates below 2^63 through `Date.Time().After` is comparing the numbers -/
theorem after_dates (a b : Nat) (ha : a < 2^63) (hb : b < 2^63) :
    timeAfter (dateTimeOf a) (dateTimeOf b) = decide (a > b) := by
  rw [dateTimeOf_small a ha, dateTimeOf_small b hb, Bool.eq_iff_iff]
  simp only [timeAfter, Bool.or_eq_true, Bool.and_eq_true, decide_eq_true_eq]
  omega

theorem before_dates (a b : Nat) (ha : a < 2^63) (hb : b < 2^63) :
    timeBefore (dateTimeOf a) (dateTimeOf b) = decide (a < b) := by
  rw [dateTimeOf_small a ha, dateTimeOf_small b hb, Bool.eq_iff_iff]
  simp only [timeBefore, Bool.or_eq_true, Bool.and_eq_true, decide_eq_true_eq]
  omega

/-- characterisation of the `NewestExpiration` loop: the running value is a member and an upper bound -/
theorem newest_loop (ds : List Nat) : ∀ acc : Nat, acc < 2^63 → (∀ d ∈ ds, d < 2^63) →
    let r := ds.foldl (fun newest date => if timeAfter (dateTimeOf date) (dateTimeOf newest) then date else newest) acc
    r ∈ acc :: ds ∧ r < 2^63 ∧ acc ≤ r ∧ ∀ d ∈ ds, d ≤ r := by
  induction ds with
  | nil => intro acc ha _; simp [ha]
  | cons x xs ih =>
    intro acc ha hds
    have hx : x < 2^63 := hds x (by simp)
    have hxs : ∀ d ∈ xs, d < 2^63 := fun d hd => hds d (by simp [hd])
    simp only [List.foldl_cons]
    rw [after_dates x acc hx ha]
    by_cases h : x > acc
    · rw [decide_eq_true h, if_pos rfl]
      obtain ⟨hm, hlt, hle, hall⟩ := ih x hx hxs
      refine ⟨?_, hlt, by omega, ?_⟩
      · rcases List.mem_cons.mp hm with h1 | h1
        · rw [h1]; simp
        · simp [h1]
      · intro d hd
        rcases List.mem_cons.mp hd with h1 | h1
        · omega
        · exact hall d h1
    · rw [decide_eq_false h]
      simp only [Bool.false_eq_true, if_false]
      obtain ⟨hm, hlt, hle, hall⟩ := ih acc ha hxs
      refine ⟨?_, hlt, hle, ?_⟩
      · rcases List.mem_cons.mp hm with h1 | h1
        · rw [h1]; simp
        · simp [h1]
      · intro d hd
        rcases List.mem_cons.mp hd with h1 | h1
        · omega
        · exact hall d h1

/-- characterisation of the `OldestExpiration` loop -/
theorem oldest_loop (ds : List Nat) : ∀ acc : Nat, acc < 2^63 → (∀ d ∈ ds, d < 2^63) →
    let r := ds.foldl (fun earliest date => if timeBefore (dateTimeOf date) (dateTimeOf earliest) then date else earliest) acc
    r ∈ acc :: ds ∧ r < 2^63 ∧ r ≤ acc ∧ ∀ d ∈ ds, r ≤ d := by
  induction ds with
  | nil => intro acc ha _; simp [ha]
  | cons x xs ih =>
    intro acc ha hds
    have hx : x < 2^63 := hds x (by simp)
    have hxs : ∀ d ∈ xs, d < 2^63 := fun d hd => hds d (by simp [hd])
    simp only [List.foldl_cons]
    rw [before_dates x acc hx ha]
    by_cases h : x < acc
    · rw [decide_eq_true h, if_pos rfl]
      obtain ⟨hm, hlt, hle, hall⟩ := ih x hx hxs
      refine ⟨?_, hlt, by omega, ?_⟩
      · rcases List.mem_cons.mp hm with h1 | h1
        · rw [h1]; simp
        · simp [h1]
      · intro d hd
        rcases List.mem_cons.mp hd with h1 | h1
        · omega
        · exact hall d h1
    · rw [decide_eq_false h]
      simp only [Bool.false_eq_true, if_false]
      obtain ⟨hm, hlt, hle, hall⟩ := ih acc ha hxs
      refine ⟨?_, hlt, hle, ?_⟩
      · rcases List.mem_cons.mp hm with h1 | h1
        · rw [h1]; simp
        · simp [h1]
      · intro d hd
        rcases List.mem_cons.mp hd with h1 | h1
        · omega
        · exact hall d h1

/-! ### expiry tests against whole-second expiries -/

theorem after_whole_true (now : GoTime) (x : Int) (h : x < now.sec) : timeAfter now { sec := x, nsec := 0 } = true := by
  unfold timeAfter
  have : now.sec > x := h
  simp [this]

theorem after_whole_false (now : GoTime) (x : Int) (h : x > now.sec) : timeAfter now { sec := x, nsec := 0 } = false := by
  unfold timeAfter
  have h1 : ¬ now.sec > x := by omega
  have h2 : ¬ now.sec = x := by omega
  simp [h1, h2]

theorem before_true (t now : GoTime) (h : t.sec < now.sec) : timeBefore t now = true := by
  unfold timeBefore; simp [h]

theorem before_false (t now : GoTime) (h : t.sec > now.sec) : timeBefore t now = false := by
  unfold timeBefore
  have h1 : ¬ t.sec < now.sec := by omega
  have h2 : ¬ t.sec = now.sec := by omega
  simp [h1, h2]

/-! ### second → millisecond conversions -/

theorem lease2DateMillis_exact (e : Nat) (h : e < 2^32) : lease2DateMillis e = e * 1000 := by
  unfold lease2DateMillis mulUInt64
  rw [Nat.mod_eq_of_lt h, Nat.mod_eq_of_lt (by omega)]

theorem dateFromTime_whole (x : Nat) (h : x < 2^32) :
    dateFromTime { sec := (x : Int), nsec := 0 } = beEnc 8 (x * 1000) := by
  have key : ∀ z : Int, z = ((x * 1000 : Nat) : Int) → beEnc 8 (toUInt64 (toInt64 (toUInt64 z))) = beEnc 8 (x * 1000) := by
    intro z hz
    rw [hz, toU _ (by omega), toI _ (by omega), toU _ (by omega)]
  unfold dateFromTime GoTime.unixMilli
  exact key _ (by simp only; omega)

theorem offlineExpiresDate_exact (x : Nat) (h : x < 2^32) : offlineExpiresDate x = beEnc 8 (x * 1000) := by
  unfold offlineExpiresDate
  rw [unix32_time x h, dateFromTime_whole x h]

end I2P.Time
