import I2P.Fixed
namespace I2P.Fixed
open I2P

theorem encodeUint_length (w v : Nat) : (encodeUint w v).length = w := by simp [encodeUint]

theorem decode_encodeUint (w v : Nat) (h : v < 256 ^ w) : decodeUint (encodeUint w v) = v := by
  simp [decodeUint, encodeUint, beVal_beEnc _ _ h]

theorem encode_decodeUint (b : Bytes) : encodeUint b.length (decodeUint b) = b := by
  simp [decodeUint, encodeUint, beEnc_beVal]

theorem decodeUint_lt (b : Bytes) : decodeUint b < 256 ^ b.length := beVal_lt b

theorem pow_pos' (w : Nat) : 0 < 256 ^ w := Nat.pow_pos (by decide)

theorem toUnsigned_lt (w : Nat) (v : Int) : toUnsigned w v < 256 ^ w := by
  unfold toUnsigned
  have hp : (0 : Int) < ((256 ^ w : Nat) : Int) := by exact_mod_cast pow_pos' w
  have h1 := Int.emod_lt_of_pos v hp
  have h0 := Int.emod_nonneg v (Int.ne_of_gt hp)
  omega

theorem toSigned_toUnsigned (w : Nat) (v : Int)
    (hlo : -((256 ^ w : Nat) : Int) ≤ 2 * v) (hhi : 2 * v < ((256 ^ w : Nat) : Int)) :
    toSigned w (toUnsigned w v) = v := by
  have hp : (0 : Int) < ((256 ^ w : Nat) : Int) := by exact_mod_cast pow_pos' w
  unfold toSigned toUnsigned
  by_cases hv : 0 ≤ v
  · have hm : v % ((256 ^ w : Nat) : Int) = v := Int.emod_eq_of_lt hv (by omega)
    rw [hm]
    have : (v.toNat : Int) = v := Int.toNat_of_nonneg hv
    split <;> omega
  · have hv' : v < 0 := by omega
    have hm : v % ((256 ^ w : Nat) : Int) = v + ((256 ^ w : Nat) : Int) := by
      have h2 : (v + ((256 ^ w : Nat) : Int)) % ((256 ^ w : Nat) : Int) = v % ((256 ^ w : Nat) : Int) := by
        simp
      rw [← h2]
      exact Int.emod_eq_of_lt (by omega) (by omega)
    rw [hm]
    have hnn : 0 ≤ v + ((256 ^ w : Nat) : Int) := by omega
    have : ((v + ((256 ^ w : Nat) : Int)).toNat : Int) = v + ((256 ^ w : Nat) : Int) := Int.toNat_of_nonneg hnn
    split <;> omega

theorem decode_encodeInt (w : Nat) (v : Int)
    (hlo : -((256 ^ w : Nat) : Int) ≤ 2 * v) (hhi : 2 * v < ((256 ^ w : Nat) : Int)) :
    decodeInt (encodeInt w v) = v := by
  unfold decodeInt encodeInt
  rw [encodeUint_length, decode_encodeUint _ _ (toUnsigned_lt w v)]
  exact toSigned_toUnsigned w v hlo hhi

theorem toUnsigned_toSigned (w u : Nat) (h : u < 256 ^ w) : toUnsigned w (toSigned w u) = u := by
  have hp : (0 : Int) < ((256 ^ w : Nat) : Int) := by exact_mod_cast pow_pos' w
  unfold toSigned toUnsigned
  split
  · have : ((u : Int)) % ((256 ^ w : Nat) : Int) = u := Int.emod_eq_of_lt (by omega) (by omega)
    rw [this]; simp
  · have h2 : ((u : Int) - ((256 ^ w : Nat) : Int)) % ((256 ^ w : Nat) : Int) = (u : Int) % ((256 ^ w : Nat) : Int) := by
      simp
    rw [h2]
    have : ((u : Int)) % ((256 ^ w : Nat) : Int) = u := Int.emod_eq_of_lt (by omega) (by omega)
    rw [this]; simp

theorem encode_decodeInt (b : Bytes) : encodeInt b.length (decodeInt b) = b := by
  unfold encodeInt decodeInt
  rw [toUnsigned_toSigned _ _ (decodeUint_lt b)]
  exact encode_decodeUint b

theorem decodeInt_range (b : Bytes) :
    -((256 ^ b.length : Nat) : Int) ≤ 2 * decodeInt b ∧ 2 * decodeInt b < ((256 ^ b.length : Nat) : Int) := by
  have h := decodeUint_lt b
  unfold decodeInt toSigned
  split <;> omega

end I2P.Fixed
