import I2P.RouterAddrAcc
/-! Helper lemmas about the `net.ParseIP` / `strconv.Atoi` models (`I2P/NetAddr.lean`) and the option
    lookup (`I2P/RouterAddrAcc.lean`). -/

namespace I2P.NetAddr

/-- the bytes an IP literal may consist of: ASCII hex digits, `.` and `:` -/
def IsLit (c : UInt8) : Prop := isHexDigit c = true ∨ c = 46 ∨ c = 58

theorem isDigit_isHex {c : UInt8} (h : isDigit c = true) : isHexDigit c = true := by
  simp only [isDigit, Bool.and_eq_true, decide_eq_true_eq] at h
  simp [isHexDigit, hexVal, h.1, h.2]

theorem hexVal_isHex {c : UInt8} {d : Nat} (h : hexVal c = some d) : isHexDigit c = true := by
  simp [isHexDigit, h]

/-- a successful run of `parseIPv4Fields` has seen nothing but digits and dots -/
theorem v4Fields_lit : ∀ (s : Bytes) (val dl pos : Nat) (prev : Option UInt8) (fs r : List Nat),
    v4Fields s val dl pos prev fs = some r → ∀ b ∈ s, isDigit b = true ∨ b = 46 := by
  intro s
  induction s with
  | nil => intro _ _ _ _ _ _ _ b hb; simp at hb
  | cons c rest ih =>
    intro val dl pos prev fs r h b hb
    unfold v4Fields at h
    by_cases hd : isDigit c = true
    · rw [if_pos hd] at h
      split at h
      · simp at h
      · dsimp only at h
        split at h
        · simp at h
        · rcases List.mem_cons.mp hb with rfl | hb'
          · exact Or.inl hd
          · exact ih _ _ _ _ _ _ h b hb'
    · rw [if_neg hd] at h
      by_cases h46 : (c == 46) = true
      · rw [if_pos h46] at h
        split at h
        · simp at h
        · split at h
          · simp at h
          · rcases List.mem_cons.mp hb with rfl | hb'
            · exact Or.inr (by simpa using h46)
            · exact ih _ _ _ _ _ _ h b hb'
      · rw [if_neg h46] at h; simp at h

theorem parseV4_lit {s : Bytes} {r : List Nat} (h : parseV4 s = some r) : ∀ b ∈ s, IsLit b := by
  intro b hb
  rcases v4Fields_lit s _ _ _ _ _ _ h b hb with hd | h46
  · exact Or.inl (isDigit_isHex hd)
  · exact Or.inr (Or.inl h46)

/-- the hex-number loop splits its input into hex digits and an untouched rest -/
theorem hexGroup_split : ∀ (s : Bytes) (acc off v o : Nat) (rest : Bytes),
    hexGroup s acc off = some (v, o, rest) → ∃ pre, s = pre ++ rest ∧ ∀ b ∈ pre, isHexDigit b = true := by
  intro s
  induction s with
  | nil =>
    intro acc off v o rest h
    simp [hexGroup] at h
    exact ⟨[], by simp [h.2.2], by simp⟩
  | cons c t ih =>
    intro acc off v o rest h
    unfold hexGroup at h
    split at h
    · simp at h
      exact ⟨[], by simp [h.2.2], by simp⟩
    · rename_i d hd
      split at h
      · simp at h
      · obtain ⟨pre, hpre, hall⟩ := ih _ _ _ _ _ h
        refine ⟨c :: pre, by simp [hpre], ?_⟩
        intro b hb
        rcases List.mem_cons.mp hb with rfl | hb'
        · exact hexVal_isHex hd
        · exact hall b hb'

/-- a successful run of the IPv6 group loop has consumed nothing but literal bytes -/
theorem v6loop_lit : ∀ (fuel : Nat) (s : Bytes) (i : Nat) (ell : Option Nat) (acc : List Nat)
    (r : List Nat × Nat × Option Nat), v6loop fuel s i ell acc = some r → ∀ b ∈ s, IsLit b := by
  intro fuel
  induction fuel with
  | zero => intro s i ell acc r h; simp [v6loop] at h
  | succ fuel ih =>
    intro s i ell acc r h
    unfold v6loop at h
    split at h
    · -- i ≥ 16: only the empty rest is accepted
      split at h
      · rename_i he; intro b hb; simp at he; subst he; simp at hb
      · simp at h
    · split at h
      · simp at h
      · rename_i v off rest hg
        obtain ⟨pre, hs, hpre⟩ := hexGroup_split _ _ _ _ _ _ hg
        have hprelit : ∀ b ∈ pre, IsLit b := fun b hb => Or.inl (hpre b hb)
        split at h
        · simp at h
        · split at h
          · -- end of string after the group
            intro b hb; rw [hs] at hb; simp at hb; exact hprelit b hb
          · rename_i c rest1
            split at h
            · -- '.': the whole of `s` is parsed as a dotted quad
              split at h
              · simp at h
              · split at h
                · simp at h
                · split at h
                  · simp at h
                  · rename_i fs hv4
                    exact parseV4_lit hv4
            · rename_i hc46
              split at h
              · rename_i hc58
                have hc : IsLit c := Or.inr (Or.inr (by simpa using hc58))
                split at h
                · simp at h
                · rename_i d rest2
                  split at h
                  · rename_i hd58
                    have hd : IsLit d := Or.inr (Or.inr (by simpa using hd58))
                    split at h
                    · simp at h
                    · split at h
                      · rename_i he
                        simp at he; subst he
                        intro b hb; rw [hs] at hb
                        simp at hb
                        rcases hb with hb | rfl | rfl
                        · exact hprelit b hb
                        · exact hc
                        · exact hd
                      · have hrec := ih _ _ _ _ _ h
                        intro b hb; rw [hs] at hb
                        simp at hb
                        rcases hb with hb | rfl | rfl | hb
                        · exact hprelit b hb
                        · exact hc
                        · exact hd
                        · exact hrec b hb
                  · have hrec := ih _ _ _ _ _ h
                    intro b hb; rw [hs] at hb
                    simp at hb
                    rcases hb with hb | rfl | hb
                    · exact hprelit b hb
                    · exact hc
                    · exact hrec b (by simpa using hb)
              · simp at h

theorem parseV6_lit {s : Bytes} {r : List Nat} (h : parseV6 s = some r) : ∀ b ∈ s, IsLit b := by
  unfold parseV6 at h
  split at h
  · simp at h
  · -- name the stripped string
    have key : ∀ (s' : Bytes) (ell0 : Option Nat),
        ((∀ b ∈ s', IsLit b) → ∀ b ∈ s, IsLit b) →
        ((if ell0.isSome && s'.isEmpty then some (List.replicate 16 0) else
          match v6loop 20 s' 0 ell0 [] with
          | none => none
          | some (bytes, i, ell) =>
            if i < 16 then
              match ell with
              | none => none
              | some e => some (bytes.take e ++ List.replicate (16 - i) 0 ++ bytes.drop e)
            else if ell.isSome then none
            else some bytes) = some r) → ∀ b ∈ s, IsLit b := by
      intro s' ell0 hback h'
      split at h'
      · rename_i he
        simp at he
        apply hback
        intro b hb; rw [he.2] at hb; simp at hb
      · split at h'
        · simp at h'
        · rename_i bytes i ell hl
          exact hback (v6loop_lit _ _ _ _ _ _ hl)
    match s, h with
    | [], h => intro b hb; simp at hb
    | [a], h =>
      simp only at h
      exact key [a] none (fun hh => hh) h
    | a :: b :: rest, h =>
      simp only at h
      by_cases hab : (a == 58 && b == 58) = true
      · rw [if_pos hab] at h
        simp only at h
        have ha : a = 58 := by simp at hab; exact hab.1
        have hb : b = 58 := by simp at hab; exact hab.2
        apply key rest (some 0) _ h
        intro hrest c hc
        rcases List.mem_cons.mp hc with rfl | hc
        · exact Or.inr (Or.inr ha)
        rcases List.mem_cons.mp hc with rfl | hc
        · exact Or.inr (Or.inr hb)
        · exact hrest c hc
      · rw [if_neg hab] at h
        simp only at h
        exact key (a :: b :: rest) none (fun hh => hh) h

/-- `net.ParseIP` accepts only strings made of hex digits, dots and colons -/
theorem parseIP_lit {s : Bytes} {a : List Nat} (h : parseIP s = some a) : ∀ b ∈ s, IsLit b := by
  unfold parseIP at h
  split at h
  · simp at h
  · split at h
    · cases hv : parseV4 s with
      | none => simp [hv] at h
      | some fs => exact parseV4_lit hv
    · split at h
      · exact parseV6_lit h
      · simp at h

/-- what `strconv.Atoi` accepts: an optional single sign followed by at least one digit, digits only -/
theorem atoi_shape {s : Bytes} {n : Int} (h : atoi s = some n) :
    ∃ ds, (s = ds ∨ s = 43 :: ds ∨ s = 45 :: ds) ∧ ds ≠ [] ∧ (∀ b ∈ ds, isDigit b = true) ∧
      (n = (digitsVal ds : Int) ∨ n = -(digitsVal ds : Int)) := by
  unfold atoi at h
  have key : ∀ (neg : Bool) (ds : Bytes),
      (if ds.isEmpty || !ds.all isDigit then none else
        if neg then (if digitsVal ds ≤ 9223372036854775808 then some (-(digitsVal ds : Int)) else none)
        else (if digitsVal ds ≤ 9223372036854775807 then some (digitsVal ds : Int) else none)) = some n →
      ds ≠ [] ∧ (∀ b ∈ ds, isDigit b = true) ∧ (n = (digitsVal ds : Int) ∨ n = -(digitsVal ds : Int)) := by
    intro neg ds h'
    split at h'
    · simp at h'
    · rename_i hc
      simp only [Bool.or_eq_true, Bool.not_eq_true', not_or, Bool.not_eq_true, Bool.not_eq_false] at hc
      refine ⟨by intro he; simp [he] at hc, by simpa [List.all_eq_true] using hc.2, ?_⟩
      split at h'
      · split at h'
        · simp at h'; exact Or.inr h'.symm
        · simp at h'
      · split at h'
        · simp at h'; exact Or.inl h'.symm
        · simp at h'
  match s, h with
  | [], h => simp at h
  | c :: r, h =>
    simp only at h
    by_cases h43 : (c == 43) = true
    · rw [if_pos h43] at h
      obtain ⟨h1, h2, h3⟩ := key false r h
      exact ⟨r, Or.inr (Or.inl (by simp at h43; rw [h43])), h1, h2, h3⟩
    · rw [if_neg h43] at h
      by_cases h45 : (c == 45) = true
      · rw [if_pos h45] at h
        obtain ⟨h1, h2, h3⟩ := key true r h
        exact ⟨r, Or.inr (Or.inr (by simp at h45; rw [h45])), h1, h2, h3⟩
      · rw [if_neg h45] at h
        obtain ⟨h1, h2, h3⟩ := key false (c :: r) h
        exact ⟨c :: r, Or.inl rfl, h1, h2, h3⟩


theorem digitsVal_snoc (ds : Bytes) (d : UInt8) : digitsVal (ds ++ [d]) = digitsVal ds * 10 + (d.toNat - 48) := by
  simp [digitsVal, List.foldl_append]

theorem digit_toNat (k : Nat) (h : k < 10) : (UInt8.ofNat (48 + k)).toNat = 48 + k := by
  simp [UInt8.toNat_ofNat']; omega

/-- characterisation of the `Itoa` digit loop: it prepends the canonical digits of `n` -/
theorem decimalAux_spec : ∀ (fuel n : Nat) (acc : Bytes), n < fuel →
    ∃ D, decimalAux fuel n acc = D ++ acc ∧ (∀ b ∈ D, isDigit b = true) ∧ digitsVal D = n ∧
      ∃ c t, D = c :: t ∧ (0 < n → 49 ≤ c.toNat) := by
  intro fuel
  induction fuel with
  | zero => intro n acc h; omega
  | succ fuel ih =>
    intro n acc h
    unfold decimalAux
    by_cases h10 : n < 10
    · rw [if_pos h10]
      have hd := digit_toNat n h10
      refine ⟨[UInt8.ofNat (48 + n)], rfl, ?_, ?_, _, [], rfl, ?_⟩
      · intro b hb; simp at hb; subst hb; simp [isDigit]; omega
      · simp [digitsVal]; omega
      · intro hpos; rw [hd]; omega
    · rw [if_neg h10]
      have hd := digit_toNat (n % 10) (Nat.mod_lt _ (by decide))
      obtain ⟨D, h1, h2, h3, c, t, h4, h5⟩ := ih (n / 10) (UInt8.ofNat (48 + n % 10) :: acc) (by omega)
      refine ⟨D ++ [UInt8.ofNat (48 + n % 10)], by rw [h1]; simp, ?_, ?_, c, t ++ [UInt8.ofNat (48 + n % 10)], by rw [h4]; simp, ?_⟩
      · intro b hb
        rcases List.mem_append.mp hb with hb | hb
        · exact h2 b hb
        · simp at hb; subst hb; simp [isDigit]; omega
      · rw [digitsVal_snoc, h3, hd]; omega
      · intro _; exact h5 (by omega)

/-- `Itoa` output is canonical: digits only, first digit non-zero for a positive value, and `Atoi` reads it back -/
theorem decimal_spec (n : Nat) (h : n < 2^63) :
    atoi (decimal n) = some (n : Int) ∧ (∀ b ∈ decimal n, isDigit b = true) ∧
      ∃ c t, decimal n = c :: t ∧ (0 < n → 49 ≤ c.toNat) := by
  obtain ⟨D, h1, h2, h3, c, t, h4, h5⟩ := decimalAux_spec (n + 1) n [] (by omega)
  have hD : decimal n = D := by unfold decimal; rw [h1]; simp
  rw [hD]
  refine ⟨?_, h2, c, t, h4, h5⟩
  have hc := h2 c (by rw [h4]; simp)
  have hc' : 48 ≤ c.toNat := by simp [isDigit] at hc; exact hc.1
  have h43 : (c == 43) = false := by
    cases hx : (c == 43) with
    | false => rfl
    | true => simp at hx; subst hx; simp at hc'
  have h45 : (c == 45) = false := by
    cases hx : (c == 45) with
    | false => rfl
    | true => simp at hx; subst hx; simp at hc'
  have hall : D.all isDigit = true := by simpa [List.all_eq_true] using h2
  subst h4
  unfold atoi
  simp only [h43, h45, Bool.false_eq_true, if_false]
  rw [hall]
  simp [h3]
  omega

end I2P.NetAddr

namespace I2P.RouterAddr
open I2P I2P.Mapping I2P.NetAddr

/-- `ToI2PString` of a key of at most 255 bytes decodes back to that key -/
theorem toI2PString_ok (k : Bytes) (h : k.length ≤ 255) :
    strDataOk (toI2PString k) = true ∧ strData (toI2PString k) = k := by
  have h1 : (UInt8.ofNat k.length).toNat = k.length := by
    simp [UInt8.toNat_ofNat']; omega
  unfold toI2PString newStr
  rw [if_neg (by omega)]
  simp [strDataOk, strData, h1]

/-- keys over 255 bytes become the nil string, which never decodes -/
theorem toI2PString_long (k : Bytes) (h : k.length > 255) : toI2PString k = [] := by
  unfold toI2PString newStr
  rw [if_pos h]; rfl

/-- characterisation of `MappingValues.Get` on a key built by `ToI2PString` -/
theorem get_toI2PString (o : List Pair) (k : Bytes) (h : k.length ≤ 255) :
    get o (toI2PString k) = (o.find? fun p => strDataOk p.1 && strData p.1 == k).map (·.2) := by
  obtain ⟨h1, h2⟩ := toI2PString_ok k h
  unfold get
  rw [h1, h2]
  simp

/-- characterisation of `extractOptionBytes`: the decoded, non-empty content of the looked-up option -/
theorem extract_iff (o : List Pair) (k s : Bytes) :
    extractOptionBytes o k = some s ↔ lookup o k = some s ∧ s ≠ [] := by
  unfold extractOptionBytes lookup checkOption hasOption getOption optString getOption
  cases hg : get o (toI2PString k) with
  | none => simp [nonNil]
  | some v =>
    cases v with
    | nil => simp [nonNil, strDataOk]
    | cons l rest =>
      simp only [nonNil, List.isEmpty_cons, Bool.not_false, Bool.not_true, Bool.false_eq_true, if_false]
      by_cases hok : strDataOk (l :: rest) = true
      · simp only [hok, Bool.not_true, Bool.false_eq_true, if_false, if_true]
        by_cases hl : (strData (l :: rest)).length = 0
        · have : strData (l :: rest) = [] := List.eq_nil_of_length_eq_zero hl
          simp [this]
        · have hne : strData (l :: rest) ≠ [] := by intro he; simp [he] at hl
          simp [hl]
          intro h1; subst h1; exact hne
      · simp [hok]

theorem atoi_nil : atoi [] = none := by decide

end I2P.RouterAddr
