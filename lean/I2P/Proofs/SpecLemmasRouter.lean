import I2P.Proofs.SpecLemmas
namespace I2P.SpecLemmas
open I2P I2P.Spec I2P.Kac I2P.Structs I2P.Mapping

/-! ### RouterAddress -/

theorem mapping_write_length (m : SMapping) : 2 ≤ (mappingCodec.write m).length := by
  rw [mappingCodec_write, List.length_append, beEnc_length]; omega

theorem routerAddress_accepts (v : SRouterAddress) (x : Bytes) (h : v.wf) (ha : MappingAccepted v.options) :
    readRouterAddress (routerAddressCodec.write v ++ x) = some (routerAddressCodec.write v, x) := by
  obtain ⟨hc, he, hs, hm⟩ := h
  have hs' : v.style.length < 256 := by omega
  have h9 : (beEnc 1 v.cost ++ beEnc 8 v.expiration).length = 9 := by
    simp only [List.length_append, beEnc_length]
  have hw : routerAddressCodec.write v ++ x =
      (beEnc 1 v.cost ++ beEnc 8 v.expiration) ++
        ((UInt8.ofNat v.style.length :: v.style) ++ (mappingCodec.write v.options ++ x)) := by
    rw [routerAddressCodec_write, beEnc_one _ hs']
    simp only [List.append_assoc, List.cons_append, List.nil_append]
  have hml := mapping_write_length v.options
  rw [readRouterAddress_some]
  refine ⟨?_, UInt8.ofNat v.style.length :: v.style, mappingCodec.write v.options ++ x, ?_, ?_, ?_, ?_⟩
  · rw [hw]; simp only [List.length_append, List.length_cons, beEnc_length]; omega
  · rw [hw, List.drop_left' h9]
    exact readStr_ok _ _ (strDataOk_enc _ (by omega))
  · exact mapping_accepted _ _ hm ha
  · rw [mapping_data _ _ hm ha, hw, List.take_left' h9, routerAddressCodec_write, beEnc_one _ hs']
    simp only [Option.getD_some, List.append_assoc, List.cons_append, List.nil_append]
  · rw [mapping_readMapping _ _ hm ha]

theorem addrs_readAddrs (as : List SRouterAddress) (x acc : Bytes) (h : ∀ a ∈ as, a.wf)
    (hm : ∀ a ∈ as, MappingAccepted a.options) :
    readAddrs as.length (writeAll routerAddressCodec as ++ x) acc = some (acc ++ writeAll routerAddressCodec as, x) := by
  induction as generalizing acc with
  | nil => simp [readAddrs_zero]
  | cons a t ih =>
    rw [List.length_cons, readAddrs_succ_some]
    refine ⟨routerAddressCodec.write a, writeAll routerAddressCodec t ++ x, ?_, ?_⟩
    · rw [writeAll_cons, List.append_assoc]
      exact routerAddress_accepts a _ (h a (by simp)) (hm a (by simp))
    · rw [ih _ (fun q hq => h q (List.mem_cons_of_mem _ hq)) (fun q hq => hm q (List.mem_cons_of_mem _ hq)),
        writeAll_cons, List.append_assoc]

/-! ### RouterInfo -/

theorem take_one_singleton {α} (a : α) (l : List α) : ([a] ++ l).take 1 = [a] := rfl

theorem identity_block_length (v : SIdentity) (h : v.wf) : (v.cryptoKey ++ (v.padding ++ v.sigKey)).length = 384 := by
  obtain ⟨nc, st, ct, ck, pad, sk, ex⟩ := v
  cases nc with
  | true =>
    simp only [SIdentity.wf, if_true] at h
    obtain ⟨rfl, rfl, hck, rfl, hsk, hex⟩ := h
    simp only [List.length_append, List.length_nil, hck, hsk]
  | false =>
    simp only [SIdentity.wf, Bool.false_eq_true, if_false] at h
    obtain ⟨hcs, hss, hs128, hck, hsk, hpad, hex⟩ := h
    have := cryptoSize_le ct
    simp only [List.length_append, hck, hsk, hpad]
    omega

/-- the certificate type byte sits at offset 384 of an identity -/
theorem identity_certKind (v : SIdentity) (y : Bytes) (h : v.wf) :
    ((identityCodec.write v ++ y).drop 384).take 1 = [v.certType] := by
  rw [identityCodec_write]
  simp only [List.append_assoc]
  rw [show v.cryptoKey ++ (v.padding ++ (v.sigKey ++ ([v.certType] ++ (beEnc 2 v.certPayload.length ++ (v.certPayload ++ y)))))
      = (v.cryptoKey ++ (v.padding ++ v.sigKey)) ++ ([v.certType] ++ (beEnc 2 v.certPayload.length ++ (v.certPayload ++ y))) by
        simp only [List.append_assoc]]
  rw [List.drop_left' (identity_block_length v h), take_one_singleton]

/-- the signature type `ReadRouterInfo` derives from the certificate kind is the identity's -/
theorem identity_riSigType (v : SIdentity) (y : Bytes) (spk : Nat) (h : v.wf) (hspk : spk = v.sigType) :
    (if ((identityCodec.write v ++ y).drop 384).take 1 == [5] then spk else 0) = v.sigType := by
  rw [identity_certKind v y h]
  obtain ⟨nc, st, ct, ck, pad, sk, ex⟩ := v
  cases nc with
  | true =>
    simp only [SIdentity.wf, if_true] at h
    obtain ⟨rfl, _⟩ := h
    simp [SIdentity.certType]
  | false =>
    simp [SIdentity.certType, hspk]

/-- restrictions of `ReadRouterInfo` relative to the layout -/
structure RouterInfoAccepted (v : SRouterInfo) : Prop where
  /-- key types the library can construct, and the RouterIdentity key-type policy -/
  ident : KacSupported v.ident ∧ ridAllowed v.ident.sigType v.ident.cryptoType = true
  /-- the parser reads the peer count byte but never the peer hashes: only `peers = []` (what every router writes) parses as specified -/
  peers : v.peers = []
  addresses : ∀ a ∈ v.addresses, MappingAccepted a.options
  options : MappingAccepted v.options

theorem routerInfo_accepts (v : SRouterInfo) (x : Bytes) (h : v.wf) (ha : RouterInfoAccepted v) :
    readRouterInfo (routerInfoCodec.write v ++ x) = some (routerInfoCodec.write v, x) := by
  obtain ⟨hd, hp, ⟨ha255, haw⟩, _, hm, hsg⟩ := h
  have hsig0 : sigLen v.ident.sigType ≠ 0 :=
    sigLen_ne_of_pub _ (by have := (sigPubSize_of_constructible ha.ident.1.1).1; omega)
  have hw : routerInfoCodec.write v =
      identityCodec.write v.ident ++ (beEnc 8 v.published ++ ([UInt8.ofNat v.addresses.length] ++
        (writeAll routerAddressCodec v.addresses ++ ([0] ++ (mappingCodec.write v.options ++ v.signature))))) := by
    rw [routerInfoCodec_write, ha.peers, beEnc_one _ (by omega)]
    simp only [List.length_nil, writeAll_nil, List.append_nil, List.append_assoc]
    rfl
  rw [hw, readRouterInfo_some]
  simp only [List.append_assoc]
  obtain ⟨k, hr, hspk, _, hb⟩ := identity_readRouterIdentity v.ident
    (beEnc 8 v.published ++ ([UInt8.ofNat v.addresses.length] ++
        (writeAll routerAddressCodec v.addresses ++ ([0] ++ (mappingCodec.write v.options ++ (v.signature ++ x))))))
    hd ha.ident.1 ha.ident.2
  refine ⟨k, _, _, hr, hb, ?_⟩
  rw [identity_riSigType v.ident _ _ hd hspk]
  have h8 : (beEnc 8 v.published).length = 8 := beEnc_length _ _
  have e8 : (beEnc 8 v.published ++ ([UInt8.ofNat v.addresses.length] ++
        (writeAll routerAddressCodec v.addresses ++ ([0] ++ (mappingCodec.write v.options ++ (v.signature ++ x)))))).drop 8
      = [UInt8.ofNat v.addresses.length] ++
        (writeAll routerAddressCodec v.addresses ++ ([0] ++ (mappingCodec.write v.options ++ (v.signature ++ x)))) :=
    List.drop_left' h8
  have e9 : (beEnc 8 v.published ++ ([UInt8.ofNat v.addresses.length] ++
        (writeAll routerAddressCodec v.addresses ++ ([0] ++ (mappingCodec.write v.options ++ (v.signature ++ x)))))).drop 9
      = writeAll routerAddressCodec v.addresses ++ ([0] ++ (mappingCodec.write v.options ++ (v.signature ++ x))) := by
    rw [← List.append_assoc]
    exact List.drop_left' (by rw [List.length_append, h8]; rfl)
  refine ⟨by rw [List.length_append, h8]; omega, writeAll routerAddressCodec v.addresses,
    [0] ++ (mappingCodec.write v.options ++ (v.signature ++ x)), v.signature, ?_, ?_, ?_, ?_⟩
  · rw [e8, e9, take_one_singleton, beVal_singleton, ofNat_toNat _ (by omega)]
    have := addrs_readAddrs v.addresses ([0] ++ (mappingCodec.write v.options ++ (v.signature ++ x))) [] haw ha.addresses
    simpa only [List.nil_append] using this
  · exact mapping_accepted _ _ hm ha.options
  · show readSig (readMapping (mappingCodec.write v.options ++ (v.signature ++ x))).rem _ = _
    rw [mapping_readMapping _ _ hm ha.options]
    exact sig_accepts _ _ _ hsg hsig0
  · show _ = _ ++ _ ++ _ ++ _ ++ _ ++ (data (readMapping (mappingCodec.write v.options ++ (v.signature ++ x)))).getD [] ++ _
    rw [mapping_data _ _ hm ha.options, e8, List.take_left' h8, take_one_singleton, take_one_singleton]
    simp only [Option.getD_some, List.append_assoc, List.cons_append, List.nil_append]

/-! ### LeaseSet (type 1) -/

theorem certPayload_length_lt (v : SIdentity) (h : v.wf) : v.certPayload.length < 65536 := by
  obtain ⟨nc, st, ct, ck, pad, sk, ex⟩ := v
  cases nc with
  | true =>
    simp only [SIdentity.wf, if_true] at h
    simp only [SIdentity.certPayload, if_true]
    omega
  | false =>
    simp only [SIdentity.wf, Bool.false_eq_true, if_false] at h
    simp only [SIdentity.certPayload, Bool.false_eq_true, if_false, List.length_append, beEnc_length]
    omega

/-- `ReadLeaseSet` decides "KEY certificate" by the certificate kind -/
theorem identity_isKey (v : SIdentity) : ([v.certType] == [5]) = !v.nullCert := by
  cases hn : v.nullCert <;> simp [SIdentity.certType, hn]

/-- a size looked up by "KEY certificate ? table spk : DSA default" is the table size of the identity's type -/
theorem identity_sizeBy (v : SIdentity) (h : v.wf) (f : Nat → Nat) (dflt : Nat) (h0 : f 0 = dflt) :
    (if (!v.nullCert) = true then f v.sigType else dflt) = f v.sigType := by
  obtain ⟨nc, st, ct, ck, pad, sk, ex⟩ := v
  cases nc with
  | true =>
    simp only [SIdentity.wf, if_true] at h
    obtain ⟨rfl, _⟩ := h
    simp [h0]
  | false => simp

/-- restrictions of `ReadLeaseSet` relative to the layout -/
structure LeaseSetAccepted (v : SLeaseSet) : Prop where
  dest : DestSupported v.dest
  /-- the ElGamal key VALUE is checked (2 ≤ Y < p − 1, as approximated by the model's `elgValid`) -/
  encKeyValue : elgValid v.encKey = true
  /-- for a NULL-certificate destination the DSA revocation key VALUE is checked (`dsaValid`) -/
  signingKeyValue : v.dest.nullCert = true → dsaValid v.signingKey = true

theorem leaseSet_accepts (v : SLeaseSet) (x : Bytes) (h : v.wf) (ha : LeaseSetAccepted v) :
    readLeaseSet (leaseSetCodec.write v ++ x) = some (leaseSetCodec.write v, x) := by
  obtain ⟨hd, hek, hsk, ⟨hl16, hlw⟩, hsg⟩ := h
  have hidl := identity_length v.dest hd
  have hpl := certPayload_length_lt v.dest hd
  have hbl := identity_block_length v.dest hd
  have hll := leases_length v.leases hlw
  -- the input, right-nested after the identity
  have hw : leaseSetCodec.write v ++ x =
      identityCodec.write v.dest ++ (v.encKey ++ (v.signingKey ++ ([UInt8.ofNat v.leases.length] ++
        (writeAll leaseCodec v.leases ++ (v.signature ++ x))))) := by
    rw [leaseSetCodec_write, beEnc_one _ (by omega)]
    simp only [List.append_assoc]
  generalize hR : v.encKey ++ (v.signingKey ++ ([UInt8.ofNat v.leases.length] ++
        (writeAll leaseCodec v.leases ++ (v.signature ++ x)))) = R at hw
  -- the certificate at offset 384
  have hdrop : (identityCodec.write v.dest ++ R).drop 384 =
      [v.dest.certType] ++ beEnc 2 v.dest.certPayload.length ++ v.dest.certPayload ++ R := by
    rw [identityCodec_write]
    simp only [List.append_assoc]
    rw [show v.dest.cryptoKey ++ (v.dest.padding ++ (v.dest.sigKey ++ ([v.dest.certType] ++
          (beEnc 2 v.dest.certPayload.length ++ (v.dest.certPayload ++ R)))))
        = (v.dest.cryptoKey ++ (v.dest.padding ++ v.dest.sigKey)) ++ ([v.dest.certType] ++
          (beEnc 2 v.dest.certPayload.length ++ (v.dest.certPayload ++ R))) by simp only [List.append_assoc]]
    exact List.drop_left' hbl
  have hcert := readCert_mk [v.dest.certType] (beEnc 2 v.dest.certPayload.length) v.dest.certPayload R rfl
    (beEnc_length _ _) (beVal_beEnc 2 _ (by omega))
  have hdecl : Cert.declared (Cert.mk [v.dest.certType] (beEnc 2 v.dest.certPayload.length)
      (v.dest.certPayload ++ R)) = v.dest.certPayload.length := beVal_beEnc 2 _ (by omega)
  obtain ⟨k, hr, hspk, _, hb⟩ := identity_readDestination v.dest [] hd ha.dest.1 ha.dest.2
  rw [List.append_nil] at hr
  have hR256 : R.take 256 = v.encKey := by rw [← hR]; exact List.take_left' hek
  have hRd : R.drop 256 = v.signingKey ++ ([UInt8.ofNat v.leases.length] ++
        (writeAll leaseCodec v.leases ++ (v.signature ++ x))) := by rw [← hR]; exact List.drop_left' hek
  have hRlen : R.length = 256 + (v.signingKey.length + (1 + (v.leases.length * 44 + (v.signature.length + x.length)))) := by
    rw [← hR]; simp only [List.length_append, List.length_singleton, hek, hll]
  have hks : v.signingKey.length = if ([v.dest.certType] == [5]) = true then sigPubSize k.kc.spk else 128 := by
    rw [identity_isKey, hspk, identity_sizeBy v.dest hd sigPubSize 128 (by decide), hsk]
  have hss : v.signature.length = if ([v.dest.certType] == [5]) = true then sigLen k.kc.spk else 40 := by
    rw [identity_isKey, hspk, identity_sizeBy v.dest hd sigLen 40 (by decide), hsg]
  rw [hw, readLeaseSet_some]
  refine ⟨by rw [List.length_append]; omega, _, _, k, identityCodec.write v.dest, by rw [hdrop]; exact hcert, ?_, ?_, hb, ?_⟩
  · rw [hdecl, List.length_append]; omega
  · rw [hdecl, List.take_left' hidl]; exact hr
  · rw [hdecl, List.drop_left' hidl]
    refine ⟨v.signingKey.length, v.signature.length, UInt8.ofNat v.leases.length,
      writeAll leaseCodec v.leases ++ (v.signature ++ x), hks, hss, by omega, by rw [hR256]; exact ha.encKeyValue,
      ?_, ?_, ?_, ?_, ?_, ?_⟩
    · rw [hRd, List.take_left' rfl, identity_isKey]
      cases hn : v.dest.nullCert with
      | true => exact Or.inr (ha.signingKeyValue hn)
      | false => exact Or.inl rfl
    · rw [← List.drop_drop, hRd, List.drop_left' rfl]; rfl
    · rw [ofNat_toNat _ (by omega)]; exact hl16
    · rw [ofNat_toNat _ (by omega), List.length_append, List.length_append, hll]; omega
    · rw [ofNat_toNat _ (by omega), hR256, hRd, List.take_left' rfl, ← hll, List.take_left' rfl, List.drop_left' rfl,
        List.take_left' rfl, leaseSetCodec_write, beEnc_one _ (by omega)]
      simp only [List.append_assoc]
    · rw [ofNat_toNat _ (by omega), ← List.drop_drop, ← hll, List.drop_left' rfl, List.drop_left' rfl]

end I2P.SpecLemmas
