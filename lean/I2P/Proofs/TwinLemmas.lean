import I2P.Twins
import I2P.Proofs.DataLemmas
import I2P.Proofs.TimeLemmas
/-! Helper lemmas for `Props/C19b.lean`: the twin entry points of `I2P/Twins.lean` against the readers and
    constructors already modelled. -/
namespace I2P.Twins
open I2P I2P.Spec I2P.Kac I2P.Structs

/-! ### generic: pointer wrappers and exact-length constructors against fixed-size readers -/

theorem ptrOf_eq {α : Type} (r : Option (α × Bytes)) : ptrOf r = r := by
  cases r with
  | none => rfl
  | some p => obtain ⟨v, rem⟩ := p; rfl

/-- characterisation of the fixed-size readers by the three length classes -/
theorem readFixedN_cases (n : Nat) (d : Bytes) :
    (d.length < n ∧ readFixedN n d = none) ∨
    (d.length = n ∧ readFixedN n d = some (d, [])) ∨
    (d.length > n ∧ readFixedN n d = some (d.take n, d.drop n) ∧ d.drop n ≠ []) := by
  unfold readFixedN
  by_cases h1 : d.length < n
  · left; exact ⟨h1, by rw [if_pos h1]⟩
  · by_cases h2 : d.length = n
    · right; left
      refine ⟨h2, ?_⟩
      rw [if_neg h1, List.take_of_length_le (by omega), List.drop_eq_nil_of_le (by omega)]
    · right; right
      refine ⟨by omega, by rw [if_neg h1], ?_⟩
      intro h
      have := congrArg List.length h
      simp at this
      omega

/-- the exact-length constructor accepts exactly the inputs the reader consumes completely, with the same value -/
theorem setBytes_iff_readFixedN (n : Nat) (d s : Bytes) :
    setBytes n d = some s ↔ readFixedN n d = some (s, []) := by
  unfold setBytes
  rcases readFixedN_cases n d with ⟨h, hr⟩ | ⟨h, hr⟩ | ⟨h, hr, hne⟩
  · rw [hr, if_pos (by omega)]; simp
  · rw [hr, if_neg (by omega)]; simp
  · rw [hr, if_pos (by omega)]
    constructor
    · intro h; cases h
    · intro h
      simp only [Option.some.injEq, Prod.mk.injEq] at h
      exact absurd h.2 hne

/-- the reader also accepts longer input; the exact-length constructor then rejects the whole buffer but
    accepts the consumed prefix, with the same value -/
theorem readFixedN_longer (n : Nat) (d s r : Bytes) (h : readFixedN n d = some (s, r)) (hr : r ≠ []) :
    setBytes n d = none ∧ setBytes n s = some s := by
  rcases readFixedN_cases n d with ⟨_, hr'⟩ | ⟨_, hr'⟩ | ⟨hl, hr', _⟩
  · rw [hr'] at h; cases h
  · rw [hr'] at h
    simp only [Option.some.injEq, Prod.mk.injEq] at h
    exact absurd h.2.symm hr
  · rw [hr'] at h
    simp only [Option.some.injEq, Prod.mk.injEq] at h
    obtain ⟨rfl, _⟩ := h
    unfold setBytes
    constructor
    · rw [if_pos (by omega)]
    · rw [if_neg (by simp; omega)]

theorem readFixedN_short (n : Nat) (d : Bytes) (h : d.length < n) : readFixedN n d = none ∧ setBytes n d = none := by
  unfold readFixedN setBytes
  rw [if_pos h, if_pos (by omega)]
  exact ⟨rfl, rfl⟩

/-! ### signature -/

theorem sigLen_big (n : Nat) : sigLen (n + 12) = 0 := rfl

/-- `getSignatureLength` is the lookup the existing reader model uses -/
theorem getSignatureLength_spec (t : Int) :
    getSignatureLength t = if t < 0 then none else if sigLen t.toNat = 0 then none else some (sigLen t.toNat) := by
  unfold getSignatureLength
  by_cases h0 : t < 0
  · rw [if_pos (Or.inl h0), if_pos h0]
  · rw [if_neg h0]
    by_cases h1 : t > 65535
    · rw [if_pos (Or.inr h1)]
      obtain ⟨k, hk⟩ : ∃ k, t.toNat = k + 12 := ⟨t.toNat - 12, by omega⟩
      rw [hk, sigLen_big]; rfl
    · rw [if_neg (by omega)]
      match t.toNat with
      | 0 | 1 | 2 | 3 | 4 | 5 | 6 | 7 | 8 | 9 | 10 | 11 => rfl
      | k + 12 => rfl

theorem getSignatureLength_pos {t : Int} {n : Nat} (h : getSignatureLength t = some n) : 0 ≤ t ∧ sigLen t.toNat = n ∧ n ≠ 0 := by
  rw [getSignatureLength_spec] at h
  by_cases h0 : t < 0
  · rw [if_pos h0] at h; cases h
  · rw [if_neg h0] at h
    by_cases h1 : sigLen t.toNat = 0
    · rw [if_pos h1] at h; cases h
    · rw [if_neg h1] at h
      cases h
      exact ⟨by omega, rfl, h1⟩

/-- the existing reader model, rewritten as the Go code is written: own lookup, then a fixed-size read -/
theorem readSignature_eq (d : Bytes) (t : Int) :
    readSignature d t = match getSignatureLength t with | none => none | some n => readFixedN n d := by
  rw [getSignatureLength_spec]
  unfold readSignature
  by_cases h0 : t < 0
  · rw [if_pos h0, if_pos h0]
  · rw [if_neg h0, if_neg h0]
    unfold readSig
    by_cases h1 : sigLen t.toNat = 0
    · simp only [h1, if_true]
    · simp only [h1, if_false]; rfl

theorem newSignatureFromBytes_eq (d : Bytes) (t : Int) :
    newSignatureFromBytes d t = match getSignatureLength t with | none => none | some n => setBytes n d := rfl

/-! ### strings -/

theorem toI2PString_eq_newStr (c : Bytes) : toI2PString c = newStr c := by
  unfold toI2PString newStr STRING_MAX_SIZE
  rfl

theorem newStrFromBytes_iff_readStr (d s : Bytes) :
    newStrFromBytes d = some s ↔ readStr d = (s, [], none) := by
  cases d with
  | nil => simp [newStrFromBytes, readStr]
  | cons l rest =>
    simp only [newStrFromBytes, readStr]
    by_cases h1 : l.toNat ≤ rest.length
    · rw [if_pos h1]
      by_cases h2 : rest.length = l.toNat
      · have ht : rest.take l.toNat = rest := List.take_of_length_le (by omega)
        have hd : rest.drop l.toNat = [] := List.drop_eq_nil_of_le (by omega)
        simp [h2, ht, hd]
      · have hd : rest.drop l.toNat ≠ [] := by
          intro h
          have := congrArg List.length h
          simp at this
          omega
        simp [h2, hd]
    · rw [if_neg h1]
      have h2 : rest.length ≠ l.toNat := by omega
      simp [h2]

theorem readStr_longer (d s r : Bytes) (h : readStr d = (s, r, none)) (hr : r ≠ []) :
    newStrFromBytes d = none ∧ newStrFromBytes s = some s := by
  cases d with
  | nil => simp [readStr] at h
  | cons l rest =>
    simp only [readStr] at h
    by_cases h1 : l.toNat ≤ rest.length
    · rw [if_pos h1] at h
      simp only [Prod.mk.injEq, and_true] at h
      obtain ⟨rfl, rfl⟩ := h
      have hlt : l.toNat < rest.length := by
        apply Nat.lt_of_le_of_ne h1
        intro he
        apply hr
        exact List.drop_eq_nil_of_le (by omega)
      constructor
      · simp [newStrFromBytes]; omega
      · simp [newStrFromBytes]; omega
    · rw [if_neg h1] at h
      simp at h

/-! ### integers -/

/-- the low `n` bytes of a wider big-endian encoding are the `n`-byte encoding -/
theorem beEnc_drop (m n v : Nat) : (beEnc (m + n) v).drop m = beEnc n v := by
  induction n generalizing v with
  | zero => exact List.drop_eq_nil_of_le (by simp)
  | succ n ih =>
    show (beEnc (m + n) (v / 256) ++ [UInt8.ofNat (v % 256)]).drop m = beEnc n (v / 256) ++ [UInt8.ofNat (v % 256)]
    rw [List.drop_append_of_le_length (by simp), ih]

theorem encodeIntN_eq_newIntegerFromInt (v n : Int) : encodeIntN v n = newIntegerFromInt v n := by
  unfold encodeIntN newIntegerFromInt maxValueForSize
  by_cases hv : v < 0
  · rw [if_pos hv, if_pos hv]
  · rw [if_neg hv, if_neg hv]
    by_cases hn : n < 1 ∨ n > 8
    · rw [if_pos hn, if_pos hn]
    · rw [if_neg hn, if_neg hn]
      have hd : (beEnc 8 (toUInt64 v)).drop (8 - n.toNat) = beEnc n.toNat (toUInt64 v) := by
        have := beEnc_drop (8 - n.toNat) n.toNat (toUInt64 v)
        rwa [show 8 - n.toNat + n.toNat = 8 from by omega] at this
      simp only [hd]

theorem newIntegerFromInt_some {v n : Int} {b : Bytes} (h : newIntegerFromInt v n = some b) :
    0 ≤ v ∧ 1 ≤ n ∧ n ≤ 8 ∧ toUInt64 v ≤ maxValueForSize n ∧ b = beEnc n.toNat (toUInt64 v) := by
  unfold newIntegerFromInt at h
  by_cases hv : v < 0
  · rw [if_pos hv] at h; cases h
  · rw [if_neg hv] at h
    by_cases hn : n < 1 ∨ n > 8
    · rw [if_pos hn] at h; cases h
    · rw [if_neg hn] at h
      by_cases hm : toUInt64 v > maxValueForSize n
      · rw [if_pos hm] at h; cases h
      · rw [if_neg hm] at h
        cases h
        exact ⟨by omega, by omega, by omega, by omega, rfl⟩

/-- the fixed-width helpers produce the bytes `NewIntegerFromInt` produces at widths 2, 4 and 8 -/
theorem encodeUintN_of_newIntegerFromInt {v : Int} {k : Nat} {b : Bytes} (hk : k = 2 ∨ k = 4 ∨ k = 8)
    (h : newIntegerFromInt v (k : Int) = some b) : encodeUintN v k = some b := by
  obtain ⟨_, _, _, hm, rfl⟩ := newIntegerFromInt_some h
  unfold maxValueForSize at hm
  rcases hk with rfl | rfl | rfl
  · have : toUInt64 v ≤ 2 ^ 16 - 1 := by simpa using hm
    simp only [encodeUintN, encodeUint16, Int.toNat_natCast]
    rw [Nat.mod_eq_of_lt (by omega)]
  · have : toUInt64 v ≤ 2 ^ 32 - 1 := by simpa using hm
    simp only [encodeUintN, encodeUint32, Int.toNat_natCast]
    rw [Nat.mod_eq_of_lt (by omega)]
  · simp only [encodeUintN, encodeUint64, Int.toNat_natCast]

theorem decodeIntN_eq_intSafe (b : Bytes) (h : b.length ≤ 8 → beVal b < 2 ^ 63) : decodeIntN b = integerIntSafe b := by
  unfold decodeIntN integerIntSafe
  by_cases hl : b.length = 0 ∨ b.length > 8
  · rw [if_pos hl, if_pos hl]
  · rw [if_neg hl, if_neg hl]
    have h63 := h (by omega)
    rw [if_neg (by omega), intFromBytes_small b (by omega) (by omega) h63]

/-- at or above 2^63 (eight bytes, top bit set) the two decoders part: `DecodeIntN` refuses, `IntSafe` wraps -/
theorem decodeIntN_intSafe_high (b : Bytes) (h8 : b.length = 8) (h : 2 ^ 63 ≤ beVal b) :
    decodeIntN b = none ∧ integerIntSafe b = some ((beVal b : Int) - 2 ^ 64) := by
  unfold decodeIntN integerIntSafe intFromBytes
  have hlt := beVal_lt b
  rw [h8, p8] at hlt
  constructor
  · rw [if_neg (by omega), if_pos (by omega)]
  · rw [if_neg (by omega), if_neg (by omega), if_neg (by omega), List.take_of_length_le (by omega)]
    unfold toInt64
    rw [Nat.mod_eq_of_lt hlt, if_neg (by omega)]

/-! ### dates -/

theorem newDateFromUnix_eq_millis (s : Int) (h0 : 0 ≤ s) (hmax : s ≤ (2 ^ 63 - 1) / 1000) :
    newDateFromUnix s = newDateFromMillis (s * 1000) := by
  unfold newDateFromUnix newDateFromMillis
  rw [if_neg (by omega), if_neg (by omega), if_neg (by omega)]
  have h1 : s * 1000 / 1000 = s := by omega
  have h2 : s * 1000 % 1000 * 1000000 = 0 := by omega
  rw [h1, h2]

theorem newDateFromUnix_isSome (s : Int) : (newDateFromUnix s).isSome ↔ (0 ≤ s ∧ s ≤ (2 ^ 63 - 1) / 1000) := by
  unfold newDateFromUnix
  by_cases h0 : s < 0
  · rw [if_pos h0]; simp; omega
  · rw [if_neg h0]
    by_cases h1 : s > (2 ^ 63 - 1) / 1000
    · rw [if_pos h1]; simp; omega
    · rw [if_neg h1]; simp; omega

theorem newDateFromMillis_eq_fromTime (ms : Int) (h0 : 0 ≤ ms) :
    newDateFromMillis ms = some (dateFromTime (Time.timeUnixMilli ms)) := by
  unfold newDateFromMillis Time.timeUnixMilli
  rw [if_neg (by omega), Int.tdiv_eq_ediv_of_nonneg h0, Int.tmod_eq_emod_of_nonneg h0]

/-! ### ECIES session tag reader (calls the exact-length constructor on the prefix) -/

theorem readECIESSessionTag_eq (d : Bytes) : readECIESSessionTag d = readFixedN 8 d := by
  unfold readECIESSessionTag readFixedN newECIESSessionTagFromBytes setBytes
  by_cases h : d.length < 8
  · rw [if_pos h, if_pos h]
  · rw [if_neg h, if_neg h]
    have : (d.take 8).length = 8 := by simp; omega
    rw [if_neg (by omega)]

/-! ### certificate builder -/

theorem putUint16_length (v : Int) : (putUint16 v).length = 2 := by simp [putUint16]

theorem beVal_putUint16 (v : Int) (h0 : 0 ≤ v) (h1 : v ≤ 65535) : beVal (putUint16 v) = v.toNat := by
  unfold putUint16
  obtain ⟨m, rfl⟩ := Int.eq_ofNat_of_zero_le h0
  rw [toU m (by omega), Nat.mod_eq_of_lt (by omega), beVal_beEnc 2 m (by omega)]
  simp

/-- what every reachable builder state satisfies -/
structure CertBuilder.Inv (cb : CertBuilder) : Prop where
  typeOk : isValidCertType cb.certType = true
  both : cb.signingType.isSome = cb.cryptoType.isSome
  sigRange : ∀ s, cb.signingType = some s → 0 ≤ s ∧ s ≤ 65535
  cryRange : ∀ c, cb.cryptoType = some c → 0 ≤ c ∧ c ≤ 65535
  noSource : cb.payloadSet = false → cb.signingType = none → cb.payload = []

theorem inv_new : newCertBuilder.Inv :=
  ⟨rfl, rfl, (by intro s h; cases h), (by intro c h; cases h), fun _ _ => rfl⟩

theorem inv_withType {cb cb' : CertBuilder} {t : Nat} (hi : cb.Inv) (h : cb.withType t = some cb') : cb'.Inv := by
  unfold CertBuilder.withType at h
  by_cases ht : isValidCertType t = true
  · simp only [ht, Bool.not_true, Bool.false_eq_true, if_false, Option.some.injEq] at h
    subst h
    exact ⟨ht, hi.both, hi.sigRange, hi.cryRange, hi.noSource⟩
  · simp only [ht, Bool.not_false] at h
    simp at h

theorem withKeyTypes_some {cb cb' : CertBuilder} {s c : Int} (h : cb.withKeyTypes s c = some cb') :
    0 ≤ s ∧ s ≤ 65535 ∧ 0 ≤ c ∧ c ≤ 65535 ∧
      cb' = { cb with certType := 5, signingType := some s, cryptoType := some c, payloadSet := false } := by
  unfold CertBuilder.withKeyTypes at h
  by_cases h1 : s < 0
  · rw [if_pos h1] at h; cases h
  · rw [if_neg h1] at h
    by_cases h2 : c < 0
    · rw [if_pos h2] at h; cases h
    · rw [if_neg h2] at h
      by_cases h3 : s > 65535
      · rw [if_pos h3] at h; cases h
      · rw [if_neg h3] at h
        by_cases h4 : c > 65535
        · rw [if_pos h4] at h; cases h
        · rw [if_neg h4] at h
          cases h
          exact ⟨by omega, by omega, by omega, by omega, rfl⟩

theorem inv_withKeyTypes {cb cb' : CertBuilder} {s c : Int} (_hi : cb.Inv) (h : cb.withKeyTypes s c = some cb') : cb'.Inv := by
  obtain ⟨a, b, c0, d, rfl⟩ := withKeyTypes_some h
  refine ⟨rfl, rfl, ?_, ?_, ?_⟩
  · intro s' hs; cases hs; exact ⟨a, b⟩
  · intro c' hc; cases hc; exact ⟨c0, d⟩
  · intro _ hs; cases hs

theorem inv_withPayload {cb : CertBuilder} (hi : cb.Inv) (p : Bytes) : (cb.withPayload p).Inv :=
  ⟨hi.typeOk, hi.both, hi.sigRange, hi.cryRange, (by intro h; cases h)⟩

theorem inv_step {cb : CertBuilder} (hi : cb.Inv) (s : Step) : (cb.step s).1.Inv := by
  cases s with
  | type t =>
    simp only [CertBuilder.step]
    cases h : cb.withType t with
    | none => exact hi
    | some cb' => exact inv_withType hi h
  | payload p => exact inv_withPayload hi p
  | keyTypes s c =>
    simp only [CertBuilder.step]
    cases h : cb.withKeyTypes s c with
    | none => exact hi
    | some cb' => exact inv_withKeyTypes hi h

theorem inv_run (steps : List Step) : ∀ {cb : CertBuilder}, cb.Inv → (cb.run steps).Inv := by
  induction steps with
  | nil => intro cb hi; exact hi
  | cons s rest ih => intro cb hi; exact ih (inv_step hi s)

theorem buildKeyTypePayload_of_range {s c : Int} (h1 : 0 ≤ s) (h2 : s ≤ 65535) (h3 : 0 ≤ c) (h4 : c ≤ 65535) :
    buildKeyTypePayload s c = some (putUint16 s ++ putUint16 c) := by
  unfold buildKeyTypePayload
  rw [if_neg (by omega), if_neg (by omega), if_neg (by omega), if_neg (by omega)]

/-- on every state satisfying the invariant, `Build` is the direct-constructor route -/
theorem build_eq_direct_of_inv {cb : CertBuilder} (hi : cb.Inv) : cb.build = cb.direct := by
  obtain ⟨t, payload, sg, cr, ps⟩ := cb
  have hT := hi.typeOk
  have hB := hi.both
  simp only at hT hB
  unfold CertBuilder.build CertBuilder.validate CertBuilder.validateKeyCertificateFields
    CertBuilder.buildPayloadIfNeeded CertBuilder.direct
  cases ps with
  | true =>
    cases sg <;> cases cr <;> simp_all
  | false =>
    cases sg with
    | none =>
      cases cr with
      | some c => simp at hB
      | none =>
        have hp : payload = [] := hi.noSource rfl rfl
        subst hp
        by_cases h5 : t = 5
        · subst h5; simp
        · by_cases h02 : t = 0 ∨ t = 2
          · simp [hT, h5, h02]
          · simp [hT, h5, h02]
    | some s =>
      cases cr with
      | none => simp at hB
      | some c =>
        obtain ⟨a1, a2⟩ := hi.sigRange s rfl
        obtain ⟨b1, b2⟩ := hi.cryRange c rfl
        simp [hT, buildKeyTypePayload_of_range a1 a2 b1 b2, CertBuilder.keyTypePayload]

/-! ### NewKeyCertificateWithTypes -/

theorem validSigningType_range {s : Int} (hs : validSigningType s = true) : 0 ≤ s ∧ s ≤ 65535 := by
  unfold validSigningType at hs
  by_cases he : 65280 ≤ s ∧ s ≤ 65534
  · omega
  · simp [he] at hs; omega

theorem validCryptoType_range {c : Int} (hc : validCryptoType c = true) : 0 ≤ c ∧ c ≤ 65535 := by
  unfold validCryptoType at hc
  by_cases he : 65280 ≤ c ∧ c ≤ 65534
  · omega
  · simp [he] at hc; omega

/-- the KEY certificate `NewCertificateWithType(KEY, p)` builds from a four-byte payload -/
def keyCertOf (p : Bytes) : Cert := { kind := [UInt8.ofNat 5], len := beEnc 2 4, payload := p }

theorem newCertWithType_key (p : Bytes) (hl : p.length = 4) : newCertWithType 5 p = some (keyCertOf p) := by
  unfold newCertWithType keyCertOf
  rw [if_neg (by omega), if_neg (by omega), if_neg (by omega), if_neg (by omega), if_neg (by omega), hl]

theorem keyCertFromCert_key (p : Bytes) (hl : p.length = 4) :
    keyCertFromCert (keyCertOf p) = some { cert := keyCertOf p, spk := beVal (p.take 2), cpk := beVal ((p.drop 2).take 2) } := by
  have ht : (keyCertOf p).type = 5 := by show beVal [UInt8.ofNat 5] = 5; decide
  have hd : (keyCertOf p).declared = 4 := by show beVal (beEnc 2 4) = 4; decide
  have hdata : (keyCertOf p).data = p := by
    show p.take (keyCertOf p).declared = p
    rw [hd, List.take_of_length_le (by omega)]
  unfold keyCertFromCert
  rw [if_neg (by rw [ht]; simp)]
  simp only [hdata]
  rw [if_neg (by omega)]

/-- characterisation of `NewKeyCertificateWithTypes` on the key types it states -/
theorem newKeyCertWithTypes_valid (s c : Int) (hs : validSigningType s = true) (hc : validCryptoType c = true) :
    newKeyCertWithTypes s c =
      some { cert := keyCertOf (putUint16 s ++ putUint16 c), spk := s.toNat, cpk := c.toNat } := by
  obtain ⟨s0, s1⟩ := validSigningType_range hs
  obtain ⟨c0, c1⟩ := validCryptoType_range hc
  have hlen : (putUint16 s ++ putUint16 c).length = 4 := by simp [putUint16_length]
  unfold newKeyCertWithTypes buildKeyCertificatePayload
  simp only [hs, hc, Bool.not_true, Bool.false_eq_true, if_false]
  rw [newCertWithType_key _ hlen]
  simp only [keyCertFromCert_key _ hlen]
  have h1 : beVal ((putUint16 s ++ putUint16 c).take 2) = s.toNat := by
    rw [List.take_append_of_le_length (by simp [putUint16_length]), List.take_of_length_le (by simp [putUint16_length]),
      beVal_putUint16 s s0 s1]
  have h2 : beVal (((putUint16 s ++ putUint16 c).drop 2).take 2) = c.toNat := by
    rw [List.drop_append_of_le_length (by simp [putUint16_length]), List.drop_eq_nil_of_le (by simp [putUint16_length]),
      List.nil_append, List.take_of_length_le (by simp [putUint16_length]), beVal_putUint16 c c0 c1]
  rw [h1, h2]

theorem newKeyCertWithTypes_invalid (s c : Int) (h : validSigningType s = false ∨ validCryptoType c = false) :
    newKeyCertWithTypes s c = none := by
  unfold newKeyCertWithTypes
  rcases h with h | h
  · simp [h]
  · cases hs : validSigningType s <;> simp [h]

end I2P.Twins
