import I2P.Checked3Meta
import I2P.Proofs.CheckedLemmas2
/-! Lemmas about the third part of the checked layer (`I2P/Checked3Meta.lean`): `ReadMetaLeaseSet` and its
    parse helpers.  Same pattern as `CheckedLemmas.lean` / `CheckedLemmas2.lean`: an `_eq` / `_spec` lemma per
    mirror (it never panics and returns what the pure model `Structs.readMeta` computes at that stage), the loop
    by induction on the fuel.  The property theorems are in `Props/C04d.lean`. -/

set_option linter.unusedSimpArgs false

namespace I2P.Checked
open I2P I2P.Spec I2P.Kac I2P.Structs

/-! ### a stored mapping and its wire form -/

theorem mappingDataC_metaDataP (m : MappingC) : mappingDataC (some m) = .ok m.metaDataP := by
  rw [mappingDataC_eq, MappingC.metaDataP, values_data]

theorem metaWire_of_read {w : Bytes} {m : MappingC} (h1 : m.size.isSome = (Mapping.readMapping w).hasSize)
    (h2 : valsData m.vals = (Mapping.readMapping w).vals) :
    m.metaWire = if ((Mapping.readMapping w).vals.getD []).length = 0 then [0, 0]
             else (Mapping.data (Mapping.readMapping w)).getD [] := by
  have hv : m.values.map pairData = (Mapping.readMapping w).vals.getD [] := by rw [values_data, h2]
  have hl : m.values.length = ((Mapping.readMapping w).vals.getD []).length := by rw [← hv]; simp
  simp only [MappingC.metaWire, MappingC.metaDataP, Mapping.data, hv, h1, hl]
  by_cases h0 : ((Mapping.readMapping w).vals.getD []).length = 0
  · simp [h0]
  · have : ((Mapping.readMapping w).vals.getD []).length > 0 := by omega
    simp only [this, h0, if_true, if_false]
    cases (Mapping.readMapping w).hasSize <;> simp

theorem metaReadOptions_of_read {w : Bytes} {m : MappingC} (h1 : m.size.isSome = (Mapping.readMapping w).hasSize)
    (h2 : valsData m.vals = (Mapping.readMapping w).vals) :
    readOptions w true =
      if Mapping.accepted (Mapping.readMapping w) = true then some (m.metaWire, (Mapping.readMapping w).rem) else none := by
  rw [metaWire_of_read h1 h2]
  unfold readOptions
  simp only []
  cases Mapping.accepted (Mapping.readMapping w) <;> simp

theorem metaIsBeyond_m (e : Mapping.E) : isBeyondWarningC (.m e) = (e == .beyond) := by
  cases e <;> rfl

theorem fatalMappingErrorC_map (errs : List Mapping.E) :
    (metaFatalMappingErrorC (errs.map .m)).isNone = errs.all (· == .beyond) := by
  induction errs with
  | nil => rfl
  | cons e t ih =>
    simp only [List.map_cons, metaFatalMappingErrorC, metaIsBeyond_m, List.all_cons]
    cases (e == Mapping.E.beyond) <;> simp [ih]

theorem meta_accepted_rem_le {w : Bytes} (ha : Mapping.accepted (Mapping.readMapping w) = true) :
    (Mapping.readMapping w).rem.length + 2 ≤ w.length := by
  obtain ⟨h, l, rest, rfl, hz | ⟨hz, hle, hv⟩⟩ := Mapping.accepted_cases w ha
  · rw [Mapping.readMapping_zero h l rest hz]; simp
  · rw [Mapping.readMapping_accepted_fit h l rest hz hle hv]; simp

/-- `ReadMapping` + `fatalMappingError`, as both `parseOptionsMapping` and `parseEntryProperties` use them -/
theorem metaReadMapping_fatal (s : Sl) :
    ∃ m rem, m.size.isSome = (Mapping.readMapping s.data).hasSize ∧
      valsData m.vals = (Mapping.readMapping s.data).vals ∧ rem.data = (Mapping.readMapping s.data).rem ∧
      ∃ errs, readMappingS s = .ok (m, rem, errs) ∧
        (metaFatalMappingErrorC errs).isNone = Mapping.accepted (Mapping.readMapping s.data) := by
  obtain ⟨m, rem, h, h1, h2, h3⟩ := readMappingS_spec s
  exact ⟨m, rem, h1, h2, h3, _, h, by rw [fatalMappingErrorC_map]; rfl⟩

theorem metaParseOptionsMappingC_spec (mls : MLS) (s : Sl) :
    ∃ m rem, m.size.isSome = (Mapping.readMapping s.data).hasSize ∧
      valsData m.vals = (Mapping.readMapping s.data).vals ∧ rem.data = (Mapping.readMapping s.data).rem ∧
      metaParseOptionsMappingC mls s = .ok (if Mapping.accepted (Mapping.readMapping s.data) = true
        then some ({ mls with options := m }, rem) else none) := by
  obtain ⟨m, rem, h1, h2, h3, errs, h, hf⟩ := metaReadMapping_fatal s
  refine ⟨m, rem, h1, h2, h3, ?_⟩
  simp only [metaParseOptionsMappingC, h, bind_ok]
  rw [← hf]
  cases metaFatalMappingErrorC errs <;> rfl

theorem metaParseEntryPropertiesC_spec (e : MetaEntry) (s : Sl) :
    ∃ m rem, m.size.isSome = (Mapping.readMapping s.data).hasSize ∧
      valsData m.vals = (Mapping.readMapping s.data).vals ∧ rem.data = (Mapping.readMapping s.data).rem ∧
      metaParseEntryPropertiesC e s = .ok (if Mapping.accepted (Mapping.readMapping s.data) = true
        then some ({ e with properties := m }, rem) else none) := by
  obtain ⟨m, rem, h1, h2, h3, errs, h, hf⟩ := metaReadMapping_fatal s
  refine ⟨m, rem, h1, h2, h3, ?_⟩
  simp only [metaParseEntryPropertiesC, h, bind_ok]
  rw [← hf]
  cases metaFatalMappingErrorC errs <;> rfl

/-! ### destination and header -/

theorem metaParseHeaderFieldsC_eq (mls : MLS) (s : Sl) (h : 8 ≤ s.len) :
    metaParseHeaderFieldsC mls s = .ok
      ({ mls with published := beVal (s.data.take 4), expires := beVal ((s.data.drop 4).take 2), flags := beVal ((s.data.drop 6).take 2) },
       ((s.adv 4).adv 2).adv 2) := by
  have a1 := sliceFrom_adv (s := s) (n := 4) (by omega)
  have l1 := Sl.adv_len (s := s) (n := 4) (by omega)
  have a2 := sliceFrom_adv (s := s.adv 4) (n := 2) (by omega)
  have l2 := Sl.adv_len (s := s.adv 4) (n := 2) (by omega)
  have a3 := sliceFrom_adv (s := (s.adv 4).adv 2) (n := 2) (by omega)
  simp only [Int.cast_ofNat_Int] at a1 a2 a3
  simp only [metaParseHeaderFieldsC]
  rw [sliceTo_eq (by omega) (by omega)]
  simp only [bind_ok, Int.reduceToNat, a1, beUint32_sub (s := s) (by omega)]
  rw [sliceTo_eq (by omega) (by omega)]
  simp only [bind_ok, Int.reduceToNat, a2, beUint16_sub (s := s.adv 4) (by omega)]
  rw [sliceTo_eq (by omega) (by omega)]
  simp only [bind_ok, Int.reduceToNat, a3, beUint16_sub (s := (s.adv 4).adv 2) (by omega), pure_eq_ok]
  have d1 : (s.adv 4).data = s.data.drop 4 := Sl.adv_data (by omega)
  have d2 : ((s.adv 4).adv 2).data = s.data.drop 6 := by rw [Sl.adv_data (by omega), d1, List.drop_drop]
  rw [d2, d1]

/-- `parseDestinationAndHeader`: never panics; it fails exactly when the pure model fails in its first three
    checks, and otherwise sets destination, published, expires, flags from the pure model's values -/
theorem metaParseDestinationAndHeaderC_spec (mls : MLS) (s : Sl) :
    ∃ r, metaParseDestinationAndHeaderC mls s = .ok r ∧
      match r with
      | none => s.len < 505 ∨ readDestination s.data = none ∨
          ∃ k r0, readDestination s.data = some (k, r0) ∧ r0.length < 8
      | some (l, rem) => 505 ≤ s.len ∧ ∃ k r0, readDestination s.data = some (k, r0) ∧ 8 ≤ r0.length ∧
          l = { mls with destination := some k, published := beVal (r0.take 4),
                         expires := beVal ((r0.drop 4).take 2), flags := beVal ((r0.drop 6).take 2) } ∧
          rem.data = r0.drop 8 := by
  simp only [metaParseDestinationAndHeaderC, metaValidateMinSizeC, metaValidateHeaderDataSizeC,
    metaParseDestinationFieldC, Sl.ilen_eq]
  by_cases h : s.len < 505
  · have : (s.len : Int) < 505 := by omega
    simp only [this, decide_true, Bool.not_true, Bool.not_false, if_true, pure_eq_ok]
    exact ⟨none, rfl, Or.inl h⟩
  · have : ¬ (s.len : Int) < 505 := by omega
    simp only [this, decide_false, Bool.not_false, Bool.not_true, Bool.false_eq_true, if_false]
    obtain ⟨r, hr, hv⟩ := readDestinationS_spec s
    rw [hr]
    simp only [bind_ok]
    cases r with
    | none =>
      simp only [vRem_none] at hv
      exact ⟨none, rfl, Or.inr (Or.inl hv.symm)⟩
    | some p =>
      obtain ⟨k, rem⟩ := p
      simp only [vRem_some] at hv
      simp only [pure_eq_ok, bind_ok]
      by_cases h8 : rem.len < 8
      · have : (rem.len : Int) < 4 + 2 + 2 := by omega
        simp only [this, decide_true, Bool.not_true, Bool.not_false, if_true]
        exact ⟨none, rfl, Or.inr (Or.inr ⟨k, rem.data, hv.symm, by simpa using h8⟩)⟩
      · have : ¬ (rem.len : Int) < 4 + 2 + 2 := by omega
        simp only [this, decide_false, Bool.not_false, Bool.not_true, Bool.false_eq_true, if_false,
          metaParseHeaderFieldsC_eq _ rem (by omega), bind_ok]
        exact ⟨_, rfl, by omega, k, rem.data, hv.symm, by simp; omega, rfl, adv3_data rem (by omega)⟩

/-! ### offline signature, trailing signature -/

theorem metaParseOfflineSignatureC_spec (mls : MLS) (s : Sl) (k : KeysAndCert) (hd : mls.destination = some k)
    (ho : mls.offlineSignature = none) (hs : k.kc.spk % 65536 = k.kc.spk) :
    ∃ r, metaParseOfflineSignatureC mls s = .ok r ∧
      match r with
      | none => (if mls.flags % 2 = 1 then readOffSig s.data k.kc.spk else some ([], s.data, k.kc.spk)) = none
      | some (l, rem) => ∃ oo : Option OffSig, l = { mls with offlineSignature := oo } ∧
          (oo.isSome ↔ mls.flags % 2 = 1) ∧
          (if mls.flags % 2 = 1 then readOffSig s.data k.kc.spk else some ([], s.data, k.kc.spk)) =
            some (offBytes oo, rem.data, offSigT oo k.kc.spk) := by
  simp only [metaParseOfflineSignatureC, MLS.hasOfflineKeys]
  by_cases hf : mls.flags % 2 = 1
  · simp only [hf, decide_true, Bool.not_true, Bool.false_eq_true, if_false, if_true, hd, deref, bind_ok, hs]
    obtain ⟨r, hr, hv⟩ := readOffSigS_spec s k.kc.spk
    rw [hr, ← hv]
    cases r with
    | none => exact ⟨none, rfl, rfl⟩
    | some p =>
      obtain ⟨o, rem⟩ := p
      exact ⟨_, rfl, some o, rfl, by simp, rfl⟩
  · simp only [hf, decide_false, Bool.not_false, if_true, pure_eq_ok, if_false]
    refine ⟨_, rfl, none, ?_, by simp [hf], rfl⟩
    cases mls; simp_all

theorem metaParseSignatureAndFinalizeC_spec (mls : MLS) (s : Sl) (k : KeysAndCert) (hd : mls.destination = some k)
    (hoff : mls.offlineSignature.isSome ↔ mls.flags % 2 = 1) :
    ∃ r, metaParseSignatureAndFinalizeC mls s = .ok r ∧
      match r with
      | none => readSig s.data (offSigT mls.offlineSignature k.kc.spk) = none
      | some (l, rem) => ∃ sb, l = { mls with signature := sb } ∧
          readSig s.data (offSigT mls.offlineSignature k.kc.spk) = some (sb, rem.data) := by
  have hty : (if (mls.hasOfflineKeys && mls.offlineSignature.isSome) = true then do
        let o ← deref mls.offlineSignature
        pure (o.sigtype : Int)
      else do
        let dest ← deref mls.destination
        pure (dest.kc.spk : Int) : Go Int) = .ok ((offSigT mls.offlineSignature k.kc.spk : Nat) : Int) := by
    simp only [MLS.hasOfflineKeys, offSigT, hd, deref, bind_ok, pure_eq_ok]
    cases ho : mls.offlineSignature with
    | none => simp
    | some o =>
      have : mls.flags % 2 = 1 := hoff.mp (by simp [ho])
      simp [this]
  simp only [metaParseSignatureAndFinalizeC, hty, bind_ok]
  obtain ⟨r, hr, hv⟩ := readSigS_spec s (offSigT mls.offlineSignature k.kc.spk)
  rw [hr, ← hv]
  cases r with
  | none => exact ⟨none, rfl, rfl⟩
  | some p =>
    obtain ⟨sb, rem⟩ := p
    exact ⟨_, rfl, sb, rfl, rfl⟩

/-! ### one entry -/

theorem meta_take1_drop {d : Bytes} {n : Nat} (h : n < d.length) : (d.drop n).take 1 = [d.getD n 0] := by
  induction d generalizing n with
  | nil => simp at h
  | cons x xs ih =>
    cases n with
    | zero => simp
    | succ n => simp only [List.length_cons] at h; simpa using ih (by omega)

theorem meta_entryTypeOk_eq {d : Bytes} (h : 32 < d.length) : entryTypeOk d = metaValidateEntryTypeC (d.getD 32 0) := by
  simp only [entryTypeOk, meta_take1_drop h, metaValidateEntryTypeC]
  generalize d.getD 32 0 = t
  have e : ∀ c : UInt8, ([t] == [c]) = (t == c) := by intro c; simp
  rw [e, e, e]

/-- the entry `parseEntryFixedFields` + `parseEntryProperties` build from input `d` and the stored mapping -/
def metaEntryOf (d : Bytes) (m : MappingC) : MetaEntry :=
  { hash := d.take 32, leaseType := d.getD 32 0, expires := beVal ((d.drop 33).take 4), cost := d.getD 37 0,
    properties := m }

theorem metaEntryOf_bytes (d : Bytes) (m : MappingC) (h : 38 ≤ d.length) : (metaEntryOf d m).bytes = d.take 38 ++ m.metaWire := by
  simp only [MetaEntry.bytes, metaEntryOf]
  have b := beEnc_beVal_take d 33 4 (by omega)
  rw [b, ← meta_take1_drop (d := d) (n := 32) (by omega), ← meta_take1_drop (d := d) (n := 37) (by omega)]
  congr 1
  have s1 := take_split3 d 32 1
  have s2 := take_split3 d 33 4
  have s3 := take_split3 d 37 1
  simp only [Nat.reduceAdd] at s1 s2 s3
  rw [s1, s2, s3]

theorem metaParseEntryFixedFieldsC_eq (e : MetaEntry) (s : Sl) (he : e.hash.length = 32) (h : 38 ≤ s.len) :
    metaParseEntryFixedFieldsC e s = .ok
      ({ e with hash := s.data.take 32, leaseType := s.data.getD 32 0, expires := beVal ((s.data.drop 33).take 4),
                cost := s.data.getD 37 0 }, (((s.adv 32).adv 1).adv 4).adv 1) := by
  have a1 := sliceFrom_adv (s := s) (n := 32) (by omega)
  have l1 := Sl.adv_len (s := s) (n := 32) (by omega)
  have d1 : (s.adv 32).data = s.data.drop 32 := Sl.adv_data (by omega)
  have a2 := sliceFrom_adv (s := s.adv 32) (n := 1) (by omega)
  have l2 := Sl.adv_len (s := s.adv 32) (n := 1) (by omega)
  have d2 : ((s.adv 32).adv 1).data = s.data.drop 33 := by rw [Sl.adv_data (by omega), d1, List.drop_drop]
  have a3 := sliceFrom_adv (s := (s.adv 32).adv 1) (n := 4) (by omega)
  have l3 := Sl.adv_len (s := (s.adv 32).adv 1) (n := 4) (by omega)
  have d3 : (((s.adv 32).adv 1).adv 4).data = s.data.drop 37 := by rw [Sl.adv_data (by omega), d2, List.drop_drop]
  have a4 := sliceFrom_adv (s := ((s.adv 32).adv 1).adv 4) (n := 1) (by omega)
  simp only [Int.cast_ofNat_Int] at a1 a2 a3 a4
  have hl : (Sl.ofBytes e.hash).len = 32 := by simp [he]
  simp only [metaParseEntryFixedFieldsC, Sl.ilen_eq]
  rw [slice_eq (by omega) (by omega) (by omega), sliceTo_eq (by omega) (by omega)]
  simp only [bind_ok, Int.toNat_zero, Int.toNat_natCast, Sl.sub_full, Int.reduceToNat, a1]
  rw [index_eq (by omega) (by omega)]
  simp only [bind_ok, a2]
  rw [sliceTo_eq (by omega) (by omega)]
  simp only [bind_ok, Int.reduceToNat, beUint32_sub (s := (s.adv 32).adv 1) (by omega), a3]
  rw [index_eq (by omega) (by omega)]
  simp only [bind_ok, a4, pure_eq_ok, Int.toNat_zero]
  have hc : (copy (Sl.ofBytes e.hash) (s.sub 0 32)).data = s.data.take 32 := by
    rw [copy_data, hl, Sl.sub_data_to (by omega), List.take_take]
    exact write_full (by simp [he]; omega)
  have g1 : (s.adv 32).data.getD 0 0 = s.data.getD 32 0 := by rw [d1]; simp
  have g2 : (((s.adv 32).adv 1).adv 4).data.getD 0 0 = s.data.getD 37 0 := by rw [d3]; simp
  rw [hc, g1, g2, d2]

theorem meta_adv38_data (s : Sl) (h : 38 ≤ s.len) : ((((s.adv 32).adv 1).adv 4).adv 1).data = s.data.drop 38 := by
  have l1 := Sl.adv_len (s := s) (n := 32) (by omega)
  have l2 := Sl.adv_len (s := s.adv 32) (n := 1) (by omega)
  have l3 := Sl.adv_len (s := (s.adv 32).adv 1) (n := 4) (by omega)
  rw [Sl.adv_data (by omega), Sl.adv_data (by omega), Sl.adv_data (by omega), Sl.adv_data (by omega),
    List.drop_drop, List.drop_drop, List.drop_drop]

theorem metaParseSingleEntryC_short (mls : MLS) (i : Int) (s : Sl) (h : s.len < 40) :
    metaParseSingleEntryC mls i s = .ok none := by
  have : (s.len : Int) < 32 + 1 + 4 + 1 + 2 := by omega
  simp only [metaParseSingleEntryC, metaValidateEntryMinSizeC, Sl.ilen_eq, this, decide_true, Bool.not_true,
    Bool.not_false, if_true, pure_eq_ok]

theorem metaParseSingleEntryC_badType (mls : MLS) (i : Int) (s : Sl) (h : 40 ≤ s.len)
    (ht : entryTypeOk s.data = false) : metaParseSingleEntryC mls i s = .ok none := by
  have : ¬ (s.len : Int) < 32 + 1 + 4 + 1 + 2 := by omega
  rw [meta_entryTypeOk_eq (by simp; omega)] at ht
  simp only [metaParseSingleEntryC, metaValidateEntryMinSizeC, Sl.ilen_eq, this, decide_false, Bool.not_false,
    Bool.not_true, Bool.false_eq_true, if_false,
    metaParseEntryFixedFieldsC_eq {} s rfl (by omega), bind_ok, ht, if_true, pure_eq_ok]

/-- the body of the entries loop on an input of at least 40 bytes with a valid type byte: the properties
    mapping decides, then the indexed store `mls.entries[entryIndex] = entry` -/
theorem metaParseSingleEntryC_main (mls : MLS) (i : Int) (s : Sl) (h : 40 ≤ s.len)
    (ht : entryTypeOk s.data = true) :
    ∃ (m : MappingC) (rem : Sl),
      m.size.isSome = (Mapping.readMapping (s.data.drop 38)).hasSize ∧
      valsData m.vals = (Mapping.readMapping (s.data.drop 38)).vals ∧
      rem.data = (Mapping.readMapping (s.data.drop 38)).rem ∧
      metaParseSingleEntryC mls i s =
        if Mapping.accepted (Mapping.readMapping (s.data.drop 38)) = true then
          (setAt mls.entries i (metaEntryOf s.data m) >>= fun es => .ok (some ({ mls with entries := es }, rem)))
        else .ok none := by
  have : ¬ (s.len : Int) < 32 + 1 + 4 + 1 + 2 := by omega
  rw [meta_entryTypeOk_eq (by simp; omega)] at ht
  obtain ⟨m, rem, h1, h2, h3, hp⟩ := metaParseEntryPropertiesC_spec
    { hash := s.data.take 32, leaseType := s.data.getD 32 0, expires := beVal ((s.data.drop 33).take 4),
      cost := s.data.getD 37 0 } ((((s.adv 32).adv 1).adv 4).adv 1)
  rw [meta_adv38_data s (by omega)] at h1 h2 h3 hp
  refine ⟨m, rem, h1, h2, h3, ?_⟩
  simp only [metaParseSingleEntryC, metaValidateEntryMinSizeC, Sl.ilen_eq, this, decide_false, Bool.not_false,
    Bool.not_true, Bool.false_eq_true, if_false,
    metaParseEntryFixedFieldsC_eq {} s rfl (by omega), bind_ok, ht, hp]
  cases Mapping.accepted (Mapping.readMapping (s.data.drop 38))
  · rfl
  · simp only [if_true, bind_ok, pure_eq_ok]; rfl

/-- a successful loop body consumes at least 40 bytes (32 + 1 + 4 + 1 fixed bytes and the two size bytes of
    the properties mapping) — for any index argument -/
theorem metaParseSingleEntryC_consumes {mls : MLS} {i : Int} {s : Sl} {l' : MLS} {s' : Sl}
    (h : metaParseSingleEntryC mls i s = .ok (some (l', s'))) : s'.len + 40 ≤ s.len := by
  by_cases h40 : s.len < 40
  · rw [metaParseSingleEntryC_short mls i s h40] at h; cases h
  · cases ht : entryTypeOk s.data with
    | false => rw [metaParseSingleEntryC_badType mls i s (by omega) ht] at h; cases h
    | true =>
      obtain ⟨m, rem, -, -, h3, hp⟩ := metaParseSingleEntryC_main mls i s (by omega) ht
      rw [hp] at h
      cases ha : Mapping.accepted (Mapping.readMapping (s.data.drop 38)) with
      | false => simp [ha] at h
      | true =>
        simp only [ha, if_true] at h
        cases hs : setAt mls.entries i (metaEntryOf s.data m) with
        | error e => simp [hs] at h
        | ok es =>
          simp only [hs, bind_ok, Except.ok.injEq, Option.some.injEq, Prod.mk.injEq] at h
          have hle := meta_accepted_rem_le ha
          have : s'.len = (Mapping.readMapping (s.data.drop 38)).rem.length := by
            rw [← h.2, ← h3]; simp
          simp only [List.length_drop, Sl.data_length] at hle
          omega

/-! ### the entries loop -/

theorem metaReadEntries_succ (n : Nat) (d acc : Bytes) :
    readEntries (n + 1) d acc =
      if d.length < 40 then none else if entryTypeOk d = false then none else
      match readOptions (d.drop 38) true with
      | none => none
      | some (pb, r) => readEntries n r (acc ++ d.take 38 ++ pb) := by
  rw [readEntries]
  by_cases h40 : d.length < 40
  · rw [if_pos h40, if_pos h40]
  · rw [if_neg h40, if_neg h40]
    simp only []
    change (if (!entryTypeOk d) = true then none else _) = _
    cases entryTypeOk d with
    | false => simp
    | true => simp only [Bool.not_true, Bool.false_eq_true, if_false]; rfl

theorem metaReadEntries_acc (n : Nat) (d acc : Bytes) :
    readEntries n d acc = (readEntries n d []).map (fun p => (acc ++ p.1, p.2)) := by
  induction n generalizing d acc with
  | zero => simp [readEntries]
  | succ n ih =>
    rw [metaReadEntries_succ, metaReadEntries_succ]
    split
    · rfl
    · split
      · rfl
      · cases readOptions (d.drop 38) true with
        | none => rfl
        | some p =>
          obtain ⟨pb, r⟩ := p
          simp only []
          rw [ih, ih (acc := [] ++ _ ++ _)]
          cases readEntries n r [] with
          | none => rfl
          | some q => simp [List.append_assoc]

theorem metaEntriesLoop_spec : ∀ (fuel i : Nat) (mls : MLS) (s : Sl), i + fuel = mls.entries.length →
    ∃ r, metaParseEntriesLoopC fuel (i : Int) ((i + fuel : Nat) : Int) mls s = .ok r ∧
      match r with
      | none => readEntries fuel s.data [] = none
      | some (l, rem, n) => n = fuel ∧ rem.len + 40 * fuel ≤ s.len ∧
          ∃ es : List MetaEntry, es.length = fuel ∧
            l = { mls with entries := mls.entries.take i ++ es } ∧
            readEntries fuel s.data [] = some (es.flatMap MetaEntry.bytes, rem.data) := by
  intro fuel
  induction fuel with
  | zero =>
    intro i mls s hi
    refine ⟨_, rfl, rfl, by omega, [], rfl, ?_, rfl⟩
    simp only [List.append_nil]
    rw [List.take_of_length_le (by omega)]
  | succ fuel ih =>
    intro i mls s hi
    simp only [metaParseEntriesLoopC]
    have hc : ¬ ¬ ((i : Int) < ((i + (fuel + 1) : Nat) : Int)) := by omega
    simp only [hc, if_false]
    rw [metaReadEntries_succ]
    simp only [Sl.data_length]
    by_cases h40 : s.len < 40
    · rw [metaParseSingleEntryC_short mls i s h40]
      simp only [bind_ok, pure_eq_ok, h40, if_true]
      exact ⟨none, rfl, by first | rfl | trivial⟩
    · simp only [h40, if_false]
      cases ht : entryTypeOk s.data with
      | false =>
        rw [metaParseSingleEntryC_badType mls i s (by omega) ht]
        simp only [bind_ok, pure_eq_ok, if_true]
        exact ⟨none, rfl, by first | rfl | trivial⟩
      | true =>
        obtain ⟨m, rem, h1, h2, h3, hp⟩ := metaParseSingleEntryC_main mls i s (by omega) ht
        rw [hp, metaReadOptions_of_read h1 h2]
        simp only [Bool.true_eq_false, if_false]
        cases ha : Mapping.accepted (Mapping.readMapping (s.data.drop 38)) with
        | false =>
          simp only [Bool.false_eq_true, if_false, bind_ok, pure_eq_ok]
          exact ⟨none, rfl, by first | rfl | trivial⟩
        | true =>
          simp only [if_true, setAt_eq _ _ _ (show i < mls.entries.length by omega), bind_ok]
          have hle := meta_accepted_rem_le ha
          simp only [List.length_drop, Sl.data_length] at hle
          have hrl : rem.len = (Mapping.readMapping (s.data.drop 38)).rem.length := by rw [← h3]; simp
          have hi' : (i + 1) + fuel =
              ({ mls with entries := mls.entries.set i (metaEntryOf s.data m) } : MLS).entries.length := by
            simp; omega
          obtain ⟨r, hr, hm⟩ := ih (i + 1) _ rem hi'
          have e : (((i + 1 : Nat) : Int)) = (i : Int) + 1 := by omega
          have e2 : (i + 1 + fuel) = (i + (fuel + 1)) := by omega
          rw [e, e2] at hr
          rw [hr]
          rw [metaReadEntries_acc, ← h3]
          cases r with
          | none =>
            simp only [] at hm
            simp only [bind_ok, pure_eq_ok, hm]
            exact ⟨none, rfl, by first | rfl | trivial⟩
          | some q =>
            obtain ⟨l, rem2, n⟩ := q
            obtain ⟨hn, hlen, es, hes, hl, hrk⟩ := hm
            simp only [bind_ok, pure_eq_ok, hrk, Option.map_some]
            refine ⟨_, rfl, by omega, by omega, metaEntryOf s.data m :: es, by simp [hes], ?_, ?_⟩
            · rw [hl]
              simp only [take_set_succ _ _ _ (show i < mls.entries.length by omega), List.append_assoc,
                List.singleton_append]
            · simp only [List.flatMap_cons, metaEntryOf_bytes s.data m (by simp; omega), List.nil_append]

/-- the lines of the pure `readMeta` that read the entry count and the entries -/
def metaEntriesPure (d : Bytes) : Option (Bytes × Bytes) :=
  match d with
  | [] => none
  | ne :: r => if ne.toNat < 1 ∨ ne.toNat > 16 then none else readEntries ne.toNat r []

/-- `parseEntries`: never panics; on success the number of entries stored is the count byte (1…16), each of
    them consumed at least 40 bytes, and the stored entries re-serialise to the pure model's bytes -/
theorem metaParseEntriesC_spec (mls : MLS) (s : Sl) :
    ∃ r, metaParseEntriesC mls s = .ok r ∧
      match r with
      | none => metaEntriesPure s.data = none
      | some (l, rem) => ∃ (ne : UInt8) (es : List MetaEntry), es.length = ne.toNat ∧ 1 ≤ ne.toNat ∧ ne.toNat ≤ 16 ∧
          l = { mls with numEntries := ne, entries := es } ∧ rem.len + 1 + 40 * es.length ≤ s.len ∧
          s.data.head? = some ne ∧ metaEntriesPure s.data = some (es.flatMap MetaEntry.bytes, rem.data) := by
  simp only [metaParseEntriesC, metaValidateEntryCountC, Sl.ilen_eq]
  cases hd : s.data with
  | nil =>
    have : s.len = 0 := by rw [← s.data_length, hd]; rfl
    have : (s.len : Int) < 1 := by omega
    simp only [this, if_true, pure_eq_ok]
    exact ⟨none, rfl, rfl⟩
  | cons ne t =>
    obtain ⟨h1, h2, h3, h4⟩ := head_of_data hd
    have : ¬ (s.len : Int) < 1 := by omega
    simp only [this, if_false, h1, h2, bind_ok]
    by_cases hn : ne.toNat < 1 ∨ ne.toNat > 16
    · have : ((ne.toNat : Nat) : Int) < 1 ∨ ((ne.toNat : Nat) : Int) > 16 := by omega
      simp only [this, decide_true, Bool.not_true, Bool.not_false, if_true, pure_eq_ok]
      refine ⟨none, rfl, ?_⟩
      simp only [metaEntriesPure, hn, if_true]
    · have : ¬ (((ne.toNat : Nat) : Int) < 1 ∨ ((ne.toNat : Nat) : Int) > 16) := by omega
      simp only [this, decide_false, Bool.not_false, Bool.not_true, Bool.false_eq_true, if_false]
      have hlen : 0 + ne.toNat =
          ({ mls with numEntries := ne, entries := List.replicate ne.toNat ({} : MetaEntry) } : MLS).entries.length := by
        simp
      obtain ⟨r, hr, hm⟩ := metaEntriesLoop_spec ne.toNat 0 _ (s.adv 1) hlen
      simp only [Nat.zero_add, Int.cast_ofNat_Int] at hr
      rw [hr]
      cases r with
      | none =>
        simp only [bind_ok, pure_eq_ok]
        refine ⟨none, rfl, ?_⟩
        simp only [] at hm
        simp only [metaEntriesPure, hn, if_false]
        rw [← h3]; exact hm
      | some q =>
        obtain ⟨l, rem, n⟩ := q
        obtain ⟨-, hlen', es, hes, hl, hrk⟩ := hm
        simp only [bind_ok, pure_eq_ok]
        refine ⟨_, rfl, ne, es, hes, by omega, by omega, ?_, by omega, rfl, ?_⟩
        · rw [hl]; simp
        · simp only [metaEntriesPure, hn, if_false]
          rw [← h3]; exact hrk

/-- MetaLeaseSet entries loop, for arbitrary arguments: at most `fuel` iterations, never past `numEntries`,
    and every iteration consumes at least 40 bytes of the remaining input -/
theorem metaParseEntriesLoopC_bounds : ∀ (fuel : Nat) (i numEntries : Int) (mls : MLS) (s : Sl) (l : MLS) (rem : Sl) (n : Nat),
    metaParseEntriesLoopC fuel i numEntries mls s = .ok (some (l, rem, n)) →
      n ≤ fuel ∧ (n = 0 ∨ i + n ≤ numEntries) ∧ rem.len + 40 * n ≤ s.len := by
  intro fuel
  induction fuel with
  | zero =>
    intro i numEntries mls s l rem n h
    simp only [metaParseEntriesLoopC, pure_eq_ok, Except.ok.injEq, Option.some.injEq, Prod.mk.injEq] at h
    obtain ⟨-, h2, h3⟩ := h
    subst h2 h3
    exact ⟨by omega, Or.inl rfl, by omega⟩
  | succ fuel ih =>
    intro i numEntries mls s l rem n h
    simp only [metaParseEntriesLoopC] at h
    by_cases hc : i < numEntries
    · simp only [hc, not_true_eq_false, if_false] at h
      cases hp : metaParseSingleEntryC mls i s with
      | error e => simp [hp] at h
      | ok r =>
        cases r with
        | none => simp [hp] at h
        | some q =>
          obtain ⟨l', s'⟩ := q
          have hcons := metaParseSingleEntryC_consumes hp
          simp only [hp, bind_ok] at h
          cases hq : metaParseEntriesLoopC fuel (i + 1) numEntries l' s' with
          | error e => simp [hq] at h
          | ok r2 =>
            cases r2 with
            | none => simp [hq] at h
            | some t =>
              obtain ⟨l2, rem2, n2⟩ := t
              simp only [hq, bind_ok, pure_eq_ok, Except.ok.injEq, Option.some.injEq, Prod.mk.injEq] at h
              obtain ⟨-, h2, h3⟩ := h
              subst h2 h3
              obtain ⟨b1, b2, b3⟩ := ih _ _ _ _ _ _ _ hq
              exact ⟨by omega, Or.inr (by omega), by omega⟩
    · simp only [hc, not_false_eq_true, if_true, pure_eq_ok, Except.ok.injEq, Option.some.injEq, Prod.mk.injEq] at h
      obtain ⟨-, h2, h3⟩ := h
      subst h2 h3
      exact ⟨by omega, Or.inl rfl, by omega⟩

/-! ### the reader -/

theorem metaCont_eq (hb r : Bytes) (sigT : Nat) :
    metaCont hb r sigT =
      match metaEntriesPure r with
      | none => none
      | some (eb, r1) =>
        match readSig r1 sigT with
        | none => none
        | some (sb, r2) => some (hb ++ [r.headD 0] ++ eb ++ sb, r2) := by
  unfold metaCont metaEntriesPure
  cases r with
  | nil => rfl
  | cons ne r =>
    simp only []
    split
    · rfl
    · cases readEntries ne.toNat r [] with
      | none => rfl
      | some p => rfl

/-- projection of a parsed MetaLeaseSet on what the pure model returns: `Bytes()` (`none` = error) and the
    remainder -/
def vMeta (r : Option (MLS × Sl)) : Option (Option Bytes × Bytes) := r.map fun p => (p.1.bytes, p.2.data)

/-- a destination accepted by `ReadDestination` has a signing type that fits `uint16` -/
theorem readDestination_spk16 {d : Bytes} {k : KeysAndCert} {r : Bytes} (hk : readDestination d = some (k, r)) :
    k.kc.spk % 65536 = k.kc.spk := by
  have := sigConstructible_cases (readKac_struct (readDestination_iff.mp hk).1).2.2.2.1
  omega

/-- `ReadMetaLeaseSet` never panics; it succeeds exactly when the pure model does, and then the parsed value
    re-serialises (`Bytes()` succeeds) to the pure model's bytes, with the same remainder -/
theorem readMetaS_spec (s : Sl) :
    ∃ r, readMetaS s = .ok r ∧ vMeta r = (readMeta s.data).map (fun q => (some q.1, q.2)) := by
  rw [readMeta_eq]
  simp only [readMetaS, withHdr, offStage, Sl.data_length]
  obtain ⟨r1, hr1, hm1⟩ := metaParseDestinationAndHeaderC_spec {} s
  rw [hr1]
  cases r1 with
  | none =>
    simp only [bind_ok, pure_eq_ok]
    refine ⟨none, rfl, ?_⟩
    simp only [] at hm1
    by_cases h505 : s.len < 505
    · simp only [h505, if_true]; rfl
    · simp only [h505, if_false]
      rcases hm1 with h | h | ⟨k, r0, hk, h8⟩
      · omega
      · simp only [h]; rfl
      · obtain ⟨db, hdb, -⟩ := readDestination_consumed hk
        simp only [hk, hdb, h8, if_true]; rfl
  | some p1 =>
    obtain ⟨l1, s1⟩ := p1
    obtain ⟨h505, k, r0, hk, h8, hl1, hd1⟩ := hm1
    obtain ⟨db, hdb, -⟩ := readDestination_consumed hk
    have hn505 : ¬ s.len < 505 := by omega
    have hn8 : ¬ r0.length < 8 := by omega
    simp only [bind_ok, hn505, if_false, hk, hdb, hn8]
    -- offline signature
    obtain ⟨r2, hr2, hm2⟩ := metaParseOfflineSignatureC_spec l1 s1 k (by rw [hl1]) (by rw [hl1])
      (readDestination_spk16 hk)
    have hfl : l1.flags = beVal ((r0.drop 6).take 2) := by rw [hl1]
    rw [hr2]
    rw [hfl, hd1] at hm2
    cases r2 with
    | none =>
      simp only [] at hm2
      simp only [bind_ok, pure_eq_ok, hm2]; exact ⟨none, rfl, rfl⟩
    | some p2 =>
      obtain ⟨l2, s2⟩ := p2
      obtain ⟨oo, hl2, hoo, hoff⟩ := hm2
      simp only [bind_ok, hoff]
      -- options
      obtain ⟨m, s3, hm1', hm2', hm3', hp⟩ := metaParseOptionsMappingC_spec l2 s2
      rw [hp, metaReadOptions_of_read hm1' hm2']
      cases ha : Mapping.accepted (Mapping.readMapping s2.data) with
      | false => simp only [Bool.false_eq_true, if_false, bind_ok, pure_eq_ok]; exact ⟨none, rfl, rfl⟩
      | true =>
        simp only [if_true, bind_ok]
        rw [metaCont_eq, ← hm3']
        -- entries
        obtain ⟨r4, hr4, hm4⟩ := metaParseEntriesC_spec { l2 with options := m } s3
        rw [hr4]
        cases r4 with
        | none =>
          simp only [] at hm4
          simp only [bind_ok, pure_eq_ok, hm4]; exact ⟨none, rfl, rfl⟩
        | some p4 =>
          obtain ⟨l4, s4⟩ := p4
          obtain ⟨ne, es, hes, hne1, hne16, hl4, -, hh4, hp4⟩ := hm4
          simp only [bind_ok, hp4]
          -- trailing signature
          have hd4 : l4.destination = some k := by rw [hl4, hl2, hl1]
          have ho4 : l4.offlineSignature = oo := by rw [hl4, hl2]
          have hf4 : l4.flags = beVal ((r0.drop 6).take 2) := by rw [hl4, hl2, hl1]
          obtain ⟨r5, hr5, hm5⟩ := metaParseSignatureAndFinalizeC_spec l4 s4 k hd4 (by rw [ho4, hf4]; exact hoo)
          rw [hr5]
          rw [ho4] at hm5
          cases r5 with
          | none =>
            simp only [] at hm5
            simp only [hm5]; exact ⟨none, rfl, rfl⟩
          | some p5 =>
            obtain ⟨l5, s5⟩ := p5
            obtain ⟨sb, hl5, hsig⟩ := hm5
            refine ⟨_, rfl, ?_⟩
            simp only [hsig, vMeta, Option.map_some]
            have hb : l5.bytes = some (db ++ r0.take 8 ++ offBytes oo ++ m.metaWire ++ [s3.data.headD 0] ++
                es.flatMap MetaEntry.bytes ++ sb) := by
              rw [hl5, hl4, hl2, hl1]
              simp only [MLS.bytes, hdb, hdr_split r0 h8, head?_headD hh4]
              cases oo <;> simp [offBytes, List.append_assoc]
            rw [hb]

end I2P.Checked
