import I2P.History
namespace I2P.History
open I2P I2P.Alias

theorem run_fields_of_copiesOnly (s : State) (h : List Step) (hc : copiesOnly h = true) :
    (run s h).fields = s.fields := by
  induction h generalizing s with
  | nil => rfl
  | cons st t ih =>
    cases st with
    | writeBuffer nb =>
      simp only [run, List.foldl_cons, step] at *
      exact ih { s with buf := nb } (by simpa [copiesOnly] using hc)
    | writeResult a f =>
      cases a with
      | copy =>
        simp only [run, List.foldl_cons, step] at *
        exact ih s (by simpa [copiesOnly] using hc)
      | share i => simp [copiesOnly] at hc

end I2P.History
