import I2P.Kac
/-! Lemmas about the identity-layer readers of `I2P/Kac.lean` (certificate, key certificate,
    keys-and-cert, destination, router identity).  Core-only. -/

namespace I2P.Kac
open I2P I2P.Spec

/-! ### A. Certificate -/

theorem readCert_eq (w : Bytes) :
    readCert w =
      if w.length < 3 then none else
      if beVal ((w.drop 1).take 2) > w.length - 3 then none else
      some ({ kind := w.take 1, len := (w.drop 1).take 2, payload := w.drop 3 },
            w.drop (3 + beVal ((w.drop 1).take 2))) := rfl

/-- characterisation of `readCert` -/
theorem readCert_some {w : Bytes} {c : Cert} {r : Bytes} :
    readCert w = some (c, r) ↔
      3 ≤ w.length ∧ c = { kind := w.take 1, len := (w.drop 1).take 2, payload := w.drop 3 } ∧
      beVal ((w.drop 1).take 2) ≤ w.length - 3 ∧ r = w.drop (3 + beVal ((w.drop 1).take 2)) := by
  rw [readCert_eq]
  by_cases h1 : w.length < 3
  · rw [if_pos h1]; constructor
    · intro h; simp at h
    · intro h; omega
  · rw [if_neg h1]
    by_cases h2 : beVal ((w.drop 1).take 2) > w.length - 3
    · rw [if_pos h2]; constructor
      · intro h; simp at h
      · intro h; omega
    · rw [if_neg h2]
      simp only [Option.some.injEq, Prod.mk.injEq]
      constructor
      · rintro ⟨rfl, rfl⟩; exact ⟨by omega, rfl, by omega, rfl⟩
      · rintro ⟨_, rfl, _, rfl⟩; exact ⟨rfl, rfl⟩

theorem readCert_none {w : Bytes} :
    readCert w = none ↔ w.length < 3 ∨ beVal ((w.drop 1).take 2) > w.length - 3 := by
  rw [readCert_eq]
  by_cases h1 : w.length < 3
  · rw [if_pos h1]; exact ⟨fun _ => Or.inl h1, fun _ => rfl⟩
  · rw [if_neg h1]
    by_cases h2 : beVal ((w.drop 1).take 2) > w.length - 3
    · rw [if_pos h2]; exact ⟨fun _ => Or.inr h2, fun _ => rfl⟩
    · rw [if_neg h2]; constructor
      · intro h; simp at h
      · rintro (h | h) <;> omega

theorem split3 (w : Bytes) (n : Nat) :
    w.take 1 ++ (w.drop 1).take 2 ++ (w.drop 3).take n ++ w.drop (3 + n) = w := by
  have h1 : (w.drop 1).take 2 ++ (w.drop 3) = w.drop 1 := by
    have := List.take_append_drop 2 (w.drop 1)
    rwa [List.drop_drop] at this
  have h2 : (w.drop 3).take n ++ w.drop (3 + n) = w.drop 3 := by
    have := List.take_append_drop n (w.drop 3)
    rwa [List.drop_drop] at this
  rw [List.append_assoc, h2, List.append_assoc, h1, List.take_append_drop]

theorem readCert_consumed {w : Bytes} {c : Cert} {r : Bytes} (h : readCert w = some (c, r)) :
    c.bytes ++ r = w := by
  obtain ⟨_, rfl, _, rfl⟩ := readCert_some.mp h
  simp only [Cert.bytes, Cert.data, Cert.declared]
  exact split3 w _

theorem len_append (w x : Bytes) (h : 3 ≤ w.length) :
    ((w ++ x).drop 1).take 2 = (w.drop 1).take 2 := by
  rw [List.drop_append_of_le_length (by omega), List.take_append_of_le_length (by rw [List.length_drop]; omega)]

theorem len_take (w : Bytes) (k : Nat) (h : 3 ≤ k) :
    ((w.take k).drop 1).take 2 = (w.drop 1).take 2 := by
  rw [List.drop_take, List.take_take, Nat.min_eq_left (by omega)]

theorem readCert_append {w : Bytes} {c : Cert} {r : Bytes} (h : readCert w = some (c, r)) (x : Bytes) :
    ∃ c', readCert (w ++ x) = some (c', r ++ x) ∧ c'.bytes = c.bytes ∧ c'.kind = c.kind ∧
      c'.len = c.len ∧ c'.data = c.data := by
  obtain ⟨h3, rfl, hd, rfl⟩ := readCert_some.mp h
  refine ⟨{ kind := (w ++ x).take 1, len := ((w ++ x).drop 1).take 2, payload := (w ++ x).drop 3 }, ?_, ?_⟩
  · rw [readCert_some]
    refine ⟨by rw [List.length_append]; omega, rfl, ?_, ?_⟩
    · rw [len_append w x h3, List.length_append]; omega
    · rw [len_append w x h3, List.drop_append_of_le_length (by omega)]
  · have hk : (w ++ x).take 1 = w.take 1 := List.take_append_of_le_length (by omega)
    have hl := len_append w x h3
    have hdta : Cert.data { kind := (w ++ x).take 1, len := ((w ++ x).drop 1).take 2, payload := (w ++ x).drop 3 }
        = Cert.data { kind := w.take 1, len := (w.drop 1).take 2, payload := w.drop 3 } := by
      simp only [Cert.data, Cert.declared]
      rw [hl, List.drop_append_of_le_length (by omega),
        List.take_append_of_le_length (by rw [List.length_drop]; omega)]
    refine ⟨?_, hk, hl, hdta⟩
    simp only [Cert.bytes, hdta]
    rw [hk, hl]

theorem readCert_no_prefix {w : Bytes} {c : Cert} (h : readCert w = some (c, [])) :
    ∀ k, k < w.length → readCert (w.take k) = none := by
  intro k hk
  obtain ⟨h3, _, hd, hr⟩ := readCert_some.mp h
  have hlen : w.length ≤ 3 + beVal ((w.drop 1).take 2) := by
    have := congrArg List.length hr
    rw [List.length_drop, List.length_nil] at this
    omega
  rw [readCert_none, List.length_take]
  by_cases h : k < 3
  · left; omega
  · right; rw [len_take w k (by omega)]; omega

theorem beVal_singleton (t : UInt8) : beVal [t] = t.toNat := by
  simp [beVal]

/-- the reader on an explicitly framed certificate -/
theorem readCert_mk (k l p x : Bytes) (hk : k.length = 1) (hl : l.length = 2) (hv : beVal l = p.length) :
    readCert (k ++ l ++ p ++ x) = some ({ kind := k, len := l, payload := p ++ x }, x) := by
  have hw : k ++ l ++ p ++ x = k ++ (l ++ (p ++ x)) := by simp
  have e1 : (k ++ l ++ p ++ x).take 1 = k := by rw [hw]; exact List.take_left' hk
  have e2 : ((k ++ l ++ p ++ x).drop 1).take 2 = l := by
    rw [hw, List.drop_left' hk]; exact List.take_left' hl
  have e3 : (k ++ l ++ p ++ x).drop 3 = p ++ x := by
    rw [show k ++ l ++ p ++ x = (k ++ l) ++ (p ++ x) by simp]
    exact List.drop_left' (by rw [List.length_append]; omega)
  rw [readCert_some, e1, e2, e3, hv]
  refine ⟨by simp; omega, rfl, by simp; omega, ?_⟩
  exact (List.drop_left' (by simp; omega)).symm

theorem readCert_complete (t : UInt8) (p x : Bytes) (hp : p.length ≤ 65535) :
    ∃ c, readCert ([t] ++ beEnc 2 p.length ++ p ++ x) = some (c, x) ∧
      c.bytes = [t] ++ beEnc 2 p.length ++ p ∧ c.data = p ∧ c.type = t.toNat := by
  have hv : beVal (beEnc 2 p.length) = p.length := beVal_beEnc 2 _ (by omega)
  refine ⟨{ kind := [t], len := beEnc 2 p.length, payload := p ++ x },
    readCert_mk [t] _ p x rfl (beEnc_length _ _) hv, ?_, ?_, ?_⟩
  · simp [Cert.bytes, Cert.data, Cert.declared, hv]
  · simp [Cert.data, Cert.declared, hv]
  · simp [Cert.type, beVal_singleton]

/-! ### B. KeyCertificate -/

/-- the key certificate built from a certificate that passed the checks -/
def mkKeyCert (c : Cert) : KeyCert :=
  { cert := c, spk := beVal (c.data.take 2), cpk := beVal ((c.data.drop 2).take 2) }

theorem keyCertFromCert_eq' (c : Cert) :
    keyCertFromCert c = if c.type ≠ 5 then none else if c.data.length < 4 then none else some (mkKeyCert c) := rfl

theorem newKeyCert_of_readCert {w : Bytes} {c : Cert} {r : Bytes} (h : readCert w = some (c, r)) :
    newKeyCert w = if c.type ≠ 5 then none else if c.data.length < 4 then none else some (mkKeyCert c, r) := by
  unfold newKeyCert
  rw [h]
  rfl

theorem newKeyCert_of_readCert_none {w : Bytes} (h : readCert w = none) : newKeyCert w = none := by
  unfold newKeyCert
  rw [h]

theorem keyCertFromCert_eq {w : Bytes} {c : Cert} {r : Bytes} (h : readCert w = some (c, r)) :
    newKeyCert w = (keyCertFromCert c).map (·, r) := by
  rw [newKeyCert_of_readCert h, keyCertFromCert_eq']
  by_cases h1 : c.type ≠ 5
  · rw [if_pos h1, if_pos h1]; rfl
  · rw [if_neg h1, if_neg h1]
    by_cases h2 : c.data.length < 4
    · rw [if_pos h2, if_pos h2]; rfl
    · rw [if_neg h2, if_neg h2]; rfl

/-- characterisation of `newKeyCert` -/
theorem newKeyCert_some {w : Bytes} {kc : KeyCert} {r : Bytes} :
    newKeyCert w = some (kc, r) ↔
      ∃ c, readCert w = some (c, r) ∧ c.type = 5 ∧ 4 ≤ c.data.length ∧ kc = mkKeyCert c := by
  constructor
  · intro h
    cases hc : readCert w with
    | none => rw [newKeyCert_of_readCert_none hc] at h; simp at h
    | some cr =>
      obtain ⟨c, r'⟩ := cr
      rw [newKeyCert_of_readCert hc] at h
      by_cases h1 : c.type ≠ 5
      · rw [if_pos h1] at h; simp at h
      · rw [if_neg h1] at h
        by_cases h2 : c.data.length < 4
        · rw [if_pos h2] at h; simp at h
        · rw [if_neg h2] at h
          simp only [Option.some.injEq, Prod.mk.injEq] at h
          obtain ⟨rfl, rfl⟩ := h
          exact ⟨c, rfl, by omega, by omega, rfl⟩
  · rintro ⟨c, hc, h1, h2, rfl⟩
    rw [newKeyCert_of_readCert hc, if_neg (by omega), if_neg (by omega)]

theorem newKeyCert_consumed {w : Bytes} {kc : KeyCert} {r : Bytes} (h : newKeyCert w = some (kc, r)) :
    kc.cert.bytes ++ r = w := by
  obtain ⟨c, hc, _, _, rfl⟩ := newKeyCert_some.mp h
  exact readCert_consumed hc

theorem newKeyCert_append {w : Bytes} {kc : KeyCert} {r : Bytes} (h : newKeyCert w = some (kc, r)) (x : Bytes) :
    ∃ kc', newKeyCert (w ++ x) = some (kc', r ++ x) ∧ kc'.cert.bytes = kc.cert.bytes ∧
      kc'.cert.kind = kc.cert.kind ∧ kc'.cert.len = kc.cert.len ∧ kc'.cert.data = kc.cert.data ∧
      kc'.spk = kc.spk ∧ kc'.cpk = kc.cpk := by
  obtain ⟨c, hc, h1, h2, rfl⟩ := newKeyCert_some.mp h
  obtain ⟨c', hc', hb, hk, hl, hd⟩ := readCert_append hc x
  refine ⟨mkKeyCert c', ?_, hb, hk, hl, hd, ?_, ?_⟩
  · rw [newKeyCert_some]
    refine ⟨c', hc', ?_, ?_, rfl⟩
    · simp only [Cert.type, hk]; exact h1
    · rw [hd]; exact h2
  · simp only [mkKeyCert, hd]
  · simp only [mkKeyCert, hd]

theorem newKeyCert_no_prefix {w : Bytes} {kc : KeyCert} (h : newKeyCert w = some (kc, [])) :
    ∀ k, k < w.length → newKeyCert (w.take k) = none := by
  intro k hk
  obtain ⟨c, hc, _⟩ := newKeyCert_some.mp h
  exact newKeyCert_of_readCert_none (readCert_no_prefix hc k hk)

theorem beVal_lt_65536 (b : Bytes) (h : b.length ≤ 2) : beVal b < 65536 := by
  have h1 := beVal_lt b
  have h2 : (256:Nat) ^ b.length ≤ 256 ^ 2 := Nat.pow_le_pow_right (by decide) h
  omega

theorem newKeyCert_types {w : Bytes} {kc : KeyCert} {r : Bytes} (h : newKeyCert w = some (kc, r)) :
    kc.cert.type = 5 ∧ 4 ≤ kc.cert.data.length ∧ kc.spk = beVal (kc.cert.data.take 2) ∧
      kc.cpk = beVal ((kc.cert.data.drop 2).take 2) ∧ kc.spk < 65536 ∧ kc.cpk < 65536 := by
  obtain ⟨c, hc, h1, h2, rfl⟩ := newKeyCert_some.mp h
  refine ⟨h1, h2, rfl, rfl, ?_, ?_⟩
  · exact beVal_lt_65536 _ (by rw [List.length_take]; omega)
  · exact beVal_lt_65536 _ (by rw [List.length_take]; omega)

/-! ### C. KeysAndCert: tables and `finishKac` -/

theorem sigConstructible_cases {s : Nat} (h : sigConstructible s = true) :
    s = 0 ∨ s = 1 ∨ s = 2 ∨ s = 7 ∨ s = 8 ∨ s = 11 := by
  unfold sigConstructible at h
  split at h <;> simp_all

theorem cryptoConstructible_cases {c : Nat} (h : cryptoConstructible c = true) :
    c = 0 ∨ c = 4 ∨ c = 5 ∨ c = 6 ∨ c = 7 := by
  unfold cryptoConstructible at h
  split at h <;> simp_all

theorem sigPubSize_of_constructible {s : Nat} (h : sigConstructible s = true) :
    0 < sigPubSize s ∧ sigPubSize s ≤ 128 := by
  rcases sigConstructible_cases h with rfl | rfl | rfl | rfl | rfl | rfl <;> decide

theorem cryptoSize_of_constructible {c : Nat} (h : cryptoConstructible c = true) :
    cryptoSize c = 256 ∨ cryptoSize c = 32 := by
  rcases cryptoConstructible_cases h with rfl | rfl | rfl | rfl | rfl <;> decide

theorem finishKac_eq (w : Bytes) (kc : KeyCert) (rem : Bytes) :
    finishKac w kc rem =
      if cryptoConstructible kc.cpk = true ∧ sigConstructible kc.spk = true then
        some ({ kc := kc, pub := w.take (cryptoSize kc.cpk),
                padding := extractPadding w (cryptoSize kc.cpk) (sigPubSize kc.spk),
                sig := (w.take 384).drop (384 - sigPubSize kc.spk) }, rem)
      else none := by
  unfold finishKac
  cases hc : cryptoConstructible kc.cpk
  · simp
  · cases hs : sigConstructible kc.spk
    · simp
    · have h1 := cryptoSize_of_constructible hc
      have h2 := sigPubSize_of_constructible hs
      have a1 : cryptoSize kc.cpk ≠ 0 := by omega
      have a2 : sigPubSize kc.spk ≠ 0 := by omega
      have a3 : ¬ sigPubSize kc.spk > 128 := by omega
      simp [a1, a2, a3]

/-! ### `readKac` case equations -/

theorem readKac_short {w : Bytes} (h : w.length < 387) : readKac w = none := by
  unfold readKac; rw [if_pos h]

theorem readKac_key {w : Bytes} (h : 387 ≤ w.length) (t : Bytes) (h5 : w.drop 384 = 5 :: t) :
    readKac w = (newKeyCert (w.drop 384)).bind (fun p => finishKac w p.1 p.2) := by
  unfold readKac
  rw [if_neg (by omega), h5]
  simp only []
  cases newKeyCert (5 :: t) with
  | none => rfl
  | some p => rfl

theorem readKac_null {w : Bytes} (h : 387 ≤ w.length) (t : Bytes) (h0 : w.drop 384 = 0 :: t) :
    readKac w = (readCert (w.drop 384)).bind (fun p => finishKac w { cert := p.1, spk := 0, cpk := 0 } p.2) := by
  unfold readKac
  rw [if_neg (by omega), h0]
  simp only []
  cases readCert (0 :: t) with
  | none => rfl
  | some p => rfl

theorem readKac_other {w : Bytes} (b : UInt8) (t : Bytes) (h0 : w.drop 384 = b :: t) (hb5 : b ≠ 5) (hb0 : b ≠ 0) :
    readKac w = none := by
  unfold readKac
  split
  · rfl
  · rw [h0]
    split
    · rename_i h; simp at h; exact absurd h.1 hb5
    · rename_i h; simp at h; exact absurd h.1 hb0
    · rfl

/-! ### `KeysAndCert.block` -/

/-- the copy primitive of `buildKeysAndCertBlock` -/
def put (b : Bytes) (off : Nat) (src : Bytes) : Bytes := b.take off ++ src ++ b.drop (off + src.length)

/-- `KeysAndCert.block` as a function of the sizes and the three fields -/
def blockOf (Z : Bytes) (cs ss : Nat) (P D S : Bytes) : Bytes :=
  let pubPad := 256 - cs
  let sigPad := 128 - ss
  let b1 := put Z 0 (P.take 384)
  let b2 := if pubPad > 0 ∧ D.length ≥ pubPad then put b1 cs (D.take pubPad) else b1
  let b3 := if sigPad > 0 ∧ D.length ≥ pubPad + sigPad then put b2 256 ((D.drop pubPad).take sigPad) else b2
  let b4 := if S.length ≤ 384 then put b3 (384 - S.length) S else b3
  b4.take 384

theorem block_eq (k : KeysAndCert) :
    k.block = blockOf (List.replicate 384 0) (cryptoSize k.kc.cpk) (sigPubSize k.kc.spk) k.pub k.padding k.sig := rfl

theorem drop_app {α} (P X : List α) (n : Nat) (h : P.length ≤ n) : (P ++ X).drop n = X.drop (n - P.length) := by
  rw [List.drop_append, List.drop_of_length_le h, List.nil_append]

theorem blockOf_eq (Z : Bytes) (cs ss : Nat) (P D S : Bytes) (hZ : Z.length = 384)
    (hc0 : 0 < cs) (hc : cs ≤ 256) (hs0 : 0 < ss) (hs : ss ≤ 128)
    (hP : P.length = cs) (hS : S.length = ss) (hD : D.length = 384 - cs - ss) :
    blockOf Z cs ss P D S = P ++ D ++ S := by
  have e1 : put Z 0 (P.take 384) = P ++ Z.drop cs := by
    have hp : P.take 384 = P := List.take_of_length_le (by omega)
    unfold put
    rw [hp, hP]; simp
  have e2 : (if 256 - cs > 0 ∧ D.length ≥ 256 - cs then put (P ++ Z.drop cs) cs (D.take (256 - cs)) else P ++ Z.drop cs)
      = P ++ D.take (256 - cs) ++ Z.drop 256 := by
    by_cases h : cs < 256
    · rw [if_pos ⟨by omega, by omega⟩]
      unfold put
      rw [List.take_left' hP, List.length_take, drop_app _ _ _ (by omega), List.drop_drop, hP]
      congr 2; omega
    · have : cs = 256 := by omega
      subst this
      rw [if_neg (by omega)]; simp
  have e3 : (if 128 - ss > 0 ∧ D.length ≥ 256 - cs + (128 - ss) then
        put (P ++ D.take (256 - cs) ++ Z.drop 256) 256 ((D.drop (256 - cs)).take (128 - ss))
        else P ++ D.take (256 - cs) ++ Z.drop 256)
      = P ++ D ++ Z.drop (384 - ss) := by
    have hl : (P ++ D.take (256 - cs)).length = 256 := by
      rw [List.length_append, List.length_take]; omega
    by_cases h : ss < 128
    · rw [if_pos ⟨by omega, by omega⟩]
      have ht : (D.drop (256 - cs)).take (128 - ss) = D.drop (256 - cs) :=
        List.take_of_length_le (by rw [List.length_drop]; omega)
      unfold put
      rw [List.take_left' hl, ht,
        List.length_drop, drop_app _ _ _ (by omega), List.drop_drop, hl,
        List.append_assoc P, List.take_append_drop]
      have hn : 256 + (256 + (D.length - (256 - cs)) - 256) = 384 - ss := by omega
      rw [hn]
    · have : ss = 128 := by omega
      subst this
      have ht : D.take (256 - cs) = D := List.take_of_length_le (by omega)
      rw [if_neg (by omega), ht]
  have e4 : (if S.length ≤ 384 then put (P ++ D ++ Z.drop (384 - ss)) (384 - S.length) S
        else P ++ D ++ Z.drop (384 - ss)) = P ++ D ++ S := by
    rw [if_pos (by omega)]
    unfold put
    have hl : (P ++ D).length = 384 - S.length := by rw [List.length_append]; omega
    rw [List.take_left' hl, List.drop_of_length_le (by simp; omega), List.append_nil]
  unfold blockOf
  simp only []
  rw [e1, e2, e3, e4, List.take_of_length_le (by simp; omega)]

/-- characterisation of `finishKac` -/
theorem finishKac_some {w : Bytes} {kc : KeyCert} {rem r : Bytes} {k : KeysAndCert} :
    finishKac w kc rem = some (k, r) ↔
      cryptoConstructible kc.cpk = true ∧ sigConstructible kc.spk = true ∧
      k = { kc := kc, pub := w.take (cryptoSize kc.cpk),
            padding := extractPadding w (cryptoSize kc.cpk) (sigPubSize kc.spk),
            sig := (w.take 384).drop (384 - sigPubSize kc.spk) } ∧ r = rem := by
  rw [finishKac_eq]
  by_cases h : cryptoConstructible kc.cpk = true ∧ sigConstructible kc.spk = true
  · rw [if_pos h]
    simp only [Option.some.injEq, Prod.mk.injEq]
    constructor
    · rintro ⟨rfl, rfl⟩; exact ⟨h.1, h.2, rfl, rfl⟩
    · rintro ⟨_, _, rfl, rfl⟩; exact ⟨rfl, rfl⟩
  · rw [if_neg h]
    constructor
    · intro h'; simp at h'
    · rintro ⟨h1, h2, _⟩; exact absurd ⟨h1, h2⟩ h

/-- `finishKac` only looks at the first 384 bytes -/
theorem finishKac_take (w : Bytes) (kc : KeyCert) (rem : Bytes) :
    finishKac (w.take 384) kc rem = finishKac w kc rem := by
  rw [finishKac_eq, finishKac_eq]
  by_cases h : cryptoConstructible kc.cpk = true ∧ sigConstructible kc.spk = true
  · rw [if_pos h, if_pos h]
    have h1 := cryptoSize_of_constructible h.1
    have h2 := sigPubSize_of_constructible h.2
    have e1 : (w.take 384).take (cryptoSize kc.cpk) = w.take (cryptoSize kc.cpk) := by
      rw [List.take_take, Nat.min_eq_left (by omega)]
    have e2 : extractPadding (w.take 384) (cryptoSize kc.cpk) (sigPubSize kc.spk)
        = extractPadding w (cryptoSize kc.cpk) (sigPubSize kc.spk) := by
      unfold extractPadding
      rw [List.take_take, List.take_take, Nat.min_eq_left (by omega), Nat.min_eq_left (by omega)]
    have e3 : (w.take 384).take 384 = w.take 384 := by
      rw [List.take_take, Nat.min_self]
    rw [e1, e2, e3]
  · rw [if_neg h, if_neg h]

theorem take384_append (w x : Bytes) (h : 384 ≤ w.length) : (w ++ x).take 384 = w.take 384 :=
  List.take_append_of_le_length h

/-- `finishKac` depends on the key certificate only through the two type codes -/
theorem finishKac_congr {w w' : Bytes} {kc kc' : KeyCert} {rem r rem' : Bytes} {k : KeysAndCert}
    (hw : w'.take 384 = w.take 384) (hs : kc'.spk = kc.spk) (hc : kc'.cpk = kc.cpk)
    (h : finishKac w kc rem = some (k, r)) :
    finishKac w' kc' rem' = some ({ kc := kc', pub := k.pub, padding := k.padding, sig := k.sig }, rem') := by
  rw [← finishKac_take] at h
  rw [← finishKac_take, hw]
  obtain ⟨h1, h2, rfl, rfl⟩ := finishKac_some.mp h
  rw [finishKac_some, hs, hc]
  exact ⟨h1, h2, rfl, rfl⟩

/-! ### `KeysAndCert.bytes` -/

theorem bytes_of_fields (k : KeysAndCert)
    (hc0 : 0 < cryptoSize k.kc.cpk) (hc : cryptoSize k.kc.cpk ≤ 256)
    (hs0 : 0 < sigPubSize k.kc.spk) (hs : sigPubSize k.kc.spk ≤ 128)
    (hP : k.pub.length = cryptoSize k.kc.cpk) (hS : k.sig.length = sigPubSize k.kc.spk)
    (hD : k.padding.length = 384 - cryptoSize k.kc.cpk - sigPubSize k.kc.spk) :
    k.bytes = some (k.pub ++ k.padding ++ k.sig ++ k.kc.cert.bytes) := by
  have hv : k.validate = true := by simp [KeysAndCert.validate, hP, hS]
  unfold KeysAndCert.bytes
  rw [if_pos hv, block_eq, blockOf_eq _ _ _ _ _ _ List.length_replicate hc0 hc hs0 hs hP hS hD]

/-- `Bytes()` depends only on the type codes, the three fields and the certificate's `Bytes()` -/
theorem bytes_congr {k k' : KeysAndCert} (hs : k'.kc.spk = k.kc.spk) (hc : k'.kc.cpk = k.kc.cpk)
    (hP : k'.pub = k.pub) (hD : k'.padding = k.padding) (hS : k'.sig = k.sig)
    (hb : k'.kc.cert.bytes = k.kc.cert.bytes) : k'.bytes = k.bytes := by
  have hv : k'.validate = k.validate := by simp only [KeysAndCert.validate, hs, hc, hP, hS]
  have hbk : k'.block = k.block := by rw [block_eq, block_eq, hs, hc, hP, hD, hS]
  unfold KeysAndCert.bytes
  rw [hv, hbk, hb]

/-! ### layout of the 384-byte key block -/

theorem drop_take_split {α} (u : List α) (a b c : Nat) (hab : a ≤ b) (hbc : b ≤ c) (hc : c ≤ u.length) :
    (u.take b).drop a ++ (u.take c).drop b = (u.take c).drop a := by
  have h1 : u.take c = u.take b ++ (u.take c).drop b := by
    have := (List.take_append_drop b (u.take c)).symm
    rwa [List.take_take, Nat.min_eq_left hbc] at this
  have h2 : (u.take c).drop a = (u.take b ++ (u.take c).drop b).drop a := by rw [← h1]
  rw [h2, List.drop_append_of_le_length (by rw [List.length_take]; omega)]

theorem extractPadding_eq (w : Bytes) (cs ss : Nat) (hw : 384 ≤ w.length) (hc : cs ≤ 256) (hs : ss ≤ 128) :
    extractPadding w cs ss = (w.take (384 - ss)).drop cs := by
  unfold extractPadding
  by_cases h : 384 ≤ cs + ss
  · rw [if_pos h, List.drop_of_length_le (by rw [List.length_take]; omega)]
  · rw [if_neg h]
    exact drop_take_split w cs 256 (384 - ss) hc (by omega) (by omega)

theorem layout_join (w : Bytes) (cs ss : Nat) (hc : cs ≤ 256) (hs : ss ≤ 128) :
    w.take cs ++ (w.take (384 - ss)).drop cs ++ (w.take 384).drop (384 - ss) = w.take 384 := by
  have e1 : w.take cs = (w.take (384 - ss)).take cs := by
    rw [List.take_take, Nat.min_eq_left (by omega)]
  have e2 : w.take (384 - ss) = (w.take 384).take (384 - ss) := by
    rw [List.take_take, Nat.min_eq_left (by omega)]
  rw [e1, List.take_append_drop, e2, List.take_append_drop]

/-! ### the certificate step shared by both paths of `readKac` -/

/-- the certificate-parsing step of `readKac` on the tail `v = w.drop 384`: KEY path or NULL path -/
def KcParse (v : Bytes) (kc : KeyCert) (r : Bytes) : Prop :=
  (∃ t, v = 5 :: t ∧ newKeyCert v = some (kc, r)) ∨
  (∃ t c, v = 0 :: t ∧ readCert v = some (c, r) ∧ kc = { cert := c, spk := 0, cpk := 0 })

/-- characterisation of `readKac` -/
theorem readKac_some {w : Bytes} {k : KeysAndCert} {r : Bytes} :
    readKac w = some (k, r) ↔
      387 ≤ w.length ∧ ∃ kc, KcParse (w.drop 384) kc r ∧ finishKac w kc r = some (k, r) := by
  constructor
  · intro h
    by_cases hlen : w.length < 387
    · rw [readKac_short hlen] at h; simp at h
    · refine ⟨by omega, ?_⟩
      cases hv : w.drop 384 with
      | nil =>
        have := congrArg List.length hv
        rw [List.length_drop, List.length_nil] at this
        omega
      | cons b t =>
        by_cases hb5 : b = 5
        · subst hb5
          rw [readKac_key (by omega) t hv] at h
          cases hn : newKeyCert (w.drop 384) with
          | none => rw [hn] at h; simp at h
          | some p =>
            obtain ⟨kc, rem⟩ := p
            rw [hn] at h
            simp only [Option.bind_some] at h
            obtain ⟨_, _, _, rfl⟩ := finishKac_some.mp h
            exact ⟨kc, Or.inl ⟨t, rfl, by rw [← hv]; exact hn⟩, h⟩
        · by_cases hb0 : b = 0
          · subst hb0
            rw [readKac_null (by omega) t hv] at h
            cases hn : readCert (w.drop 384) with
            | none => rw [hn] at h; simp at h
            | some p =>
              obtain ⟨c, rem⟩ := p
              rw [hn] at h
              simp only [Option.bind_some] at h
              obtain ⟨_, _, _, rfl⟩ := finishKac_some.mp h
              exact ⟨_, Or.inr ⟨t, c, rfl, by rw [← hv]; exact hn, rfl⟩, h⟩
          · rw [readKac_other b t hv hb5 hb0] at h; simp at h
  · rintro ⟨hlen, kc, hp, hf⟩
    rcases hp with ⟨t, hv, hn⟩ | ⟨t, c, hv, hn, rfl⟩
    · rw [readKac_key hlen t hv, hn]; exact hf
    · rw [readKac_null hlen t hv, hn]; exact hf

theorem KcParse_readCert {v : Bytes} {kc : KeyCert} {r : Bytes} (h : KcParse v kc r) :
    readCert v = some (kc.cert, r) := by
  rcases h with ⟨t, _, hn⟩ | ⟨t, c, _, hn, rfl⟩
  · obtain ⟨c, hc, _, _, rfl⟩ := newKeyCert_some.mp hn
    exact hc
  · exact hn

theorem KcParse_consumed {v : Bytes} {kc : KeyCert} {r : Bytes} (h : KcParse v kc r) :
    kc.cert.bytes ++ r = v := readCert_consumed (KcParse_readCert h)

theorem KcParse_append {v : Bytes} {kc : KeyCert} {r : Bytes} (h : KcParse v kc r) (x : Bytes) :
    ∃ kc', KcParse (v ++ x) kc' (r ++ x) ∧ kc'.cert.bytes = kc.cert.bytes ∧ kc'.spk = kc.spk ∧ kc'.cpk = kc.cpk := by
  rcases h with ⟨t, hv, hn⟩ | ⟨t, c, hv, hn, rfl⟩
  · obtain ⟨kc', h', hb, _, _, _, hs, hc⟩ := newKeyCert_append hn x
    exact ⟨kc', Or.inl ⟨t ++ x, by rw [hv]; rfl, h'⟩, hb, hs, hc⟩
  · obtain ⟨c', h', hb, _⟩ := readCert_append hn x
    exact ⟨{ cert := c', spk := 0, cpk := 0 }, Or.inr ⟨t ++ x, c', by rw [hv]; rfl, h', rfl⟩, hb, rfl, rfl⟩

theorem KcParse_no_prefix {v : Bytes} {kc : KeyCert} (h : KcParse v kc []) (n : Nat) (hn : n < v.length)
    (kc' : KeyCert) (r' : Bytes) : ¬ KcParse (v.take n) kc' r' := by
  intro h'
  have h1 := readCert_no_prefix (KcParse_readCert h) n hn
  rw [KcParse_readCert h'] at h1
  simp at h1

/-- how the two type codes are determined by the certificate -/
def CertTypes (kc : KeyCert) : Prop :=
  kc.cert.kind.length = 1 ∧ kc.cert.len.length = 2 ∧
  ((kc.cert.kind = [5] ∧ kc.spk = beVal (kc.cert.data.take 2) ∧ kc.cpk = beVal ((kc.cert.data.drop 2).take 2)) ∨
   (kc.cert.kind = [0] ∧ kc.spk = 0 ∧ kc.cpk = 0))

theorem KcParse_types {v : Bytes} {kc : KeyCert} {r : Bytes} (h : KcParse v kc r) : CertTypes kc := by
  obtain ⟨h3, hc, _, _⟩ := readCert_some.mp (KcParse_readCert h)
  have hk : kc.cert.kind = v.take 1 := by rw [hc]
  have hl : kc.cert.len = (v.drop 1).take 2 := by rw [hc]
  refine ⟨by rw [hk, List.length_take]; omega, by rw [hl, List.length_take, List.length_drop]; omega, ?_⟩
  rcases h with ⟨t, hv, hn⟩ | ⟨t, c, hv, hn, rfl⟩
  · left
    obtain ⟨_, _, h1, h2, _⟩ := newKeyCert_types hn
    exact ⟨by rw [hk, hv]; rfl, h1, h2⟩
  · right
    exact ⟨by rw [hk, hv]; rfl, rfl, rfl⟩

theorem cert_bytes_inj {c₁ c₂ : Cert} (hk₁ : c₁.kind.length = 1) (hk₂ : c₂.kind.length = 1)
    (hl₁ : c₁.len.length = 2) (hl₂ : c₂.len.length = 2) (h : c₁.bytes = c₂.bytes) :
    c₁.kind = c₂.kind ∧ c₁.len = c₂.len ∧ c₁.data = c₂.data := by
  unfold Cert.bytes at h
  rw [List.append_assoc, List.append_assoc] at h
  obtain ⟨h1, h2⟩ := List.append_inj h (by omega)
  obtain ⟨h3, h4⟩ := List.append_inj h2 (by omega)
  exact ⟨h1, h3, h4⟩

theorem CertTypes_inj {kc₁ kc₂ : KeyCert} (h₁ : CertTypes kc₁) (h₂ : CertTypes kc₂)
    (h : kc₁.cert.bytes = kc₂.cert.bytes) : kc₁.spk = kc₂.spk ∧ kc₁.cpk = kc₂.cpk := by
  obtain ⟨a1, a2, a3⟩ := h₁
  obtain ⟨b1, b2, b3⟩ := h₂
  obtain ⟨hk, _, hd⟩ := cert_bytes_inj a1 b1 a2 b2 h
  rcases a3 with ⟨k1, s1, c1⟩ | ⟨k1, s1, c1⟩ <;> rcases b3 with ⟨k2, s2, c2⟩ | ⟨k2, s2, c2⟩
  · rw [s1, s2, c1, c2, hd]; exact ⟨rfl, rfl⟩
  · rw [k1, k2] at hk; simp at hk
  · rw [k1, k2] at hk; simp at hk
  · rw [s1, s2, c1, c2]; exact ⟨rfl, rfl⟩

/-! ### C1–C6 for `readKac` -/

/-- everything `readKac` guarantees, in one place -/
theorem readKac_struct {w : Bytes} {k : KeysAndCert} {r : Bytes} (h : readKac w = some (k, r)) :
    387 ≤ w.length ∧ KcParse (w.drop 384) k.kc r ∧
    cryptoConstructible k.kc.cpk = true ∧ sigConstructible k.kc.spk = true ∧
    k.pub = w.take (cryptoSize k.kc.cpk) ∧
    k.padding = (w.take (384 - sigPubSize k.kc.spk)).drop (cryptoSize k.kc.cpk) ∧
    k.sig = (w.take 384).drop (384 - sigPubSize k.kc.spk) ∧
    k.bytes = some (w.take 384 ++ k.kc.cert.bytes) := by
  obtain ⟨hlen, kc, hp, hf⟩ := readKac_some.mp h
  obtain ⟨hc, hs, rfl, _⟩ := finishKac_some.mp hf
  have h1 := cryptoSize_of_constructible hc
  have h2 := sigPubSize_of_constructible hs
  have hpad := extractPadding_eq w (cryptoSize kc.cpk) (sigPubSize kc.spk) (by omega) (by omega) h2.2
  refine ⟨hlen, hp, hc, hs, rfl, hpad, rfl, ?_⟩
  rw [bytes_of_fields]
  · simp only [hpad]
    rw [layout_join w _ _ (by omega) h2.2]
  · simp only []; omega
  · simp only []; omega
  · exact h2.1
  · exact h2.2
  · simp only [List.length_take]; omega
  · simp only [List.length_drop, List.length_take]; omega
  · simp only [hpad, List.length_drop, List.length_take]; omega

theorem readKac_consumed {w : Bytes} {k : KeysAndCert} {r : Bytes} (h : readKac w = some (k, r)) :
    ∃ b, k.bytes = some b ∧ b ++ r = w := by
  obtain ⟨_, hp, _, _, _, _, _, hb⟩ := readKac_struct h
  refine ⟨_, hb, ?_⟩
  rw [List.append_assoc, KcParse_consumed hp, List.take_append_drop]

theorem readKac_append {w : Bytes} {k : KeysAndCert} {r : Bytes} (h : readKac w = some (k, r)) (x : Bytes) :
    ∃ k', readKac (w ++ x) = some (k', r ++ x) ∧ k'.bytes = k.bytes ∧ k'.pub = k.pub ∧
      k'.padding = k.padding ∧ k'.sig = k.sig ∧ k'.kc.spk = k.kc.spk ∧ k'.kc.cpk = k.kc.cpk := by
  obtain ⟨hlen, kc, hp, hf⟩ := readKac_some.mp h
  obtain ⟨kc', hp', hb, hs, hc⟩ := KcParse_append hp x
  have hk : k.kc = kc := by
    obtain ⟨_, _, rfl, _⟩ := finishKac_some.mp hf; rfl
  refine ⟨{ kc := kc', pub := k.pub, padding := k.padding, sig := k.sig }, ?_, ?_, rfl, rfl, rfl, ?_, ?_⟩
  · rw [readKac_some]
    refine ⟨by rw [List.length_append]; omega, kc', ?_, ?_⟩
    · rw [List.drop_append_of_le_length (by omega)]; exact hp'
    · exact finishKac_congr (take384_append w x (by omega)) hs hc hf
  · exact bytes_congr (by rw [hk]; exact hs) (by rw [hk]; exact hc) rfl rfl rfl (by rw [hk]; exact hb)
  · rw [hk]; exact hs
  · rw [hk]; exact hc

theorem readKac_no_prefix {w : Bytes} {k : KeysAndCert} (h : readKac w = some (k, [])) :
    ∀ n, n < w.length → readKac (w.take n) = none := by
  intro n hn
  obtain ⟨hlen, kc, hp, _⟩ := readKac_some.mp h
  cases h' : readKac (w.take n) with
  | none => rfl
  | some p =>
    obtain ⟨k', r'⟩ := p
    obtain ⟨hlen', kc', hp', _⟩ := readKac_some.mp h'
    rw [List.length_take] at hlen'
    rw [List.drop_take] at hp'
    exact absurd hp' (KcParse_no_prefix hp (n - 384) (by rw [List.length_drop]; omega) kc' r')

theorem readKac_layout {w : Bytes} {k : KeysAndCert} {r : Bytes} (h : readKac w = some (k, r)) :
    let cs := cryptoSize k.kc.cpk
    let ss := sigPubSize k.kc.spk
    0 < cs ∧ cs ≤ 256 ∧ 0 < ss ∧ ss ≤ 128 ∧ k.pub.length = cs ∧ k.sig.length = ss ∧
    k.padding.length = 384 - cs - ss ∧
    ∃ b, k.bytes = some b ∧ b.take cs = k.pub ∧ (b.take 384).drop (384 - ss) = k.sig ∧
      (b.take (384 - ss)).drop cs = k.padding ∧ b.drop 384 = k.kc.cert.bytes ∧ b.take 384 = w.take 384 := by
  intro cs ss
  obtain ⟨hlen, _, hc, hs, hP, hD, hS, hb⟩ := readKac_struct h
  have h1 : cs = 256 ∨ cs = 32 := cryptoSize_of_constructible hc
  have h2 : 0 < ss ∧ ss ≤ 128 := sigPubSize_of_constructible hs
  have hl : (w.take 384).length = 384 := by rw [List.length_take]; omega
  have hb384 : (w.take 384 ++ k.kc.cert.bytes).take 384 = w.take 384 := List.take_left' hl
  refine ⟨by omega, by omega, h2.1, h2.2, ?_, ?_, ?_, _, hb, ?_, ?_, ?_, List.drop_left' hl, hb384⟩
  · rw [hP, List.length_take]; omega
  · rw [hS, List.length_drop, List.length_take]; omega
  · rw [hD, List.length_drop, List.length_take]; omega
  · rw [hP, List.take_append_of_le_length (by omega), List.take_take, Nat.min_eq_left (by omega)]
  · rw [hb384, hS]
  · rw [hD, List.take_append_of_le_length (by omega), List.take_take, Nat.min_eq_left (by omega)]

theorem readKac_types {w : Bytes} {k : KeysAndCert} {r : Bytes} (h : readKac w = some (k, r)) :
    CertTypes k.kc := KcParse_types (readKac_struct h).2.1

theorem readKac_injective {w₁ w₂ : Bytes} {k₁ k₂ : KeysAndCert} {r₁ r₂ : Bytes}
    (h₁ : readKac w₁ = some (k₁, r₁)) (h₂ : readKac w₂ = some (k₂, r₂)) (hb : k₁.bytes = k₂.bytes) :
    k₁.pub = k₂.pub ∧ k₁.padding = k₂.padding ∧ k₁.sig = k₂.sig ∧
      k₁.kc.cert.bytes = k₂.kc.cert.bytes ∧ k₁.kc.spk = k₂.kc.spk ∧ k₁.kc.cpk = k₂.kc.cpk := by
  obtain ⟨_, _, _, _, _, _, _, b₁, hb₁, p₁, s₁, d₁, c₁, _⟩ := readKac_layout h₁
  obtain ⟨_, _, _, _, _, _, _, b₂, hb₂, p₂, s₂, d₂, c₂, _⟩ := readKac_layout h₂
  rw [hb₁, hb₂] at hb
  have hbb : b₁ = b₂ := Option.some.inj hb
  subst hbb
  have hcb : k₁.kc.cert.bytes = k₂.kc.cert.bytes := by rw [← c₁, ← c₂]
  obtain ⟨hs, hc⟩ := CertTypes_inj (readKac_types h₁) (readKac_types h₂) hcb
  refine ⟨?_, ?_, ?_, hcb, hs, hc⟩
  · rw [← p₁, ← p₂, hc]
  · rw [← d₁, ← d₂, hs, hc]
  · rw [← s₁, ← s₂, hs]

/-! ### readers that are restrictions of `readKac` -/

section Sub
variable {f : Bytes → Option (KeysAndCert × Bytes)} {Q : Bytes → KeysAndCert → Prop}

/-- `f` accepts exactly the `readKac` results that satisfy `Q`, and `Q` survives appended data -/
structure IsSub (f : Bytes → Option (KeysAndCert × Bytes)) (Q : Bytes → KeysAndCert → Prop) : Prop where
  iff : ∀ w k r, f w = some (k, r) ↔ readKac w = some (k, r) ∧ Q w k
  stable : ∀ w x k k', 387 ≤ w.length → k'.kc.spk = k.kc.spk → k'.kc.cpk = k.kc.cpk → Q w k → Q (w ++ x) k'

theorem IsSub.consumed (hf : IsSub f Q) {w : Bytes} {k : KeysAndCert} {r : Bytes} (h : f w = some (k, r)) :
    ∃ b, k.bytes = some b ∧ b ++ r = w :=
  readKac_consumed ((hf.iff w k r).mp h).1

theorem IsSub.append (hf : IsSub f Q) {w : Bytes} {k : KeysAndCert} {r : Bytes} (h : f w = some (k, r)) (x : Bytes) :
    ∃ k', f (w ++ x) = some (k', r ++ x) ∧ k'.bytes = k.bytes ∧ k'.pub = k.pub ∧
      k'.padding = k.padding ∧ k'.sig = k.sig ∧ k'.kc.spk = k.kc.spk ∧ k'.kc.cpk = k.kc.cpk := by
  obtain ⟨hk, hq⟩ := (hf.iff w k r).mp h
  obtain ⟨k', h', hb, hP, hD, hS, hs, hc⟩ := readKac_append hk x
  exact ⟨k', (hf.iff _ _ _).mpr ⟨h', hf.stable w x k k' (readKac_some.mp hk).1 hs hc hq⟩, hb, hP, hD, hS, hs, hc⟩

theorem IsSub.no_prefix (hf : IsSub f Q) {w : Bytes} {k : KeysAndCert} (h : f w = some (k, [])) :
    ∀ n, n < w.length → f (w.take n) = none := by
  intro n hn
  have hk := ((hf.iff w k []).mp h).1
  cases h' : f (w.take n) with
  | none => rfl
  | some p =>
    obtain ⟨k', r'⟩ := p
    have := ((hf.iff _ _ _).mp h').1
    rw [readKac_no_prefix hk n hn] at this
    simp at this
end Sub

/-! ### D. Destination / RouterIdentity policy -/

theorem readDestination_iff {w : Bytes} {k : KeysAndCert} {r : Bytes} :
    readDestination w = some (k, r) ↔ readKac w = some (k, r) ∧ destAllowed k.kc.spk k.kc.cpk = true := by
  unfold readDestination
  cases h : readKac w with
  | none => simp
  | some p =>
    obtain ⟨k', r'⟩ := p
    simp only []
    by_cases ha : destAllowed k'.kc.spk k'.kc.cpk = true
    · rw [if_pos ha]
      constructor
      · intro e; simp only [Option.some.injEq, Prod.mk.injEq] at e
        obtain ⟨rfl, rfl⟩ := e; exact ⟨rfl, ha⟩
      · rintro ⟨e, _⟩; exact e
    · rw [if_neg ha]
      constructor
      · intro e; simp at e
      · rintro ⟨e, ha'⟩
        simp only [Option.some.injEq, Prod.mk.injEq] at e
        obtain ⟨rfl, rfl⟩ := e; exact absurd ha' ha

theorem readRouterIdentity_iff {w : Bytes} {k : KeysAndCert} {r : Bytes} :
    readRouterIdentity w = some (k, r) ↔ readKac w = some (k, r) ∧ ridAllowed k.kc.spk k.kc.cpk = true := by
  unfold readRouterIdentity
  cases h : readKac w with
  | none => simp
  | some p =>
    obtain ⟨k', r'⟩ := p
    simp only []
    by_cases ha : ridAllowed k'.kc.spk k'.kc.cpk = true
    · rw [if_pos ha]
      constructor
      · intro e; simp only [Option.some.injEq, Prod.mk.injEq] at e
        obtain ⟨rfl, rfl⟩ := e; exact ⟨rfl, ha⟩
      · rintro ⟨e, _⟩; exact e
    · rw [if_neg ha]
      constructor
      · intro e; simp at e
      · rintro ⟨e, ha'⟩
        simp only [Option.some.injEq, Prod.mk.injEq] at e
        obtain ⟨rfl, rfl⟩ := e; exact absurd ha' ha

theorem readDestination_allowed {w : Bytes} {k : KeysAndCert} {r : Bytes} (h : readDestination w = some (k, r)) :
    destAllowed k.kc.spk k.kc.cpk = true := (readDestination_iff.mp h).2

theorem readRouterIdentity_allowed {w : Bytes} {k : KeysAndCert} {r : Bytes} (h : readRouterIdentity w = some (k, r)) :
    ridAllowed k.kc.spk k.kc.cpk = true := (readRouterIdentity_iff.mp h).2

theorem ridAllowed_destAllowed {s c : Nat} (h : ridAllowed s c = true) : destAllowed s c = true := by
  unfold ridAllowed at h
  unfold destAllowed
  simp only [Bool.and_eq_true, Bool.not_eq_true'] at h ⊢
  refine ⟨?_, ?_⟩
  · have h1 := h.1
    unfold ridProhibitedSig at h1
    unfold destProhibitedSig
    split at h1 <;> simp_all
  · have h2 := h.2
    unfold ridProhibitedCrypto at h2
    unfold destProhibitedCrypto
    split at h2 <;> simp_all

theorem readDestination_complete {w : Bytes} {k : KeysAndCert} {r : Bytes} (h : readKac w = some (k, r))
    (ha : destAllowed k.kc.spk k.kc.cpk = true) : readDestination w = some (k, r) :=
  readDestination_iff.mpr ⟨h, ha⟩

theorem readRouterIdentity_complete {w : Bytes} {k : KeysAndCert} {r : Bytes} (h : readKac w = some (k, r))
    (ha : ridAllowed k.kc.spk k.kc.cpk = true) : readRouterIdentity w = some (k, r) :=
  readRouterIdentity_iff.mpr ⟨h, ha⟩

theorem readDestination_sub {w : Bytes} {k : KeysAndCert} {r : Bytes} (h : readDestination w = some (k, r)) :
    readKac w = some (k, r) := (readDestination_iff.mp h).1

theorem readRouterIdentity_sub {w : Bytes} {k : KeysAndCert} {r : Bytes} (h : readRouterIdentity w = some (k, r)) :
    readKac w = some (k, r) := (readRouterIdentity_iff.mp h).1

theorem readDestination_isSub : IsSub readDestination (fun _ k => destAllowed k.kc.spk k.kc.cpk = true) where
  iff := fun _ _ _ => readDestination_iff
  stable := by intro w x k k' _ hs hc hq; simp only [hs, hc]; exact hq

theorem readRouterIdentity_isSub : IsSub readRouterIdentity (fun _ k => ridAllowed k.kc.spk k.kc.cpk = true) where
  iff := fun _ _ _ => readRouterIdentity_iff
  stable := by intro w x k k' _ hs hc hq; simp only [hs, hc]; exact hq

theorem readDestination_consumed {w : Bytes} {k : KeysAndCert} {r : Bytes} (h : readDestination w = some (k, r)) :
    ∃ b, k.bytes = some b ∧ b ++ r = w := readDestination_isSub.consumed h

theorem readDestination_append {w : Bytes} {k : KeysAndCert} {r : Bytes} (h : readDestination w = some (k, r)) (x : Bytes) :
    ∃ k', readDestination (w ++ x) = some (k', r ++ x) ∧ k'.bytes = k.bytes ∧ k'.pub = k.pub ∧
      k'.padding = k.padding ∧ k'.sig = k.sig ∧ k'.kc.spk = k.kc.spk ∧ k'.kc.cpk = k.kc.cpk :=
  readDestination_isSub.append h x

theorem readDestination_no_prefix {w : Bytes} {k : KeysAndCert} (h : readDestination w = some (k, [])) :
    ∀ n, n < w.length → readDestination (w.take n) = none := readDestination_isSub.no_prefix h

theorem readRouterIdentity_consumed {w : Bytes} {k : KeysAndCert} {r : Bytes} (h : readRouterIdentity w = some (k, r)) :
    ∃ b, k.bytes = some b ∧ b ++ r = w := readRouterIdentity_isSub.consumed h

theorem readRouterIdentity_append {w : Bytes} {k : KeysAndCert} {r : Bytes} (h : readRouterIdentity w = some (k, r)) (x : Bytes) :
    ∃ k', readRouterIdentity (w ++ x) = some (k', r ++ x) ∧ k'.bytes = k.bytes ∧ k'.pub = k.pub ∧
      k'.padding = k.padding ∧ k'.sig = k.sig ∧ k'.kc.spk = k.kc.spk ∧ k'.kc.cpk = k.kc.cpk :=
  readRouterIdentity_isSub.append h x

theorem readRouterIdentity_no_prefix {w : Bytes} {k : KeysAndCert} (h : readRouterIdentity w = some (k, [])) :
    ∀ n, n < w.length → readRouterIdentity (w.take n) = none := readRouterIdentity_isSub.no_prefix h

/-! ### E. the fast twins -/

/-- characterisation of `readKacFast` -/
theorem readKacFast_some {c : Nat} {w : Bytes} {k : KeysAndCert} {r : Bytes} :
    readKacFast c w = some (k, r) ↔
      387 ≤ w.length ∧ ∃ kc, newKeyCert (w.drop 384) = some (kc, r) ∧ kc.spk = 7 ∧ kc.cpk = c ∧
        k = { kc := kc, pub := w.take (cryptoSize c), padding := (w.take 352).drop (cryptoSize c),
              sig := (w.take 384).drop 352 } := by
  unfold readKacFast
  by_cases hlen : w.length < 387
  · rw [if_pos hlen]
    constructor
    · intro h; simp at h
    · rintro ⟨h, _⟩; omega
  · rw [if_neg hlen]
    cases hn : newKeyCert (w.drop 384) with
    | none => simp
    | some p =>
      obtain ⟨kc, rem⟩ := p
      simp only []
      by_cases hq : kc.spk ≠ 7 ∨ kc.cpk ≠ c
      · rw [if_pos hq]
        constructor
        · intro h; simp at h
        · rintro ⟨_, kc', e, h7, hc, _⟩
          simp only [Option.some.injEq, Prod.mk.injEq] at e
          obtain ⟨rfl, rfl⟩ := e
          rcases hq with hq | hq
          · exact absurd h7 hq
          · exact absurd hc hq
      · rw [if_neg hq]
        simp only [Option.some.injEq, Prod.mk.injEq]
        constructor
        · rintro ⟨rfl, rfl⟩
          exact ⟨by omega, kc, ⟨rfl, rfl⟩, by omega, by omega, rfl⟩
        · rintro ⟨_, kc', ⟨rfl, rfl⟩, _, _, rfl⟩
          exact ⟨rfl, rfl⟩

theorem newKeyCert_head {v : Bytes} {kc : KeyCert} {r : Bytes} (h : newKeyCert v = some (kc, r)) :
    ∃ t, v = 5 :: t := by
  obtain ⟨c, hc, h5, _, _⟩ := newKeyCert_some.mp h
  obtain ⟨h3, rfl, _, _⟩ := readCert_some.mp hc
  cases v with
  | nil => simp at h3
  | cons b t =>
    refine ⟨t, ?_⟩
    have : b.toNat = (5 : UInt8).toNat := by
      simp only [Cert.type, List.take_succ_cons, List.take_zero, beVal_singleton] at h5
      exact h5
    rw [UInt8.toNat_inj.mp this]

theorem readKacFast_iff {c : Nat} (hc : c = 0 ∨ c = 4) {w : Bytes} {k : KeysAndCert} {r : Bytes} :
    readKacFast c w = some (k, r) ↔
      readKac w = some (k, r) ∧ (w.drop 384).head? = some 5 ∧ k.kc.spk = 7 ∧ k.kc.cpk = c := by
  have hcc : cryptoConstructible c = true := by rcases hc with rfl | rfl <;> rfl
  have hcs : cryptoSize c ≤ 256 := by rcases hc with rfl | rfl <;> decide
  have h7 : sigPubSize 7 = 32 := rfl
  rw [readKacFast_some, readKac_some]
  constructor
  · rintro ⟨hlen, kc, hn, hs, rfl, rfl⟩
    obtain ⟨t, ht⟩ := newKeyCert_head hn
    refine ⟨⟨hlen, kc, Or.inl ⟨t, ht, hn⟩, ?_⟩, by rw [ht]; rfl, hs, rfl⟩
    rw [finishKac_some, hs, h7, extractPadding_eq w _ 32 (by omega) hcs (by omega)]
    exact ⟨hcc, rfl, rfl, rfl⟩
  · rintro ⟨⟨hlen, kc, hp, hf⟩, h5, hs, hcp⟩
    obtain ⟨_, _, rfl, _⟩ := finishKac_some.mp hf
    simp only [] at hs hcp
    subst hcp
    refine ⟨hlen, kc, ?_, hs, rfl, ?_⟩
    · rcases hp with ⟨t, _, hn⟩ | ⟨t, c', hv, _, _⟩
      · exact hn
      · rw [hv] at h5; simp at h5
    · rw [hs, h7, extractPadding_eq w _ 32 (by omega) hcs (by omega)]

theorem fast_of_generic {c : Nat} (hc : c = 0 ∨ c = 4) {w : Bytes} {k : KeysAndCert} {r : Bytes}
    (h : readKac w = some (k, r)) (h5 : (w.drop 384).head? = some 5) (hs : k.kc.spk = 7) (hcp : k.kc.cpk = c) :
    readKacFast c w = some (k, r) := (readKacFast_iff hc).mpr ⟨h, h5, hs, hcp⟩

theorem generic_of_fast {c : Nat} (hc : c = 0 ∨ c = 4) {w : Bytes} {k : KeysAndCert} {r : Bytes}
    (h : readKacFast c w = some (k, r)) : readKac w = some (k, r) := ((readKacFast_iff hc).mp h).1

theorem readKacFast_isSub {c : Nat} (hc : c = 0 ∨ c = 4) :
    IsSub (readKacFast c) (fun w k => (w.drop 384).head? = some 5 ∧ k.kc.spk = 7 ∧ k.kc.cpk = c) where
  iff := fun _ _ _ => readKacFast_iff hc
  stable := by
    intro w x k k' hlen hs hcp ⟨h5, h7, hc'⟩
    refine ⟨?_, by rw [hs]; exact h7, by rw [hcp]; exact hc'⟩
    rw [List.drop_append_of_le_length (by omega)]
    cases hv : w.drop 384 with
    | nil => rw [hv] at h5; simp at h5
    | cons b t => rw [hv] at h5; exact h5

theorem readKacFast0_consumed {w : Bytes} {k : KeysAndCert} {r : Bytes} (h : readKacFast 0 w = some (k, r)) :
    ∃ b, k.bytes = some b ∧ b ++ r = w := (readKacFast_isSub (Or.inl rfl)).consumed h

theorem readKacFast4_consumed {w : Bytes} {k : KeysAndCert} {r : Bytes} (h : readKacFast 4 w = some (k, r)) :
    ∃ b, k.bytes = some b ∧ b ++ r = w := (readKacFast_isSub (Or.inr rfl)).consumed h

theorem readKacFast0_append {w : Bytes} {k : KeysAndCert} {r : Bytes} (h : readKacFast 0 w = some (k, r)) (x : Bytes) :
    ∃ k', readKacFast 0 (w ++ x) = some (k', r ++ x) ∧ k'.bytes = k.bytes ∧ k'.pub = k.pub ∧
      k'.padding = k.padding ∧ k'.sig = k.sig ∧ k'.kc.spk = k.kc.spk ∧ k'.kc.cpk = k.kc.cpk :=
  (readKacFast_isSub (Or.inl rfl)).append h x

theorem readKacFast4_append {w : Bytes} {k : KeysAndCert} {r : Bytes} (h : readKacFast 4 w = some (k, r)) (x : Bytes) :
    ∃ k', readKacFast 4 (w ++ x) = some (k', r ++ x) ∧ k'.bytes = k.bytes ∧ k'.pub = k.pub ∧
      k'.padding = k.padding ∧ k'.sig = k.sig ∧ k'.kc.spk = k.kc.spk ∧ k'.kc.cpk = k.kc.cpk :=
  (readKacFast_isSub (Or.inr rfl)).append h x

theorem readKacFast0_no_prefix {w : Bytes} {k : KeysAndCert} (h : readKacFast 0 w = some (k, [])) :
    ∀ n, n < w.length → readKacFast 0 (w.take n) = none := (readKacFast_isSub (Or.inl rfl)).no_prefix h

theorem readKacFast4_no_prefix {w : Bytes} {k : KeysAndCert} (h : readKacFast 4 w = some (k, [])) :
    ∀ n, n < w.length → readKacFast 4 (w.take n) = none := (readKacFast_isSub (Or.inr rfl)).no_prefix h

/-! ### C7. the spec-side layouts are accepted -/

/-- generic acceptance: a 384-byte key block `ck ++ pad ++ sk` followed by a certificate step -/
theorem readKac_accepts_core (ck pad sk v x : Bytes) (kc : KeyCert)
    (hcc : cryptoConstructible kc.cpk = true) (hsc : sigConstructible kc.spk = true)
    (hck : ck.length = cryptoSize kc.cpk) (hsk : sk.length = sigPubSize kc.spk)
    (hpad : pad.length = 384 - cryptoSize kc.cpk - sigPubSize kc.spk)
    (hp : KcParse v kc x) :
    readKac (ck ++ pad ++ sk ++ v) = some ({ kc := kc, pub := ck, padding := pad, sig := sk }, x) ∧
    KeysAndCert.bytes { kc := kc, pub := ck, padding := pad, sig := sk } = some (ck ++ pad ++ sk ++ kc.cert.bytes) := by
  have h1 := cryptoSize_of_constructible hcc
  have h2 := sigPubSize_of_constructible hsc
  have hB : (ck ++ pad ++ sk).length = 384 := by
    rw [List.length_append, List.length_append]; omega
  have hv3 : 3 ≤ v.length := (readCert_some.mp (KcParse_readCert hp)).1
  have hlen : 387 ≤ (ck ++ pad ++ sk ++ v).length := by rw [List.length_append]; omega
  have e384 : (ck ++ pad ++ sk ++ v).take 384 = ck ++ pad ++ sk := List.take_left' hB
  have epub : (ck ++ pad ++ sk ++ v).take (cryptoSize kc.cpk) = ck := by
    rw [show ck ++ pad ++ sk ++ v = ck ++ (pad ++ sk ++ v) by simp]
    exact List.take_left' hck
  have epad : ((ck ++ pad ++ sk ++ v).take (384 - sigPubSize kc.spk)).drop (cryptoSize kc.cpk) = pad := by
    rw [show ck ++ pad ++ sk ++ v = (ck ++ pad) ++ (sk ++ v) by simp,
      List.take_left' (by rw [List.length_append]; omega)]
    exact List.drop_left' hck
  have esig : ((ck ++ pad ++ sk ++ v).take 384).drop (384 - sigPubSize kc.spk) = sk := by
    rw [e384]
    exact List.drop_left' (by rw [List.length_append]; omega)
  have hread : readKac (ck ++ pad ++ sk ++ v) = some ({ kc := kc, pub := ck, padding := pad, sig := sk }, x) := by
    rw [readKac_some]
    refine ⟨hlen, kc, ?_, ?_⟩
    · rw [List.drop_left' hB]; exact hp
    · rw [finishKac_some, extractPadding_eq _ _ _ (by omega) (by omega) h2.2, epub, epad, esig]
      exact ⟨hcc, hsc, rfl, rfl⟩
  refine ⟨hread, ?_⟩
  have := (readKac_struct hread).2.2.2.2.2.2.2
  rw [e384] at this
  exact this

theorem readKac_accepts (s c : Nat) (hs : sigConstructible s = true) (hc : cryptoConstructible c = true)
    (hs16 : s < 65536) (hc16 : c < 65536) (ck pad sk extra x : Bytes)
    (hck : ck.length = cryptoSize c) (hsk : sk.length = sigPubSize s)
    (hpad : pad.length = 384 - cryptoSize c - sigPubSize s) (hex : extra.length ≤ 65531) :
    ∃ k, readKac (ck ++ pad ++ sk ++ [5] ++ beEnc 2 (4 + extra.length) ++ beEnc 2 s ++ beEnc 2 c ++ extra ++ x)
          = some (k, x) ∧
      k.pub = ck ∧ k.padding = pad ∧ k.sig = sk ∧ k.kc.spk = s ∧ k.kc.cpk = c ∧
      k.bytes = some (ck ++ pad ++ sk ++ [5] ++ beEnc 2 (4 + extra.length) ++ beEnc 2 s ++ beEnc 2 c ++ extra) := by
  let p : Bytes := beEnc 2 s ++ beEnc 2 c ++ extra
  let L : Bytes := beEnc 2 (4 + extra.length)
  let C : Cert := { kind := [5], len := L, payload := p ++ x }
  have hpl : p.length = 4 + extra.length := by
    show (beEnc 2 s ++ beEnc 2 c ++ extra).length = _
    rw [List.length_append, List.length_append, beEnc_length, beEnc_length]
  have hL : beVal L = p.length := by rw [hpl]; exact beVal_beEnc 2 _ (by omega)
  have hcert : readCert ([5] ++ L ++ p ++ x) = some (C, x) :=
    readCert_mk [5] L p x rfl (beEnc_length _ _) hL
  have hdata : C.data = p := by
    show (p ++ x).take (beVal L) = p
    rw [hL]; exact List.take_left' rfl
  have hspk : beVal (C.data.take 2) = s := by
    rw [hdata]
    show beVal ((beEnc 2 s ++ beEnc 2 c ++ extra).take 2) = s
    rw [List.append_assoc, List.take_left' (beEnc_length _ _)]
    exact beVal_beEnc 2 s (by omega)
  have hcpk : beVal ((C.data.drop 2).take 2) = c := by
    rw [hdata]
    show beVal (((beEnc 2 s ++ beEnc 2 c ++ extra).drop 2).take 2) = c
    rw [List.append_assoc, List.drop_left' (beEnc_length _ _), List.take_left' (beEnc_length _ _)]
    exact beVal_beEnc 2 c (by omega)
  have hkc : mkKeyCert C = { cert := C, spk := s, cpk := c } := by
    unfold mkKeyCert; rw [hspk, hcpk]
  have hparse : KcParse ([5] ++ L ++ p ++ x) { cert := C, spk := s, cpk := c } x := by
    refine Or.inl ⟨L ++ p ++ x, by simp, ?_⟩
    rw [newKeyCert_some]
    refine ⟨C, hcert, ?_, ?_, hkc.symm⟩
    · show beVal [5] = 5
      rfl
    · rw [hdata, hpl]; omega
  obtain ⟨hread, hbytes⟩ := readKac_accepts_core ck pad sk ([5] ++ L ++ p ++ x) x
    { cert := C, spk := s, cpk := c } hc hs hck hsk hpad hparse
  have hw : ck ++ pad ++ sk ++ [5] ++ beEnc 2 (4 + extra.length) ++ beEnc 2 s ++ beEnc 2 c ++ extra ++ x
      = ck ++ pad ++ sk ++ ([5] ++ L ++ p ++ x) := by
    show _ = ck ++ pad ++ sk ++ ([5] ++ beEnc 2 (4 + extra.length) ++ (beEnc 2 s ++ beEnc 2 c ++ extra) ++ x)
    simp only [List.append_assoc]
  refine ⟨_, by rw [hw]; exact hread, rfl, rfl, rfl, rfl, rfl, ?_⟩
  rw [hbytes]
  show some (ck ++ pad ++ sk ++ ([5] ++ L ++ C.data)) = _
  rw [hdata]
  show some (ck ++ pad ++ sk ++ ([5] ++ beEnc 2 (4 + extra.length) ++ (beEnc 2 s ++ beEnc 2 c ++ extra))) = _
  simp only [List.append_assoc]

theorem readKac_accepts_null (ck sk p x : Bytes) (hck : ck.length = 256) (hsk : sk.length = 128)
    (hp : p.length ≤ 65535) :
    ∃ k, readKac (ck ++ sk ++ [0] ++ beEnc 2 p.length ++ p ++ x) = some (k, x) ∧
      k.pub = ck ∧ k.padding = [] ∧ k.sig = sk ∧ k.kc.spk = 0 ∧ k.kc.cpk = 0 ∧
      k.bytes = some (ck ++ sk ++ [0] ++ beEnc 2 p.length ++ p) := by
  let C : Cert := { kind := [0], len := beEnc 2 p.length, payload := p ++ x }
  have hL : beVal (beEnc 2 p.length) = p.length := beVal_beEnc 2 _ (by omega)
  have hcert : readCert ([0] ++ beEnc 2 p.length ++ p ++ x) = some (C, x) :=
    readCert_mk [0] _ p x rfl (beEnc_length _ _) hL
  have hdata : C.data = p := by
    show (p ++ x).take (beVal (beEnc 2 p.length)) = p
    rw [hL]; exact List.take_left' rfl
  have hparse : KcParse ([0] ++ beEnc 2 p.length ++ p ++ x) { cert := C, spk := 0, cpk := 0 } x :=
    Or.inr ⟨beEnc 2 p.length ++ p ++ x, C, by simp, hcert, rfl⟩
  obtain ⟨hread, hbytes⟩ := readKac_accepts_core ck [] sk ([0] ++ beEnc 2 p.length ++ p ++ x) x
    { cert := C, spk := 0, cpk := 0 } rfl rfl hck hsk (show ([] : Bytes).length = 384 - cryptoSize 0 - sigPubSize 0 by decide) hparse
  have hw : ck ++ sk ++ [0] ++ beEnc 2 p.length ++ p ++ x
      = ck ++ [] ++ sk ++ ([0] ++ beEnc 2 p.length ++ p ++ x) := by
    simp only [List.append_assoc, List.nil_append]
  refine ⟨_, by rw [hw]; exact hread, rfl, rfl, rfl, rfl, rfl, ?_⟩
  rw [hbytes]
  show some (ck ++ [] ++ sk ++ ([0] ++ beEnc 2 p.length ++ C.data)) = _
  rw [hdata]
  simp only [List.append_assoc, List.nil_append]

/-! ### non-vacuity: the hypotheses of the lemmas above are satisfiable -/

/-- a (Ed25519, X25519) KEY-certificate identity is accepted by every reader, so the premises
    `read w = some (k, [])` of the `_consumed` / `_append` / `_no_prefix` lemmas are satisfiable -/
example : ∃ w k, readKac w = some (k, []) ∧ readKacFast 4 w = some (k, []) ∧
    readDestination w = some (k, []) ∧ readRouterIdentity w = some (k, []) := by
  obtain ⟨k, h, _, _, _, hs, hc, _⟩ := readKac_accepts 7 4 rfl rfl (by decide) (by decide)
    (List.replicate 32 0) (List.replicate 320 0) (List.replicate 32 0) [] []
    List.length_replicate List.length_replicate List.length_replicate (by decide)
  refine ⟨_, k, h, fast_of_generic (Or.inr rfl) h ?_ hs hc, ?_, ?_⟩
  · rw [List.head?_drop]; decide
  · exact readDestination_complete h (by rw [hs, hc]; rfl)
  · exact readRouterIdentity_complete h (by rw [hs, hc]; rfl)

/-- the NULL-certificate path is inhabited as well -/
example : ∃ w k, readKac w = some (k, []) ∧ k.kc.spk = 0 ∧ k.kc.cpk = 0 := by
  obtain ⟨k, h, _, _, _, hs, hc, _⟩ := readKac_accepts_null (List.replicate 256 0) (List.replicate 128 0) [] []
    List.length_replicate List.length_replicate (by decide)
  exact ⟨_, k, h, hs, hc⟩

end I2P.Kac
