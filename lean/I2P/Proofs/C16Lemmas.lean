import I2P.Crypto16
import I2P.Proofs.StructLemmas
/-! Helper lemmas for C16: splitting `eph ‖ nonce ‖ ct ‖ tag`, the characterisation of `decryptLS2` on an
assembled blob, and the two toy schemes that show the hypothesis sets of the theorems to be satisfiable. -/

namespace I2P.Crypto16
open I2P I2P.Structs

/-! ### splitting the blob -/

theorem blob_split (e n c t : Bytes) (he : e.length = 32) (hn : n.length = 12) (ht : t.length = 16) :
    (e ++ n ++ c ++ t).take 32 = e ∧
    ((e ++ n ++ c ++ t).drop 32).take 12 = n ∧
    ((e ++ n ++ c ++ t).drop 44).take (((e ++ n ++ c ++ t).drop 44).length - 16) = c ∧
    ((e ++ n ++ c ++ t).drop 44).drop (((e ++ n ++ c ++ t).drop 44).length - 16) = t ∧
    (e ++ n ++ c ++ t).length = 60 + c.length := by
  have h1 : e ++ n ++ c ++ t = e ++ (n ++ (c ++ t)) := by simp [List.append_assoc]
  have hd32 : (e ++ n ++ c ++ t).drop 32 = n ++ (c ++ t) := by
    rw [h1, List.drop_append_of_le_length (by omega), ← he, List.drop_length, List.nil_append]
  have hd44 : (e ++ n ++ c ++ t).drop 44 = c ++ t := by
    have : (44 : Nat) = 32 + 12 := rfl
    rw [this, ← List.drop_drop, hd32, List.drop_append_of_le_length (by omega), ← hn, List.drop_length,
      List.nil_append]
  refine ⟨?_, ?_, ?_, ?_, ?_⟩
  · rw [h1, List.take_append_of_le_length (by omega), ← he, List.take_length]
  · rw [hd32, List.take_append_of_le_length (by omega), ← hn, List.take_length]
  · rw [hd44]
    have : (c ++ t).length - 16 = c.length := by simp [ht]
    rw [this, List.take_append_of_le_length (Nat.le_refl _), List.take_length]
  · rw [hd44]
    have : (c ++ t).length - 16 = c.length := by simp [ht]
    rw [this, List.drop_append_of_le_length (Nat.le_refl _), List.drop_length, List.nil_append]
  · simp [he, hn, ht]; omega

/-- every blob that passes `validateEncryptedDataLength` has the four-part shape -/
theorem blob_decompose (b : Bytes) (h : minBlob ≤ b.length) :
    ∃ e n c t, e.length = 32 ∧ n.length = 12 ∧ t.length = 16 ∧ b = e ++ n ++ c ++ t := by
  unfold minBlob at h
  refine ⟨b.take 32, (b.drop 32).take 12, (b.drop 44).take ((b.drop 44).length - 16),
    (b.drop 44).drop ((b.drop 44).length - 16), ?_, ?_, ?_, ?_⟩
  · simp; omega
  · simp; omega
  · simp; omega
  · have h44 : b.drop 44 = (b.drop 32).drop 12 := by rw [List.drop_drop]
    rw [List.append_assoc, List.append_assoc, List.take_append_drop, h44, List.take_append_drop,
      List.take_append_drop]

/-- characterisation of `decryptLS2` on a blob given by its parts -/
theorem decrypt_parts (E : EncScheme) (cookie e n c t sk : Bytes) (hc : cookie.length = 32) (hsk : sk.length = 32)
    (he : e.length = 32) (hn : n.length = 12) (ht : t.length = 16) :
    decryptLS2 E cookie (e ++ n ++ c ++ t) sk =
      if ephCanonical e then
        (E.dh sk e).bind fun s => (E.aeadOpen (E.derive s) n c t).bind fun p =>
          (readLeaseSet2 p).map Prod.fst
      else none := by
  obtain ⟨h1, h2, h3, h4, h5⟩ := blob_split e n c t he hn ht
  unfold decryptLS2
  rw [if_neg (by omega), if_neg (by omega), if_neg (by unfold minBlob; omega), h1]
  cases hcan : ephCanonical e with
  | false => simp
  | true =>
  simp only [Bool.not_true, Bool.false_eq_true, if_false, if_true]
  cases hd : E.dh sk e with
  | none => rfl
  | some s =>
    simp only [Option.bind_some]
    have hl : ¬ ((e ++ n ++ c ++ t).drop 44).length < 16 := by
      rw [List.length_drop]; omega
    rw [if_neg hl, h2, h3, h4]
    cases ho : E.aeadOpen (E.derive s) n c t with
    | none => rfl
    | some p =>
      simp only [Option.bind_some]
      cases hr : readLeaseSet2 p with
      | none => rfl
      | some br => obtain ⟨b, r⟩ := br; rfl

/-- shape of a successful encryption -/
theorem encrypt_some {E : EncScheme} {l rp eph n blob : Bytes} (h : encryptLS2 E l rp eph n = some blob) :
    rp.length = 32 ∧ n.length = 12 ∧ ∃ s, E.dh eph rp = some s ∧
      blob = E.pub eph ++ n ++ (E.aeadSeal (E.derive s) n l).1 ++ (E.aeadSeal (E.derive s) n l).2 := by
  unfold encryptLS2 at h
  split at h
  · cases h
  · rename_i hrp
    cases hd : E.dh eph rp with
    | none => rw [hd] at h; cases h
    | some s =>
      rw [hd] at h
      simp only at h
      split at h
      · cases h
      · rename_i hn
        refine ⟨by omega, by omega, s, rfl, ?_⟩
        exact (Option.some.inj h).symm

theorem encrypt_of_dh {E : EncScheme} {l rp eph n s : Bytes} (hrp : rp.length = 32) (hn : n.length = 12)
    (hd : E.dh eph rp = some s) :
    encryptLS2 E l rp eph n =
      some (E.pub eph ++ n ++ (E.aeadSeal (E.derive s) n l).1 ++ (E.aeadSeal (E.derive s) n l).2) := by
  unfold encryptLS2
  rw [if_neg (by omega), hd]
  simp only
  rw [if_neg (by omega)]

/-- appending parts of equal lengths is injective -/
theorem parts_inj {e n c t e' n' c' t' : Bytes} (he : e.length = 32) (hn : n.length = 12) (ht : t.length = 16)
    (he' : e'.length = 32) (hn' : n'.length = 12) (ht' : t'.length = 16)
    (h : e ++ n ++ c ++ t = e' ++ n' ++ c' ++ t') : e = e' ∧ n = n' ∧ c = c' ∧ t = t' := by
  obtain ⟨a1, a2, a3, a4, _⟩ := blob_split e n c t he hn ht
  obtain ⟨b1, b2, b3, b4, _⟩ := blob_split e' n' c' t' he' hn' ht'
  rw [h] at a1 a2 a3 a4
  exact ⟨a1.symm.trans b1, a2.symm.trans b2, a3.symm.trans b3, a4.symm.trans b4⟩

/-! ### the UTC day -/

theorem utcDay_eq (s off : Int) : utcDay s off = formatDay ⟨s, 0⟩ := rfl

theorem formatDay_day_only (t u : GoInstant) (h : (t.unix + t.offset) / 86400 = (u.unix + u.offset) / 86400) :
    formatDay t = formatDay u := by
  unfold formatDay; rw [h]

/-! ### toy schemes (satisfiability of the hypothesis sets of `Props/C16.lean`) -/

/-- toy scheme for the laws used by `roundtrip`, `layout`, `eph_malleable` -/
def toyLaws : EncScheme where
  dh := fun _ _ => some []
  pub := fun _ => List.replicate 32 0
  derive := id
  aeadSeal := fun _ _ p => (p, List.replicate 16 0)
  aeadOpen := fun _ _ c _ => some c

/-- toy scheme for the idealisations used by `tamper_partial`: a commutative, injective "key agreement"
    (bytewise addition) and an AEAD that opens nothing but the one triple sealed in the session `(k0, n0, l0)` -/
def toyIdeal (k0 n0 l0 : Bytes) : EncScheme where
  dh := fun a b => some (List.zipWith (· + ·) a b)
  pub := id
  derive := id
  aeadSeal := fun _ _ p => (p, List.replicate 16 0)
  aeadOpen := fun k n c t => if k = k0 ∧ n = n0 ∧ c = l0 ∧ t = List.replicate 16 0 then some l0 else none

theorem zipAdd_inj : ∀ (a e e' : Bytes), e.length = a.length → e'.length = a.length →
    List.zipWith (· + ·) a e = List.zipWith (· + ·) a e' → e = e'
  | [], e, e', h, h', _ => by
    have : e = [] := List.length_eq_zero_iff.mp h
    have : e' = [] := List.length_eq_zero_iff.mp h'
    simp [*]
  | a :: as, [], _, h, _, _ => by simp at h
  | a :: as, _ :: _, [], _, h', _ => by simp at h'
  | a :: as, x :: xs, y :: ys, h, h', hz => by
    simp only [List.zipWith_cons_cons, List.cons.injEq] at hz
    have hx : x = y := (UInt8.add_right_inj a).mp hz.1
    have := zipAdd_inj as xs ys (by simpa using h) (by simpa using h') hz.2
    rw [hx, this]

end I2P.Crypto16
