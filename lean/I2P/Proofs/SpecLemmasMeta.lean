import I2P.Proofs.SpecLemmas
/-! Helper lemmas for C02, continued: the spec encodings of MetaLeaseSet and EncryptedLeaseSet
    (I2P/Spec/Structs.lean) are accepted by the code-mirroring readers `readMeta` and `readELS`
    (I2P/Structs.lean), which consume exactly the encoding and re-serialise to it. -/

namespace I2P.SpecLemmas
open I2P I2P.Spec I2P.Kac I2P.Structs I2P.Mapping

/-! ### size-table facts -/

/-- every known signing public key has at least 32 bytes -/
theorem sigPubSize_ge (t : Nat) (h : sigPubSize t ≠ 0) : 32 ≤ sigPubSize t := by
  unfold sigPubSize sigInfo at h; unfold sigPubSize sigInfo
  split at h <;> first | decide | (exfalso; simp at h)

/-- every known signature has at least 40 bytes -/
theorem sigLen_ge (t : Nat) (h : sigLen t ≠ 0) : 40 ≤ sigLen t := by
  unfold sigLen sigInfo at h; unfold sigLen sigInfo
  split at h <;> first | decide | (exfalso; simp at h)

/-! ### MetaLeaseSet -/

theorem entryType_cases (t : Nat) (h : entryTypeKnown t = true) : t = 1 ∨ t = 3 ∨ t = 5 := by
  simpa [entryTypeKnown, or_assoc] using h

theorem mapping_write_length_ge (m : SMapping) : 2 ≤ (mappingCodec.write m).length := by
  rw [mappingCodec_write, List.length_append, beEnc_length]; omega

/-- an entry followed by anything: the fixed 38-byte part, then the properties mapping -/
theorem metaEntry_split (e : SMetaEntry) (y : Bytes) :
    metaEntryCodec.write e ++ y =
      (e.hash ++ (beEnc 1 e.entryType ++ (beEnc 4 e.expires ++ beEnc 1 e.cost))) ++ (mappingCodec.write e.properties ++ y) := by
  rw [metaEntryCodec_write]; simp only [List.append_assoc]

theorem entries_readEntries (es : List SMetaEntry) (x acc : Bytes) (h : ∀ e ∈ es, e.wf)
    (hp : ∀ e ∈ es, MappingAccepted e.properties) :
    readEntries es.length (writeAll metaEntryCodec es ++ x) acc = some (acc ++ writeAll metaEntryCodec es, x) := by
  induction es generalizing acc with
  | nil => simp [readEntries_zero]
  | cons e t ih =>
    obtain ⟨hh, ⟨hty, htk⟩, hex, hco, hpw⟩ := h e (by simp)
    have hpa := hp e (by simp)
    have h38 : (e.hash ++ (beEnc 1 e.entryType ++ (beEnc 4 e.expires ++ beEnc 1 e.cost))).length = 38 := by
      simp only [List.length_append, beEnc_length, hh]
    have hW : writeAll metaEntryCodec (e :: t) ++ x =
        (e.hash ++ (beEnc 1 e.entryType ++ (beEnc 4 e.expires ++ beEnc 1 e.cost))) ++
          (mappingCodec.write e.properties ++ (writeAll metaEntryCodec t ++ x)) := by
      rw [writeAll_cons, List.append_assoc, metaEntry_split]
    have hty1 : ((writeAll metaEntryCodec (e :: t) ++ x).drop 32).take 1 = beEnc 1 e.entryType := by
      rw [hW]
      simp only [List.append_assoc]
      rw [List.drop_left' hh, List.take_left' (beEnc_length _ _)]
    rw [List.length_cons, readEntries_succ_some]
    refine ⟨?_, ?_, mappingCodec.write e.properties, writeAll metaEntryCodec t ++ x, ?_, ?_⟩
    · rw [hW, List.length_append, h38, List.length_append]
      have := mapping_write_length_ge e.properties
      omega
    · unfold entryTypeOk
      rw [hty1]
      rcases entryType_cases _ htk with h1 | h1 | h1 <;> rw [h1] <;> decide
    · rw [hW, List.drop_left' h38]
      exact mapping_readOptions e.properties _ true hpw hpa
    · rw [hW, List.take_left' h38, ih _ (fun q hq => h q (List.mem_cons_of_mem _ hq))
        (fun q hq => hp q (List.mem_cons_of_mem _ hq)), writeAll_cons, metaEntryCodec_write]
      simp only [List.append_assoc]

/-- restrictions of `ReadMetaLeaseSet` relative to the layout -/
structure MetaLeaseSetAccepted (v : SMetaLeaseSet) : Prop where
  /-- key types the library can construct, and the Destination key-type policy -/
  dest : DestSupported v.dest
  /-- options: no duplicate keys, at most 1000 pairs -/
  options : MappingAccepted v.options
  /-- every entry's properties mapping: no duplicate keys, at most 1000 pairs -/
  properties : ∀ e ∈ v.entries, MappingAccepted e.properties
  /-- `META_LEASESET_MIN_SIZE`: inputs shorter than 505 bytes are refused although shorter MetaLeaseSets
      exist — finding D31 -/
  minSize : 505 ≤ (metaLeaseSetCodec.write v).length

theorem metaLeaseSet_accepts (v : SMetaLeaseSet) (x : Bytes) (h : v.wf) (ha : MetaLeaseSetAccepted v) :
    readMeta (metaLeaseSetCodec.write v ++ x) = some (metaLeaseSetCodec.write v, x) := by
  obtain ⟨hd, hp, he, hf, hoff, hm, ⟨he1, he16, hew⟩, hsg⟩ := h
  rw [readMeta_some]
  refine ⟨by rw [List.length_append]; have := ha.minSize; omega, ?_⟩
  have hsig0 := finalSig_ne v.dest.sigType v.flags v.offline (sigPubSize_of_constructible ha.dest.1.1).1 hoff
  rw [metaLeaseSetCodec_write]
  simp only [List.append_assoc]
  refine ⟨_, _, _, by
    have := hdr_accepts v.dest v.published v.expires v.flags v.offline v.options
      (beEnc 1 v.entries.length ++ (writeAll metaEntryCodec v.entries ++ (v.signature ++ x)))
      hd ha.dest hp he hf hoff hm ha.options
    simpa only [List.append_assoc] using this, ?_⟩
  rw [beEnc_one _ (by omega)]
  refine ⟨UInt8.ofNat v.entries.length, writeAll metaEntryCodec v.entries ++ (v.signature ++ x),
    writeAll metaEntryCodec v.entries, v.signature ++ x, v.signature, rfl, ?_, ?_, ?_, ?_, ?_⟩
  · rw [ofNat_toNat _ (by omega)]; exact he1
  · rw [ofNat_toNat _ (by omega)]; exact he16
  · rw [ofNat_toNat _ (by omega)]
    have := entries_readEntries v.entries (v.signature ++ x) [] hew ha.properties
    simpa only [List.nil_append] using this
  · exact sig_accepts _ _ _ hsg hsig0
  · simp only [List.append_assoc, List.cons_append]

/-! ### EncryptedLeaseSet -/

/-- the first two stages of `ReadEncryptedLeaseSet`: signing type and blinded key -/
theorem els_frame (st : Nat) (bk R b rem : Bytes) (hst : st < 256 ^ 2) (hks : sigPubSize st ≠ 0)
    (hbk : bk.length = sigPubSize st) (h109 : 109 ≤ 2 + bk.length + R.length)
    (ht : ElsTail (beEnc 2 st ++ bk) st R b rem) :
    readELS (beEnc 2 st ++ (bk ++ R)) = some (b, rem) := by
  have t2 : (beEnc 2 st ++ (bk ++ R)).take 2 = beEnc 2 st := List.take_left' (beEnc_length _ _)
  have d2 : (beEnc 2 st ++ (bk ++ R)).drop 2 = bk ++ R := List.drop_left' (beEnc_length _ _)
  have d2k : (beEnc 2 st ++ (bk ++ R)).drop (2 + sigPubSize st) = R := by
    rw [← List.drop_drop, d2, List.drop_left' hbk]
  rw [readELS_some, t2, beVal_beEnc 2 st hst, d2, d2k, List.take_left' hbk]
  refine ⟨?_, hks, ?_, ht⟩
  · simp only [List.length_append, beEnc_length]; omega
  · simp only [List.length_append, beEnc_length]; omega

/-- restrictions of `ReadEncryptedLeaseSet` relative to the layout -/
structure EncryptedLeaseSetAccepted (v : SEncryptedLeaseSet) : Prop where
  /-- reserved flag bits 15..2 must be zero (the reader runs `Validate`) -/
  flags : v.flags < 4
  /-- an expires offset of zero is refused -/
  expires : v.expires ≠ 0
  /-- fewer than 61 bytes of inner data are refused -/
  inner : 61 ≤ v.inner.length

theorem encryptedLeaseSet_accepts (v : SEncryptedLeaseSet) (x : Bytes) (h : v.wf) (ha : EncryptedLeaseSetAccepted v) :
    readELS (encryptedLeaseSetCodec.write v ++ x) = some (encryptedLeaseSetCodec.write v, x) := by
  obtain ⟨⟨hst, hks⟩, hbk, hp, he, hf, hoff, hin, hsg⟩ := h
  have hoff' : OfflineOk v.flags v.sigType v.offline := hoff
  have hsig0 := finalSig_ne v.sigType v.flags v.offline (by omega) hoff'
  have hk32 := sigPubSize_ge v.sigType hks
  have hs40 := sigLen_ge _ hsig0
  have h8 : (beEnc 4 v.published ++ (beEnc 2 v.expires ++ beEnc 2 v.flags)).length = 8 := by
    simp only [List.length_append, beEnc_length]
  have hW : encryptedLeaseSetCodec.write v ++ x =
      beEnc 2 v.sigType ++ (v.blindedKey ++ ((beEnc 4 v.published ++ (beEnc 2 v.expires ++ beEnc 2 v.flags)) ++
        (offlineBytes v.sigType v.offline ++ (beEnc 2 v.inner.length ++ (v.inner ++ (v.signature ++ x)))))) := by
    rw [encryptedLeaseSetCodec_write]; simp only [List.append_assoc]
  rw [hW]
  apply els_frame v.sigType v.blindedKey _ _ _ hst hks hbk
  · have := ha.inner
    simp only [List.length_append, beEnc_length]; omega
  -- the windows of the header
  have e6 : (((beEnc 4 v.published ++ (beEnc 2 v.expires ++ beEnc 2 v.flags)) ++
        (offlineBytes v.sigType v.offline ++ (beEnc 2 v.inner.length ++ (v.inner ++ (v.signature ++ x))))).drop 6).take 2
      = beEnc 2 v.flags := by
    rw [show (beEnc 4 v.published ++ (beEnc 2 v.expires ++ beEnc 2 v.flags)) ++
          (offlineBytes v.sigType v.offline ++ (beEnc 2 v.inner.length ++ (v.inner ++ (v.signature ++ x))))
        = (beEnc 4 v.published ++ beEnc 2 v.expires) ++ (beEnc 2 v.flags ++
          (offlineBytes v.sigType v.offline ++ (beEnc 2 v.inner.length ++ (v.inner ++ (v.signature ++ x))))) by
          simp only [List.append_assoc]]
    rw [List.drop_left' (by simp only [List.length_append, beEnc_length]), List.take_left' (beEnc_length _ _)]
  have e4 : (((beEnc 4 v.published ++ (beEnc 2 v.expires ++ beEnc 2 v.flags)) ++
        (offlineBytes v.sigType v.offline ++ (beEnc 2 v.inner.length ++ (v.inner ++ (v.signature ++ x))))).drop 4).take 2
      = beEnc 2 v.expires := by
    simp only [List.append_assoc]
    rw [List.drop_left' (beEnc_length _ _), List.take_left' (beEnc_length _ _)]
  have tl : (beEnc 2 v.inner.length ++ (v.inner ++ (v.signature ++ x))).take 2 = beEnc 2 v.inner.length :=
    List.take_left' (beEnc_length _ _)
  have dl : (beEnc 2 v.inner.length ++ (v.inner ++ (v.signature ++ x))).drop 2 = v.inner ++ (v.signature ++ x) :=
    List.drop_left' (beEnc_length _ _)
  have dl2 : (beEnc 2 v.inner.length ++ (v.inner ++ (v.signature ++ x))).drop (2 + v.inner.length) = v.signature ++ x := by
    rw [← List.drop_drop, dl, List.drop_left' rfl]
  have hfl := ha.flags
  refine ⟨by rw [List.length_append, h8]; omega, ?_, ?_, offlineBytes v.sigType v.offline,
    beEnc 2 v.inner.length ++ (v.inner ++ (v.signature ++ x)), finalSigType v.sigType v.offline, v.signature,
    ?_, ?_, ?_, ?_, ?_, ?_⟩
  · rw [e6, beVal_beEnc 2 _ hf]; omega
  · rw [e4, beVal_beEnc 2 _ he]; exact ha.expires
  · rw [e6, beVal_beEnc 2 _ hf, List.drop_left' h8]
    exact offline_offStage v.flags v.sigType v.offline _ hoff'
  · simp only [List.length_append, beEnc_length]; omega
  · rw [tl, beVal_beEnc 2 _ hin]; exact ha.inner
  · rw [tl, beVal_beEnc 2 _ hin]; simp only [List.length_append, beEnc_length]; omega
  · rw [tl, beVal_beEnc 2 _ hin, dl2]
    exact sig_accepts _ _ _ hsg hsig0
  · rw [tl, dl, beVal_beEnc 2 _ hin, List.take_left' rfl, List.take_left' h8, encryptedLeaseSetCodec_write]
    simp only [List.append_assoc]

end I2P.SpecLemmas
