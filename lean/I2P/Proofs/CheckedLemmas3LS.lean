import I2P.Checked3LS
import I2P.Proofs.CheckedLemmas2
/-! Lemmas about the third part of the checked layer (`I2P/Checked3LS.lean`): `lease_set.ReadLeaseSet`
    and its helpers.  Same pattern as `CheckedLemmas.lean`: an `_eq`/`_spec` lemma per mirror (it never
    panics and returns what the pure model returns).  The property theorems are in `Props/C04c.lean`. -/

set_option linter.unusedSimpArgs false

namespace I2P.Checked
open I2P I2P.Spec I2P.Kac I2P.Structs

/-! ### what the destination reader guarantees about its result -/

/-- the facts about a parsed destination that the rest of `ReadLeaseSet` relies on -/
structure DestOK (k : KeysAndCert) : Prop where
  hk : k.kc.cert.kind.length = 1
  hl : k.kc.cert.len.length = 2
  hs : sigConstructible k.kc.spk = true
  hty : (k.kc.cert.type = 5 ∧ keyCertFromCert k.kc.cert = some k.kc) ∨ k.kc.cert.type = 0

theorem DestOK_of_readDestination {w : Bytes} {k : KeysAndCert} {r : Bytes}
    (h : readDestination w = some (k, r)) : DestOK k := by
  obtain ⟨_, hp, _, hs, _⟩ := readKac_struct (readDestination_sub h)
  obtain ⟨hk, hl, _⟩ := KcParse_types hp
  refine ⟨hk, hl, hs, ?_⟩
  rcases hp with ⟨t, hv, hn⟩ | ⟨t, c, hv, hn, hkc⟩
  · left
    obtain ⟨c, hc, h1, h2, hkc⟩ := newKeyCert_some.mp hn
    have e : k.kc.cert = c := by rw [hkc]; rfl
    rw [e]
    refine ⟨h1, ?_⟩
    rw [keyCertFromCert_eq', if_neg (by omega), if_neg (by omega), hkc]
  · right
    obtain ⟨_, hc, _, _⟩ := readCert_some.mp hn
    have e : k.kc.cert = c := by rw [hkc]
    rw [e, hc, hv]
    rfl

/-- a one-byte kind field is `[5]` iff the certificate type is 5 -/
theorem kind_eq_five {c : Cert} (hk : c.kind.length = 1) : (c.kind == [5]) = decide (c.type = 5) := by
  cases hc : c.kind with
  | nil => rw [hc] at hk; cases hk
  | cons b t =>
    cases t with
    | cons _ _ => rw [hc] at hk; simp at hk
    | nil =>
      simp only [Cert.type, hc, beVal_singleton]
      by_cases hb : b = 5
      · subst hb; rfl
      · have : ¬ b.toNat = 5 := fun e => hb (UInt8.toNat_inj.mp e)
        simp [hb, this]

/-- the certificate read at offset 384 and the certificate inside the destination cut out by its
    length have the same kind field -/
theorem dest_cert_kind {d : Bytes} {c : Cert} {rc : Bytes} {k : KeysAndCert} {r : Bytes}
    (hc : readCert (d.drop 384) = some (c, rc))
    (hd : readDestination (d.take (387 + c.declared)) = some (k, r)) : k.kc.cert.kind = c.kind := by
  obtain ⟨_, rfl, _, _⟩ := readCert_some.mp hc
  have hp := KcParse_readCert (readKac_struct (readDestination_sub hd)).2.1
  obtain ⟨_, e, _, _⟩ := readCert_some.mp hp
  rw [e]
  simp only [List.drop_take, List.take_take]
  rw [Nat.min_eq_left (by omega)]

/-! ### the pure model, cut at the point where the destination has been read -/

/-- the lines of the pure `readLeaseSet` up to and including `readDestination` -/
def lsHead (d : Bytes) : Option (Cert × KeysAndCert) :=
  if d.length < 387 then none else
  match readCert (d.drop 384) with
  | none => none
  | some (c, _) =>
    if d.length < 387 + c.declared then none else
    match readDestination (d.take (387 + c.declared)) with
    | none => none
    | some (k, _) => some (c, k)

theorem readLeaseSet_head (d : Bytes) : readLeaseSet d =
    match lsHead d with
    | none => none
    | some (c, k) =>
      match k.bytes with
      | none => none
      | some db => lsCont db (c.kind == [5]) k.kc.spk (d.drop (387 + c.declared)) := by
  rw [readLeaseSet_eq, lsHead]
  by_cases h : d.length < 387
  · simp only [h, if_true]
  · simp only [h, if_false]
    cases hc : readCert (d.drop 384) with
    | none => rfl
    | some p =>
      obtain ⟨c, rc⟩ := p
      simp only []
      by_cases h2 : d.length < 387 + c.declared
      · simp only [h2, if_true]
      · simp only [h2, if_false]
        cases hd : readDestination (d.take (387 + c.declared)) with
        | none => rfl
        | some q => rfl

/-! ### `ReadDestinationFromLeaseSet` -/

theorem lsParseCertificateFromLeaseSetC_spec (s : Sl) (h : 384 ≤ s.len) :
    lsParseCertificateFromLeaseSetC s 384 =
      .ok ((readCert (s.data.drop 384)).map (fun p => ((p.1.type : Int), (p.1.declared : Int)))) := by
  simp only [lsParseCertificateFromLeaseSetC]
  have e := sliceFrom_adv (s := s) (n := 384) h
  simp only [Int.cast_ofNat_Int] at e
  rw [e]
  simp only [bind_ok]
  obtain ⟨r, hr, hv⟩ := readCertS_spec (s.adv 384)
  rw [Sl.adv_data h] at hv
  rw [hr, ← hv]
  cases r with
  | none => rfl
  | some p =>
    obtain ⟨c, rem⟩ := p
    simp only [vRem_some] at hv
    obtain ⟨h3, hc, -, -⟩ := readCert_some.mp hv.symm
    simp only [List.length_drop, Sl.data_length] at h3
    have hk : c.kind.length = 1 := by rw [hc]; simp only [List.length_take, List.length_drop, Sl.data_length]; omega
    have hl : c.len.length = 2 := by rw [hc]; simp only [List.length_take, List.length_drop, Sl.data_length]; omega
    simp only [bind_ok, certTypeC_eq hk hl, certLengthFieldC_eq hk hl, pure_eq_ok, vRem_some, Option.map_some]

theorem readDestinationFromLeaseSetS_spec (s : Sl) :
    ∃ r, readDestinationFromLeaseSetS s = .ok r ∧
      match r with
      | none => lsHead s.data = none
      | some (dest, rem) => ∃ c k, lsHead s.data = some (c, k) ∧ dest = some k ∧ 387 + c.declared ≤ s.len ∧
          rem = s.adv (387 + c.declared) := by
  simp only [readDestinationFromLeaseSetS, lsValidateDestinationMinSizeC, Sl.ilen_eq, lsHead, Sl.data_length]
  by_cases h : s.len < 387
  · have : (s.len : Int) < 387 := by omega
    simp only [this, decide_true, Bool.not_true, Bool.not_false, if_true, h, pure_eq_ok]
    exact ⟨none, rfl, trivial⟩
  · have : ¬ (s.len : Int) < 387 := by omega
    simp only [this, decide_false, Bool.not_false, Bool.not_true, Bool.false_eq_true, if_false, h,
      lsParseCertificateFromLeaseSetC_spec s (by omega), bind_ok]
    cases hc : readCert (s.data.drop 384) with
    | none => exact ⟨none, rfl, rfl⟩
    | some p =>
      obtain ⟨c, rc⟩ := p
      simp only [Option.map_some, lsCalculateDestinationLengthC, lsValidateDestinationDataSizeC]
      by_cases h2 : s.len < 387 + c.declared
      · have : (s.len : Int) < 384 + (3 + (c.declared : Int)) := by omega
        simp only [this, decide_true, Bool.not_true, Bool.not_false, if_true, h2, pure_eq_ok]
        exact ⟨none, rfl, trivial⟩
      · have : ¬ (s.len : Int) < 384 + (3 + (c.declared : Int)) := by omega
        simp only [this, decide_false, Bool.not_false, Bool.not_true, Bool.false_eq_true, if_false, h2,
          lsExtractDestinationFromDataC]
        have e : (384 : Int) + (3 + (c.declared : Int)) = ((387 + c.declared : Nat) : Int) := by omega
        rw [e, sliceTo_eq (by omega) (by omega)]
        simp only [Int.toNat_natCast, bind_ok]
        obtain ⟨r, hr, hv⟩ := readDestinationS_spec (s.sub 0 (387 + c.declared))
        rw [Sl.sub_data_to (by omega)] at hv
        rw [hr, ← hv]
        cases r with
        | none => exact ⟨none, rfl, rfl⟩
        | some q =>
          obtain ⟨k, r0⟩ := q
          simp only [bind_ok, vRem_some, sliceFrom_adv (s := s) (n := 387 + c.declared) (by omega), pure_eq_ok]
          exact ⟨_, rfl, c, k, rfl, rfl, by omega, rfl⟩

/-! ### `KeyCertificateFromCertificate` and the constructors -/

theorem keyCertificateFromCertificateC_eq {c : Cert} (hk : c.kind.length = 1) (hl : c.len.length = 2) :
    keyCertificateFromCertificateC (some c) = .ok (keyCertFromCert c) := by
  simp only [keyCertificateFromCertificateC, validateKeyCertificateTypeC_eq hk hl, bind_ok, keyCertFromCert]
  by_cases ht : c.type = 5
  · simp only [ht, decide_true, Bool.not_true, Bool.false_eq_true, if_false, ne_eq, not_true_eq_false]
    obtain ⟨d, hd, hdd⟩ := certDataC_spec hk hl
    simp only [hd, bind_ok, validateKeyCertificateDataLengthC_eq]
    have hdl : d.len = c.data.length := by rw [← hdd]; simp
    by_cases h4 : 4 ≤ d.len
    · have h4' : ¬ c.data.length < 4 := by omega
      simp only [h4, decide_true, Bool.not_true, Bool.false_eq_true, if_false, h4', extractKeyTypesC_eq d h4, bind_ok,
        logExtractedKeyTypesC, buildKeyCertificateC, integerIntC'_some, pure_eq_ok, deref,
        sub_sub_data_a d h4, sub_sub_data_b d h4, hdd]
      rw [integerInt_short (by simp only [List.length_take]; omega) (by simp only [List.length_take]; omega),
        integerInt_short (by simp only [List.length_take, List.length_drop]; omega)
          (by simp only [List.length_take, List.length_drop]; omega)]
      simp only [Int.toNat_natCast]
    · have h4' : c.data.length < 4 := by omega
      simp only [h4, decide_false, Bool.not_false, if_true, h4', pure_eq_ok]
  · simp only [ht, decide_false, Bool.not_false, if_true, ne_eq, not_false_eq_true, pure_eq_ok]

theorem newElgPublicKeyC_eq (d : Sl) (h : d.len = 256) :
    newElgPublicKeyC d = .ok (if elgValid d.data then some d.data else none) := by
  have : (d.len : Int) = 256 := by omega
  simp only [newElgPublicKeyC, Sl.ilen_eq, ne_eq, this, not_true_eq_false, if_false]
  cases hv : elgValid d.data with
  | false => simp
  | true =>
    simp only [Bool.not_true, Bool.false_eq_true, if_false, if_true]
    rw [mk_eq (by omega)]
    simp only [bind_ok, pure_eq_ok, Int.reduceToNat]
    rw [copy_zeros_data (by omega), List.take_of_length_le (by simp; omega)]

theorem newDSAPublicKeyC_eq (d : Sl) (h : d.len = 128) :
    newDSAPublicKeyC d = .ok (if dsaValid d.data then some d.data else none) := by
  have : (d.len : Int) = 128 := by omega
  simp only [newDSAPublicKeyC, Sl.ilen_eq, ne_eq, this, not_true_eq_false, if_false]
  cases hv : dsaValid d.data with
  | false => simp
  | true =>
    simp only [Bool.not_true, Bool.false_eq_true, if_false, if_true]
    rw [mk_eq (by omega)]
    simp only [bind_ok, pure_eq_ok, Int.reduceToNat]
    rw [copy_zeros_data (by omega), List.take_of_length_le (by simp; omega)]

theorem newSignatureFromBytesC_eq (d : Sl) (t : Nat) (h0 : sigLen t ≠ 0) (h : d.len = sigLen t) :
    newSignatureFromBytesC d (t : Int) = .ok (some (d.data, (t : Int))) := by
  have : (d.len : Int) = (sigLen t : Int) := by omega
  simp only [newSignatureFromBytesC, getSignatureLengthC_of_sigLen h0, Sl.ilen_eq, ne_eq, this, not_true_eq_false,
    if_false]
  rw [mk_eq (by omega)]
  simp only [bind_ok, pure_eq_ok, Int.toNat_natCast]
  rw [copy_zeros_data (by omega), List.take_of_length_le (by simp; omega)]

/-! ### the stages after the destination -/

theorem lsParseEncryptionKeyC_eq (s : Sl) :
    lsParseEncryptionKeyC s = .ok (if s.len < 256 then none else
      if elgValid (s.data.take 256) then some (s.data.take 256, s.adv 256) else none) := by
  simp only [lsParseEncryptionKeyC, Sl.ilen_eq]
  by_cases h : s.len < 256
  · have : (s.len : Int) < 256 := by omega
    simp only [this, if_true, h, pure_eq_ok]
  · have : ¬ (s.len : Int) < 256 := by omega
    simp only [this, if_false, h]
    rw [sliceTo_eq (by omega) (by omega)]
    simp only [bind_ok, Int.reduceToNat]
    have hl : (s.sub 0 256).len = 256 := by rw [Sl.sub_len (by omega) (by omega)]
    rw [newElgPublicKeyC_eq _ hl, Sl.sub_data_to (by omega)]
    simp only [bind_ok]
    cases hv : elgValid (s.data.take 256) with
    | false => simp
    | true =>
      have e := sliceFrom_adv (s := s) (n := 256) (by omega)
      simp only [Int.cast_ofNat_Int] at e
      simp only [if_true, Option.isNone_some, Bool.false_eq_true, if_false, e, bind_ok, deref, pure_eq_ok]

/-- the signing-key size, signature size and signature type `ReadLeaseSet` derives from the destination's
    certificate -/
def lsKs (k : KeysAndCert) : Nat := if k.kc.cert.type = 5 then sigPubSize k.kc.spk else 128
def lsSs (k : KeysAndCert) : Nat := if k.kc.cert.type = 5 then sigLen k.kc.spk else 40
def lsSt (k : KeysAndCert) : Nat := if k.kc.cert.type = 5 then k.kc.spk else 0

theorem lsDetermineSigningKeySizeC_eq (k : KeysAndCert) (hk : DestOK k) :
    lsDetermineSigningKeySizeC (some k.kc.cert) (k.kc.cert.type : Int) = .ok (lsKs k : Int) := by
  rcases hk.hty with ⟨h5, hkc⟩ | h0
  · simp only [lsDetermineSigningKeySizeC, h5, Int.cast_ofNat_Int, if_true, keyCertificateFromCertificateC_eq hk.hk hk.hl,
      hkc, bind_ok, signingPublicKeySizeC, lsKs, pure_eq_ok]
  · have : ¬ ((k.kc.cert.type : Nat) : Int) = 5 := by omega
    have h5 : ¬ k.kc.cert.type = 5 := by omega
    simp only [lsDetermineSigningKeySizeC, this, if_false, lsKs, h5, pure_eq_ok, Int.cast_ofNat_Int]

theorem lsDetermineSignatureSizeC_eq (k : KeysAndCert) (hk : DestOK k) :
    lsDetermineSignatureSizeC (some k.kc.cert) (k.kc.cert.type : Int) = .ok (lsSs k : Int) := by
  rcases hk.hty with ⟨h5, hkc⟩ | h0
  · simp only [lsDetermineSignatureSizeC, h5, Int.cast_ofNat_Int, if_true, keyCertificateFromCertificateC_eq hk.hk hk.hl,
      hkc, bind_ok, signatureSizeC, lsSs, pure_eq_ok]
  · have : ¬ ((k.kc.cert.type : Nat) : Int) = 5 := by omega
    have h5 : ¬ k.kc.cert.type = 5 := by omega
    simp only [lsDetermineSignatureSizeC, this, if_false, lsSs, h5, pure_eq_ok, Int.cast_ofNat_Int]

theorem lsDetermineSignatureTypeC_eq (k : KeysAndCert) (hk : DestOK k) :
    lsDetermineSignatureTypeC (some k.kc.cert) (k.kc.cert.type : Int) = .ok (lsSt k : Int) := by
  rcases hk.hty with ⟨h5, hkc⟩ | h0
  · simp only [lsDetermineSignatureTypeC, h5, Int.cast_ofNat_Int, if_true, keyCertificateFromCertificateC_eq hk.hk hk.hl,
      hkc, bind_ok, signingPublicKeyTypeC, lsSt, pure_eq_ok]
  · have : ¬ ((k.kc.cert.type : Nat) : Int) = 5 := by omega
    have h5 : ¬ k.kc.cert.type = 5 := by omega
    simp only [lsDetermineSignatureTypeC, this, if_false, lsSt, h5, pure_eq_ok, Int.cast_ofNat_Int]

theorem lsConstructSigningKeyC_eq (D : Sl) (k : KeysAndCert) (hk : DestOK k) (hl : D.len = lsKs k) :
    lsConstructSigningKeyC D (some k.kc.cert) (k.kc.cert.type : Int) =
      .ok (if k.kc.cert.type = 5 ∨ dsaValid D.data = true then some D.data else none) := by
  rcases hk.hty with ⟨h5, hkc⟩ | h0
  · have hl' : D.len = sigPubSize k.kc.spk := by rw [hl, lsKs, if_pos h5]
    simp only [lsConstructSigningKeyC, h5, Int.cast_ofNat_Int, if_true, keyCertificateFromCertificateC_eq hk.hk hk.hl,
      hkc, bind_ok, constructSigningPublicKeyC, Sl.ilen_eq, hl', Int.lt_irrefl, if_false,
      selectSigningKeyConstructorC_eq _ _ hk.hs hl', true_or]
  · have : ¬ ((k.kc.cert.type : Nat) : Int) = 5 := by omega
    have h5 : ¬ k.kc.cert.type = 5 := by omega
    have hl' : D.len = 128 := by rw [hl, lsKs, if_neg h5]
    simp only [lsConstructSigningKeyC, this, if_false, newDSAPublicKeyC_eq D hl', h5, false_or]

theorem lsParseSigningKeyC_eq (s : Sl) (k : KeysAndCert) (hk : DestOK k) :
    lsParseSigningKeyC s (some k) = .ok (if s.len < lsKs k then none else
      if k.kc.cert.type = 5 ∨ dsaValid (s.data.take (lsKs k)) = true then some (s.data.take (lsKs k), s.adv (lsKs k))
      else none) := by
  simp only [lsParseSigningKeyC, destCertificateC, Option.map_some, certTypeP, certTypeC_eq hk.hk hk.hl, bind_ok,
    lsDetermineSigningKeySizeC_eq k hk, Sl.ilen_eq]
  by_cases h : s.len < lsKs k
  · have : (s.len : Int) < (lsKs k : Int) := by omega
    simp only [this, if_true, h, pure_eq_ok]
  · have : ¬ (s.len : Int) < (lsKs k : Int) := by omega
    simp only [this, if_false, h]
    rw [sliceTo_eq (by omega) (by omega)]
    simp only [bind_ok, Int.toNat_natCast]
    have hl : (s.sub 0 (lsKs k)).len = lsKs k := by rw [Sl.sub_len (by omega) (by omega)]; rfl
    rw [lsConstructSigningKeyC_eq _ k hk hl, Sl.sub_data_to (by omega)]
    simp only [bind_ok]
    by_cases hv : k.kc.cert.type = 5 ∨ dsaValid (s.data.take (lsKs k)) = true
    · simp only [hv, if_true, sliceFrom_adv (s := s) (n := lsKs k) (by omega), bind_ok, pure_eq_ok]
    · simp only [hv, if_false, pure_eq_ok]

/-! ### the lease loop -/

/-- the `f` consecutive 44-byte windows of `d`, starting with window number `i` -/
def chunks44 (d : Bytes) : Nat → Nat → List Bytes
  | _, 0 => []
  | i, f + 1 => (d.drop (i * 44)).take 44 :: chunks44 d (i + 1) f

theorem chunks44_length (d : Bytes) : ∀ (f i : Nat), (chunks44 d i f).length = f := by
  intro f
  induction f with
  | zero => intro i; rfl
  | succ f ih => intro i; simp only [chunks44, List.length_cons, ih]

theorem chunks44_flatten (d : Bytes) : ∀ (f i : Nat), (chunks44 d i f).flatten = (d.drop (i * 44)).take (f * 44) := by
  intro f
  induction f with
  | zero => intro i; simp [chunks44]
  | succ f ih =>
    intro i
    simp only [chunks44, List.flatten_cons, ih]
    rw [show (i + 1) * 44 = i * 44 + 44 by omega, ← List.drop_drop, take_split3,
      show (f + 1) * 44 = 44 + f * 44 by omega]

theorem chunks44_len44 (d : Bytes) : ∀ (f i : Nat), (i + f) * 44 ≤ d.length → ∀ x ∈ chunks44 d i f, x.length = 44 := by
  intro f
  induction f with
  | zero => intro i _ x hx; simp [chunks44] at hx
  | succ f ih =>
    intro i h x hx
    simp only [chunks44, List.mem_cons] at hx
    rcases hx with rfl | hx
    · rw [List.length_take, List.length_drop]; omega
    · exact ih (i + 1) (by omega) x hx

theorem lsExtractLeasesLoop_spec : ∀ (fuel i : Nat) (leases : List Bytes) (s : Sl), (i + fuel) * 44 ≤ s.len →
    lsExtractLeasesLoopC fuel (i : Int) ((i + fuel : Nat) : Int) leases s =
      .ok (leases ++ chunks44 s.data i fuel, fuel) := by
  intro fuel
  induction fuel with
  | zero => intro i leases s _; simp [lsExtractLeasesLoopC, chunks44]
  | succ fuel ih =>
    intro i leases s h
    simp only [lsExtractLeasesLoopC]
    have hc : ¬ ¬ ((i : Int) < ((i + (fuel + 1) : Nat) : Int)) := by omega
    simp only [hc, if_false]
    rw [mk_eq (by omega), slice_eq (by omega) (by omega) (by omega)]
    simp only [bind_ok, Int.reduceToNat]
    have e1 : ((i : Int) * 44).toNat = i * 44 := by omega
    have e2 : (((i : Int) + 1) * 44).toNat = i * 44 + 44 := by omega
    rw [e1, e2]
    have hl : (s.sub (i * 44) (i * 44 + 44)).len = 44 := by rw [Sl.sub_len (by omega) (by omega)]; omega
    rw [copy_zeros_data (by omega), Sl.sub_data (by omega) (by omega), List.take_take,
      show min 44 (i * 44 + 44 - i * 44) = 44 by omega]
    have := ih (i + 1) (leases ++ [List.take 44 (List.drop (i * 44) s.data)]) s (by omega)
    have e : (((i + 1 : Nat) : Int)) = (i : Int) + 1 := by omega
    have e3 : (i + 1 + fuel) = (i + (fuel + 1)) := by omega
    rw [e, e3] at this
    rw [this]
    simp only [bind_ok, pure_eq_ok, chunks44, List.append_assoc, List.singleton_append]

theorem slice_ok {s t : Sl} {lo hi : Int} (h : slice s lo hi = .ok t) :
    0 ≤ lo ∧ lo ≤ hi ∧ hi ≤ s.cap ∧ t.len = (hi - lo).toNat := by
  unfold slice at h
  split at h
  · rename_i hc
    cases h
    exact ⟨hc.1, hc.2.1, hc.2.2, rfl⟩
  · cases h

/-- legacy-LeaseSet lease loop, for arbitrary arguments: at most `fuel` iterations, never past `leaseCount`,
    every iteration reads the next 44-byte window (inside the capacity) and appends exactly one 44-byte lease -/
theorem lsExtractLeasesLoopC_bounds : ∀ (fuel : Nat) (i leaseCount : Int) (ls : List Bytes) (s : Sl) (ls' : List Bytes) (n : Nat),
    lsExtractLeasesLoopC fuel i leaseCount ls s = .ok (ls', n) →
      n ≤ fuel ∧ (n = 0 ∨ (0 ≤ i ∧ i + n ≤ leaseCount ∧ (i + n) * 44 ≤ s.cap)) ∧
        ∃ xs : List Bytes, ls' = ls ++ xs ∧ xs.length = n ∧ ∀ x ∈ xs, x.length = 44 := by
  intro fuel
  induction fuel with
  | zero =>
    intro i leaseCount ls s ls' n h
    simp only [lsExtractLeasesLoopC, pure_eq_ok, Except.ok.injEq, Prod.mk.injEq] at h
    obtain ⟨rfl, rfl⟩ := h
    exact ⟨by omega, Or.inl rfl, [], by simp, rfl, by simp⟩
  | succ fuel ih =>
    intro i leaseCount ls s ls' n h
    simp only [lsExtractLeasesLoopC] at h
    by_cases hc : i < leaseCount
    · simp only [hc, not_true_eq_false, if_false] at h
      rw [mk_eq (by omega)] at h
      simp only [bind_ok, Int.reduceToNat] at h
      cases hs : slice s (i * 44) ((i + 1) * 44) with
      | error e => simp [hs] at h
      | ok src =>
        obtain ⟨b0, b1, b2, b3⟩ := slice_ok hs
        simp only [hs, bind_ok] at h
        cases hq : lsExtractLeasesLoopC fuel (i + 1) leaseCount (ls ++ [(copy (Sl.zeros 44) src).data]) s with
        | error e => simp [hq] at h
        | ok r2 =>
          obtain ⟨l2, n2⟩ := r2
          simp only [hq, bind_ok, pure_eq_ok, Except.ok.injEq, Prod.mk.injEq] at h
          obtain ⟨rfl, rfl⟩ := h
          obtain ⟨c1, c2, xs, c3, c4, c5⟩ := ih _ _ _ _ _ _ hq
          refine ⟨by omega, Or.inr (by omega), (copy (Sl.zeros 44) src).data :: xs, ?_, by simp [c4], ?_⟩
          · rw [c3]; simp
          · intro x hx
            simp only [List.mem_cons] at hx
            rcases hx with rfl | hx
            · simp
            · exact c5 x hx
    · simp only [hc, not_false_eq_true, if_true, pure_eq_ok, Except.ok.injEq, Prod.mk.injEq] at h
      obtain ⟨rfl, rfl⟩ := h
      exact ⟨by omega, Or.inl rfl, [], by simp, rfl, by simp⟩

theorem lsParseLeasesC_spec (s : Sl) :
    lsParseLeasesC s = .ok (match s.data with
      | [] => none
      | n :: r => if n.toNat > 16 then none else if r.length < n.toNat * 44 then none else
          some ((n.toNat : Int), chunks44 r 0 n.toNat, (s.adv 1).adv (n.toNat * 44))) := by
  simp only [lsParseLeasesC, Sl.ilen_eq]
  cases hd : s.data with
  | nil =>
    have : s.len = 0 := by rw [← s.data_length, hd]; rfl
    have : (s.len : Int) < 1 := by omega
    simp only [this, if_true, pure_eq_ok]
  | cons nl t =>
    obtain ⟨h1, h2, h3, h4⟩ := head_of_data hd
    have hlt : t.length = (s.adv 1).len := by rw [← (s.adv 1).data_length, h3]
    have : ¬ (s.len : Int) < 1 := by omega
    simp only [this, if_false, h1, bind_ok]
    by_cases hn : nl.toNat > 16
    · have : ((nl.toNat : Nat) : Int) > 16 := by omega
      simp only [this, if_true, pure_eq_ok, hn]
    · have : ¬ (((nl.toNat : Nat) : Int) > 16) := by omega
      simp only [this, if_false, hn, h2, bind_ok]
      by_cases hs : t.length < nl.toNat * 44
      · have : ((s.adv 1).len : Int) < ((nl.toNat : Nat) : Int) * 44 := by omega
        simp only [this, if_true, pure_eq_ok, hs]
      · have : ¬ ((s.adv 1).len : Int) < ((nl.toNat : Nat) : Int) * 44 := by omega
        simp only [this, if_false, hs, lsExtractLeasesC, Int.toNat_natCast]
        have hl := lsExtractLeasesLoop_spec nl.toNat 0 [] (s.adv 1) (by omega)
        simp only [Nat.zero_add, Int.cast_ofNat_Int, List.nil_append, h3] at hl
        rw [hl]
        simp only [bind_ok]
        have e : ((nl.toNat : Nat) : Int) * 44 = ((nl.toNat * 44 : Nat) : Int) := by omega
        rw [e, sliceFrom_adv (by omega)]
        simp only [bind_ok, pure_eq_ok]

/-! ### the signature -/

theorem sigLen_ne_zero_of_constructible {t : Nat} (h : sigConstructible t = true) : sigLen t ≠ 0 := by
  rcases sigConstructible_cases h with rfl | rfl | rfl | rfl | rfl | rfl <;> decide

theorem lsSs_eq (k : KeysAndCert) (hk : DestOK k) : sigLen (lsSt k) = lsSs k ∧ lsSs k ≠ 0 := by
  unfold lsSt lsSs
  by_cases h5 : k.kc.cert.type = 5
  · rw [if_pos h5, if_pos h5]; exact ⟨rfl, sigLen_ne_zero_of_constructible hk.hs⟩
  · rw [if_neg h5, if_neg h5]; exact ⟨rfl, by decide⟩

theorem lsParseSignatureC_eq (s : Sl) (k : KeysAndCert) (hk : DestOK k) :
    lsParseSignatureC s (some k) = .ok (if s.len < lsSs k then none else
      some ((s.data.take (lsSs k), (lsSt k : Int)), s.adv (lsSs k))) := by
  obtain ⟨e1, e2⟩ := lsSs_eq k hk
  simp only [lsParseSignatureC, destCertificateC, Option.map_some, certTypeP, certTypeC_eq hk.hk hk.hl, bind_ok,
    lsDetermineSignatureSizeC_eq k hk, lsDetermineSignatureTypeC_eq k hk, Sl.ilen_eq]
  by_cases h : s.len < lsSs k
  · have : (s.len : Int) < (lsSs k : Int) := by omega
    simp only [this, if_true, h, pure_eq_ok]
  · have : ¬ (s.len : Int) < (lsSs k : Int) := by omega
    simp only [this, if_false, h, sliceFrom_adv (s := s) (n := lsSs k) (by omega), bind_ok]
    rw [sliceTo_eq (by omega) (by omega)]
    simp only [bind_ok, Int.toNat_natCast]
    have hl : (s.sub 0 (lsSs k)).len = sigLen (lsSt k) := by rw [Sl.sub_len (by omega) (by omega), e1]; rfl
    rw [newSignatureFromBytesC_eq _ _ (by rw [e1]; exact e2) hl, Sl.sub_data_to (by omega)]
    simp only [bind_ok, pure_eq_ok]

/-! ### `parseLeaseSetComponents` -/

/-- the pure tail `lsCont` with the sizes named as on the checked side -/
theorem lsCont_eq' (db : Bytes) (k : KeysAndCert) (r : Bytes) :
    lsCont db (decide (k.kc.cert.type = 5)) k.kc.spk r =
      if r.length < 256 then none else
      if elgValid (r.take 256) = true then
        if (r.drop 256).length < lsKs k then none else
        if k.kc.cert.type = 5 ∨ dsaValid ((r.drop 256).take (lsKs k)) = true then
          match (r.drop 256).drop (lsKs k) with
          | [] => none
          | n :: r2 =>
            if n.toNat > 16 then none else
            if r2.length < n.toNat * 44 then none else
            if (r2.drop (n.toNat * 44)).length < lsSs k then none else
            some (db ++ r.take 256 ++ (r.drop 256).take (lsKs k) ++ [n] ++ r2.take (n.toNat * 44) ++
                (r2.drop (n.toNat * 44)).take (lsSs k), (r2.drop (n.toNat * 44)).drop (lsSs k))
        else none
      else none := by
  unfold lsCont lsKs lsSs
  by_cases h1 : r.length < 256
  · rw [if_pos h1, if_pos h1]
  · rw [if_neg h1, if_neg h1]
    cases hv : elgValid (r.take 256) with
    | false => simp
    | true =>
      simp only [Bool.not_true, Bool.false_eq_true, if_false, if_true]
      by_cases h5 : k.kc.cert.type = 5
      · simp only [h5, decide_true, if_true, Bool.not_true, Bool.false_and, Bool.false_eq_true, if_false, true_or]
        rfl
      · simp only [h5, decide_false, Bool.false_eq_true, if_false, Bool.not_false, Bool.true_and, false_or]
        by_cases h2 : (r.drop 256).length < 128
        · rw [if_pos h2, if_pos h2]
        · rw [if_neg h2, if_neg h2]
          cases hd : dsaValid ((r.drop 256).take 128) with
          | false => simp
          | true =>
            simp only [Bool.not_true, Bool.false_eq_true, if_false, if_true]
            rfl

/-- the part of `parseLeaseSetComponents` after `ReadDestinationFromLeaseSet` -/
def lsAfterDest (dest : Dest) (remainder : Sl) : Go (Option (LS × Sl)) := do
  match ← lsParseEncryptionKeyC remainder with
  | none => return none
  | some (encryptionKey, remainder) =>
  match ← lsParseSigningKeyC remainder dest with
  | none => return none
  | some (signingKey, remainder) =>
  match ← lsParseLeasesC remainder with
  | none => return none
  | some (leaseCount, leases, remainder) =>
  match ← lsParseSignatureC remainder dest with
  | none => return none
  | some (signature, unread) =>
  return some (lsAssembleLeaseSetFromParsedDataC dest encryptionKey signingKey leaseCount leases signature, unread)

theorem lsParseLeaseSetComponentsC_split (data : Sl) :
    lsParseLeaseSetComponentsC data = (do
      match ← readDestinationFromLeaseSetS data with
      | none => return none
      | some (dest, remainder) => lsAfterDest dest remainder) := rfl

theorem beEnc_one_byte (n : UInt8) : beEnc 1 n.toNat = [n] := by
  have := beEnc_beVal [n]
  rwa [beVal_singleton] at this

/-- the view of a `ReadLeaseSet` result that is compared with the pure model: `Bytes()` of the parsed
    value and the unread bytes -/
def vLS (r : Option (LS × Sl)) : Option (Option Bytes × Bytes) := r.map fun p => (p.1.bytes, p.2.data)

/-- what the pure model says, in the same shape: `Bytes()` always succeeds on a parsed LeaseSet -/
def pLS (r : Option (Bytes × Bytes)) : Option (Option Bytes × Bytes) := r.map fun q => (some q.1, q.2)

theorem lsAfterDest_spec (k : KeysAndCert) (hk : DestOK k) (db : Bytes) (hdb : k.bytes = some db) (s : Sl) :
    ∃ r, lsAfterDest (some k) s = .ok r ∧
      vLS r = pLS (lsCont db (decide (k.kc.cert.type = 5)) k.kc.spk s.data) ∧
      ∀ l rem, r = some (l, rem) → l.dest = some k ∧ l.leases.length = l.leaseCount.toNat ∧ (0 ≤ l.leaseCount ∧ l.leaseCount ≤ 16) ∧
        (∀ x ∈ l.leases, x.length = 44) ∧ l.encryptionKey.length = 256 ∧ l.signingKey.length = lsKs k ∧
        l.signature.length = lsSs k ∧ l.signatureType = lsSt k ∧
        rem.len + lsSs k + 44 * l.leases.length + 1 + lsKs k + 256 = s.len := by
  rw [lsCont_eq' db k s.data]
  simp only [lsAfterDest, lsParseEncryptionKeyC_eq, Sl.data_length]
  by_cases h1 : s.len < 256
  · simp only [h1, if_true, bind_ok, pure_eq_ok]
    exact ⟨none, rfl, rfl, by intro l rem h; cases h⟩
  simp only [h1, if_false]
  cases hv : elgValid (s.data.take 256) with
  | false =>
    simp only [Bool.false_eq_true, if_false, bind_ok, pure_eq_ok]
    exact ⟨none, rfl, rfl, by intro l rem h; cases h⟩
  | true =>
  simp only [if_true, bind_ok, lsParseSigningKeyC_eq _ k hk]
  have l1 := Sl.adv_len (s := s) (n := 256) (by omega)
  have d1 := Sl.adv_data (s := s) (n := 256) (by omega)
  rw [l1, d1]
  simp only [List.length_drop, Sl.data_length]
  by_cases h2 : s.len - 256 < lsKs k
  · simp only [h2, if_true, bind_ok, pure_eq_ok]
    exact ⟨none, rfl, rfl, by intro l rem h; cases h⟩
  simp only [h2, if_false]
  by_cases h3 : k.kc.cert.type = 5 ∨ dsaValid ((s.data.drop 256).take (lsKs k)) = true
  case neg =>
    simp only [h3, if_false, bind_ok, pure_eq_ok]
    exact ⟨none, rfl, rfl, by intro l rem h; cases h⟩
  simp only [h3, if_true, bind_ok, lsParseLeasesC_spec]
  have l2 := Sl.adv_len (s := s.adv 256) (n := lsKs k) (by omega)
  have d2 := Sl.adv_data (s := s.adv 256) (n := lsKs k) (by omega)
  rw [l1] at l2
  rw [d1] at d2
  rw [d2]
  cases hd : (s.data.drop 256).drop (lsKs k) with
  | nil =>
    simp only [bind_ok, pure_eq_ok]
    exact ⟨none, rfl, rfl, by intro l rem h; cases h⟩
  | cons n r2 =>
  simp only []
  have hr2 : r2.length + 1 = s.len - 256 - lsKs k := by
    rw [← l2, ← ((s.adv 256).adv (lsKs k)).data_length, d2, hd]; rfl
  by_cases h4 : n.toNat > 16
  · simp only [h4, if_true, bind_ok, pure_eq_ok]
    exact ⟨none, rfl, rfl, by intro l rem h; cases h⟩
  simp only [h4, if_false]
  by_cases h5 : r2.length < n.toNat * 44
  · simp only [h5, if_true, bind_ok, pure_eq_ok]
    exact ⟨none, rfl, rfl, by intro l rem h; cases h⟩
  simp only [h5, if_false, bind_ok, lsParseSignatureC_eq _ k hk]
  have l3 := Sl.adv_len (s := (s.adv 256).adv (lsKs k)) (n := 1) (by omega)
  have d3 := Sl.adv_data (s := (s.adv 256).adv (lsKs k)) (n := 1) (by omega)
  rw [d2, hd] at d3
  simp only [List.drop_one, List.tail_cons] at d3
  have l4 := Sl.adv_len (s := ((s.adv 256).adv (lsKs k)).adv 1) (n := n.toNat * 44) (by omega)
  have d4 := Sl.adv_data (s := ((s.adv 256).adv (lsKs k)).adv 1) (n := n.toNat * 44) (by omega)
  rw [d3] at d4
  rw [l4, l3, l2]
  by_cases h6 : r2.length - n.toNat * 44 < lsSs k
  · have : s.len - 256 - lsKs k - 1 - n.toNat * 44 < lsSs k := by omega
    simp only [this, h6, if_true, bind_ok, pure_eq_ok]
    exact ⟨none, rfl, rfl, by intro l rem h; cases h⟩
  have h6' : ¬ s.len - 256 - lsKs k - 1 - n.toNat * 44 < lsSs k := by omega
  simp only [h6', h6, if_false, bind_ok, pure_eq_ok]
  have l5 := Sl.adv_len (s := (((s.adv 256).adv (lsKs k)).adv 1).adv (n.toNat * 44)) (n := lsSs k) (by omega)
  have d5 := Sl.adv_data (s := (((s.adv 256).adv (lsKs k)).adv 1).adv (n.toNat * 44)) (n := lsSs k) (by omega)
  refine ⟨_, rfl, ?_, ?_⟩
  · simp only [vLS, pLS, Option.map_some, LS.bytes, lsAssembleLeaseSetFromParsedDataC, Option.bind_some, hdb,
      Int.toNat_natCast, beEnc_one_byte, chunks44_flatten, Nat.zero_mul, List.drop_zero, d4, d5]
  · intro l rem h
    simp only [Option.some.injEq, Prod.mk.injEq] at h
    obtain ⟨rfl, rfl⟩ := h
    simp only [lsAssembleLeaseSetFromParsedDataC, Int.toNat_natCast, chunks44_length, List.length_take, List.length_drop,
      Sl.data_length]
    have l4' : ((((s.adv 256).adv (lsKs k)).adv 1).adv (n.toNat * 44)).len = r2.length - n.toNat * 44 := by omega
    exact ⟨trivial, trivial, ⟨by omega, by omega⟩, chunks44_len44 r2 _ 0 (by omega), by omega, by omega, by omega, trivial,
      by omega⟩

/-! ### `ReadLeaseSet` -/

theorem lsHead_some {d : Bytes} {c : Cert} {k : KeysAndCert} (h : lsHead d = some (c, k)) :
    387 ≤ d.length ∧ ∃ rc r0, readCert (d.drop 384) = some (c, rc) ∧ 387 + c.declared ≤ d.length ∧
      readDestination (d.take (387 + c.declared)) = some (k, r0) := by
  unfold lsHead at h
  split at h
  · cases h
  rename_i h387
  split at h
  · cases h
  rename_i c' rc hc
  split at h
  · cases h
  rename_i hl
  split at h
  · cases h
  rename_i k' r0 hd
  simp only [Option.some.injEq, Prod.mk.injEq] at h
  obtain ⟨rfl, rfl⟩ := h
  exact ⟨by omega, rc, r0, hc, by omega, hd⟩

/-- the facts about a successfully parsed LeaseSet that the loop-bound theorems use -/
def LsShape (s : Sl) (l : LS) (rem : Sl) : Prop :=
  ∃ k, l.dest = some k ∧ DestOK k ∧ l.leases.length = l.leaseCount.toNat ∧ (0 ≤ l.leaseCount ∧ l.leaseCount ≤ 16) ∧
    (∀ x ∈ l.leases, x.length = 44) ∧ l.encryptionKey.length = 256 ∧ l.signingKey.length = lsKs k ∧
    l.signature.length = lsSs k ∧ l.signatureType = lsSt k ∧
    ∃ destLen, 387 ≤ destLen ∧ rem.len + lsSs k + 44 * l.leases.length + 1 + lsKs k + 256 + destLen = s.len

/-- `ReadLeaseSet` on any slice: no panic; the parsed value re-serialises to the bytes the pure model
    returns, with the same unread remainder -/
theorem readLeaseSetS_spec (s : Sl) :
    ∃ r, readLeaseSetS s = .ok r ∧ vLS r = pLS (readLeaseSet s.data) ∧
      ∀ l rem, r = some (l, rem) → LsShape s l rem := by
  simp only [readLeaseSetS, lsValidateLeaseSetDataLengthC, Sl.ilen_eq]
  rw [readLeaseSet_head]
  by_cases h : s.len < 387
  · have : (s.len : Int) < 387 := by omega
    have hh : lsHead s.data = none := by simp [lsHead, h]
    simp only [this, decide_true, Bool.not_true, Bool.not_false, if_true, pure_eq_ok, hh]
    exact ⟨none, rfl, rfl, by intro l rem e; cases e⟩
  · have : ¬ (s.len : Int) < 387 := by omega
    simp only [this, decide_false, Bool.not_false, Bool.not_true, Bool.false_eq_true, if_false,
      lsParseLeaseSetComponentsC_split]
    obtain ⟨r, hr, hm⟩ := readDestinationFromLeaseSetS_spec s
    rw [hr]
    simp only [bind_ok]
    cases r with
    | none =>
      simp only [] at hm
      rw [hm]
      exact ⟨none, rfl, rfl, by intro l rem e; cases e⟩
    | some p =>
      obtain ⟨dest, rem0⟩ := p
      obtain ⟨c, k, hh, rfl, hlen, rfl⟩ := hm
      rw [hh]
      simp only []
      obtain ⟨_, rc, r0, hc, _, hd⟩ := lsHead_some hh
      have hk := DestOK_of_readDestination hd
      have hdb := (readKac_struct (readDestination_sub hd)).2.2.2.2.2.2.2
      have hkind : (c.kind == [5]) = decide (k.kc.cert.type = 5) := by
        rw [← dest_cert_kind hc hd, kind_eq_five hk.hk]
      rw [hdb, hkind]
      simp only []
      obtain ⟨r, hr2, hv, hs⟩ := lsAfterDest_spec k hk _ hdb (s.adv (387 + c.declared))
      have l0 := Sl.adv_len (s := s) (n := 387 + c.declared) hlen
      rw [Sl.adv_data hlen] at hv
      refine ⟨r, hr2, hv, ?_⟩
      intro l rem e
      obtain ⟨a1, a2, a3, a4, a5, a6, a7, a8, a9⟩ := hs l rem e
      exact ⟨k, a1, hk, a2, a3, a4, a5, a6, a7, a8, 387 + c.declared, by omega, by omega⟩

/-! ### the lease loop as `parseLeases` runs it -/

theorem chunks44_getElem? (d : Bytes) : ∀ (f i j : Nat), j < f →
    (chunks44 d i f)[j]? = some ((d.drop ((i + j) * 44)).take 44) := by
  intro f
  induction f with
  | zero => intro i j h; omega
  | succ f ih =>
    intro i j h
    cases j with
    | zero => simp [chunks44]
    | succ j =>
      simp only [chunks44, List.getElem?_cons_succ]
      rw [ih (i + 1) j (by omega), show i + 1 + j = i + (j + 1) by omega]

/-- what a successful `parseLeases` has done: the count byte `nl ≤ 16` was read, the loop body ran exactly
    `nl` times, lease `j` is the 44-byte window at offset `1 + 44·j`, and `1 + 44·nl` bytes were consumed -/
theorem lsParseLeasesC_some {s : Sl} {count : Int} {leases : List Bytes} {rem : Sl}
    (h : lsParseLeasesC s = .ok (some (count, leases, rem))) :
    ∃ nl : UInt8, s.data.head? = some nl ∧ count = nl.toNat ∧ leases.length = nl.toNat ∧ nl.toNat ≤ 16 ∧
      rem.len + 1 + 44 * nl.toNat = s.len ∧ rem.data = s.data.drop (1 + 44 * nl.toNat) ∧
      (∀ j, j < nl.toNat → leases[j]? = some ((s.data.drop (1 + 44 * j)).take 44)) ∧
      lsExtractLeasesC (s.adv 1) count = .ok (leases, nl.toNat) := by
  rw [lsParseLeasesC_spec] at h
  cases hd : s.data with
  | nil => rw [hd] at h; cases h
  | cons nl t =>
    rw [hd] at h
    simp only [] at h
    obtain ⟨-, -, h3, h4⟩ := head_of_data hd
    have hlt : t.length = (s.adv 1).len := by rw [← (s.adv 1).data_length, h3]
    by_cases hn : nl.toNat > 16
    · rw [if_pos hn] at h; cases h
    rw [if_neg hn] at h
    by_cases hs : t.length < nl.toNat * 44
    · rw [if_pos hs] at h; cases h
    rw [if_neg hs] at h
    simp only [Except.ok.injEq, Option.some.injEq, Prod.mk.injEq] at h
    obtain ⟨rfl, rfl, rfl⟩ := h
    have l2 := Sl.adv_len (s := s.adv 1) (n := nl.toNat * 44) (by omega)
    have d2 := Sl.adv_data (s := s.adv 1) (n := nl.toNat * 44) (by omega)
    refine ⟨nl, rfl, rfl, chunks44_length _ _ _, by omega, by omega, ?_, ?_, ?_⟩
    · rw [d2, h3, show 1 + 44 * nl.toNat = 1 + (nl.toNat * 44) by omega, ← List.drop_drop]; rfl
    · intro j hj
      rw [chunks44_getElem? _ _ _ _ hj, show 1 + 44 * j = 1 + ((0 + j) * 44) by omega, ← List.drop_drop]; rfl
    · have hl := lsExtractLeasesLoop_spec nl.toNat 0 [] (s.adv 1) (by omega)
      simp only [Nat.zero_add, Int.cast_ofNat_Int, List.nil_append, h3] at hl
      simp only [lsExtractLeasesC, Int.toNat_natCast]
      exact hl

end I2P.Checked
