import I2P.Base
/-! Helper lemmas for C13 (base32/base64). Alphabet facts are closed by kernel `decide` over `Fin 32` /
`Fin 64`; the group arithmetic by `omega`. -/
namespace I2P.Base

/-! ### Alphabet facts -/

theorem alpha32_length : alpha32.length = 32 := rfl
theorem alpha64_length : alpha64.length = 64 := rfl
theorem alpha32_nodup : alpha32.Nodup := by decide
theorem alpha64_nodup : alpha64.Nodup := by decide

theorem idx32_chr32_fin : ∀ i : Fin 32, idx32 (chr32 i.val) = some i.val := by decide
theorem idx64_chr64_fin : ∀ i : Fin 64, idx64 (chr64 i.val) = some i.val := by decide
theorem chr32_props_fin : ∀ i : Fin 32,
    chr32 i.val ∈ alpha32 ∧ chr32 i.val ≠ 61 ∧ chr32 i.val ≠ 255 ∧ chr32 i.val ≠ 10 ∧ chr32 i.val ≠ 13 := by decide
theorem chr64_props_fin : ∀ i : Fin 64,
    chr64 i.val ∈ alpha64 ∧ chr64 i.val ≠ 61 ∧ chr64 i.val ≠ 10 ∧ chr64 i.val ≠ 13 := by decide

theorem idx32_chr32 (i : Nat) (h : i < 32) : idx32 (chr32 i) = some i := idx32_chr32_fin ⟨i, h⟩
theorem idx64_chr64 (i : Nat) (h : i < 64) : idx64 (chr64 i) = some i := idx64_chr64_fin ⟨i, h⟩
theorem chr32_mem (i : Nat) (h : i < 32) : chr32 i ∈ alpha32 := (chr32_props_fin ⟨i, h⟩).1
theorem chr64_mem (i : Nat) (h : i < 64) : chr64 i ∈ alpha64 := (chr64_props_fin ⟨i, h⟩).1
theorem chr64_ne_pad (i : Nat) (h : i < 64) : chr64 i ≠ padChar := (chr64_props_fin ⟨i, h⟩).2.1

/-- no alphabet character is `=`, 0xFF, LF or CR -/
theorem alpha32_not_special : ∀ c ∈ alpha32, c ≠ 61 ∧ c ≠ 255 ∧ c ≠ 10 ∧ c ≠ 13 := by decide
theorem alpha64_not_special : ∀ c ∈ alpha64, c ≠ 61 ∧ c ≠ 10 ∧ c ≠ 13 := by decide

theorem idx_some_mem {alpha : List UInt8} {c : UInt8} {v : Nat} (h : idx alpha c = some v) : c ∈ alpha := by
  unfold idx at h
  split at h
  · assumption
  · cases h

theorem idx_none_of_not_mem {alpha : List UInt8} {c : UInt8} (h : c ∉ alpha) : idx alpha c = none := by
  unfold idx; rw [if_neg h]

theorem ofNat_toNat_eq (a : UInt8) (n : Nat) (h : n = a.toNat) : UInt8.ofNat n = a := by
  subst h; exact UInt8.ofNat_toNat

/-- text without CR/LF is left alone by `stripNL` -/
theorem stripNL_eq_self (s : Bytes) (h : ∀ c ∈ s, c ≠ 10 ∧ c ≠ 13) : stripNL s = s := by
  unfold stripNL
  rw [List.filter_eq_self]
  intro a ha
  have := h a ha
  simp [this.1, this.2]

theorem mem_stripNL {s : Bytes} {c : UInt8} : c ∈ stripNL s ↔ c ∈ s ∧ c ≠ 10 ∧ c ≠ 13 := by
  unfold stripNL
  simp [List.mem_filter]

/-! ### base32: output alphabet and length -/

theorem pads_chars (padded : Bool) (n : Nat) : ∀ c ∈ pads padded n, c ∈ alpha32 ∨ (padded = true ∧ c = padChar) := by
  intro c hc
  unfold pads at hc
  cases padded
  · simp at hc
  · simp only [if_true, List.mem_replicate] at hc
    exact Or.inr ⟨rfl, hc.2⟩

theorem enc32Core_chars (padded : Bool) : ∀ x : Bytes, ∀ c ∈ enc32Core padded x, c ∈ alpha32 ∨ (padded = true ∧ c = padChar)
  | [] => by simp [enc32Core]
  | [a] => by
    have ha := a.toNat_lt
    simp only [enc32Core, List.forall_mem_append, List.forall_mem_cons]
    refine ⟨⟨?_, ?_, by simp⟩, pads_chars padded 6⟩
    all_goals (left; apply chr32_mem; omega)
  | [a, b] => by
    have ha := a.toNat_lt; have hb := b.toNat_lt
    simp only [enc32Core, List.forall_mem_append, List.forall_mem_cons]
    refine ⟨⟨?_, ?_, ?_, ?_, by simp⟩, pads_chars padded 4⟩
    all_goals (left; apply chr32_mem; omega)
  | [a, b, c] => by
    have ha := a.toNat_lt; have hb := b.toNat_lt; have hc := c.toNat_lt
    simp only [enc32Core, List.forall_mem_append, List.forall_mem_cons]
    refine ⟨⟨?_, ?_, ?_, ?_, ?_, by simp⟩, pads_chars padded 3⟩
    all_goals (left; apply chr32_mem; omega)
  | [a, b, c, d] => by
    have ha := a.toNat_lt; have hb := b.toNat_lt; have hc := c.toNat_lt; have hd := d.toNat_lt
    simp only [enc32Core, List.forall_mem_append, List.forall_mem_cons]
    refine ⟨⟨?_, ?_, ?_, ?_, ?_, ?_, ?_, by simp⟩, pads_chars padded 1⟩
    all_goals (left; apply chr32_mem; omega)
  | a :: b :: c :: d :: e :: rest => by
    have ha := a.toNat_lt; have hb := b.toNat_lt; have hc := c.toNat_lt; have hd := d.toNat_lt; have he := e.toNat_lt
    simp only [enc32Core, List.forall_mem_cons]
    refine ⟨?_, ?_, ?_, ?_, ?_, ?_, ?_, ?_, enc32Core_chars padded rest⟩
    all_goals (left; apply chr32_mem; omega)

/-! ### base32: the decoder on encoder output -/

theorem chr32_ne_padByte (padded : Bool) (i : Nat) (h : i < 32) : (chr32 i == padByte padded) = false := by
  have := chr32_props_fin ⟨i, h⟩
  cases padded <;> simp [padByte, padChar, noPadByte, this.2.1, this.2.2.1]

/-- one alphabet character that does not complete the quantum -/
theorem dec32Loop_step (padded : Bool) (i : Nat) (h : i < 32) (rest : Bytes) (acc : List Nat)
    (hacc : acc.length + 1 ≠ 8) :
    dec32Loop padded (chr32 i :: rest) acc = dec32Loop padded rest (acc ++ [i]) := by
  have h7 : acc.length ≠ 7 := by omega
  rw [dec32Loop]
  simp [chr32_ne_padByte padded i h, idx32_chr32 i h, h7]

/-- the eighth alphabet character of a quantum -/
theorem dec32Loop_step8 (padded : Bool) (i : Nat) (h : i < 32) (rest : Bytes) (acc : List Nat)
    (hacc : acc.length + 1 = 8) :
    dec32Loop padded (chr32 i :: rest) acc = (dec32Loop padded rest []).map (pack32 (acc ++ [i]) ++ ·) := by
  have h7 : acc.length = 7 := by omega
  rw [dec32Loop]
  simp [chr32_ne_padByte padded i h, idx32_chr32 i h, h7]

/-- a correct run of `=` after 2, 4, 5 or 7 characters ends the padded decoding -/
theorem dec32Loop_pad (acc : List Nat) (k : Nat) (hk : k + acc.length = 8)
    (hj : acc.length = 2 ∨ acc.length = 4 ∨ acc.length = 5 ∨ acc.length = 7) :
    dec32Loop true (List.replicate k padChar) acc = some (pack32 acc) := by
  obtain ⟨k', rfl⟩ : ∃ k', k = k' + 1 := ⟨k - 1, by omega⟩
  have h1 : 7 - acc.length = k' := by omega
  rw [List.replicate_succ, dec32Loop]
  simp only [padByte, if_true, beq_self_eq_true, List.length_replicate, Bool.true_and, h1, List.take_replicate,
    Nat.min_self, List.all_replicate]
  rw [if_pos (by simp; omega), if_neg (by omega), if_neg (by simp), if_neg (by simp; omega)]

theorem dec32Loop_end_nopad (acc : List Nat) (h : acc ≠ []) : dec32Loop false [] acc = some (pack32 acc) := by
  rw [dec32Loop]
  cases acc with
  | nil => exact absurd rfl h
  | cons a t => simp

theorem pack32_1 (a : UInt8) : pack32 [a.toNat / 8, a.toNat % 8 * 4] = [a] := by
  have ha := a.toNat_lt
  simp only [pack32]
  rw [ofNat_toNat_eq a _ (by omega)]

theorem pack32_2 (a b : UInt8) :
    pack32 [a.toNat / 8, a.toNat % 8 * 4 + b.toNat / 64, b.toNat / 2 % 32, b.toNat % 2 * 16] = [a, b] := by
  have ha := a.toNat_lt; have hb := b.toNat_lt
  simp only [pack32]
  rw [ofNat_toNat_eq a _ (by omega), ofNat_toNat_eq b _ (by omega)]

theorem pack32_3 (a b c : UInt8) :
    pack32 [a.toNat / 8, a.toNat % 8 * 4 + b.toNat / 64, b.toNat / 2 % 32, b.toNat % 2 * 16 + c.toNat / 16,
      c.toNat % 16 * 2] = [a, b, c] := by
  have ha := a.toNat_lt; have hb := b.toNat_lt; have hc := c.toNat_lt
  simp only [pack32]
  rw [ofNat_toNat_eq a _ (by omega), ofNat_toNat_eq b _ (by omega), ofNat_toNat_eq c _ (by omega)]

theorem pack32_4 (a b c d : UInt8) :
    pack32 [a.toNat / 8, a.toNat % 8 * 4 + b.toNat / 64, b.toNat / 2 % 32, b.toNat % 2 * 16 + c.toNat / 16,
      c.toNat % 16 * 2 + d.toNat / 128, d.toNat / 4 % 32, d.toNat % 4 * 8] = [a, b, c, d] := by
  have ha := a.toNat_lt; have hb := b.toNat_lt; have hc := c.toNat_lt; have hd := d.toNat_lt
  simp only [pack32]
  rw [ofNat_toNat_eq a _ (by omega), ofNat_toNat_eq b _ (by omega), ofNat_toNat_eq c _ (by omega),
    ofNat_toNat_eq d _ (by omega)]

theorem pack32_5 (a b c d e : UInt8) :
    pack32 [a.toNat / 8, a.toNat % 8 * 4 + b.toNat / 64, b.toNat / 2 % 32, b.toNat % 2 * 16 + c.toNat / 16,
      c.toNat % 16 * 2 + d.toNat / 128, d.toNat / 4 % 32, d.toNat % 4 * 8 + e.toNat / 32, e.toNat % 32] = [a, b, c, d, e] := by
  have ha := a.toNat_lt; have hb := b.toNat_lt; have hc := c.toNat_lt; have hd := d.toNat_lt; have he := e.toNat_lt
  simp only [pack32]
  rw [ofNat_toNat_eq a _ (by omega), ofNat_toNat_eq b _ (by omega), ofNat_toNat_eq c _ (by omega),
    ofNat_toNat_eq d _ (by omega), ofNat_toNat_eq e _ (by omega)]

/-- the final group: after the digits the padded decoder sees the `=` run, the unpadded one the end -/
theorem dec32Loop_tail (padded : Bool) (acc : List Nat) (k : Nat) (hk : k + acc.length = 8)
    (hj : acc.length = 2 ∨ acc.length = 4 ∨ acc.length = 5 ∨ acc.length = 7) :
    dec32Loop padded (pads padded k) acc = some (pack32 acc) := by
  cases padded
  · rw [pads, if_neg (by simp), dec32Loop_end_nopad _ (by intro h; rw [h] at hj; simp at hj)]
  · rw [pads, if_pos rfl, dec32Loop_pad _ _ hk hj]

/-- characterisation of the decoder on encoder output (both encodings) -/
theorem dec32Loop_enc32Core (padded : Bool) : ∀ x : Bytes, dec32Loop padded (enc32Core padded x) [] = some x
  | [] => by simp [enc32Core, dec32Loop]
  | [a] => by
    have ha := a.toNat_lt
    simp only [enc32Core, List.cons_append, List.nil_append]
    rw [dec32Loop_step _ _ (by omega) _ _ (by simp), dec32Loop_step _ _ (by omega) _ _ (by simp),
      dec32Loop_tail _ _ _ (by simp) (by simp)]
    simp only [List.nil_append, List.cons_append]; rw [pack32_1]
  | [a, b] => by
    have ha := a.toNat_lt; have hb := b.toNat_lt
    simp only [enc32Core, List.cons_append, List.nil_append]
    rw [dec32Loop_step _ _ (by omega) _ _ (by simp), dec32Loop_step _ _ (by omega) _ _ (by simp),
      dec32Loop_step _ _ (by omega) _ _ (by simp), dec32Loop_step _ _ (by omega) _ _ (by simp),
      dec32Loop_tail _ _ _ (by simp) (by simp)]
    simp only [List.nil_append, List.cons_append]; rw [pack32_2]
  | [a, b, c] => by
    have ha := a.toNat_lt; have hb := b.toNat_lt; have hc := c.toNat_lt
    simp only [enc32Core, List.cons_append, List.nil_append]
    rw [dec32Loop_step _ _ (by omega) _ _ (by simp), dec32Loop_step _ _ (by omega) _ _ (by simp),
      dec32Loop_step _ _ (by omega) _ _ (by simp), dec32Loop_step _ _ (by omega) _ _ (by simp),
      dec32Loop_step _ _ (by omega) _ _ (by simp), dec32Loop_tail _ _ _ (by simp) (by simp)]
    simp only [List.nil_append, List.cons_append]; rw [pack32_3]
  | [a, b, c, d] => by
    have ha := a.toNat_lt; have hb := b.toNat_lt; have hc := c.toNat_lt; have hd := d.toNat_lt
    simp only [enc32Core, List.cons_append, List.nil_append]
    rw [dec32Loop_step _ _ (by omega) _ _ (by simp), dec32Loop_step _ _ (by omega) _ _ (by simp),
      dec32Loop_step _ _ (by omega) _ _ (by simp), dec32Loop_step _ _ (by omega) _ _ (by simp),
      dec32Loop_step _ _ (by omega) _ _ (by simp), dec32Loop_step _ _ (by omega) _ _ (by simp),
      dec32Loop_step _ _ (by omega) _ _ (by simp), dec32Loop_tail _ _ _ (by simp) (by simp)]
    simp only [List.nil_append, List.cons_append]; rw [pack32_4]
  | a :: b :: c :: d :: e :: rest => by
    have ha := a.toNat_lt; have hb := b.toNat_lt; have hc := c.toNat_lt; have hd := d.toNat_lt; have he := e.toNat_lt
    simp only [enc32Core]
    rw [dec32Loop_step _ _ (by omega) _ _ (by simp), dec32Loop_step _ _ (by omega) _ _ (by simp),
      dec32Loop_step _ _ (by omega) _ _ (by simp), dec32Loop_step _ _ (by omega) _ _ (by simp),
      dec32Loop_step _ _ (by omega) _ _ (by simp), dec32Loop_step _ _ (by omega) _ _ (by simp),
      dec32Loop_step _ _ (by omega) _ _ (by simp), dec32Loop_step8 _ _ (by omega) _ _ (by simp),
      dec32Loop_enc32Core padded rest]
    simp only [List.nil_append, List.cons_append, Option.map_some]; rw [pack32_5]
    rfl

/-- encoder output contains no CR/LF, so `stripNewlines` leaves it alone -/
theorem stripNL_enc32Core (padded : Bool) (x : Bytes) : stripNL (enc32Core padded x) = enc32Core padded x := by
  apply stripNL_eq_self
  intro c hc
  rcases enc32Core_chars padded x c hc with h | ⟨_, rfl⟩
  · have := alpha32_not_special c h; exact ⟨this.2.2.1, this.2.2.2⟩
  · decide

theorem enc32Core_length (padded : Bool) : ∀ x : Bytes,
    (enc32Core padded x).length = if padded then (x.length + 4) / 5 * 8 else (x.length * 8 + 4) / 5
  | [] => by cases padded <;> simp [enc32Core]
  | [a] => by cases padded <;> simp [enc32Core, pads]
  | [a, b] => by cases padded <;> simp [enc32Core, pads]
  | [a, b, c] => by cases padded <;> simp [enc32Core, pads]
  | [a, b, c, d] => by cases padded <;> simp [enc32Core, pads]
  | a :: b :: c :: d :: e :: rest => by
    have ih := enc32Core_length padded rest
    cases padded <;> simp [enc32Core] at ih ⊢ <;> omega

/-! ### base64 -/

theorem enc64_chars : ∀ x : Bytes, ∀ c ∈ enc64 x, c ∈ alpha64 ∨ c = padChar
  | [] => by simp [enc64]
  | [a] => by
    have ha := a.toNat_lt
    intro c hc
    simp only [enc64, List.mem_cons, List.not_mem_nil, or_false] at hc
    rcases hc with rfl | rfl | rfl | rfl
    all_goals first | (right; rfl) | (left; apply chr64_mem; omega)
  | [a, b] => by
    have ha := a.toNat_lt; have hb := b.toNat_lt
    intro c hc
    simp only [enc64, List.mem_cons, List.not_mem_nil, or_false] at hc
    rcases hc with rfl | rfl | rfl | rfl
    all_goals first | (right; rfl) | (left; apply chr64_mem; omega)
  | a :: b :: c' :: rest => by
    have ha := a.toNat_lt; have hb := b.toNat_lt; have hc' := c'.toNat_lt
    intro c hc
    simp only [enc64, List.mem_cons] at hc
    rcases hc with rfl | rfl | rfl | rfl | h
    all_goals first | exact enc64_chars rest c h | (left; apply chr64_mem; omega)

theorem stripNL_enc64 (x : Bytes) : stripNL (enc64 x) = enc64 x := by
  apply stripNL_eq_self
  intro c hc
  rcases enc64_chars x c hc with h | rfl
  · exact (alpha64_not_special c h).2
  · decide

theorem enc64_length : ∀ x : Bytes, (enc64 x).length = encodedLen64 x.length
  | [] => by simp [enc64, encodedLen64]
  | [a] => by simp [enc64, encodedLen64]
  | [a, b] => by simp [enc64, encodedLen64]
  | a :: b :: c :: rest => by
    have ih := enc64_length rest
    simp [enc64, encodedLen64] at ih ⊢; omega

theorem chr64_beq_pad (i : Nat) (h : i < 64) : (chr64 i == padChar) = false := by
  simp [chr64_ne_pad i h]

theorem dec64Core_enc64 : ∀ x : Bytes, dec64Core (enc64 x) = some x
  | [] => by simp [enc64, dec64Core]
  | [a] => by
    have ha := a.toNat_lt
    simp only [enc64, dec64Core, List.isEmpty_nil, beq_self_eq_true, Bool.and_self, if_true,
      idx64_chr64 _ (show a.toNat / 4 < 64 by omega), idx64_chr64 _ (show a.toNat % 4 * 16 < 64 by omega)]
    rw [ofNat_toNat_eq a _ (by omega)]
  | [a, b] => by
    have ha := a.toNat_lt; have hb := b.toNat_lt
    simp only [enc64, dec64Core, List.isEmpty_nil, beq_self_eq_true, Bool.and_self, if_true,
      chr64_beq_pad _ (show b.toNat % 16 * 4 < 64 by omega), Bool.false_eq_true, if_false,
      idx64_chr64 _ (show a.toNat / 4 < 64 by omega), idx64_chr64 _ (show a.toNat % 4 * 16 + b.toNat / 16 < 64 by omega),
      idx64_chr64 _ (show b.toNat % 16 * 4 < 64 by omega)]
    rw [ofNat_toNat_eq a _ (by omega), ofNat_toNat_eq b _ (by omega)]
  | a :: b :: c :: rest => by
    have ha := a.toNat_lt; have hb := b.toNat_lt; have hc := c.toNat_lt
    simp only [enc64, dec64Core, chr64_beq_pad _ (show c.toNat % 64 < 64 by omega), Bool.and_false, Bool.false_eq_true, if_false,
      idx64_chr64 _ (show a.toNat / 4 < 64 by omega), idx64_chr64 _ (show a.toNat % 4 * 16 + b.toNat / 16 < 64 by omega),
      idx64_chr64 _ (show b.toNat % 16 * 4 + c.toNat / 64 < 64 by omega), idx64_chr64 _ (show c.toNat % 64 < 64 by omega),
      dec64Core_enc64 rest]
    rw [ofNat_toNat_eq a _ (by omega), ofNat_toNat_eq b _ (by omega), ofNat_toNat_eq c _ (by omega)]

/-- whatever the base64 decoder accepts consists of alphabet characters and `=` -/
theorem dec64Core_chars : ∀ (t r : Bytes), dec64Core t = some r → ∀ c ∈ t, c ∈ alpha64 ∨ c = padChar
  | [], _, _ => by simp
  | [_], _, h => by simp [dec64Core] at h
  | [_, _], _, h => by simp [dec64Core] at h
  | [_, _, _], _, h => by simp [dec64Core] at h
  | x :: y :: z :: w :: rest, r, h => by
    rw [dec64Core] at h
    simp only [List.forall_mem_cons]
    split at h
    · rename_i hc
      simp only [Bool.and_eq_true, List.isEmpty_iff, beq_iff_eq] at hc
      obtain ⟨rfl, rfl⟩ := hc
      split at h
      · rename_i hz
        simp only [beq_iff_eq] at hz; subst hz
        split at h
        · rename_i hx hy
          exact ⟨Or.inl (idx_some_mem hx), Or.inl (idx_some_mem hy), Or.inr rfl, Or.inr rfl, by simp⟩
        · cases h
      · split at h
        · rename_i hx hy hz
          exact ⟨Or.inl (idx_some_mem hx), Or.inl (idx_some_mem hy), Or.inl (idx_some_mem hz), Or.inr rfl, by simp⟩
        · cases h
    · split at h
      · rename_i hx hy hz hw hr
        exact ⟨Or.inl (idx_some_mem hx), Or.inl (idx_some_mem hy), Or.inl (idx_some_mem hz), Or.inl (idx_some_mem hw),
          dec64Core_chars rest _ hr⟩
      · cases h

/-! ### base32: rejection of foreign characters that are not shadowed by padding -/

/-- a byte that is neither the padding byte nor in the alphabet, reached before any padding byte,
    makes `decode` fail whatever follows -/
theorem dec32Loop_reject (padded : Bool) (c : UInt8) (q : Bytes) (hc : c ≠ padByte padded) (hi : idx32 c = none) :
    ∀ (p : Bytes) (acc : List Nat), (∀ x ∈ p, x ≠ padByte padded) → dec32Loop padded (p ++ c :: q) acc = none
  | [], acc, _ => by
    rw [List.nil_append, dec32Loop]
    simp [hc, hi]
  | x :: p, acc, hp => by
    have hx : (x == padByte padded) = false := by simpa using hp x (by simp)
    have hp' : ∀ y ∈ p, y ≠ padByte padded := fun y hy => hp y (by simp [hy])
    rw [List.cons_append, dec32Loop]
    simp only [hx, Bool.false_and, Bool.false_eq_true, if_false]
    split
    · rfl
    · split
      · rw [dec32Loop_reject padded c q hc hi p [] hp']; rfl
      · exact dec32Loop_reject padded c q hc hi p _ hp'

theorem stripNL_append_cons (p q : Bytes) (c : UInt8) (h10 : c ≠ 10) (h13 : c ≠ 13) :
    stripNL (p ++ c :: q) = stripNL p ++ c :: stripNL q := by
  unfold stripNL
  rw [List.filter_append, List.filter_cons]
  simp [h10, h13]

/-! ### The post-fix validator -/

/-- number of `=` the padded encoder appends -/
def padLen32 (n : Nat) : Nat := match n % 5 with | 1 => 6 | 2 => 4 | 3 => 3 | 4 => 1 | _ => 0

theorem enc32_eq_nopad_append : ∀ x : Bytes,
    enc32Core true x = enc32Core false x ++ List.replicate (padLen32 x.length) padChar
  | [] => by simp [enc32Core, padLen32]
  | [a] => by simp [enc32Core, padLen32, pads]
  | [a, b] => by simp [enc32Core, padLen32, pads]
  | [a, b, c] => by simp [enc32Core, padLen32, pads]
  | [a, b, c, d] => by simp [enc32Core, padLen32, pads]
  | a :: b :: c :: d :: e :: rest => by
    have ih := enc32_eq_nopad_append rest
    have : padLen32 (rest.length + 1 + 1 + 1 + 1 + 1) = padLen32 rest.length := by
      unfold padLen32
      have : (rest.length + 1 + 1 + 1 + 1 + 1) % 5 = rest.length % 5 := by omega
      rw [this]
    simp only [enc32Core, List.length_cons, this, ih, List.cons_append]

theorem padLen32_lt (n : Nat) : padLen32 n < 8 := by
  unfold padLen32; split <;> omega

theorem enc32NoPad_mem (x : Bytes) : ∀ c ∈ enc32Core false x, c ∈ alpha32 := by
  intro c hc
  rcases enc32Core_chars false x c hc with h | ⟨h, _⟩
  · exact h
  · cases h

theorem body_ne_pad (x : Bytes) : ∀ c ∈ enc32Core false x, (c != padChar) = true := by
  intro c hc
  have := (alpha32_not_special c (enc32NoPad_mem x c hc)).1
  simpa [padChar] using this

theorem body_len_ok (n : Nat) :
    ((n * 8 + 4) / 5 % 8 != 1 && (n * 8 + 4) / 5 % 8 != 3 && (n * 8 + 4) / 5 % 8 != 6) = true := by
  have : (n * 8 + 4) / 5 % 8 ≠ 1 ∧ (n * 8 + 4) / 5 % 8 ≠ 3 ∧ (n * 8 + 4) / 5 % 8 ≠ 6 := by omega
  simp [this]

/-- encoder output passes the validator of the patched library (padded) -/
theorem valid32_enc32 (x : Bytes) : valid32 true (enc32 x) = true := by
  have hlen := enc32Core_length true x
  have hblen := enc32Core_length false x
  simp only [if_true, Bool.false_eq_true, if_false] at hlen hblen
  unfold valid32 enc32
  rw [stripNL_enc32Core]
  simp only [hlen]
  rw [enc32_eq_nopad_append, List.takeWhile_append_of_pos (body_ne_pad x), List.dropWhile_append_of_pos (body_ne_pad x),
    List.takeWhile_replicate, List.dropWhile_replicate]
  simp only [bne_self_eq_false, Bool.false_eq_true, if_false, List.append_nil, hblen, body_len_ok, if_true,
    List.all_replicate, beq_self_eq_true, List.length_replicate, Bool.and_true]
  have h1 : (enc32Core false x).all (· ∈ alpha32) = true := by
    rw [List.all_eq_true]; intro c hc; simpa using enc32NoPad_mem x c hc
  have h2 := padLen32_lt x.length
  have h3 : (x.length + 4) / 5 * 8 % 8 = 0 := by omega
  simp [h1, h2, h3]

/-- encoder output passes the validator of the patched library (unpadded) -/
theorem valid32_enc32NoPad (x : Bytes) : valid32 false (enc32NoPad x) = true := by
  have hblen := enc32Core_length false x
  simp only [Bool.false_eq_true, if_false] at hblen
  unfold valid32 enc32NoPad
  rw [stripNL_enc32Core]
  have h0 : (enc32Core false x).takeWhile (· != padChar) = enc32Core false x := by
    have := List.takeWhile_append_of_pos (l₂ := []) (body_ne_pad x)
    simpa using this
  have h0' : (enc32Core false x).dropWhile (· != padChar) = [] := by
    have := List.dropWhile_append_of_pos (l₂ := []) (body_ne_pad x)
    simpa using this
  simp only [h0, h0', hblen, body_len_ok, Bool.false_eq_true, if_false, List.isEmpty_nil, Bool.and_true]
  rw [List.all_eq_true]; intro c hc; simpa using enc32NoPad_mem x c hc

/-- the validator rejects every text with a byte outside alphabet ∪ {`=`, CR, LF} -/
theorem valid32_foreign (padded : Bool) (s : Bytes) (c : UInt8) (hc : c ∈ s)
    (hf : c ∉ alpha32 ∧ c ≠ 61 ∧ c ≠ 10 ∧ c ≠ 13) : valid32 padded s = false := by
  have hct : c ∈ stripNL s := mem_stripNL.mpr ⟨hc, hf.2.2.1, hf.2.2.2⟩
  rw [← List.takeWhile_append_dropWhile (p := (· != padChar)) (l := stripNL s), List.mem_append] at hct
  unfold valid32
  rcases hct with h | h
  · have : ((stripNL s).takeWhile (· != padChar)).all (· ∈ alpha32) = false := by
      rw [List.all_eq_false]; exact ⟨c, h, by simpa using hf.1⟩
    simp [this]
  · cases padded
    · have : ((stripNL s).dropWhile (· != padChar)).isEmpty = false := by
        cases hd : (stripNL s).dropWhile (· != padChar) with
        | nil => rw [hd] at h; cases h
        | cons _ _ => rfl
      simp [this]
    · have : ((stripNL s).dropWhile (· != padChar)).all (· == padChar) = false := by
        rw [List.all_eq_false]; exact ⟨c, h, by simpa [padChar] using hf.2.1⟩
      simp [this]

/-- what the validator accepts (padded): alphabet characters, then fewer than 8 `=` filling the last
    quantum, the number of alphabet characters not 1, 3 or 6 modulo 8 -/
theorem valid32_padded_shape (s : Bytes) (h : valid32 true s = true) :
    ∃ body k, stripNL s = body ++ List.replicate k padChar ∧ (∀ c ∈ body, c ∈ alpha32) ∧ k < 8 ∧
      (body.length + k) % 8 = 0 ∧ body.length % 8 ≠ 1 ∧ body.length % 8 ≠ 3 ∧ body.length % 8 ≠ 6 := by
  unfold valid32 at h
  simp only [if_true, Bool.and_eq_true, List.all_eq_true, decide_eq_true_eq, bne_iff_ne, ne_eq, beq_iff_eq] at h
  obtain ⟨⟨hb, ⟨h1, h3⟩, h6⟩, ⟨htail, hlen⟩, hk⟩ := h
  refine ⟨(stripNL s).takeWhile (· != padChar), ((stripNL s).dropWhile (· != padChar)).length, ?_, hb, hk, ?_, h1, h3, h6⟩
  · have : (stripNL s).dropWhile (· != padChar) = List.replicate ((stripNL s).dropWhile (· != padChar)).length padChar :=
      List.eq_replicate_iff.mpr ⟨rfl, htail⟩
    rw [← this, List.takeWhile_append_dropWhile]
  · rw [← List.length_append, List.takeWhile_append_dropWhile]; exact hlen

/-- what the validator accepts (unpadded): alphabet characters only, not 1, 3 or 6 of them modulo 8 -/
theorem valid32_nopad_shape (s : Bytes) (h : valid32 false s = true) :
    (∀ c ∈ stripNL s, c ∈ alpha32) ∧ (stripNL s).length % 8 ≠ 1 ∧ (stripNL s).length % 8 ≠ 3 ∧ (stripNL s).length % 8 ≠ 6 := by
  unfold valid32 at h
  simp only [Bool.false_eq_true, if_false, Bool.and_eq_true, List.all_eq_true, decide_eq_true_eq, bne_iff_ne, ne_eq,
    List.isEmpty_iff] at h
  obtain ⟨⟨hb, ⟨h1, h3⟩, h6⟩, htail⟩ := h
  have : (stripNL s).takeWhile (· != padChar) = stripNL s := by
    have := List.takeWhile_append_dropWhile (p := (· != padChar)) (l := stripNL s)
    rw [htail, List.append_nil] at this; exact this
  rw [this] at hb h1 h3 h6
  exact ⟨hb, h1, h3, h6⟩

/-- base64: what the decoder accepts is alphabet characters followed by at most two `=`, a multiple of 4 long -/
theorem dec64Core_shape : ∀ (t r : Bytes), dec64Core t = some r →
    ∃ body k, t = body ++ List.replicate k padChar ∧ (∀ c ∈ body, c ∈ alpha64) ∧ k ≤ 2 ∧ t.length % 4 = 0
  | [], _, _ => ⟨[], 0, by simp⟩
  | [_], _, h => by simp [dec64Core] at h
  | [_, _], _, h => by simp [dec64Core] at h
  | [_, _, _], _, h => by simp [dec64Core] at h
  | x :: y :: z :: w :: rest, r, h => by
    rw [dec64Core] at h
    split at h
    · rename_i hc
      simp only [Bool.and_eq_true, List.isEmpty_iff, beq_iff_eq] at hc
      obtain ⟨rfl, rfl⟩ := hc
      split at h
      · rename_i hz
        simp only [beq_iff_eq] at hz; subst hz
        split at h
        · rename_i hx hy
          refine ⟨[x, y], 2, by simp [List.replicate], ?_, by omega, by simp⟩
          simp only [List.forall_mem_cons]
          exact ⟨idx_some_mem hx, idx_some_mem hy, by simp⟩
        · cases h
      · split at h
        · rename_i hx hy hz
          refine ⟨[x, y, z], 1, by simp [List.replicate], ?_, by omega, by simp⟩
          simp only [List.forall_mem_cons]
          exact ⟨idx_some_mem hx, idx_some_mem hy, idx_some_mem hz, by simp⟩
        · cases h
    · split at h
      · rename_i hx hy hz hw hr
        obtain ⟨body, k, hbk, hb, hk, hl⟩ := dec64Core_shape rest _ hr
        refine ⟨x :: y :: z :: w :: body, k, by simp [hbk], ?_, hk, by simp; omega⟩
        simp only [List.forall_mem_cons]
        exact ⟨idx_some_mem hx, idx_some_mem hy, idx_some_mem hz, idx_some_mem hw, hb⟩
      · cases h

end I2P.Base
