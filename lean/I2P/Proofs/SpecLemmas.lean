import I2P.Spec.Structs
import I2P.Proofs.KacLemmas
import I2P.Proofs.MappingLemmas
import I2P.Proofs.StructLemmas
/-! Helper lemmas for C02: every spec encoding (I2P/Spec/Structs.lean) of a well-formed, supported
    value is accepted by the code-mirroring reader (I2P/Kac.lean, Mapping.lean, Structs.lean), which
    consumes exactly that encoding and re-serialises to it.  One lemma per sub-reader, then the
    composite structures are assembled from the stage characterisations of Proofs/StructLemmas.lean. -/

namespace I2P.SpecLemmas
open I2P I2P.Spec I2P.Kac I2P.Structs I2P.Mapping

/-! ### small facts -/

theorem beEnc_one (n : Nat) (h : n < 256) : beEnc 1 n = [UInt8.ofNat n] := by
  show beEnc 0 (n / 256) ++ [UInt8.ofNat (n % 256)] = _
  rw [Nat.mod_eq_of_lt h]; rfl

theorem ofNat_toNat (n : Nat) (h : n < 256) : (UInt8.ofNat n).toNat = n := by
  simp [UInt8.toNat_ofNat']; omega

theorem take_app_left {α} (a b : List α) (n : Nat) (h : a.length = n) : (a ++ b).take n = a := List.take_left' h
theorem drop_app_left {α} (a b : List α) (n : Nat) (h : a.length = n) : (a ++ b).drop n = b := List.drop_left' h

/-! ### Signature -/

theorem sig_accepts (s x : Bytes) (t : Nat) (hl : s.length = sigLen t) (h0 : sigLen t ≠ 0) :
    readSig (s ++ x) t = some (s, x) := by
  rw [readSig_some]
  refine ⟨h0, by rw [List.length_append]; omega, (List.take_left' hl).symm, (List.drop_left' hl).symm⟩

/-! ### Identity -/

/-- the parser can construct keys of these types only (KeysAndCert layer) -/
def KacSupported (v : SIdentity) : Prop :=
  sigConstructible v.sigType = true ∧ cryptoConstructible v.cryptoType = true

theorem identity_readKac (v : SIdentity) (x : Bytes) (h : v.wf) (hs : KacSupported v) :
    ∃ k, readKac (identityCodec.write v ++ x) = some (k, x) ∧
      k.pub = v.cryptoKey ∧ k.padding = v.padding ∧ k.sig = v.sigKey ∧ k.kc.spk = v.sigType ∧ k.kc.cpk = v.cryptoType ∧
      k.bytes = some (identityCodec.write v) := by
  obtain ⟨nc, st, ct, ck, pad, sk, ex⟩ := v
  cases nc with
  | true =>
    simp only [SIdentity.wf, if_true] at h
    obtain ⟨rfl, rfl, hck, rfl, hsk, hex⟩ := h
    obtain ⟨k, hr, h1, h2, h3, h4, h5, h6⟩ := readKac_accepts_null ck sk ex x hck hsk hex
    refine ⟨k, ?_, h1, h2, h3, h4, h5, ?_⟩
    · rw [← hr, identityCodec_write]
      simp only [SIdentity.certType, SIdentity.certPayload, if_true, List.append_assoc, List.nil_append]
    · rw [h6, identityCodec_write]
      simp only [SIdentity.certType, SIdentity.certPayload, if_true, List.append_assoc, List.nil_append]
  | false =>
    simp only [SIdentity.wf, Bool.false_eq_true, if_false] at h
    obtain ⟨hcs, hss, hs128, hck, hsk, hpad, hex⟩ := h
    obtain ⟨k, hr, h1, h2, h3, h4, h5, h6⟩ := readKac_accepts st ct hs.1 hs.2 (sigPubSize_lt st hss) (cryptoSize_lt ct hcs)
      ck pad sk ex x hck hsk hpad hex
    have hpl : (beEnc 2 st ++ (beEnc 2 ct ++ ex)).length = 4 + ex.length := by
      simp only [List.length_append, beEnc_length]; omega
    refine ⟨k, ?_, h1, h2, h3, h4, h5, ?_⟩
    · rw [← hr, identityCodec_write]
      simp only [SIdentity.certType, SIdentity.certPayload, Bool.false_eq_true, if_false, hpl, List.append_assoc]
    · rw [h6, identityCodec_write]
      simp only [SIdentity.certType, SIdentity.certPayload, Bool.false_eq_true, if_false, hpl, List.append_assoc]

theorem identity_readDestination (v : SIdentity) (x : Bytes) (h : v.wf) (hs : KacSupported v)
    (ha : destAllowed v.sigType v.cryptoType = true) :
    ∃ k, readDestination (identityCodec.write v ++ x) = some (k, x) ∧ k.kc.spk = v.sigType ∧ k.kc.cpk = v.cryptoType ∧
      k.bytes = some (identityCodec.write v) := by
  obtain ⟨k, hr, _, _, _, h4, h5, h6⟩ := identity_readKac v x h hs
  exact ⟨k, readDestination_complete hr (by rw [h4, h5]; exact ha), h4, h5, h6⟩

theorem identity_readRouterIdentity (v : SIdentity) (x : Bytes) (h : v.wf) (hs : KacSupported v)
    (ha : ridAllowed v.sigType v.cryptoType = true) :
    ∃ k, readRouterIdentity (identityCodec.write v ++ x) = some (k, x) ∧ k.kc.spk = v.sigType ∧ k.kc.cpk = v.cryptoType ∧
      k.bytes = some (identityCodec.write v) := by
  obtain ⟨k, hr, _, _, _, h4, h5, h6⟩ := identity_readKac v x h hs
  exact ⟨k, readRouterIdentity_complete hr (by rw [h4, h5]; exact ha), h4, h5, h6⟩

theorem identity_length (v : SIdentity) (h : v.wf) :
    (identityCodec.write v).length = 387 + v.certPayload.length := by
  obtain ⟨nc, st, ct, ck, pad, sk, ex⟩ := v
  rw [identityCodec_write]
  cases nc with
  | true =>
    simp only [SIdentity.wf, if_true] at h
    obtain ⟨rfl, rfl, hck, rfl, hsk, hex⟩ := h
    simp only [List.length_append, List.length_nil, List.length_singleton, beEnc_length, hck, hsk]
    omega
  | false =>
    simp only [SIdentity.wf, Bool.false_eq_true, if_false] at h
    obtain ⟨hcs, hss, hs128, hck, hsk, hpad, hex⟩ := h
    have := cryptoSize_le ct
    simp only [List.length_append, List.length_singleton, beEnc_length, hck, hsk, hpad]
    omega

/-! ### Mapping -/

/-- the model parser refuses duplicate keys and stops after 1000 pairs (both are restrictions of the
    parser relative to the Mapping layout, which allows either) -/
def MappingAccepted (m : SMapping) : Prop := (m.map (·.1)).Nodup ∧ m.length ≤ 1000

theorem short_of_wf (m : SMapping) (h : SMapping.wf m) : Short m := h.1

theorem writeAll_pair_eq (m : SMapping) (hs : Short m) : writeAll pairCodec m = serPairs (m.map enc) := by
  induction m with
  | nil => rfl
  | cons p t ih =>
    have hp := hs p (by simp)
    rw [writeAll_cons, List.map_cons, serPairs_cons, ih (fun q hq => hs q (List.mem_cons_of_mem _ hq)),
      serPair_ok _ (enc_ok p hp), pairCodec_write, beEnc_one _ (by omega), beEnc_one _ (by omega)]
    simp only [enc, List.append_assoc, List.cons_append, List.nil_append]

theorem mapping_write_eq (m : SMapping) (hs : Short m) : mappingCodec.write m = dataOf (m.map enc) := by
  rw [mappingCodec_write, writeAll_pair_eq m hs]
  rfl

theorem keys_enc (m : SMapping) (hs : Short m) : ((m.map enc).map fun q => strData q.1) = m.map (·.1) := by
  rw [List.map_map]
  apply List.map_congr_left
  intro p hp
  exact strData_enc _ (hs p hp).1

theorem mapping_readMapping (m : SMapping) (x : Bytes) (h : SMapping.wf m) (ha : MappingAccepted m) :
    readMapping (mappingCodec.write m ++ x) =
      { hasSize := true, vals := some (m.map enc), rem := x, errs := if m.map enc = [] ∨ x = [] then [] else [.beyond] } := by
  have hs := short_of_wf m h
  rw [mapping_write_eq m hs]
  apply readMapping_dataOf
  · intro q hq
    obtain ⟨p, hp, rfl⟩ := List.mem_map.mp hq
    exact enc_ok p (hs p hp)
  · rw [keys_enc m hs]; exact ha.1
  · rw [List.length_map]; exact ha.2
  · rw [← writeAll_pair_eq m hs, writeAll_pair_length]; exact h.2

theorem mapping_accepted (m : SMapping) (x : Bytes) (h : SMapping.wf m) (ha : MappingAccepted m) :
    accepted (readMapping (mappingCodec.write m ++ x)) = true := by
  rw [mapping_readMapping m x h ha]
  unfold accepted
  split <;> simp

theorem mapping_data (m : SMapping) (x : Bytes) (h : SMapping.wf m) (ha : MappingAccepted m) :
    Mapping.data (readMapping (mappingCodec.write m ++ x)) = some (mappingCodec.write m) := by
  rw [mapping_readMapping m x h ha, mapping_write_eq m (short_of_wf m h)]
  rfl

/-- an embedded options mapping (either flavour of the `0000` shortcut) -/
theorem mapping_readOptions (m : SMapping) (x : Bytes) (z : Bool) (h : SMapping.wf m) (ha : MappingAccepted m) :
    readOptions (mappingCodec.write m ++ x) z = some (mappingCodec.write m, x) := by
  rw [readOptions_some]
  refine ⟨mapping_accepted m x h ha, ?_, ?_⟩
  · rw [mapping_readMapping m x h ha]
  · have hd := mapping_data m x h ha
    split
    · rename_i hz
      have hv : (readMapping (mappingCodec.write m ++ x)).vals.getD [] = m.map enc := by
        rw [mapping_readMapping m x h ha]; rfl
      rw [hv, List.length_map] at hz
      have : m = [] := List.eq_nil_of_length_eq_zero hz.2
      subst this
      rfl
    · rw [hd]; rfl

/-! ### OfflineSignature -/

theorem offline_write_length (t : Nat) (o : SOfflineSig) (h : o.wf t) :
    ((offlineCodec t).write o).length = 6 + sigPubSize o.transientType + sigLen t := by
  obtain ⟨_, _, _, _, hk, hs⟩ := h
  rw [offlineCodec_write]
  simp only [List.length_append, beEnc_length, hk, hs]
  omega

theorem offline_readOffSig (t : Nat) (o : SOfflineSig) (x : Bytes) (h : o.wf t) :
    readOffSig ((offlineCodec t).write o ++ x) t = some ((offlineCodec t).write o, x, o.transientType) := by
  have hlen := offline_write_length t o h
  obtain ⟨he, ht, hk0, hs0, hk, hs⟩ := h
  rw [readOffSig_some]
  have hst : beVal ((((offlineCodec t).write o ++ x).drop 4).take 2) = o.transientType := by
    rw [offlineCodec_write]
    simp only [List.append_assoc]
    rw [List.drop_left' (beEnc_length _ _), List.take_left' (beEnc_length _ _), beVal_beEnc 2 _ ht]
  refine ⟨by rw [List.length_append]; omega, hst.symm, hk0, hs0, by rw [List.length_append]; omega, ?_, ?_⟩
  · rw [List.take_left' hlen]
  · rw [List.drop_left' hlen]

/-- the optional offline block of LeaseSet2 / MetaLeaseSet / EncryptedLeaseSet -/
def OfflineOk (flags destType : Nat) (off : Option SOfflineSig) : Prop :=
  match off with
  | some o => (flags % 2 == 1) = true ∧ o.wf destType
  | none => (flags % 2 == 1) = false

theorem offline_offStage (flags t : Nat) (off : Option SOfflineSig) (x : Bytes) (h : OfflineOk flags t off) :
    offStage flags (offlineBytes t off ++ x) t = some (offlineBytes t off, x, finalSigType t off) := by
  unfold offStage
  cases off with
  | none =>
    have hf : ¬ flags % 2 = 1 := by
      intro hc; simp [OfflineOk, hc] at h
    rw [if_neg hf]; rfl
  | some o =>
    obtain ⟨hf, ho⟩ := h
    have hf' : flags % 2 = 1 := by simpa using hf
    rw [if_pos hf']
    exact offline_readOffSig t o x ho

/-- the trailing signature has a known, non-zero length -/
theorem finalSig_ne (t flags : Nat) (off : Option SOfflineSig) (ht : 0 < sigPubSize t) (hoff : OfflineOk flags t off) :
    sigLen (finalSigType t off) ≠ 0 := by
  cases off with
  | none => exact sigLen_ne_of_pub t (by omega)
  | some o => exact sigLen_ne_of_pub _ hoff.2.2.2.1

/-! ### arrays: encryption keys, fixed-size records -/

theorem encKey_write_length (k : SEncKey) : (encKeyCodec.write k).length = 4 + k.data.length := by
  rw [encKeyCodec_write]; simp only [List.length_append, beEnc_length]; omega

theorem keys_readKeys (ks : List SEncKey) (x acc : Bytes) (h : ∀ k ∈ ks, k.wf) :
    readKeys ks.length (writeAll encKeyCodec ks ++ x) acc = some (acc ++ writeAll encKeyCodec ks, x) := by
  induction ks generalizing acc with
  | nil => simp [readKeys_zero]
  | cons k t ih =>
    have hk := h k (by simp)
    have hkl : beVal (((writeAll encKeyCodec (k :: t) ++ x).drop 2).take 2) = k.data.length := by
      rw [writeAll_cons, encKeyCodec_write]
      simp only [List.append_assoc]
      rw [List.drop_left' (beEnc_length _ _), List.take_left' (beEnc_length _ _), beVal_beEnc 2 _ hk.2]
    rw [List.length_cons, readKeys_succ_some, hkl]
    have hl := encKey_write_length k
    refine ⟨by rw [writeAll_cons]; simp only [List.length_append]; omega, ?_⟩
    have e1 : (writeAll encKeyCodec (k :: t) ++ x).drop (4 + k.data.length) = writeAll encKeyCodec t ++ x := by
      rw [writeAll_cons, List.append_assoc]; exact List.drop_left' hl
    have e2 : (writeAll encKeyCodec (k :: t) ++ x).take (4 + k.data.length) = encKeyCodec.write k := by
      rw [writeAll_cons, List.append_assoc]; exact List.take_left' hl
    rw [e1, e2, ih _ (fun q hq => h q (List.mem_cons_of_mem _ hq)), writeAll_cons, List.append_assoc]

theorem lease2_write_length (l : SLease2) (h : l.wf) : (lease2Codec.write l).length = 40 := by
  rw [lease2Codec_write]; simp only [List.length_append, beEnc_length, h.1]

theorem lease_write_length (l : SLease) (h : l.wf) : (leaseCodec.write l).length = 44 := by
  rw [leaseCodec_write]; simp only [List.length_append, beEnc_length, h.1]

theorem fixed_accepts (b x : Bytes) (n size : Nat) (h : b.length = n * size) :
    readFixed n size (b ++ x) = some (b, x) := by
  rw [readFixed_eq, readFixedN_some]
  exact ⟨by rw [List.length_append]; omega, (List.take_left' h).symm, (List.drop_left' h).symm⟩

theorem leases2_length (ls : List SLease2) (h : ∀ l ∈ ls, l.wf) : (writeAll lease2Codec ls).length = ls.length * 40 :=
  writeAll_length_const lease2Codec 40 ls (fun a ha => lease2_write_length a (h a ha))

theorem leases_length (ls : List SLease) (h : ∀ l ∈ ls, l.wf) : (writeAll leaseCodec ls).length = ls.length * 44 :=
  writeAll_length_const leaseCodec 44 ls (fun a ha => lease_write_length a (h a ha))

/-! ### the common prefix of LeaseSet2 and MetaLeaseSet -/

/-- what the parser demands of an embedded destination beyond the layout -/
def DestSupported (v : SIdentity) : Prop :=
  KacSupported v ∧ destAllowed v.sigType v.cryptoType = true

theorem hdr_accepts (d : SIdentity) (p e f : Nat) (off : Option SOfflineSig) (m : SMapping) (rest : Bytes)
    (hd : d.wf) (hds : DestSupported d) (_hp : p < 256 ^ 4) (_he : e < 256 ^ 2) (hf : f < 256 ^ 2)
    (hoff : OfflineOk f d.sigType off) (hm : SMapping.wf m) (hma : MappingAccepted m) :
    Hdr (identityCodec.write d ++ ((beEnc 4 p ++ (beEnc 2 e ++ beEnc 2 f)) ++
          (offlineBytes d.sigType off ++ (mappingCodec.write m ++ rest))))
      (identityCodec.write d ++ (beEnc 4 p ++ (beEnc 2 e ++ beEnc 2 f)) ++ offlineBytes d.sigType off ++ mappingCodec.write m)
      rest (finalSigType d.sigType off) := by
  obtain ⟨k, hr, hspk, _, hb⟩ := identity_readDestination d
    ((beEnc 4 p ++ (beEnc 2 e ++ beEnc 2 f)) ++ (offlineBytes d.sigType off ++ (mappingCodec.write m ++ rest))) hd hds.1 hds.2
  have h8 : (beEnc 4 p ++ (beEnc 2 e ++ beEnc 2 f)).length = 8 := by simp only [List.length_append, beEnc_length]
  refine ⟨k, _, _, offlineBytes d.sigType off, mappingCodec.write m ++ rest, mappingCodec.write m, hr, hb, ?_, ?_, ?_, ?_⟩
  · rw [List.length_append, h8]; omega
  · have e6 : (((beEnc 4 p ++ (beEnc 2 e ++ beEnc 2 f)) ++ (offlineBytes d.sigType off ++ (mappingCodec.write m ++ rest))).drop 6).take 2
        = beEnc 2 f := by
      simp only [List.append_assoc]
      rw [show beEnc 4 p ++ (beEnc 2 e ++ (beEnc 2 f ++ (offlineBytes d.sigType off ++ (mappingCodec.write m ++ rest))))
          = (beEnc 4 p ++ beEnc 2 e) ++ (beEnc 2 f ++ (offlineBytes d.sigType off ++ (mappingCodec.write m ++ rest))) by
            simp only [List.append_assoc]]
      rw [List.drop_left' (by simp only [List.length_append, beEnc_length]), List.take_left' (beEnc_length _ _)]
    rw [e6, beVal_beEnc 2 f hf, List.drop_left' h8, hspk]
    exact offline_offStage f d.sigType off _ hoff
  · exact mapping_readOptions m rest true hm hma
  · rw [List.take_left' h8]

/-! ### LeaseSet2 -/

/-- restrictions of `ReadLeaseSet2` relative to the layout -/
structure LeaseSet2Accepted (v : SLeaseSet2) : Prop where
  /-- key types the library can construct, and the Destination key-type policy -/
  dest : DestSupported v.dest
  /-- options: no duplicate keys, at most 1000 pairs -/
  options : MappingAccepted v.options
  /-- `LEASESET2_MIN_SIZE`: inputs shorter than 499 bytes are refused although shorter LeaseSet2s exist
      (e.g. a 387-byte DSA destination, one X25519 key, no lease: 475 bytes) — finding D30 -/
  minSize : 499 ≤ (leaseSet2Codec.write v).length

theorem leaseSet2_accepts (v : SLeaseSet2) (x : Bytes) (h : v.wf) (ha : LeaseSet2Accepted v) :
    readLeaseSet2 (leaseSet2Codec.write v ++ x) = some (leaseSet2Codec.write v, x) := by
  obtain ⟨hd, hp, he, hf, hoff, hm, ⟨hk1, hk16, hkw⟩, ⟨hl16, hlw⟩, hsg⟩ := h
  rw [readLeaseSet2_some]
  refine ⟨by rw [List.length_append]; have := ha.minSize; omega, ?_⟩
  have hsig0 := finalSig_ne v.dest.sigType v.flags v.offline (sigPubSize_of_constructible ha.dest.1.1).1 hoff
  rw [leaseSet2Codec_write]
  simp only [List.append_assoc]
  refine ⟨_, _, _, by
    have := hdr_accepts v.dest v.published v.expires v.flags v.offline v.options
      (beEnc 1 v.keys.length ++ (writeAll encKeyCodec v.keys ++ (beEnc 1 v.leases.length ++
        (writeAll lease2Codec v.leases ++ (v.signature ++ x))))) hd ha.dest hp he hf hoff hm ha.options
    simpa only [List.append_assoc] using this, ?_⟩
  rw [beEnc_one _ (by omega), beEnc_one _ (by omega)]
  refine ⟨UInt8.ofNat v.keys.length,
    writeAll encKeyCodec v.keys ++ ([UInt8.ofNat v.leases.length] ++ (writeAll lease2Codec v.leases ++ (v.signature ++ x))),
    writeAll encKeyCodec v.keys, UInt8.ofNat v.leases.length, writeAll lease2Codec v.leases ++ (v.signature ++ x),
    writeAll lease2Codec v.leases, v.signature ++ x, v.signature, rfl, ?_, ?_, ?_, ?_, ?_, ?_, ?_⟩
  · rw [ofNat_toNat _ (by omega)]; exact hk1
  · rw [ofNat_toNat _ (by omega)]; exact hk16
  · rw [ofNat_toNat _ (by omega)]
    have := keys_readKeys v.keys ([UInt8.ofNat v.leases.length] ++ (writeAll lease2Codec v.leases ++ (v.signature ++ x))) [] hkw
    simpa only [List.nil_append, List.singleton_append] using this
  · rw [ofNat_toNat _ (by omega)]; exact hl16
  · rw [ofNat_toNat _ (by omega)]
    exact fixed_accepts _ _ _ 40 (leases2_length v.leases hlw)
  · exact sig_accepts _ _ _ hsg hsig0
  · simp only [List.append_assoc, List.cons_append]

end I2P.SpecLemmas
