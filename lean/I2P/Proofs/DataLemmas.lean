import I2P.Data
/-! Helper lemmas about the fixed-width conversions of `I2P/Data.lean`. -/
namespace I2P
theorem p8 : (256:Nat)^8 = 2^64 := by decide
theorem powle (k : Nat) (h : k ≤ 8) : (256:Nat)^k ≤ 2^64 := by
  have := Nat.pow_le_pow_right (n := 256) (by decide) h
  omega
theorem pow2 (k : Nat) : (2:Nat)^(k*8) = 256^k := by
  rw [Nat.mul_comm, Nat.pow_mul]
theorem toU (m : Nat) (h : m < 2^64) : toUInt64 (m:Int) = m := by
  unfold toUInt64
  have : ((m:Int) % 2^64) = m := Int.emod_eq_of_lt (by omega) (by omega)
  rw [this]; simp
theorem toI (m : Nat) (h : m < 2^63) : toInt64 m = m := by
  unfold toInt64
  have : m % 2^64 = m := Nat.mod_eq_of_lt (by omega)
  rw [this, if_pos h]
theorem newInt_nat (m k : Nat) (hk1 : 1 ≤ k) (hk8 : k ≤ 8) (hm : m < 2^63) :
    newIntegerFromInt (m:Int) (k:Int) = if m < 256^k then some (beEnc k m) else none := by
  unfold newIntegerFromInt
  rw [if_neg (by omega), if_neg (by omega), toU m (by omega)]
  unfold maxValueForSize
  have hp := pow2 k
  have hpos : 0 < (256:Nat)^k := Nat.pow_pos (by decide)
  have hle := powle k hk8
  simp only [Int.toNat_natCast]
  by_cases h8 : (k:Int) ≥ 8
  · have : k = 8 := by omega
    subst this
    rw [if_pos h8, if_neg (by omega), if_pos (by omega)]
  · rw [if_neg h8, hp]
    by_cases hlt : m < 256^k
    · rw [if_neg (by omega), if_pos hlt]
    · rw [if_pos (by omega), if_neg hlt]

theorem intFromBytes_small (b : Bytes) (h1 : 1 ≤ b.length) (h8 : b.length ≤ 8) (h63 : beVal b < 2^63) :
    intFromBytes b = some (beVal b : Int) := by
  unfold intFromBytes
  rw [if_neg (by omega)]
  split
  · rfl
  · rw [List.take_of_length_le (by omega), toI _ h63]

theorem castlt (m k : Nat) : ((m:Int) < (256:Int) ^ k) ↔ m < 256 ^ k := by
  have h : ((256 ^ k : Nat) : Int) = (256:Int) ^ k := Int.natCast_pow 256 k
  rw [← h]
  exact Int.ofNat_lt

end I2P
