import I2P.Mapping
/-! Helper lemmas about the mapping model of `I2P/Mapping.lean` (used by `I2P/Props/C11.lean`).

* order: `bytesLt`/`bytesLe` coincide with the lexicographic order of `List UInt8`; sorting by decoded key
  is independent of the input order when keys are distinct;
* `GoMapToMapping`: characterisation (`goMapToMapping_some` / `goMapToMapping_none`);
* parser: `parseSingle_consumed`, the loop invariant `loop_inv`, the shape of accepted inputs
  `accepted_cases`, and the corollaries re-serialisation / append-stability / no proper prefix;
* serialise-then-parse: `loop_ser`, `readMapping_dataOf`. -/
namespace I2P.Mapping
open I2P

/-! ### byte-string order -/

theorem bytesLt_eq (a b : Bytes) : bytesLt a b = decide (a < b) := by
  induction a generalizing b with
  | nil => cases b <;> simp [bytesLt]
  | cons x xs ih =>
    cases b with
    | nil => simp [bytesLt]
    | cons y ys =>
      simp only [bytesLt, ih, List.cons_lt_cons_iff]
      by_cases h1 : x < y
      · simp [h1]
      · by_cases h2 : y < x
        · have : x ≠ y := by intro h; subst h; exact h1 h2
          simp [h1, h2, this]
        · have : x = y := UInt8.le_antisymm (UInt8.not_lt.mp h2) (UInt8.not_lt.mp h1)
          simp [this]

theorem bytesLe_eq (a b : Bytes) : bytesLe a b = decide (a ≤ b) := by
  unfold bytesLe
  rw [bytesLt_eq]
  by_cases h : b < a
  · have : ¬ a ≤ b := fun h' => (List.not_lt.mpr h') h
    simp [h, this]
  · have : a ≤ b := List.not_lt.mp h
    simp [h, this]

theorem bytesLe_total (a b : Bytes) : (bytesLe a b || bytesLe b a) = true := by
  simp only [bytesLe_eq, Bool.or_eq_true, decide_eq_true_eq]
  exact List.le_total a b

theorem bytesLe_trans (a b c : Bytes) : bytesLe a b = true → bytesLe b c = true → bytesLe a c = true := by
  simp only [bytesLe_eq, decide_eq_true_eq]
  exact fun h1 h2 => List.le_trans h1 h2

theorem bytesLe_antisymm (a b : Bytes) : bytesLe a b = true → bytesLe b a = true → a = b := by
  simp only [bytesLe_eq, decide_eq_true_eq]
  exact fun h1 h2 => List.le_antisymm h1 h2

theorem bytesLt_of_le_ne (a b : Bytes) (h : bytesLe a b = true) (hne : a ≠ b) : bytesLt a b = true := by
  cases hlt : bytesLt a b with
  | true => rfl
  | false =>
    exfalso; apply hne
    apply bytesLe_antisymm a b h
    simp [bytesLe, hlt]

/-! ### map → Mapping -/

/-- the I2PString pair built from a Go (key, value) pair -/
def enc (p : Bytes × Bytes) : Pair := (UInt8.ofNat p.1.length :: p.1, UInt8.ofNat p.2.length :: p.2)
/-- the Go (key, value) pair stored in an I2PString pair -/
def dec (p : Pair) : Bytes × Bytes := (strData p.1, strData p.2)

def Short (m : List (Bytes × Bytes)) : Prop := ∀ p ∈ m, p.1.length ≤ 255 ∧ p.2.length ≤ 255

theorem ofNat_len (s : Bytes) (h : s.length ≤ 255) : (UInt8.ofNat s.length).toNat = s.length := by
  simp [UInt8.toNat_ofNat']; omega

theorem conv_some (m : List (Bytes × Bytes)) (h : Short m) : goMapToMapping.conv m = some (m.map enc) := by
  induction m with
  | nil => rfl
  | cons p t ih =>
    obtain ⟨k, v⟩ := p
    have hp := h (k, v) (by simp)
    have ht := ih (fun q hq => h q (by simp [hq]))
    simp only [goMapToMapping.conv, newStr, ht]
    rw [if_neg (by have := hp.1; simp at this; omega), if_neg (by have := hp.2; simp at this; omega)]
    rfl

theorem conv_none (m : List (Bytes × Bytes)) (h : ¬ Short m) : goMapToMapping.conv m = none := by
  induction m with
  | nil => exact absurd (fun p hp => by simp at hp) h
  | cons p t ih =>
    obtain ⟨k, v⟩ := p
    by_cases hk : k.length > 255
    · simp [goMapToMapping.conv, newStr, hk]
    by_cases hv : v.length > 255
    · simp [goMapToMapping.conv, newStr, hv]
    have ht : ¬ Short t := by
      intro ht; apply h
      intro q hq
      simp only [List.mem_cons] at hq
      rcases hq with rfl | hq
      · exact ⟨by simp; omega, by simp; omega⟩
      · exact ht q hq
    simp [goMapToMapping.conv, ih ht]


theorem inj_of_nodup_map {α β} (f : α → β) : ∀ (l : List α), (l.map f).Nodup →
    ∀ a b, a ∈ l → b ∈ l → f a = f b → a = b
  | [], _, a, _, ha, _, _ => by simp at ha
  | x :: xs, h, a, b, ha, hb, hab => by
    simp only [List.map_cons, List.nodup_cons, List.mem_map, not_exists, not_and] at h
    simp only [List.mem_cons] at ha hb
    rcases ha with rfl | ha <;> rcases hb with rfl | hb
    · rfl
    · exact absurd hab.symm (h.1 b hb)
    · exact absurd hab (h.1 a ha)
    · exact inj_of_nodup_map f xs h.2 a b ha hb hab


theorem sortPairs_perm (l : List Pair) : (sortPairs l).Perm l := List.mergeSort_perm l _

theorem sortPairs_sorted (l : List Pair) :
    (sortPairs l).Pairwise (fun a b => bytesLe (strData a.1) (strData b.1) = true) :=
  List.pairwise_mergeSort (le := fun a b => bytesLe (strData a.1) (strData b.1))
    (fun _ _ _ => bytesLe_trans _ _ _) (fun _ _ => bytesLe_total _ _) l

/-- sorting is independent of the input order when equal decoded keys imply equal pairs -/
theorem sortPairs_perm_invariant (l₁ l₂ : List Pair) (hp : l₁.Perm l₂)
    (hinj : ∀ a b, a ∈ l₁ → b ∈ l₁ → strData a.1 = strData b.1 → a = b) :
    sortPairs l₁ = sortPairs l₂ := by
  have p1 := sortPairs_perm l₁
  have p2 := sortPairs_perm l₂
  apply List.Perm.eq_of_pairwise (le := fun a b => bytesLe (strData a.1) (strData b.1) = true) ?_
    (sortPairs_sorted l₁) (sortPairs_sorted l₂) (p1.trans (hp.trans p2.symm))
  intro a b ha hb hab hba
  exact hinj a b (p1.mem_iff.mp ha) (hp.mem_iff.mpr (p2.mem_iff.mp hb)) (bytesLe_antisymm _ _ hab hba)

theorem strData_enc (s : Bytes) (h : s.length ≤ 255) : strData (UInt8.ofNat s.length :: s) = s := by
  simp [strData, ofNat_len s h]

theorem strDataOk_enc (s : Bytes) (h : s.length ≤ 255) : strDataOk (UInt8.ofNat s.length :: s) = true := by
  simp [strDataOk, ofNat_len s h]

theorem dec_enc (p : Bytes × Bytes) (h : p.1.length ≤ 255 ∧ p.2.length ≤ 255) : dec (enc p) = p := by
  simp [dec, enc, strData_enc _ h.1, strData_enc _ h.2]

theorem enc_inj_on (m : List (Bytes × Bytes)) (hs : Short m) (hd : (m.map (·.1)).Nodup) :
    ∀ a b, a ∈ m.map enc → b ∈ m.map enc → strData a.1 = strData b.1 → a = b := by
  intro a b ha hb hab
  obtain ⟨p, hp, rfl⟩ := List.mem_map.mp ha
  obtain ⟨q, hq, rfl⟩ := List.mem_map.mp hb
  simp only [enc, strData_enc _ (hs p hp).1, strData_enc _ (hs q hq).1] at hab
  rw [inj_of_nodup_map (·.1) m hd p q hp hq hab]

theorem Short_perm {m m' : List (Bytes × Bytes)} (h : m'.Perm m) : Short m' ↔ Short m := by
  unfold Short
  constructor
  · intro h1 p hp; exact h1 p (h.mem_iff.mpr hp)
  · intro h1 p hp; exact h1 p (h.mem_iff.mp hp)

theorem total_eq (ps : List Pair) :
    2 * ps.length + (ps.map fun p => p.1.length + p.2.length).sum
      = (ps.map fun p => p.1.length + p.2.length + 2).sum := by
  induction ps with
  | nil => rfl
  | cons p t ih => simp only [List.length_cons, List.map_cons, List.sum_cons]; omega

theorem total_sorted (m : List (Bytes × Bytes)) :
    2 * (sortPairs (m.map enc)).length + ((sortPairs (m.map enc)).map fun p => p.1.length + p.2.length).sum
      = (m.map fun p => p.1.length + p.2.length + 4).sum := by
  rw [total_eq, ((sortPairs_perm (m.map enc)).map _).sum_nat, List.map_map]
  congr 1
  apply List.map_congr_left
  intro p _
  simp [enc]; omega

/-- `GoMapToMapping` accepts exactly the maps within the limits, and stores the sorted pairs -/
theorem goMapToMapping_some (m : List (Bytes × Bytes)) (hs : Short m)
    (ht : (m.map fun p => p.1.length + p.2.length + 4).sum ≤ 65535) :
    goMapToMapping m = some (sortPairs (m.map enc)) := by
  unfold goMapToMapping
  rw [conv_some m hs]
  simp only [valuesToMapping, total_sorted, MAX_MAPPING_DATA_SIZE]
  rw [if_neg (by omega)]

theorem goMapToMapping_none (m : List (Bytes × Bytes))
    (h : ¬ (Short m ∧ (m.map fun p => p.1.length + p.2.length + 4).sum ≤ 65535)) :
    goMapToMapping m = none := by
  unfold goMapToMapping
  by_cases hs : Short m
  · rw [conv_some m hs]
    simp only [valuesToMapping, total_sorted, MAX_MAPPING_DATA_SIZE]
    rw [if_pos]
    apply Nat.lt_of_not_le
    intro ht; exact h ⟨hs, ht⟩
  · rw [conv_none m hs]


/-! ### the parser -/

theorem readStr_consumed (d : Bytes) : (readStr d).1 ++ (readStr d).2.1 = d ∨ (readStr d).2.2 = some .zero := by
  unfold readStr
  cases d with
  | nil => right; rfl
  | cons l rest =>
    left
    simp only
    split <;> simp

/-- whenever `ReadI2PString` leaves a non-empty remainder it succeeded, the string is well formed and
    string ++ remainder is the input -/
theorem readStr_rem_ne (d : Bytes) (h : (readStr d).2.1 ≠ []) :
    strDataOk (readStr d).1 = true ∧ (readStr d).1 ++ (readStr d).2.1 = d := by
  unfold readStr at *
  cases d with
  | nil => simp at h
  | cons l rest =>
    simp only at *
    split
    · rename_i hle
      simp [strDataOk, List.length_take, Nat.min_eq_left hle]
    · rename_i hle
      simp [hle] at h

theorem readStr_ok (s r : Bytes) (h : strDataOk s = true) : readStr (s ++ r) = (s, r, none) := by
  cases s with
  | nil => simp [strDataOk] at h
  | cons l rest =>
    simp only [strDataOk, decide_eq_true_eq] at h
    simp [readStr, h]

def PairOk (p : Pair) : Prop := strDataOk p.1 = true ∧ strDataOk p.2 = true

theorem serPair_ok (p : Pair) (h : PairOk p) : serPair p = p.1 ++ 0x3d :: (p.2 ++ [0x3b]) := by
  unfold serPair
  rw [if_pos ⟨h.1, h.2⟩]; simp

/-- If `parseSingleKeyValuePair` did not stop on a delimiter error, both strings it read are well
    formed and it consumed exactly their serialisation. -/
theorem parseSingle_consumed (d : Bytes) (seen : List Bytes)
    (h1 : (parseSingle d seen).err ≠ some .expEq) (h2 : (parseSingle d seen).err ≠ some .expSemi) :
    PairOk (parseSingle d seen).pair ∧ serPair (parseSingle d seen).pair ++ (parseSingle d seen).rem = d := by
  have e1 := readStr_rem_ne d
  unfold parseSingle at *
  generalize hk : readStr d = rk at *
  obtain ⟨k, r1, kerr⟩ := rk
  simp only at *
  cases r1 with
  | nil => simp at h1
  | cons c r2 =>
    by_cases hc : c = 0x3d
    · subst hc
      have e2 := readStr_rem_ne r2
      simp only at *
      generalize hv : readStr r2 = rv at *
      obtain ⟨v, r3, verr⟩ := rv
      simp only at *
      cases r3 with
      | nil => simp at h2
      | cons c3 r4 =>
        by_cases hc3 : c3 = 0x3b
        · subst hc3
          simp only
          obtain ⟨ok1, c1⟩ := e1 (by simp)
          obtain ⟨ok2, c2⟩ := e2 (by simp)
          refine ⟨⟨ok1, ok2⟩, ?_⟩
          rw [serPair_ok _ ⟨ok1, ok2⟩, ← c1, ← c2]; simp
        · simp [hc3] at h2
    · simp [hc] at h1

/-- The only errors `parseSingleKeyValuePair` can report. -/
theorem parseSingle_err_cases (d : Bytes) (seen : List Bytes) :
    (parseSingle d seen).err = none ∨ (parseSingle d seen).err = some .dup ∨
    (parseSingle d seen).err = some .expEq ∨ (parseSingle d seen).err = some .expSemi := by
  unfold parseSingle
  generalize readStr d = rk
  obtain ⟨k, r1, kerr⟩ := rk
  simp only
  cases r1 with
  | nil => simp
  | cons c r2 =>
    by_cases hc : c = 0x3d
    · subst hc
      simp only
      generalize readStr r2 = rv
      obtain ⟨v, r3, verr⟩ := rv
      simp only
      cases r3 with
      | nil => simp
      | cons c3 r4 =>
        by_cases hc3 : c3 = 0x3b
        · subst hc3
          simp only
          cases kerr with
          | none => simp; exact (Classical.em _).symm
          | some se => cases se <;> simp <;> exact (Classical.em _).symm
        · simp [hc3]
    · simp [hc]

/-- parsing one serialised well-formed pair -/
theorem parseSingle_ser (p : Pair) (h : PairOk p) (rest : Bytes) (seen : List Bytes) :
    parseSingle (serPair p ++ rest) seen =
      { rem := rest, pair := p, err := if seen.contains (strData p.1) then some .dup else none } := by
  obtain ⟨k, v⟩ := p
  have e : serPair (k, v) ++ rest = k ++ (0x3d :: (v ++ (0x3b :: rest))) := by
    rw [serPair_ok _ h]; simp
  rw [e]
  unfold parseSingle
  rw [readStr_ok k _ h.1]
  simp only
  rw [readStr_ok v _ h.2]
  rfl


theorem serPairs_append (a b : List Pair) : serPairs (a ++ b) = serPairs a ++ serPairs b := by
  simp [serPairs]

theorem serPairs_cons (p : Pair) (t : List Pair) : serPairs (p :: t) = serPair p ++ serPairs t := by
  simp [serPairs]

theorem serPairs_single (p : Pair) : serPairs [p] = serPair p := by
  simp [serPairs]

/-- what the loop invariant promises about a result `r` of `parseKeyValuePairs` started on `rem` with
    `vals` already stored: unless it stopped on a delimiter error or on the pair limit, it consumed
    everything, every stored pair is well formed, and the stored pairs serialise to what was read -/
def Clean (rem : Bytes) (vals : List Pair) (r : Bytes × List Pair × List E) : Prop :=
  E.maxPairs ∉ r.2.2 → E.expEq ∉ r.2.2 → E.expSemi ∉ r.2.2 →
    r.1 = [] ∧ serPairs r.2.1 = serPairs vals ++ rem ∧ ∀ p ∈ r.2.1, PairOk p

/-- Loop invariant of `parseKeyValuePairs` for a body whose length matched (`lenBad = false`). -/
theorem loop_inv (fuel count : Nat) (rem : Bytes) (vals : List Pair) (errs : List E) (seen : List Bytes)
    (hc : count ≤ MAX_MAPPING_PAIRS) (hf : MAX_MAPPING_PAIRS < count + fuel)
    (hok : ∀ p ∈ vals, PairOk p) :
    Clean rem vals (loop fuel count rem vals errs seen false) := by
  induction fuel generalizing count rem vals errs seen with
  | zero => omega
  | succ n ih =>
    unfold loop
    by_cases h1 : count ≥ MAX_MAPPING_PAIRS
    · rw [if_pos h1]; intro hM; simp at hM
    rw [if_neg h1]
    by_cases h2 : rem.length = 0
    · rw [if_pos h2]
      have : rem = [] := List.eq_nil_of_length_eq_zero h2
      subst this
      intro _ _ _
      exact ⟨rfl, by simp, hok⟩
    rw [if_neg h2, if_neg (by simp)]
    generalize hp : parseSingle rem seen = pr
    have hcons := parseSingle_consumed rem seen
    have hcases := parseSingle_err_cases rem seen
    rw [hp] at hcons hcases
    -- the common tail of the two non-delimiter cases
    have key : ∀ (e : Option E), pr.err = e → e ≠ some .expEq → e ≠ some .expSemi → ∀ errs',
        Clean rem vals (if pr.rem.length = 0 then (pr.rem, vals ++ [pr.pair], errs')
          else loop n (count+1) pr.rem (vals ++ [pr.pair]) errs' (strData pr.pair.1 :: seen) false) := by
      intro e he ne1 ne2 errs'
      obtain ⟨pok, pc⟩ := hcons (by rw [he]; exact ne1) (by rw [he]; exact ne2)
      have hok' : ∀ p ∈ vals ++ [pr.pair], PairOk p := by
        intro p hp
        simp only [List.mem_append, List.mem_singleton] at hp
        rcases hp with hp | rfl
        · exact hok p hp
        · exact pok
      by_cases h3 : pr.rem.length = 0
      · rw [if_pos h3]
        intro _ _ _
        have h4 : pr.rem = [] := List.eq_nil_of_length_eq_zero h3
        refine ⟨h4, ?_, hok'⟩
        rw [serPairs_append, serPairs_single, ← pc, h4]; simp
      · rw [if_neg h3]
        intro a b c
        have hc' : count + 1 ≤ MAX_MAPPING_PAIRS := by omega
        obtain ⟨r1, r2, r3⟩ := ih (count+1) pr.rem (vals ++ [pr.pair]) errs' (strData pr.pair.1 :: seen)
          hc' (by omega) hok' a b c
        refine ⟨r1, ?_, r3⟩
        rw [r2, serPairs_append, serPairs_single, List.append_assoc, pc]
    cases he : pr.err with
    | none => simp only [he]; exact key none he (by simp) (by simp) errs
    | some e =>
      cases e with
      | expEq => simp only [he]; intro _ hE; simp at hE
      | expSemi => simp only [he]; intro _ _ hS; simp at hS
      | dup => simp only [he]; exact key (some .dup) he (by simp) (by simp) (errs ++ [.dup])
      | _ => rw [he] at hcases; simp at hcases


/-! ### `ReadMapping` -/

theorem beEnc_two (h l : UInt8) : beEnc 2 (h.toNat * 256 + l.toNat) = [h, l] := by
  have := beEnc_beVal [h, l]
  simpa [beVal] using this

/-- `ReadMappingValues` on a body of exactly the announced length -/
theorem readValues_exact (d : Bytes) (hd : 1 ≤ d.length) :
    readValues d d.length =
      (some (loop (MAX_MAPPING_PAIRS + 2) 0 d [] [] [] false).2.1, (loop (MAX_MAPPING_PAIRS + 2) 0 d [] [] [] false).2.2) := by
  unfold readValues
  rw [if_neg (by omega)]
  simp

theorem readMapping_short (w : Bytes) (h : w.length < 2) :
    readMapping w = { hasSize := false, vals := none, rem := [], errs := [.zeroLength] } := by
  match w, h with
  | [], _ => rfl
  | [_], _ => rfl

theorem readMapping_zero (h l : UInt8) (rest : Bytes) (hz : h.toNat * 256 + l.toNat = 0) :
    readMapping (h :: l :: rest) = { hasSize := true, vals := some [], rem := rest, errs := [] } := by
  simp only [readMapping, if_pos hz]

theorem readMapping_exceeds (h l : UInt8) (rest : Bytes) (hz : h.toNat * 256 + l.toNat ≠ 0)
    (hlt : rest.length < h.toNat * 256 + l.toNat) :
    E.exceeds ∈ (readMapping (h :: l :: rest)).errs := by
  simp only [readMapping, if_neg hz, if_pos hlt]
  simp

/-- the normal path: the announced size is positive and available -/
theorem readMapping_fit (h l : UInt8) (rest : Bytes) (hz : h.toNat * 256 + l.toNat ≠ 0)
    (hle : h.toNat * 256 + l.toNat ≤ rest.length) :
    readMapping (h :: l :: rest) =
      { hasSize := true,
        vals := (readValues (rest.take (h.toNat * 256 + l.toNat)) (h.toNat * 256 + l.toNat)).1,
        rem := rest.drop (h.toNat * 256 + l.toNat),
        errs := (if rest.length > h.toNat * 256 + l.toNat then [.beyond] else []) ++
          (readValues (rest.take (h.toNat * 256 + l.toNat)) (h.toNat * 256 + l.toNat)).2 ++
          (if (readValues (rest.take (h.toNat * 256 + l.toNat)) (h.toNat * 256 + l.toNat)).2.length > 0
            then [.parseVals] else []) } := by
  simp only [readMapping, if_neg hz, if_neg (Nat.not_lt.mpr hle)]

/-- Shape of every accepted input. -/
theorem accepted_cases (w : Bytes) (ha : accepted (readMapping w) = true) :
    ∃ h l rest, w = h :: l :: rest ∧
      (h.toNat * 256 + l.toNat = 0 ∨
        (h.toNat * 256 + l.toNat ≠ 0 ∧ h.toNat * 256 + l.toNat ≤ rest.length ∧
          (readValues (rest.take (h.toNat * 256 + l.toNat)) (h.toNat * 256 + l.toNat)).2 = [])) := by
  match w with
  | [] => simp [readMapping, accepted] at ha
  | [_] => simp [readMapping, accepted] at ha
  | h :: l :: rest =>
    refine ⟨h, l, rest, rfl, ?_⟩
    by_cases hz : h.toNat * 256 + l.toNat = 0
    · exact Or.inl hz
    right
    by_cases hlt : rest.length < h.toNat * 256 + l.toNat
    · have := readMapping_exceeds h l rest hz hlt
      simp only [accepted, List.all_eq_true] at ha
      have := ha _ this
      simp at this
    have hle : h.toNat * 256 + l.toNat ≤ rest.length := Nat.not_lt.mp hlt
    refine ⟨hz, hle, ?_⟩
    rw [readMapping_fit h l rest hz hle] at ha
    generalize (readValues (rest.take (h.toNat * 256 + l.toNat)) (h.toNat * 256 + l.toNat)).2 = ve at ha ⊢
    cases ve with
    | nil => rfl
    | cons e t =>
      simp only [accepted, List.all_eq_true] at ha
      have := ha E.parseVals (by simp)
      simp at this

/-- the result on an accepted input of the normal path -/
theorem readMapping_accepted_fit (h l : UInt8) (rest : Bytes) (hz : h.toNat * 256 + l.toNat ≠ 0)
    (hle : h.toNat * 256 + l.toNat ≤ rest.length)
    (hv : (readValues (rest.take (h.toNat * 256 + l.toNat)) (h.toNat * 256 + l.toNat)).2 = []) :
    readMapping (h :: l :: rest) =
      { hasSize := true,
        vals := (readValues (rest.take (h.toNat * 256 + l.toNat)) (h.toNat * 256 + l.toNat)).1,
        rem := rest.drop (h.toNat * 256 + l.toNat),
        errs := if rest.length > h.toNat * 256 + l.toNat then [.beyond] else [] } := by
  rw [readMapping_fit h l rest hz hle, hv]; simp


/-- A body of exactly the announced length that parses without any error is the serialisation of the
    stored pairs, and all of them are well formed. -/
theorem readValues_clean (d : Bytes) (L : Nat) (hL : d.length = L) (hd : 1 ≤ L) (hv : (readValues d L).2 = []) :
    ∃ vals, (readValues d L).1 = some vals ∧ serPairs vals = d ∧ ∀ p ∈ vals, PairOk p := by
  subst hL
  rw [readValues_exact d hd] at hv ⊢
  simp only at hv
  have := loop_inv (MAX_MAPPING_PAIRS + 2) 0 d [] [] [] (by simp [MAX_MAPPING_PAIRS]) (by simp [MAX_MAPPING_PAIRS])
    (by simp) (by rw [hv]; simp) (by rw [hv]; simp) (by rw [hv]; simp)
  refine ⟨_, rfl, ?_, this.2.2⟩
  simpa [serPairs] using this.2.1

theorem accepted_reserialise (w : Bytes) (ha : accepted (readMapping w) = true) :
    ∃ c, w = c ++ (readMapping w).rem ∧ data (readMapping w) = some c := by
  obtain ⟨h, l, rest, rfl, hz | ⟨hz, hle, hv⟩⟩ := accepted_cases w ha
  · rw [readMapping_zero h l rest hz]
    refine ⟨[h, l], rfl, ?_⟩
    simp only [data, dataOf, serPairs, Option.getD, List.map_nil, List.flatten_nil, List.length_nil, List.append_nil]
    rw [← hz, beEnc_two]; rfl
  · rw [readMapping_accepted_fit h l rest hz hle hv]
    have hlen : (rest.take (h.toNat * 256 + l.toNat)).length = h.toNat * 256 + l.toNat := by
      rw [List.length_take]; omega
    obtain ⟨vals, e1, e2, _⟩ := readValues_clean _ _ hlen (by omega) hv
    refine ⟨[h, l] ++ rest.take (h.toNat * 256 + l.toNat), by simp, ?_⟩
    simp only [data, e1, Option.getD, dataOf, e2, hlen, beEnc_two]
    rfl


theorem accepted_append (w : Bytes) (ha : accepted (readMapping w) = true) (x : Bytes) :
    (readMapping (w ++ x)).vals = (readMapping w).vals ∧
    (readMapping (w ++ x)).rem = (readMapping w).rem ++ x ∧
    accepted (readMapping (w ++ x)) = true := by
  obtain ⟨h, l, rest, rfl, hz | ⟨hz, hle, hv⟩⟩ := accepted_cases w ha
  · simp only [List.cons_append]
    rw [readMapping_zero h l rest hz, readMapping_zero h l (rest ++ x) hz]
    exact ⟨rfl, rfl, rfl⟩
  · simp only [List.cons_append]
    have hle' : h.toNat * 256 + l.toNat ≤ (rest ++ x).length := by simp; omega
    have ht : (rest ++ x).take (h.toNat * 256 + l.toNat) = rest.take (h.toNat * 256 + l.toNat) :=
      List.take_append_of_le_length hle
    have hd : (rest ++ x).drop (h.toNat * 256 + l.toNat) = rest.drop (h.toNat * 256 + l.toNat) ++ x :=
      List.drop_append_of_le_length hle
    rw [readMapping_accepted_fit h l rest hz hle hv,
      readMapping_accepted_fit h l (rest ++ x) hz hle' (by rw [ht]; exact hv), ht, hd]
    refine ⟨rfl, rfl, ?_⟩
    simp only [accepted]
    split <;> rfl

theorem accepted_no_proper_prefix (w : Bytes) (ha : accepted (readMapping w) = true)
    (hr : (readMapping w).rem = []) (k : Nat) (hk : k < w.length) :
    accepted (readMapping (w.take k)) = false := by
  obtain ⟨h, l, rest, rfl, hc⟩ := accepted_cases w ha
  by_cases hk2 : k < 2
  · rw [readMapping_short _ (by rw [List.length_take]; omega)]; rfl
  obtain ⟨j, rfl⟩ : ∃ j, k = j + 2 := ⟨k - 2, by omega⟩
  simp only [List.take_succ_cons, List.length_cons] at hk ⊢
  have hlen : rest.length = h.toNat * 256 + l.toNat := by
    rcases hc with hz | ⟨hz, hle, hv⟩
    · rw [readMapping_zero h l rest hz] at hr
      simp only at hr
      rw [hr, hz]; rfl
    · rw [readMapping_accepted_fit h l rest hz hle hv] at hr
      simp only at hr
      have := congrArg List.length hr
      simp at this; omega
  have hex := readMapping_exceeds h l (rest.take j) (by omega) (by rw [List.length_take]; omega)
  cases hacc : accepted (readMapping (h :: l :: rest.take j)) with
  | false => rfl
  | true =>
    simp only [accepted, List.all_eq_true] at hacc
    have := hacc _ hex
    simp at this


/-! ### serialise, then parse -/

theorem serPair_length (p : Pair) (h : PairOk p) : (serPair p).length = p.1.length + p.2.length + 2 := by
  rw [serPair_ok p h]; simp; omega

/-- one iteration of `parseKeyValuePairs` on a serialised well-formed pair with a fresh key -/
theorem loop_step (n count : Nat) (p : Pair) (rest : Bytes) (vals : List Pair) (errs : List E) (seen : List Bytes)
    (hp : PairOk p) (hfresh : strData p.1 ∉ seen) (hc : count < MAX_MAPPING_PAIRS) :
    loop (n+1) count (serPair p ++ rest) vals errs seen false =
      if rest.length = 0 then (rest, vals ++ [p], errs)
      else loop n (count+1) rest (vals ++ [p]) errs (strData p.1 :: seen) false := by
  have hne : (serPair p ++ rest).length ≠ 0 := by
    rw [List.length_append, serPair_length p hp]; omega
  have hcont : seen.contains (strData p.1) = false := by simpa using hfresh
  rw [loop, if_neg (by omega), if_neg hne, if_neg (by simp), parseSingle_ser p hp, hcont]
  rfl

theorem loop_ser (ps : List Pair) : ∀ (p : Pair) (fuel count : Nat) (vals : List Pair) (errs : List E) (seen : List Bytes),
    (∀ q ∈ p :: ps, PairOk q) → ps.length < fuel → count + ps.length < MAX_MAPPING_PAIRS →
    ((p :: ps).map fun q => strData q.1).Nodup → (∀ q ∈ p :: ps, strData q.1 ∉ seen) →
    loop fuel count (serPairs (p :: ps)) vals errs seen false = ([], vals ++ p :: ps, errs) := by
  induction ps with
  | nil =>
    intro p fuel count vals errs seen hok hf hc _ hfresh
    obtain ⟨n, rfl⟩ : ∃ n, fuel = n + 1 := ⟨fuel - 1, by omega⟩
    rw [serPairs_cons, loop_step n count p _ vals errs seen (hok p (by simp)) (hfresh p (by simp)) (by simpa using hc)]
    rfl
  | cons q ps ih =>
    intro p fuel count vals errs seen hok hf hc hnd hfresh
    obtain ⟨n, rfl⟩ : ∃ n, fuel = n + 1 := ⟨fuel - 1, by omega⟩
    simp only [List.length_cons] at hf hc
    rw [serPairs_cons, loop_step n count p _ vals errs seen (hok p (by simp)) (hfresh p (by simp)) (by omega)]
    have hne : (serPairs (q :: ps)).length ≠ 0 := by
      rw [serPairs_cons, List.length_append, serPair_length q (hok q (by simp))]; omega
    rw [if_neg hne]
    rw [List.map_cons, List.nodup_cons] at hnd
    rw [ih q n (count+1) (vals ++ [p]) errs (strData p.1 :: seen)
      (fun r hr => hok r (List.mem_cons_of_mem _ hr)) (by omega) (by omega) hnd.2]
    · simp
    · intro r hr
      simp only [List.mem_cons, not_or]
      refine ⟨?_, hfresh r (List.mem_cons_of_mem _ hr)⟩
      intro heq
      apply hnd.1
      rw [← heq]
      exact List.mem_map.mpr ⟨r, hr, rfl⟩


theorem beEnc_two_split (n : Nat) (hn : n < 65536) :
    ∃ h l : UInt8, beEnc 2 n = [h, l] ∧ h.toNat * 256 + l.toNat = n := by
  have hlen := beEnc_length 2 n
  have hval := beVal_beEnc 2 n (by simpa using hn)
  match hb : beEnc 2 n, hlen with
  | [h, l], _ =>
    refine ⟨h, l, rfl, ?_⟩
    rw [hb] at hval
    simpa [beVal] using hval

/-- `ReadMappingValues` on the serialisation of well-formed pairs with distinct keys, at most 1000 -/
theorem readValues_ser (p : Pair) (ps : List Pair) (hok : ∀ q ∈ p :: ps, PairOk q)
    (hnd : ((p :: ps).map fun q => strData q.1).Nodup) (hlen : (p :: ps).length ≤ MAX_MAPPING_PAIRS) :
    readValues (serPairs (p :: ps)) (serPairs (p :: ps)).length = (some (p :: ps), []) := by
  have h1 : 1 ≤ (serPairs (p :: ps)).length := by
    rw [serPairs_cons, List.length_append, serPair_length p (hok p (by simp))]; omega
  rw [readValues_exact _ h1]
  simp only [List.length_cons] at hlen
  rw [loop_ser ps p (MAX_MAPPING_PAIRS + 2) 0 [] [] [] hok (by omega) (by omega) hnd (by simp)]
  rfl

/-- Reading back what `Mapping.Data()` wrote, possibly followed by more bytes. -/
theorem readMapping_dataOf (ps : List Pair) (x : Bytes) (hok : ∀ q ∈ ps, PairOk q)
    (hnd : (ps.map fun q => strData q.1).Nodup) (hlen : ps.length ≤ MAX_MAPPING_PAIRS)
    (hsize : (serPairs ps).length ≤ 65535) :
    readMapping (dataOf ps ++ x) =
      { hasSize := true, vals := some ps, rem := x, errs := if ps = [] ∨ x = [] then [] else [.beyond] } := by
  cases ps with
  | nil =>
    have : dataOf [] ++ x = 0 :: 0 :: x := rfl
    rw [this, readMapping_zero 0 0 x (by decide)]
    simp
  | cons p t =>
    have h1 : 1 ≤ (serPairs (p :: t)).length := by
      rw [serPairs_cons, List.length_append, serPair_length p (hok p (by simp))]; omega
    obtain ⟨h, l, hb, hv⟩ := beEnc_two_split (serPairs (p :: t)).length (by omega)
    have e : dataOf (p :: t) ++ x = h :: l :: (serPairs (p :: t) ++ x) := by
      simp only [dataOf, hb]; rfl
    rw [e, readMapping_fit h l _ (by omega) (by rw [hv]; simp), hv,
      List.take_left, List.drop_left, readValues_ser p t hok hnd hlen]
    cases x with
    | nil => simp
    | cons a x => simp


/-! ### what `GoMapToMapping` stores -/

theorem serPairs_length (ps : List Pair) (hok : ∀ q ∈ ps, PairOk q) :
    (serPairs ps).length = (ps.map fun p => p.1.length + p.2.length + 2).sum := by
  induction ps with
  | nil => rfl
  | cons p t ih =>
    rw [serPairs_cons, List.length_append, serPair_length p (hok p (by simp)),
      ih (fun q hq => hok q (List.mem_cons_of_mem _ hq))]
    simp

theorem enc_ok (p : Bytes × Bytes) (h : p.1.length ≤ 255 ∧ p.2.length ≤ 255) : PairOk (enc p) :=
  ⟨strDataOk_enc _ h.1, strDataOk_enc _ h.2⟩

theorem sorted_ok (m : List (Bytes × Bytes)) (hs : Short m) : ∀ q ∈ sortPairs (m.map enc), PairOk q := by
  intro q hq
  obtain ⟨p, hp, rfl⟩ := List.mem_map.mp ((sortPairs_perm _).mem_iff.mp hq)
  exact enc_ok p (hs p hp)

theorem map_dec_enc (m : List (Bytes × Bytes)) (hs : Short m) : (m.map enc).map dec = m := by
  rw [List.map_map]
  conv => rhs; rw [← List.map_id m]
  apply List.map_congr_left
  intro p hp
  exact dec_enc p (hs p hp)

theorem sorted_dec_perm (m : List (Bytes × Bytes)) (hs : Short m) : ((sortPairs (m.map enc)).map dec).Perm m := by
  have := (sortPairs_perm (m.map enc)).map dec
  rwa [map_dec_enc m hs] at this

theorem sorted_keys_nodup (m : List (Bytes × Bytes)) (hs : Short m) (hd : (m.map (·.1)).Nodup) :
    ((sortPairs (m.map enc)).map fun q => strData q.1).Nodup := by
  have h1 : ((sortPairs (m.map enc)).map fun q => strData q.1) = ((sortPairs (m.map enc)).map dec).map (·.1) := by
    rw [List.map_map]; rfl
  rw [h1]
  exact (((sorted_dec_perm m hs).map (·.1)).nodup_iff).mpr hd

theorem sorted_size (m : List (Bytes × Bytes)) (hs : Short m) :
    (serPairs (sortPairs (m.map enc))).length = (m.map fun p => p.1.length + p.2.length + 4).sum := by
  rw [serPairs_length _ (sorted_ok m hs), ← total_eq, total_sorted]

theorem sorted_length (m : List (Bytes × Bytes)) : (sortPairs (m.map enc)).length = m.length := by
  rw [(sortPairs_perm _).length_eq, List.length_map]

theorem toGoMap_ok (ps : List Pair) (hok : ∀ q ∈ ps, PairOk q) : toGoMap ps = some (ps.map dec) := by
  unfold toGoMap
  rw [if_pos]
  · rfl
  · rw [List.all_eq_true]
    intro q hq
    simp [(hok q hq).1, (hok q hq).2]

/-- the decoded stored pairs are strictly increasing by key -/
theorem sorted_strict (m : List (Bytes × Bytes)) (hs : Short m) (hd : (m.map (·.1)).Nodup) :
    ((sortPairs (m.map enc)).map dec).Pairwise (fun a b => bytesLt a.1 b.1 = true) := by
  have h1 : ((sortPairs (m.map enc)).map dec).Pairwise (fun a b => bytesLe a.1 b.1 = true) := by
    rw [List.pairwise_map]
    exact sortPairs_sorted _
  have h2 : ((sortPairs (m.map enc)).map dec).Pairwise (fun a b => a.1 ≠ b.1) := by
    have := (((sorted_dec_perm m hs).map (·.1)).nodup_iff).mpr hd
    rw [List.nodup_iff_pairwise_ne, List.pairwise_map] at this
    exact this
  exact (h1.and h2).imp (fun h => bytesLt_of_le_ne _ _ h.1 h.2)

/-- facts about what `GoMapToMapping` stored that the read-back theorems need -/
theorem goMapToMapping_stored (m : List (Bytes × Bytes)) (ps : List Pair) (hd : (m.map (·.1)).Nodup)
    (hs : Short m) (ht : (m.map fun p => p.1.length + p.2.length + 4).sum ≤ 65535)
    (hps : goMapToMapping m = some ps) :
    (∀ q ∈ ps, PairOk q) ∧ (ps.map fun q => strData q.1).Nodup ∧ ps.length = m.length ∧
      (serPairs ps).length ≤ 65535 := by
  rw [goMapToMapping_some m hs ht] at hps
  injection hps with hps
  subst hps
  exact ⟨sorted_ok m hs, sorted_keys_nodup m hs hd, sorted_length m, by rw [sorted_size m hs]; exact ht⟩

end I2P.Mapping

