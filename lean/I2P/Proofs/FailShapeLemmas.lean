import I2P.FailShape
import I2P.Proofs.StructLemmas
/-! Lemmas about `I2P/FailShape.lean`: shape classes of the values the readers hand out with an error,
    agreement of the `stop…` functions with the reader models, and what the classes say about the
    signature field. -/
namespace I2P.FailShape
open I2P I2P.Spec I2P.Kac I2P.Structs Shape

/-! ### shapes -/

@[simp] theorem cls_ofList (l : List Shape) : (ofList l).cls = ofList (l.map cls) := by
  induction l with
  | nil => rfl
  | cons h t ih => simp [ofList, cls, ih]

@[simp] theorem cls_S (l : List Shape) : (S l).cls = S (l.map cls) := by simp [S, cls]

theorem cls_E (l : List Shape) : (E l).cls = .elems (dedup (ofList (l.map cls))) := by simp [E, cls]

theorem dedup_cons (h t : Shape) : dedup (.fcons h t) = .fcons h (remove h (dedup t)) := rfl
theorem ofList_cons (h : Shape) (t : List Shape) : ofList (h :: t) = .fcons h (ofList t) := rfl
theorem remove_self_one (a : Shape) : remove a (ofList [a]) = .fnil := by simp [ofList, remove]
theorem remove_self_two {a b : Shape} (h : a ≠ b) : remove a (ofList [a, b]) = ofList [b] := by
  have : ¬ b = a := fun e => h e.symm
  simp [ofList, remove, this]
theorem remove_other_one {a b : Shape} (h : a ≠ b) : remove a (ofList [b]) = ofList [b] := by
  have : ¬ b = a := fun e => h e.symm
  simp [ofList, remove, this]

/-- a non-empty list of copies of one class collapses to that class -/
theorem dedup_all {l : List Shape} {a : Shape} (h : ∀ x ∈ l, x = a) (hl : l ≠ []) :
    dedup (ofList l) = ofList [a] := by
  induction l with
  | nil => exact absurd rfl hl
  | cons x t ih =>
    have hx : x = a := h x (by simp)
    subst hx
    cases t with
    | nil => rfl
    | cons y t' =>
      have := ih (fun z hz => h z (by simp [hz])) (by simp)
      rw [ofList_cons, dedup_cons, this, remove_self_one]; rfl

/-- copies of `a` followed by copies of `b` -/
theorem dedup_two {l₁ l₂ : List Shape} {a b : Shape} (hab : a ≠ b) (h₁ : ∀ x ∈ l₁, x = a) (h₂ : ∀ x ∈ l₂, x = b)
    (hl₁ : l₁ ≠ []) (hl₂ : l₂ ≠ []) : dedup (ofList (l₁ ++ l₂)) = ofList [a, b] := by
  induction l₁ with
  | nil => exact absurd rfl hl₁
  | cons x t ih =>
    have hx : x = a := h₁ x (by simp)
    subst hx
    cases t with
    | nil =>
      have := dedup_all h₂ hl₂
      rw [List.cons_append, List.nil_append, ofList_cons, dedup_cons, this, remove_other_one hab]; rfl
    | cons y t' =>
      have := ih (fun z hz => h₁ z (by simp [hz])) (by simp)
      rw [List.cons_append, ofList_cons, dedup_cons, this, remove_self_two hab]; rfl

/-! ### classes of the values handed out with an error -/

@[simp] theorem cls_sig0 : sig0.cls = sig0 := by decide
@[simp] theorem cls_map0 : map0.cls = map0 := by decide
@[simp] theorem cls_key0 : key0.cls = key0 := by decide
@[simp] theorem cls_entry0 : entry0.cls = entry0 := by decide
@[simp] theorem cls_dest0 : dest0.cls = dest0 := by decide
@[simp] theorem cls_off0 : off0.cls = off0 := by decide
@[simp] theorem cls_ra0 : ra0.cls = ra0 := by decide
@[simp] theorem cls_els0 : els0.cls = els0 := by decide
@[simp] theorem cls_ls20 : ls20.cls = ls20 := by decide
@[simp] theorem cls_meta0 : meta0.cls = meta0 := by decide
@[simp] theorem cls_ri0 : ri0.cls = ri0 := by decide

theorem zstop_none {a : Bool} {z : Shape} : zstop a z = none ↔ a = true := by
  unfold zstop; cases a <;> simp
theorem zstop_some {a : Bool} {z : Shape} {o : Obs} : zstop a z = some o ↔ a = false ∧ o = ⟨true, z⟩ := by
  unfold zstop; cases a <;> simp [eq_comm]

theorem stopStr_cls {d : Bytes} {o : Obs} (h : stopStr d = some o) : o.shape.cls ∈ shapes_ReadI2PString := by
  unfold stopStr at h
  split at h
  · cases h
  · cases h; decide
  · cases h; simp [cls, shapes_ReadI2PString]

theorem readMapping_noSize (d : Bytes) (h : (Mapping.readMapping d).hasSize = false) :
    (Mapping.readMapping d).vals = none := by
  unfold Mapping.readMapping at h ⊢
  split
  · rename_i a b rest
    simp only [] at h
    split at h
    · simp at h
    · split at h
      · simp at h
      · simp at h
  · rfl

theorem mapShape_cls (d : Bytes) : (mapShape (Mapping.readMapping d)).cls ∈ shapes_ReadMapping := by
  have h := readMapping_noSize d
  generalize Mapping.readMapping d = r at h
  unfold mapShape
  cases hs : r.hasSize
  · rw [h hs]; decide
  · cases r.vals <;> simp [cls, shapes_ReadMapping, map0, mapNoValsCls, mapOkCls]

/-- an accepted mapping has its size and its values -/
theorem mapShape_accepted {d : Bytes} (h : Mapping.accepted (Mapping.readMapping d) = true) :
    (mapShape (Mapping.readMapping d)).cls = mapOkCls := by
  obtain ⟨a, l, rest, rfl, hc⟩ := Mapping.accepted_cases d h
  rcases hc with hz | ⟨hz, hle, hv⟩
  · rw [Mapping.readMapping_zero a l rest hz]; rfl
  · rw [Mapping.readMapping_accepted_fit a l rest hz hle hv]
    have : ∃ v, (Mapping.readValues (rest.take (a.toNat * 256 + l.toNat)) (a.toNat * 256 + l.toNat)).1 = some v := by
      unfold Mapping.readValues at hv ⊢
      split
      · rename_i hlt; rw [if_pos hlt] at hv; simp at hv
      · exact ⟨_, rfl⟩
    obtain ⟨v, hv'⟩ := this
    simp only [mapShape, hv']
    rfl

theorem stopMapping_cls {d : Bytes} {o : Obs} (h : stopMapping d = some o) : o.shape.cls ∈ shapes_ReadMapping := by
  unfold stopMapping at h
  simp only [] at h
  split at h
  · cases h
  · cases h; exact mapShape_cls d

theorem stopNewMapping_cls {d : Bytes} {o : Obs} (h : stopNewMapping d = some o) : o.shape.cls ∈ shapes_NewMapping := by
  unfold stopNewMapping at h
  simp only [] at h
  split at h
  · cases h
  · cases h
    have := mapShape_cls d
    simp only [shapes_ReadMapping, List.mem_cons, List.not_mem_nil, or_false] at this
    simp only [cls, shapes_NewMapping, List.mem_cons, List.not_mem_nil, or_false, Shape.ptr.injEq]
    exact this

theorem stopOffSig_cls {d : Bytes} {t : Nat} {o : Obs} (h : stopOffSig d t = some o) :
    o.shape.cls ∈ shapes_ReadOfflineSignature := by
  unfold stopOffSig at h
  simp only [] at h
  repeat' split at h
  all_goals cases h
  all_goals simp [cls, shapes_ReadOfflineSignature, off0]

theorem stopKacFast_cls {c : Nat} {w : Bytes} {o : Obs} (h : stopKacFast c w = some o) :
    o.shape.cls ∈ shapes_ReadKeysAndCertFast := by
  unfold stopKacFast at h
  repeat' split at h
  all_goals cases h
  all_goals simp [cls, shapes_ReadKeysAndCertFast]

theorem stopRA_cls {d : Bytes} {o : Obs} (h : stopRA d = some o) : o.shape.cls ∈ shapes_ReadRouterAddress := by
  unfold stopRA at h
  split at h
  · cases h; decide
  · generalize readStr (d.drop 9) = q at h
    obtain ⟨str, r, e⟩ := q
    simp only [] at h
    split at h
    · cases h; simp [cls, shapes_ReadRouterAddress]
    · split at h
      · cases h
        have := mapShape_cls r
        simp only [shapes_ReadMapping, List.mem_cons, List.not_mem_nil, or_false] at this
        rcases this with h1 | h1 | h1 <;> simp [cls, shapes_ReadRouterAddress, h1]
      · cases h

theorem offField_cls (flags sigT dt : Nat) : (offField flags sigT dt).cls = .nil ∨ (offField flags sigT dt).cls = .ptr offCls := by
  unfold offField
  split
  · right; simp [cls, offOk, offCls]
  · left; rfl

theorem elsTail_cls {K O : Shape} {r : Bytes} {e t : Nat} {o : Obs} (hK : K.cls = .bstar)
    (hO : O.cls = .nil ∨ O.cls = .ptr offCls) (h : elsTail K O r e t = some o) :
    o.shape.cls ∈ shapes_ReadEncryptedLeaseSet := by
  unfold elsTail at h
  simp only [] at h
  repeat' split at h
  all_goals cases h
  all_goals try decide
  all_goals rcases hO with hO | hO <;> simp [elsPart, cls, hK, hO, shapes_ReadEncryptedLeaseSet, elsMk]

theorem stopELS_cls {d : Bytes} {o : Obs} (h : stopELS d = some o) : o.shape.cls ∈ shapes_ReadEncryptedLeaseSet := by
  unfold stopELS at h
  simp only [] at h
  repeat' split at h
  all_goals try (cases h; done)
  all_goals try (cases h; simp [elsPart, cls, shapes_ReadEncryptedLeaseSet, elsMk]; done)
  all_goals exact elsTail_cls rfl (offField_cls _ _ _) h

theorem E_cls_all {l : List Shape} {a : Shape} (h : ∀ x ∈ l, x.cls = a) (hl : l ≠ []) : (E l).cls = EC [a] := by
  rw [cls_E, EC]
  congr 1
  apply dedup_all
  · intro y hy
    obtain ⟨x, hx, rfl⟩ := List.mem_map.mp hy
    exact h x hx
  · simpa using hl

theorem E_cls_two {p q : List Shape} {a b : Shape} (hab : a ≠ b) (hp : ∀ x ∈ p, x.cls = a) (hq : ∀ x ∈ q, x.cls = b)
    (hp' : p ≠ []) (hq' : q ≠ []) : (E (p ++ q)).cls = EC [a, b] := by
  rw [cls_E, EC, List.map_append]
  congr 1
  apply dedup_two hab
  · intro y hy
    obtain ⟨x, hx, rfl⟩ := List.mem_map.mp hy
    exact hp x hx
  · intro y hy
    obtain ⟨x, hx, rfl⟩ := List.mem_map.mp hy
    exact hq x hx
  · simpa using hp'
  · simpa using hq'

theorem kacOk_cls (k : KeysAndCert) : (kacOk k).cls = kacClsPad ∨ (kacOk k).cls = kacClsNoPad := by
  unfold kacOk
  simp only []
  split
  · right; simp [cls, kacClsNoPad]
  · left; simp [cls, kacClsPad]

/-- what `keysWalk` returns: on success only complete keys, on failure complete keys followed by at least
    one untouched element -/
theorem keysWalk_spec (n : Nat) : ∀ (d : Bytes) (acc : List Shape), (∀ x ∈ acc, x.cls = keyOkCls) →
    (∀ l r, keysWalk n d acc = (l, some r) → (∀ x ∈ l, x.cls = keyOkCls) ∧ l.length = acc.length + n) ∧
    (∀ l, keysWalk n d acc = (l, none) → ∃ p m, l = p ++ List.replicate (m+1) key0 ∧ ∀ x ∈ p, x.cls = keyOkCls) := by
  induction n with
  | zero =>
    intro d acc hacc
    constructor
    · intro l r h
      simp only [keysWalk, Prod.mk.injEq, Option.some.injEq] at h
      obtain ⟨rfl, _⟩ := h
      exact ⟨hacc, rfl⟩
    · intro l h
      simp [keysWalk] at h
  | succ n ih =>
    intro d acc hacc
    have hacc' : ∀ kl, ∀ x ∈ acc ++ [S [.scalar, .scalar, .bytes kl]], x.cls = keyOkCls := by
      intro kl x hx
      rcases List.mem_append.mp hx with hx | hx
      · exact hacc x hx
      · simp only [List.mem_singleton] at hx; subst hx; simp [cls, keyOkCls]
    constructor
    · intro l r h
      unfold keysWalk at h
      split at h
      · simp at h
      · simp only [] at h
        split at h
        · simp at h
        · obtain ⟨h1, h2⟩ := (ih _ _ (hacc' _)).1 l r h
          refine ⟨h1, ?_⟩
          rw [h2]; simp; omega
    · intro l h
      unfold keysWalk at h
      split at h
      · simp only [Prod.mk.injEq, and_true] at h
        exact ⟨acc, n, h.symm, hacc⟩
      · simp only [] at h
        split at h
        · simp only [Prod.mk.injEq, and_true] at h
          exact ⟨acc, n, h.symm, hacc⟩
        · exact (ih _ _ (hacc' _)).2 l h

theorem ls2_mem_ok {D O K L : Shape} (hD : D = S [kacClsPad] ∨ D = S [kacClsNoPad]) (hO : O = .nil ∨ O = .ptr offCls)
    (hKL : (K, L) ∈ [(Shape.nil, Shape.nil), (EC [key0], .nil), (EC [keyOkCls, key0], .nil), (EC [keyOkCls], .nil), (EC [keyOkCls], .sstar)]) :
    ls2Mk D O mapOkCls K L ∈ shapes_ReadLeaseSet2 := by
  simp only [List.mem_cons, Prod.mk.injEq, List.not_mem_nil, or_false] at hKL
  rcases hD with rfl | rfl <;> rcases hO with rfl | rfl <;>
    rcases hKL with ⟨rfl, rfl⟩ | ⟨rfl, rfl⟩ | ⟨rfl, rfl⟩ | ⟨rfl, rfl⟩ | ⟨rfl, rfl⟩ <;> decide

theorem ls2_mem_0 {D O : Shape} (hD : D = S [kacClsPad] ∨ D = S [kacClsNoPad]) (hO : O = .nil ∨ O = .ptr offCls) :
    ls2Mk D O map0 .nil .nil ∈ shapes_ReadLeaseSet2 := by
  rcases hD with rfl | rfl <;> rcases hO with rfl | rfl <;> decide

theorem keyOk_ne_key0 : keyOkCls ≠ key0 := by decide

theorem ls2Tail_cls {D O M : Shape} {r : Bytes} {sigT : Nat} {o : Obs}
    (hD : D.cls = S [kacClsPad] ∨ D.cls = S [kacClsNoPad]) (hO : O.cls = .nil ∨ O.cls = .ptr offCls)
    (hM : M.cls = mapOkCls) (h : ls2Tail D O M r sigT = some o) : o.shape.cls ∈ shapes_ReadLeaseSet2 := by
  have key : ∀ K L : Shape, (K.cls, L.cls) ∈ [(Shape.nil, Shape.nil), (EC [key0], .nil), (EC [keyOkCls, key0], .nil), (EC [keyOkCls], .nil), (EC [keyOkCls], .sstar)] →
      (S [D, .scalar, .scalar, .scalar, O, M, K, L, sig0]).cls ∈ shapes_ReadLeaseSet2 := by
    intro K L hKL
    have := ls2_mem_ok hD hO hKL
    simpa [cls, ls2Mk, hM] using this
  unfold ls2Tail at h
  simp only [] at h
  split at h
  · cases h; exact key _ _ (by simp [cls])
  · rename_i nk r1
    split at h
    · cases h; exact key _ _ (by simp [cls])
    · rename_i hnk
      have hspec := keysWalk_spec nk.toNat r1 [] (by simp)
      split at h
      · -- a key failed
        rename_i ks hk
        cases h
        obtain ⟨p, m, rfl, hp⟩ := hspec.2 ks hk
        apply key
        by_cases hpe : p = []
        · subst hpe
          rw [List.nil_append, E_cls_all (a := key0) (by intro x hx; rw [List.eq_of_mem_replicate hx]; simp) (by simp)]
          simp [cls]
        · rw [E_cls_two keyOk_ne_key0 hp (by intro x hx; rw [List.eq_of_mem_replicate hx]; simp) hpe (by simp)]
          simp [cls]
      · rename_i ks r2 hk
        obtain ⟨hall, hlen⟩ := hspec.1 ks r2 hk
        have hne : ks ≠ [] := by
          intro e; subst e; simp at hlen; omega
        have hK : (E ks).cls = EC [keyOkCls] := E_cls_all hall hne
        repeat' split at h
        all_goals cases h
        all_goals apply key
        all_goals simp [cls, hK]

/-- case analysis of the common LeaseSet2 / MetaLeaseSet prefix -/
theorem stopHdr_ind {P : Obs → Prop} {minLen : Nat} {z : Shape} {part : Shape → Shape → Shape → Shape}
    {cont : Shape → Shape → Shape → Bytes → Nat → Option Obs} {d : Bytes} {o : Obs}
    (h : stopHdr minLen z part cont d = some o)
    (hz : P ⟨true, z⟩)
    (hA : ∀ k : KeysAndCert, P ⟨false, part (destOk k) .nil map0⟩)
    (hB : ∀ (k : KeysAndCert) (flags sigT : Nat), P ⟨false, part (destOk k) (offField flags sigT k.kc.spk) map0⟩)
    (hC : ∀ (k : KeysAndCert) (flags sigT : Nat) (r2 r3 : Bytes), Mapping.accepted (Mapping.readMapping r2) = true →
      cont (destOk k) (offField flags sigT k.kc.spk) (mapShape (Mapping.readMapping r2)) r3 sigT = some o → P o) : P o := by
  unfold stopHdr at h
  split at h
  · cases h; exact hz
  split at h
  · cases h; exact hz
  rename_i k r hd
  simp only [] at h
  split at h
  · cases h; exact hA k
  split at h
  · cases h; exact hA k
  rename_i ob r2 sigT ho
  split at h
  · cases h; exact hB k _ _
  rename_i optb r3 hopt
  exact hC k _ sigT r2 r3 (readOptions_some.mp hopt).1 h

theorem destOk_cls (k : KeysAndCert) : (destOk k).cls = S [kacClsPad] ∨ (destOk k).cls = S [kacClsNoPad] := by
  rcases kacOk_cls k with h | h
  · left; simp [destOk, h]
  · right; simp [destOk, h]

theorem stopLS2_cls {d : Bytes} {o : Obs} (h : stopLS2 d = some o) : o.shape.cls ∈ shapes_ReadLeaseSet2 := by
  unfold stopLS2 at h
  refine stopHdr_ind (P := fun o => o.shape.cls ∈ shapes_ReadLeaseSet2) h ?_ ?_ ?_ ?_
  · decide
  · intro k
    have := ls2_mem_0 (destOk_cls k) (Or.inl rfl)
    simpa [cls, ls2Mk] using this
  · intro k flags sigT
    have := ls2_mem_0 (destOk_cls k) (offField_cls flags sigT k.kc.spk)
    simpa [cls, ls2Mk] using this
  · intro k flags sigT r2 r3 ha hc
    exact ls2Tail_cls (destOk_cls k) (offField_cls _ _ _) (mapShape_accepted ha) hc

theorem entriesWalk_spec (n : Nat) : ∀ (d : Bytes) (acc : List Shape), (∀ x ∈ acc, x.cls = entryOkCls) →
    (∀ l r, entriesWalk n d acc = (l, some r) → (∀ x ∈ l, x.cls = entryOkCls) ∧ l.length = acc.length + n) ∧
    (∀ l, entriesWalk n d acc = (l, none) → ∃ p m, l = p ++ List.replicate (m+1) entry0 ∧ ∀ x ∈ p, x.cls = entryOkCls) := by
  induction n with
  | zero =>
    intro d acc hacc
    constructor
    · intro l r h
      simp only [entriesWalk, Prod.mk.injEq, Option.some.injEq] at h
      obtain ⟨rfl, _⟩ := h
      exact ⟨hacc, rfl⟩
    · intro l h
      simp [entriesWalk] at h
  | succ n ih =>
    intro d acc hacc
    have hacc' : ∀ d' : Bytes, Mapping.accepted (Mapping.readMapping d') = true →
        ∀ x ∈ acc ++ [S [.arr 32, .scalar, .scalar, .scalar, mapShape (Mapping.readMapping d')]], x.cls = entryOkCls := by
      intro d' ha x hx
      rcases List.mem_append.mp hx with hx | hx
      · exact hacc x hx
      · simp only [List.mem_singleton] at hx; subst hx; simp [cls, entryOkCls, mapShape_accepted ha]
    constructor
    · intro l r h
      unfold entriesWalk at h
      split at h
      · simp at h
      · simp only [] at h
        split at h
        · simp at h
        · split at h
          · simp at h
          · rename_i b r' hopt
            obtain ⟨h1, h2⟩ := (ih _ _ (hacc' _ (readOptions_some.mp hopt).1)).1 l r h
            refine ⟨h1, ?_⟩
            rw [h2]; simp; omega
    · intro l h
      unfold entriesWalk at h
      split at h
      · simp only [Prod.mk.injEq, and_true] at h
        exact ⟨acc, n, h.symm, hacc⟩
      · simp only [] at h
        split at h
        · simp only [Prod.mk.injEq, and_true] at h
          exact ⟨acc, n, h.symm, hacc⟩
        · split at h
          · simp only [Prod.mk.injEq, and_true] at h
            exact ⟨acc, n, h.symm, hacc⟩
          · rename_i b r' hopt
            exact (ih _ _ (hacc' _ (readOptions_some.mp hopt).1)).2 l h

theorem meta_mem_ok {D O N : Shape} (hD : D = S [kacClsPad] ∨ D = S [kacClsNoPad]) (hO : O = .nil ∨ O = .ptr offCls)
    (hN : N ∈ [Shape.nil, EC [entry0], EC [entryOkCls, entry0], EC [entryOkCls]]) :
    metaMk D O mapOkCls N ∈ shapes_ReadMetaLeaseSet := by
  simp only [List.mem_cons, List.not_mem_nil, or_false] at hN
  rcases hD with rfl | rfl <;> rcases hO with rfl | rfl <;>
    rcases hN with rfl | rfl | rfl | rfl <;> decide

theorem meta_mem_0 {D O : Shape} (hD : D = S [kacClsPad] ∨ D = S [kacClsNoPad]) (hO : O = .nil ∨ O = .ptr offCls) :
    metaMk D O map0 .nil ∈ shapes_ReadMetaLeaseSet := by
  rcases hD with rfl | rfl <;> rcases hO with rfl | rfl <;> decide

theorem entryOk_ne_entry0 : entryOkCls ≠ entry0 := by decide

theorem metaTail_cls {D O M : Shape} {r : Bytes} {sigT : Nat} {o : Obs}
    (hD : D.cls = S [kacClsPad] ∨ D.cls = S [kacClsNoPad]) (hO : O.cls = .nil ∨ O.cls = .ptr offCls)
    (hM : M.cls = mapOkCls) (h : metaTail D O M r sigT = some o) : o.shape.cls ∈ shapes_ReadMetaLeaseSet := by
  have key : ∀ N : Shape, N.cls ∈ [Shape.nil, EC [entry0], EC [entryOkCls, entry0], EC [entryOkCls]] →
      (S [D, .scalar, .scalar, .scalar, O, M, .scalar, N, sig0]).cls ∈ shapes_ReadMetaLeaseSet := by
    intro N hN
    have := meta_mem_ok hD hO hN
    simpa [cls, metaMk, hM] using this
  unfold metaTail at h
  simp only [] at h
  split at h
  · cases h; exact key _ (by simp [cls])
  · rename_i ne r1
    split at h
    · cases h; exact key _ (by simp [cls])
    · have hspec := entriesWalk_spec ne.toNat r1 [] (by simp)
      split at h
      · rename_i es hk
        cases h
        obtain ⟨p, m, rfl, hp⟩ := hspec.2 es hk
        apply key
        by_cases hpe : p = []
        · subst hpe
          rw [List.nil_append, E_cls_all (a := entry0) (by intro x hx; rw [List.eq_of_mem_replicate hx]; simp) (by simp)]
          simp
        · rw [E_cls_two entryOk_ne_entry0 hp (by intro x hx; rw [List.eq_of_mem_replicate hx]; simp) hpe (by simp)]
          simp
      · rename_i es r2 hk
        obtain ⟨hall, hlen⟩ := hspec.1 es r2 hk
        have hne : es ≠ [] := by
          intro e; subst e; simp at hlen; omega
        have hK : (E es).cls = EC [entryOkCls] := E_cls_all hall hne
        split at h
        · cases h; apply key; simp [hK]
        · cases h

theorem stopMeta_cls {d : Bytes} {o : Obs} (h : stopMeta d = some o) : o.shape.cls ∈ shapes_ReadMetaLeaseSet := by
  unfold stopMeta at h
  refine stopHdr_ind (P := fun o => o.shape.cls ∈ shapes_ReadMetaLeaseSet) h ?_ ?_ ?_ ?_
  · decide
  · intro k
    have := meta_mem_0 (destOk_cls k) (Or.inl rfl)
    simpa [cls, metaMk] using this
  · intro k flags sigT
    have := meta_mem_0 (destOk_cls k) (offField_cls flags sigT k.kc.spk)
    simpa [cls, metaMk] using this
  · intro k flags sigT r2 r3 ha hc
    exact metaTail_cls (destOk_cls k) (offField_cls _ _ _) (mapShape_accepted ha) hc

theorem raOk_cls {d b r : Bytes} (h : readRouterAddress d = some (b, r)) : (raOk d).cls = raOkCls := by
  unfold readRouterAddress at h
  unfold raOk
  split at h
  · cases h
  · generalize readStr (d.drop 9) = q at h
    obtain ⟨str, r', e⟩ := q
    simp only [] at h ⊢
    split at h
    · cases h
    · split at h
      · cases h
      · rename_i ha
        have ha' : Mapping.accepted (Mapping.readMapping r') = true := by simpa using ha
        simp [cls, raOkCls, mapShape_accepted ha']

theorem addrsWalk_spec (n : Nat) : ∀ (d : Bytes) (acc : List Shape), (∀ x ∈ acc, x.cls = raOkCls) →
    ∀ l o, addrsWalk n d acc = (l, o) → (∀ x ∈ l, x.cls = raOkCls) := by
  induction n with
  | zero =>
    intro d acc hacc l o h
    simp only [addrsWalk, Prod.mk.injEq] at h
    obtain ⟨rfl, _⟩ := h
    exact hacc
  | succ n ih =>
    intro d acc hacc l o h
    unfold addrsWalk at h
    split at h
    · simp only [Prod.mk.injEq] at h
      obtain ⟨rfl, _⟩ := h
      exact hacc
    · rename_i b r hra
      refine ih _ _ ?_ l o h
      intro x hx
      rcases List.mem_append.mp hx with hx | hx
      · exact hacc x hx
      · simp only [List.mem_singleton] at hx; subst hx; exact raOk_cls hra

theorem addrsField_cls {l : List Shape} (h : ∀ x ∈ l, x.cls = raOkCls) :
    (addrsField l).cls = .nil ∨ (addrsField l).cls = EC [raOkCls] := by
  unfold addrsField
  cases l with
  | nil => left; rfl
  | cons a t => right; simpa using E_cls_all h (by simp)

theorem ridOk_cls (k : KeysAndCert) : (ridOk k).cls = .ptr (S [kacClsPad]) ∨ (ridOk k).cls = .ptr (S [kacClsNoPad]) := by
  rcases kacOk_cls k with h | h
  · left; simp [ridOk, cls, h]
  · right; simp [ridOk, cls, h]

theorem ri_mem {R A P M : Shape} (hR : R = .ptr (S [kacClsPad]) ∨ R = .ptr (S [kacClsNoPad]))
    (hA : A = .nil ∨ A = EC [raOkCls])
    (hPM : (P, M) ∈ [(Shape.nil, Shape.nil), (.ptr .bstar, .ptr map0), (.ptr .bstar, .ptr mapNoValsCls), (.ptr .bstar, .ptr mapOkCls)]) :
    riMk R (.ptr (.arr 8)) (.ptr .bstar) A P M ∈ shapes_ReadRouterInfo := by
  simp only [List.mem_cons, Prod.mk.injEq, List.not_mem_nil, or_false] at hPM
  rcases hR with rfl | rfl <;> rcases hA with rfl | rfl <;>
    rcases hPM with ⟨rfl, rfl⟩ | ⟨rfl, rfl⟩ | ⟨rfl, rfl⟩ | ⟨rfl, rfl⟩ <;> decide

theorem stopRI_cls {d : Bytes} {o : Obs} (h : stopRI d = some o) : o.shape.cls ∈ shapes_ReadRouterInfo := by
  unfold stopRI at h
  split at h
  · cases h; decide
  rename_i k r hk
  simp only [] at h
  have hR := ridOk_cls k
  split at h
  · cases h
    rcases hR with hR | hR <;> simp [cls, hR] <;> decide
  split at h
  · cases h
    rcases hR with hR | hR <;> simp [cls, hR] <;> decide
  rename_i n r1 hr1
  have key : ∀ A P M : Shape, (A.cls = .nil ∨ A.cls = EC [raOkCls]) →
      (P.cls, M.cls) ∈ [(Shape.nil, Shape.nil), (.ptr .bstar, .ptr map0), (.ptr .bstar, .ptr mapNoValsCls), (.ptr .bstar, .ptr mapOkCls)] →
      (S [ridOk k, .ptr (.arr 8), .ptr (.bytes 1), A, P, M, .nil]).cls ∈ shapes_ReadRouterInfo := by
    intro A P M hA hPM
    have := ri_mem hR hA hPM
    simpa [cls, riMk] using this
  split at h
  · rename_i as has
    cases h
    exact key _ _ _ (addrsField_cls (addrsWalk_spec _ _ _ (by simp) _ _ has)) (by simp [cls])
  rename_i as r2 has
  have hA := addrsField_cls (addrsWalk_spec _ _ _ (by simp) _ _ has)
  split at h
  · cases h
    exact key _ _ _ hA (by simp [cls])
  rename_i b r3
  have hm := mapShape_cls r3
  simp only [shapes_ReadMapping, List.mem_cons, List.not_mem_nil, or_false] at hm
  split at h
  · cases h
    apply key _ _ _ hA
    rcases hm with hm | hm | hm <;> simp [cls, hm]
  · rename_i hacc
    have hacc' : Mapping.accepted (Mapping.readMapping r3) = true := by simpa using hacc
    split at h
    · cases h
      apply key _ _ _ hA
      simp [cls, mapShape_accepted hacc']
    · cases h

/-! ### the `stop…` functions stop exactly when the reader models reject -/

theorem stopStr_none (d : Bytes) : stopStr d = none ↔ (readStr d).2.2 = none := by
  unfold stopStr
  split <;> simp_all

theorem stopMapping_none (d : Bytes) : stopMapping d = none ↔ (Mapping.readMapping d).errs = [] := by
  unfold stopMapping
  simp only []
  split <;> simp_all [List.isEmpty_iff]

theorem stopNewMapping_none (d : Bytes) : stopNewMapping d = none ↔ (Mapping.readMapping d).errs = [] := by
  unfold stopNewMapping
  simp only []
  split <;> simp_all [List.isEmpty_iff]

theorem stopOffSig_none (d : Bytes) (t : Nat) : stopOffSig d t = none ↔ (readOffSig d t).isSome = true := by
  unfold stopOffSig readOffSig
  simp only []
  repeat' split
  all_goals simp_all

theorem stopKacFast_none (c : Nat) (w : Bytes) : stopKacFast c w = none ↔ (readKacFast c w).isSome = true := by
  unfold stopKacFast readKacFast
  repeat' split
  all_goals simp_all

theorem stopRA_none (d : Bytes) : stopRA d = none ↔ (readRouterAddress d).isSome = true := by
  unfold stopRA readRouterAddress
  split
  · simp
  · generalize readStr (d.drop 9) = q
    obtain ⟨str, r, e⟩ := q
    simp only []
    repeat' split
    all_goals simp_all

theorem stopELS_none (d : Bytes) : stopELS d = none ↔ (readELS d).isSome = true := by
  unfold stopELS readELS elsTail
  simp only []
  by_cases h1 : d.length < 109
  · simp only [if_pos h1]; simp
  simp only [if_neg h1]
  by_cases h2 : sigPubSize (beVal (d.take 2)) = 0
  · simp only [if_pos h2]; simp
  simp only [if_neg h2]
  by_cases h3 : (d.drop 2).length < sigPubSize (beVal (d.take 2))
  · simp only [if_pos h3]; simp
  simp only [if_neg h3]
  generalize (d.drop 2).drop (sigPubSize (beVal (d.take 2))) = r
  by_cases h4 : r.length < 8
  · simp only [if_pos h4]; simp
  simp only [if_neg h4]
  by_cases h5 : beVal ((r.drop 6).take 2) / 4 ≠ 0
  · simp only [if_pos h5]; simp
  simp only [if_neg h5]
  cases hoff : (if beVal ((r.drop 6).take 2) % 2 = 1 then readOffSig (r.drop 8) (beVal (d.take 2)) else some ([], r.drop 8, beVal (d.take 2))) with
  | none => simp
  | some q =>
    obtain ⟨ob, r2, sigT⟩ := q
    simp only []
    by_cases h6 : r2.length < 2
    · simp only [if_pos h6]; simp
    simp only [if_neg h6]
    by_cases h7 : beVal (r2.take 2) = 0
    · simp only [if_pos h7]; simp
    simp only [if_neg h7]
    by_cases h8 : (r2.drop 2).length < beVal (r2.take 2)
    · simp only [if_pos h8]; simp
    simp only [if_neg h8]
    cases hs : readSig ((r2.drop 2).drop (beVal (r2.take 2))) sigT with
    | none => simp
    | some q2 =>
      simp only []
      by_cases h9 : beVal ((r.drop 4).take 2) = 0
      · simp only [if_pos h9]; simp
      simp only [if_neg h9]
      by_cases h10 : beVal (r2.take 2) < 61
      · simp only [if_pos h10]; simp
      simp only [if_neg h10]; simp

theorem keysWalk_readKeys (n : Nat) : ∀ (d : Bytes) (acc : List Shape) (acc' : Bytes),
    (keysWalk n d acc).2 = (readKeys n d acc').map (·.2) := by
  induction n with
  | zero => intro d acc acc'; rfl
  | succ n ih =>
    intro d acc acc'
    unfold keysWalk readKeys
    by_cases h1 : d.length < 4
    · simp only [if_pos h1]; rfl
    simp only [if_neg h1]
    by_cases h2 : (d.drop 4).length < beVal ((d.drop 2).take 2)
    · simp only [if_pos h2]; rfl
    simp only [if_neg h2]
    exact ih _ _ _

theorem entriesWalk_readEntries (n : Nat) : ∀ (d : Bytes) (acc : List Shape) (acc' : Bytes),
    (entriesWalk n d acc).2 = (readEntries n d acc').map (·.2) := by
  induction n with
  | zero => intro d acc acc'; rfl
  | succ n ih =>
    intro d acc acc'
    unfold entriesWalk readEntries
    by_cases h1 : d.length < 40
    · simp only [if_pos h1]; rfl
    simp only [if_neg h1]
    by_cases h2 : (!((d.drop 32).take 1 == [1] || (d.drop 32).take 1 == [3] || (d.drop 32).take 1 == [5])) = true
    · simp only [if_pos h2]; rfl
    simp only [if_neg h2]
    cases hopt : readOptions (d.drop 38) true with
    | none => rfl
    | some q => exact ih _ _ _

theorem addrsWalk_readAddrs (n : Nat) : ∀ (d : Bytes) (acc : List Shape) (acc' : Bytes),
    (addrsWalk n d acc).2 = (readAddrs n d acc').map (·.2) := by
  induction n with
  | zero => intro d acc acc'; rfl
  | succ n ih =>
    intro d acc acc'
    unfold addrsWalk readAddrs
    cases hra : readRouterAddress d with
    | none => rfl
    | some q => exact ih _ _ _

theorem stopHdr_none {minLen : Nat} {z : Shape} {part : Shape → Shape → Shape → Shape}
    {cont : Shape → Shape → Shape → Bytes → Nat → Option Obs} {contR : Bytes → Bytes → Nat → P}
    (hcont : ∀ D O M hb r sigT, cont D O M r sigT = none ↔ (contR hb r sigT).isSome = true) (d : Bytes) :
    stopHdr minLen z part cont d = none ↔ (withHdr minLen contR d).isSome = true := by
  unfold stopHdr withHdr
  by_cases h1 : d.length < minLen
  · simp only [if_pos h1]; simp
  simp only [if_neg h1]
  cases hd : readDestination d with
  | none => simp
  | some q =>
    obtain ⟨k, r⟩ := q
    obtain ⟨db, hdb, _⟩ := readDestination_consumed hd
    simp only [hdb]
    by_cases h2 : r.length < 8
    · simp only [if_pos h2]; simp
    simp only [if_neg h2]
    have e : FailShape.offStage = Structs.offStage := rfl
    rw [e]
    cases ho : Structs.offStage (beVal ((r.drop 6).take 2)) (r.drop 8) k.kc.spk with
    | none => simp
    | some q2 =>
      obtain ⟨ob, r2, sigT⟩ := q2
      simp only []
      cases hopt : readOptions r2 true with
      | none => simp
      | some q3 =>
        obtain ⟨optb, r3⟩ := q3
        simp only []
        exact hcont _ _ _ _ _ _

theorem ls2Tail_none (D O M : Shape) (hb r : Bytes) (sigT : Nat) :
    ls2Tail D O M r sigT = none ↔ (ls2Cont hb r sigT).isSome = true := by
  unfold ls2Tail ls2Cont
  simp only []
  cases r with
  | nil => simp
  | cons nk r =>
    simp only []
    by_cases h1 : nk.toNat < 1 ∨ nk.toNat > 16
    · simp only [if_pos h1]; simp
    simp only [if_neg h1]
    have hw := keysWalk_readKeys nk.toNat r [] []
    cases hk : readKeys nk.toNat r [] with
    | none =>
      rw [hk] at hw
      generalize keysWalk nk.toNat r [] = q at hw
      obtain ⟨ks, o⟩ := q
      simp only [Option.map_none] at hw
      subst hw
      simp
    | some q =>
      obtain ⟨kb, r2⟩ := q
      rw [hk] at hw
      generalize keysWalk nk.toNat r [] = q' at hw
      obtain ⟨ks, o⟩ := q'
      simp only [Option.map_some] at hw
      subst hw
      simp only []
      cases r2 with
      | nil => simp
      | cons nl r3 =>
        simp only []
        by_cases h2 : nl.toNat > 16
        · simp only [if_pos h2]; simp
        simp only [if_neg h2]
        cases hf : readFixed nl.toNat 40 r3 with
        | none => simp
        | some q2 =>
          obtain ⟨lb, r4⟩ := q2
          simp only []
          cases hs : readSig r4 sigT with
          | none => simp
          | some q3 => simp

theorem stopLS2_none (d : Bytes) : stopLS2 d = none ↔ (readLeaseSet2 d).isSome = true := by
  rw [readLeaseSet2_eq]
  exact stopHdr_none (fun D O M hb r sigT => ls2Tail_none D O M hb r sigT) d

theorem metaTail_none (D O M : Shape) (hb r : Bytes) (sigT : Nat) :
    metaTail D O M r sigT = none ↔ (metaCont hb r sigT).isSome = true := by
  unfold metaTail metaCont
  simp only []
  cases r with
  | nil => simp
  | cons ne r =>
    simp only []
    by_cases h1 : ne.toNat < 1 ∨ ne.toNat > 16
    · simp only [if_pos h1]; simp
    simp only [if_neg h1]
    have hw := entriesWalk_readEntries ne.toNat r [] []
    cases hk : readEntries ne.toNat r [] with
    | none =>
      rw [hk] at hw
      generalize entriesWalk ne.toNat r [] = q at hw
      obtain ⟨es, o⟩ := q
      simp only [Option.map_none] at hw
      subst hw
      simp
    | some q =>
      obtain ⟨eb, r2⟩ := q
      rw [hk] at hw
      generalize entriesWalk ne.toNat r [] = q' at hw
      obtain ⟨es, o⟩ := q'
      simp only [Option.map_some] at hw
      subst hw
      simp only []
      cases hs : readSig r2 sigT with
      | none => simp
      | some q3 => simp

theorem stopMeta_none (d : Bytes) : stopMeta d = none ↔ (readMeta d).isSome = true := by
  rw [readMeta_eq]
  exact stopHdr_none (fun D O M hb r sigT => metaTail_none D O M hb r sigT) d

theorem stopRI_none (d : Bytes) : stopRI d = none ↔ (readRouterInfo d).isSome = true := by
  unfold stopRI readRouterInfo
  cases hd : readRouterIdentity d with
  | none => simp
  | some q =>
    obtain ⟨k, r⟩ := q
    obtain ⟨ib, hib, _⟩ := readRouterIdentity_consumed hd
    simp only [hib]
    by_cases h1 : r.length < 8
    · simp only [if_pos h1]; simp
    simp only [if_neg h1]
    cases hr : r.drop 8 with
    | nil =>
      simp [readAddrs, beVal, Mapping.readMapping, Mapping.accepted]
    | cons n r1 =>
      simp only [List.take_succ_cons, List.take_zero, List.drop_succ_cons, List.drop_zero]
      have hn : beVal [n] = n.toNat := by simp [beVal]
      rw [hn]
      have hw := addrsWalk_readAddrs n.toNat r1 [] []
      cases hk : readAddrs n.toNat r1 [] with
      | none =>
        rw [hk] at hw
        generalize addrsWalk n.toNat r1 [] = q at hw
        obtain ⟨as, o⟩ := q
        simp only [Option.map_none] at hw
        subst hw
        simp
      | some q =>
        obtain ⟨ab, r2⟩ := q
        rw [hk] at hw
        generalize addrsWalk n.toNat r1 [] = q' at hw
        obtain ⟨as, o⟩ := q'
        simp only [Option.map_some] at hw
        subst hw
        simp only []
        cases r2 with
        | nil => simp [Mapping.readMapping, Mapping.accepted]
        | cons p r3 =>
          simp only [List.drop_succ_cons, List.drop_zero]
          by_cases h2 : (!Mapping.accepted (Mapping.readMapping r3)) = true
          · simp only [if_pos h2]; simp
          simp only [if_neg h2]
          cases hs : readSig (Mapping.readMapping r3).rem (if (d.drop 384).take 1 == [5] then k.kc.spk else 0) with
          | none => simp
          | some q3 => simp

/-! ### the zero flag: a value reported as zero has the zero shape of its type -/

theorem stopStr_zero {d : Bytes} {o : Obs} (h : stopStr d = some o) (hz : o.zero = true) : o.shape = .nil := by
  unfold stopStr at h
  split at h
  · cases h
  · cases h; rfl
  · cases h; simp at hz

theorem stopMapping_zero {d : Bytes} {o : Obs} (h : stopMapping d = some o) (hz : o.zero = true) : o.shape = map0 := by
  unfold stopMapping at h
  simp only [] at h
  split at h
  · cases h
  · cases h
    simp only [Bool.not_eq_true'] at hz
    simp only [mapShape, hz, readMapping_noSize d hz]
    rfl

theorem stopOffSig_zero {d : Bytes} {t : Nat} {o : Obs} (h : stopOffSig d t = some o) (hz : o.zero = true) :
    o.shape = off0 := by
  unfold stopOffSig at h
  simp only [] at h
  repeat' split at h
  all_goals cases h
  all_goals first | rfl | simp at hz

theorem stopKacFast_zero {c : Nat} {w : Bytes} {o : Obs} (h : stopKacFast c w = some o) (hz : o.zero = true) :
    o.shape = .nil := by
  unfold stopKacFast at h
  repeat' split at h
  all_goals cases h
  all_goals first | rfl | simp at hz

theorem stopRA_zero {d : Bytes} {o : Obs} (h : stopRA d = some o) (hz : o.zero = true) : o.shape = ra0 := by
  unfold stopRA at h
  split at h
  · cases h; rfl
  · generalize readStr (d.drop 9) = q at h
    obtain ⟨str, r, e⟩ := q
    simp only [] at h
    repeat' split at h
    all_goals cases h
    all_goals simp at hz

theorem elsTail_zero {K O : Shape} {r : Bytes} {e t : Nat} {o : Obs} (h : elsTail K O r e t = some o)
    (hz : o.zero = true) : o.shape = els0 := by
  unfold elsTail at h
  simp only [] at h
  repeat' split at h
  all_goals cases h
  all_goals first | rfl | simp at hz

theorem stopELS_zero {d : Bytes} {o : Obs} (h : stopELS d = some o) (hz : o.zero = true) : o.shape = els0 := by
  unfold stopELS at h
  simp only [] at h
  repeat' split at h
  all_goals try (cases h; done)
  all_goals try (cases h; first | rfl | (simp at hz; done))
  all_goals exact elsTail_zero h hz

theorem ls2Tail_zero {D O M : Shape} {r : Bytes} {sigT : Nat} {o : Obs} (h : ls2Tail D O M r sigT = some o) :
    o.zero = false := by
  unfold ls2Tail at h
  simp only [] at h
  repeat' split at h
  all_goals cases h
  all_goals rfl

theorem metaTail_zero {D O M : Shape} {r : Bytes} {sigT : Nat} {o : Obs} (h : metaTail D O M r sigT = some o) :
    o.zero = false := by
  unfold metaTail at h
  simp only [] at h
  repeat' split at h
  all_goals cases h
  all_goals rfl

theorem stopLS2_zero {d : Bytes} {o : Obs} (h : stopLS2 d = some o) (hz : o.zero = true) : o.shape = ls20 := by
  unfold stopLS2 at h
  refine stopHdr_ind (P := fun o => o.zero = true → o.shape = ls20) h ?_ ?_ ?_ ?_ hz
  · intro _; rfl
  · intro k hk; simp at hk
  · intro k f s hk; simp at hk
  · intro k f s r2 r3 _ hc hk; rw [ls2Tail_zero hc] at hk; simp at hk

theorem stopMeta_zero {d : Bytes} {o : Obs} (h : stopMeta d = some o) (hz : o.zero = true) : o.shape = meta0 := by
  unfold stopMeta at h
  refine stopHdr_ind (P := fun o => o.zero = true → o.shape = meta0) h ?_ ?_ ?_ ?_ hz
  · intro _; rfl
  · intro k hk; simp at hk
  · intro k f s hk; simp at hk
  · intro k f s r2 r3 _ hc hk; rw [metaTail_zero hc] at hk; simp at hk

/-- every value `ReadRouterInfo` hands out with an error is the zero value or has its identity and a nil signature -/
theorem stopRI_ind {P : Obs → Prop} {d : Bytes} {o : Obs} (h : stopRI d = some o) (hz : P ⟨true, ri0⟩)
    (hp : ∀ (k : KeysAndCert) (dt sz A p m : Shape), P ⟨false, S [ridOk k, dt, sz, A, p, m, .nil]⟩) : P o := by
  unfold stopRI at h
  split at h
  · cases h; exact hz
  rename_i k r hk
  simp only [] at h
  split at h
  · cases h; exact hp ..
  split at h
  · cases h; exact hp ..
  split at h
  · cases h; exact hp ..
  split at h
  · cases h; exact hp ..
  split at h
  · cases h; exact hp ..
  split at h
  · cases h; exact hp ..
  · cases h

theorem stopRI_zero {d : Bytes} {o : Obs} (h : stopRI d = some o) (hz : o.zero = true) : o.shape = ri0 := by
  refine stopRI_ind (P := fun o => o.zero = true → o.shape = ri0) h ?_ ?_ hz
  · intro _; rfl
  · intro k dt sz A p m hk; simp at hk

/-! ### the signature field of a value handed out with an error -/

theorem elsTail_sig {K O : Shape} {r : Bytes} {e t : Nat} {o : Obs} (h : elsTail K O r e t = some o) :
    o.shape.field 8 = sig0 := by
  unfold elsTail at h
  simp only [] at h
  repeat' split at h
  all_goals cases h
  all_goals rfl

/-- `EncryptedLeaseSet.signature` is `Signature{}` (nil data) in every failed-parse value -/
theorem stopELS_sig {d : Bytes} {o : Obs} (h : stopELS d = some o) : o.shape.field 8 = sig0 := by
  unfold stopELS at h
  simp only [] at h
  repeat' split at h
  all_goals try (cases h; done)
  all_goals try (cases h; rfl)
  all_goals exact elsTail_sig h

theorem ls2Tail_sig {D O M : Shape} {r : Bytes} {sigT : Nat} {o : Obs} (h : ls2Tail D O M r sigT = some o) :
    o.shape.field 8 = sig0 := by
  unfold ls2Tail at h
  simp only [] at h
  repeat' split at h
  all_goals cases h
  all_goals rfl

theorem metaTail_sig {D O M : Shape} {r : Bytes} {sigT : Nat} {o : Obs} (h : metaTail D O M r sigT = some o) :
    o.shape.field 8 = sig0 := by
  unfold metaTail at h
  simp only [] at h
  repeat' split at h
  all_goals cases h
  all_goals rfl

/-- `LeaseSet2.signature` is `Signature{}` (nil data) in every failed-parse value -/
theorem stopLS2_sig {d : Bytes} {o : Obs} (h : stopLS2 d = some o) : o.shape.field 8 = sig0 := by
  unfold stopLS2 at h
  refine stopHdr_ind (P := fun o => o.shape.field 8 = sig0) h ?_ ?_ ?_ ?_
  · rfl
  · intro k; rfl
  · intro k f s; rfl
  · intro k f s r2 r3 _ hc; exact ls2Tail_sig hc

/-- `MetaLeaseSet.signature` is `Signature{}` (nil data) in every failed-parse value -/
theorem stopMeta_sig {d : Bytes} {o : Obs} (h : stopMeta d = some o) : o.shape.field 8 = sig0 := by
  unfold stopMeta at h
  refine stopHdr_ind (P := fun o => o.shape.field 8 = sig0) h ?_ ?_ ?_ ?_
  · rfl
  · intro k; rfl
  · intro k f s; rfl
  · intro k f s r2 r3 _ hc; exact metaTail_sig hc

/-- `RouterInfo.signature` is a nil pointer in every failed-parse value -/
theorem stopRI_sig {d : Bytes} {o : Obs} (h : stopRI d = some o) : o.shape.field 6 = .nil :=
  stopRI_ind (P := fun o => o.shape.field 6 = .nil) h rfl (fun _ _ _ _ _ _ => rfl)

end I2P.FailShape
