import I2P.Verify
import I2P.Proofs.StructLemmas
/-! Lemmas behind property C05: the field-level parsers of `I2P/Verify.lean` against the byte-level readers
    (`parseX_spec`, `parseX_complete`), and what a successful `verifyX` implies (`verifyX_sound`).  Core-only. -/

namespace I2P.Verify
open I2P I2P.Spec I2P.Kac I2P.Structs I2P.Mapping

/-! ### generic helpers -/

/-- the consumed extent of the input, recovered from the remainder -/
theorem take_sub_rem (b r : Bytes) : (b ++ r).take ((b ++ r).length - r.length) = b := by
  rw [List.length_append, Nat.add_sub_cancel]
  exact List.take_left' rfl

theorem length_drop_sub (b : Bytes) (n : Nat) (h : n ≤ b.length) : (b.drop (b.length - n)).length = n := by
  rw [List.length_drop]; omega

theorem readKac_rem {w : Bytes} {k : KeysAndCert} {r : Bytes} (h : readKac w = some (k, r)) :
    r = w.drop (idLen w) := by
  obtain ⟨_, hp, _⟩ := readKac_struct h
  obtain ⟨_, _, _, hr⟩ := readCert_some.mp (KcParse_readCert hp)
  rw [hr, List.drop_drop, List.drop_drop]
  unfold idLen
  congr 1
  show 384 + (3 + beVal (List.take 2 (List.drop 385 w))) = _
  omega

/-- the signing key of an accepted identity is the tail of the 384-byte key block of the input -/
theorem readKac_sigkey {w : Bytes} {k : KeysAndCert} {r : Bytes} (h : readKac w = some (k, r)) :
    k.sig = (w.take 384).drop (384 - sigPubSize k.kc.spk) ∧ sigConstructible k.kc.spk = true ∧
    k.sig.length = sigPubSize k.kc.spk := by
  obtain ⟨_, _, _, hs, _, _, hS, _⟩ := readKac_struct h
  exact ⟨hS, hs, (readKac_layout h).2.2.2.2.2.1⟩

/-! ### key construction -/

/-- on a key of the type's own size `ConstructSigningPublicKeyByType` returns the bytes unchanged, and
    succeeds exactly for the constructible types -/
theorem constructKey_of_size {t : Nat} {key : Bytes} (hl : key.length = sigPubSize t) :
    constructKey t key = if sigConstructible t then some key else none := by
  unfold constructKey
  split
  · have : key.length = 128 := hl
    rw [if_neg (by omega), List.take_of_length_le (by omega)]; rfl
  · have : key.length = 64 := hl
    rw [if_neg (by omega), if_neg (by omega), List.take_of_length_le (by omega)]; rfl
  · have : key.length = 96 := hl
    rw [if_neg (by omega), if_neg (by omega), List.take_of_length_le (by omega)]; rfl
  · have : key.length = 32 := hl
    rw [if_neg (by omega)]; rfl
  · have : key.length = 32 := hl
    rw [if_neg (by omega)]; rfl
  · have : key.length = 32 := hl
    rw [if_neg (by omega)]; rfl
  · rename_i h0 h1 h2 h7 h8 h11
    have : sigConstructible t = false := by
      unfold sigConstructible
      split <;> first | rfl | (exfalso; simp_all)
    rw [this]; rfl

theorem constructKey_some {t : Nat} {key k : Bytes} (hl : key.length = sigPubSize t)
    (h : constructKey t key = some k) : k = key ∧ sigConstructible t = true := by
  rw [constructKey_of_size hl] at h
  cases hc : sigConstructible t with
  | false => rw [hc] at h; simp at h
  | true => rw [hc] at h; simp at h; exact ⟨h.symm, rfl⟩

theorem offAlgOf_some {t a : Nat} (h : offAlgOf t = some a) :
    (t = 7 ∧ a = 7) ∨ (t = 11 ∧ a = 7) ∨ (t = 8 ∧ a = 8) := by
  unfold offAlgOf at h
  split at h <;> simp_all

/-! ### `OfflineSignature.VerifySignature` -/

/-- what `VerifySignature(destKey) = (true, nil)` implies -/
theorem verifyOffline_sound {C : SigScheme} {o : OffBlock} {key : Bytes} (h : verifyOffline C o key = true) :
    beVal o.expires ≠ 0 ∧ sigPubSize o.ttype ≠ 0 ∧ o.tkey.length = sigPubSize o.ttype ∧
    o.sig.length = sigLen o.destType ∧ key.length = 32 ∧
    ∃ a, offAlgOf o.destType = some a ∧ C.verify a key o.signedData o.sig = true := by
  unfold verifyOffline at h
  split at h
  · cases h
  rename_i h1
  split at h
  · cases h
  rename_i h2
  split at h
  · cases h
  rename_i h3
  split at h
  · cases h
  rename_i h4
  split at h
  · cases h
  rename_i h5
  split at h
  · cases h
  rename_i a ha
  split at h
  · cases h
  rename_i h6
  exact ⟨h1, h2, by omega, by omega, by omega, a, ha, h⟩

theorem verifyOffline_eq_obl (C : SigScheme) (o : OffBlock) (key : Bytes) :
    verifyOffline C o key = (match oblOffline o key with | none => false | some b => C.holds b) := by
  unfold verifyOffline oblOffline
  by_cases h1 : beVal o.expires = 0
  · rw [if_pos h1, if_pos h1]
  rw [if_neg h1, if_neg h1]
  by_cases h2 : sigPubSize o.ttype = 0
  · rw [if_pos h2, if_pos h2]
  rw [if_neg h2, if_neg h2]
  by_cases h3 : o.tkey.length ≠ sigPubSize o.ttype
  · rw [if_pos h3, if_pos h3]
  rw [if_neg h3, if_neg h3]
  by_cases h4 : sigLen o.destType = 0
  · rw [if_pos h4, if_pos h4]
  rw [if_neg h4, if_neg h4]
  by_cases h5 : o.sig.length ≠ sigLen o.destType
  · rw [if_pos h5, if_pos h5]
  rw [if_neg h5, if_neg h5]
  cases offAlgOf o.destType with
  | none => rfl
  | some a =>
    simp only []
    by_cases h6 : key.length ≠ 32
    · rw [if_pos h6, if_pos h6]
    · rw [if_neg h6, if_neg h6]; rfl

/-! ### the offline stage -/

theorem offPart_eq (flags : Nat) (r : Bytes) (t : Nat) :
    offPart flags r t =
      (offStage flags r t).map
        (fun x => (if flags % 2 = 1 then some (offFields x.1 t) else none, x.2.2)) := by
  unfold offPart offStage
  by_cases hf : flags % 2 = 1
  · simp only [hf, if_true]
    cases readOffSig r t with
    | none => rfl
    | some q => obtain ⟨ob, r2, st⟩ := q; rfl
  · simp only [hf, if_false]; rfl

/-- a block of the right total length is expires ‖ type ‖ transient key ‖ signature, field by field -/
theorem offFields_join (ob : Bytes) (t : Nat)
    (hl : ob.length = 6 + sigPubSize (beVal ((ob.drop 4).take 2)) + sigLen t) :
    (offFields ob t).signedData ++ (offFields ob t).sig = ob ∧ (offFields ob t).expires.length = 4 ∧
    (offFields ob t).tkey.length = sigPubSize (beVal ((ob.drop 4).take 2)) ∧
    (offFields ob t).sig.length = sigLen t := by
  generalize hks : sigPubSize (beVal ((ob.drop 4).take 2)) = ks at hl
  have hexp : (offFields ob t).expires = ob.take 4 := rfl
  have htt : (offFields ob t).ttype = beVal ((ob.drop 4).take 2) := rfl
  have hkey : (offFields ob t).tkey = (ob.drop 6).take ks := by rw [← hks]; rfl
  have hsig : (offFields ob t).sig = (ob.drop (6 + ks)).take (sigLen t) := by rw [← hks]; rfl
  have hty : beEnc 2 (offFields ob t).ttype = (ob.drop 4).take 2 := by
    rw [htt]
    have hl2 : ((ob.drop 4).take 2).length = 2 := by
      rw [List.length_take, List.length_drop]; omega
    have := beEnc_beVal ((ob.drop 4).take 2)
    rwa [hl2] at this
  refine ⟨?_, ?_, ?_, ?_⟩
  · show ((offFields ob t).expires ++ beEnc 2 (offFields ob t).ttype ++ (offFields ob t).tkey) ++ (offFields ob t).sig = ob
    rw [hty, hexp, hkey, hsig]
    have hfull : (ob.drop (6 + ks)).take (sigLen t) = ob.drop (6 + ks) := by
      rw [List.take_of_length_le]; rw [List.length_drop]; omega
    rw [hfull]
    have a1 : ob.take 4 ++ (ob.drop 4).take 2 = ob.take 6 := (take_add_eq ob 4 2).symm
    have a2 : ob.take 6 ++ (ob.drop 6).take ks = ob.take (6 + ks) := (take_add_eq ob 6 ks).symm
    rw [a1, a2, List.take_append_drop]
  · rw [hexp, List.length_take]; omega
  · rw [hkey, List.length_take, List.length_drop]; omega
  · rw [hsig, List.length_take, List.length_drop]; omega

/-- the block `readOffSig` accepted, field by field -/
theorem offFields_layout {d : Bytes} {t : Nat} {ob r : Bytes} {st : Nat}
    (h : readOffSig d t = some (ob, r, st)) :
    (offFields ob t).ttype = st ∧ (offFields ob t).destType = t ∧ (offFields ob t).expires.length = 4 ∧
    (offFields ob t).tkey.length = sigPubSize st ∧ (offFields ob t).sig.length = sigLen t ∧
    sigPubSize st ≠ 0 ∧ sigLen t ≠ 0 ∧
    (offFields ob t).signedData ++ (offFields ob t).sig = ob ∧ ob = d.take (6 + sigPubSize st + sigLen t) := by
  obtain ⟨h6, hst, hks, hss, hlen, hob, _⟩ := readOffSig_some.mp h
  have e42 : (ob.drop 4).take 2 = (d.drop 4).take 2 := by
    rw [hob, List.drop_take, List.take_take]; congr 1; omega
  have hl : ob.length = 6 + sigPubSize (beVal ((ob.drop 4).take 2)) + sigLen t := by
    rw [e42, ← hst, hob, List.length_take]; omega
  obtain ⟨hj, he, hk, hs⟩ := offFields_join ob t hl
  rw [e42, ← hst] at hk
  refine ⟨?_, rfl, he, hk, hs, hks, hss, hj, hob⟩
  show beVal ((ob.drop 4).take 2) = st
  rw [e42, hst]

/-! ### LeaseSet2 / MetaLeaseSet: the field-level parser against the staged reader -/

/-- what `parseDestSigned` returns, stage by stage -/
theorem parseDestSigned_spec {read : Bytes → P} {d : Bytes} {p : Parsed} (h : parseDestSigned read d = some p) :
    ∃ k r0 ob r2, read d = some (p.bytes, p.rem) ∧ readDestination d = some (k, r0) ∧
      offStage (beVal ((r0.drop 6).take 2)) (r0.drop 8) k.kc.spk = some (ob, r2, p.sigType) ∧
      p.idType = k.kc.spk ∧ p.idKey = k.sig ∧
      p.flagsOffline = decide (beVal ((r0.drop 6).take 2) % 2 = 1) ∧
      p.off = (if beVal ((r0.drop 6).take 2) % 2 = 1 then some (offFields ob k.kc.spk) else none) ∧
      p.sig = p.bytes.drop (p.bytes.length - sigLen p.sigType) := by
  unfold parseDestSigned at h
  split at h
  · cases h
  rename_i b rem hr
  split at h
  · cases h
  rename_i k r0 hd
  simp only [] at h
  rw [offPart_eq] at h
  cases ho : offStage (beVal ((r0.drop 6).take 2)) (r0.drop 8) k.kc.spk with
  | none => rw [ho] at h; simp at h
  | some q =>
    obtain ⟨ob, r2, sigT⟩ := q
    rw [ho] at h
    simp only [Option.map_some, Option.some.injEq] at h
    subst h
    exact ⟨k, r0, ob, r2, hr, hd, ho, rfl, rfl, rfl, rfl, rfl⟩

/-- a reader built on the common header whose accepted bytes end with the signature -/
def HdrSigned (read : Bytes → P) : Prop :=
  ∀ d b rem, read d = some (b, rem) → ∃ hb r sigT, Hdr d hb r sigT ∧ sigLen sigT ≤ b.length ∧ sigLen sigT ≠ 0

theorem readLeaseSet2_hdrSigned : HdrSigned readLeaseSet2 := by
  intro d b rem h
  obtain ⟨_, hb, r, sigT, hh, ht⟩ := readLeaseSet2_some.mp h
  obtain ⟨nk, r3, kb, nl, r4, lb, r5, sb, _, _, _, _, _, _, hs, rfl⟩ := ht
  refine ⟨hb, r, sigT, hh, ?_, (readSig_some.mp hs).1⟩
  rw [List.length_append, readSig_length hs]; omega

theorem readMeta_hdrSigned : HdrSigned readMeta := by
  intro d b rem h
  obtain ⟨_, hb, r, sigT, hh, ht⟩ := readMeta_some.mp h
  obtain ⟨ne, r3, eb, r4, sb, _, _, _, _, hs, rfl⟩ := ht
  refine ⟨hb, r, sigT, hh, ?_, (readSig_some.mp hs).1⟩
  rw [List.length_append, readSig_length hs]; omega

/-- acceptance is that of the byte-level reader -/
theorem parseDestSigned_complete {read : Bytes → P} (hread : HdrSigned read) {d b rem : Bytes}
    (h : read d = some (b, rem)) : ∃ p, parseDestSigned read d = some p ∧ p.bytes = b ∧ p.rem = rem := by
  obtain ⟨hb, r, sigT, ⟨k, r0, db, ob, r2, optb, hd, _, _, ho, _, _⟩, _⟩ := hread d b rem h
  unfold parseDestSigned
  simp only [h, hd, offPart_eq, ho, Option.map_some]
  exact ⟨_, rfl, rfl, rfl⟩

/-- the signature is the last `sigLen sigType` bytes of the consumed bytes -/
theorem parseDestSigned_sig {read : Bytes → P} (hread : HdrSigned read) {d : Bytes} {p : Parsed}
    (h : parseDestSigned read d = some p) : sigLen p.sigType ≤ p.bytes.length ∧ sigLen p.sigType ≠ 0 ∧
      p.sig.length = sigLen p.sigType := by
  obtain ⟨k, r0, ob, r2, hr, hd, ho, _, _, _, _, hsig⟩ := parseDestSigned_spec h
  obtain ⟨hb, r, sigT, ⟨k', r0', db, ob', r2', optb, hd', _, _, ho', _, _⟩, hle, hne⟩ := hread d _ _ hr
  rw [hd] at hd'
  simp only [Option.some.injEq, Prod.mk.injEq] at hd'
  obtain ⟨rfl, rfl⟩ := hd'
  rw [ho] at ho'
  simp only [Option.some.injEq, Prod.mk.injEq] at ho'
  obtain ⟨_, _, hst⟩ := ho'
  rw [← hst] at hle hne
  exact ⟨hle, hne, by rw [hsig]; exact length_drop_sub _ _ hle⟩

/-! ### what a successful `Verify` implies (no parsing involved) -/

/-- `LeaseSet2.Verify` / `MetaLeaseSet.Verify` succeeded -/
theorem verifyDest_sound {pfx : Bytes} {C : SigScheme} {p : Parsed} (h : verifyDest pfx C p = true) :
    (p.flagsOffline = false ∨ p.off = none →
      sigConstructible p.idType = true ∧ C.verify (algOf p.idType) p.idKey (signedMsg pfx p) p.sig = true) ∧
    (∀ o, p.flagsOffline = true → p.off = some o →
      verifyOffline C o p.idKey = true ∧ C.verify (algOf o.ttype) o.tkey (signedMsg pfx p) p.sig = true) := by
  unfold verifyDest at h
  split at h
  · cases h
  split at h
  · rename_i o hf hoff
    split at h
    · cases h
    rename_i hv
    have hv' : verifyOffline C o p.idKey = true := by
      cases hvo : verifyOffline C o p.idKey with
      | true => rfl
      | false => rw [hvo] at hv; simp at hv
    obtain ⟨_, _, hkl, _⟩ := verifyOffline_sound hv'
    split at h
    · cases h
    rename_i k hk
    obtain ⟨rfl, _⟩ := constructKey_some hkl hk
    refine ⟨?_, ?_⟩
    · rintro (hfl | hn)
      · rw [hf] at hfl; cases hfl
      · rw [hoff] at hn; cases hn
    · intro o' _ ho'
      rw [hoff] at ho'
      obtain rfl := Option.some.inj ho'
      exact ⟨hv', h⟩
  · rename_i hno
    rw [Bool.and_eq_true] at h
    refine ⟨fun _ => h, ?_⟩
    intro o hf ho
    exact (hno o hf ho).elim

/-! ### LeaseSet2 / MetaLeaseSet: characterisation of the field view in terms of the raw input -/

theorem sigLen_of_constructible {t : Nat} (h : sigConstructible t = true) : sigLen t ≠ 0 := by
  rcases sigConstructible_cases h with rfl | rfl | rfl | rfl | rfl | rfl <;> decide

theorem destAllowed_ne8 {s c : Nat} (h : destAllowed s c = true) : s ≠ 8 := by
  rintro rfl
  simp [destAllowed, destProhibitedSig] at h

/-- the offline branch of the header stage, in terms of the bytes it was given -/
theorem offStage_fields {flags : Nat} {r : Bytes} {t : Nat} {ob r2 : Bytes} {sigT : Nat}
    (h : offStage flags r t = some (ob, r2, sigT)) :
    (flags % 2 ≠ 1 → sigT = t) ∧
    (flags % 2 = 1 → (offFields ob t).ttype = sigT ∧ (offFields ob t).destType = t ∧
      (offFields ob t).expires.length = 4 ∧ (offFields ob t).tkey.length = sigPubSize sigT ∧
      (offFields ob t).sig.length = sigLen t ∧
      (offFields ob t).signedData ++ (offFields ob t).sig = r.take (6 + sigPubSize sigT + sigLen t)) := by
  unfold offStage at h
  constructor
  · intro hf
    rw [if_neg hf] at h
    simp only [Option.some.injEq, Prod.mk.injEq] at h
    exact h.2.2.symm
  · intro hf
    rw [if_pos hf] at h
    obtain ⟨h1, h2, h3, h4, h5, _, _, h8, h9⟩ := offFields_layout h
    exact ⟨h1, h2, h3, h4, h5, by rw [h8]; exact h9⟩

/-- (characterisation) everything `parseLS2` / `parseMeta` return, located in the raw input `w` -/
theorem destSigned_facts {read : Bytes → P} (hread : HdrSigned read)
    (hcons : ∀ d b r, read d = some (b, r) → b ++ r = d)
    {w : Bytes} {p : Parsed} (hp : parseDestSigned read w = some p) :
    p.bytes ++ p.rem = w ∧ sigLen p.sigType ≠ 0 ∧
    p.sig = p.bytes.drop (p.bytes.length - sigLen p.sigType) ∧ p.sig.length = sigLen p.sigType ∧
    p.idKey = (w.take 384).drop (384 - sigPubSize p.idType) ∧ p.idKey.length = sigPubSize p.idType ∧
    sigConstructible p.idType = true ∧ p.idType ≠ 8 ∧
    (p.flagsOffline = true ↔ beVal ((w.drop (idLen w + 6)).take 2) % 2 = 1) ∧
    (p.flagsOffline = false → p.off = none ∧ p.sigType = p.idType) ∧
    (p.flagsOffline = true → ∃ o, p.off = some o ∧ o.ttype = p.sigType ∧ o.destType = p.idType ∧
      o.expires.length = 4 ∧ o.tkey.length = sigPubSize o.ttype ∧ o.sig.length = sigLen p.idType ∧
      o.signedData ++ o.sig = (w.drop (idLen w + 8)).take (6 + sigPubSize o.ttype + sigLen p.idType)) := by
  obtain ⟨hle, hne, hsl⟩ := parseDestSigned_sig hread hp
  obtain ⟨k, r0, ob, r2, hr, hd, ho, hit, hik, hfl, hoff, hsig⟩ := parseDestSigned_spec hp
  have hk := readDestination_sub hd
  obtain ⟨hks, hkc, hkl⟩ := readKac_sigkey hk
  have hr0 := readKac_rem hk
  have hflag : ((r0.drop 6).take 2) = (w.drop (idLen w + 6)).take 2 := by rw [hr0, List.drop_drop]
  have hblk : r0.drop 8 = w.drop (idLen w + 8) := by rw [hr0, List.drop_drop]
  obtain ⟨hplain, hoffl⟩ := offStage_fields ho
  refine ⟨hcons _ _ _ hr, hne, hsig, hsl, by rw [hik, hit]; exact hks, by rw [hik, hit]; exact hkl,
    by rw [hit]; exact hkc, by rw [hit]; exact destAllowed_ne8 (readDestination_allowed hd), ?_, ?_, ?_⟩
  · rw [hfl, ← hflag]; exact decide_eq_true_iff
  · intro hf
    rw [hfl] at hf
    have hf' : ¬ beVal ((r0.drop 6).take 2) % 2 = 1 := by simpa using hf
    rw [hoff, if_neg hf', hit]
    exact ⟨rfl, hplain hf'⟩
  · intro hf
    rw [hfl] at hf
    have hf' : beVal ((r0.drop 6).take 2) % 2 = 1 := by simpa using hf
    obtain ⟨h1, h2, h3, h4, h5, h6⟩ := hoffl hf'
    rw [hoff, if_pos hf']
    refine ⟨_, rfl, h1, by rw [h2, hit], h3, by rw [h1]; exact h4, by rw [hit]; exact h5, ?_⟩
    rw [h1, hit, ← hblk]; exact h6

/-! ### EncryptedLeaseSet -/

theorem parseELS_spec {d : Bytes} {p : Parsed} (h : parseELS d = some p) :
    ∃ ob r2, readELS d = some (p.bytes, p.rem) ∧
      offStage (beVal (((d.drop (2 + sigPubSize (beVal (d.take 2)))).drop 6).take 2))
        ((d.drop (2 + sigPubSize (beVal (d.take 2)))).drop 8) (beVal (d.take 2)) = some (ob, r2, p.sigType) ∧
      p.idType = beVal (d.take 2) ∧ p.idKey = (d.drop 2).take (sigPubSize (beVal (d.take 2))) ∧
      p.flagsOffline = decide (beVal (((d.drop (2 + sigPubSize (beVal (d.take 2)))).drop 6).take 2) % 2 = 1) ∧
      p.off = (if beVal (((d.drop (2 + sigPubSize (beVal (d.take 2)))).drop 6).take 2) % 2 = 1
        then some (offFields ob (beVal (d.take 2))) else none) ∧
      p.sig = p.bytes.drop (p.bytes.length - sigLen p.sigType) := by
  unfold parseELS at h
  split at h
  · cases h
  rename_i b rem hr
  simp only [] at h
  rw [offPart_eq] at h
  generalize hfl : beVal (((d.drop (2 + sigPubSize (beVal (d.take 2)))).drop 6).take 2) = flags at h ⊢
  cases ho : offStage flags ((d.drop (2 + sigPubSize (beVal (d.take 2)))).drop 8) (beVal (d.take 2)) with
  | none => rw [ho] at h; simp at h
  | some q =>
    obtain ⟨ob, r2, sigT⟩ := q
    rw [ho] at h
    simp only [Option.map_some, Option.some.injEq] at h
    subst h
    exact ⟨ob, r2, hr, rfl, rfl, rfl, rfl, rfl, rfl⟩

theorem parseELS_complete {d b rem : Bytes} (h : readELS d = some (b, rem)) :
    ∃ p, parseELS d = some p ∧ p.bytes = b ∧ p.rem = rem := by
  obtain ⟨_, _, _, _, _, _, ob, r2, sigT, sb, ho, _⟩ := readELS_some.mp h
  unfold parseELS
  simp only [h, offPart_eq, ho, Option.map_some]
  exact ⟨_, rfl, rfl, rfl⟩

/-- (characterisation) everything `parseELS` returns, located in the raw input `w` -/
theorem els_facts {w : Bytes} {p : Parsed} (hp : parseELS w = some p) :
    p.bytes ++ p.rem = w ∧ sigLen p.sigType ≠ 0 ∧
    p.sig = p.bytes.drop (p.bytes.length - sigLen p.sigType) ∧ p.sig.length = sigLen p.sigType ∧
    p.idType = beVal (w.take 2) ∧ p.idKey = (w.drop 2).take (sigPubSize p.idType) ∧
    p.idKey.length = sigPubSize p.idType ∧
    (p.flagsOffline = true ↔ beVal ((w.drop (2 + sigPubSize p.idType + 6)).take 2) % 2 = 1) ∧
    (p.flagsOffline = false → p.off = none ∧ p.sigType = p.idType) ∧
    (p.flagsOffline = true → ∃ o, p.off = some o ∧ o.ttype = p.sigType ∧ o.destType = p.idType ∧
      o.expires.length = 4 ∧ o.tkey.length = sigPubSize o.ttype ∧ o.sig.length = sigLen p.idType ∧
      o.signedData ++ o.sig =
        (w.drop (2 + sigPubSize p.idType + 8)).take (6 + sigPubSize o.ttype + sigLen p.idType)) := by
  obtain ⟨ob, r2, hr, ho, hit, hik, hfl, hoff, hsig⟩ := parseELS_spec hp
  obtain ⟨_, hks, hlen, _, _, _, ob', r2', sigT, sb, ho', _, _, _, hs, hb⟩ := readELS_some.mp hr
  rw [ho] at ho'
  simp only [Option.some.injEq, Prod.mk.injEq] at ho'
  obtain ⟨_, _, hst⟩ := ho'
  rw [← hst] at hs
  have hle : sigLen p.sigType ≤ p.bytes.length := by
    rw [hb, List.length_append, readSig_length hs]; omega
  obtain ⟨hplain, hoffl⟩ := offStage_fields ho
  rw [← hit] at hplain hoffl hfl hoff hik hks hlen
  rw [List.drop_drop] at hfl hoff hoffl
  rw [List.drop_drop] at hoffl
  refine ⟨readELS_consumed hr, (readSig_some.mp hs).1, hsig, by rw [hsig]; exact length_drop_sub _ _ hle,
    hit, hik, by rw [hik, List.length_take, List.length_drop]; omega, ?_, ?_, ?_⟩
  · rw [hfl]; exact decide_eq_true_iff
  · intro hf
    rw [hfl] at hf
    have hf' : ¬ beVal ((w.drop (2 + sigPubSize p.idType + 6)).take 2) % 2 = 1 := by simpa using hf
    rw [hoff, if_neg hf']
    exact ⟨rfl, hplain (by rw [List.drop_drop]; exact hf')⟩
  · intro hf
    rw [hfl] at hf
    have hf' : beVal ((w.drop (2 + sigPubSize p.idType + 6)).take 2) % 2 = 1 := by simpa using hf
    obtain ⟨h1, h2, h3, h4, h5, h6⟩ := hoffl hf'
    rw [hoff, if_pos hf']
    exact ⟨_, rfl, h1, h2, h3, by rw [h1]; exact h4, h5, by rw [h1]; exact h6⟩

/-- `EncryptedLeaseSet.Verify` succeeded (on a value whose blinded key has the size of its type) -/
theorem verifyELS_sound {C : SigScheme} {p : Parsed} (hkl : p.idKey.length = sigPubSize p.idType)
    (h : verifyELS C p = true) :
    (p.flagsOffline = false ∨ p.off = none →
      sigConstructible p.idType = true ∧ C.verify (algOf p.idType) p.idKey (signedMsg [5] p) p.sig = true) ∧
    (∀ o, p.flagsOffline = true → p.off = some o →
      verifyOffline C o p.idKey = true ∧ C.verify (algOf o.ttype) o.tkey (signedMsg [5] p) p.sig = true) := by
  unfold verifyELS at h
  split at h
  · rename_i o hf hoff
    split at h
    · cases h
    rename_i hv
    have hv' : verifyOffline C o p.idKey = true := by
      cases hvo : verifyOffline C o p.idKey with
      | true => rfl
      | false => rw [hvo] at hv; simp at hv
    obtain ⟨_, _, hkl', _⟩ := verifyOffline_sound hv'
    split at h
    · cases h
    rename_i k hk
    obtain ⟨rfl, _⟩ := constructKey_some hkl' hk
    refine ⟨?_, ?_⟩
    · rintro (hfl | hn)
      · rw [hf] at hfl; cases hfl
      · rw [hoff] at hn; cases hn
    · intro o' _ ho'
      rw [hoff] at ho'
      obtain rfl := Option.some.inj ho'
      exact ⟨hv', h⟩
  · rename_i hno
    split at h
    · cases h
    rename_i k hk
    obtain ⟨rfl, hc⟩ := constructKey_some hkl hk
    refine ⟨fun _ => ⟨hc, h⟩, ?_⟩
    intro o hf ho
    exact (hno o hf ho).elim

/-! ### LeaseSet -/

theorem parseLS_spec {d : Bytes} {p : Parsed} (h : parseLS d = some p) :
    ∃ c rc k r', readLeaseSet d = some (p.bytes, p.rem) ∧ readCert (d.drop 384) = some (c, rc) ∧
      readDestination (d.take (387 + c.declared)) = some (k, r') ∧
      p.idType = k.kc.spk ∧ p.idKey = k.sig ∧ p.flagsOffline = false ∧ p.off = none ∧
      p.sigType = (if c.kind == [5] then k.kc.spk else 0) ∧
      p.sig = p.bytes.drop (p.bytes.length - sigLen p.sigType) := by
  unfold parseLS at h
  split at h
  · cases h
  rename_i b rem hr
  split at h
  · cases h
  rename_i c rc hc
  split at h
  · cases h
  rename_i k r' hd
  simp only [Option.some.injEq] at h
  subst h
  exact ⟨c, rc, k, r', hr, hc, hd, rfl, rfl, rfl, rfl, rfl, rfl⟩

theorem parseLS_complete {d b rem : Bytes} (h : readLeaseSet d = some (b, rem)) :
    ∃ p, parseLS d = some p ∧ p.bytes = b ∧ p.rem = rem := by
  obtain ⟨_, c, rc, k, db, hc, _, hd, _, _⟩ := readLeaseSet_some.mp h
  unfold parseLS
  simp only [h, hc, hd]
  exact ⟨_, rfl, rfl, rfl⟩

/-- (characterisation) everything `parseLS` returns, located in the raw input `w` -/
theorem ls_facts {w : Bytes} {p : Parsed} (hp : parseLS w = some p) :
    p.bytes ++ p.rem = w ∧ sigLen p.sigType ≠ 0 ∧
    p.sig = p.bytes.drop (p.bytes.length - sigLen p.sigType) ∧ p.sig.length = sigLen p.sigType ∧
    p.idKey = (w.take 384).drop (384 - sigPubSize p.idType) ∧ sigConstructible p.idType = true ∧
    p.sigType = p.idType ∧ p.flagsOffline = false ∧ p.off = none := by
  obtain ⟨c, rc, k, r', hr, hc, hd, hit, hik, hfl, hoff, hst, hsig⟩ := parseLS_spec hp
  obtain ⟨_, c', rc', k', db, hc', hlen, hd', _, ht⟩ := readLeaseSet_some.mp hr
  rw [hc] at hc'
  simp only [Option.some.injEq, Prod.mk.injEq] at hc'
  obtain ⟨rfl, rfl⟩ := hc'
  rw [hd] at hd'
  simp only [Option.some.injEq, Prod.mk.injEq] at hd'
  obtain ⟨rfl, _⟩ := hd'
  have hk := readDestination_sub hd
  obtain ⟨hks, hkc, _⟩ := readKac_sigkey hk
  rw [List.take_take, Nat.min_eq_left (by omega)] at hks
  -- the signature type: the certificate kind decides, and a NULL certificate means spk = 0
  have hty : p.sigType = k.kc.spk := by
    rw [hst]
    by_cases h5 : (c.kind == [5]) = true
    · rw [if_pos h5]
    · rw [if_neg h5]
      obtain ⟨_, hp', _⟩ := readKac_struct hk
      rcases hp' with ⟨t, hv, hn⟩ | ⟨t, c0, _, _, hk0⟩
      · exfalso
        apply h5
        obtain ⟨_, hceq, _, _⟩ := readCert_some.mp hc
        have e0 : 387 + c.declared - 384 = 3 + c.declared := by omega
        have h384 : (w.take (387 + c.declared)).drop 384 = (w.drop 384).take (3 + c.declared) := by
          rw [List.drop_take, e0]
        rw [h384] at hv
        have : (w.drop 384).take 1 = [5] := by
          have := congrArg (List.take 1) hv
          rw [List.take_take, Nat.min_eq_left (by omega)] at this
          simpa using this
        rw [hceq]; simp [this]
      · rw [hk0]
  obtain ⟨ks, ss, n, r2, _, hss, _, _, _, _, _, h44, hb, _⟩ := ht
  have hss' : ss = sigLen p.sigType := by
    rw [hss, hst]
    by_cases h5 : (c.kind == [5]) = true
    · rw [if_pos h5, if_pos h5]
    · rw [if_neg h5, if_neg h5]; rfl
  have hle : sigLen p.sigType ≤ p.bytes.length := by
    rw [hb, List.length_append, List.length_take, List.length_drop, ← hss']; omega
  refine ⟨readLeaseSet_consumed hr, by rw [hty]; exact sigLen_of_constructible hkc, hsig,
    by rw [hsig]; exact length_drop_sub _ _ hle, by rw [hik, hit]; exact hks, by rw [hit]; exact hkc,
    by rw [hty, hit], hfl, hoff⟩

/-- `LeaseSet.Verify` succeeded -/
theorem verifyLS_sound {C : SigScheme} {p : Parsed} (h : verifyLS C p = true) :
    sigConstructible p.idType = true ∧ C.verify (algOf p.idType) p.idKey (signedMsg [] p) p.sig = true := by
  unfold verifyLS at h
  split at h
  · cases h
  · rwa [Bool.and_eq_true] at h

/-! ### RouterInfo -/

theorem parseRI_spec {d : Bytes} {p : Parsed} (h : parseRI d = some p) :
    ∃ k r, readRouterInfo d = some (p.bytes, p.rem) ∧ readRouterIdentity d = some (k, r) ∧
      p.idType = k.kc.spk ∧ p.idKey = k.sig ∧ p.flagsOffline = false ∧ p.off = none ∧
      p.sigType = (if (d.drop 384).take 1 == [5] then k.kc.spk else 0) ∧
      p.sig = p.bytes.drop (p.bytes.length - sigLen p.sigType) := by
  unfold parseRI at h
  split at h
  · cases h
  rename_i b rem hr
  split at h
  · cases h
  rename_i k r hd
  simp only [Option.some.injEq] at h
  subst h
  exact ⟨k, r, hr, hd, rfl, rfl, rfl, rfl, rfl, rfl⟩

theorem parseRI_complete {d b rem : Bytes} (h : readRouterInfo d = some (b, rem)) :
    ∃ p, parseRI d = some p ∧ p.bytes = b ∧ p.rem = rem := by
  obtain ⟨k, r, ib, hid, _, _⟩ := readRouterInfo_some.mp h
  unfold parseRI
  simp only [h, hid]
  exact ⟨_, rfl, rfl, rfl⟩

/-- (characterisation) everything `parseRI` returns, located in the raw input `w` -/
theorem ri_facts {w : Bytes} {p : Parsed} (hp : parseRI w = some p) :
    p.bytes ++ p.rem = w ∧ sigLen p.sigType ≠ 0 ∧
    p.sig = p.bytes.drop (p.bytes.length - sigLen p.sigType) ∧ p.sig.length = sigLen p.sigType ∧
    p.idKey = (w.take 384).drop (384 - sigPubSize p.idType) ∧ p.idKey.length = sigPubSize p.idType ∧
    (p.sigType = p.idType ∨ p.sigType = 0) ∧ p.flagsOffline = false ∧ p.off = none := by
  obtain ⟨k, r, hr, hd, hit, hik, hfl, hoff, hst, hsig⟩ := parseRI_spec hp
  obtain ⟨k', r', ib, hd', _, ht⟩ := readRouterInfo_some.mp hr
  rw [hd] at hd'
  simp only [Option.some.injEq, Prod.mk.injEq] at hd'
  obtain ⟨rfl, rfl⟩ := hd'
  rw [← hst] at ht
  obtain ⟨_, ab, r2, sb, _, _, hs, hb⟩ := ht
  have hle : sigLen p.sigType ≤ p.bytes.length := by
    rw [hb, List.length_append, readSig_length hs]; omega
  obtain ⟨hks, _, hkl⟩ := readKac_sigkey (readRouterIdentity_sub hd)
  refine ⟨readRouterInfo_consumed hr, (readSig_some.mp hs).1, hsig, by rw [hsig]; exact length_drop_sub _ _ hle,
    by rw [hik, hit]; exact hks, by rw [hik, hit]; exact hkl, ?_, hfl, hoff⟩
  rw [hst, hit]
  by_cases h5 : ((w.drop 384).take 1 == [5]) = true
  · rw [if_pos h5]; exact Or.inl rfl
  · rw [if_neg h5]; exact Or.inr rfl

/-- `RouterInfo.VerifySignature` returned true -/
theorem verifyRI_sound {C : SigScheme} {p : Parsed} (h : verifyRI C p = true) :
    p.sigType = 7 ∧ p.idKey.length = 32 ∧ C.verify 7 p.idKey (signedMsg [] p) p.sig = true := by
  unfold verifyRI at h
  split at h
  · rename_i h7
    split at h
    · cases h
    rename_i hl
    exact ⟨h7, by omega, h⟩
  · cases h

/-! ### `verifyX` is "all obligations hold" -/

theorem verifyDest_eq_obl (pfx : Bytes) (C : SigScheme) (p : Parsed) :
    verifyDest pfx C p = C.all (oblDest pfx p) := by
  unfold verifyDest oblDest
  split
  · rfl
  split
  · rw [verifyOffline_eq_obl]
    cases oblOffline _ p.idKey with
    | none => rfl
    | some b =>
      simp only []
      rename_i o _ _
      cases constructKey o.ttype o.tkey <;> by_cases hb : C.holds b = true <;>
        simp [SigScheme.all, SigScheme.holds] <;> simp_all [SigScheme.holds]
  · cases sigConstructible p.idType <;> simp [SigScheme.all, SigScheme.holds]

theorem verifyELS_eq_obl (C : SigScheme) (p : Parsed) : verifyELS C p = C.all (oblELS p) := by
  unfold verifyELS oblELS
  split
  · rw [verifyOffline_eq_obl]
    cases oblOffline _ p.idKey with
    | none => rfl
    | some b =>
      simp only []
      rename_i o _ _
      cases constructKey o.ttype o.tkey <;> by_cases hb : C.holds b = true <;>
        simp [SigScheme.all, SigScheme.holds] <;> simp_all [SigScheme.holds]
  · cases constructKey p.idType p.idKey <;> simp [SigScheme.all, SigScheme.holds]

theorem verifyLS_eq_obl (C : SigScheme) (p : Parsed) : verifyLS C p = C.all (oblLS p) := by
  unfold verifyLS oblLS
  split
  · rfl
  · cases sigConstructible p.idType <;> simp [SigScheme.all, SigScheme.holds]

theorem verifyRI_eq_obl (C : SigScheme) (p : Parsed) : verifyRI C p = C.all (oblRI p) := by
  unfold verifyRI oblRI
  split
  · split
    · rfl
    · simp [SigScheme.all, SigScheme.holds]
  · rfl

/-! ### C05: success ⇒ the prescribed (key, message, signature) triples verify, stated over the raw input -/

theorem consumed_eq {w b r : Bytes} (h : b ++ r = w) : w.take (w.length - r.length) = b := by
  have := take_sub_rem b r
  rwa [h] at this

/-- LeaseSet2 / MetaLeaseSet with store-type prefix `pfx` -/
theorem destSigned_sound {read : Bytes → P} (hread : HdrSigned read)
    (hcons : ∀ d b r, read d = some (b, r) → b ++ r = d) (pfx : Bytes) (C : SigScheme)
    {w : Bytes} {p : Parsed} (hp : parseDestSigned read w = some p) (hv : verifyDest pfx C p = true) :
    let consumed := w.take (w.length - p.rem.length)
    let body := consumed.take (consumed.length - sigLen p.sigType)
    let sig := consumed.drop (consumed.length - sigLen p.sigType)
    let idKey := (w.take 384).drop (384 - sigPubSize p.idType)
    p.bytes = consumed ∧ sig.length = sigLen p.sigType ∧ sigLen p.sigType ≠ 0 ∧
    (p.flagsOffline = true ↔ beVal ((w.drop (idLen w + 6)).take 2) % 2 = 1) ∧
    (p.flagsOffline = false →
      p.sigType = p.idType ∧ C.verify (algOf p.idType) idKey (pfx ++ body) sig = true) ∧
    (p.flagsOffline = true → ∃ o, p.off = some o ∧ p.sigType = o.ttype ∧
      o.expires ++ beEnc 2 o.ttype ++ o.tkey ++ o.sig =
        (w.drop (idLen w + 8)).take (6 + sigPubSize o.ttype + sigLen p.idType) ∧
      o.expires.length = 4 ∧ o.tkey.length = sigPubSize o.ttype ∧
      C.verify (algOf o.ttype) o.tkey (pfx ++ body) sig = true ∧
      C.verify (algOf p.idType) idKey (o.expires ++ beEnc 2 o.ttype ++ o.tkey) o.sig = true) := by
  obtain ⟨hcat, hne, hsig, hsl, hik, _, _, hn8, hflag, hpl, hofl⟩ := destSigned_facts hread hcons hp
  obtain ⟨hplain, hoffl⟩ := verifyDest_sound hv
  have hc := consumed_eq hcat
  have hmsg : signedMsg pfx p = pfx ++ p.bytes.take (p.bytes.length - sigLen p.sigType) := by
    unfold signedMsg; rw [hsl]
  dsimp only
  rw [hc]
  refine ⟨rfl, by rw [← hsig]; exact hsl, hne, hflag, ?_, ?_⟩
  · intro hf
    obtain ⟨_, hst⟩ := hpl hf
    obtain ⟨_, hv1⟩ := hplain (Or.inl hf)
    rw [hmsg, hik, hsig] at hv1
    exact ⟨hst, hv1⟩
  · intro hf
    obtain ⟨o, ho, htt, hdt, hel, hkl, _, hraw⟩ := hofl hf
    obtain ⟨hvo, hv2⟩ := hoffl o hf ho
    obtain ⟨_, _, _, _, _, a, ha, hva⟩ := verifyOffline_sound hvo
    rw [hmsg, hsig] at hv2
    rw [hdt] at ha
    rw [hik] at hva
    have halg : a = algOf p.idType := by
      rcases offAlgOf_some ha with ⟨h7, rfl⟩ | ⟨h11, rfl⟩ | ⟨h8, _⟩
      · rw [h7]; rfl
      · rw [h11]; rfl
      · exact absurd h8 hn8
    rw [halg] at hva
    exact ⟨o, ho, htt.symm, hraw, hel, hkl, hv2, hva⟩

/-- EncryptedLeaseSet (prefix `0x05`, blinded key) -/
theorem els_sound (C : SigScheme) {w : Bytes} {p : Parsed} (hp : parseELS w = some p)
    (hv : verifyELS C p = true) :
    let consumed := w.take (w.length - p.rem.length)
    let body := consumed.take (consumed.length - sigLen p.sigType)
    let sig := consumed.drop (consumed.length - sigLen p.sigType)
    let ks := sigPubSize p.idType
    let blinded := (w.drop 2).take ks
    p.bytes = consumed ∧ sig.length = sigLen p.sigType ∧ sigLen p.sigType ≠ 0 ∧ p.idType = beVal (w.take 2) ∧
    (p.flagsOffline = true ↔ beVal ((w.drop (2 + ks + 6)).take 2) % 2 = 1) ∧
    (p.flagsOffline = false →
      p.sigType = p.idType ∧ C.verify (algOf p.idType) blinded ([5] ++ body) sig = true) ∧
    (p.flagsOffline = true → ∃ o a, p.off = some o ∧ p.sigType = o.ttype ∧
      o.expires ++ beEnc 2 o.ttype ++ o.tkey ++ o.sig =
        (w.drop (2 + ks + 8)).take (6 + sigPubSize o.ttype + sigLen p.idType) ∧
      o.expires.length = 4 ∧ o.tkey.length = sigPubSize o.ttype ∧
      C.verify (algOf o.ttype) o.tkey ([5] ++ body) sig = true ∧
      offAlgOf p.idType = some a ∧
      C.verify a blinded (o.expires ++ beEnc 2 o.ttype ++ o.tkey) o.sig = true) := by
  obtain ⟨hcat, hne, hsig, hsl, hit, hik, hkl0, hflag, hpl, hofl⟩ := els_facts hp
  obtain ⟨hplain, hoffl⟩ := verifyELS_sound hkl0 hv
  have hc := consumed_eq hcat
  have hmsg : signedMsg [5] p = [5] ++ p.bytes.take (p.bytes.length - sigLen p.sigType) := by
    unfold signedMsg; rw [hsl]
  dsimp only
  rw [hc]
  refine ⟨rfl, by rw [← hsig]; exact hsl, hne, hit, hflag, ?_, ?_⟩
  · intro hf
    obtain ⟨_, hst⟩ := hpl hf
    obtain ⟨_, hv1⟩ := hplain (Or.inl hf)
    rw [hmsg, hik, hsig] at hv1
    exact ⟨hst, hv1⟩
  · intro hf
    obtain ⟨o, ho, htt, hdt, hel, hkl, _, hraw⟩ := hofl hf
    obtain ⟨hvo, hv2⟩ := hoffl o hf ho
    obtain ⟨_, _, _, _, _, a, ha, hva⟩ := verifyOffline_sound hvo
    rw [hmsg, hsig] at hv2
    rw [hdt] at ha
    rw [hik] at hva
    exact ⟨o, a, ho, htt.symm, hraw, hel, hkl, hv2, ha, hva⟩

/-- LeaseSet (no prefix, destination key of the certificate's type; NULL certificate ⇒ DSA-SHA1) -/
theorem ls_sound (C : SigScheme) {w : Bytes} {p : Parsed} (hp : parseLS w = some p)
    (hv : verifyLS C p = true) :
    let consumed := w.take (w.length - p.rem.length)
    let body := consumed.take (consumed.length - sigLen p.sigType)
    let sig := consumed.drop (consumed.length - sigLen p.sigType)
    let idKey := (w.take 384).drop (384 - sigPubSize p.idType)
    p.bytes = consumed ∧ sig.length = sigLen p.sigType ∧ sigLen p.sigType ≠ 0 ∧ p.sigType = p.idType ∧
    C.verify (algOf p.idType) idKey body sig = true := by
  obtain ⟨hcat, hne, hsig, hsl, hik, _, hst, _, _⟩ := ls_facts hp
  obtain ⟨_, hv1⟩ := verifyLS_sound hv
  have hc := consumed_eq hcat
  have hmsg : signedMsg [] p = p.bytes.take (p.bytes.length - sigLen p.sigType) := by
    unfold signedMsg; rw [hsl]; rfl
  dsimp only
  rw [hc]
  rw [hmsg, hik, hsig] at hv1
  exact ⟨rfl, by rw [← hsig]; exact hsl, hne, hst, hv1⟩

/-- RouterInfo (no prefix; only an Ed25519 identity can ever verify) -/
theorem ri_sound (C : SigScheme) {w : Bytes} {p : Parsed} (hp : parseRI w = some p)
    (hv : verifyRI C p = true) :
    let consumed := w.take (w.length - p.rem.length)
    let body := consumed.take (consumed.length - 64)
    let sig := consumed.drop (consumed.length - 64)
    let idKey := (w.take 384).drop (384 - 32)
    p.bytes = consumed ∧ sig.length = 64 ∧ p.sigType = 7 ∧ p.idType = 7 ∧
    C.verify 7 idKey body sig = true := by
  obtain ⟨hcat, _, hsig, hsl, hik, _, hty, _, _⟩ := ri_facts hp
  obtain ⟨h7, _, hv1⟩ := verifyRI_sound hv
  have hid : p.idType = 7 := by
    rcases hty with h | h
    · rw [← h]; exact h7
    · rw [h7] at h; cases h
  have hc := consumed_eq hcat
  have e64 : sigLen 7 = 64 := rfl
  have e32 : sigPubSize 7 = 32 := rfl
  rw [h7, e64] at hsig hsl
  rw [hid, e32] at hik
  have hmsg : signedMsg [] p = p.bytes.take (p.bytes.length - 64) := by
    unfold signedMsg; rw [hsl]; rfl
  dsimp only
  rw [hc]
  rw [hmsg, hik, hsig] at hv1
  exact ⟨rfl, by rw [← hsig]; exact hsl, h7, hid, hv1⟩

/-- `OfflineSignature.VerifySignature(key)` on a block read from `d` for destination type `t` -/
theorem offline_sound (C : SigScheme) {d : Bytes} {t : Nat} {ob r : Bytes} {st : Nat} {key : Bytes}
    (hr : readOffSig d t = some (ob, r, st)) (hv : verifyOffline C (offFields ob t) key = true) :
    (t = 7 ∨ t = 8 ∨ t = 11) ∧ key.length = 32 ∧ beVal (d.take 4) ≠ 0 ∧
    ∃ a, offAlgOf t = some a ∧
      C.verify a key (d.take (6 + sigPubSize st)) ((d.drop (6 + sigPubSize st)).take (sigLen t)) = true := by
  obtain ⟨htt, hdt, hel, hkl, hsl, _, _, hj, hob⟩ := offFields_layout hr
  obtain ⟨hexp, _, _, _, hk32, a, ha, hva⟩ := verifyOffline_sound hv
  rw [hdt] at ha
  have hsdl : (offFields ob t).signedData.length = 6 + sigPubSize st := by
    unfold OffBlock.signedData
    rw [List.length_append, List.length_append, beEnc_length, hel, hkl]
  have hlen : 6 + sigPubSize st + sigLen t ≤ d.length := (readOffSig_some.mp hr).2.2.2.2.1
  have h1 : (offFields ob t).signedData = d.take (6 + sigPubSize st) := by
    have := congrArg (List.take (6 + sigPubSize st)) hj
    rw [List.take_left' hsdl] at this
    rw [this, hob, List.take_take, Nat.min_eq_left (by omega)]
  have h2 : (offFields ob t).sig = (d.drop (6 + sigPubSize st)).take (sigLen t) := by
    have := congrArg (List.drop (6 + sigPubSize st)) hj
    rw [List.drop_left' hsdl] at this
    have e0 : 6 + sigPubSize st + sigLen t - (6 + sigPubSize st) = sigLen t := by omega
    rw [this, hob, List.drop_take, e0]
  have h3 : (offFields ob t).expires = d.take 4 := by
    show ob.take 4 = _
    rw [hob, List.take_take, Nat.min_eq_left (by omega)]
  rw [h1, h2] at hva
  rw [h3] at hexp
  refine ⟨?_, hk32, hexp, a, ha, hva⟩
  rcases offAlgOf_some ha with ⟨h, _⟩ | ⟨h, _⟩ | ⟨h, _⟩
  · exact Or.inl h
  · exact Or.inr (Or.inr h)
  · exact Or.inr (Or.inl h)

/-! ### witnesses used by the examples of `Props/C05.lean` -/

/-- an oracle under which only the attacker's key (32 bytes `0x06`) ever verifies anything -/
def attackerOnly : SigScheme := ⟨fun _ key _ _ => key == List.replicate 32 6⟩

/-- an oracle that accepts everything -/
def acceptAll : SigScheme := ⟨fun _ _ _ _ => true⟩

/-- a hand-built LeaseSet2 view: victim identity key `0x02…`, offline flag set, attacker's transient key,
    64 zero bytes as "destination signature", final signature by the attacker -/
def forged : LS2Parsed :=
  { bytes := [1, 2, 3, 9], rem := [], idType := 7, idKey := List.replicate 32 2, flagsOffline := true,
    off := some { expires := [0, 0, 0, 1], ttype := 7, tkey := List.replicate 32 6,
                  sig := List.replicate 64 0, destType := 7 },
    sigType := 7, sig := [9] }

end I2P.Verify
