import I2P.Structs
import I2P.Proofs.KacLemmas
import I2P.Proofs.MappingLemmas
/-! Framing lemmas for the composite readers of `I2P/Structs.lean`.  For every reader `R`:

* `R_consumed`  : `R d = some (b, r) → b ++ r = d`                      (C01 + C03a)
* `R_append`    : `R d = some (b, r) → ∀ x, R (d ++ x) = some (b, r ++ x)`   (C03b)
* `R_no_prefix` : `R d = some (b, []) → ∀ k, k < d.length → R (d.take k) = none`  (C03c)

`R_no_prefix` is always an instance of the generic `no_prefix_of_append`.  Core-only. -/

namespace I2P.Structs
open I2P I2P.Spec I2P.Kac I2P.Mapping

/-! ### generic helpers -/

theorem take_app {α} {d : List α} {n : Nat} (x : List α) (h : n ≤ d.length) : (d ++ x).take n = d.take n :=
  List.take_append_of_le_length h

theorem drop_app' {α} {d : List α} {n : Nat} (x : List α) (h : n ≤ d.length) : (d ++ x).drop n = d.drop n ++ x :=
  List.drop_append_of_le_length h

/-- a window that lies inside `d` is not affected by appended bytes -/
theorem window_append {α} (d x : List α) (i n : Nat) (h : i + n ≤ d.length) :
    ((d ++ x).drop i).take n = (d.drop i).take n := by
  rw [drop_app' x (by omega), take_app x (by rw [List.length_drop]; omega)]

/-- `beVal` of a window inside `d` is stable under appended bytes -/
theorem beVal_window_append (d x : Bytes) (i n : Nat) (h : i + n ≤ d.length) :
    beVal ((d ++ x).drop i |>.take n) = beVal ((d.drop i).take n) := by
  rw [window_append d x i n h]

theorem beVal_take_append (d x : Bytes) (n : Nat) (h : n ≤ d.length) :
    beVal ((d ++ x).take n) = beVal (d.take n) := by
  rw [take_app x h]

/-- `take n d ++ take m (drop n d) ++ drop m (drop n d) = d` -/
theorem take_take_drop {α} (d : List α) (n m : Nat) :
    d.take n ++ ((d.drop n).take m ++ (d.drop n).drop m) = d := by
  rw [List.take_append_drop, List.take_append_drop]

theorem take_add_eq {α} (d : List α) (n m : Nat) : d.take (n + m) = d.take n ++ (d.drop n).take m := by
  rw [List.take_add]

/-- generic form of "no proper prefix": the remainder is read off the result by `rem` -/
theorem no_prefix_gen {β} {R : Bytes → Option β} (rem : β → Bytes)
    (happ : ∀ d v x, R d = some v → ∃ v', R (d ++ x) = some v' ∧ rem v' = rem v ++ x)
    {d : Bytes} {v : β} {k : Nat} (h : R d = some v) (hr : rem v = []) (hk : k < d.length) :
    R (d.take k) = none := by
  cases h' : R (d.take k) with
  | none => rfl
  | some v' =>
    exfalso
    obtain ⟨v'', h2, h3⟩ := happ (d.take k) v' (d.drop k) h'
    rw [List.take_append_drop, h] at h2
    have : v'' = v := (Option.some.inj h2).symm
    subst this
    rw [hr] at h3
    have h4 : d.drop k = [] := (List.append_eq_nil_iff.mp h3.symm).2
    rw [List.drop_eq_nil_iff] at h4
    omega

/-- (C03c) from (C03b): if appended bytes never change the result, no proper prefix of a completely
    consumed encoding parses -/
theorem no_prefix_of_append {R : Bytes → P}
    (happ : ∀ d b r x, R d = some (b, r) → R (d ++ x) = some (b, r ++ x))
    {d b : Bytes} {k : Nat} (h : R d = some (b, [])) (hk : k < d.length) : R (d.take k) = none :=
  no_prefix_gen (fun v => v.2) (fun d v x hv => ⟨(v.1, v.2 ++ x), happ d v.1 v.2 x hv, rfl⟩) h rfl hk

/-! ### Signature -/

/-- characterisation of `readSig` -/
theorem readSig_some {d : Bytes} {t : Nat} {b r : Bytes} :
    readSig d t = some (b, r) ↔ sigLen t ≠ 0 ∧ sigLen t ≤ d.length ∧ b = d.take (sigLen t) ∧ r = d.drop (sigLen t) := by
  unfold readSig
  simp only []
  by_cases h0 : sigLen t = 0
  · rw [if_pos h0]; constructor
    · intro h; cases h
    · rintro ⟨h, _⟩; exact absurd h0 h
  · rw [if_neg h0]
    by_cases h1 : d.length < sigLen t
    · rw [if_pos h1]; constructor
      · intro h; cases h
      · rintro ⟨_, h, _⟩; omega
    · rw [if_neg h1]
      simp only [Option.some.injEq, Prod.mk.injEq]
      constructor
      · rintro ⟨rfl, rfl⟩; exact ⟨h0, by omega, rfl, rfl⟩
      · rintro ⟨_, _, rfl, rfl⟩; exact ⟨rfl, rfl⟩

theorem readSig_consumed {d : Bytes} {t : Nat} {b r : Bytes} (h : readSig d t = some (b, r)) : b ++ r = d := by
  obtain ⟨_, _, rfl, rfl⟩ := readSig_some.mp h
  exact List.take_append_drop _ _

theorem readSig_append {d : Bytes} {t : Nat} {b r : Bytes} (h : readSig d t = some (b, r)) (x : Bytes) :
    readSig (d ++ x) t = some (b, r ++ x) := by
  obtain ⟨h0, h1, rfl, rfl⟩ := readSig_some.mp h
  rw [readSig_some]
  exact ⟨h0, by rw [List.length_append]; omega, (take_app x h1).symm, (drop_app' x h1).symm⟩

theorem readSig_no_prefix {d : Bytes} {t : Nat} {b : Bytes} (h : readSig d t = some (b, [])) :
    ∀ k, k < d.length → readSig (d.take k) t = none := fun _ hk =>
  no_prefix_of_append (R := fun d => readSig d t) (fun _ _ _ x h => readSig_append h x) h hk

/-- the length of an accepted signature -/
theorem readSig_length {d : Bytes} {t : Nat} {b r : Bytes} (h : readSig d t = some (b, r)) :
    b.length = sigLen t := by
  obtain ⟨_, h1, rfl, _⟩ := readSig_some.mp h
  rw [List.length_take]; omega

/-! ### OfflineSignature -/

/-- characterisation of `readOffSig` -/
theorem readOffSig_some {d : Bytes} {t : Nat} {b r : Bytes} {st : Nat} :
    readOffSig d t = some (b, r, st) ↔
      6 ≤ d.length ∧ st = beVal ((d.drop 4).take 2) ∧ sigPubSize st ≠ 0 ∧ sigLen t ≠ 0 ∧
      6 + sigPubSize st + sigLen t ≤ d.length ∧
      b = d.take (6 + sigPubSize st + sigLen t) ∧ r = d.drop (6 + sigPubSize st + sigLen t) := by
  unfold readOffSig
  simp only [List.length_drop, List.drop_drop]
  by_cases h6 : d.length < 6
  · rw [if_pos h6]; constructor
    · intro h; cases h
    · rintro ⟨h, _⟩; omega
  rw [if_neg h6]
  by_cases hks : sigPubSize (beVal ((d.drop 4).take 2)) = 0
  · rw [if_pos hks]; constructor
    · intro h; cases h
    · rintro ⟨_, rfl, h, _⟩; exact absurd hks h
  rw [if_neg hks]
  by_cases h1 : d.length - 6 < sigPubSize (beVal ((d.drop 4).take 2))
  · rw [if_pos h1]; constructor
    · intro h; cases h
    · rintro ⟨_, rfl, _, _, h, _⟩; omega
  rw [if_neg h1]
  by_cases hss : sigLen t = 0
  · rw [if_pos hss]; constructor
    · intro h; cases h
    · rintro ⟨_, _, _, h, _⟩; exact absurd hss h
  rw [if_neg hss]
  by_cases h2 : d.length - (6 + sigPubSize (beVal ((d.drop 4).take 2))) < sigLen t
  · rw [if_pos h2]; constructor
    · intro h; cases h
    · rintro ⟨_, rfl, _, _, h, _⟩; omega
  rw [if_neg h2]
  simp only [Option.some.injEq, Prod.mk.injEq]
  constructor
  · rintro ⟨rfl, rfl, rfl⟩
    exact ⟨by omega, rfl, hks, hss, by omega, rfl, rfl⟩
  · rintro ⟨_, rfl, _, _, _, rfl, rfl⟩
    exact ⟨rfl, rfl, rfl⟩

theorem readOffSig_consumed {d : Bytes} {t : Nat} {b r : Bytes} {st : Nat}
    (h : readOffSig d t = some (b, r, st)) : b ++ r = d := by
  obtain ⟨_, _, _, _, _, rfl, rfl⟩ := readOffSig_some.mp h
  exact List.take_append_drop _ _

theorem readOffSig_append {d : Bytes} {t : Nat} {b r : Bytes} {st : Nat}
    (h : readOffSig d t = some (b, r, st)) (x : Bytes) :
    readOffSig (d ++ x) t = some (b, r ++ x, st) := by
  obtain ⟨h6, rfl, hks, hss, hlen, rfl, rfl⟩ := readOffSig_some.mp h
  have hw := beVal_window_append d x 4 2 (by omega)
  rw [readOffSig_some, hw]
  exact ⟨by rw [List.length_append]; omega, rfl, hks, hss, by rw [List.length_append]; omega,
    (take_app x hlen).symm, (drop_app' x hlen).symm⟩

theorem readOffSig_no_prefix {d : Bytes} {t : Nat} {b : Bytes} {st : Nat}
    (h : readOffSig d t = some (b, [], st)) : ∀ k, k < d.length → readOffSig (d.take k) t = none := fun _ hk =>
  no_prefix_gen (R := fun d => readOffSig d t) (fun v => v.2.1)
    (fun _ v x hv => ⟨(v.1, v.2.1 ++ x, v.2.2), readOffSig_append hv x, rfl⟩) h rfl hk

/-! ### fixed-size readers (Lease, Lease2, arrays of them) -/

theorem readFixedN_some {n : Nat} {d b r : Bytes} :
    readFixedN n d = some (b, r) ↔ n ≤ d.length ∧ b = d.take n ∧ r = d.drop n := by
  unfold readFixedN
  by_cases h : d.length < n
  · rw [if_pos h]; constructor
    · intro h'; cases h'
    · rintro ⟨h', _⟩; omega
  · rw [if_neg h]
    simp only [Option.some.injEq, Prod.mk.injEq]
    constructor
    · rintro ⟨rfl, rfl⟩; exact ⟨by omega, rfl, rfl⟩
    · rintro ⟨_, rfl, rfl⟩; exact ⟨rfl, rfl⟩

theorem readFixedN_consumed {n : Nat} {d b r : Bytes} (h : readFixedN n d = some (b, r)) : b ++ r = d := by
  obtain ⟨_, rfl, rfl⟩ := readFixedN_some.mp h
  exact List.take_append_drop _ _

theorem readFixedN_append {n : Nat} {d b r : Bytes} (h : readFixedN n d = some (b, r)) (x : Bytes) :
    readFixedN n (d ++ x) = some (b, r ++ x) := by
  obtain ⟨hn, rfl, rfl⟩ := readFixedN_some.mp h
  rw [readFixedN_some]
  exact ⟨by rw [List.length_append]; omega, (take_app x hn).symm, (drop_app' x hn).symm⟩

theorem readFixedN_no_prefix {n : Nat} {d b : Bytes} (h : readFixedN n d = some (b, [])) :
    ∀ k, k < d.length → readFixedN n (d.take k) = none := fun _ hk =>
  no_prefix_of_append (R := readFixedN n) (fun _ _ _ x h => readFixedN_append h x) h hk

theorem readFixed_eq (n size : Nat) (d : Bytes) : readFixed n size d = readFixedN (n * size) d := rfl

theorem readFixed_consumed {n size : Nat} {d b r : Bytes} (h : readFixed n size d = some (b, r)) : b ++ r = d :=
  readFixedN_consumed h

theorem readFixed_append {n size : Nat} {d b r : Bytes} (h : readFixed n size d = some (b, r)) (x : Bytes) :
    readFixed n size (d ++ x) = some (b, r ++ x) :=
  readFixedN_append h x

theorem readFixed_no_prefix {n size : Nat} {d b : Bytes} (h : readFixed n size d = some (b, [])) :
    ∀ k, k < d.length → readFixed n size (d.take k) = none :=
  readFixedN_no_prefix h

/-! ### an options mapping embedded in a stream -/

/-- everything the composite readers need about an accepted `ReadMapping`: `Data()` is a prefix of the
    input, the rest is the remainder, an empty value list serialises as `0000`, and appended bytes change
    neither the verdict nor `Data()` nor the stored pairs (they only add the `.beyond` warning) -/
theorem mapping_frame (w : Bytes) (ha : accepted (readMapping w) = true) :
    ∃ c, data (readMapping w) = some c ∧ c ++ (readMapping w).rem = w ∧
      (((readMapping w).vals.getD []).length = 0 → c = [0, 0]) ∧
      ∀ x, accepted (readMapping (w ++ x)) = true ∧ (readMapping (w ++ x)).rem = (readMapping w).rem ++ x ∧
        data (readMapping (w ++ x)) = some c ∧ (readMapping (w ++ x)).vals = (readMapping w).vals := by
  obtain ⟨c, hc, hd⟩ := accepted_reserialise w ha
  refine ⟨c, hd, hc.symm, ?_, ?_⟩
  · intro hv
    have hnil : (readMapping w).vals.getD [] = [] := List.eq_nil_of_length_eq_zero hv
    unfold data at hd
    split at hd
    · cases hd
    · rw [hnil] at hd
      exact (Option.some.inj hd).symm
  · intro x
    obtain ⟨hv, hr, ha'⟩ := accepted_append w ha x
    refine ⟨ha', hr, ?_, hv⟩
    obtain ⟨c', hc', hd'⟩ := accepted_reserialise (w ++ x) ha'
    rw [hd']
    rw [hr, ← List.append_assoc] at hc'
    have h1 : w = c' ++ (readMapping w).rem := List.append_cancel_right hc'
    have h2 : c ++ (readMapping w).rem = c' ++ (readMapping w).rem := hc.symm.trans h1
    rw [List.append_cancel_right h2]

/-- characterisation of `readOptions` -/
theorem readOptions_some {d : Bytes} {z : Bool} {b r : Bytes} :
    readOptions d z = some (b, r) ↔
      accepted (readMapping d) = true ∧ r = (readMapping d).rem ∧
      b = (if z = true ∧ ((readMapping d).vals.getD []).length = 0 then [0, 0] else (data (readMapping d)).getD []) := by
  unfold readOptions
  simp only []
  cases ha : accepted (readMapping d) with
  | false => simp
  | true =>
    simp only [Bool.not_true, Bool.false_eq_true, if_false, Option.some.injEq, Prod.mk.injEq, true_and]
    constructor
    · rintro ⟨rfl, rfl⟩; exact ⟨rfl, rfl⟩
    · rintro ⟨rfl, rfl⟩; exact ⟨rfl, rfl⟩

/-- the bytes `readOptions` returns are always `Data()` of the mapping (the `0000` special case agrees) -/
theorem readOptions_data {d : Bytes} {z : Bool} {b r : Bytes} (h : readOptions d z = some (b, r)) :
    accepted (readMapping d) = true ∧ r = (readMapping d).rem ∧ data (readMapping d) = some b := by
  obtain ⟨ha, hr, hb⟩ := readOptions_some.mp h
  obtain ⟨c, hd, _, hz, _⟩ := mapping_frame d ha
  refine ⟨ha, hr, ?_⟩
  rw [hd] at hb ⊢
  split at hb
  · rename_i hc; rw [hb, hz hc.2]
  · rw [hb]; rfl

theorem readOptions_consumed {d : Bytes} {z : Bool} {b r : Bytes} (h : readOptions d z = some (b, r)) :
    b ++ r = d := by
  obtain ⟨ha, rfl, hb⟩ := readOptions_data h
  obtain ⟨c, hd, hc, _⟩ := mapping_frame d ha
  rw [hd] at hb
  rw [← Option.some.inj hb]; exact hc

theorem readOptions_append {d : Bytes} {z : Bool} {b r : Bytes} (h : readOptions d z = some (b, r)) (x : Bytes) :
    readOptions (d ++ x) z = some (b, r ++ x) := by
  obtain ⟨ha, rfl, hb⟩ := readOptions_some.mp h
  obtain ⟨c, hd, _, _, hx⟩ := mapping_frame d ha
  obtain ⟨ha', hr', hd', hv'⟩ := hx x
  rw [readOptions_some]
  refine ⟨ha', hr'.symm, ?_⟩
  rw [hb, hv', hd', hd]

theorem readOptions_no_prefix {d : Bytes} {z : Bool} {b : Bytes} (h : readOptions d z = some (b, [])) :
    ∀ k, k < d.length → readOptions (d.take k) z = none := fun _ hk =>
  no_prefix_of_append (R := fun d => readOptions d z) (fun _ _ _ x h => readOptions_append h x) h hk

/-! ### the encryption-key loop of LeaseSet2 -/

theorem readKeys_zero (d acc : Bytes) : readKeys 0 d acc = some (acc, d) := rfl

theorem readKeys_succ (n : Nat) (d acc : Bytes) :
    readKeys (n + 1) d acc =
      if d.length < 4 then none else
      if (d.drop 4).length < beVal ((d.drop 2).take 2) then none else
      readKeys n ((d.drop 4).drop (beVal ((d.drop 2).take 2))) (acc ++ d.take (4 + beVal ((d.drop 2).take 2))) := rfl

/-- one successful iteration of the key loop -/
theorem readKeys_succ_some {n : Nat} {d acc b r : Bytes} :
    readKeys (n + 1) d acc = some (b, r) ↔
      4 + beVal ((d.drop 2).take 2) ≤ d.length ∧
      readKeys n (d.drop (4 + beVal ((d.drop 2).take 2))) (acc ++ d.take (4 + beVal ((d.drop 2).take 2))) = some (b, r) := by
  rw [readKeys_succ, List.length_drop, List.drop_drop]
  by_cases h4 : d.length < 4
  · rw [if_pos h4]; constructor
    · intro h; cases h
    · rintro ⟨h, _⟩; omega
  rw [if_neg h4]
  by_cases hk : d.length - 4 < beVal ((d.drop 2).take 2)
  · rw [if_pos hk]; constructor
    · intro h; cases h
    · rintro ⟨h, _⟩; omega
  rw [if_neg hk]
  exact ⟨fun h => ⟨by omega, h⟩, fun h => h.2⟩

theorem readKeys_consumed {n : Nat} {d acc b r : Bytes} (h : readKeys n d acc = some (b, r)) :
    ∃ b', b = acc ++ b' ∧ b' ++ r = d := by
  induction n generalizing d acc with
  | zero =>
    rw [readKeys_zero] at h
    simp only [Option.some.injEq, Prod.mk.injEq] at h
    obtain ⟨rfl, rfl⟩ := h
    exact ⟨[], by simp, rfl⟩
  | succ n ih =>
    obtain ⟨_, h2⟩ := readKeys_succ_some.mp h
    obtain ⟨b'', hb, hr⟩ := ih h2
    refine ⟨d.take (4 + beVal ((d.drop 2).take 2)) ++ b'', by rw [hb, List.append_assoc], ?_⟩
    rw [List.append_assoc, hr, List.take_append_drop]

theorem readKeys_append {n : Nat} {d acc b r : Bytes} (h : readKeys n d acc = some (b, r)) (x : Bytes) :
    readKeys n (d ++ x) acc = some (b, r ++ x) := by
  induction n generalizing d acc with
  | zero =>
    rw [readKeys_zero] at h
    simp only [Option.some.injEq, Prod.mk.injEq] at h
    obtain ⟨rfl, rfl⟩ := h
    rfl
  | succ n ih =>
    obtain ⟨h1, h2⟩ := readKeys_succ_some.mp h
    have hw := window_append d x 2 2 (by omega)
    rw [readKeys_succ_some, hw, take_app x h1, drop_app' x h1]
    exact ⟨by rw [List.length_append]; omega, ih h2⟩

theorem readKeys_no_prefix {n : Nat} {d acc b : Bytes} (h : readKeys n d acc = some (b, [])) :
    ∀ k, k < d.length → readKeys n (d.take k) acc = none := fun _ hk =>
  no_prefix_of_append (R := fun d => readKeys n d acc) (fun _ _ _ x h => readKeys_append h x) h hk

/-! ### RouterAddress -/

/-- an error-free `ReadI2PString` is not affected by appended bytes, and string ++ remainder is the input -/
theorem readStr_none {d s r : Bytes} (h : readStr d = (s, r, none)) :
    s ++ r = d ∧ ∀ x, readStr (d ++ x) = (s, r ++ x, none) := by
  unfold readStr at h
  cases d with
  | nil => simp at h
  | cons l rest =>
    simp only [] at h
    by_cases hl : l.toNat ≤ rest.length
    · rw [if_pos hl] at h
      simp only [Prod.mk.injEq, and_true] at h
      obtain ⟨rfl, rfl⟩ := h
      refine ⟨by simp, ?_⟩
      intro x
      simp only [readStr, List.cons_append]
      rw [if_pos (by rw [List.length_append]; omega), take_app x hl, drop_app' x hl]
    · rw [if_neg hl] at h
      simp at h

/-- characterisation of `readRouterAddress` -/
theorem readRouterAddress_some {d b r : Bytes} :
    readRouterAddress d = some (b, r) ↔
      12 ≤ d.length ∧ ∃ s r1, readStr (d.drop 9) = (s, r1, none) ∧ accepted (readMapping r1) = true ∧
        b = d.take 9 ++ s ++ (data (readMapping r1)).getD [] ∧ r = (readMapping r1).rem := by
  unfold readRouterAddress
  by_cases h12 : d.length < 12
  · rw [if_pos h12]; constructor
    · intro h; cases h
    · rintro ⟨h, _⟩; omega
  rw [if_neg h12]
  generalize readStr (d.drop 9) = q
  obtain ⟨s, r1, e⟩ := q
  simp only []
  cases e with
  | some e =>
    simp only [Option.isSome_some, if_true]
    constructor
    · intro h; cases h
    · rintro ⟨_, s', r1', h, _⟩; simp at h
  | none =>
    simp only [Option.isSome_none, Bool.false_eq_true, if_false]
    cases ha : accepted (readMapping r1) with
    | false =>
      simp only [Bool.not_false, if_true]
      constructor
      · intro h; cases h
      · rintro ⟨_, s', r1', h, ha', _⟩
        simp only [Prod.mk.injEq, and_true] at h
        obtain ⟨rfl, rfl⟩ := h
        rw [ha] at ha'; cases ha'
    | true =>
      simp only [Bool.not_true, Bool.false_eq_true, if_false, Option.some.injEq, Prod.mk.injEq]
      constructor
      · rintro ⟨rfl, rfl⟩; exact ⟨by omega, s, r1, ⟨rfl, rfl, trivial⟩, ha, rfl, rfl⟩
      · rintro ⟨_, s', r1', ⟨rfl, rfl, _⟩, _, rfl, rfl⟩
        exact ⟨rfl, rfl⟩

theorem readRouterAddress_consumed {d b r : Bytes} (h : readRouterAddress d = some (b, r)) : b ++ r = d := by
  obtain ⟨_, s, r1, hs, ha, rfl, rfl⟩ := readRouterAddress_some.mp h
  obtain ⟨c, hd, hc, _⟩ := mapping_frame r1 ha
  rw [hd, Option.getD_some, List.append_assoc, List.append_assoc, hc, (readStr_none hs).1, List.take_append_drop]

theorem readRouterAddress_append {d b r : Bytes} (h : readRouterAddress d = some (b, r)) (x : Bytes) :
    readRouterAddress (d ++ x) = some (b, r ++ x) := by
  obtain ⟨h12, s, r1, hs, ha, rfl, rfl⟩ := readRouterAddress_some.mp h
  obtain ⟨c, hd, _, _, hx⟩ := mapping_frame r1 ha
  obtain ⟨ha', hr', hd', _⟩ := hx x
  rw [readRouterAddress_some]
  refine ⟨by rw [List.length_append]; omega, s, r1 ++ x, ?_, ha', ?_, hr'.symm⟩
  · rw [drop_app' x (by omega)]; exact (readStr_none hs).2 x
  · rw [take_app x (by omega), hd', hd]

theorem readRouterAddress_no_prefix {d b : Bytes} (h : readRouterAddress d = some (b, [])) :
    ∀ k, k < d.length → readRouterAddress (d.take k) = none := fun _ hk =>
  no_prefix_of_append (R := readRouterAddress) (fun _ _ _ x h => readRouterAddress_append h x) h hk

/-! ### the address loop of RouterInfo -/

theorem readAddrs_zero (d acc : Bytes) : readAddrs 0 d acc = some (acc, d) := rfl

theorem readAddrs_succ_some {n : Nat} {d acc b r : Bytes} :
    readAddrs (n + 1) d acc = some (b, r) ↔
      ∃ b1 r1, readRouterAddress d = some (b1, r1) ∧ readAddrs n r1 (acc ++ b1) = some (b, r) := by
  rw [readAddrs]
  cases h : readRouterAddress d with
  | none => simp
  | some p =>
    obtain ⟨b1, r1⟩ := p
    simp only [Option.some.injEq, Prod.mk.injEq]
    constructor
    · intro h'; exact ⟨b1, r1, ⟨rfl, rfl⟩, h'⟩
    · rintro ⟨_, _, ⟨rfl, rfl⟩, h'⟩; exact h'

theorem readAddrs_consumed {n : Nat} {d acc b r : Bytes} (h : readAddrs n d acc = some (b, r)) :
    ∃ b', b = acc ++ b' ∧ b' ++ r = d := by
  induction n generalizing d acc with
  | zero =>
    rw [readAddrs_zero] at h
    simp only [Option.some.injEq, Prod.mk.injEq] at h
    obtain ⟨rfl, rfl⟩ := h
    exact ⟨[], by simp, rfl⟩
  | succ n ih =>
    obtain ⟨b1, r1, h1, h2⟩ := readAddrs_succ_some.mp h
    obtain ⟨b'', hb, hr⟩ := ih h2
    refine ⟨b1 ++ b'', by rw [hb, List.append_assoc], ?_⟩
    rw [List.append_assoc, hr, readRouterAddress_consumed h1]

theorem readAddrs_append {n : Nat} {d acc b r : Bytes} (h : readAddrs n d acc = some (b, r)) (x : Bytes) :
    readAddrs n (d ++ x) acc = some (b, r ++ x) := by
  induction n generalizing d acc with
  | zero =>
    rw [readAddrs_zero] at h
    simp only [Option.some.injEq, Prod.mk.injEq] at h
    obtain ⟨rfl, rfl⟩ := h
    rfl
  | succ n ih =>
    obtain ⟨b1, r1, h1, h2⟩ := readAddrs_succ_some.mp h
    rw [readAddrs_succ_some]
    exact ⟨b1, r1 ++ x, readRouterAddress_append h1 x, ih h2⟩

theorem readAddrs_no_prefix {n : Nat} {d acc b : Bytes} (h : readAddrs n d acc = some (b, [])) :
    ∀ k, k < d.length → readAddrs n (d.take k) acc = none := fun _ hk =>
  no_prefix_of_append (R := fun d => readAddrs n d acc) (fun _ _ _ x h => readAddrs_append h x) h hk

/-! ### the entry loop of MetaLeaseSet -/

theorem readEntries_zero (d acc : Bytes) : readEntries 0 d acc = some (acc, d) := rfl

/-- the entry-type check of `ReadMetaLeaseSet` -/
def entryTypeOk (d : Bytes) : Bool :=
  ((d.drop 32).take 1 == [1] || (d.drop 32).take 1 == [3] || (d.drop 32).take 1 == [5])

theorem readEntries_succ_some {n : Nat} {d acc b r : Bytes} :
    readEntries (n + 1) d acc = some (b, r) ↔
      40 ≤ d.length ∧ entryTypeOk d = true ∧
      ∃ pb r1, readOptions (d.drop 38) true = some (pb, r1) ∧
        readEntries n r1 (acc ++ d.take 38 ++ pb) = some (b, r) := by
  rw [readEntries]
  by_cases h40 : d.length < 40
  · rw [if_pos h40]; constructor
    · intro h; cases h
    · rintro ⟨h, _⟩; omega
  rw [if_neg h40]
  simp only []
  change (if (!entryTypeOk d) = true then none else _) = _ ↔ _
  cases ht : entryTypeOk d with
  | false => simp
  | true =>
    simp only [Bool.not_true, Bool.false_eq_true, if_false]
    cases h : readOptions (d.drop 38) true with
    | none => simp
    | some p =>
      obtain ⟨pb, r1⟩ := p
      simp only [Option.some.injEq, Prod.mk.injEq]
      constructor
      · intro h'; exact ⟨by omega, trivial, pb, r1, ⟨rfl, rfl⟩, h'⟩
      · rintro ⟨_, _, _, _, ⟨rfl, rfl⟩, h'⟩; exact h'

theorem readEntries_consumed {n : Nat} {d acc b r : Bytes} (h : readEntries n d acc = some (b, r)) :
    ∃ b', b = acc ++ b' ∧ b' ++ r = d := by
  induction n generalizing d acc with
  | zero =>
    rw [readEntries_zero] at h
    simp only [Option.some.injEq, Prod.mk.injEq] at h
    obtain ⟨rfl, rfl⟩ := h
    exact ⟨[], by simp, rfl⟩
  | succ n ih =>
    obtain ⟨_, _, pb, r1, h1, h2⟩ := readEntries_succ_some.mp h
    obtain ⟨b'', hb, hr⟩ := ih h2
    refine ⟨d.take 38 ++ pb ++ b'', by rw [hb]; simp only [List.append_assoc], ?_⟩
    rw [List.append_assoc, List.append_assoc, hr, readOptions_consumed h1, List.take_append_drop]

theorem readEntries_append {n : Nat} {d acc b r : Bytes} (h : readEntries n d acc = some (b, r)) (x : Bytes) :
    readEntries n (d ++ x) acc = some (b, r ++ x) := by
  induction n generalizing d acc with
  | zero =>
    rw [readEntries_zero] at h
    simp only [Option.some.injEq, Prod.mk.injEq] at h
    obtain ⟨rfl, rfl⟩ := h
    rfl
  | succ n ih =>
    obtain ⟨h40, ht, pb, r1, h1, h2⟩ := readEntries_succ_some.mp h
    rw [readEntries_succ_some]
    refine ⟨by rw [List.length_append]; omega, ?_, pb, r1 ++ x, ?_, ?_⟩
    · unfold entryTypeOk at ht ⊢
      rw [window_append d x 32 1 (by omega)]; exact ht
    · rw [drop_app' x (by omega)]; exact readOptions_append h1 x
    · rw [take_app x (by omega)]; exact ih h2

theorem readEntries_no_prefix {n : Nat} {d acc b : Bytes} (h : readEntries n d acc = some (b, [])) :
    ∀ k, k < d.length → readEntries n (d.take k) acc = none := fun _ hk =>
  no_prefix_of_append (R := fun d => readEntries n d acc) (fun _ _ _ x h => readEntries_append h x) h hk

/-! ### the common prefix of LeaseSet2 and MetaLeaseSet: destination, header, offline block, options -/

/-- the optional offline-signature block: (bytes, remainder, type the final signature is read with) -/
def offStage (flags : Nat) (r : Bytes) (spk : Nat) : Option (Bytes × Bytes × Nat) :=
  if flags % 2 = 1 then readOffSig r spk else some ([], r, spk)

theorem offStage_consumed {flags : Nat} {d : Bytes} {spk : Nat} {b r : Bytes} {st : Nat}
    (h : offStage flags d spk = some (b, r, st)) : b ++ r = d := by
  unfold offStage at h
  split at h
  · exact readOffSig_consumed h
  · simp only [Option.some.injEq, Prod.mk.injEq] at h
    obtain ⟨rfl, rfl, _⟩ := h
    rfl

theorem offStage_append {flags : Nat} {d : Bytes} {spk : Nat} {b r : Bytes} {st : Nat}
    (h : offStage flags d spk = some (b, r, st)) (x : Bytes) :
    offStage flags (d ++ x) spk = some (b, r ++ x, st) := by
  unfold offStage at h ⊢
  split at h
  · rename_i hf; rw [if_pos hf]; exact readOffSig_append h x
  · rename_i hf; rw [if_neg hf]
    simp only [Option.some.injEq, Prod.mk.injEq] at h
    obtain ⟨rfl, rfl, rfl⟩ := h
    rfl

/-- `ReadLeaseSet2` / `ReadMetaLeaseSet` up to and including the options, with the rest of the reader
    as a continuation receiving (bytes so far, remainder, signature type) -/
def withHdr (minLen : Nat) (cont : Bytes → Bytes → Nat → P) (d : Bytes) : P :=
  if d.length < minLen then none else
  match readDestination d with
  | none => none
  | some (k, r) =>
    match k.bytes with
    | none => none
    | some db =>
    if r.length < 8 then none else
    match offStage (beVal ((r.drop 6).take 2)) (r.drop 8) k.kc.spk with
    | none => none
    | some (ob, r2, sigT) =>
      match readOptions r2 true with
      | none => none
      | some (optb, r3) => cont (db ++ r.take 8 ++ ob ++ optb) r3 sigT

/-- the common prefix was read from `d`: `hb` are its bytes, `r` the remainder, `sigT` the signature type -/
def Hdr (d hb r : Bytes) (sigT : Nat) : Prop :=
  ∃ k r0 db ob r2 optb, readDestination d = some (k, r0) ∧ k.bytes = some db ∧ 8 ≤ r0.length ∧
    offStage (beVal ((r0.drop 6).take 2)) (r0.drop 8) k.kc.spk = some (ob, r2, sigT) ∧
    readOptions r2 true = some (optb, r) ∧ hb = db ++ r0.take 8 ++ ob ++ optb

theorem withHdr_some {m : Nat} {cont : Bytes → Bytes → Nat → P} {d b rem : Bytes} :
    withHdr m cont d = some (b, rem) ↔
      m ≤ d.length ∧ ∃ hb r sigT, Hdr d hb r sigT ∧ cont hb r sigT = some (b, rem) := by
  unfold withHdr Hdr
  by_cases hm : d.length < m
  · rw [if_pos hm]; constructor
    · intro h; cases h
    · rintro ⟨h, _⟩; omega
  rw [if_neg hm]
  cases hdest : readDestination d with
  | none => simp
  | some p =>
    obtain ⟨k, r0⟩ := p
    simp only []
    cases hdb : k.bytes with
    | none =>
      simp only []
      constructor
      · intro h; cases h
      · rintro ⟨_, _, _, _, ⟨k', r0', db, _, _, _, he, hb, _⟩, _⟩
        simp only [Option.some.injEq, Prod.mk.injEq] at he
        obtain ⟨rfl, rfl⟩ := he
        rw [hdb] at hb; cases hb
    | some db =>
      simp only []
      by_cases h8 : r0.length < 8
      · rw [if_pos h8]; constructor
        · intro h; cases h
        · rintro ⟨_, _, _, _, ⟨k', r0', _, _, _, _, he, _, h8', _⟩, _⟩
          simp only [Option.some.injEq, Prod.mk.injEq] at he
          obtain ⟨rfl, rfl⟩ := he
          omega
      rw [if_neg h8]
      cases hoff : offStage (beVal ((r0.drop 6).take 2)) (r0.drop 8) k.kc.spk with
      | none =>
        simp only []
        constructor
        · intro h; cases h
        · rintro ⟨_, _, _, _, ⟨k', r0', _, _, _, _, he, _, _, ho, _⟩, _⟩
          simp only [Option.some.injEq, Prod.mk.injEq] at he
          obtain ⟨rfl, rfl⟩ := he
          rw [hoff] at ho; cases ho
      | some q =>
        obtain ⟨ob, r2, sigT⟩ := q
        simp only []
        cases hopt : readOptions r2 true with
        | none =>
          simp only []
          constructor
          · intro h; cases h
          · rintro ⟨_, _, _, _, ⟨k', r0', _, _, _, _, he, _, _, ho, hp, _⟩, _⟩
            simp only [Option.some.injEq, Prod.mk.injEq] at he
            obtain ⟨rfl, rfl⟩ := he
            rw [hoff] at ho
            simp only [Option.some.injEq, Prod.mk.injEq] at ho
            obtain ⟨rfl, rfl, rfl⟩ := ho
            rw [hopt] at hp; cases hp
        | some q2 =>
          obtain ⟨optb, r3⟩ := q2
          simp only []
          constructor
          · intro h
            exact ⟨by omega, _, r3, sigT, ⟨k, r0, db, ob, r2, optb, rfl, hdb, by omega, hoff, hopt, rfl⟩, h⟩
          · rintro ⟨_, hb, r, sigT', ⟨k', r0', db', ob', r2', optb', he, hb', _, ho, hp, rfl⟩, hc⟩
            simp only [Option.some.injEq, Prod.mk.injEq] at he
            obtain ⟨rfl, rfl⟩ := he
            rw [hdb] at hb'
            obtain rfl := Option.some.inj hb'
            rw [hoff] at ho
            simp only [Option.some.injEq, Prod.mk.injEq] at ho
            obtain ⟨rfl, rfl, rfl⟩ := ho
            rw [hopt] at hp
            simp only [Option.some.injEq, Prod.mk.injEq] at hp
            obtain ⟨rfl, rfl⟩ := hp
            exact hc

theorem Hdr_consumed {d hb r : Bytes} {sigT : Nat} (h : Hdr d hb r sigT) : hb ++ r = d := by
  obtain ⟨k, r0, db, ob, r2, optb, hd, hdb, _, ho, hp, rfl⟩ := h
  obtain ⟨db', hdb', hc⟩ := readDestination_consumed hd
  rw [hdb] at hdb'
  obtain rfl := Option.some.inj hdb'
  rw [List.append_assoc, readOptions_consumed hp, List.append_assoc, offStage_consumed ho,
    List.append_assoc, List.take_append_drop, hc]

theorem Hdr_append {d hb r : Bytes} {sigT : Nat} (h : Hdr d hb r sigT) (x : Bytes) :
    Hdr (d ++ x) hb (r ++ x) sigT := by
  obtain ⟨k, r0, db, ob, r2, optb, hd, hdb, h8, ho, hp, rfl⟩ := h
  obtain ⟨k', hd', hb', _, _, _, hs', _⟩ := readDestination_append hd x
  refine ⟨k', r0 ++ x, db, ob, r2 ++ x, optb, hd', by rw [hb', hdb], by rw [List.length_append]; omega,
    ?_, readOptions_append hp x, by rw [take_app x h8]⟩
  rw [window_append r0 x 6 2 (by omega), drop_app' x h8, hs']
  exact offStage_append ho x

/-- framing of `withHdr` from framing of the continuation -/
theorem withHdr_consumed {m : Nat} {cont : Bytes → Bytes → Nat → P}
    (hc : ∀ hb r sigT b rem, cont hb r sigT = some (b, rem) → ∃ b', b = hb ++ b' ∧ b' ++ rem = r)
    {d b rem : Bytes} (h : withHdr m cont d = some (b, rem)) : b ++ rem = d := by
  obtain ⟨_, hb, r, sigT, hh, hk⟩ := withHdr_some.mp h
  obtain ⟨b', rfl, hr⟩ := hc _ _ _ _ _ hk
  rw [List.append_assoc, hr, Hdr_consumed hh]

theorem withHdr_append {m : Nat} {cont : Bytes → Bytes → Nat → P}
    (hc : ∀ hb r sigT b rem x, cont hb r sigT = some (b, rem) → cont hb (r ++ x) sigT = some (b, rem ++ x))
    {d b rem : Bytes} (h : withHdr m cont d = some (b, rem)) (x : Bytes) :
    withHdr m cont (d ++ x) = some (b, rem ++ x) := by
  obtain ⟨hm, hb, r, sigT, hh, hk⟩ := withHdr_some.mp h
  rw [withHdr_some]
  exact ⟨by rw [List.length_append]; omega, hb, r ++ x, sigT, Hdr_append hh x, hc _ _ _ _ _ x hk⟩

/-! ### LeaseSet2 -/

/-- `ReadLeaseSet2` after the options: keys, leases, signature -/
def ls2Cont (hb r : Bytes) (sigT : Nat) : P :=
  match r with
  | [] => none
  | nk :: r =>
    if nk.toNat < 1 ∨ nk.toNat > 16 then none else
    match readKeys nk.toNat r [] with
    | none => none
    | some (kb, r) =>
      match r with
      | [] => none
      | nl :: r =>
        if nl.toNat > 16 then none else
        match readFixed nl.toNat 40 r with
        | none => none
        | some (lb, r) =>
          match readSig r sigT with
          | none => none
          | some (sb, r) => some (hb ++ [nk] ++ kb ++ [nl] ++ lb ++ sb, r)

theorem readLeaseSet2_eq (d : Bytes) : readLeaseSet2 d = withHdr 499 ls2Cont d := rfl

/-- the stages of `ls2Cont` -/
def Ls2Tail (hb r : Bytes) (sigT : Nat) (b rem : Bytes) : Prop :=
  ∃ nk r3 kb nl r4 lb r5 sb, r = nk :: r3 ∧ 1 ≤ nk.toNat ∧ nk.toNat ≤ 16 ∧
    readKeys nk.toNat r3 [] = some (kb, nl :: r4) ∧ nl.toNat ≤ 16 ∧
    readFixed nl.toNat 40 r4 = some (lb, r5) ∧ readSig r5 sigT = some (sb, rem) ∧
    b = hb ++ [nk] ++ kb ++ [nl] ++ lb ++ sb

theorem ls2Cont_some {hb r : Bytes} {sigT : Nat} {b rem : Bytes}
    (h : ls2Cont hb r sigT = some (b, rem)) : Ls2Tail hb r sigT b rem := by
  unfold ls2Cont at h
  split at h
  · cases h
  rename_i nk r3
  split at h
  · cases h
  rename_i hnk
  split at h
  · cases h
  rename_i kb r' hk
  split at h
  · cases h
  rename_i nl r4
  split at h
  · cases h
  rename_i hnl
  split at h
  · cases h
  rename_i lb r5 hf
  split at h
  · cases h
  rename_i sb r6 hs
  simp only [Option.some.injEq, Prod.mk.injEq] at h
  obtain ⟨rfl, rfl⟩ := h
  exact ⟨nk, r3, kb, nl, r4, lb, r5, sb, rfl, by omega, by omega, hk, by omega, hf, hs, rfl⟩

theorem ls2Cont_of {hb r : Bytes} {sigT : Nat} {b rem : Bytes}
    (h : Ls2Tail hb r sigT b rem) : ls2Cont hb r sigT = some (b, rem) := by
  obtain ⟨nk, r3, kb, nl, r4, lb, r5, sb, rfl, h1, h16, hk, hl, hf, hs, rfl⟩ := h
  unfold ls2Cont
  simp only []
  rw [if_neg (by omega)]
  simp only [hk]
  rw [if_neg (by omega)]
  simp only [hf, hs]

theorem ls2Cont_consumed (hb r : Bytes) (sigT : Nat) (b rem : Bytes) (h : ls2Cont hb r sigT = some (b, rem)) :
    ∃ b', b = hb ++ b' ∧ b' ++ rem = r := by
  obtain ⟨nk, r3, kb, nl, r4, lb, r5, sb, rfl, _, _, hk, _, hf, hs, rfl⟩ := ls2Cont_some h
  obtain ⟨kb', hkb, hkr⟩ := readKeys_consumed hk
  rw [List.nil_append] at hkb
  subst hkb
  refine ⟨[nk] ++ kb ++ [nl] ++ lb ++ sb, by simp only [List.append_assoc], ?_⟩
  have h1 := readFixed_consumed hf
  have h2 := readSig_consumed hs
  rw [← hkr, ← h1, ← h2]
  simp only [List.append_assoc, List.cons_append, List.nil_append]

theorem ls2Cont_append (hb r : Bytes) (sigT : Nat) (b rem x : Bytes) (h : ls2Cont hb r sigT = some (b, rem)) :
    ls2Cont hb (r ++ x) sigT = some (b, rem ++ x) := by
  obtain ⟨nk, r3, kb, nl, r4, lb, r5, sb, rfl, h1, h16, hk, hl, hf, hs, rfl⟩ := ls2Cont_some h
  exact ls2Cont_of ⟨nk, r3 ++ x, kb, nl, r4 ++ x, lb, r5 ++ x, sb, rfl, h1, h16, readKeys_append hk x, hl,
    readFixed_append hf x, readSig_append hs x, rfl⟩

theorem readLeaseSet2_consumed {d b r : Bytes} (h : readLeaseSet2 d = some (b, r)) : b ++ r = d :=
  withHdr_consumed ls2Cont_consumed h

theorem readLeaseSet2_append {d b r : Bytes} (h : readLeaseSet2 d = some (b, r)) (x : Bytes) :
    readLeaseSet2 (d ++ x) = some (b, r ++ x) :=
  withHdr_append ls2Cont_append h x

theorem readLeaseSet2_no_prefix {d b : Bytes} (h : readLeaseSet2 d = some (b, [])) :
    ∀ k, k < d.length → readLeaseSet2 (d.take k) = none := fun _ hk =>
  no_prefix_of_append (R := readLeaseSet2) (fun _ _ _ x h => readLeaseSet2_append h x) h hk

/-- the stages of `ReadLeaseSet2`, spelled out -/
theorem readLeaseSet2_some {d b rem : Bytes} :
    readLeaseSet2 d = some (b, rem) ↔
      499 ≤ d.length ∧ ∃ hb r sigT, Hdr d hb r sigT ∧ Ls2Tail hb r sigT b rem := by
  rw [readLeaseSet2_eq, withHdr_some]
  constructor
  · rintro ⟨hm, hb, r, sigT, hh, hc⟩; exact ⟨hm, hb, r, sigT, hh, ls2Cont_some hc⟩
  · rintro ⟨hm, hb, r, sigT, hh, hc⟩; exact ⟨hm, hb, r, sigT, hh, ls2Cont_of hc⟩

/-! ### MetaLeaseSet -/

/-- `ReadMetaLeaseSet` after the options: entries, signature -/
def metaCont (hb r : Bytes) (sigT : Nat) : P :=
  match r with
  | [] => none
  | ne :: r =>
    if ne.toNat < 1 ∨ ne.toNat > 16 then none else
    match readEntries ne.toNat r [] with
    | none => none
    | some (eb, r) =>
      match readSig r sigT with
      | none => none
      | some (sb, r) => some (hb ++ [ne] ++ eb ++ sb, r)

theorem readMeta_eq (d : Bytes) : readMeta d = withHdr 505 metaCont d := rfl

/-- the stages of `metaCont` -/
def MetaTail (hb r : Bytes) (sigT : Nat) (b rem : Bytes) : Prop :=
  ∃ ne r3 eb r4 sb, r = ne :: r3 ∧ 1 ≤ ne.toNat ∧ ne.toNat ≤ 16 ∧
    readEntries ne.toNat r3 [] = some (eb, r4) ∧ readSig r4 sigT = some (sb, rem) ∧
    b = hb ++ [ne] ++ eb ++ sb

theorem metaCont_some {hb r : Bytes} {sigT : Nat} {b rem : Bytes}
    (h : metaCont hb r sigT = some (b, rem)) : MetaTail hb r sigT b rem := by
  unfold metaCont at h
  split at h
  · cases h
  rename_i ne r3
  split at h
  · cases h
  rename_i hne
  split at h
  · cases h
  rename_i eb r4 he
  split at h
  · cases h
  rename_i sb r5 hs
  simp only [Option.some.injEq, Prod.mk.injEq] at h
  obtain ⟨rfl, rfl⟩ := h
  exact ⟨ne, r3, eb, r4, sb, rfl, by omega, by omega, he, hs, rfl⟩

theorem metaCont_of {hb r : Bytes} {sigT : Nat} {b rem : Bytes}
    (h : MetaTail hb r sigT b rem) : metaCont hb r sigT = some (b, rem) := by
  obtain ⟨ne, r3, eb, r4, sb, rfl, h1, h16, he, hs, rfl⟩ := h
  unfold metaCont
  simp only []
  rw [if_neg (by omega)]
  simp only [he, hs]

theorem metaCont_consumed (hb r : Bytes) (sigT : Nat) (b rem : Bytes) (h : metaCont hb r sigT = some (b, rem)) :
    ∃ b', b = hb ++ b' ∧ b' ++ rem = r := by
  obtain ⟨ne, r3, eb, r4, sb, rfl, _, _, he, hs, rfl⟩ := metaCont_some h
  obtain ⟨eb', heb, her⟩ := readEntries_consumed he
  rw [List.nil_append] at heb
  subst heb
  refine ⟨[ne] ++ eb ++ sb, by simp only [List.append_assoc], ?_⟩
  have h2 := readSig_consumed hs
  rw [← her, ← h2]
  simp only [List.append_assoc, List.cons_append, List.nil_append]

theorem metaCont_append (hb r : Bytes) (sigT : Nat) (b rem x : Bytes) (h : metaCont hb r sigT = some (b, rem)) :
    metaCont hb (r ++ x) sigT = some (b, rem ++ x) := by
  obtain ⟨ne, r3, eb, r4, sb, rfl, h1, h16, he, hs, rfl⟩ := metaCont_some h
  exact metaCont_of ⟨ne, r3 ++ x, eb, r4 ++ x, sb, rfl, h1, h16, readEntries_append he x, readSig_append hs x, rfl⟩

theorem readMeta_consumed {d b r : Bytes} (h : readMeta d = some (b, r)) : b ++ r = d :=
  withHdr_consumed metaCont_consumed h

theorem readMeta_append {d b r : Bytes} (h : readMeta d = some (b, r)) (x : Bytes) :
    readMeta (d ++ x) = some (b, r ++ x) :=
  withHdr_append metaCont_append h x

theorem readMeta_no_prefix {d b : Bytes} (h : readMeta d = some (b, [])) :
    ∀ k, k < d.length → readMeta (d.take k) = none := fun _ hk =>
  no_prefix_of_append (R := readMeta) (fun _ _ _ x h => readMeta_append h x) h hk

/-- the stages of `ReadMetaLeaseSet`, spelled out -/
theorem readMeta_some {d b rem : Bytes} :
    readMeta d = some (b, rem) ↔
      505 ≤ d.length ∧ ∃ hb r sigT, Hdr d hb r sigT ∧ MetaTail hb r sigT b rem := by
  rw [readMeta_eq, withHdr_some]
  constructor
  · rintro ⟨hm, hb, r, sigT, hh, hc⟩; exact ⟨hm, hb, r, sigT, hh, metaCont_some hc⟩
  · rintro ⟨hm, hb, r, sigT, hh, hc⟩; exact ⟨hm, hb, r, sigT, hh, metaCont_of hc⟩

/-! ### EncryptedLeaseSet -/

/-- `ReadEncryptedLeaseSet` after the blinded key: header, offline block, inner data, signature, `Validate` -/
def elsCont (pre : Bytes) (st : Nat) (r : Bytes) : P :=
  if r.length < 8 then none else
  if beVal ((r.drop 6).take 2) / 4 ≠ 0 then none else
  match offStage (beVal ((r.drop 6).take 2)) (r.drop 8) st with
  | none => none
  | some (ob, r2, sigT) =>
    if r2.length < 2 then none else
    if beVal (r2.take 2) = 0 then none else
    if (r2.drop 2).length < beVal (r2.take 2) then none else
    match readSig ((r2.drop 2).drop (beVal (r2.take 2))) sigT with
    | none => none
    | some (sb, rem) =>
      if beVal ((r.drop 4).take 2) = 0 then none else
      if beVal (r2.take 2) < 61 then none else
      some (pre ++ r.take 8 ++ ob ++ r2.take 2 ++ (r2.drop 2).take (beVal (r2.take 2)) ++ sb, rem)

theorem readELS_eq (d : Bytes) :
    readELS d =
      if d.length < 109 then none else
      if sigPubSize (beVal (d.take 2)) = 0 then none else
      if (d.drop 2).length < sigPubSize (beVal (d.take 2)) then none else
      elsCont (d.take 2 ++ (d.drop 2).take (sigPubSize (beVal (d.take 2)))) (beVal (d.take 2))
        ((d.drop 2).drop (sigPubSize (beVal (d.take 2)))) := rfl

/-- the stages of `elsCont` -/
def ElsTail (pre : Bytes) (st : Nat) (r b rem : Bytes) : Prop :=
  8 ≤ r.length ∧ beVal ((r.drop 6).take 2) / 4 = 0 ∧ beVal ((r.drop 4).take 2) ≠ 0 ∧
  ∃ ob r2 sigT sb, offStage (beVal ((r.drop 6).take 2)) (r.drop 8) st = some (ob, r2, sigT) ∧
    2 ≤ r2.length ∧ 61 ≤ beVal (r2.take 2) ∧ 2 + beVal (r2.take 2) ≤ r2.length ∧
    readSig (r2.drop (2 + beVal (r2.take 2))) sigT = some (sb, rem) ∧
    b = pre ++ r.take 8 ++ ob ++ r2.take 2 ++ (r2.drop 2).take (beVal (r2.take 2)) ++ sb

theorem elsCont_some {pre : Bytes} {st : Nat} {r b rem : Bytes}
    (h : elsCont pre st r = some (b, rem)) : ElsTail pre st r b rem := by
  unfold elsCont at h
  split at h
  · cases h
  rename_i h8
  split at h
  · cases h
  rename_i hfl
  split at h
  · cases h
  rename_i ob r2 sigT ho
  split at h
  · cases h
  rename_i h2
  split at h
  · cases h
  rename_i hil0
  split at h
  · cases h
  rename_i hil
  split at h
  · cases h
  rename_i sb rem' hs
  split at h
  · cases h
  rename_i hexp
  split at h
  · cases h
  rename_i h61
  simp only [Option.some.injEq, Prod.mk.injEq] at h
  obtain ⟨rfl, rfl⟩ := h
  rw [List.length_drop] at hil
  rw [List.drop_drop] at hs
  exact ⟨by omega, by omega, hexp, ob, r2, sigT, sb, ho, by omega, by omega, by omega, hs, rfl⟩

theorem elsCont_of {pre : Bytes} {st : Nat} {r b rem : Bytes}
    (h : ElsTail pre st r b rem) : elsCont pre st r = some (b, rem) := by
  obtain ⟨h8, hfl, hexp, ob, r2, sigT, sb, ho, h2, h61, hil, hs, rfl⟩ := h
  unfold elsCont
  rw [if_neg (by omega), if_neg (by omega)]
  simp only [ho]
  rw [if_neg (by omega), if_neg (by omega), if_neg (by rw [List.length_drop]; omega), List.drop_drop]
  simp only [hs]
  rw [if_neg hexp, if_neg (by omega)]

theorem elsCont_consumed {pre : Bytes} {st : Nat} {r b rem : Bytes} (h : elsCont pre st r = some (b, rem)) :
    ∃ b', b = pre ++ b' ∧ b' ++ rem = r := by
  obtain ⟨_, _, _, ob, r2, sigT, sb, ho, _, _, _, hs, rfl⟩ := elsCont_some h
  refine ⟨r.take 8 ++ ob ++ r2.take 2 ++ (r2.drop 2).take (beVal (r2.take 2)) ++ sb,
    by simp only [List.append_assoc], ?_⟩
  have h1 := readSig_consumed hs
  have h2 := offStage_consumed ho
  rw [← List.drop_drop] at h1
  simp only [List.append_assoc]
  rw [h1, List.take_append_drop, List.take_append_drop, h2, List.take_append_drop]

theorem elsCont_append {pre : Bytes} {st : Nat} {r b rem : Bytes} (h : elsCont pre st r = some (b, rem))
    (x : Bytes) : elsCont pre st (r ++ x) = some (b, rem ++ x) := by
  obtain ⟨h8, hfl, hexp, ob, r2, sigT, sb, ho, h2, h61, hil, hs, rfl⟩ := elsCont_some h
  apply elsCont_of
  have e6 := window_append r x 6 2 (by omega)
  have e4 := window_append r x 4 2 (by omega)
  have et : (r2 ++ x).take 2 = r2.take 2 := take_app x h2
  refine ⟨by rw [List.length_append]; omega, by rw [e6]; exact hfl, by rw [e4]; exact hexp,
    ob, r2 ++ x, sigT, sb, ?_, by rw [List.length_append]; omega, by rw [et]; exact h61,
    by rw [et, List.length_append]; omega, ?_, ?_⟩
  · rw [e6, drop_app' x h8]; exact offStage_append ho x
  · rw [et, drop_app' x hil]; exact readSig_append hs x
  · rw [et, take_app x h8, drop_app' x h2, take_app x (by rw [List.length_drop]; omega)]

/-- the stages of `ReadEncryptedLeaseSet`, spelled out -/
theorem readELS_some {d b rem : Bytes} :
    readELS d = some (b, rem) ↔
      109 ≤ d.length ∧ sigPubSize (beVal (d.take 2)) ≠ 0 ∧ 2 + sigPubSize (beVal (d.take 2)) ≤ d.length ∧
      ElsTail (d.take 2 ++ (d.drop 2).take (sigPubSize (beVal (d.take 2)))) (beVal (d.take 2))
        (d.drop (2 + sigPubSize (beVal (d.take 2)))) b rem := by
  rw [readELS_eq, List.length_drop, List.drop_drop]
  by_cases h109 : d.length < 109
  · rw [if_pos h109]; constructor
    · intro h; cases h
    · rintro ⟨h, _⟩; omega
  rw [if_neg h109]
  by_cases hks : sigPubSize (beVal (d.take 2)) = 0
  · rw [if_pos hks]; constructor
    · intro h; cases h
    · rintro ⟨_, h, _⟩; exact absurd hks h
  rw [if_neg hks]
  by_cases hl : d.length - 2 < sigPubSize (beVal (d.take 2))
  · rw [if_pos hl]; constructor
    · intro h; cases h
    · rintro ⟨_, _, h, _⟩; omega
  rw [if_neg hl]
  constructor
  · intro h; exact ⟨by omega, hks, by omega, elsCont_some h⟩
  · rintro ⟨_, _, _, h⟩; exact elsCont_of h

theorem readELS_consumed {d b r : Bytes} (h : readELS d = some (b, r)) : b ++ r = d := by
  obtain ⟨_, _, _, ht⟩ := readELS_some.mp h
  obtain ⟨b', rfl, hr⟩ := elsCont_consumed (elsCont_of ht)
  rw [List.append_assoc, hr, List.append_assoc, ← List.drop_drop, List.take_append_drop, List.take_append_drop]

theorem readELS_append {d b r : Bytes} (h : readELS d = some (b, r)) (x : Bytes) :
    readELS (d ++ x) = some (b, r ++ x) := by
  obtain ⟨h109, hks, hl, ht⟩ := readELS_some.mp h
  have et : (d ++ x).take 2 = d.take 2 := take_app x (by omega)
  rw [readELS_some, et, drop_app' x hl, drop_app' x (by omega), take_app x (by rw [List.length_drop]; omega)]
  exact ⟨by rw [List.length_append]; omega, hks, by rw [List.length_append]; omega,
    elsCont_some (elsCont_append (elsCont_of ht) x)⟩

theorem readELS_no_prefix {d b : Bytes} (h : readELS d = some (b, [])) :
    ∀ k, k < d.length → readELS (d.take k) = none := fun _ hk =>
  no_prefix_of_append (R := readELS) (fun _ _ _ x h => readELS_append h x) h hk

/-! ### RouterInfo -/

/-- `ReadRouterInfo` after the router identity: date, addresses, peer size, options, signature -/
def riCont (ib : Bytes) (sigT : Nat) (r : Bytes) : P :=
  if r.length < 8 then none else
  match readAddrs (beVal ((r.drop 8).take 1)) ((r.drop 8).drop 1) [] with
  | none => none
  | some (ab, r2) =>
    if !accepted (readMapping (r2.drop 1)) then none else
    match readSig (readMapping (r2.drop 1)).rem sigT with
    | none => none
    | some (sb, rem) =>
      some (ib ++ r.take 8 ++ (r.drop 8).take 1 ++ ab ++ r2.take 1 ++ (data (readMapping (r2.drop 1))).getD [] ++ sb, rem)

theorem readRouterInfo_eq (d : Bytes) :
    readRouterInfo d =
      match readRouterIdentity d with
      | none => none
      | some (k, r) =>
        match k.bytes with
        | none => none
        | some ib => riCont ib (if (d.drop 384).take 1 == [5] then k.kc.spk else 0) r := rfl

/-- the stages of `riCont` -/
def RiTail (ib : Bytes) (sigT : Nat) (r b rem : Bytes) : Prop :=
  8 ≤ r.length ∧ ∃ ab r2 sb, readAddrs (beVal ((r.drop 8).take 1)) (r.drop 9) [] = some (ab, r2) ∧
    accepted (readMapping (r2.drop 1)) = true ∧ readSig (readMapping (r2.drop 1)).rem sigT = some (sb, rem) ∧
    b = ib ++ r.take 8 ++ (r.drop 8).take 1 ++ ab ++ r2.take 1 ++ (data (readMapping (r2.drop 1))).getD [] ++ sb

theorem riCont_some {ib : Bytes} {sigT : Nat} {r b rem : Bytes}
    (h : riCont ib sigT r = some (b, rem)) : RiTail ib sigT r b rem := by
  unfold riCont at h
  split at h
  · cases h
  rename_i h8
  split at h
  · cases h
  rename_i ab r2 ha
  split at h
  · cases h
  rename_i hacc
  split at h
  · cases h
  rename_i sb rem' hs
  simp only [Option.some.injEq, Prod.mk.injEq] at h
  obtain ⟨rfl, rfl⟩ := h
  rw [List.drop_drop] at ha
  refine ⟨by omega, ab, r2, sb, ha, ?_, hs, rfl⟩
  cases hm : accepted (readMapping (r2.drop 1)) with
  | true => rfl
  | false => rw [hm] at hacc; simp at hacc

theorem riCont_of {ib : Bytes} {sigT : Nat} {r b rem : Bytes}
    (h : RiTail ib sigT r b rem) : riCont ib sigT r = some (b, rem) := by
  obtain ⟨h8, ab, r2, sb, ha, hacc, hs, rfl⟩ := h
  unfold riCont
  rw [if_neg (by omega), List.drop_drop]
  simp only [ha, hacc, hs]
  rfl

theorem accepted_length {w : Bytes} (h : accepted (readMapping w) = true) : 2 ≤ w.length := by
  obtain ⟨a, l, rest, rfl, _⟩ := accepted_cases w h
  simp

theorem riCont_consumed {ib : Bytes} {sigT : Nat} {r b rem : Bytes} (h : riCont ib sigT r = some (b, rem)) :
    ∃ b', b = ib ++ b' ∧ b' ++ rem = r := by
  obtain ⟨_, ab, r2, sb, ha, hacc, hs, rfl⟩ := riCont_some h
  obtain ⟨c, hd, hc, _⟩ := mapping_frame _ hacc
  refine ⟨r.take 8 ++ (r.drop 8).take 1 ++ ab ++ r2.take 1 ++ (data (readMapping (r2.drop 1))).getD [] ++ sb,
    by simp only [List.append_assoc], ?_⟩
  obtain ⟨ab', hab, har⟩ := readAddrs_consumed ha
  rw [List.nil_append] at hab
  subst hab
  rw [hd, Option.getD_some]
  simp only [List.append_assoc]
  rw [readSig_consumed hs, hc, List.take_append_drop, har]
  have : r.drop 9 = (r.drop 8).drop 1 := by rw [List.drop_drop]
  rw [this, List.take_append_drop, List.take_append_drop]

theorem riCont_append {ib : Bytes} {sigT : Nat} {r b rem : Bytes} (h : riCont ib sigT r = some (b, rem))
    (x : Bytes) : riCont ib sigT (r ++ x) = some (b, rem ++ x) := by
  obtain ⟨h8, ab, r2, sb, ha, hacc, hs, rfl⟩ := riCont_some h
  obtain ⟨c, hd, _, _, hx⟩ := mapping_frame _ hacc
  obtain ⟨hacc', hr', hd', _⟩ := hx x
  obtain ⟨ab', _, har⟩ := readAddrs_consumed ha
  have hm := accepted_length hacc
  rw [List.length_drop] at hm
  have hr9 : ab'.length + r2.length = r.length - 9 := by
    have := congrArg List.length har
    rw [List.length_append, List.length_drop] at this
    exact this
  have e8 := window_append r x 8 1 (by omega)
  have ed : (r2 ++ x).drop 1 = r2.drop 1 ++ x := drop_app' x (by omega)
  apply riCont_of
  refine ⟨by rw [List.length_append]; omega, ab, r2 ++ x, sb, ?_, by rw [ed]; exact hacc', ?_, ?_⟩
  · rw [e8, drop_app' x (by omega)]; exact readAddrs_append ha x
  · rw [ed, hr']; exact readSig_append hs x
  · rw [ed, hd', hd, e8, take_app x h8, take_app x (by omega)]

/-- the stages of `ReadRouterInfo`, spelled out -/
theorem readRouterInfo_some {d b rem : Bytes} :
    readRouterInfo d = some (b, rem) ↔
      ∃ k r ib, readRouterIdentity d = some (k, r) ∧ k.bytes = some ib ∧
        RiTail ib (if (d.drop 384).take 1 == [5] then k.kc.spk else 0) r b rem := by
  rw [readRouterInfo_eq]
  cases hid : readRouterIdentity d with
  | none => simp
  | some p =>
    obtain ⟨k, r⟩ := p
    simp only []
    cases hib : k.bytes with
    | none =>
      simp only []
      constructor
      · intro h; cases h
      · rintro ⟨k', r', ib, he, hb, _⟩
        simp only [Option.some.injEq, Prod.mk.injEq] at he
        obtain ⟨rfl, rfl⟩ := he
        rw [hib] at hb; cases hb
    | some ib =>
      simp only []
      constructor
      · intro h; exact ⟨k, r, ib, rfl, hib, riCont_some h⟩
      · rintro ⟨k', r', ib', he, hb, ht⟩
        simp only [Option.some.injEq, Prod.mk.injEq] at he
        obtain ⟨rfl, rfl⟩ := he
        rw [hib] at hb
        obtain rfl := Option.some.inj hb
        exact riCont_of ht

theorem readRouterInfo_consumed {d b r : Bytes} (h : readRouterInfo d = some (b, r)) : b ++ r = d := by
  obtain ⟨k, r0, ib, hid, hib, ht⟩ := readRouterInfo_some.mp h
  obtain ⟨ib', hib', hc⟩ := readRouterIdentity_consumed hid
  rw [hib] at hib'
  obtain rfl := Option.some.inj hib'
  obtain ⟨b', rfl, hr⟩ := riCont_consumed (riCont_of ht)
  rw [List.append_assoc, hr, hc]

theorem readRouterInfo_append {d b r : Bytes} (h : readRouterInfo d = some (b, r)) (x : Bytes) :
    readRouterInfo (d ++ x) = some (b, r ++ x) := by
  obtain ⟨k, r0, ib, hid, hib, ht⟩ := readRouterInfo_some.mp h
  obtain ⟨k', hid', hb', _, _, _, hs', _⟩ := readRouterIdentity_append hid x
  have hlen : 387 ≤ d.length := (readKac_some.mp (readRouterIdentity_sub hid)).1
  rw [readRouterInfo_some]
  refine ⟨k', r0 ++ x, ib, hid', by rw [hb', hib], ?_⟩
  rw [window_append d x 384 1 (by omega), hs']
  exact riCont_some (riCont_append (riCont_of ht) x)

theorem readRouterInfo_no_prefix {d b : Bytes} (h : readRouterInfo d = some (b, [])) :
    ∀ k, k < d.length → readRouterInfo (d.take k) = none := fun _ hk =>
  no_prefix_of_append (R := readRouterInfo) (fun _ _ _ x h => readRouterInfo_append h x) h hk

/-! ### LeaseSet (legacy) -/

/-- `ReadLeaseSet` after the destination: encryption key, signing key, leases, signature -/
def lsCont (db : Bytes) (isKey : Bool) (spk : Nat) (r : Bytes) : P :=
  if r.length < 256 then none else
  if !elgValid (r.take 256) then none else
  if (r.drop 256).length < (if isKey then sigPubSize spk else 128) then none else
  if !isKey && !dsaValid ((r.drop 256).take (if isKey then sigPubSize spk else 128)) then none else
  match (r.drop 256).drop (if isKey then sigPubSize spk else 128) with
  | [] => none
  | n :: r2 =>
    if n.toNat > 16 then none else
    if r2.length < n.toNat * 44 then none else
    if (r2.drop (n.toNat * 44)).length < (if isKey then sigLen spk else 40) then none else
    some (db ++ r.take 256 ++ (r.drop 256).take (if isKey then sigPubSize spk else 128) ++ [n] ++
        r2.take (n.toNat * 44) ++ (r2.drop (n.toNat * 44)).take (if isKey then sigLen spk else 40),
      (r2.drop (n.toNat * 44)).drop (if isKey then sigLen spk else 40))

theorem readLeaseSet_eq (d : Bytes) :
    readLeaseSet d =
      if d.length < 387 then none else
      match readCert (d.drop 384) with
      | none => none
      | some (c, _) =>
        if d.length < 387 + c.declared then none else
        match readDestination (d.take (387 + c.declared)) with
        | none => none
        | some (k, _) =>
          match k.bytes with
          | none => none
          | some db => lsCont db (c.kind == [5]) k.kc.spk (d.drop (387 + c.declared)) := rfl

/-- the stages of `lsCont` (`ks`, `ss`: signing-key and signature sizes) -/
def LsTail (db : Bytes) (isKey : Bool) (spk : Nat) (r b rem : Bytes) : Prop :=
  ∃ ks ss n r2, ks = (if isKey then sigPubSize spk else 128) ∧ ss = (if isKey then sigLen spk else 40) ∧
    256 + ks ≤ r.length ∧ elgValid (r.take 256) = true ∧
    (isKey = true ∨ dsaValid ((r.drop 256).take ks) = true) ∧
    r.drop (256 + ks) = n :: r2 ∧ n.toNat ≤ 16 ∧ n.toNat * 44 + ss ≤ r2.length ∧
    b = db ++ r.take 256 ++ (r.drop 256).take ks ++ [n] ++ r2.take (n.toNat * 44) ++ (r2.drop (n.toNat * 44)).take ss ∧
    rem = r2.drop (n.toNat * 44 + ss)

theorem lsCont_some {db : Bytes} {isKey : Bool} {spk : Nat} {r b rem : Bytes}
    (h : lsCont db isKey spk r = some (b, rem)) : LsTail db isKey spk r b rem := by
  unfold lsCont at h
  generalize hks : (if isKey = true then sigPubSize spk else 128) = ks at h
  generalize hss : (if isKey = true then sigLen spk else 40) = ss at h
  split at h
  · cases h
  rename_i h256
  split at h
  · cases h
  rename_i helg
  split at h
  · cases h
  rename_i hk
  split at h
  · cases h
  rename_i hdsa
  split at h
  · cases h
  rename_i n r2 hn
  split at h
  · cases h
  rename_i h16
  split at h
  · cases h
  rename_i h44
  split at h
  · cases h
  rename_i hsl
  simp only [Option.some.injEq, Prod.mk.injEq] at h
  obtain ⟨rfl, rfl⟩ := h
  rw [List.length_drop] at hk hsl
  rw [List.drop_drop] at hn
  refine ⟨ks, ss, n, r2, hks.symm, hss.symm, by omega, ?_, ?_, hn, by omega, by omega, rfl, by rw [List.drop_drop]⟩
  · cases he : elgValid (r.take 256) with
    | true => rfl
    | false => rw [he] at helg; simp at helg
  · cases isKey with
    | true => exact Or.inl rfl
    | false =>
      right
      cases hd : dsaValid ((r.drop 256).take ks) with
      | true => rfl
      | false => rw [hd] at hdsa; simp at hdsa

theorem lsCont_of {db : Bytes} {isKey : Bool} {spk : Nat} {r b rem : Bytes}
    (h : LsTail db isKey spk r b rem) : lsCont db isKey spk r = some (b, rem) := by
  obtain ⟨ks, ss, n, r2, hks, hss, hlen, helg, hdsa, hn, h16, h44, rfl, rfl⟩ := h
  unfold lsCont
  rw [← hks, ← hss, if_neg (by omega), if_neg (by rw [helg]; simp), if_neg (by rw [List.length_drop]; omega),
    if_neg (by rcases hdsa with h | h <;> rw [h] <;> simp), List.drop_drop, hn]
  simp only []
  rw [if_neg (by omega), if_neg (by omega), if_neg (by rw [List.length_drop]; omega), List.drop_drop]

theorem lsCont_consumed {db : Bytes} {isKey : Bool} {spk : Nat} {r b rem : Bytes}
    (h : lsCont db isKey spk r = some (b, rem)) : ∃ b', b = db ++ b' ∧ b' ++ rem = r := by
  obtain ⟨ks, ss, n, r2, _, _, _, _, _, hn, _, _, rfl, rfl⟩ := lsCont_some h
  refine ⟨r.take 256 ++ (r.drop 256).take ks ++ [n] ++ r2.take (n.toNat * 44) ++ (r2.drop (n.toNat * 44)).take ss,
    by simp only [List.append_assoc], ?_⟩
  simp only [List.append_assoc]
  rw [← List.drop_drop, List.take_append_drop, List.take_append_drop, List.singleton_append, ← hn,
    ← List.drop_drop, List.take_append_drop, List.take_append_drop]

theorem lsCont_append {db : Bytes} {isKey : Bool} {spk : Nat} {r b rem : Bytes}
    (h : lsCont db isKey spk r = some (b, rem)) (x : Bytes) :
    lsCont db isKey spk (r ++ x) = some (b, rem ++ x) := by
  obtain ⟨ks, ss, n, r2, hks, hss, hlen, helg, hdsa, hn, h16, h44, rfl, rfl⟩ := lsCont_some h
  apply lsCont_of
  have e1 : (r ++ x).take 256 = r.take 256 := take_app x (by omega)
  have e2 := window_append r x 256 ks hlen
  refine ⟨ks, ss, n, r2 ++ x, hks, hss, by rw [List.length_append]; omega, by rw [e1]; exact helg,
    by rw [e2]; exact hdsa, by rw [drop_app' x hlen, hn]; rfl, h16, by rw [List.length_append]; omega, ?_,
    (drop_app' x h44).symm⟩
  rw [e1, e2, take_app x (by omega), window_append r2 x _ _ h44]

/-- the destination embedded in a legacy LeaseSet is delimited by its certificate length, so the
    destination reader consumes the slice it is given completely -/
theorem readDestination_slice {d : Bytes} {c : Cert} {rc : Bytes} {k : KeysAndCert} {r : Bytes}
    (hc : readCert (d.drop 384) = some (c, rc))
    (hd : readDestination (d.take (387 + c.declared)) = some (k, r)) : r = [] := by
  obtain ⟨h3, rfl, _, _⟩ := readCert_some.mp hc
  have hp := KcParse_readCert (readKac_struct (readDestination_sub hd)).2.1
  obtain ⟨h3', _, _, hr⟩ := readCert_some.mp hp
  have e : (d.take (387 + beVal (((d.drop 384).drop 1).take 2))).drop 384
      = (d.drop 384).take (3 + beVal (((d.drop 384).drop 1).take 2)) := by
    have e0 : 387 + beVal (((d.drop 384).drop 1).take 2) - 384 = 3 + beVal (((d.drop 384).drop 1).take 2) := by
      omega
    rw [List.drop_take, e0]
  simp only [Cert.declared] at hr e hd h3'
  rw [e] at hr h3'
  rw [len_take _ _ (by omega)] at hr
  rw [hr, List.drop_eq_nil_iff, List.length_take]
  omega

/-- the stages of `ReadLeaseSet`, spelled out -/
theorem readLeaseSet_some {d b rem : Bytes} :
    readLeaseSet d = some (b, rem) ↔
      387 ≤ d.length ∧ ∃ c rc k db, readCert (d.drop 384) = some (c, rc) ∧ 387 + c.declared ≤ d.length ∧
        readDestination (d.take (387 + c.declared)) = some (k, []) ∧ k.bytes = some db ∧
        LsTail db (c.kind == [5]) k.kc.spk (d.drop (387 + c.declared)) b rem := by
  rw [readLeaseSet_eq]
  by_cases h387 : d.length < 387
  · rw [if_pos h387]; constructor
    · intro h; cases h
    · rintro ⟨h, _⟩; omega
  rw [if_neg h387]
  cases hc : readCert (d.drop 384) with
  | none => simp
  | some p =>
    obtain ⟨c, rc⟩ := p
    simp only []
    by_cases hl : d.length < 387 + c.declared
    · rw [if_pos hl]; constructor
      · intro h; cases h
      · rintro ⟨_, c', rc', _, _, he, hl', _⟩
        simp only [Option.some.injEq, Prod.mk.injEq] at he
        obtain ⟨rfl, rfl⟩ := he
        omega
    rw [if_neg hl]
    cases hd : readDestination (d.take (387 + c.declared)) with
    | none =>
      simp only []
      constructor
      · intro h; cases h
      · rintro ⟨_, c', rc', _, _, he, _, hd', _⟩
        simp only [Option.some.injEq, Prod.mk.injEq] at he
        obtain ⟨rfl, rfl⟩ := he
        rw [hd] at hd'; cases hd'
    | some q =>
      obtain ⟨k, r0⟩ := q
      have hr0 : r0 = [] := readDestination_slice hc hd
      subst hr0
      simp only []
      cases hdb : k.bytes with
      | none =>
        simp only []
        constructor
        · intro h; cases h
        · rintro ⟨_, c', rc', k', _, he, _, hd', hb, _⟩
          simp only [Option.some.injEq, Prod.mk.injEq] at he
          obtain ⟨rfl, rfl⟩ := he
          rw [hd] at hd'
          simp only [Option.some.injEq, Prod.mk.injEq, and_true] at hd'
          subst hd'
          rw [hdb] at hb; cases hb
      | some db =>
        simp only []
        constructor
        · intro h; exact ⟨by omega, c, rc, k, db, rfl, by omega, hd, hdb, lsCont_some h⟩
        · rintro ⟨_, c', rc', k', db', he, _, hd', hb, ht⟩
          simp only [Option.some.injEq, Prod.mk.injEq] at he
          obtain ⟨rfl, rfl⟩ := he
          rw [hd] at hd'
          simp only [Option.some.injEq, Prod.mk.injEq, and_true] at hd'
          subst hd'
          rw [hdb] at hb
          obtain rfl := Option.some.inj hb
          exact lsCont_of ht

/-- (C01/C03a for the legacy LeaseSet) bytes ++ unread bytes = input -/
theorem readLeaseSet_consumed {d b r : Bytes} (h : readLeaseSet d = some (b, r)) : b ++ r = d := by
  obtain ⟨_, c, rc, k, db, _, _, hd, hdb, ht⟩ := readLeaseSet_some.mp h
  obtain ⟨db', hdb', hc⟩ := readDestination_consumed hd
  rw [hdb] at hdb'
  obtain rfl := Option.some.inj hdb'
  rw [List.append_nil] at hc
  obtain ⟨b', rfl, hr⟩ := lsCont_consumed (lsCont_of ht)
  rw [List.append_assoc, hr, hc, List.take_append_drop]

theorem readLeaseSet_append {d b r : Bytes} (h : readLeaseSet d = some (b, r)) (x : Bytes) :
    readLeaseSet (d ++ x) = some (b, r ++ x) := by
  obtain ⟨h387, c, rc, k, db, hc, hl, hd, hdb, ht⟩ := readLeaseSet_some.mp h
  obtain ⟨c', hc', _, hk', hl', _⟩ := readCert_append hc x
  have hdecl : c'.declared = c.declared := by simp only [Cert.declared, hl']
  rw [readLeaseSet_some]
  refine ⟨by rw [List.length_append]; omega, c', rc ++ x, k, db, ?_, ?_, ?_, hdb, ?_⟩
  · rw [drop_app' x (by omega)]; exact hc'
  · rw [hdecl, List.length_append]; omega
  · rw [hdecl, take_app x hl]; exact hd
  · rw [hdecl, hk', drop_app' x hl]
    exact lsCont_some (lsCont_append (lsCont_of ht) x)

/-! ### non-vacuity: every reader accepts some input completely, so the premises `R d = some (b, [])`
    (hence also `R d = some (b, r)`) of the lemmas above are satisfiable.  Checked by kernel evaluation. -/

section Examples

/-- an (X25519, Ed25519) identity with a KEY certificate: valid as Destination and as RouterIdentity -/
def exIdent : Bytes := List.replicate 384 1 ++ [5, 0, 4, 0, 7, 0, 4]
/-- published/expires/flags header without offline signature -/
def exHdr : Bytes := [0, 0, 0, 1, 0, 1, 0, 0]
/-- the same header with the offline-signature flag set -/
def exHdrOff : Bytes := [0, 0, 0, 1, 0, 1, 0, 1]
/-- an offline-signature block: expires, transient type 7, 32-byte key, 64-byte signature -/
def exOff : Bytes := [0, 0, 0, 1, 0, 7] ++ List.replicate 96 6
def exSig : Bytes := List.replicate 64 3
def exAddr : Bytes := List.replicate 9 0 ++ [0, 0, 0]
def exEntry : Bytes := List.replicate 32 0 ++ [1, 0, 0, 0, 0, 0] ++ [0, 0]
def exLS2 : Bytes := exIdent ++ exHdr ++ [0, 0] ++ [1] ++ [0, 4, 0, 2, 9, 9] ++ [1] ++ List.replicate 40 4 ++ exSig
def exLS2Off : Bytes :=
  exIdent ++ exHdrOff ++ exOff ++ [0, 0] ++ [1] ++ [0, 4, 0, 2, 9, 9] ++ [1] ++ List.replicate 40 4 ++ exSig
def exMeta : Bytes := exIdent ++ exHdr ++ [0, 0] ++ [1] ++ exEntry ++ exSig
def exELS : Bytes := [0, 7] ++ List.replicate 32 1 ++ exHdr ++ [0, 61] ++ List.replicate 61 2 ++ exSig
def exRI : Bytes := exIdent ++ List.replicate 8 0 ++ [1] ++ exAddr ++ [0] ++ [0, 0] ++ exSig
def exLS : Bytes := exIdent ++ List.replicate 256 1 ++ List.replicate 32 2 ++ [1] ++ List.replicate 44 5 ++ exSig

example : readSig exSig 7 = some (exSig, []) := by decide +kernel
example : readOffSig exOff 7 = some (exOff, [], 7) := by decide +kernel
example : readFixedN 44 (List.replicate 44 5) = some (List.replicate 44 5, []) := by decide +kernel
example : readFixed 2 40 (List.replicate 80 4) = some (List.replicate 80 4, []) := by decide +kernel
example : readOptions [0, 0] true = some ([0, 0], []) := by decide +kernel
example : readOptions [0, 5, 1, 97, 61, 0, 59] false = some ([0, 5, 1, 97, 61, 0, 59], []) := by decide +kernel
example : readKeys 1 [0, 4, 0, 2, 9, 9] [] = some ([0, 4, 0, 2, 9, 9], []) := by decide +kernel
example : readEntries 1 exEntry [] = some (exEntry, []) := by decide +kernel
example : readRouterAddress exAddr = some (exAddr, []) := by decide +kernel
example : readAddrs 2 (exAddr ++ exAddr) [] = some (exAddr ++ exAddr, []) := by decide +kernel
example : readLeaseSet2 exLS2 = some (exLS2, []) := by decide +kernel
example : readLeaseSet2 exLS2Off = some (exLS2Off, []) := by decide +kernel
example : readMeta exMeta = some (exMeta, []) := by decide +kernel
example : readELS exELS = some (exELS, []) := by decide +kernel
example : readRouterInfo exRI = some (exRI, []) := by decide +kernel
example : readLeaseSet exLS = some (exLS, []) := by decide +kernel

end Examples

end I2P.Structs
