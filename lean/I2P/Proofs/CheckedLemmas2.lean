import I2P.Checked2
import I2P.Proofs.CheckedLemmas
import I2P.Proofs.MappingLemmas
import I2P.Proofs.StructLemmas
/-! Lemmas about the second part of the checked layer (`I2P/Checked2.lean`): the mapping readers and
    the composite readers that embed a Mapping.  Same pattern as `CheckedLemmas.lean`: a `_spec`/`_eq`
    lemma per mirror (it never panics and returns what the pure model returns).  The property theorems
    are in `Props/C04b.lean`. -/

set_option linter.unusedSimpArgs false

namespace I2P.Checked
open I2P I2P.Spec I2P.Kac I2P.Mapping I2P.Structs

/-! ### small helpers -/

theorem getAt_eq {α : Type} (l : List α) (i : Nat) (h : i < l.length) : getAt l (i : Int) = .ok l[i] := by
  have hc : 0 ≤ (i : Int) ∧ (i : Int) < l.length := by omega
  simp [getAt, hc]

theorem getAt_last {α : Type} (l : List α) (a : α) : getAt (l ++ [a]) (((l ++ [a]).length : Int) - 1) = .ok a := by
  have : (((l ++ [a]).length : Int) - 1) = ((l.length : Nat) : Int) := by simp
  rw [this, getAt_eq _ _ (by simp)]
  simp

theorem data_cons_len {s : Sl} {b : UInt8} {t : Bytes} (h : s.data = b :: t) : s.len = t.length + 1 := by
  have := s.data_length
  rw [h] at this
  simpa using this.symm

theorem data_nil_len {s : Sl} (h : s.data = []) : s.len = 0 := by
  have := s.data_length
  rw [h] at this
  simpa using this.symm

theorem integerInt_singleton (b : UInt8) : integerInt [b] = (b.toNat : Int) := by
  rw [integerInt_short (by simp) (by simp), beVal_singleton]

/-! ### `I2PString.Length`, `I2PString.Data` -/

theorem i2pStringLengthC_nil (s : Sl) (h : s.data = []) : i2pStringLengthC s = .ok (0, some .zero) := by
  simp [i2pStringLengthC, data_nil_len h]

theorem i2pStringLengthC_cons (s : Sl) (l : UInt8) (rest : Bytes) (h : s.data = l :: rest) :
    i2pStringLengthC s = .ok ((l.toNat : Int),
      if rest.length > l.toNat then some .tooLong else if l.toNat > rest.length then some .tooShort else none) := by
  have hl := data_cons_len h
  have h0 : ¬ (s.len : Int) = 0 := by omega
  simp only [i2pStringLengthC, Sl.ilen_eq, h0, if_false]
  rw [slice_eq (by omega) (by omega) (by omega)]
  simp only [bind_ok, Int.toNat_zero, Int.toNat_natCast, Sl.sub_full, readIntegerC_eq]
  have h1 : ¬ ((1 : Int) ≤ 0 ∨ (1 : Int) > 8) := by omega
  have h2 : ¬ ((s.len : Int) < 1) := by omega
  simp only [h1, h2, if_false, integerIntC_eq, bind_ok, Int.reduceToNat, pure_eq_ok]
  rw [Sl.sub_data_to (by omega), h]
  simp only [List.take_succ_cons, List.take_zero, integerInt_singleton]
  congr 2
  by_cases ha : rest.length > l.toNat
  · have : (s.len : Int) - 1 > (l.toNat : Int) := by omega
    simp [ha, this]
  · by_cases hb : l.toNat > rest.length
    · have h3 : ¬ (s.len : Int) - 1 > (l.toNat : Int) := by omega
      have h4 : (l.toNat : Int) > (s.len : Int) - 1 := by omega
      simp [ha, hb, h3, h4]
    · have h3 : ¬ (s.len : Int) - 1 > (l.toNat : Int) := by omega
      have h4 : ¬ (l.toNat : Int) > (s.len : Int) - 1 := by omega
      simp [ha, hb, h3, h4]

/-- `Data()` never panics: it returns the content exactly when the length byte matches, `""` plus an error
    otherwise -/
theorem i2pStringDataC_spec (s : Sl) :
    ∃ e, i2pStringDataC s = .ok (strData s.data, e) ∧ (e.isNone = strDataOk s.data) := by
  cases hd : s.data with
  | nil => exact ⟨some .zero, by simp [i2pStringDataC, i2pStringLengthC_nil s hd, strData], by simp [strDataOk]⟩
  | cons l rest =>
    have hl := data_cons_len hd
    simp only [i2pStringDataC, i2pStringLengthC_cons s l rest hd, bind_ok, strData, strDataOk]
    by_cases ha : rest.length > l.toNat
    · have : ¬ l.toNat = rest.length := by omega
      exact ⟨some .tooLong, by simp [ha, this], by simp [this]⟩
    · by_cases hb : l.toNat > rest.length
      · have : ¬ l.toNat = rest.length := by omega
        exact ⟨some .tooShort, by simp [ha, hb, this], by simp [this]⟩
      · have he : l.toNat = rest.length := by omega
        refine ⟨none, ?_, by simp [he]⟩
        simp only [ha, hb, if_false, he, if_true]
        by_cases h0 : rest.length = 0
        · have : rest = [] := List.eq_nil_of_length_eq_zero h0
          simp [h0, this]
        · have : ¬ ((rest.length : Nat) : Int) = 0 := by omega
          simp only [this, if_false]
          rw [slice_eq (by omega) (by omega) (by omega)]
          simp only [bind_ok, pure_eq_ok]
          congr 2
          have e1 : ((rest.length : Int) + 1).toNat = rest.length + 1 := by omega
          rw [e1, Sl.sub_data (by omega) (by omega), hd]
          simp

theorem i2pStringDataC_fst (s : Sl) : ∃ e, i2pStringDataC s = .ok (strData s.data, e) := by
  obtain ⟨e, h, -⟩ := i2pStringDataC_spec s; exact ⟨e, h⟩

/-! ### the delimiter -/

theorem validateAndConsumeDelimiterC_hit (s : Sl) (c : UInt8) (t : Bytes) (h : s.data = c :: t) :
    validateAndConsumeDelimiterC s c = .ok (s.adv 1, none) ∧ (s.adv 1).data = t := by
  have hl := data_cons_len h
  have h0 : ¬ (s.len : Int) = 0 := by omega
  refine ⟨?_, by rw [Sl.adv_data (by omega), h]; rfl⟩
  simp only [validateAndConsumeDelimiterC, beginsWithC, Sl.ilen_eq, ne_eq, h0, not_false_eq_true, if_true]
  rw [index_eq (by omega) (by omega)]
  simp only [bind_ok, pure_eq_ok, h, Int.toNat_zero, List.getD_cons_zero, beq_self_eq_true, Bool.not_true,
    Bool.false_eq_true, if_false]
  have := sliceFrom_adv (s := s) (n := 1) (by omega)
  simp only [Int.cast_ofNat_Int] at this
  rw [this]; rfl

theorem validateAndConsumeDelimiterC_miss (s : Sl) (c : UInt8) (h : ∀ t, s.data ≠ c :: t) :
    validateAndConsumeDelimiterC s c = .ok (s, some (if c = 0x3d then .m .expEq else .m .expSemi)) := by
  simp only [validateAndConsumeDelimiterC, beginsWithC, Sl.ilen_eq, ne_eq]
  cases hd : s.data with
  | nil =>
    have := data_nil_len hd
    simp only [this, Int.natCast_zero, not_true_eq_false, if_false, pure_eq_ok, bind_ok, Bool.not_false, if_true]
    split <;> rfl
  | cons b t =>
    have hl := data_cons_len hd
    have h0 : ¬ (s.len : Int) = 0 := by omega
    have hb : b ≠ c := by
      intro e; subst e; exact h t hd
    simp only [h0, not_false_eq_true, if_true]
    rw [index_eq (by omega) (by omega)]
    simp only [bind_ok, pure_eq_ok, hd, Int.toNat_zero, List.getD_cons_zero]
    have : (b == c) = false := by simp [hb]
    simp only [this, Bool.not_false, if_true]
    split <;> rfl

theorem validateAndConsumeDelimiterC_miss_eq (s : Sl) (h : ∀ t, s.data ≠ 0x3d :: t) :
    validateAndConsumeDelimiterC s 0x3d = .ok (s, some (.m .expEq)) := by
  rw [validateAndConsumeDelimiterC_miss s 0x3d h]; rfl

theorem validateAndConsumeDelimiterC_miss_semi (s : Sl) (h : ∀ t, s.data ≠ 0x3b :: t) :
    validateAndConsumeDelimiterC s 0x3b = .ok (s, some (.m .expSemi)) := by
  rw [validateAndConsumeDelimiterC_miss s 0x3b h]; rfl

/-! ### one key/value pair -/

/-- the error `parseAndValidateKey` returns, from the string error and the duplicate flag -/
def keyErrC (kerr : Option StrErr) (dup : Bool) : Option MapErrC :=
  match kerr with
  | some .zero => some (.str .zero)
  | some e => if dup then some (.m .dup) else some (.str (.ofPure e))
  | none => if dup then some (.m .dup) else none

theorem checkForDuplicateKeyC_eq (k : Sl) (seen : List Bytes) :
    checkForDuplicateKeyC k seen = .ok (if seen.contains (strData k.data) then some (.m .dup) else none) := by
  obtain ⟨e, he⟩ := i2pStringDataC_fst k
  simp only [checkForDuplicateKeyC, he, bind_ok]
  split <;> rfl

theorem parseAndValidateKeyC_spec (s : Sl) (seen : List Bytes) :
    ∃ k r, parseAndValidateKeyC s seen =
        .ok (r, k, keyErrC (readStr s.data).2.2 (seen.contains (strData (readStr s.data).1))) ∧
      k.data = (readStr s.data).1 ∧ r.data = (readStr s.data).2.1 := by
  obtain ⟨k, r, hk, hkd, hrd⟩ := readStrS_spec s
  refine ⟨k, r, ?_, hkd, hrd⟩
  simp only [parseAndValidateKeyC, hk, bind_ok, checkForDuplicateKeyC_eq, hkd]
  generalize seen.contains (strData (readStr s.data).1) = c
  cases (readStr s.data).2.2 with
  | none => cases c <;> simp [keyErrC]
  | some e => cases e <;> cases c <;> simp [keyErrC, StrErrC.ofPure, stopValueReadC]

/-- `parseSingleKeyValuePair` never panics and returns the remainder, the pair and the error of the pure
    model (string errors never surface: a delimiter error pre-empts them) -/
theorem parseSingleKeyValuePairC_spec (s : Sl) (seen : List Bytes) :
    ∃ rem k v, parseSingleKeyValuePairC s seen = .ok (rem, (k, v), (parseSingle s.data seen).err.map .m) ∧
      rem.data = (parseSingle s.data seen).rem ∧ k.data = (parseSingle s.data seen).pair.1 ∧
      v.data = (parseSingle s.data seen).pair.2 := by
  obtain ⟨k, r1, hk, hkd, hr1⟩ := parseAndValidateKeyC_spec s seen
  simp only [parseSingleKeyValuePairC, hk, bind_ok]
  unfold parseSingle
  generalize hrk : readStr s.data = rk at *
  obtain ⟨kb, r1b, kerr⟩ := rk
  simp only at hkd hr1 ⊢
  by_cases hhit : ∃ r2, r1b = 0x3d :: r2
  · obtain ⟨r2, rfl⟩ := hhit
    obtain ⟨hd1, hd1d⟩ := validateAndConsumeDelimiterC_hit r1 0x3d r2 hr1
    simp only [hd1, bind_ok, parseAndValidateValueC]
    obtain ⟨v, r3, hv, hvd, hr3⟩ := readStrS_spec (r1.adv 1)
    rw [hd1d] at hv hvd hr3
    simp only [hv, bind_ok, pure_eq_ok]
    generalize hrv : readStr r2 = rv at *
    obtain ⟨vb, r3b, verr⟩ := rv
    simp only at hvd hr3 ⊢
    by_cases hhit2 : ∃ r4, r3b = 0x3b :: r4
    · obtain ⟨r4, rfl⟩ := hhit2
      obtain ⟨hd2, hd2d⟩ := validateAndConsumeDelimiterC_hit r3 0x3b r4 hr3
      simp only [hd2, bind_ok]
      -- both strings were read without error: a string error leaves a nil remainder
      have hke : kerr = none := by
        have := readStr_rem_ne s.data (by rw [hrk]; simp)
        cases hkk : kerr with
        | none => rfl
        | some e =>
          exfalso
          have h2 : (readStr s.data).2.2 = kerr := by rw [hrk]
          unfold readStr at hrk
          cases hsd : s.data with
          | nil => rw [hsd] at hrk; simp at hrk
          | cons l rest =>
            rw [hsd] at hrk
            simp only at hrk
            split at hrk
            · simp only [Prod.mk.injEq] at hrk; rw [← hrk.2.2] at hkk; cases hkk
            · simp only [Prod.mk.injEq] at hrk; cases hrk.2.1
      have hve : verr = none := by
        cases hvv : verr with
        | none => rfl
        | some e =>
          exfalso
          unfold readStr at hrv
          cases r2 with
          | nil => simp at hrv
          | cons l rest =>
            simp only at hrv
            split at hrv
            · simp only [Prod.mk.injEq] at hrv; rw [← hrv.2.2] at hvv; cases hvv
            · simp only [Prod.mk.injEq] at hrv; cases hrv.2.1
      subst hke hve
      refine ⟨r3.adv 1, k, v, ?_, hd2d, hkd, hvd⟩
      simp only [keyErrC, Option.map_none]
      generalize seen.contains (strData kb) = c
      cases c <;> simp [getAt]
    · have hmiss : ∀ t, r3.data ≠ 0x3b :: t := by
        intro t ht; rw [hr3] at ht; exact hhit2 ⟨t, ht⟩
      rw [validateAndConsumeDelimiterC_miss_semi r3 hmiss]
      simp only [bind_ok, pure_eq_ok]
      refine ⟨r3, k, v, ?_, ?_, ?_, ?_⟩
      · congr 3
        cases r3b with
        | nil => rfl
        | cons c3 r4 =>
          have : c3 ≠ 0x3b := by intro e; exact hhit2 ⟨r4, by rw [e]⟩
          split
          · rename_i heq; simp only [List.cons.injEq] at heq; exact absurd heq.1 this
          · rfl
      all_goals
        cases r3b with
        | nil => first | exact hr3 | exact hkd | exact hvd
        | cons c3 r4 =>
          have : c3 ≠ 0x3b := by intro e; exact hhit2 ⟨r4, by rw [e]⟩
          split
          · rename_i heq; simp only [List.cons.injEq] at heq; exact absurd heq.1 this
          · first | exact hr3 | exact hkd | exact hvd
  · have hmiss : ∀ t, r1.data ≠ 0x3d :: t := by
      intro t ht; rw [hr1] at ht; exact hhit ⟨t, ht⟩
    rw [validateAndConsumeDelimiterC_miss_eq r1 hmiss]
    simp only [bind_ok, pure_eq_ok]
    refine ⟨r1, k, Sl.nil, ?_, ?_, ?_, ?_⟩
    · congr 3
      cases r1b with
      | nil => rfl
      | cons c r2 =>
        have : c ≠ 0x3d := by intro e; exact hhit ⟨r2, by rw [e]⟩
        split
        · rename_i heq; simp only [List.cons.injEq] at heq; exact absurd heq.1 this
        · rfl
    all_goals
      cases r1b with
      | nil => first | exact hr1 | exact hkd | rfl
      | cons c r2 =>
        have : c ≠ 0x3d := by intro e; exact hhit ⟨r2, by rw [e]⟩
        split
        · rename_i heq; simp only [List.cons.injEq] at heq; exact absurd heq.1 this
        · first | exact hr1 | exact hkd | rfl

/-! ### the pair loop -/

theorem parseNextPairC_spec (s : Sl) (vals : List PairS) (errs : List MapErrC) (seen : List Bytes) :
    ∃ rem k v, rem.data = (parseSingle s.data seen).rem ∧ k.data = (parseSingle s.data seen).pair.1 ∧
      v.data = (parseSingle s.data seen).pair.2 ∧
      parseNextPairC s vals errs seen = .ok
        (match (parseSingle s.data seen).err with
         | some .expEq => (rem, vals, errs ++ [.m .expEq], true)
         | some .expSemi => (rem, vals, errs ++ [.m .expSemi], true)
         | some e => (rem, vals ++ [(k, v)], errs ++ [.m e], decide (rem.len = 0))
         | none => (rem, vals ++ [(k, v)], errs, decide (rem.len = 0))) := by
  obtain ⟨rem, k, v, h, h1, h2, h3⟩ := parseSingleKeyValuePairC_spec s seen
  refine ⟨rem, k, v, h1, h2, h3, ?_⟩
  simp only [parseNextPairC, h, bind_ok]
  cases (parseSingle s.data seen).err with
  | none => simp
  | some e => cases e <;> simp [shouldStopParsingC]

theorem readStr_rem_le (d : Bytes) : (readStr d).2.1.length ≤ d.length := by
  unfold readStr
  cases d with
  | nil => simp
  | cons l rest =>
    simp only
    split
    · simp only [List.length_drop, List.length_cons]; omega
    · simp

theorem parseSingle_rem_le (d : Bytes) (seen : List Bytes) : (parseSingle d seen).rem.length ≤ d.length := by
  have h1 := readStr_rem_le d
  unfold parseSingle
  generalize readStr d = rk at *
  obtain ⟨k, r1, kerr⟩ := rk
  simp only at h1 ⊢
  split
  · rename_i r2
    have h2 := readStr_rem_le r2
    generalize readStr r2 = rv at *
    obtain ⟨v, r3, verr⟩ := rv
    simp only at h2 ⊢
    simp only [List.length_cons] at h1
    split
    · simp only [List.length_cons] at h2 ⊢; omega
    · simp only; omega
  · exact h1

/-- an iteration that stores a pair consumes at least four bytes (two length bytes, `=`, `;`) -/
theorem parseSingle_progress (d : Bytes) (seen : List Bytes)
    (h1 : (parseSingle d seen).err ≠ some .expEq) (h2 : (parseSingle d seen).err ≠ some .expSemi) :
    (parseSingle d seen).rem.length + 4 ≤ d.length := by
  obtain ⟨hok, hc⟩ := parseSingle_consumed d seen h1 h2
  have hl := congrArg List.length hc
  rw [List.length_append, serPair_length _ hok] at hl
  have a : 1 ≤ (parseSingle d seen).pair.1.length := by
    have := hok.1
    cases hp : (parseSingle d seen).pair.1 with
    | nil => rw [hp] at this; simp [strDataOk] at this
    | cons _ _ => simp
  have b : 1 ≤ (parseSingle d seen).pair.2.length := by
    have := hok.2
    cases hp : (parseSingle d seen).pair.2 with
    | nil => rw [hp] at this; simp [strDataOk] at this
    | cons _ _ => simp
  omega

theorem map_m_append (a : List E) (e : E) : a.map MapErrC.m ++ [MapErrC.m e] = (a ++ [e]).map MapErrC.m := by simp

theorem storeEncounteredKeyC_eq (k : Sl) (seen : List Bytes) :
    storeEncounteredKeyC k seen = .ok (strData k.data :: seen) := by
  obtain ⟨e, he⟩ := i2pStringDataC_fst k
  simp only [storeEncounteredKeyC, he, bind_ok, pure_eq_ok]

/-- the loop of `parseKeyValuePairs` never panics, never reports "no forward progress", and computes the
    pure `loop`; the invariant is the one `checkForwardProgress` tests -/
theorem kvLoop_spec : ∀ (fuel : Nat) (s : Sl) (vals : List PairS) (errs : List E) (seen : List Bytes) (count : Nat)
    (prev : Int) (lenBad : Bool), (count = 0 ∨ (s.len : Int) < prev) →
    ∃ rem vals' n, parseKeyValuePairsLoopC fuel s vals (errs.map .m) seen count prev lenBad =
        .ok (rem, vals', (loop fuel count s.data (vals.map pairData) errs seen lenBad).2.2.map .m, n) ∧
      rem.data = (loop fuel count s.data (vals.map pairData) errs seen lenBad).1 ∧
      vals'.map pairData = (loop fuel count s.data (vals.map pairData) errs seen lenBad).2.1 := by
  intro fuel
  induction fuel with
  | zero =>
    intro s vals errs seen count prev lenBad _
    exact ⟨s, vals, 0, rfl, rfl, rfl⟩
  | succ fuel ih =>
    intro s vals errs seen count prev lenBad hinv
    have hM : MAX_MAPPING_PAIRS = 1000 := rfl
    simp only [parseKeyValuePairsLoopC, loop, shouldStopLoopC, appendMaxPairsErrorC, hM, Sl.ilen_eq, Sl.data_length]
    by_cases hc : count ≥ 1000
    · have : (count : Int) ≥ ((1000 : Nat) : Int) := by omega
      simp only [hc, this, if_true, pure_eq_ok, map_m_append]
      exact ⟨s, vals, 0, rfl, rfl, rfl⟩
    · have hci : ¬ (count : Int) ≥ ((1000 : Nat) : Int) := by omega
      simp only [hc, hci, if_false]
      by_cases h0 : s.len = 0
      · have : (s.len : Int) = 0 := by omega
        simp only [h0, this, if_true, pure_eq_ok]
        exact ⟨s, vals, 0, rfl, rfl, rfl⟩
      · have h0i : ¬ (s.len : Int) = 0 := by omega
        simp only [h0, h0i, if_false]
        by_cases hb : lenBad = true ∧ s.len < 6
        · have h6 : (s.len : Int) < 6 := by omega
          simp only [hb.1, hb.2, and_self, if_true, hasMinimumBytesForKeyValuePairC, Sl.ilen_eq, h6, decide_true,
            Bool.not_true, Bool.not_false, pure_eq_ok]
          exact ⟨s, vals, 0, rfl, rfl, rfl⟩
        · have hstop : (if lenBad = true then !hasMinimumBytesForKeyValuePairC s else false) = false := by
            by_cases hl : lenBad = true
            · have : ¬ (s.len : Int) < 6 := by
                intro h; exact hb ⟨hl, by omega⟩
              simp [hl, hasMinimumBytesForKeyValuePairC, this]
            · simp [hl]
          simp only [hstop, hb, if_false, Bool.false_eq_true]
          have hprog : checkForwardProgressC (count : Int) (s.len : Int) prev = none := by
            simp only [checkForwardProgressC]
            rcases hinv with h | h
            · subst h; simp
            · have : ¬ ((s.len : Int) ≥ prev) := by omega
              simp [this]
          simp only [hprog]
          obtain ⟨rem, k, v, hrd, hkd, hvd, hnp⟩ := parseNextPairC_spec s vals (errs.map .m) seen
          simp only [hnp]
          have hcases := parseSingle_err_cases s.data seen
          have hle := parseSingle_rem_le s.data seen
          rcases hcases with he | he | he | he
          · -- no error: the pair is stored
            have hpr := parseSingle_progress s.data seen (by rw [he]; simp) (by rw [he]; simp)
            simp only [he, bind_ok]
            have hrl : rem.len = (parseSingle s.data seen).rem.length := by rw [← hrd]; simp
            by_cases hr0 : (parseSingle s.data seen).rem.length = 0
            · have : rem.len = 0 := by omega
              simp only [this, decide_true, if_true, pure_eq_ok, hr0]
              exact ⟨rem, vals ++ [(k, v)], 1, rfl, hrd, by simp [pairData, hkd, hvd]⟩
            · have : ¬ rem.len = 0 := by omega
              simp only [this, decide_false, Bool.false_eq_true, if_false, hr0, getAt_last, bind_ok,
                storeEncounteredKeyC_eq, hkd]
              have hinv' : (count + 1 = 0 ∨ (rem.len : Int) < (s.len : Int)) := by
                right
                have := s.data_length
                omega
              obtain ⟨rem2, vals2, n2, hq, hq1, hq2⟩ :=
                ih rem (vals ++ [(k, v)]) errs ((strData (parseSingle s.data seen).pair.1) :: seen) (count + 1) (s.len : Int) lenBad hinv'
              have hcast : ((count : Int) + 1) = ((count + 1 : Nat) : Int) := by omega
              have hvm : (vals ++ [(k, v)]).map pairData = vals.map pairData ++ [(parseSingle s.data seen).pair] := by
                simp [pairData, hkd, hvd]
              rw [hcast, hq]
              rw [hrd, hvm] at hq1 hq2
              simp only [bind_ok, pure_eq_ok]
              rw [hrd, hvm]
              exact ⟨rem2, vals2, n2 + 1, rfl, hq1, hq2⟩
          · -- duplicate key: reported, the pair is stored all the same
            have hpr := parseSingle_progress s.data seen (by rw [he]; simp) (by rw [he]; simp)
            simp only [he, bind_ok, map_m_append]
            have hrl : rem.len = (parseSingle s.data seen).rem.length := by rw [← hrd]; simp
            by_cases hr0 : (parseSingle s.data seen).rem.length = 0
            · have : rem.len = 0 := by omega
              simp only [this, decide_true, if_true, pure_eq_ok, hr0]
              exact ⟨rem, vals ++ [(k, v)], 1, rfl, hrd, by simp [pairData, hkd, hvd]⟩
            · have : ¬ rem.len = 0 := by omega
              simp only [this, decide_false, Bool.false_eq_true, if_false, hr0, getAt_last, bind_ok,
                storeEncounteredKeyC_eq, hkd]
              have hinv' : (count + 1 = 0 ∨ (rem.len : Int) < (s.len : Int)) := by
                right
                have := s.data_length
                omega
              obtain ⟨rem2, vals2, n2, hq, hq1, hq2⟩ :=
                ih rem (vals ++ [(k, v)]) (errs ++ [.dup]) ((strData (parseSingle s.data seen).pair.1) :: seen) (count + 1)
                  (s.len : Int) lenBad hinv'
              have hcast : ((count : Int) + 1) = ((count + 1 : Nat) : Int) := by omega
              have hvm : (vals ++ [(k, v)]).map pairData = vals.map pairData ++ [(parseSingle s.data seen).pair] := by
                simp [pairData, hkd, hvd]
              rw [hcast, hq]
              rw [hrd, hvm] at hq1 hq2
              simp only [bind_ok, pure_eq_ok]
              rw [hrd, hvm]
              exact ⟨rem2, vals2, n2 + 1, rfl, hq1, hq2⟩
          · simp only [he, bind_ok, if_true, pure_eq_ok, map_m_append]
            exact ⟨rem, vals, 1, rfl, hrd, rfl⟩
          · simp only [he, bind_ok, if_true, pure_eq_ok, map_m_append]
            exact ⟨rem, vals, 1, rfl, hrd, rfl⟩

/-! ### `ReadMappingValues`, `ReadMapping` -/

/-- what a stored value list looks like from outside -/
def valsData (v : Option (List PairS)) : Option (List Pair) := v.map (·.map pairData)

theorem validateMappingLengthC_eq (s ml : Sl) (L : Nat) (hL : integerInt ml.data = (L : Int)) :
    validateMappingLengthC s ml =
      .ok ((if s.len > L then [E.beyond] else if L > s.len then [E.exceeds] else []).map .m) := by
  unfold validateMappingLengthC
  simp only [integerIntC_eq, bind_ok, hL]
  by_cases ha : s.len > L
  · have : s.ilen > (L : Int) := by show (s.len : Int) > L; omega
    simp only [this, if_true, ha]; rfl
  · have h2 : ¬ s.ilen > (L : Int) := by show ¬ (s.len : Int) > L; omega
    by_cases hb : L > s.len
    · have : (L : Int) > s.ilen := by show (L : Int) > (s.len : Int); omega
      simp only [h2, if_false, this, if_true, ha, hb]; rfl
    · have : ¬ (L : Int) > s.ilen := by show ¬ (L : Int) > (s.len : Int); omega
      simp only [h2, if_false, this, ha, hb]; rfl

theorem readMappingValuesS_spec (s ml : Sl) (L : Nat) (hL : integerInt ml.data = (L : Int)) :
    ∃ vals, readMappingValuesS s ml = .ok (vals, Sl.nil, (readValues s.data L).2.map .m) ∧
      valsData vals = (readValues s.data L).1 := by
  simp only [readMappingValuesS, integerIntC_eq, bind_ok, validateMappingInputC, Sl.ilen_eq, readValues, Sl.data_length]
  by_cases h1 : s.len < 1
  · have : (s.len : Int) < 1 := by omega
    simp only [this, decide_true, Bool.not_true, Bool.not_false, if_true, pure_eq_ok, h1]
    exact ⟨none, rfl, rfl⟩
  · have : ¬ (s.len : Int) < 1 := by omega
    simp only [this, decide_false, Bool.not_false, Bool.not_true, Bool.false_eq_true, if_false, h1,
      validateMappingLengthC_eq s ml L hL, bind_ok]
    simp only [parseKeyValuePairsC, List.length_map, List.map_nil, Sl.ilen_eq]
    obtain ⟨rem, vals', n, hq, -, hq2⟩ := kvLoop_spec (MAX_MAPPING_PAIRS + 2) s []
      (if s.len > L then [E.beyond] else if L > s.len then [E.exceeds] else []) [] 0 (s.len : Int)
      (decide ((if s.len > L then [E.beyond] else if L > s.len then [E.exceeds] else []).length > 0)) (Or.inl rfl)
    simp only [Int.natCast_zero, Sl.ilen_eq, List.map_nil] at hq hq2
    rw [hq]
    simp only [bind_ok, pure_eq_ok]
    exact ⟨some vals', rfl, by simp only [valsData, Option.map_some, hq2]⟩

theorem beVal_pair (h l : UInt8) : beVal [h, l] = h.toNat * 256 + l.toNat := by simp [beVal]

theorem integerInt_pair (h l : UInt8) : integerInt [h, l] = ((h.toNat * 256 + l.toNat : Nat) : Int) := by
  rw [integerInt_short (by simp) (by simp), beVal_pair]

/-- `ReadMapping` never panics (neither the nil `size` pointer nor `*mapping.vals` is ever dereferenced
    while nil, `remainder[:size]` / `remainder[size:]` stay in range) and returns the four fields of the
    pure model -/
theorem readMappingS_spec (s : Sl) :
    ∃ m rem, readMappingS s = .ok (m, rem, (readMapping s.data).errs.map .m) ∧
      m.size.isSome = (readMapping s.data).hasSize ∧ valsData m.vals = (readMapping s.data).vals ∧
      rem.data = (readMapping s.data).rem := by
  have hlen := s.data_length
  simp only [readMappingS, validateMappingInputDataC, Sl.ilen_eq]
  by_cases h2 : s.len < 2
  · have : (s.len : Int) < 2 := by omega
    simp only [this, decide_true, Bool.not_true, Bool.not_false, if_true, pure_eq_ok]
    have hp : readMapping s.data = { hasSize := false, vals := none, rem := [], errs := [.zeroLength] } := by
      cases hd : s.data with
      | nil => rfl
      | cons a t =>
        cases t with
        | nil => rfl
        | cons b t => rw [hd] at hlen; simp at hlen; omega
    rw [hp]
    refine ⟨{}, Sl.nil, ?_, ?_, ?_, ?_⟩ <;> rfl
  · have h2i : ¬ (s.len : Int) < 2 := by omega
    simp only [h2i, decide_false, Bool.not_false, Bool.not_true, Bool.false_eq_true, if_false, parseMappingSizeC,
      readIntegerC_eq, bind_ok]
    have hs2 : ¬ ((2 : Int) ≤ 0 ∨ (2 : Int) > 8) := by omega
    simp only [hs2, h2i, if_false, pure_eq_ok, bind_ok, Int.reduceToNat, deref, integerIntC_eq]
    obtain ⟨h, l, rest, hd⟩ : ∃ h l rest, s.data = h :: l :: rest := by
      cases hd : s.data with
      | nil => rw [hd] at hlen; simp at hlen; omega
      | cons a t =>
        cases t with
        | nil => rw [hd] at hlen; simp at hlen; omega
        | cons b t => exact ⟨a, b, t, rfl⟩
    have hrl : s.len = rest.length + 2 := by rw [hd] at hlen; simp at hlen; omega
    have hsz : (s.sub 0 2).data = [h, l] := by rw [Sl.sub_data_to (by omega), hd]; rfl
    have hrd : (s.sub 2 s.len).data = rest := by rw [Sl.sub_data_from (by omega), hd]; rfl
    have hrlen : (s.sub 2 s.len).len = rest.length := by rw [Sl.sub_len (by omega) (by omega)]; omega
    rw [hd]
    simp only [hsz, integerInt_pair, readMapping]
    generalize hsize : h.toNat * 256 + l.toNat = size
    by_cases hz : size = 0
    · have : ((size : Nat) : Int) = 0 := by omega
      simp only [this, hz, if_true]
      exact ⟨{ size := some (s.sub 0 2), vals := some [] }, s.sub 2 s.len, rfl, rfl, rfl, hrd⟩
    · have hzi : ¬ ((size : Nat) : Int) = 0 := by omega
      simp only [hzi, hz, if_false, processMappingDataC, deref, bind_ok, integerIntC_eq, hsz, integerInt_pair,
        hsize, Sl.ilen_eq, hrlen]
      by_cases hshort : rest.length < size
      · have : (rest.length : Int) < (size : Int) := by omega
        simp only [this, hshort, if_true, handleInsufficientDataC, deref, bind_ok, integerIntC_eq, pure_eq_ok]
        obtain ⟨vals, hv, hvd⟩ := readMappingValuesS_spec (s.sub 2 s.len) (s.sub 0 2) size
          (by rw [hsz, integerInt_pair, hsize])
        rw [hrd] at hv hvd
        rw [hv]
        simp only [bind_ok, List.nil_append]
        refine ⟨{ size := some (s.sub 0 2), vals := vals }, Sl.nil, ?_, rfl, hvd, rfl⟩
        simp
      · have hnl : ¬ (rest.length : Int) < (size : Int) := by omega
        simp only [hnl, hshort, if_false, processNormalMappingDataC, deref, bind_ok, integerIntC_eq, hsz,
          integerInt_pair, hsize, Sl.ilen_eq, hrlen, pure_eq_ok]
        have hto := sliceTo_take (s := s.sub 2 s.len) (n := size) (by omega)
        obtain ⟨mb, hmb, hmbd, -⟩ := hto
        have hfrom := sliceFrom_adv (s := s.sub 2 s.len) (n := size) (by omega)
        have hadv : ((s.sub 2 s.len).adv size).data = rest.drop size := by rw [Sl.adv_data (by omega), hrd]
        rw [hrd] at hmbd
        obtain ⟨vals, hv, hvd⟩ := readMappingValuesS_spec mb (s.sub 0 2) size (by rw [hsz, integerInt_pair, hsize])
        rw [hmbd] at hv hvd
        -- the values pointer is non-nil: the body has at least one byte
        have hvs : ∃ v, vals = some v := by
          have h1 : ¬ (rest.take size).length < 1 := by simp only [List.length_take]; omega
          simp only [readValues, h1, if_false] at hvd
          cases vals with
          | none => simp [valsData] at hvd
          | some v => exact ⟨v, rfl⟩
        obtain ⟨v, rfl⟩ := hvs
        by_cases hgt : rest.length > size
        · have : (rest.length : Int) > (size : Int) := by omega
          simp only [this, hgt, if_true, bind_ok, hmb, hfrom, hv, logMappingCompletionDetailsC, deref, integerIntC_eq,
            pure_eq_ok, List.nil_append, List.length_map]
          refine ⟨{ size := some (s.sub 0 2), vals := some v }, (s.sub 2 s.len).adv size, ?_, rfl, hvd, hadv⟩
          congr 3
          split <;> simp
        · have : ¬ (rest.length : Int) > (size : Int) := by omega
          simp only [this, hgt, if_false, bind_ok, hmb, hfrom, hv, logMappingCompletionDetailsC, deref, integerIntC_eq,
            pure_eq_ok, List.nil_append, List.length_map]
          refine ⟨{ size := some (s.sub 0 2), vals := some v }, (s.sub 2 s.len).adv size, ?_, rfl, hvd, hadv⟩
          congr 3
          split <;> simp

/-! ### `NewIntegerFromInt` -/

theorem beEnc_drop (k n v : Nat) : (beEnc (n + k) v).drop n = beEnc k v := by
  induction k generalizing v with
  | zero => simp only [Nat.add_zero, beEnc]; exact List.drop_of_length_le (by simp)
  | succ k ih =>
    rw [show n + (k + 1) = (n + k) + 1 from rfl]
    simp only [beEnc]
    rw [List.drop_append_of_le_length (by simp), ih]

theorem putUint64C_zeros (v : Nat) :
    ∃ b, putUint64C (Sl.zeros 8) v = .ok b ∧ b.data = beEnc 8 v ∧ b.len = 8 := by
  simp only [putUint64C]
  rw [index_eq (by omega) (by simp), copyAt_eq (by omega) (by omega) (by simp)]
  simp only [bind_ok, Int.toNat_zero, Sl.ofBytes_data, Int.sub_zero, Int.reduceToNat]
  refine ⟨_, rfl, ?_, rfl⟩
  rw [List.take_of_length_le (by simp), zeros_wr_data (by simp)]

theorem newIntegerFromIntC_spec (value size : Int) :
    ∃ r, newIntegerFromIntC value size = .ok r ∧ r.map Sl.data = newIntegerFromInt value size := by
  simp only [newIntegerFromIntC, validateIntegerInputC, newIntegerFromInt]
  by_cases hv : value < 0
  · simp only [hv, decide_true, Bool.not_true, Bool.false_and, Bool.not_false, if_true, pure_eq_ok]
    exact ⟨none, rfl, rfl⟩
  · by_cases hs : size < 1 ∨ size > 8
    · simp only [hv, hs, decide_false, decide_true, Bool.not_false, Bool.not_true, Bool.and_false, if_true, if_false,
        pure_eq_ok]
      exact ⟨none, rfl, rfl⟩
    · simp only [hv, hs, decide_false, Bool.not_false, Bool.and_self, Bool.not_true, Bool.false_eq_true, if_false]
      by_cases hm : toUInt64 value > maxValueForSize size
      · simp only [hm, if_true, pure_eq_ok]
        exact ⟨none, rfl, rfl⟩
      · simp only [hm, if_false, createIntegerFromBytesC]
        rw [mk_eq (by omega)]
        obtain ⟨b, hb, hbd, hbl⟩ := putUint64C_zeros (toUInt64 value)
        simp only [bind_ok, Int.reduceToNat, hb]
        have hisz : (if size < 8 then size else 8) = size := by split <;> omega
        rw [hisz]
        obtain ⟨k, rfl⟩ := Int.eq_ofNat_of_zero_le (show 0 ≤ size by omega)
        rw [sliceFrom_eq (by omega) (by omega)]
        simp only [bind_ok, readIntegerC_eq]
        have e1 : (8 - (k : Int)).toNat = 8 - k := by omega
        have hsl : (b.sub (8 - k) b.len).len = k := by rw [Sl.sub_len (by omega) (by omega)]; omega
        have hs' : ¬ ((k : Int) ≤ 0 ∨ (k : Int) > 8) := by omega
        have hs2 : ¬ (((b.sub (8 - k) b.len).len : Int) < (k : Int)) := by omega
        simp only [e1, hs', hs2, if_false, pure_eq_ok, Int.toNat_natCast]
        refine ⟨_, rfl, ?_⟩
        simp only [Option.map_some]
        rw [Sl.sub_data_to (by omega), Sl.sub_data_from (by omega), hbd]
        have : (beEnc 8 (toUInt64 value)).drop (8 - k) = beEnc k (toUInt64 value) := by
          have := beEnc_drop k (8 - k) (toUInt64 value)
          rwa [show 8 - k + k = 8 by omega] at this
        rw [this, List.take_of_length_le (by simp)]

theorem newIntegerFromInt_byte (l : UInt8) : newIntegerFromInt (l.toNat : Int) 1 = some [l] := by
  have hl := UInt8.toNat_lt l
  have := newInt_nat l.toNat 1 (by omega) (by omega) (by omega)
  simp only [Int.cast_ofNat_Int] at this
  rw [this, if_pos (by omega)]
  simp [beEnc, Nat.mod_eq_of_lt hl]

/-! ### `Mapping.Data()` -/

/-- `serializeOnePair` never panics (`pair[i][1:]` is only reached after `Length()` succeeded, i.e. for a
    string of at least one byte) and agrees with the pure `serPair` -/
theorem serializeOnePairC_eq (p : PairS) :
    serializeOnePairC p = .ok (if strDataOk p.1.data = true ∧ strDataOk p.2.data = true
      then some (p.1.data ++ [0x3d] ++ p.2.data ++ [0x3b]) else none) := by
  obtain ⟨k, v⟩ := p
  simp only [serializeOnePairC]
  cases hk : k.data with
  | nil => simp [i2pStringLengthC_nil k hk, strDataOk]
  | cons l rest =>
    have hkl := data_cons_len hk
    rw [i2pStringLengthC_cons k l rest hk]
    simp only [bind_ok, strDataOk, decide_eq_true_eq]
    by_cases he : l.toNat = rest.length
    · have h1 : ¬ rest.length > l.toNat := by omega
      have h2 : ¬ l.toNat > rest.length := by omega
      simp only [h1, h2, if_false, Option.isSome_none, Bool.false_eq_true, he, true_and]
      obtain ⟨r, hr, hrd⟩ := newIntegerFromIntC_spec (l.toNat : Int) 1
      rw [newIntegerFromInt_byte] at hrd
      rw [← he, hr]
      cases r with
      | none => simp at hrd
      | some keylen =>
        simp only [Option.map_some, Option.some.injEq] at hrd
        have hkll : keylen.len = 1 := by have := keylen.data_length; rw [hrd] at this; simpa using this.symm
        simp only [bind_ok]
        cases hv : v.data with
        | nil => simp [i2pStringLengthC_nil v hv]
        | cons l2 rest2 =>
          have hvl := data_cons_len hv
          rw [i2pStringLengthC_cons v l2 rest2 hv]
          simp only [bind_ok]
          by_cases he2 : l2.toNat = rest2.length
          · have h3 : ¬ rest2.length > l2.toNat := by omega
            have h4 : ¬ l2.toNat > rest2.length := by omega
            simp only [h3, h4, if_false, Option.isSome_none, Bool.false_eq_true, he2, if_true]
            obtain ⟨r2, hr2, hrd2⟩ := newIntegerFromIntC_spec (l2.toNat : Int) 1
            rw [newIntegerFromInt_byte] at hrd2
            rw [← he2, hr2]
            cases r2 with
            | none => simp at hrd2
            | some vallen =>
              simp only [Option.map_some, Option.some.injEq] at hrd2
              have hvll : vallen.len = 1 := by have := vallen.data_length; rw [hrd2] at this; simpa using this.symm
              simp only [bind_ok, Sl.ilen_eq]
              rw [slice_eq (by omega) (by omega) (by omega), slice_eq (by omega) (by omega) (by omega)]
              have a1 := sliceFrom_adv (s := k) (n := 1) (by omega)
              have a2 := sliceFrom_adv (s := v) (n := 1) (by omega)
              simp only [Int.cast_ofNat_Int] at a1 a2
              simp only [bind_ok, a1, a2, Int.toNat_zero, Int.toNat_natCast, Sl.sub_full, hrd, hrd2, pure_eq_ok,
                Sl.adv_data (s := k) (n := 1) (by omega), Sl.adv_data (s := v) (n := 1) (by omega), hk, hv]
              simp
          · by_cases ha : rest2.length > l2.toNat
            · simp [ha, he2]
            · have hb : l2.toNat > rest2.length := by omega
              simp [ha, hb, he2]
    · by_cases ha : rest.length > l.toNat
      · simp [ha, he]
      · have hb : l.toNat > rest.length := by omega
        simp [ha, hb, he]

theorem serializeOnePairC_serPair (p : PairS) :
    serializeOnePairC p = .ok (if strDataOk p.1.data = true ∧ strDataOk p.2.data = true then some (serPair (pairData p)) else none) := by
  rw [serializeOnePairC_eq]
  by_cases h : strDataOk p.1.data = true ∧ strDataOk p.2.data = true
  · simp only [h, and_self, if_true, serPair, pairData]
  · simp only [h, if_false]

theorem serializeMappingPairsC_eq (ps : List PairS) : serializeMappingPairsC ps = .ok (serPairs (ps.map pairData)) := by
  induction ps with
  | nil => rfl
  | cons p t ih =>
    simp only [serializeMappingPairsC, serializeOnePairC_serPair, bind_ok, ih, List.map_cons, serPairs_cons]
    by_cases h : strDataOk p.1.data = true ∧ strDataOk p.2.data = true
    · simp only [h, and_self, if_true, bind_ok, pure_eq_ok]
    · have : serPair (pairData p) = [] := by simp only [serPair, pairData, h, if_false]
      simp only [h, if_false, this, List.nil_append]

theorem values_data (m : MappingC) : m.values.map pairData = (valsData m.vals).getD [] := by
  cases hv : m.vals <;> simp [MappingC.values, valsData, hv]

theorem mappingDataC_eq (m : MappingC) :
    mappingDataC (some m) = .ok (if m.size.isSome then some (dataOf ((valsData m.vals).getD [])) else none) := by
  simp only [mappingDataC, serializeMappingPairsC_eq, values_data, bind_ok, pure_eq_ok, dataOf]
  cases m.size <;> simp

/-- `ReadMapping` followed by `Data()` -/
theorem mappingDataC_of_read {s : Sl} {m : MappingC} (h1 : m.size.isSome = (readMapping s.data).hasSize)
    (h2 : valsData m.vals = (readMapping s.data).vals) :
    mappingDataC (some m) = .ok (Mapping.data (readMapping s.data)) := by
  rw [mappingDataC_eq, h1, h2, Mapping.data]
  cases (readMapping s.data).hasSize <;> simp

/-! ### loop bound of `parseKeyValuePairs`, for arbitrary arguments -/

/-- at most `fuel` loop bodies, never past `MAX_MAPPING_PAIRS`; `k` pairs were stored, every body except
    possibly the last stores one, and every stored pair consumed at least four bytes -/
theorem parseKeyValuePairsLoopC_bounds : ∀ (fuel : Nat) (s : Sl) (vals : List PairS) (errs : List MapErrC)
    (seen : List Bytes) (pc prev : Int) (lm : Bool) (rem : Sl) (vals' : List PairS) (errs' : List MapErrC) (n : Nat),
    parseKeyValuePairsLoopC fuel s vals errs seen pc prev lm = .ok (rem, vals', errs', n) →
      n ≤ fuel ∧ (n = 0 ∨ pc + n ≤ 1000) ∧
      ∃ k, vals'.length = vals.length + k ∧ n ≤ k + 1 ∧ rem.len + 4 * k ≤ s.len := by
  intro fuel
  induction fuel with
  | zero =>
    intro s vals errs seen pc prev lm rem vals' errs' n h
    simp only [parseKeyValuePairsLoopC, pure_eq_ok, Except.ok.injEq, Prod.mk.injEq] at h
    obtain ⟨h1, h2, -, h4⟩ := h
    subst h1 h2 h4
    exact ⟨by omega, Or.inl rfl, 0, by omega, by omega, by omega⟩
  | succ fuel ih =>
    intro s vals errs seen pc prev lm rem vals' errs' n h
    simp only [parseKeyValuePairsLoopC] at h
    by_cases hstop : shouldStopLoopC pc s lm = true
    · simp only [hstop, if_true, pure_eq_ok, Except.ok.injEq, Prod.mk.injEq] at h
      obtain ⟨h1, h2, -, h4⟩ := h
      subst h1 h2 h4
      exact ⟨by omega, Or.inl rfl, 0, by omega, by omega, by omega⟩
    · have hpc : pc < 1000 := by
        simp only [shouldStopLoopC, show ((MAX_MAPPING_PAIRS : Nat) : Int) = 1000 from rfl] at hstop
        by_cases hh : pc ≥ 1000
        · simp [hh] at hstop
        · omega
      simp only [hstop, if_false, Bool.false_eq_true] at h
      cases hprog : checkForwardProgressC pc s.ilen prev with
      | some e =>
        simp only [hprog, pure_eq_ok, Except.ok.injEq, Prod.mk.injEq] at h
        obtain ⟨h1, h2, -, h4⟩ := h
        subst h1 h2 h4
        exact ⟨by omega, Or.inl rfl, 0, by omega, by omega, by omega⟩
      | none =>
        simp only [hprog] at h
        obtain ⟨r1, k, v, hrd, -, -, hnp⟩ := parseNextPairC_spec s vals errs seen
        have hle := parseSingle_rem_le s.data seen
        have hr1 : r1.len = (parseSingle s.data seen).rem.length := by rw [← hrd]; simp
        have hsl := s.data_length
        rw [hnp] at h
        have hstore : (parseSingle s.data seen).err ≠ some .expEq → (parseSingle s.data seen).err ≠ some .expSemi →
            ∀ (es : List MapErrC),
            (do
              let (remainder, map_values, errs, stop) ← (Except.ok (r1, vals ++ [(k, v)], es, decide (r1.len = 0)) : Go _)
              let pairCount := pc + 1
              if stop then (return (remainder, map_values, errs, 1) : Go (Sl × List PairS × List MapErrC × Nat)) else
              let last ← getAt map_values ((map_values.length : Int) - 1)
              let seen ← storeEncounteredKeyC last.1 seen
              let (remainder, map_values, errs, n) ←
                parseKeyValuePairsLoopC fuel remainder map_values errs seen pairCount s.ilen lm
              return (remainder, map_values, errs, n + 1)) = .ok (rem, vals', errs', n) →
            n ≤ fuel + 1 ∧ (n = 0 ∨ pc + n ≤ 1000) ∧
              ∃ k, vals'.length = vals.length + k ∧ n ≤ k + 1 ∧ rem.len + 4 * k ≤ s.len := by
          intro hne1 hne2 es hh
          have hpr := parseSingle_progress s.data seen hne1 hne2
          simp only [bind_ok, Sl.ilen_eq] at hh
          by_cases hz : r1.len = 0
          · simp only [hz, decide_true, if_true, pure_eq_ok, Except.ok.injEq, Prod.mk.injEq] at hh
            obtain ⟨h1, h2, -, h4⟩ := hh
            subst h1 h2 h4
            exact ⟨by omega, Or.inr (by omega), 1, by simp, by omega, by omega⟩
          · simp only [hz, decide_false, Bool.false_eq_true, if_false, getAt_last, bind_ok, storeEncounteredKeyC_eq] at hh
            cases hq : parseKeyValuePairsLoopC fuel r1 (vals ++ [(k, v)]) es (strData k.data :: seen) (pc + 1) (s.len : Int) lm with
            | error e => simp [hq] at hh
            | ok t =>
              obtain ⟨rem2, vals2, errs2, n2⟩ := t
              simp only [hq, bind_ok, pure_eq_ok, Except.ok.injEq, Prod.mk.injEq] at hh
              obtain ⟨h1, h2, -, h4⟩ := hh
              subst h1 h2 h4
              obtain ⟨b1, b2, k2, b3, b4, b5⟩ := ih _ _ _ _ _ _ _ _ _ _ _ hq
              refine ⟨by omega, Or.inr (by omega), k2 + 1, ?_, by omega, by omega⟩
              rw [b3]; simp; omega
        rcases parseSingle_err_cases s.data seen with he | he | he | he
        · simp only [he] at h
          exact hstore (by rw [he]; simp) (by rw [he]; simp) _ h
        · simp only [he] at h
          exact hstore (by rw [he]; simp) (by rw [he]; simp) _ h
        · simp only [he, bind_ok, if_true, pure_eq_ok, Except.ok.injEq, Prod.mk.injEq] at h
          obtain ⟨h1, h2, -, h4⟩ := h
          subst h1 h2 h4
          exact ⟨by omega, Or.inr (by omega), 0, by omega, by omega, by omega⟩
        · simp only [he, bind_ok, if_true, pure_eq_ok, Except.ok.injEq, Prod.mk.injEq] at h
          obtain ⟨h1, h2, -, h4⟩ := h
          subst h1 h2 h4
          exact ⟨by omega, Or.inr (by omega), 0, by omega, by omega, by omega⟩

/-! ### serialised views (what the `Bytes()` methods emit; the serialisers themselves are outside C04) -/

/-- what `(*Mapping).Data()` returns (nil is `[]`) -/
def MappingC.dataBytes (m : MappingC) : Bytes := if m.size.isSome then dataOf (m.values.map pairData) else []

/-- how LeaseSet2 / MetaLeaseSet serialise their options: `Data()` when there are pairs, else `00 00` -/
def optionsBytes (m : MappingC) : Bytes := if m.values.length > 0 then m.dataBytes else [0, 0]

/-- `LeaseSet2.Bytes()` (`serializeLeaseSet2Content` + signature) -/
def LS2F.bytes (l : LS2F) : Option Bytes :=
  match l.core.destination with
  | none => none
  | some k => k.bytes.map fun db =>
      db ++ (beEnc 4 l.core.published ++ beEnc 2 l.core.expires ++ beEnc 2 l.core.flags) ++
        offBytes l.core.offlineSignature ++ optionsBytes l.options ++ l.core.tailBytes

/-- `RouterAddress.Bytes()` (nil when a pointer field is nil) -/
def RA.bytes (ra : RA) : Bytes :=
  match ra.transportCost, ra.expirationDate, ra.transportOptions with
  | some c, some d, some m => c.data ++ d ++ ra.transportType.data ++ m.dataBytes
  | _, _, _ => []

/-- `RouterInfo.Bytes()`; `none` = error -/
def RI.bytes (ri : RI) : Option Bytes :=
  match ri.router_identity, ri.published, ri.size, ri.peer_size, ri.options, ri.signature with
  | some k, some p, some sz, some ps, some o, some sg =>
    k.bytes.map fun ib => ib ++ p ++ sz.data ++ ri.addresses.flatMap RA.bytes ++ ps.data ++ o.dataBytes ++ sg
  | _, _, _, _, _, _ => none

theorem dataBytes_of_read {s : Sl} {m : MappingC} (h1 : m.size.isSome = (readMapping s.data).hasSize)
    (h2 : valsData m.vals = (readMapping s.data).vals) :
    m.dataBytes = (Mapping.data (readMapping s.data)).getD [] := by
  rw [MappingC.dataBytes, values_data, h1, h2, Mapping.data]
  cases (readMapping s.data).hasSize <;> simp

/-! ### the error filters of the stream readers -/

theorem isBeyond_m (e : E) : isBeyondWarningC (.m e) = (e == .beyond) := by
  cases e <;> rfl

theorem fatal_filter (l : List E) :
    (l.map MapErrC.m).filter (fun e => !isBeyondWarningC e) = (l.filter (fun e => !(e == .beyond))).map .m := by
  induction l with
  | nil => rfl
  | cons a t ih =>
    simp only [List.map_cons, List.filter_cons, isBeyond_m, ih]
    split <;> rfl

theorem all_beyond_filter (l : List E) : l.all (· == .beyond) = (l.filter (fun e => !(e == .beyond))).isEmpty := by
  induction l with
  | nil => rfl
  | cons a t ih =>
    simp only [List.all_cons, List.filter_cons, ih]
    cases a == E.beyond <;> simp

theorem optionsFatalFilterC_eq (l : List E) :
    optionsFatalFilterC (l.map .m) = .ok (l.all (· == .beyond)) := by
  simp only [optionsFatalFilterC, fatal_filter, List.length_map, all_beyond_filter]
  cases hf : l.filter (fun e => !(e == .beyond)) with
  | nil => by_cases h : l.length > 0 <;> simp [h]
  | cons a t =>
    have hl : l.length > 0 := by
      cases l with
      | nil => simp at hf
      | cons _ _ => simp
    simp only [hl, if_true, List.length_cons, Nat.zero_lt_succ, List.map_cons, List.isEmpty_cons]
    rw [show (0 : Int) = ((0 : Nat) : Int) from rfl, getAt_eq _ 0 (by simp)]
    rfl

theorem warnIfOptionsUnsortedLoopC_ok (ps : List PairS) : warnIfOptionsUnsortedLoopC ps = .ok () := by
  induction ps with
  | nil => rfl
  | cons p t ih =>
    obtain ⟨e, he⟩ := i2pStringDataC_fst p.1
    simp only [warnIfOptionsUnsortedLoopC, he, bind_ok, ih]
    split <;> rfl

theorem warnIfOptionsUnsortedC_ok (m : MappingC) : warnIfOptionsUnsortedC m = .ok () := by
  simp only [warnIfOptionsUnsortedC, warnIfOptionsUnsortedLoopC_ok]
  split <;> rfl

/-- `parseOptionsMapping` (LeaseSet2, MetaLeaseSet): never panics and computes the pure `readOptions _ true` -/
theorem ls2ParseOptionsMappingC_spec (s : Sl) :
    ∃ r, ls2ParseOptionsMappingC s = .ok r ∧
      r.map (fun p => (optionsBytes p.1, p.2.data)) = readOptions s.data true := by
  obtain ⟨m, rem, h, h1, h2, h3⟩ := readMappingS_spec s
  simp only [ls2ParseOptionsMappingC, h, bind_ok, optionsFatalFilterC_eq, readOptions, accepted]
  cases ha : (readMapping s.data).errs.all (· == .beyond) with
  | false => exact ⟨none, by simp, by simp⟩
  | true =>
    simp only [Bool.not_true, Bool.false_eq_true, if_false, warnIfOptionsUnsortedC_ok, bind_ok, pure_eq_ok]
    refine ⟨_, rfl, ?_⟩
    simp only [Option.map_some, h3, optionsBytes, dataBytes_of_read h1 h2, true_and, Option.some.injEq, Prod.mk.injEq,
      and_true]
    have hv := values_data m
    rw [h2] at hv
    have hl : m.values.length = ((readMapping s.data).vals.getD []).length := by rw [← hv]; simp
    rw [hl]
    by_cases hz : ((readMapping s.data).vals.getD []).length = 0
    · simp [hz]
    · have : ((readMapping s.data).vals.getD []).length > 0 := by omega
      simp [hz, this]

/-! ### ReadLeaseSet2, end to end -/

theorem parseOfflineSignatureC_frame (ls2 : LS2) (s : Sl) (l : LS2) (rem : Sl)
    (h : parseOfflineSignatureC ls2 s = .ok (some (l, rem))) : ∃ o, l = { ls2 with offlineSignature := o } := by
  simp only [parseOfflineSignatureC] at h
  cases hk : ls2.hasOfflineKeys with
  | false =>
    simp only [hk, Bool.not_false, if_true, pure_eq_ok, Except.ok.injEq, Option.some.injEq, Prod.mk.injEq] at h
    exact ⟨ls2.offlineSignature, by rw [← h.1]⟩
  | true =>
    simp only [hk, Bool.not_true, Bool.false_eq_true, if_false] at h
    cases hd : ls2.destination with
    | none => simp [hd, deref] at h
    | some k =>
      simp only [hd, deref, bind_ok] at h
      cases hr : readOffSigS s (k.kc.spk % 65536) with
      | error e => simp [hr] at h
      | ok r =>
        cases r with
        | none => simp [hr] at h
        | some p =>
          obtain ⟨o, rem'⟩ := p
          simp only [hr, bind_ok, pure_eq_ok, Except.ok.injEq, Option.some.injEq, Prod.mk.injEq] at h
          exact ⟨some o, by rw [← h.1]⟩

theorem parseKeysLeasesAndSignatureC_frame (ls2 : LS2) (s : Sl) (k : KeysAndCert) (hd : ls2.destination = some k)
    (l : LS2) (rem : Sl) (h : parseKeysLeasesAndSignatureC ls2 s = .ok (some (l, rem))) :
    l.destination = ls2.destination ∧ l.published = ls2.published ∧ l.expires = ls2.expires ∧
      l.flags = ls2.flags ∧ l.offlineSignature = ls2.offlineSignature := by
  simp only [parseKeysLeasesAndSignatureC] at h
  obtain ⟨r1, hr1, hm1⟩ := parseEncryptionKeysC_spec ls2 s
  rw [hr1] at h
  cases r1 with
  | none => simp at h
  | some p1 =>
    obtain ⟨l1, s1⟩ := p1
    obtain ⟨nk, ks, -, -, -, hl1, -, -, -⟩ := hm1
    simp only [bind_ok] at h
    obtain ⟨r2, hr2, hm2⟩ := parseLeasesC_spec l1 s1
    rw [hr2] at h
    cases r2 with
    | none => simp at h
    | some p2 =>
      obtain ⟨l2, s2⟩ := p2
      obtain ⟨nl, xs, -, -, hl2, -, -, -⟩ := hm2
      simp only [bind_ok] at h
      have hd2 : l2.destination = some k := by rw [hl2, hl1]; exact hd
      obtain ⟨r3, hr3, hm3⟩ := parseSignatureAndFinalizeC_spec l2 s2 k hd2
      rw [hr3] at h
      cases r3 with
      | none => simp at h
      | some p3 =>
        obtain ⟨l3, s3⟩ := p3
        obtain ⟨sb, hl3, -⟩ := hm3
        simp only [Except.ok.injEq, Option.some.injEq, Prod.mk.injEq] at h
        rw [← h.1, hl3, hl2, hl1]
        exact ⟨rfl, rfl, rfl, rfl, rfl⟩

theorem parseDestinationAndHeaderC_frame (ls2 : LS2) (s : Sl) (l : LS2) (rem : Sl)
    (h : parseDestinationAndHeaderC ls2 s = .ok (some (l, rem))) : l.offlineSignature = ls2.offlineSignature := by
  simp only [parseDestinationAndHeaderC] at h
  revert h
  split
  · intro h; cases h
  · intro h
    cases hr : readDestinationS s with
    | error e => simp [hr] at h
    | ok r =>
      cases r with
      | none => simp [hr] at h
      | some p =>
        obtain ⟨dest, rem'⟩ := p
        simp only [hr, bind_ok] at h
        split at h
        · cases h
        · rename_i h8
          have h8' : 8 ≤ rem'.len := by simp only [Sl.ilen_eq] at h8; omega
          rw [parseHeaderFieldsC_eq _ rem' h8'] at h
          simp only [bind_ok, pure_eq_ok, Except.ok.injEq, Option.some.injEq, Prod.mk.injEq] at h
          rw [← h.1]

theorem offView_fst (l : LS2) (k : KeysAndCert) : (l.offView k).1 = offBytes l.offlineSignature := by
  simp only [LS2.offView, offBytes]; cases l.offlineSignature <;> rfl

theorem sigTypeOf_offView (l : LS2) (k : KeysAndCert) (h : l.offlineSignature.isSome ↔ l.flags % 2 = 1) :
    l.sigTypeOf k = (l.offView k).2 := by
  simp only [LS2.sigTypeOf, LS2.offView]
  cases ho : l.offlineSignature with
  | none => rfl
  | some o =>
    have : l.flags % 2 = 1 := h.mp (by rw [ho]; rfl)
    simp [this]

/-- `ReadLeaseSet2`, end to end (destination, header, offline signature, options mapping, keys, leases,
    signature): never a panic, and the parsed value re-serialises to what the pure model returns -/
theorem readLeaseSet2S_spec (s : Sl) :
    ∃ r, readLeaseSet2S s = .ok r ∧ r.bind (fun p => p.1.bytes.map (·, p.2.data)) = readLeaseSet2 s.data := by
  rw [readLeaseSet2_decomp]
  simp only [readLeaseSet2S]
  obtain ⟨r1, h1, -, hv1⟩ := parseDestinationAndHeaderC_spec {} s
  rw [h1]
  have hnone : ls2Head s.data = none → ∃ r, (do
        match r1 with
        | none => pure none
        | some (ls2, data) =>
        match ← parseOfflineSignatureC ls2 data with
        | none => pure none
        | some (ls2, data) =>
        match ← ls2ParseOptionsMappingC data with
        | none => pure none
        | some (options, data) =>
        match ← parseKeysLeasesAndSignatureC ls2 data with
        | none => pure none
        | some (ls2, remainder) => pure (some (({ core := ls2, options := options } : LS2F), remainder)) : Go (Option (LS2F × Sl))) = .ok r ∧
        r.bind (fun p => p.1.bytes.map (·, p.2.data)) = none := by
    intro hn
    rw [hn] at hv1
    cases r1 with
    | none => exact ⟨none, rfl, rfl⟩
    | some p => simp at hv1
  simp only [bind_ok]
  by_cases hlen : s.data.length < 499
  · simp only [hlen, if_true]
    exact hnone (by simp only [ls2Head, hlen, if_true])
  · simp only [hlen, if_false]
    cases hdest : readDestination s.data with
    | none => exact hnone (by simp only [ls2Head, hlen, if_false, hdest])
    | some kr =>
      obtain ⟨k, r⟩ := kr
      have hks := readKac_struct (readDestination_iff.mp hdest).1
      obtain ⟨-, -, -, hsc, -, -, -, hkb⟩ := hks
      simp only [hkb]
      by_cases h8 : r.length < 8
      · simp only [h8, if_true]
        exact hnone (by simp only [ls2Head, hlen, if_false, hdest, h8, if_true])
      · simp only [h8, if_false]
        have hH : ls2Head s.data = some (k, beVal (r.take 4), beVal ((r.drop 4).take 2), beVal ((r.drop 6).take 2), r.drop 8) := by
          simp only [ls2Head, hlen, if_false, hdest, h8]
        rw [hH] at hv1
        cases r1 with
        | none => simp at hv1
        | some p1 =>
          obtain ⟨l1, s1⟩ := p1
          simp only [Option.map_some, Option.some.injEq, Prod.mk.injEq] at hv1
          obtain ⟨e1, e2, e3, e4, e5⟩ := hv1
          have ho := parseDestinationAndHeaderC_frame {} s l1 s1 h1
          obtain ⟨r2, h2, hd2, hv2⟩ := parseOfflineSignatureC_spec l1 s1 k e1 ho
          have hs : k.kc.spk % 65536 = k.kc.spk := by
            have := sigConstructible_cases hsc
            omega
          rw [hs, e4, e5] at hv2
          simp only [h2, bind_ok]
          rw [← hv2]
          cases r2 with
          | none => exact ⟨none, rfl, rfl⟩
          | some p2 =>
            obtain ⟨l2, s2⟩ := p2
            obtain ⟨hd2k, hfl, hiff⟩ := hd2 l2 s2 rfl
            obtain ⟨o2, hl2⟩ := parseOfflineSignatureC_frame l1 s1 l2 s2 h2
            simp only [Option.map_some]
            obtain ⟨r3, h3, hv3⟩ := ls2ParseOptionsMappingC_spec s2
            simp only [h3, bind_ok]
            rw [← hv3]
            cases r3 with
            | none => exact ⟨none, rfl, rfl⟩
            | some p3 =>
              obtain ⟨opt, s3⟩ := p3
              simp only [Option.map_some]
              obtain ⟨r4, h4, hv4⟩ := parseKeysLeasesAndSignatureC_spec l2 s3 k hd2k
              rw [sigTypeOf_offView l2 k (by rw [hfl]; exact hiff)] at hv4
              simp only [h4, bind_ok]
              rw [← hv4]
              cases r4 with
              | none => exact ⟨none, rfl, rfl⟩
              | some p4 =>
                obtain ⟨l4, s4⟩ := p4
                obtain ⟨f1, f2, f3, f4, f5⟩ := parseKeysLeasesAndSignatureC_frame l2 s3 k hd2k l4 s4 h4
                refine ⟨_, rfl, ?_⟩
                simp only [Option.bind_some, Option.map_some, LS2F.bytes, f1, hd2k, hkb, f2, f3, f4, f5, offView_fst]
                have p1 : l2.published = beVal (r.take 4) := by rw [hl2]; exact e2
                have p2 : l2.expires = beVal ((r.drop 4).take 2) := by rw [hl2]; exact e3
                have p3 : l2.flags = beVal ((r.drop 6).take 2) := by rw [hfl]; exact e4
                rw [p1, p2, p3, hdr_split r (by omega)]

/-! ### ReadRouterAddress -/

theorem find_fatal (l : List E) :
    (l.map MapErrC.m).find? (fun e => !isBeyondWarningC e) = none ↔ l.all (· == .beyond) = true := by
  induction l with
  | nil => simp
  | cons a t ih =>
    simp only [List.map_cons, List.find?_cons, isBeyond_m, List.all_cons]
    cases h : a == E.beyond
    · simp
    · simp only [Bool.not_true, Bool.true_and]; exact ih

theorem newIntegerPtrC_one (s : Sl) (h : 1 ≤ s.len) : newIntegerPtrC s 1 = .ok (s.sub 0 1, s.adv 1) := by
  simp only [newIntegerPtrC, readIntegerC_eq, bind_ok, pure_eq_ok]
  have h1 : ¬ ((1 : Int) ≤ 0 ∨ (1 : Int) > 8) := by omega
  have h2 : ¬ ((s.len : Int) < 1) := by omega
  simp only [h1, h2, if_false, Int.reduceToNat, Option.getD_some, Sl.adv]

/-- `NewInteger(remainder, 1)` on any slice, empty ones included: the Integer is the first byte (or empty),
    the remainder the rest (or nil) -/
theorem newIntegerPtrC_one_any (s : Sl) :
    ∃ i rem, newIntegerPtrC s 1 = .ok (i, rem) ∧ i.data = s.data.take 1 ∧ rem.data = s.data.drop 1 := by
  by_cases h : 1 ≤ s.len
  · refine ⟨_, _, newIntegerPtrC_one s h, Sl.sub_data_to (by omega), Sl.adv_data (by omega)⟩
  · have h0 : s.len = 0 := by omega
    have hd : s.data = [] := List.eq_nil_of_length_eq_zero (by simp [h0])
    simp only [newIntegerPtrC, readIntegerC_eq, bind_ok, pure_eq_ok]
    have h1 : ¬ ((1 : Int) ≤ 0 ∨ (1 : Int) > 8) := by omega
    have h2 : ((s.len : Int) < 1) := by omega
    simp only [h1, h2, if_false, if_true, Option.getD_some]
    exact ⟨s, Sl.nil, rfl, by simp [hd], by simp [hd]⟩

theorem newDateS_spec (s : Sl) : ∃ r, newDateS s = .ok r ∧ vRem r = readDate s.data := by
  obtain ⟨r, hr, hv⟩ := readDateS_spec s
  simp only [newDateS, hr, bind_ok]
  cases r with
  | none => exact ⟨none, rfl, hv⟩
  | some p => exact ⟨some p, by simp [integerIntC_eq], hv⟩

/-- `ReadRouterAddress`: never panics, and the parsed address re-serialises to what the pure model returns -/
theorem readRouterAddressS_spec (s : Sl) :
    ∃ r, readRouterAddressS s = .ok r ∧ r.map (fun p => (p.1.bytes, p.2.data)) = readRouterAddress s.data := by
  simp only [readRouterAddressS, validateRouterAddressDataC, readRouterAddress, Sl.ilen_eq, Sl.data_length]
  by_cases h12 : s.len < 12
  · have : ((s.len : Int) = 0 ∨ (s.len : Int) < 12) := by omega
    refine ⟨none, ?_, by simp [h12]⟩
    rcases this with h | h <;> simp [h]
  · have h0 : ¬ (s.len : Int) = 0 := by omega
    have h12i : ¬ (s.len : Int) < 12 := by omega
    simp only [h0, h12i, decide_false, Bool.not_false, Bool.and_self, Bool.not_true, Bool.false_eq_true, if_false, h12,
      parseTransportCostC, newIntegerPtrC_one s (by omega), bind_ok, pure_eq_ok, parseExpirationDateC]
    have hal : (s.adv 1).len = s.len - 1 := Sl.adv_len (by omega)
    have had : (s.adv 1).data = s.data.drop 1 := Sl.adv_data (by omega)
    obtain ⟨rd, hrd, hvd⟩ := newDateS_spec (s.adv 1)
    have hdate : readDate (s.adv 1).data = some ((s.data.drop 1).take 8, s.data.drop 9) := by
      simp only [readDate, had, List.length_drop, Sl.data_length, List.drop_drop]
      rw [if_neg (by omega)]
    rw [hdate] at hvd
    cases rd with
    | none => simp at hvd
    | some pd =>
      obtain ⟨date, s2⟩ := pd
      simp only [vRem_some, Option.some.injEq, Prod.mk.injEq] at hvd
      obtain ⟨hdt, hs2⟩ := hvd
      simp only [hrd, bind_ok, parseTransportTypeC]
      obtain ⟨str, s3, hstr, hstrd, hs3⟩ := readStrS_spec s2
      rw [hs2] at hstr hstrd hs3
      simp only [hstr, bind_ok]
      generalize hrs : readStr (s.data.drop 9) = rs at *
      obtain ⟨strb, r3, e⟩ := rs
      simp only at hstrd hs3 ⊢
      cases e with
      | some e => exact ⟨none, by simp, by simp⟩
      | none =>
        simp only [Option.map_none, Option.isSome_none, Bool.false_eq_true, if_false, parseTransportOptionsC, newMappingS,
          pure_eq_ok, bind_ok]
        obtain ⟨m, rem, hm, hm1, hm2, hm3⟩ := readMappingS_spec s3
        rw [hs3] at hm hm1 hm2 hm3
        simp only [hm, bind_ok, accepted]
        by_cases ha : (readMapping r3).errs.all (· == .beyond) = true
        · have hf := (find_fatal _).mpr ha
          simp only [hf, ha, Bool.not_true, Bool.false_eq_true, if_false]
          refine ⟨_, rfl, ?_⟩
          have hdb : m.dataBytes = (Mapping.data (readMapping r3)).getD [] := by
            have := dataBytes_of_read (s := s3) (m := m) (by rw [hs3]; exact hm1) (by rw [hs3]; exact hm2)
            rwa [hs3] at this
          simp only [Option.map_some, RA.bytes, hdb, hm3, hstrd, hdt, Sl.sub_data_to (show 1 ≤ s.len by omega)]
          rw [show (9 : Nat) = 1 + 8 from rfl, take_add_eq]
        · have hne : (List.map MapErrC.m (readMapping r3).errs).find? (fun e => !isBeyondWarningC e) ≠ none := by
            rw [Ne, find_fatal]; exact ha
          have hfa : (readMapping r3).errs.all (· == .beyond) = false := by simpa using ha
          cases hf : (List.map MapErrC.m (readMapping r3).errs).find? (fun e => !isBeyondWarningC e) with
          | none => exact absurd hf hne
          | some x => exact ⟨none, rfl, by simp [hfa]⟩

/-! ### ReadRouterInfo -/

theorem readRouterIdentityS_spec (s : Sl) : ∃ r, readRouterIdentityS s = .ok r ∧ vRem r = readRouterIdentity s.data := by
  obtain ⟨r, hr, hv⟩ := readKacS_spec s
  simp only [readRouterIdentityS, hr, bind_ok, readRouterIdentity, ← hv]
  cases r with
  | none => exact ⟨none, rfl, rfl⟩
  | some p =>
    obtain ⟨k, rem⟩ := p
    simp only [vRem_some]
    cases ridAllowed k.kc.spk k.kc.cpk
    · exact ⟨none, rfl, rfl⟩
    · exact ⟨_, rfl, rfl⟩

/-- what the signature step of `ReadRouterInfo` needs to know about a parsed identity -/
theorem readKac_cert {d : Bytes} {k : KeysAndCert} {r : Bytes} (h : readKac d = some (k, r)) :
    k.kc.cert.kind = (d.drop 384).take 1 ∧ k.kc.cert.kind.length = 1 ∧ k.kc.cert.len.length = 2 ∧
    (k.kc.cert.kind = [5] → 4 ≤ k.kc.cert.payload.length ∧ k.kc.spk = beVal (k.kc.cert.payload.take 2)) ∧
    ∃ ib, k.bytes = some ib := by
  obtain ⟨-, hp, -, -, -, -, -, hb⟩ := readKac_struct h
  obtain ⟨hk1, hl2, -⟩ := KcParse_types hp
  obtain ⟨-, hc, -, -⟩ := readCert_some.mp (KcParse_readCert hp)
  refine ⟨by rw [hc], hk1, hl2, ?_, _, hb⟩
  intro h5
  rcases hp with ⟨t, -, hn⟩ | ⟨t, c, hv, hn, hkc⟩
  · obtain ⟨c, -, -, h4, hmk⟩ := newKeyCert_some.mp hn
    rw [hmk]
    simp only [mkKeyCert, Cert.data] at h4 ⊢
    simp only [List.length_take] at h4
    refine ⟨by omega, ?_⟩
    rw [List.take_take, Nat.min_eq_left (by omega)]
  · exfalso
    obtain ⟨-, hc', -, -⟩ := readCert_some.mp hn
    rw [hkc] at h5
    simp only [hc', hv] at h5
    simp at h5

theorem kind_five {c : Cert} (hk : c.kind.length = 1) : c.type = 5 ↔ c.kind = [5] := by
  cases hkd : c.kind with
  | nil => rw [hkd] at hk; simp at hk
  | cons b t =>
    cases t with
    | cons _ _ => rw [hkd] at hk; simp at hk
    | nil =>
      simp only [Cert.type, hkd, beVal_singleton, List.cons.injEq, and_true]
      constructor
      · intro h; exact UInt8.toNat_inj.mp (by simpa using h)
      · intro h; rw [h]; rfl

/-- `parseRouterInfoSignature` for an identity that came out of the parser: no panic (`cert.payload[0:2]` is
    guarded by the length check), and the signature the pure model reads -/
theorem parseRouterInfoSignatureC_spec (k : KeysAndCert) (s : Sl) (hk : k.kc.cert.kind.length = 1)
    (hl : k.kc.cert.len.length = 2)
    (h5 : k.kc.cert.kind = [5] → 4 ≤ k.kc.cert.payload.length ∧ k.kc.spk = beVal (k.kc.cert.payload.take 2)) :
    ∃ r, parseRouterInfoSignatureC (some k) s = .ok r ∧
      vRem r = readSig s.data (if k.kc.cert.kind == [5] then k.kc.spk else 0) := by
  obtain ⟨cd, hcd, -⟩ := certDataC_spec hk hl
  simp only [parseRouterInfoSignatureC, getCertificateTypeFromIdentityC, deref, bind_ok, certTypeC_eq hk hl, hcd, pure_eq_ok]
  have tail : ∀ t : Nat, ∃ r, (if (!validateSignatureTypeC (t : Int)) = true then (pure none : Go (Option (Bytes × Sl)))
      else readSigS s (t : Int)) = .ok r ∧ vRem r = readSig s.data t := by
    intro t
    obtain ⟨r, hr, hv⟩ := readSigS_spec s t
    by_cases hz : sigLen t = 0
    · refine ⟨none, ?_, by simp [readSig, hz]⟩
      simp [validateSignatureTypeC, getSignatureLengthC_nat, hz]
    · refine ⟨r, ?_, hv⟩
      simp [validateSignatureTypeC, getSignatureLengthC_nat, hz, hr]
  by_cases hkind : k.kc.cert.kind = [5]
  · have ht : k.kc.cert.type = 5 := (kind_five hk).mpr hkind
    obtain ⟨h4, hspk⟩ := h5 hkind
    have hti : ((k.kc.cert.type : Nat) : Int) = 5 := by omega
    simp only [hti, if_true, getSignatureTypeFromCertificateC, certTypeC_eq hk hl, bind_ok, ne_eq, not_true_eq_false,
      if_false, Sl.ilen_eq, Sl.ofBytes_len]
    have : ¬ ((k.kc.cert.payload.length : Nat) : Int) < 4 := by omega
    simp only [this, if_false]
    rw [slice_eq (by omega) (by omega) (by simp; omega)]
    simp only [bind_ok, Int.toNat_zero, Int.zero_add, Int.reduceToNat]
    rw [beUint16_sub (by simp; omega)]
    simp only [bind_ok, pure_eq_ok, Sl.ofBytes_data, ← hspk, hkind, beq_self_eq_true, if_true]
    exact tail k.kc.spk
  · have ht : ¬ k.kc.cert.type = 5 := fun h => hkind ((kind_five hk).mp h)
    have hti : ¬ ((k.kc.cert.type : Nat) : Int) = 5 := by omega
    have hb : (k.kc.cert.kind == [5]) = false := by simpa using hkind
    simp only [hti, if_false, pure_eq_ok, hb, Bool.false_eq_true]
    exact tail 0

theorem logCriticalMappingErrorsLoopC_ok : ∀ (errs : List MapErrC) (msgs : List Unit) (i : Nat),
    i + errs.length = msgs.length → ∃ r, logCriticalMappingErrorsLoopC msgs (i : Int) errs = .ok r ∧ r.length = msgs.length := by
  intro errs
  induction errs with
  | nil => intro msgs i _; exact ⟨msgs, rfl, rfl⟩
  | cons e t ih =>
    intro msgs i h
    simp only [List.length_cons] at h
    simp only [logCriticalMappingErrorsLoopC, setAt_eq msgs i () (by omega), bind_ok]
    obtain ⟨r, hr, hl⟩ := ih (msgs.set i ()) (i + 1) (by simp; omega)
    have hc : ((i : Int) + 1) = ((i + 1 : Nat) : Int) := by omega
    rw [hc, hr]
    exact ⟨r, rfl, by rw [hl]; simp⟩

theorem logCriticalMappingErrorsC_ok (errs : List MapErrC) : logCriticalMappingErrorsC errs = .ok () := by
  obtain ⟨r, hr, -⟩ := logCriticalMappingErrorsLoopC_ok errs (List.replicate errs.length ()) 0 (by simp)
  simp only [logCriticalMappingErrorsC]
  simp only [Int.natCast_zero] at hr
  rw [hr]; rfl

theorem any_fatal (l : List E) :
    hasCriticalMappingErrorsC (l.map .m) = !(l.all (· == .beyond)) := by
  induction l with
  | nil => rfl
  | cons a t ih =>
    simp only [hasCriticalMappingErrorsC, List.map_cons, List.any_cons, isBeyond_m, List.all_cons, Bool.not_and] at ih ⊢
    rw [ih]

/-- `parsePeerSizeAndOptions`: the peer_size byte (or nothing), then the options mapping -/
theorem parsePeerSizeAndOptionsC_spec (s : Sl) :
    ∃ r, parsePeerSizeAndOptionsC s = .ok r ∧
      r.map (fun p => (p.1.data, p.2.1.dataBytes, p.2.2.data)) =
        (if accepted (readMapping (s.data.drop 1)) then
          some (s.data.take 1, (Mapping.data (readMapping (s.data.drop 1))).getD [], (readMapping (s.data.drop 1)).rem)
         else none) := by
  obtain ⟨ps, s1, h1, hps, hs1⟩ := newIntegerPtrC_one_any s
  simp only [parsePeerSizeAndOptionsC, parsePeerSizeFromBytesC, h1, bind_ok, integerIntC_eq]
  have hpeer : (if integerInt ps.data ≠ 0 then (pure (ps, s1) : Go (Sl × Sl)) else pure (ps, s1)) = .ok (ps, s1) := by
    split <;> rfl
  simp only [pure_eq_ok] at hpeer ⊢
  rw [hpeer]
  obtain ⟨m, rem, hm, hm1, hm2, hm3⟩ := readMappingS_spec s1
  simp only [bind_ok, riParseOptionsMappingC, newMappingS, hm, List.length_map, any_fatal, accepted, hs1] at hm hm1 hm2 hm3 ⊢
  have hdb : m.dataBytes = (Mapping.data (readMapping (s.data.drop 1))).getD [] := by
    have := dataBytes_of_read (s := s1) (m := m) (by rw [hs1]; exact hm1) (by rw [hs1]; exact hm2)
    rwa [hs1] at this
  by_cases he : (readMapping (s.data.drop 1)).errs.length = 0
  · have hnil : (readMapping (s.data.drop 1)).errs = [] := List.eq_nil_of_length_eq_zero he
    simp only [he, if_true, pure_eq_ok, bind_ok, Bool.not_true, Bool.false_eq_true, if_false, hnil, List.all_nil]
    exact ⟨_, rfl, by simp [hps, hdb, hm3]⟩
  · simp only [he, if_false]
    by_cases ha : (readMapping (s.data.drop 1)).errs.all (· == .beyond) = true
    · simp only [ha, Bool.not_true, Bool.false_eq_true, if_false, pure_eq_ok, bind_ok, if_true]
      exact ⟨_, rfl, by simp [hps, hdb, hm3]⟩
    · have hfa : (readMapping (s.data.drop 1)).errs.all (· == .beyond) = false := by simpa using ha
      simp only [hfa, Bool.not_false, if_true, logCriticalMappingErrorsC_ok, bind_ok, Bool.false_eq_true, if_false]
      rw [show (0 : Int) = ((0 : Nat) : Int) from rfl, getAt_eq _ 0 (by rw [List.length_map]; omega)]
      exact ⟨none, rfl, rfl⟩

theorem parseRouterInfoCoreC_spec (s : Sl) :
    ∃ r, parseRouterInfoCoreC s = .ok r ∧
      match r with
      | none => readRouterIdentity s.data = none ∨ ∃ k r', readRouterIdentity s.data = some (k, r') ∧ r'.length < 8
      | some (info, rem) => ∃ k r' sz, readRouterIdentity s.data = some (k, r') ∧ 8 ≤ r'.length ∧
          info = { router_identity := some k, published := some (r'.take 8), size := some sz } ∧
          sz.data = (r'.drop 8).take 1 ∧ rem.data = (r'.drop 8).drop 1 := by
  obtain ⟨r1, h1, hv1⟩ := readRouterIdentityS_spec s
  simp only [parseRouterInfoCoreC, h1, bind_ok]
  cases r1 with
  | none => exact ⟨none, rfl, Or.inl hv1.symm⟩
  | some p1 =>
    obtain ⟨k, s1⟩ := p1
    simp only [vRem_some] at hv1
    obtain ⟨r2, h2, hv2⟩ := newDateS_spec s1
    simp only [h2, bind_ok]
    simp only [readDate, Sl.data_length] at hv2
    by_cases h8 : s1.len < 8
    · simp only [h8, if_true] at hv2
      cases r2 with
      | some _ => simp [vRem] at hv2
      | none => exact ⟨none, rfl, Or.inr ⟨k, s1.data, hv1.symm, by simpa using h8⟩⟩
    · simp only [h8, if_false] at hv2
      cases r2 with
      | none => simp at hv2
      | some p2 =>
        obtain ⟨date, s2⟩ := p2
        simp only [vRem_some, Option.some.injEq, Prod.mk.injEq] at hv2
        obtain ⟨sz, s3, h3, hsz, hs3⟩ := newIntegerPtrC_one_any s2
        simp only [h3, bind_ok, pure_eq_ok]
        refine ⟨_, rfl, k, s1.data, sz, hv1.symm, (by rw [Sl.data_length]; omega), ?_, ?_, ?_⟩
        · rw [hv2.1]
        · rw [hsz, hv2.2]
        · rw [hs3, hv2.2]

/-- the address loop computes the pure `readAddrs` (the accumulator of the pure model is the serialisation of
    the addresses stored so far) -/
theorem addrLoop_spec : ∀ (fuel i : Nat) (size : Sl) (N : Nat) (addrs : List RA) (s : Sl),
    integerInt size.data = (N : Int) → i + fuel = N →
    ∃ r, parseRouterAddressesLoopC fuel (i : Int) (some size) addrs s = .ok r ∧
      (∀ as rem n, r = some (as, rem, n) → n = fuel) ∧
      r.map (fun p => (p.1.flatMap RA.bytes, p.2.1.data)) = readAddrs fuel s.data (addrs.flatMap RA.bytes) := by
  intro fuel
  induction fuel with
  | zero =>
    intro i size N addrs s _ _
    exact ⟨_, rfl, by intro as rem n h; simp only [Option.some.injEq, Prod.mk.injEq] at h; exact h.2.2.symm, rfl⟩
  | succ fuel ih =>
    intro i size N addrs s hN hi
    have hlt : (i : Int) < (N : Int) := by omega
    simp only [parseRouterAddressesLoopC, deref, bind_ok, integerIntC_eq, hN, hlt, not_true_eq_false, if_false, readAddrs]
    obtain ⟨ra, hra, hva⟩ := readRouterAddressS_spec s
    rw [hra, ← hva]
    cases ra with
    | none => exact ⟨none, rfl, (by intro _ _ _ h; cases h), rfl⟩
    | some p =>
      obtain ⟨a, more⟩ := p
      simp only [bind_ok, Option.map_some]
      obtain ⟨r, hr, hn, hv⟩ := ih (i + 1) size N (addrs ++ [a]) more hN (by omega)
      have hc : ((i : Int) + 1) = ((i + 1 : Nat) : Int) := by omega
      rw [hc, hr]
      have hfm : (addrs ++ [a]).flatMap RA.bytes = addrs.flatMap RA.bytes ++ a.bytes := by simp
      rw [hfm] at hv
      rw [← hv]
      cases r with
      | none => exact ⟨none, rfl, (by intro _ _ _ h; cases h), rfl⟩
      | some q =>
        obtain ⟨as, rem, n⟩ := q
        refine ⟨_, rfl, ?_, rfl⟩
        intro as' rem' n' h
        simp only [bind_ok, pure_eq_ok, Option.some.injEq, Prod.mk.injEq] at h
        rw [← h.2.2, hn as rem n rfl]

theorem integerInt_le_one (b : Bytes) (h : b.length ≤ 1) : integerInt b = (beVal b : Int) := by
  cases b with
  | nil => rfl
  | cons x t =>
    cases t with
    | nil => exact integerInt_short (by simp) (by simp)
    | cons _ _ => simp at h

theorem readRouterAddress_progress {d b r : Bytes} (h : readRouterAddress d = some (b, r)) : r.length + 12 ≤ d.length := by
  have hc := readRouterAddress_consumed h
  obtain ⟨h12, str, r1, hs, ha, rfl, rfl⟩ := readRouterAddress_some.mp h
  obtain ⟨c, hd, -, -, -⟩ := mapping_frame r1 ha
  have hcl : 2 ≤ c.length := by
    unfold Mapping.data at hd
    split at hd
    · cases hd
    · simp only [Option.some.injEq] at hd
      rw [← hd]; simp [dataOf]
  have hsl : 1 ≤ str.length := by
    unfold readStr at hs
    cases hdd : d.drop 9 with
    | nil => rw [hdd] at hs; simp at hs
    | cons l rest =>
      rw [hdd] at hs
      simp only at hs
      split at hs
      · simp only [Prod.mk.injEq] at hs; rw [← hs.1]; simp
      · simp only [Prod.mk.injEq] at hs; cases hs.2.2
  have := congrArg List.length hc
  rw [hd] at this
  simp only [Option.getD_some, List.length_append, List.length_take] at this
  omega

theorem readRouterAddressS_progress {s : Sl} {a : RA} {rem : Sl} (h : readRouterAddressS s = .ok (some (a, rem))) :
    rem.len + 12 ≤ s.len := by
  obtain ⟨r, hr, hv⟩ := readRouterAddressS_spec s
  rw [h] at hr
  cases hr
  have := readRouterAddress_progress hv.symm
  simpa using this

/-- RouterInfo address loop, for arbitrary arguments: at most `fuel` iterations, one address stored per
    iteration, every iteration consumes at least 12 bytes, and the index never passes `size.Int()` -/
theorem parseRouterAddressesLoopC_bounds : ∀ (fuel : Nat) (i : Int) (size : Option Sl) (addrs : List RA) (s : Sl)
    (as : List RA) (rem : Sl) (n : Nat),
    parseRouterAddressesLoopC fuel i size addrs s = .ok (some (as, rem, n)) →
      n ≤ fuel ∧ as.length = addrs.length + n ∧ rem.len + 12 * n ≤ s.len ∧
      (n = 0 ∨ ∃ sz, size = some sz ∧ i + n ≤ integerInt sz.data) := by
  intro fuel
  induction fuel with
  | zero =>
    intro i size addrs s as rem n h
    simp only [parseRouterAddressesLoopC, pure_eq_ok, Except.ok.injEq, Option.some.injEq, Prod.mk.injEq] at h
    obtain ⟨h1, h2, h3⟩ := h
    subst h1 h2 h3
    exact ⟨by omega, by omega, by omega, Or.inl rfl⟩
  | succ fuel ih =>
    intro i size addrs s as rem n h
    simp only [parseRouterAddressesLoopC] at h
    cases size with
    | none => simp [deref] at h
    | some sz =>
      simp only [deref, bind_ok, integerIntC_eq] at h
      by_cases hc : i < integerInt sz.data
      · simp only [hc, not_true_eq_false, if_false] at h
        cases hp : readRouterAddressS s with
        | error e => simp [hp] at h
        | ok r =>
          cases r with
          | none => simp [hp] at h
          | some q =>
            obtain ⟨a, more⟩ := q
            have hcons := readRouterAddressS_progress hp
            simp only [hp, bind_ok] at h
            cases hq : parseRouterAddressesLoopC fuel (i + 1) (some sz) (addrs ++ [a]) more with
            | error e => simp [hq] at h
            | ok r2 =>
              cases r2 with
              | none => simp [hq] at h
              | some t =>
                obtain ⟨as2, rem2, n2⟩ := t
                simp only [hq, bind_ok, pure_eq_ok, Except.ok.injEq, Option.some.injEq, Prod.mk.injEq] at h
                obtain ⟨h1, h2, h3⟩ := h
                subst h1 h2 h3
                obtain ⟨b1, b2, b3, b4⟩ := ih _ _ _ _ _ _ _ hq
                refine ⟨by omega, by rw [b2]; simp; omega, by omega, Or.inr ⟨sz, rfl, ?_⟩⟩
                rcases b4 with b4 | ⟨sz', hsz', b4⟩
                · subst b4; simp; omega
                · cases hsz'; omega
      · simp only [hc, not_false_eq_true, if_true, pure_eq_ok, Except.ok.injEq, Option.some.injEq, Prod.mk.injEq] at h
        obtain ⟨h1, h2, h3⟩ := h
        subst h1 h2 h3
        exact ⟨by omega, by omega, by omega, Or.inl rfl⟩

/-- `ReadRouterInfo`, end to end (identity, published date, size byte, address loop, peer_size, options,
    signature): never a panic; the parsed value re-serialises to what the pure model returns; the address loop
    runs `size` ≤ 255 times and every iteration consumed at least 12 bytes -/
theorem readRouterInfoS'_spec (s : Sl) :
    ∃ r, readRouterInfoS' s = .ok r ∧
      r.bind (fun p => p.1.bytes.map (·, p.2.1.data)) = readRouterInfo s.data ∧
      (∀ info rem n, r = some (info, rem, n) → n ≤ 255 ∧ info.addresses.length = n ∧ 12 * n ≤ s.len) := by
  rw [readRouterInfo_eq]
  obtain ⟨r1, h1, hm1⟩ := parseRouterInfoCoreC_spec s
  simp only [readRouterInfoS', h1, bind_ok]
  cases r1 with
  | none =>
    refine ⟨none, rfl, ?_, by intro _ _ _ h; cases h⟩
    rcases hm1 with hm | ⟨k, r', hm, h8⟩
    · rw [hm]; rfl
    · rw [hm]
      simp only [Option.bind_none]
      cases k.bytes with
      | none => rfl
      | some ib => simp [riCont, h8]
  | some p1 =>
    obtain ⟨info, rem1⟩ := p1
    obtain ⟨k, r', sz, hid, h8, hinfo, hsz, hrem1⟩ := hm1
    obtain ⟨hkind, hk1, hl2, h5, ib, hib⟩ := readKac_cert (readRouterIdentity_iff.mp hid).1
    obtain ⟨ib', hib', hcons⟩ := readRouterIdentity_consumed hid
    rw [hid]
    simp only [hib, riCont, if_neg (show ¬ r'.length < 8 by omega)]
    have hszl : sz.data.length ≤ 1 := by rw [hsz]; simp only [List.length_take]; omega
    have hN : integerInt sz.data = ((beVal sz.data : Nat) : Int) := integerInt_le_one _ hszl
    have hN255 : beVal sz.data ≤ 255 := by
      have := beVal_lt sz.data
      have h2 : 256 ^ sz.data.length ≤ 256 ^ 1 := Nat.pow_le_pow_right (by omega) hszl
      omega
    have hsize : info.size = some sz := by rw [hinfo]
    simp only [parseRouterAddressesC, hsize, deref, bind_ok, integerIntC_eq, hN, Int.toNat_natCast]
    obtain ⟨r2, h2, hn2, hv2⟩ := addrLoop_spec (beVal sz.data) 0 sz (beVal sz.data) [] rem1 hN (by omega)
    simp only [Int.natCast_zero] at h2
    rw [h2]
    simp only [List.flatMap_nil, hrem1] at hv2
    rw [← hsz, ← hv2]
    cases r2 with
    | none => exact ⟨none, rfl, rfl, by intro _ _ _ h; cases h⟩
    | some p2 =>
      obtain ⟨as, s2, n⟩ := p2
      have hn := hn2 as s2 n rfl
      obtain ⟨-, bl, bc, -⟩ := parseRouterAddressesLoopC_bounds _ _ _ _ _ _ _ _ h2
      have hr1len : rem1.len ≤ s.len := by
        have e1 := congrArg List.length hcons
        have e2 := congrArg List.length hrem1
        simp only [List.length_append, Sl.data_length, List.length_drop] at e1 e2
        omega
      have hbound : ∀ (i : RI) (rm : Sl) (n' : Nat), i.addresses = as → n' = n →
          n' ≤ 255 ∧ i.addresses.length = n' ∧ 12 * n' ≤ s.len := by
        intro i rm n' hi hn'
        rw [hi, hn', bl]
        exact ⟨by omega, by simp, by omega⟩
      simp only [bind_ok, Option.map_some]
      obtain ⟨r3, h3, hv3⟩ := parsePeerSizeAndOptionsC_spec s2
      rw [h3]
      by_cases hacc : accepted (readMapping (s2.data.drop 1)) = true
      · simp only [hacc, if_true, Bool.not_true, Bool.false_eq_true, if_false] at hv3 ⊢
        cases r3 with
        | none => simp at hv3
        | some p3 =>
          obtain ⟨ps, opt, s3⟩ := p3
          simp only [Option.map_some, Option.some.injEq, Prod.mk.injEq] at hv3
          obtain ⟨hps, hopt, hs3⟩ := hv3
          simp only [bind_ok]
          have hident : info.router_identity = some k := by rw [hinfo]
          simp only [hident]
          obtain ⟨r4, h4, hv4⟩ := parseRouterInfoSignatureC_spec k s3 hk1 hl2 h5
          rw [h4]
          rw [hkind, hs3] at hv4
          rw [← hv4]
          cases r4 with
          | none => exact ⟨none, rfl, rfl, by intro _ _ _ h; cases h⟩
          | some p4 =>
            obtain ⟨sg, s4⟩ := p4
            refine ⟨_, rfl, ?_, ?_⟩
            · simp only [bind_ok, pure_eq_ok, Option.bind_some, vRem_some, RI.bytes, hinfo, hib, Option.map_some, hps, hopt,
                hsz]
            · intro i rm n' h
              simp only [bind_ok, pure_eq_ok, Option.some.injEq, Prod.mk.injEq] at h
              exact hbound i rm n' (by rw [← h.1]) h.2.2.symm
      · have hacc' : accepted (readMapping (s2.data.drop 1)) = false := by simpa using hacc
        simp only [hacc', Bool.false_eq_true, if_false, Bool.not_false, if_true] at hv3 ⊢
        cases r3 with
        | some _ => simp at hv3
        | none => exact ⟨none, rfl, rfl, by intro _ _ _ h; cases h⟩

theorem readRouterInfoS_spec (s : Sl) :
    ∃ r, readRouterInfoS s = .ok r ∧ r.bind (fun p => p.1.bytes.map (·, p.2.data)) = readRouterInfo s.data := by
  obtain ⟨r, hr, hv, -⟩ := readRouterInfoS'_spec s
  simp only [readRouterInfoS, hr, bind_ok]
  rw [← hv]
  cases r with
  | none => exact ⟨none, rfl, rfl⟩
  | some p => exact ⟨_, rfl, rfl⟩

end I2P.Checked
