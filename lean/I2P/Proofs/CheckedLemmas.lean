import I2P.Checked
import I2P.Proofs.DataLemmas
import I2P.Proofs.KacLemmas
/-! Lemmas about the checked layer (`I2P/Checked.lean`): each primitive succeeds when its Go bounds
    check holds and then returns the obvious `take`/`drop` of the visible data; each checked mirror
    never panics and returns what the pure model returns.  The property theorems are in `Props/C04.lean`. -/

set_option linter.unusedSimpArgs false

namespace I2P.Checked
open I2P I2P.Spec I2P.Kac

/-! ### monad plumbing -/

@[simp] theorem bind_ok {α β} (a : α) (f : α → Go β) : (Except.ok a >>= f) = f a := rfl
@[simp] theorem bind_error {α β} (e : Panic) (f : α → Go β) : ((Except.error e : Go α) >>= f) = .error e := rfl
@[simp] theorem pure_eq_ok {α} (a : α) : (pure a : Go α) = .ok a := rfl

/-! ### `write` -/

theorem write_eq {a : Bytes} {off : Nat} {v : Bytes} (h : off + v.length ≤ a.length) :
    write a off v = a.take off ++ v ++ a.drop (off + v.length) := by
  simp only [write]
  rw [List.take_of_length_le (l := v) (by omega)]

theorem write_append3 (A D Z : Bytes) (lo : Nat) (v : Bytes) (h : lo + v.length ≤ D.length) :
    write (A ++ D ++ Z) (A.length + lo) v = A ++ write D lo v ++ Z := by
  rw [write_eq (by simp only [List.length_append]; omega), write_eq h]
  have h1 : (A ++ D ++ Z).take (A.length + lo) = A ++ D.take lo := by
    rw [List.append_assoc, List.take_append, List.take_of_length_le (by omega)]
    congr 1
    rw [List.take_append, show A.length + lo - A.length = lo by omega]
    rw [show lo - D.length = 0 by omega]; simp
  have h2 : (A ++ D ++ Z).drop (A.length + lo + v.length) = D.drop (lo + v.length) ++ Z := by
    rw [List.append_assoc, List.drop_append, List.drop_of_length_le (by omega)]
    rw [List.drop_append, show A.length + lo + v.length - A.length = lo + v.length by omega]
    rw [show lo + v.length - D.length = 0 by omega]; simp
  rw [h1, h2]; simp [List.append_assoc]

theorem write_full {a v : Bytes} (h : v.length = a.length) : write a 0 v = v := by
  rw [write_eq (by omega)]; simp [h]

theorem write_tail {a v : Bytes} {off : Nat} (h : off + v.length = a.length) : write a off v = a.take off ++ v := by
  rw [write_eq (by omega)]; simp [h]

theorem write_write_full {a v1 v2 : Bytes} (h : v1.length + v2.length = a.length) :
    write (write a 0 v1) v1.length v2 = v1 ++ v2 := by
  rw [write_tail (by rw [write_length]; omega), write_eq (by omega)]
  simp

/-! ### slices -/

@[simp] theorem Sl.data_length (s : Sl) : s.data.length = s.len := by
  have := s.wf
  simp only [Sl.data, List.length_take, List.length_drop]; omega

@[simp] theorem Sl.ofBytes_data (b : Bytes) : (Sl.ofBytes b).data = b := by simp [Sl.ofBytes, Sl.data]
@[simp] theorem Sl.ofBytes_len (b : Bytes) : (Sl.ofBytes b).len = b.length := rfl
@[simp] theorem Sl.nil_data : Sl.nil.data = [] := rfl
@[simp] theorem Sl.nil_len : Sl.nil.len = 0 := rfl
@[simp] theorem Sl.ilen_eq (s : Sl) : s.ilen = (s.len : Int) := rfl

theorem Sl.len_le_cap (s : Sl) : s.len ≤ s.cap := by have := s.wf; simp only [Sl.cap]; omega

/-- the three-part decomposition of the underlying array -/
theorem Sl.arr_split (s : Sl) : s.arr = s.arr.take s.off ++ s.data ++ s.arr.drop (s.off + s.len) := by
  simp only [Sl.data]
  rw [List.append_assoc, ← List.drop_drop, List.take_append_drop, List.take_append_drop]

/-- total version of `s[lo:hi]`, used to state results -/
def Sl.sub (s : Sl) (lo hi : Nat) : Sl :=
  if h : lo ≤ hi ∧ hi ≤ s.cap then
    ⟨s.arr, s.off + lo, hi - lo, by have := s.wf; simp only [Sl.cap] at h; omega⟩
  else s

theorem slice_eq {s : Sl} {lo hi : Int} (h0 : 0 ≤ lo) (h1 : lo ≤ hi) (h2 : hi ≤ s.len) :
    slice s lo hi = .ok (s.sub lo.toNat hi.toNat) := by
  have := s.len_le_cap
  have hc : 0 ≤ lo ∧ lo ≤ hi ∧ hi ≤ s.cap := by omega
  have hc' : lo.toNat ≤ hi.toNat ∧ hi.toNat ≤ s.cap := by omega
  simp only [slice, Sl.sub, dif_pos hc, dif_pos hc']
  congr 2; omega

theorem sliceTo_eq {s : Sl} {hi : Int} (h1 : 0 ≤ hi) (h2 : hi ≤ s.len) :
    sliceTo s hi = .ok (s.sub 0 hi.toNat) := by
  rw [sliceTo, slice_eq (by omega) h1 h2]; rfl

theorem sliceFrom_eq {s : Sl} {lo : Int} (h0 : 0 ≤ lo) (h1 : lo ≤ s.len) :
    sliceFrom s lo = .ok (s.sub lo.toNat s.len) := by
  rw [sliceFrom, slice_eq h0 h1 (by omega)]; simp

theorem Sl.sub_data {s : Sl} {lo hi : Nat} (h1 : lo ≤ hi) (h2 : hi ≤ s.len) :
    (s.sub lo hi).data = (s.data.drop lo).take (hi - lo) := by
  have := s.len_le_cap
  have hc' : lo ≤ hi ∧ hi ≤ s.cap := by omega
  simp only [Sl.sub, dif_pos hc', Sl.data, List.drop_drop, List.drop_take, List.take_take]
  congr 1; omega

theorem Sl.sub_len {s : Sl} {lo hi : Nat} (h1 : lo ≤ hi) (h2 : hi ≤ s.len) : (s.sub lo hi).len = hi - lo := by
  have := s.len_le_cap
  have hc' : lo ≤ hi ∧ hi ≤ s.cap := by omega
  simp only [Sl.sub, dif_pos hc']

theorem Sl.sub_data_to {s : Sl} {hi : Nat} (h2 : hi ≤ s.len) : (s.sub 0 hi).data = s.data.take hi := by
  rw [Sl.sub_data (by omega) h2]; simp

theorem Sl.sub_data_from {s : Sl} {lo : Nat} (h2 : lo ≤ s.len) : (s.sub lo s.len).data = s.data.drop lo := by
  rw [Sl.sub_data h2 (by omega)]
  exact List.take_of_length_le (by simp)

theorem Sl.sub_full (s : Sl) : s.sub 0 s.len = s := by
  have := s.len_le_cap
  have hc' : 0 ≤ s.len ∧ s.len ≤ s.cap := by omega
  simp only [Sl.sub, dif_pos hc']; rfl

/-- the zero-filled result of `make([]byte, n)` -/
def Sl.zeros (n : Nat) : Sl := ⟨List.replicate n 0, 0, n, by simp⟩

theorem mk_eq {n : Int} (h : 0 ≤ n) : mk n = .ok (Sl.zeros n.toNat) := by simp [mk, h, Sl.zeros]
@[simp] theorem Sl.zeros_len (n : Nat) : (Sl.zeros n).len = n := rfl
@[simp] theorem Sl.zeros_data (n : Nat) : (Sl.zeros n).data = List.replicate n 0 := by simp [Sl.zeros, Sl.data]

@[simp] theorem copy_len (dst src : Sl) : (copy dst src).len = dst.len := rfl

theorem copy_data (dst src : Sl) : (copy dst src).data = write dst.data 0 (src.data.take dst.len) := by
  have hl : (src.data.take dst.len).length ≤ dst.data.length := by simp; omega
  have := write_append3 (dst.arr.take dst.off) dst.data (dst.arr.drop (dst.off + dst.len)) 0
    (src.data.take dst.len) (by omega)
  have hA : (dst.arr.take dst.off).length = dst.off := by have := dst.wf; simp; omega
  rw [← dst.arr_split, hA] at this
  simp only [copy, Sl.data] at *
  rw [Nat.add_zero] at this
  rw [this, List.append_assoc, List.drop_append, List.drop_of_length_le (by omega)]
  simp only [hA, Nat.sub_self, List.drop_zero, List.nil_append]
  rw [List.take_append, List.take_of_length_le (by rw [write_length]; simp; have := dst.wf; omega)]
  simp [write_length]; have := dst.wf; omega

/-- `copy` into a fresh `make`d slice of at most the source length: the prefix of the source -/
theorem copy_zeros_data {n : Nat} {src : Sl} (h : n ≤ src.len) : (copy (Sl.zeros n) src).data = src.data.take n := by
  rw [copy_data]; exact write_full (by simp; omega)

/-- total version of "`p` after `copy(p[lo:…], v)`" -/
def Sl.wr (p : Sl) (lo : Nat) (v : Bytes) : Sl :=
  ⟨write p.arr (p.off + lo) v, p.off, p.len, by rw [write_length]; exact p.wf⟩

@[simp] theorem Sl.wr_len (p : Sl) (lo : Nat) (v : Bytes) : (p.wr lo v).len = p.len := rfl

theorem Sl.wr_data {p : Sl} {lo : Nat} {v : Bytes} (h : lo + v.length ≤ p.len) :
    (p.wr lo v).data = write p.data lo v := by
  have hA : (p.arr.take p.off).length = p.off := by have := p.wf; simp; omega
  have := write_append3 (p.arr.take p.off) p.data (p.arr.drop (p.off + p.len)) lo v (by simpa using h)
  rw [← p.arr_split, hA] at this
  simp only [Sl.wr, Sl.data] at *
  rw [this, List.append_assoc, List.drop_append, List.drop_of_length_le (by omega)]
  simp only [hA, Nat.sub_self, List.drop_zero, List.nil_append]
  rw [List.take_append, List.take_of_length_le (by rw [write_length]; simp; have := p.wf; omega)]
  simp [write_length]; have := p.wf; omega

theorem copyAt_eq {p : Sl} {lo hi : Int} {src : Sl} (h0 : 0 ≤ lo) (h1 : lo ≤ hi) (h2 : hi ≤ p.len) :
    copyAt p lo hi src = .ok (p.wr lo.toNat (src.data.take (hi - lo).toNat)) := by
  have := p.len_le_cap
  have hc' : lo.toNat ≤ hi.toNat ∧ hi.toNat ≤ p.cap := by omega
  simp only [copyAt, slice_eq h0 h1 h2, bind_ok, Sl.wr, Sl.sub, dif_pos hc']
  congr 4; omega

theorem copyFrom_eq {p : Sl} {lo : Int} {src : Sl} (h0 : 0 ≤ lo) (h1 : lo ≤ p.len) :
    copyFrom p lo src = .ok (p.wr lo.toNat (src.data.take (p.len - lo.toNat))) := by
  rw [copyFrom, copyAt_eq h0 h1 (by omega)]; congr 3; omega

theorem copyTo_eq {p : Sl} {hi : Int} {src : Sl} (h0 : 0 ≤ hi) (h1 : hi ≤ p.len) :
    copyTo p hi src = .ok (p.wr 0 (src.data.take hi.toNat)) := by
  rw [copyTo, copyAt_eq (by omega) h0 h1]; simp

theorem index_eq {s : Sl} {i : Int} (h0 : 0 ≤ i) (h1 : i < s.len) : index s i = .ok (s.data.getD i.toNat 0) := by
  simp [index, h0, h1]

theorem beUint16_eq {b : Sl} (h : 2 ≤ b.len) : beUint16 b = .ok (beVal (b.data.take 2)) := by
  simp [beUint16, index_eq (s := b) (i := 1) (by omega) (by omega)]
theorem beUint32_eq {b : Sl} (h : 4 ≤ b.len) : beUint32 b = .ok (beVal (b.data.take 4)) := by
  simp [beUint32, index_eq (s := b) (i := 3) (by omega) (by omega)]
theorem beUint64_eq {b : Sl} (h : 8 ≤ b.len) : beUint64 b = .ok (beVal (b.data.take 8)) := by
  simp [beUint64, index_eq (s := b) (i := 7) (by omega) (by omega)]


/-! ### data/integer.go -/

theorem readIntegerC_eq (s : Sl) (size : Int) :
    readIntegerC s size = .ok (if size ≤ 0 ∨ size > 8 then (none, s)
      else if (s.len : Int) < size then (some s, Sl.nil)
      else (some (s.sub 0 size.toNat), s.sub size.toNat s.len)) := by
  unfold readIntegerC
  by_cases h1 : size ≤ 0 ∨ size > 8
  · simp [h1]
  · by_cases h2 : (s.len : Int) < size
    · simp [h1, h2]
    · simp only [h1, h2, if_false, Sl.ilen_eq]
      rw [sliceTo_eq (by omega) (by omega), sliceFrom_eq (by omega) (by omega)]
      rfl

theorem beVal_zeros_append (n : Nat) (b : Bytes) : beVal (List.replicate n 0 ++ b) = beVal b := by
  induction n with
  | zero => simp
  | succ n ih =>
    rw [List.replicate_succ, List.cons_append]
    simp only [beVal, List.foldl_cons] at *
    simpa using ih

theorem intFromBytesC_eq (s : Sl) : intFromBytesC s = .ok (intFromBytes s.data) := by
  unfold intFromBytesC intFromBytes
  by_cases h0 : s.len = 0
  · simp [h0]
  · by_cases h8 : s.len < 8
    · have h8' : (s.len : Int) < 8 := by omega
      have h0' : ¬ (s.len : Int) = 0 := by omega
      simp only [Sl.ilen_eq, h0', if_false, h8', if_true, Sl.data_length, h0, h8]
      rw [mk_eq (by omega)]
      simp only [bind_ok]
      rw [copyFrom_eq (by omega) (by simp; omega)]
      simp only [bind_ok]
      rw [beUint64_eq (by simp)]
      simp only [bind_ok, pure_eq_ok]
      rw [Sl.wr_data (by simp; omega)]
      simp only [Sl.zeros_data, Sl.zeros_len]
      rw [write_tail (by simp; omega)]
      have hk : (8 - (s.len : Int)).toNat = 8 - s.len := by omega
      have : List.take (8 - (8 - (s.len : Int)).toNat) s.data = s.data := List.take_of_length_le (by simp; omega)
      simp only [Int.reduceToNat, hk] at this ⊢
      rw [this, List.take_of_length_le (by simp; omega), List.take_replicate, beVal_zeros_append]
      have hlt := beVal_lt s.data
      have : beVal s.data < 2^63 := by
        have : 256 ^ s.data.length ≤ 256 ^ 7 := Nat.pow_le_pow_right (by omega) (by simp; omega)
        have : (256:Nat)^7 < 2^63 := by decide
        omega
      rw [toI _ this]
    · have h8' : ¬ (s.len : Int) < 8 := by omega
      have h0' : ¬ (s.len : Int) = 0 := by omega
      simp only [Sl.ilen_eq, h0', if_false, h8', Sl.data_length, h0, h8]
      simp only [pure_eq_ok, bind_ok]
      rw [beUint64_eq (by omega)]
      rfl

theorem integerIntC_eq (s : Sl) : integerIntC s = .ok (integerInt s.data) := by
  unfold integerIntC integerInt
  rw [slice_eq (by omega) (by simp) (by simp)]
  simp only [bind_ok, Int.toNat_zero, Sl.ilen_eq, Int.toNat_natCast, Sl.sub_full, intFromBytesC_eq]
  cases intFromBytes s.data <;> rfl


@[simp] theorem vRem_none {α : Type} : vRem (none : Option (α × Sl)) = none := rfl
@[simp] theorem vRem_some {α : Type} (a : α) (s : Sl) : vRem (some (a, s)) = some (a, s.data) := rfl

theorem integerInt_short {b : Bytes} (h1 : 1 ≤ b.length) (h7 : b.length ≤ 7) : integerInt b = (beVal b : Int) := by
  have h0 : ¬ b.length = 0 := by omega
  have h8 : b.length < 8 := by omega
  simp [integerInt, intFromBytes, h0, h8]

theorem integerInt_nil : integerInt [] = 0 := rfl

/-! ### data/string.go -/

theorem readStrS_spec (s : Sl) :
    ∃ str rem, readStrS s = .ok (str, rem, (readStr s.data).2.2.map StrErrC.ofPure) ∧
      str.data = (readStr s.data).1 ∧ rem.data = (readStr s.data).2.1 := by
  have hl := s.data_length
  unfold readStrS
  generalize hd : s.data = d at hl
  cases d with
  | nil =>
    simp at hl
    refine ⟨Sl.nil, Sl.nil, ?_, rfl, rfl⟩
    simp [validateI2PStringDataC, ← hl, readStr, StrErrC.ofPure]
  | cons l rest =>
    simp only [List.length_cons] at hl
    have hv : validateI2PStringDataC s = true := by simp [validateI2PStringDataC]; omega
    have hp : parseI2PStringLengthC s = .ok (some (l.toNat : Int)) := by
      unfold parseI2PStringLengthC
      rw [readIntegerC_eq]
      have : ¬ ((s.len : Int) < 1) := by omega
      simp only [this, if_false, bind_ok, pure_eq_ok, integerIntC_eq]
      simp only [Int.reduceToNat, show ¬ ((1:Int) ≤ 0 ∨ (1:Int) > 8) by omega, if_false]
      rw [Sl.sub_data_to (by omega), hd, integerInt_short (by simp) (by simp)]
      simp [beVal_singleton]
    simp only [hv, hp, bind_ok, Bool.not_true, Bool.false_eq_true, if_false]
    by_cases hs : l.toNat ≤ rest.length
    · have hv2 : validateI2PStringDataLengthC s (l.toNat : Int) = true := by
        simp [validateI2PStringDataLengthC]; omega
      simp only [hv2, Bool.not_true, Bool.false_eq_true, if_false, extractI2PStringDataC]
      rw [sliceTo_eq (by omega) (by omega), sliceFrom_eq (by omega) (by omega)]
      have hk : ((l.toNat : Int) + 1).toNat = l.toNat + 1 := by omega
      simp only [bind_ok, pure_eq_ok, hk]
      refine ⟨s.sub 0 (l.toNat + 1), s.sub (l.toNat + 1) s.len, ?_, ?_, ?_⟩
      · congr 3
        have : (s.sub 0 (l.toNat + 1)).len = l.toNat + 1 := by rw [Sl.sub_len (by omega) (by omega)]; rfl
        simp [verifyI2PStringLengthC, this, readStr, hs]
        omega
      · rw [Sl.sub_data_to (by omega), hd]; simp [readStr, hs]
      · rw [Sl.sub_data_from (by omega), hd]; simp [readStr, hs]
    · have hv2 : validateI2PStringDataLengthC s (l.toNat : Int) = false := by
        simp [validateI2PStringDataLengthC]; omega
      simp only [hv2, Bool.not_false, if_true, pure_eq_ok]
      exact ⟨s, Sl.nil, by simp [readStr, hs, StrErrC.ofPure], by simp [readStr, hs, hd], by simp [readStr, hs]⟩

/-! ### data/date.go, data/hash.go -/

theorem readDateS_spec (s : Sl) : ∃ r, readDateS s = .ok r ∧ vRem r = readDate s.data := by
  unfold readDateS readDate
  by_cases h : s.len < 8
  · have h' : (s.len : Int) < 8 := by omega
    exact ⟨none, by simp [h'], by simp [h]⟩
  · have h' : ¬ (s.len : Int) < 8 := by omega
    simp only [Sl.ilen_eq, h', if_false, Sl.data_length, h]
    rw [mk_eq (by omega), sliceTo_eq (by omega) (by omega), sliceFrom_eq (by omega) (by omega)]
    simp only [bind_ok, integerIntC_eq, pure_eq_ok, Int.reduceToNat]
    refine ⟨_, rfl, ?_⟩
    simp only [vRem_some]
    rw [copy_zeros_data (by rw [Sl.sub_len (by omega) (by omega)]; omega), Sl.sub_data_to (by omega),
      Sl.sub_data_from (by omega), List.take_take]
    simp

theorem readHashS_spec (s : Sl) : ∃ r, readHashS s = .ok r ∧ vRem r = readHash s.data := by
  unfold readHashS readHash
  by_cases h : s.len < 32
  · have h' : (s.len : Int) < 32 := by omega
    exact ⟨none, by simp [h'], by simp [h]⟩
  · have h' : ¬ (s.len : Int) < 32 := by omega
    simp only [Sl.ilen_eq, h', if_false, Sl.data_length, h]
    rw [mk_eq (by omega), sliceTo_eq (by omega) (by omega), sliceFrom_eq (by omega) (by omega)]
    simp only [bind_ok, pure_eq_ok, Int.reduceToNat]
    refine ⟨_, rfl, ?_⟩
    simp only [vRem_some]
    rw [copy_zeros_data (by rw [Sl.sub_len (by omega) (by omega)]; omega), Sl.sub_data_to (by omega),
      Sl.sub_data_from (by omega), List.take_take]
    simp


/-! ### certificate -/

/-- the certificate fields as `handleValidCertificateData` copies them out of a buffer of ≥ 3 bytes -/
def certOf (w : Bytes) : Cert := { kind := w.take 1, len := (w.drop 1).take 2, payload := w.drop 3 }

theorem certOf_declared (w : Bytes) : (certOf w).declared = beVal ((w.drop 1).take 2) := rfl

theorem integerInt_len2 {w : Bytes} (h : 3 ≤ w.length) :
    integerInt ((w.drop 1).take 2) = (beVal ((w.drop 1).take 2) : Int) :=
  integerInt_short (by simp; omega) (by simp; omega)

theorem integerInt_kind1 {w : Bytes} (h : 3 ≤ w.length) : integerInt (w.take 1) = (beVal (w.take 1) : Int) :=
  integerInt_short (by simp; omega) (by simp; omega)

theorem validateCertificatePayloadLengthC_eq (s : Sl) (h : 3 ≤ s.len) :
    validateCertificatePayloadLengthC (certOf s.data) s = .ok (decide ((certOf s.data).declared ≤ s.len - 3)) := by
  unfold validateCertificatePayloadLengthC
  have hl : 3 ≤ s.data.length := by simpa using h
  simp only [integerIntC_eq, Sl.ofBytes_data, bind_ok, certOf, integerInt_len2 hl, Sl.ilen_eq, Cert.declared]
  by_cases hd : beVal ((s.data.drop 1).take 2) ≤ s.len - 3
  · have : ¬ ((s.len : Int) - 3 < (beVal ((s.data.drop 1).take 2) : Int)) := by omega
    simp only [gt_iff_lt, this, if_false, hd, decide_true, pure_eq_ok]
  · have : ((s.len : Int) - 3 < (beVal ((s.data.drop 1).take 2) : Int)) := by omega
    simp only [gt_iff_lt, this, if_true, hd, decide_false]
    rw [slice_eq (by omega) (by omega) (by omega), slice_eq (by omega) (by omega) (by omega)]
    rfl

theorem handleValidCertificateDataC_eq (s : Sl) (h : 3 ≤ s.len) :
    handleValidCertificateDataC s = .ok (certOf s.data, decide ((certOf s.data).declared ≤ s.len - 3)) := by
  simp only [handleValidCertificateDataC]
  rw [mk_eq (by omega), mk_eq (by omega), mk_eq (by simp; omega), slice_eq (by omega) (by omega) (by omega),
    slice_eq (by omega) (by omega) (by omega), sliceFrom_eq (by omega) (by omega)]
  simp only [bind_ok, Int.reduceToNat, Int.reduceSub, Sl.ilen_eq]
  have hk : ((s.len : Int) - 3).toNat = s.len - 3 := by omega
  have e1 : (copy (Sl.zeros 1) (s.sub 0 1)).data = s.data.take 1 := by
    rw [copy_zeros_data (by rw [Sl.sub_len (by omega) (by omega)]; omega), Sl.sub_data_to (by omega), List.take_take]; rfl
  have e2 : (copy (Sl.zeros 2) (s.sub 1 3)).data = (s.data.drop 1).take 2 := by
    rw [copy_zeros_data (by rw [Sl.sub_len (by omega) (by omega)]; omega), Sl.sub_data (by omega) (by omega), List.take_take]; rfl
  have e3 : (copy (Sl.zeros (s.len - 3)) (s.sub 3 s.len)).data = s.data.drop 3 := by
    rw [copy_zeros_data (by rw [Sl.sub_len (by omega) (by omega)]; omega), Sl.sub_data_from (by omega)]
    exact List.take_of_length_le (by simp)
  rw [hk, e1, e2, e3]
  have := validateCertificatePayloadLengthC_eq s h
  simp only [certOf] at this ⊢
  rw [this]
  simp only [bind_ok, integerIntC_eq, pure_eq_ok]
  by_cases hd : (Cert.declared { kind := s.data.take 1, len := (s.data.drop 1).take 2, payload := s.data.drop 3 }) ≤ s.len - 3
  · simp only [hd, decide_true, Bool.not_true, Bool.false_eq_true, if_false]
  · simp only [hd, decide_false, Bool.not_false, if_true]

theorem parseCertificateFromDataC_short (s : Sl) (h : s.len < 3) : ∃ c, parseCertificateFromDataC s = .ok (c, false) := by
  unfold parseCertificateFromDataC
  by_cases h0 : s.len = 0
  · simp [h0, handleEmptyCertificateDataC, integerIntC_eq]
  · have h0' : ¬ (s.len : Int) = 0 := by omega
    have h12 : (s.len : Int) = 1 ∨ (s.len : Int) = 2 := by omega
    simp only [Sl.ilen_eq, h0', if_false, h12, if_true, handleShortCertificateDataC]
    have h1 : (s.len : Int) ≥ 1 := by omega
    simp only [h1, if_true]
    rw [sliceTo_eq (by omega) (by omega)]
    by_cases h2 : (s.len : Int) ≥ 2
    · simp only [h2, if_true]
      rw [sliceFrom_eq (by omega) (by omega)]
      simp [integerIntC_eq]
    · simp [h2, integerIntC_eq]

theorem parseCertificateFromDataC_valid (s : Sl) (h : 3 ≤ s.len) :
    parseCertificateFromDataC s = .ok (certOf s.data, decide ((certOf s.data).declared ≤ s.len - 3)) := by
  unfold parseCertificateFromDataC
  have h0' : ¬ (s.len : Int) = 0 := by omega
  have h12 : ¬ ((s.len : Int) = 1 ∨ (s.len : Int) = 2) := by omega
  simp only [Sl.ilen_eq, h0', if_false, h12, handleValidCertificateDataC_eq s h]

theorem certIsValidC_certOf {w : Bytes} (h : 3 ≤ w.length) : certIsValidC (certOf w) = true := by
  have h1 : (w.take 1).length ≠ 0 := by rw [List.length_take]; omega
  have h2 : ((w.drop 1).take 2).length ≠ 0 := by rw [List.length_take, List.length_drop]; omega
  simp only [certIsValidC, certOf, ne_eq, h1, h2, not_false_eq_true, decide_true, Bool.and_self]

theorem certLengthC_certOf {w : Bytes} (h : 3 ≤ w.length) :
    certLengthC (certOf w) = .ok (3 + (min (w.length - 3) (certOf w).declared : Nat)) := by
  unfold certLengthC
  simp only [certIsValidC_certOf h, Bool.not_true, Bool.false_eq_true, if_false, integerIntC_eq, Sl.ofBytes_data, bind_ok,
    pure_eq_ok]
  simp only [certOf, integerInt_len2 h, Cert.declared, List.length_drop]
  congr 2
  split <;> omega

theorem readCertS_spec (s : Sl) : ∃ r, readCertS s = .ok r ∧ vRem r = readCert s.data := by
  unfold readCertS
  by_cases h : s.len < 3
  · obtain ⟨c, hc⟩ := parseCertificateFromDataC_short s h
    refine ⟨none, by simp [hc], ?_⟩
    rw [readCert_eq]; simp [h]
  · have h3 : 3 ≤ s.len := by omega
    have hl : 3 ≤ s.data.length := by simpa using h3
    rw [parseCertificateFromDataC_valid s h3]
    simp only [bind_ok]
    by_cases hd : (certOf s.data).declared ≤ s.len - 3
    · simp only [hd, decide_true, Bool.not_true, Bool.false_eq_true, if_false, validateTypeSpecificPayloadC, integerIntC_eq,
        bind_ok, pure_eq_ok, calculateRemainderC, certLengthC_certOf hl, Sl.ilen_eq]
      have hm : min (s.data.length - 3) (certOf s.data).declared = (certOf s.data).declared := by
        simp only [Sl.data_length]; omega
      have hr : readCert s.data = some (certOf s.data, s.data.drop (3 + (certOf s.data).declared)) := by
        rw [readCert_eq]
        have : ¬ s.data.length < 3 := by omega
        have h2 : ¬ beVal ((s.data.drop 1).take 2) > s.data.length - 3 := by
          rw [← certOf_declared]; simp only [Sl.data_length]; omega
        simp only [this, if_false, h2]; rfl
      rw [hm, hr]
      by_cases hg : (s.len : Int) > 3 + ((certOf s.data).declared : Nat)
      · simp only [hg, if_true]
        rw [sliceFrom_eq (by omega) (by omega)]
        refine ⟨_, rfl, ?_⟩
        simp only [vRem_some]
        rw [Sl.sub_data_from (by omega)]
        congr 3
      · simp only [hg, if_false, bind_ok]
        refine ⟨_, rfl, ?_⟩
        simp only [vRem_some, Sl.nil_data]
        congr 2
        symm
        exact List.drop_of_length_le (by simp only [Sl.data_length]; omega)
    · refine ⟨none, by simp [hd], ?_⟩
      rw [readCert_eq]
      have h2 : beVal ((s.data.drop 1).take 2) > s.data.length - 3 := by
        rw [← certOf_declared]; simp only [Sl.data_length]; omega
      have h0 : ¬ s.data.length < 3 := by omega
      simp only [h0, if_false, h2, if_true, vRem_none]


/-! ### key certificate -/

theorem certIsValidC_of {c : Cert} (hk : c.kind.length = 1) (hl : c.len.length = 2) : certIsValidC c = true := by
  simp [certIsValidC, hk, hl]

theorem certTypeC_eq {c : Cert} (hk : c.kind.length = 1) (hl : c.len.length = 2) :
    certTypeC c = .ok (some (c.type : Int)) := by
  simp only [certTypeC, certIsValidC_of hk hl, Bool.not_true, Bool.false_eq_true, if_false, integerIntC_eq, Sl.ofBytes_data,
    bind_ok, integerInt_short (b := c.kind) (by omega) (by omega), Cert.type]
  have := beVal_lt c.kind
  rw [hk] at this
  have h : ¬ ((beVal c.kind : Int) < 0 ∨ (beVal c.kind : Int) > 255) := by omega
  simp only [h, if_false, pure_eq_ok]

theorem certLengthFieldC_eq {c : Cert} (hk : c.kind.length = 1) (hl : c.len.length = 2) :
    certLengthFieldC c = .ok (some (c.declared : Int)) := by
  simp only [certLengthFieldC, certIsValidC_of hk hl, Bool.not_true, Bool.false_eq_true, if_false, integerIntC_eq,
    Sl.ofBytes_data, bind_ok, integerInt_short (b := c.len) (by omega) (by omega), Cert.declared]
  have := beVal_lt c.len
  rw [hl] at this
  have h : ¬ ((beVal c.len : Int) < 0 ∨ (beVal c.len : Int) > 65535) := by omega
  simp only [h, if_false, pure_eq_ok]

theorem certDataC_spec {c : Cert} (hk : c.kind.length = 1) (hl : c.len.length = 2) :
    ∃ d, certDataC c = .ok (some d) ∧ d.data = c.data := by
  simp only [certDataC, certLengthFieldC_eq hk hl, bind_ok, Sl.ilen_eq, Sl.ofBytes_len, gt_iff_lt]
  by_cases h : (c.payload.length : Int) < (c.declared : Int)
  · simp only [h, if_true, pure_eq_ok]
    exact ⟨_, rfl, by simp only [Sl.ofBytes_data, Cert.data]; exact (List.take_of_length_le (by omega)).symm⟩
  · simp only [h, if_false]
    rw [slice_eq (by omega) (by omega) (by simp only [Sl.ofBytes_len]; omega)]
    refine ⟨_, rfl, ?_⟩
    simp only [Int.toNat_zero, Int.toNat_natCast]
    rw [Sl.sub_data_to (by simp only [Sl.ofBytes_len]; omega), Sl.ofBytes_data]; rfl

theorem validateKeyCertificateTypeC_eq {c : Cert} (hk : c.kind.length = 1) (hl : c.len.length = 2) :
    validateKeyCertificateTypeC c = .ok (decide (c.type = 5)) := by
  simp only [validateKeyCertificateTypeC, certTypeC_eq hk hl, bind_ok, pure_eq_ok]
  congr 1
  by_cases h : c.type = 5
  · simp [h]
  · have : ¬ (c.type : Int) = 5 := by omega
    simp [h, this]

theorem validateKeyCertificateDataLengthC_eq (d : Sl) :
    validateKeyCertificateDataLengthC d = .ok (decide (4 ≤ d.len)) := by
  simp only [validateKeyCertificateDataLengthC, Sl.ilen_eq]
  by_cases h : 4 ≤ d.len
  · have : ¬ (d.len : Int) < 4 := by omega
    simp only [this, if_false, h, decide_true]
    rw [slice_eq (by omega) (by omega) (by omega), slice_eq (by omega) (by omega) (by omega)]; rfl
  · have : (d.len : Int) < 4 := by omega
    simp only [this, if_true, h, decide_false, pure_eq_ok]

theorem integerIntC'_some (s : Sl) : integerIntC' (some s) = .ok (integerInt s.data) := by
  simp [integerIntC', integerIntC_eq]

theorem extractKeyTypesC_eq (d : Sl) (h : 4 ≤ d.len) :
    extractKeyTypesC d = .ok (some ((d.sub 0 2).sub 0 2), some ((d.sub 2 4).sub 0 2)) := by
  simp only [extractKeyTypesC]
  rw [slice_eq (by omega) (by omega) (by omega), slice_eq (by omega) (by omega) (by omega)]
  have l1 : (d.sub 0 2).len = 2 := by rw [Sl.sub_len (by omega) (by omega)]
  have l2 : (d.sub 2 4).len = 2 := by rw [Sl.sub_len (by omega) (by omega)]
  simp only [bind_ok, Int.reduceToNat, readIntegerC_eq, l1, l2]
  simp only [show ¬ ((2:Int) ≤ 0 ∨ (2:Int) > 8) by omega, show ¬ (((2:Nat):Int) < 2) by omega, if_false, bind_ok,
    integerIntC'_some, pure_eq_ok]

theorem sub_sub_data_a (d : Sl) (h : 4 ≤ d.len) : ((d.sub 0 2).sub 0 2).data = d.data.take 2 := by
  have l1 : (d.sub 0 2).len = 2 := by rw [Sl.sub_len (by omega) (by omega)]
  rw [Sl.sub_data_to (by omega), Sl.sub_data_to (by omega), List.take_take]; rfl

theorem sub_sub_data_b (d : Sl) (h : 4 ≤ d.len) : ((d.sub 2 4).sub 0 2).data = (d.data.drop 2).take 2 := by
  have l1 : (d.sub 2 4).len = 2 := by rw [Sl.sub_len (by omega) (by omega)]
  rw [Sl.sub_data_to (by omega), Sl.sub_data (by omega) (by omega), List.take_take]; rfl

theorem newKeyCertS_spec (s : Sl) : ∃ r, newKeyCertS s = .ok r ∧ vRem r = newKeyCert s.data := by
  obtain ⟨r, hr, hv⟩ := readCertS_spec s
  simp only [newKeyCertS, hr, bind_ok, newKeyCert, ← hv]
  cases r with
  | none => exact ⟨none, rfl, rfl⟩
  | some p =>
    obtain ⟨c, rem⟩ := p
    simp only [vRem_some] at hv ⊢
    obtain ⟨h3, hc, -, -⟩ := readCert_some.mp hv.symm
    have hk : c.kind.length = 1 := by rw [hc]; simp only [List.length_take]; omega
    have hl : c.len.length = 2 := by rw [hc]; simp only [List.length_take, List.length_drop]; omega
    simp only [validateKeyCertificateTypeC_eq hk hl, bind_ok]
    by_cases ht : c.type = 5
    · simp only [ht, decide_true, Bool.not_true, Bool.false_eq_true, if_false, ne_eq, not_true_eq_false]
      obtain ⟨d, hd, hdd⟩ := certDataC_spec hk hl
      simp only [hd, bind_ok, validateKeyCertificateDataLengthC_eq]
      have hdl : d.len = c.data.length := by rw [← hdd]; simp
      by_cases h4 : 4 ≤ d.len
      · have h4' : ¬ c.data.length < 4 := by omega
        simp only [h4, decide_true, Bool.not_true, Bool.false_eq_true, if_false, h4', extractKeyTypesC_eq d h4, bind_ok,
          validatePayloadLengthAgainstKeyTypesC, buildKeyCertificateC, integerIntC'_some, pure_eq_ok,
          sub_sub_data_a d h4, sub_sub_data_b d h4, hdd]
        refine ⟨_, rfl, ?_⟩
        simp only [vRem_some]
        rw [integerInt_short (by simp only [List.length_take]; omega) (by simp only [List.length_take]; omega),
          integerInt_short (by simp only [List.length_take, List.length_drop]; omega)
            (by simp only [List.length_take, List.length_drop]; omega)]
        simp only [Int.toNat_natCast]
      · have h4' : c.data.length < 4 := by omega
        simp only [h4, decide_false, Bool.not_false, if_true, h4', pure_eq_ok]
        exact ⟨none, rfl, rfl⟩
    · simp only [ht, decide_false, Bool.not_false, if_true, ne_eq, not_false_eq_true, pure_eq_ok]
      exact ⟨none, rfl, rfl⟩


/-! ### keys and cert -/

theorem cryptoConstructible_iff (c : Nat) : cryptoConstructible c = true ↔ c = 0 ∨ c = 4 ∨ c = 5 ∨ c = 6 ∨ c = 7 :=
  ⟨cryptoConstructible_cases, by rintro (rfl | rfl | rfl | rfl | rfl) <;> rfl⟩

theorem sigConstructible_iff (c : Nat) : sigConstructible c = true ↔ c = 0 ∨ c = 1 ∨ c = 2 ∨ c = 7 ∨ c = 8 ∨ c = 11 :=
  ⟨sigConstructible_cases, by rintro (rfl | rfl | rfl | rfl | rfl | rfl) <;> rfl⟩

theorem constructPublicKeyC_eq (kc : KeyCert) (d : Sl) (h : 256 ≤ d.len) :
    constructPublicKeyC kc d =
      .ok (if cryptoConstructible kc.cpk = true then some (d.data.take (cryptoSize kc.cpk)) else none) := by
  have hl : ¬ (d.len : Int) < 256 := by omega
  simp only [constructPublicKeyC, Sl.ilen_eq, hl, if_false]
  by_cases h0 : kc.cpk = 0
  · have : ((kc.cpk : Nat) : Int) = 0 := by omega
    simp only [this, if_true, h0]
    rw [mk_eq (by omega), slice_eq (by omega) (by omega) (by omega)]
    simp only [bind_ok, pure_eq_ok, Int.reduceToNat]
    rw [copy_zeros_data (by rw [Sl.sub_len (by omega) (by omega)]; omega), Sl.sub_data_to (by omega), List.take_take]
    rfl
  · have n0 : ¬ ((kc.cpk : Nat) : Int) = 0 := by omega
    simp only [n0, if_false]
    by_cases h4 : kc.cpk = 4 ∨ kc.cpk = 5 ∨ kc.cpk = 6 ∨ kc.cpk = 7
    · have : ((kc.cpk : Nat) : Int) = 4 ∨ ((kc.cpk : Nat) : Int) = 5 ∨ ((kc.cpk : Nat) : Int) = 6 ∨ ((kc.cpk : Nat) : Int) = 7 := by omega
      have hc : cryptoConstructible kc.cpk = true := (cryptoConstructible_iff _).mpr (Or.inr h4)
      have hs : cryptoSize kc.cpk = 32 := by rcases h4 with h | h | h | h <;> rw [h] <;> rfl
      simp only [this, if_true, hc, hs]
      rw [mk_eq (by omega), slice_eq (by omega) (by omega) (by omega)]
      simp only [bind_ok, pure_eq_ok, Int.reduceToNat]
      rw [copy_zeros_data (by rw [Sl.sub_len (by omega) (by omega)]; omega), Sl.sub_data_to (by omega), List.take_take]
      rfl
    · have : ¬ (((kc.cpk : Nat) : Int) = 4 ∨ ((kc.cpk : Nat) : Int) = 5 ∨ ((kc.cpk : Nat) : Int) = 6 ∨ ((kc.cpk : Nat) : Int) = 7) := by omega
      have hc : ¬ cryptoConstructible kc.cpk = true := by rw [cryptoConstructible_iff]; omega
      simp only [this, if_false, hc, pure_eq_ok, Bool.false_eq_true]

theorem constructPublicKeyFromCertC_eq (kc : KeyCert) (s : Sl) (h : 256 ≤ s.len) :
    constructPublicKeyFromCertC kc s =
      .ok (if cryptoConstructible kc.cpk = true then some (s.data.take (cryptoSize kc.cpk)) else none) := by
  have hl : ¬ (s.len : Int) < 256 := by omega
  simp only [constructPublicKeyFromCertC, Sl.ilen_eq, hl, if_false]
  by_cases hc : cryptoConstructible kc.cpk = true
  · have hs := cryptoSize_of_constructible hc
    have : ¬ ((cryptoSize kc.cpk : Nat) : Int) = 0 := by omega
    simp only [this, if_false, hc, if_true]
    rw [sliceTo_eq (by omega) (by omega)]
    simp only [bind_ok, Int.reduceToNat]
    rw [constructPublicKeyC_eq _ _ (by rw [Sl.sub_len (by omega) (by omega)]; omega)]
    simp only [hc, if_true]
    rw [Sl.sub_data_to (by omega), List.take_take]
    congr 3; omega
  · simp only [hc, if_false, Bool.false_eq_true]
    by_cases h0 : ((cryptoSize kc.cpk : Nat) : Int) = 0
    · simp only [h0, if_true, pure_eq_ok]
    · simp only [h0, if_false]
      rw [sliceTo_eq (by omega) (by omega)]
      simp only [bind_ok, Int.reduceToNat]
      rw [constructPublicKeyC_eq _ _ (by rw [Sl.sub_len (by omega) (by omega)]; omega)]
      simp only [hc, if_false, Bool.false_eq_true]

theorem constructPaddedKeyC_eq (keySize : Nat) (d : Sl) (hk : keySize ≤ 128) :
    constructPaddedKeyC keySize d = .ok (if d.len < keySize then none else
      some (if 128 ≤ d.len then (d.data.drop (128 - keySize)).take keySize else d.data.take keySize)) := by
  simp only [constructPaddedKeyC, Sl.ilen_eq]
  by_cases h : d.len < keySize
  · have : (d.len : Int) < (keySize : Int) := by omega
    simp only [this, if_true, h, pure_eq_ok]
  · have : ¬ (d.len : Int) < (keySize : Int) := by omega
    simp only [this, if_false, h]
    rw [mk_eq (by omega)]
    simp only [bind_ok, Int.toNat_natCast, ge_iff_le]
    by_cases h128 : 128 ≤ d.len
    · have : (128 : Int) ≤ (d.len : Int) := by omega
      simp only [this, if_true, h128]
      rw [slice_eq (by omega) (by omega) (by omega)]
      simp only [bind_ok, pure_eq_ok, Int.reduceToNat]
      have e : (128 - (keySize : Int)).toNat = 128 - keySize := by omega
      rw [e, copy_zeros_data (by rw [Sl.sub_len (by omega) (by omega)]; omega), Sl.sub_data (by omega) (by omega), List.take_take]
      congr 3; omega
    · have : ¬ (128 : Int) ≤ (d.len : Int) := by omega
      simp only [this, if_false, h128]
      rw [sliceTo_eq (by omega) (by omega)]
      simp only [bind_ok, pure_eq_ok, Int.toNat_natCast]
      rw [copy_zeros_data (by rw [Sl.sub_len (by omega) (by omega)]; omega), Sl.sub_data_to (by omega), List.take_take]
      congr 3; omega

theorem constructEd25519KeyC_eq (d : Sl) :
    constructEd25519KeyC d = .ok (if d.len = 32 then some d.data else none) := by
  simp only [constructEd25519KeyC, Sl.ilen_eq]
  by_cases h : d.len = 32
  · have : (d.len : Int) = 32 := by omega
    simp only [ne_eq, this, not_true_eq_false, if_false, h, if_true]
    rw [mk_eq (by omega)]
    simp only [bind_ok, copy_len, Sl.zeros_len, Int.reduceToNat, Int.cast_ofNat_Int, not_true_eq_false, if_false,
      pure_eq_ok]
    rw [copy_zeros_data (by omega)]
    congr 2
    exact List.take_of_length_le (by simp; omega)
  · have : ¬ (d.len : Int) = 32 := by omega
    simp only [ne_eq, this, not_false_eq_true, if_true, h, if_false, pure_eq_ok]

theorem selectSigningKeyConstructorC_eq (t : Nat) (D : Sl) (hc : sigConstructible t = true) (hl : D.len = sigPubSize t) :
    selectSigningKeyConstructorC (t : Int) D = .ok (some D.data) := by
  simp only [selectSigningKeyConstructorC, constructDSAKeyC, constructECDSAP256KeyC, constructECDSAP384KeyC]
  have full : ∀ n, D.len = n → D.data.take n = D.data := fun n hn => List.take_of_length_le (by simp; omega)
  rcases sigConstructible_cases hc with rfl | rfl | rfl | rfl | rfl | rfl
  · have hz : D.len = 128 := hl
    have := constructPaddedKeyC_eq 128 D (by omega)
    simp only [Int.cast_ofNat_Int] at this
    simp only [Int.cast_ofNat_Int, ↓reduceIte, this, hz, Nat.lt_irrefl, Nat.le_refl, Nat.sub_self, List.drop_zero]
    rw [full 128 hz]
  · have hz : D.len = 64 := hl
    have := constructPaddedKeyC_eq 64 D (by omega)
    simp only [Int.cast_ofNat_Int] at this
    simp only [Int.cast_ofNat_Int, Int.reduceEq, ↓reduceIte, this, hz, Nat.lt_irrefl, show ¬ 128 ≤ 64 by omega]
    rw [full 64 hz]
  · have hz : D.len = 96 := hl
    have := constructPaddedKeyC_eq 96 D (by omega)
    simp only [Int.cast_ofNat_Int] at this
    simp only [Int.cast_ofNat_Int, Int.reduceEq, ↓reduceIte, this, hz, Nat.lt_irrefl, show ¬ 128 ≤ 96 by omega]
    rw [full 96 hz]
  all_goals
    have hz : D.len = 32 := hl
    simp only [Int.cast_ofNat_Int, Int.reduceEq, ↓reduceIte, false_or, or_self, constructEd25519KeyC_eq, hz]

/-- the signing key as `constructSigningKeyFromCert` cuts it out of the 384-byte block -/
theorem constructSigningKeyFromCertC_eq (kc : KeyCert) (s : Sl) (h : 384 ≤ s.len) :
    constructSigningKeyFromCertC kc s (sigPubSize kc.spk) =
      .ok (if sigConstructible kc.spk = true then some ((s.data.take 384).drop (384 - sigPubSize kc.spk)) else none) := by
  simp only [constructSigningKeyFromCertC]
  by_cases hc : sigConstructible kc.spk = true
  · have hs := sigPubSize_of_constructible hc
    have a1 : ¬ ((sigPubSize kc.spk : Nat) : Int) ≤ 0 := by omega
    have a2 : ¬ ((sigPubSize kc.spk : Nat) : Int) > 128 := by omega
    simp only [a1, a2, if_false, hc, if_true]
    rw [slice_eq (by omega) (by omega) (by omega)]
    simp only [bind_ok, Int.reduceToNat]
    have e : (384 - ((sigPubSize kc.spk : Nat) : Int)).toNat = 384 - sigPubSize kc.spk := by omega
    rw [e]
    have hl : (s.sub (384 - sigPubSize kc.spk) 384).len = sigPubSize kc.spk := by
      rw [Sl.sub_len (by omega) (by omega)]; omega
    have hd : (s.sub (384 - sigPubSize kc.spk) 384).data = (s.data.take 384).drop (384 - sigPubSize kc.spk) := by
      rw [Sl.sub_data (by omega) (by omega), List.drop_take]
    simp only [constructSigningPublicKeyC, Sl.ilen_eq, hl, Int.lt_irrefl, if_false,
      selectSigningKeyConstructorC_eq _ _ hc hl, hd]
  · simp only [hc, if_false, Bool.false_eq_true]
    by_cases a1 : ((sigPubSize kc.spk : Nat) : Int) ≤ 0
    · simp only [a1, if_true, pure_eq_ok]
    · by_cases a2 : ((sigPubSize kc.spk : Nat) : Int) > 128
      · simp only [a1, a2, if_false, if_true, pure_eq_ok]
      · -- a known type with a key of at most 128 bytes is constructible
        exfalso; apply hc
        have hp : 0 < sigPubSize kc.spk ∧ sigPubSize kc.spk ≤ 128 := by omega
        unfold sigPubSize sigInfo at hp
        rw [sigConstructible_iff]
        split at hp <;> simp at hp <;> omega


theorem slice_err {s : Sl} {lo hi : Int} (h : ¬ (0 ≤ lo ∧ lo ≤ hi ∧ hi ≤ s.cap)) : slice s lo hi = .error .sliceOOB := by
  rw [slice, dif_neg h]

@[simp] theorem Sl.zeros_cap (n : Nat) : (Sl.zeros n).cap = n := by simp [Sl.zeros, Sl.cap]

theorem zeros_wr_data {N : Nat} {v : Bytes} (h : v.length = N) : ((Sl.zeros N).wr 0 v).data = v := by
  rw [Sl.wr_data (by simp; omega), Sl.zeros_data, write_full (by simp; omega)]

theorem zeros_wr_wr_data {N p : Nat} {v1 v2 : Bytes} (h1 : v1.length = p) (h2 : p + v2.length = N) :
    (((Sl.zeros N).wr 0 v1).wr p v2).data = v1 ++ v2 := by
  rw [Sl.wr_data (by simp; omega), Sl.wr_data (by simp; omega), Sl.zeros_data, ← h1]
  exact write_write_full (by simp; omega)

/-- `extractPaddingFromData` relies on exactly these two guards: under them it cannot panic and
    returns the padding of the pure model -/
theorem extractPaddingFromDataC_eq (s : Sl) (cs ss : Nat) (h : 384 ≤ s.len) (hc : cs ≤ 256) (hs : ss ≤ 128) :
    extractPaddingFromDataC s cs ss = .ok (extractPadding s.data cs ss) := by
  simp only [extractPaddingFromDataC, extractPadding]
  by_cases hN : 384 ≤ cs + ss
  · have : (384 : Int) - cs - ss ≤ 0 := by omega
    simp only [this, if_true, hN, pure_eq_ok]
  · have : ¬ (384 : Int) - cs - ss ≤ 0 := by omega
    simp only [this, if_false, hN]
    rw [mk_eq (by omega)]
    simp only [bind_ok, gt_iff_lt]
    have eN : ((384 : Int) - cs - ss).toNat = 384 - cs - ss := by omega
    rw [eN]
    -- the two source regions
    have hl1 : (s.sub cs 256).len = 256 - cs := by rw [Sl.sub_len (by omega) (by omega)]
    have hl2 : (s.sub 256 (384 - ss)).len = 128 - ss := by rw [Sl.sub_len (by omega) (by omega)]; omega
    have hv1 : ((s.sub cs 256).data).length = 256 - cs := by rw [Sl.data_length, hl1]
    have hv2 : ((s.sub 256 (384 - ss)).data).length = 128 - ss := by rw [Sl.data_length, hl2]
    have hd1 : (s.sub cs 256).data = (s.data.take 256).drop cs := by
      rw [Sl.sub_data (by omega) (by omega), List.drop_take]
    have hd2 : (s.sub 256 (384 - ss)).data = (s.data.take (384 - ss)).drop 256 := by
      rw [Sl.sub_data (by omega) (by omega), List.drop_take]
    by_cases hp : cs < 256
    · have hp' : (0 : Int) < 256 - cs := by omega
      simp only [hp', if_true]
      rw [slice_eq (by omega) (by omega) (by omega)]
      simp only [bind_ok, Int.toNat_natCast, Int.reduceToNat]
      rw [copyTo_eq (by omega) (by simp; omega)]
      simp only [bind_ok]
      have e1 : ((256 : Int) - cs).toNat = 256 - cs := by omega
      rw [e1]
      have t1 : (s.sub cs 256).data.take (256 - cs) = (s.sub cs 256).data := List.take_of_length_le (by omega)
      rw [t1]
      by_cases hq : ss < 128
      · have hq' : (0 : Int) < 128 - ss := by omega
        simp only [hq', if_true]
        rw [slice_eq (by omega) (by omega) (by omega)]
        simp only [bind_ok]
        rw [copyFrom_eq (by omega) (by simp; omega)]
        simp only [bind_ok, pure_eq_ok, Sl.wr_len, Sl.zeros_len, Int.reduceToNat]
        have e2 : ((256 : Int) + (128 - ss)).toNat = 384 - ss := by omega
        rw [e2, e1]
        have t2 : (s.sub 256 (384 - ss)).data.take (384 - cs - ss - (256 - cs)) = (s.sub 256 (384 - ss)).data :=
          List.take_of_length_le (by omega)
        rw [t2, zeros_wr_wr_data hv1 (by omega), hd1, hd2]
      · have hq' : ¬ (0 : Int) < 128 - ss := by omega
        have hss : ss = 128 := by omega
        simp only [hq', if_false, pure_eq_ok, bind_ok]
        rw [zeros_wr_data (by omega), hd1, hss]
        simp
    · have hp' : ¬ (0 : Int) < 256 - cs := by omega
      have hcs : cs = 256 := by omega
      have hq : ss < 128 := by omega
      have hq' : (0 : Int) < 128 - ss := by omega
      simp only [hp', if_false, hq', if_true, pure_eq_ok]
      rw [slice_eq (by omega) (by omega) (by omega)]
      simp only [bind_ok]
      rw [copyFrom_eq (by omega) (by simp; omega)]
      simp only [bind_ok, Sl.zeros_len, Int.reduceToNat]
      have e2 : ((256 : Int) + (128 - ss)).toNat = 384 - ss := by omega
      have e1 : ((256 : Int) - cs).toNat = 0 := by omega
      rw [e2, e1]
      have t2 : (s.sub 256 (384 - ss)).data.take (384 - cs - ss - 0) = (s.sub 256 (384 - ss)).data :=
        List.take_of_length_le (by omega)
      rw [t2, zeros_wr_data (by omega), hd2, hcs]
      simp

/-- the old bug: a 32-byte crypto key with a signing key of more than 128 (and less than 352) bytes makes
    `padding[:224]` exceed the capacity `384 - 32 - ss` of the freshly made padding buffer -/
theorem extractPaddingFromDataC_panics (s : Sl) (ss : Nat) (h : 384 ≤ s.len) (h1 : 128 < ss) (h2 : ss < 352) :
    extractPaddingFromDataC s 32 ss = .error .sliceOOB := by
  simp only [extractPaddingFromDataC]
  have : ¬ (384 : Int) - 32 - ss ≤ 0 := by omega
  simp only [this, if_false]
  rw [mk_eq (by omega)]
  simp only [bind_ok, gt_iff_lt, Int.reduceSub, Int.reduceLT, if_true]
  rw [slice_eq (by omega) (by omega) (by omega)]
  simp only [bind_ok, copyTo, copyAt]
  rw [slice_err (by simp only [Sl.zeros_cap]; omega)]
  rfl


theorem getD_of_drop {w : Bytes} {n : Nat} {b : UInt8} {t : Bytes} (h : w.drop n = b :: t) : w.getD n 0 = b := by
  have : (w.drop n).head? = some b := by rw [h]; rfl
  rw [List.head?_drop] at this
  rw [List.getD_eq_getElem?_getD, this]; rfl

/-- the common tail of `ReadKeysAndCert` / `readKeysAndCertNonKeyCert` in the current order -/
theorem kac_tail (s : Sl) (kc : KeyCert) (rem : Sl) (h : 384 ≤ s.len) :
    (do
      match ← constructPublicKeyFromCertC kc s with
      | none => return none
      | some pubKey =>
      let pubKeySize : Int := cryptoSize kc.cpk
      let sigKeySize : Int := sigPubSize kc.spk
      match ← constructSigningKeyFromCertC kc s sigKeySize with
      | none => return none
      | some sigKey =>
      let padding ← extractPaddingFromDataC s pubKeySize sigKeySize
      return some ({ kc := kc, pub := pubKey, padding := padding, sig := sigKey }, rem) : Go (Option (KeysAndCert × Sl)))
    = .ok ((finishKac s.data kc rem.data).map fun p => (p.1, rem)) := by
  rw [constructPublicKeyFromCertC_eq kc s (by omega), finishKac_eq]
  cases hc : cryptoConstructible kc.cpk
  · simp only [Bool.false_eq_true, if_false, bind_ok, pure_eq_ok, false_and, Option.map_none]
  · simp only [if_true, bind_ok, constructSigningKeyFromCertC_eq kc s h, true_and]
    cases hs : sigConstructible kc.spk
    · simp only [Bool.false_eq_true, if_false, pure_eq_ok, Option.map_none]
    · have h1 := cryptoSize_of_constructible hc
      have h2 := sigPubSize_of_constructible hs
      simp only [if_true]
      rw [extractPaddingFromDataC_eq s (cryptoSize kc.cpk) (sigPubSize kc.spk) h (by omega) (by omega)]
      simp only [bind_ok, pure_eq_ok, Option.map_some]

theorem readKeysAndCertNonKeyCertC_spec (s : Sl) (b : UInt8) (t : Bytes) (h : 387 ≤ s.len)
    (hb : s.data.drop 384 = b :: t) (h5 : b ≠ 5) :
    ∃ r, readKeysAndCertNonKeyCertC s (b.toNat : Int) = .ok r ∧ vRem r = readKac s.data := by
  simp only [readKeysAndCertNonKeyCertC]
  by_cases h0 : b = 0
  · subst h0
    simp only [UInt8.toNat_zero, Int.cast_ofNat_Int, ne_eq, not_true_eq_false, if_false]
    rw [sliceFrom_eq (by omega) (by omega)]
    simp only [bind_ok, Int.reduceToNat]
    obtain ⟨r, hr, hv⟩ := readCertS_spec (s.sub 384 s.len)
    rw [Sl.sub_data_from (by omega)] at hv
    rw [readKac_null (by simpa using h) t hb, ← hv, hr]
    simp only [bind_ok]
    cases r with
    | none => exact ⟨none, rfl, rfl⟩
    | some p =>
      obtain ⟨c, rem⟩ := p
      simp only [vRem_some, Option.bind_some]
      -- the Go code extracts the (empty) padding before the signing key here; both orders agree
      have hp : extractPaddingFromDataC s ((cryptoSize 0 : Nat) : Int) ((sigPubSize 0 : Nat) : Int) = .ok [] := by
        rw [extractPaddingFromDataC_eq s _ _ (by omega) (by decide) (by decide)]; rfl
      have hk := constructPublicKeyFromCertC_eq { cert := c, spk := 0, cpk := 0 } s (by omega)
      have hsg := constructSigningKeyFromCertC_eq { cert := c, spk := 0, cpk := 0 } s (by omega)
      simp only [show cryptoConstructible 0 = true from rfl, show sigConstructible 0 = true from rfl, if_true] at hk hsg
      simp only [hk, hsg, hp, bind_ok, pure_eq_ok]
      refine ⟨_, rfl, ?_⟩
      rw [finishKac_eq]
      simp only [show cryptoConstructible 0 = true from rfl, show sigConstructible 0 = true from rfl, and_self, if_true,
        vRem_some]
      rfl
  · have : (b.toNat : Int) ≠ 0 := by
      intro hh; apply h0; apply UInt8.toNat_inj.mp; simp; omega
    simp only [this, ne_eq, not_false_eq_true, if_true, pure_eq_ok]
    exact ⟨none, rfl, by rw [readKac_other b t hb h5 h0]; rfl⟩

theorem readKacS_spec (s : Sl) : ∃ r, readKacS s = .ok r ∧ vRem r = readKac s.data := by
  simp only [readKacS, Sl.ilen_eq]
  by_cases h : s.len < 387
  · have : (s.len : Int) < 387 := by omega
    simp only [this, if_true, pure_eq_ok]
    exact ⟨none, rfl, by rw [readKac_short (by simpa using h)]; rfl⟩
  · have : ¬ (s.len : Int) < 387 := by omega
    simp only [this, if_false]
    rw [index_eq (by omega) (by omega)]
    simp only [bind_ok, Int.reduceToNat]
    have hl : 387 ≤ s.data.length := by simp; omega
    cases hb : s.data.drop 384 with
    | nil => have := congrArg List.length hb; simp at this; omega
    | cons b t =>
      rw [getD_of_drop hb]
      by_cases h5 : b = 5
      · subst h5
        simp only [show ((5 : UInt8).toNat : Int) = 5 from rfl, ne_eq, not_true_eq_false, if_false,
          parseKeyCertificateFromDataC]
        rw [sliceFrom_eq (by omega) (by omega)]
        simp only [bind_ok, Int.reduceToNat]
        obtain ⟨r, hr, hv⟩ := newKeyCertS_spec (s.sub 384 s.len)
        rw [Sl.sub_data_from (by omega)] at hv
        rw [readKac_key hl t hb, ← hv, hr]
        simp only [bind_ok]
        cases r with
        | none => exact ⟨none, rfl, rfl⟩
        | some p =>
          obtain ⟨kc, rem⟩ := p
          have := kac_tail s kc rem (by omega)
          refine ⟨_, this, ?_⟩
          simp only [vRem_some, Option.bind_some]
          rw [finishKac_eq]
          split <;> rfl
      · have : ((b.toNat : Nat) : Int) ≠ 5 := by
          intro hh; apply h5; apply UInt8.toNat_inj.mp; simp; omega
        simp only [this, ne_eq, not_false_eq_true, if_true]
        exact readKeysAndCertNonKeyCertC_spec s b t (by omega) hb h5

theorem readDestinationS_spec (s : Sl) : ∃ r, readDestinationS s = .ok r ∧ vRem r = readDestination s.data := by
  obtain ⟨r, hr, hv⟩ := readKacS_spec s
  simp only [readDestinationS, hr, bind_ok, readDestination, ← hv]
  cases r with
  | none => exact ⟨none, rfl, rfl⟩
  | some p =>
    obtain ⟨k, rem⟩ := p
    simp only [vRem_some]
    cases destAllowed k.kc.spk k.kc.cpk
    · exact ⟨none, rfl, rfl⟩
    · exact ⟨_, rfl, rfl⟩


theorem requireKeyTypesC_eq (kc : KeyCert) (a b : Nat) :
    requireKeyTypesC kc a b = decide (¬ (kc.spk ≠ a ∨ kc.cpk ≠ b)) := by
  simp only [requireKeyTypesC]
  congr 1
  apply propext
  constructor <;> intro h <;> omega

theorem extractEd25519SigningKeyC_eq (s : Sl) (h : 384 ≤ s.len) :
    extractEd25519SigningKeyC s 352 32 = .ok (some ((s.data.take 384).drop 352)) := by
  simp only [extractEd25519SigningKeyC, Sl.ilen_eq]
  have : ¬ ((352 : Int) + 32 > s.len) := by omega
  simp only [this, if_false]
  rw [mk_eq (by omega), slice_eq (by omega) (by omega) (by omega)]
  simp only [bind_ok, copy_len, Sl.zeros_len, Int.reduceToNat, Int.reduceAdd, Int.cast_ofNat_Int, ne_eq, not_true_eq_false,
    if_false, pure_eq_ok]
  rw [copy_zeros_data (by rw [Sl.sub_len (by omega) (by omega)]; omega), Sl.sub_data (by omega) (by omega), List.take_take,
    List.drop_take]
  rfl

theorem readKacElgEdS_spec (s : Sl) : ∃ r, readKacElgEdS s = .ok r ∧ vRem r = readKacFast 0 s.data := by
  simp only [readKacElgEdS, Sl.ilen_eq, readKacFast, Sl.data_length]
  by_cases h : s.len < 387
  · have : (s.len : Int) < 384 + 3 := by omega
    simp only [this, if_true, h, pure_eq_ok]
    exact ⟨none, rfl, rfl⟩
  · have : ¬ (s.len : Int) < 384 + 3 := by omega
    simp only [this, if_false, h, extractElGamalPublicKeyC, extractPaddingDataC, Sl.ilen_eq]
    have : ¬ (s.len : Int) < 256 := by omega
    simp only [this, if_false]
    rw [mk_eq (by omega), sliceTo_eq (by omega) (by omega), mk_eq (by omega), slice_eq (by omega) (by omega) (by omega)]
    simp only [bind_ok, Int.reduceToNat, Int.reduceSub, Int.reduceAdd, pure_eq_ok, extractEd25519SigningKeyC_eq s (by omega),
      extractKeyCertificateC]
    rw [sliceFrom_eq (by omega) (by omega)]
    simp only [bind_ok, Int.reduceToNat]
    obtain ⟨r, hr, hv⟩ := newKeyCertS_spec (s.sub 384 s.len)
    rw [Sl.sub_data_from (by omega)] at hv
    rw [hr, ← hv]
    simp only [bind_ok]
    cases r with
    | none => exact ⟨none, rfl, rfl⟩
    | some p =>
      obtain ⟨kc, rem⟩ := p
      have rq := requireKeyTypesC_eq kc 7 0
      simp only [Int.cast_ofNat_Int] at rq
      simp only [vRem_some, rq]
      by_cases hq : kc.spk ≠ 7 ∨ kc.cpk ≠ 0
      · simp only [hq, not_true_eq_false, decide_false, Bool.not_false, if_true]
        exact ⟨none, rfl, rfl⟩
      · simp only [hq, not_false_eq_true, decide_true, Bool.not_true, Bool.false_eq_true, if_false]
        refine ⟨_, rfl, ?_⟩
        simp only [vRem_some]
        rw [copy_zeros_data (by rw [Sl.sub_len (by omega) (by omega)]; omega), Sl.sub_data_to (by omega), List.take_take,
          copy_zeros_data (by rw [Sl.sub_len (by omega) (by omega)]; omega), Sl.sub_data (by omega) (by omega),
          List.take_take]
        simp [show cryptoSize 0 = 256 from rfl, List.drop_take]

theorem readKacX25519EdS_spec (s : Sl) : ∃ r, readKacX25519EdS s = .ok r ∧ vRem r = readKacFast 4 s.data := by
  simp only [readKacX25519EdS, Sl.ilen_eq, readKacFast, Sl.data_length]
  by_cases h : s.len < 387
  · have : (s.len : Int) < 384 + 3 := by omega
    simp only [this, if_true, h, pure_eq_ok]
    exact ⟨none, rfl, rfl⟩
  · have : ¬ (s.len : Int) < 384 + 3 := by omega
    simp only [this, if_false, h, extractX25519PublicKeyC, Sl.ilen_eq]
    have : ¬ (s.len : Int) < 256 := by omega
    simp only [this, if_false]
    rw [mk_eq (by omega), slice_eq (by omega) (by omega) (by omega)]
    have hp := extractPaddingFromDataC_eq s 32 32 (by omega) (by omega) (by omega)
    simp only [Int.cast_ofNat_Int] at hp
    simp only [bind_ok, Int.reduceToNat, Int.reduceSub, Int.reduceAdd, pure_eq_ok, extractEd25519SigningKeyC_eq s (by omega),
      extractKeyCertificateC, hp]
    rw [sliceFrom_eq (by omega) (by omega)]
    simp only [bind_ok, Int.reduceToNat]
    obtain ⟨r, hr, hv⟩ := newKeyCertS_spec (s.sub 384 s.len)
    rw [Sl.sub_data_from (by omega)] at hv
    rw [hr, ← hv]
    simp only [bind_ok]
    cases r with
    | none => exact ⟨none, rfl, rfl⟩
    | some p =>
      obtain ⟨kc, rem⟩ := p
      have rq := requireKeyTypesC_eq kc 7 4
      simp only [Int.cast_ofNat_Int] at rq
      simp only [vRem_some, rq]
      by_cases hq : kc.spk ≠ 7 ∨ kc.cpk ≠ 4
      · simp only [hq, not_true_eq_false, decide_false, Bool.not_false, if_true]
        exact ⟨none, rfl, rfl⟩
      · simp only [hq, not_false_eq_true, decide_true, Bool.not_true, Bool.false_eq_true, if_false]
        refine ⟨_, rfl, ?_⟩
        simp only [vRem_some]
        rw [copy_zeros_data (by rw [Sl.sub_len (by omega) (by omega)]; omega), Sl.sub_data_to (by omega), List.take_take,
          extractPadding_eq _ _ _ (by simp; omega) (by omega) (by omega)]
        rfl

/-! ### the pre-fix order of `ReadKeysAndCert` -/

/-- the pre-fix order panics on EVERY input of at least 387 bytes whose key certificate declares a 32-byte
    crypto key (X25519 / ML-KEM hybrids) together with P-521 or RSA-2048 signing -/
theorem readKacPrefixS_panics (s : Sl) (h : 387 ≤ s.len) (kc : KeyCert) (rem : Bytes) (t : Bytes)
    (h5 : s.data.drop 384 = 5 :: t)
    (hkc : newKeyCert (s.data.drop 384) = some (kc, rem))
    (hc : kc.cpk = 4 ∨ kc.cpk = 5 ∨ kc.cpk = 6 ∨ kc.cpk = 7) (hs : kc.spk = 3 ∨ kc.spk = 4) :
    readKacPrefixS s = .error .sliceOOB := by
  simp only [readKacPrefixS, Sl.ilen_eq]
  have : ¬ (s.len : Int) < 387 := by omega
  simp only [this, if_false]
  rw [index_eq (by omega) (by omega)]
  simp only [bind_ok, Int.reduceToNat]
  rw [getD_of_drop h5]
  simp only [show ((5 : UInt8).toNat : Int) = 5 from rfl, ne_eq, not_true_eq_false, if_false, parseKeyCertificateFromDataC]
  rw [sliceFrom_eq (by omega) (by omega)]
  simp only [bind_ok, Int.reduceToNat]
  obtain ⟨r, hr, hv⟩ := newKeyCertS_spec (s.sub 384 s.len)
  rw [Sl.sub_data_from (by omega), hkc] at hv
  cases r with
  | none => simp at hv
  | some p =>
    obtain ⟨kc', rem'⟩ := p
    simp only [vRem_some, Option.some.injEq, Prod.mk.injEq] at hv
    obtain ⟨rfl, -⟩ := hv
    have hcc : cryptoConstructible kc'.cpk = true := (cryptoConstructible_iff _).mpr (Or.inr hc)
    have hcs : cryptoSize kc'.cpk = 32 := by rcases hc with h | h | h | h <;> rw [h] <;> rfl
    have hss : 128 < sigPubSize kc'.spk ∧ sigPubSize kc'.spk < 352 := by
      rcases hs with h | h <;> rw [h] <;> decide
    simp only [hr, bind_ok, constructPublicKeyFromCertC_eq kc' s (by omega), hcc, if_true, hcs, Int.cast_ofNat_Int]
    rw [extractPaddingFromDataC_panics s _ (by omega) hss.1 hss.2]
    rfl


open I2P.Structs

/-! ### signature -/

theorem sigLen_big {t : Nat} (h : 11 < t) : sigLen t = 0 := by
  unfold sigLen sigInfo
  split <;> first | omega | rfl

/-- copy-out of a prefix: the shape shared by `extractSignatureData`, `extractTransientPublicKey`, … -/
theorem extractPrefixCopyC_eq (s : Sl) (n : Nat) (h : n ≤ s.len) :
    extractPrefixCopyC s n = .ok (s.data.take n, s.sub n s.len) := by
  simp only [extractPrefixCopyC]
  rw [mk_eq (by omega), sliceTo_eq (by omega) (by omega), sliceFrom_eq (by omega) (by omega)]
  simp only [bind_ok, pure_eq_ok, Int.toNat_natCast]
  rw [copy_zeros_data (by rw [Sl.sub_len (by omega) (by omega)]; omega), Sl.sub_data_to (by omega), List.take_take]
  simp

theorem extractSignatureDataC_eq (s : Sl) (n : Nat) (h : n ≤ s.len) :
    extractSignatureDataC s n = .ok (s.data.take n, s.sub n s.len) := by
  simp only [extractSignatureDataC]
  rw [mk_eq (by omega), sliceTo_eq (by omega) (by omega), sliceFrom_eq (by omega) (by omega)]
  simp only [bind_ok, pure_eq_ok, Int.toNat_natCast]
  rw [copy_zeros_data (by rw [Sl.sub_len (by omega) (by omega)]; omega), Sl.sub_data_to (by omega), List.take_take]
  simp

theorem getSignatureLengthC_nat (t : Nat) :
    getSignatureLengthC (t : Int) = if sigLen t = 0 then none else some (sigLen t : Int) := by
  simp only [getSignatureLengthC, Int.toNat_natCast]
  by_cases h : t ≤ 65535
  · have : ¬ ((t : Int) < 0 ∨ (t : Int) > 65535) := by omega
    simp only [this, if_false]
  · have : ((t : Int) < 0 ∨ (t : Int) > 65535) := by omega
    simp only [this, if_true, sigLen_big (show 11 < t by omega)]

theorem getSignatureLengthC_neg {t : Int} (h : t < 0) : getSignatureLengthC t = none := by
  simp [getSignatureLengthC, h]

theorem readSigS_spec (s : Sl) (t : Nat) : ∃ r, readSigS s t = .ok r ∧ vRem r = readSig s.data t := by
  simp only [readSigS, getSignatureLengthC_nat, readSig, Sl.data_length]
  by_cases h0 : sigLen t = 0
  · simp only [h0, if_true, pure_eq_ok]; exact ⟨none, rfl, rfl⟩
  · simp only [h0, if_false, Sl.ilen_eq]
    by_cases hl : s.len < sigLen t
    · have : (s.len : Int) < (sigLen t : Int) := by omega
      simp only [this, if_true, hl, pure_eq_ok]; exact ⟨none, rfl, rfl⟩
    · have : ¬ (s.len : Int) < (sigLen t : Int) := by omega
      simp only [this, if_false, hl, extractSignatureDataC_eq s _ (show sigLen t ≤ s.len by omega), bind_ok, pure_eq_ok]
      refine ⟨_, rfl, ?_⟩
      simp only [vRem_some, Sl.sub_data_from (show sigLen t ≤ s.len by omega)]

theorem readSigS_neg (s : Sl) {t : Int} (h : t < 0) : readSigS s t = .ok none := by
  simp [readSigS, getSignatureLengthC_neg h]

/-! ### offline signature -/

theorem take_split3 (d : Bytes) (a b : Nat) :
    d.take a ++ (d.drop a).take b = d.take (a + b) := by
  rw [List.take_add]

theorem beEnc_beVal_take (d : Bytes) (off n : Nat) (h : off + n ≤ d.length) :
    beEnc n (beVal ((d.drop off).take n)) = (d.drop off).take n := by
  have := beEnc_beVal ((d.drop off).take n)
  rwa [show ((d.drop off).take n).length = n by simp; omega] at this

/-- projection of a parsed offline signature on what the pure model returns -/
def vOff (r : Option (OffSig × Sl)) : Option (Bytes × Bytes × Nat) := r.map fun p => (p.1.bytes, p.2.data, p.1.sigtype)

theorem readOffSigS_spec (s : Sl) (t : Nat) : ∃ r, readOffSigS s t = .ok r ∧ vOff r = readOffSig s.data t := by
  simp only [readOffSigS, readOffSig, Sl.ilen_eq, Sl.data_length]
  by_cases h6 : s.len < 6
  · have : (s.len : Int) < 4 + 2 := by omega
    simp only [this, if_true, h6, pure_eq_ok]; exact ⟨none, rfl, rfl⟩
  · have : ¬ (s.len : Int) < 4 + 2 := by omega
    simp only [this, if_false, h6, parseOfflineSignatureHeaderC]
    rw [slice_eq (by omega) (by omega) (by omega), slice_eq (by omega) (by omega) (by omega),
      sliceFrom_eq (by omega) (by omega)]
    simp only [bind_ok, Int.reduceToNat, Int.reduceAdd]
    rw [beUint32_eq (by rw [Sl.sub_len (by omega) (by omega)]; omega),
      beUint16_eq (by rw [Sl.sub_len (by omega) (by omega)]; omega)]
    simp only [bind_ok, pure_eq_ok]
    have e4 : (s.sub 0 4).data.take 4 = s.data.take 4 := by
      rw [Sl.sub_data_to (by omega), List.take_take]; rfl
    have e2 : (s.sub 4 6).data.take 2 = (s.data.drop 4).take 2 := by
      rw [Sl.sub_data (by omega) (by omega), List.take_take]; rfl
    have l6 : (s.sub 6 s.len).len = s.len - 6 := by rw [Sl.sub_len (by omega) (by omega)]
    have d6 : (s.sub 6 s.len).data = s.data.drop 6 := Sl.sub_data_from (by omega)
    rw [e4, e2]
    generalize hst : beVal ((s.data.drop 4).take 2) = st
    by_cases hk0 : sigPubSize st = 0
    · have : ((sigPubSize st : Nat) : Int) = 0 := by omega
      simp only [this, if_true, hk0]; exact ⟨none, rfl, rfl⟩
    · have : ¬ ((sigPubSize st : Nat) : Int) = 0 := by omega
      simp only [this, if_false, hk0, l6, List.length_drop, Sl.data_length]
      by_cases hk : s.len - 6 < sigPubSize st
      · have : ((s.len - 6 : Nat) : Int) < (sigPubSize st : Int) := by omega
        simp only [this, if_true, hk]; exact ⟨none, rfl, rfl⟩
      · have : ¬ ((s.len - 6 : Nat) : Int) < (sigPubSize st : Int) := by omega
        simp only [this, if_false, hk]
        rw [extractPrefixCopyC_eq _ _ (by rw [l6]; omega)]
        simp only [bind_ok, l6]
        have l7 : ((s.sub 6 s.len).sub (sigPubSize st) (s.len - 6)).len = s.len - 6 - sigPubSize st := by
          rw [Sl.sub_len (by omega) (by omega)]
        have d7 : ((s.sub 6 s.len).sub (sigPubSize st) (s.len - 6)).data = (s.data.drop 6).drop (sigPubSize st) := by
          rw [← l6, Sl.sub_data_from (by omega), d6]
        by_cases hs0 : sigLen t = 0
        · have : ((sigLen t : Nat) : Int) = 0 := by omega
          simp only [this, if_true, hs0]; exact ⟨none, rfl, rfl⟩
        · have : ¬ ((sigLen t : Nat) : Int) = 0 := by omega
          simp only [this, if_false, hs0, l7]
          by_cases hs : s.len - 6 - sigPubSize st < sigLen t
          · have : ((s.len - 6 - sigPubSize st : Nat) : Int) < (sigLen t : Int) := by omega
            simp only [this, if_true, hs]; exact ⟨none, rfl, rfl⟩
          · have : ¬ ((s.len - 6 - sigPubSize st : Nat) : Int) < (sigLen t : Int) := by omega
            simp only [this, if_false, hs]
            rw [extractPrefixCopyC_eq _ _ (by rw [l7]; omega)]
            simp only [bind_ok, l7]
            refine ⟨_, rfl, ?_⟩
            simp only [vOff, Option.map_some, OffSig.bytes, d6, d7]
            rw [← l7, Sl.sub_data_from (by omega), d7]
            congr 2
            -- the four fields re-serialise to the prefix that was read
            have hl : 6 + sigPubSize st + sigLen t ≤ s.data.length := by simp; omega
            have b4 := beEnc_beVal_take s.data 0 4 (by omega)
            have b2 := beEnc_beVal_take s.data 4 2 (by omega)
            simp only [List.drop_zero] at b4
            rw [← hst, b4, b2, take_split3 s.data 4 2, List.append_assoc, List.drop_drop, ← List.append_assoc,
              take_split3, take_split3]


/-! ### leases -/

theorem readLeaseS_spec (s : Sl) : ∃ r, readLeaseS s = .ok r ∧ vRem r = readFixedN 44 s.data := by
  simp only [readLeaseS, readFixedN, Sl.ilen_eq, Sl.data_length]
  by_cases h : s.len < 44
  · have : (s.len : Int) < 44 := by omega
    simp only [this, if_true, h, pure_eq_ok]; exact ⟨none, rfl, rfl⟩
  · have : ¬ (s.len : Int) < 44 := by omega
    simp only [this, if_false, h]
    rw [mk_eq (by omega), sliceTo_eq (by omega) (by omega), sliceFrom_eq (by omega) (by omega)]
    simp only [bind_ok, Int.reduceToNat, Int.reduceAdd]
    have hL : (copy (Sl.zeros 44) (s.sub 0 44)).len = 44 := rfl
    rw [slice_eq (by omega) (by omega) (by rw [hL]; omega), mk_eq (by omega), sliceFrom_eq (by omega) (by rw [hL]; omega)]
    simp only [bind_ok, Int.reduceToNat, hL]
    rw [beUint32_eq (by rw [Sl.sub_len (by omega) (by rw [hL]; omega)]; omega)]
    have hD : (copy (Sl.zeros 8) ((copy (Sl.zeros 44) (s.sub 0 44)).sub 36 44)).len = 8 := rfl
    simp only [bind_ok, hD]
    rw [slice_eq (by omega) (by omega) (by rw [hD]; omega)]
    simp only [bind_ok, integerIntC_eq, pure_eq_ok]
    refine ⟨_, rfl, ?_⟩
    simp only [vRem_some]
    rw [copy_zeros_data (by rw [Sl.sub_len (by omega) (by omega)]; omega), Sl.sub_data_to (by omega), List.take_take,
      Sl.sub_data_from (by omega)]
    rfl

theorem readLease2S_spec (s : Sl) : ∃ r, readLease2S s = .ok r ∧ vRem r = readFixedN 40 s.data := by
  simp only [readLease2S, readFixedN, Sl.ilen_eq, Sl.data_length]
  by_cases h : s.len < 40
  · have : (s.len : Int) < 40 := by omega
    simp only [this, if_true, h, pure_eq_ok]; exact ⟨none, rfl, rfl⟩
  · have : ¬ (s.len : Int) < 40 := by omega
    simp only [this, if_false, h]
    rw [mk_eq (by omega), sliceTo_eq (by omega) (by omega), sliceFrom_eq (by omega) (by omega)]
    simp only [bind_ok, Int.reduceToNat, Int.reduceAdd]
    have hL : (copy (Sl.zeros 40) (s.sub 0 40)).len = 40 := rfl
    rw [slice_eq (by omega) (by omega) (by rw [hL]; omega), sliceFrom_eq (by omega) (by rw [hL]; omega)]
    simp only [bind_ok, Int.reduceToNat, hL]
    rw [beUint32_eq (by rw [Sl.sub_len (by omega) (by rw [hL]; omega)]; omega),
      beUint32_eq (by rw [Sl.sub_len (by omega) (by rw [hL]; omega)]; omega)]
    simp only [bind_ok, pure_eq_ok]
    refine ⟨_, rfl, ?_⟩
    simp only [vRem_some]
    rw [copy_zeros_data (by rw [Sl.sub_len (by omega) (by omega)]; omega), Sl.sub_data_to (by omega), List.take_take,
      Sl.sub_data_from (by omega)]
    rfl

/-- on success `ReadLease2` consumes exactly 40 bytes -/
theorem readLease2S_some {s : Sl} {l : Bytes} {rem : Sl} (h : readLease2S s = .ok (some (l, rem))) :
    40 ≤ s.len ∧ l = s.data.take 40 ∧ rem.data = s.data.drop 40 ∧ rem.len + 40 = s.len := by
  obtain ⟨r, hr, hv⟩ := readLease2S_spec s
  rw [h] at hr
  cases hr
  simp only [vRem_some, readFixedN, Sl.data_length] at hv
  by_cases h40 : s.len < 40
  · simp [h40] at hv
  · simp only [h40, if_false, Option.some.injEq, Prod.mk.injEq] at hv
    refine ⟨by omega, hv.1, hv.2, ?_⟩
    have := congrArg List.length hv.2
    simp at this; omega


/-! ### LeaseSet2 parse helpers -/

/-- `s[n:]` as a total function -/
def Sl.adv (s : Sl) (n : Nat) : Sl := s.sub n s.len

theorem sliceFrom_adv {s : Sl} {n : Nat} (h : n ≤ s.len) : sliceFrom s (n : Int) = .ok (s.adv n) := by
  rw [sliceFrom_eq (by omega) (by omega)]; simp [Sl.adv]

theorem Sl.adv_data {s : Sl} {n : Nat} (h : n ≤ s.len) : (s.adv n).data = s.data.drop n := Sl.sub_data_from h
theorem Sl.adv_len {s : Sl} {n : Nat} (h : n ≤ s.len) : (s.adv n).len = s.len - n := Sl.sub_len h (by omega)

theorem sliceTo_take {s : Sl} {n : Nat} (h : n ≤ s.len) :
    ∃ t, sliceTo s (n : Int) = .ok t ∧ t.data = s.data.take n ∧ t.len = n := by
  refine ⟨_, sliceTo_eq (by omega) (by omega), ?_, ?_⟩
  · simp only [Int.toNat_natCast]; exact Sl.sub_data_to h
  · simp only [Int.toNat_natCast]; rw [Sl.sub_len (by omega) h]; rfl

theorem beUint16_sub {s : Sl} (h : 2 ≤ s.len) : beUint16 (s.sub 0 2) = .ok (beVal (s.data.take 2)) := by
  rw [beUint16_eq (by rw [Sl.sub_len (by omega) (by omega)]; omega), Sl.sub_data_to (by omega), List.take_take]; rfl

theorem beUint32_sub {s : Sl} (h : 4 ≤ s.len) : beUint32 (s.sub 0 4) = .ok (beVal (s.data.take 4)) := by
  rw [beUint32_eq (by rw [Sl.sub_len (by omega) (by omega)]; omega), Sl.sub_data_to (by omega), List.take_take]; rfl

theorem parseHeaderFieldsC_eq (ls2 : LS2) (s : Sl) (h : 8 ≤ s.len) :
    parseHeaderFieldsC ls2 s = .ok
      ({ ls2 with published := beVal (s.data.take 4), expires := beVal ((s.data.drop 4).take 2), flags := beVal ((s.data.drop 6).take 2) },
       ((s.adv 4).adv 2).adv 2) := by
  have a1 := sliceFrom_adv (s := s) (n := 4) (by omega)
  have l1 := Sl.adv_len (s := s) (n := 4) (by omega)
  have a2 := sliceFrom_adv (s := s.adv 4) (n := 2) (by omega)
  have l2 := Sl.adv_len (s := s.adv 4) (n := 2) (by omega)
  have a3 := sliceFrom_adv (s := (s.adv 4).adv 2) (n := 2) (by omega)
  simp only [Int.cast_ofNat_Int] at a1 a2 a3
  simp only [parseHeaderFieldsC]
  rw [sliceTo_eq (by omega) (by omega)]
  simp only [bind_ok, Int.reduceToNat, a1, beUint32_sub (s := s) (by omega)]
  rw [sliceTo_eq (by omega) (by omega)]
  simp only [bind_ok, Int.reduceToNat, a2, beUint16_sub (s := s.adv 4) (by omega)]
  rw [sliceTo_eq (by omega) (by omega)]
  simp only [bind_ok, Int.reduceToNat, a3, beUint16_sub (s := (s.adv 4).adv 2) (by omega), pure_eq_ok]
  have d1 : (s.adv 4).data = s.data.drop 4 := Sl.adv_data (by omega)
  have d2 : ((s.adv 4).adv 2).data = s.data.drop 6 := by rw [Sl.adv_data (by omega), d1, List.drop_drop]
  rw [d2, d1]

theorem adv3_data (s : Sl) (h : 8 ≤ s.len) : (((s.adv 4).adv 2).adv 2).data = s.data.drop 8 := by
  have l1 := Sl.adv_len (s := s) (n := 4) (by omega)
  have l2 := Sl.adv_len (s := s.adv 4) (n := 2) (by omega)
  rw [Sl.adv_data (by omega), Sl.adv_data (by omega), Sl.adv_data (by omega), List.drop_drop, List.drop_drop]


/-- the first lines of the pure `readLeaseSet2`: destination and the 8 header bytes -/
def ls2Head (d : Bytes) : Option (KeysAndCert × Nat × Nat × Nat × Bytes) :=
  if d.length < 499 then none else
  match readDestination d with
  | none => none
  | some (k, r) =>
    if r.length < 8 then none else
    some (k, beVal (r.take 4), beVal ((r.drop 4).take 2), beVal ((r.drop 6).take 2), r.drop 8)

theorem parseDestinationAndHeaderC_spec (ls2 : LS2) (s : Sl) :
    ∃ r, parseDestinationAndHeaderC ls2 s = .ok r ∧
      (∀ l rem, r = some (l, rem) → l.destination.isSome) ∧
      r.map (fun p => (p.1.destination, p.1.published, p.1.expires, p.1.flags, p.2.data)) =
        (ls2Head s.data).map (fun q => (some q.1, q.2.1, q.2.2.1, q.2.2.2.1, q.2.2.2.2)) := by
  simp only [parseDestinationAndHeaderC, ls2Head, Sl.ilen_eq, Sl.data_length]
  by_cases h : s.len < 499
  · have : (s.len : Int) < 499 := by omega
    simp only [this, if_true, h, pure_eq_ok]
    exact ⟨none, rfl, (by intro l rem hh; cases hh), rfl⟩
  · have : ¬ (s.len : Int) < 499 := by omega
    simp only [this, if_false, h]
    obtain ⟨r, hr, hv⟩ := readDestinationS_spec s
    rw [hr, ← hv]
    simp only [bind_ok]
    cases r with
    | none => exact ⟨none, rfl, (by intro l rem hh; cases hh), rfl⟩
    | some p =>
      obtain ⟨k, rem⟩ := p
      simp only [vRem_some, Sl.data_length]
      by_cases h8 : rem.len < 8
      · have : (rem.len : Int) < 4 + 2 + 2 := by omega
        simp only [this, if_true, h8, pure_eq_ok]
        exact ⟨none, rfl, (by intro l rem hh; cases hh), rfl⟩
      · have : ¬ (rem.len : Int) < 4 + 2 + 2 := by omega
        simp only [this, if_false, h8, parseHeaderFieldsC_eq _ rem (by omega), bind_ok, pure_eq_ok]
        refine ⟨_, rfl, ?_, ?_⟩
        · intro l rem' hh
          simp only [Option.some.injEq, Prod.mk.injEq] at hh
          rw [← hh.1]; rfl
        · simp only [Option.map_some, adv3_data rem (by omega)]

/-- the serialised offline signature and the type of the final signature, as the pure model tracks them -/
def LS2.offView (l : LS2) (k : KeysAndCert) : Bytes × Nat :=
  match l.offlineSignature with
  | none => ([], k.kc.spk)
  | some o => (o.bytes, o.sigtype)

theorem parseOfflineSignatureC_spec (ls2 : LS2) (s : Sl) (k : KeysAndCert) (hd : ls2.destination = some k)
    (ho : ls2.offlineSignature = none) :
    ∃ r, parseOfflineSignatureC ls2 s = .ok r ∧
      (∀ l rem, r = some (l, rem) → l.destination = some k ∧ l.flags = ls2.flags ∧
        (l.offlineSignature.isSome ↔ ls2.flags % 2 = 1)) ∧
      r.map (fun p => ((p.1.offView k).1, p.2.data, (p.1.offView k).2)) =
        (if ls2.flags % 2 = 1 then readOffSig s.data (k.kc.spk % 65536) else some ([], s.data, k.kc.spk)) := by
  simp only [parseOfflineSignatureC, LS2.hasOfflineKeys]
  by_cases hf : ls2.flags % 2 = 1
  · simp only [hf, decide_true, Bool.not_true, Bool.false_eq_true, if_false, hd, deref, bind_ok, if_true]
    obtain ⟨r, hr, hv⟩ := readOffSigS_spec s (k.kc.spk % 65536)
    rw [hr, ← hv]
    simp only [bind_ok]
    cases r with
    | none => exact ⟨none, rfl, (by intro l rem hh; cases hh), rfl⟩
    | some p =>
      obtain ⟨o, rem⟩ := p
      refine ⟨_, rfl, ?_, rfl⟩
      intro l rem' hh
      simp only [pure_eq_ok, Option.some.injEq, Prod.mk.injEq] at hh
      rw [← hh.1]
      exact ⟨rfl, rfl, by simp⟩
  · simp only [hf, decide_false, Bool.not_false, if_true, pure_eq_ok, if_false]
    refine ⟨_, rfl, ?_, ?_⟩
    · intro l rem' hh
      simp only [Option.some.injEq, Prod.mk.injEq] at hh
      rw [← hh.1]
      exact ⟨hd, rfl, by rw [ho]; simp [hf]⟩
    · simp [LS2.offView, ho]

theorem parseOfflineSignatureC_no_panic (ls2 : LS2) (s : Sl) (hd : ls2.destination.isSome) :
    ∃ r, parseOfflineSignatureC ls2 s = .ok r := by
  obtain ⟨k, hk⟩ := Option.isSome_iff_exists.mp hd
  simp only [parseOfflineSignatureC]
  cases ls2.hasOfflineKeys
  · exact ⟨_, rfl⟩
  · simp only [Bool.not_true, Bool.false_eq_true, if_false, hk, deref, bind_ok]
    obtain ⟨r, hr, -⟩ := readOffSigS_spec s (k.kc.spk % 65536)
    rw [hr]
    cases r with
    | none => exact ⟨_, rfl⟩
    | some p => exact ⟨_, rfl⟩


/-! ### the encryption-key loop -/

theorem extractEncryptionKeyHeaderC_eq (s : Sl) (h : 4 ≤ s.len) :
    extractEncryptionKeyHeaderC s =
      .ok (beVal (s.data.take 2), beVal ((s.data.drop 2).take 2), (s.adv 2).adv 2) := by
  have a1 := sliceFrom_adv (s := s) (n := 2) (by omega)
  have l1 := Sl.adv_len (s := s) (n := 2) (by omega)
  have a2 := sliceFrom_adv (s := s.adv 2) (n := 2) (by omega)
  simp only [Int.cast_ofNat_Int] at a1 a2
  simp only [extractEncryptionKeyHeaderC]
  rw [sliceTo_eq (by omega) (by omega)]
  simp only [bind_ok, Int.reduceToNat, a1, beUint16_sub (s := s) (by omega)]
  rw [sliceTo_eq (by omega) (by omega)]
  simp only [bind_ok, Int.reduceToNat, a2, beUint16_sub (s := s.adv 2) (by omega), pure_eq_ok]
  rw [Sl.adv_data (by omega)]

theorem extractEncryptionKeyDataC_eq (s : Sl) (n : Nat) (h : n ≤ s.len) :
    extractEncryptionKeyDataC s n = .ok (s.data.take n, s.adv n) := by
  simp only [extractEncryptionKeyDataC]
  rw [mk_eq (by omega), sliceTo_eq (by omega) (by omega), sliceFrom_adv h]
  simp only [bind_ok, pure_eq_ok, Int.toNat_natCast]
  rw [copy_zeros_data (by rw [Sl.sub_len (by omega) (by omega)]; omega), Sl.sub_data_to (by omega), List.take_take]
  simp

theorem setAt_eq {α : Type} (l : List α) (i : Nat) (v : α) (h : i < l.length) :
    setAt l (i : Int) v = .ok (l.set i v) := by
  have : (0 : Int) ≤ i ∧ (i : Int) < l.length := by omega
  simp [setAt, this]

/-- the key the loop body stores for input `d` -/
def keyOf (d : Bytes) : EncKey :=
  { keyType := beVal (d.take 2), keyLen := beVal ((d.drop 2).take 2),
    keyData := (d.drop 4).take (beVal ((d.drop 2).take 2)) }

theorem keyOf_bytes (d : Bytes) (h : 4 + beVal ((d.drop 2).take 2) ≤ d.length) :
    (keyOf d).bytes = d.take (4 + beVal ((d.drop 2).take 2)) := by
  simp only [EncKey.bytes, keyOf]
  have b1 := beEnc_beVal_take d 0 2 (by omega)
  have b2 := beEnc_beVal_take d 2 2 (by omega)
  simp only [List.drop_zero] at b1
  rw [b1, b2, take_split3 d 2 2, take_split3]

theorem parseSingleEncryptionKeyC_eq (ls2 : LS2) (i : Nat) (s : Sl) (hi : i < ls2.encryptionKeys.length) :
    parseSingleEncryptionKeyC ls2 i s = .ok (
      if s.len < 4 then none else
      if s.len - 4 < (keyOf s.data).keyLen then none else
      some ({ ls2 with encryptionKeys := ls2.encryptionKeys.set i (some (keyOf s.data)) },
            ((s.adv 2).adv 2).adv (keyOf s.data).keyLen)) := by
  simp only [parseSingleEncryptionKeyC, Sl.ilen_eq]
  by_cases h4 : s.len < 4
  · have : (s.len : Int) < 2 + 2 := by omega
    simp only [this, if_true, h4, pure_eq_ok]
  · have : ¬ (s.len : Int) < 2 + 2 := by omega
    simp only [this, if_false, h4, extractEncryptionKeyHeaderC_eq s (by omega), bind_ok]
    have l1 := Sl.adv_len (s := s) (n := 2) (by omega)
    have l2 := Sl.adv_len (s := s.adv 2) (n := 2) (by omega)
    have d2 : ((s.adv 2).adv 2).data = s.data.drop 4 := by
      rw [Sl.adv_data (by omega), Sl.adv_data (by omega), List.drop_drop]
    have hl : ((s.adv 2).adv 2).len = s.len - 4 := by omega
    simp only [hl, keyOf]
    by_cases hk : s.len - 4 < beVal ((s.data.drop 2).take 2)
    · have : ((s.len - 4 : Nat) : Int) < (beVal ((s.data.drop 2).take 2) : Int) := by omega
      simp only [this, if_true, hk, pure_eq_ok]
    · have : ¬ ((s.len - 4 : Nat) : Int) < (beVal ((s.data.drop 2).take 2) : Int) := by omega
      simp only [this, if_false, hk, extractEncryptionKeyDataC_eq _ _ (show beVal ((s.data.drop 2).take 2) ≤ ((s.adv 2).adv 2).len by omega),
        bind_ok, storeEncryptionKeyC, setAt_eq _ _ _ hi, pure_eq_ok, d2]

theorem readKeys_acc (n : Nat) (d acc : Bytes) :
    readKeys n d acc = (readKeys n d []).map (fun p => (acc ++ p.1, p.2)) := by
  induction n generalizing d acc with
  | zero => simp [readKeys]
  | succ n ih =>
    simp only [readKeys]
    split
    · rfl
    · split
      · rfl
      · rw [ih, ih (acc := [] ++ _)]
        cases readKeys n _ [] with
        | none => rfl
        | some p => simp [List.append_assoc]

theorem take_set_succ {α : Type} (l : List α) (i : Nat) (a : α) (h : i < l.length) :
    (l.set i a).take (i + 1) = l.take i ++ [a] := by
  induction l generalizing i with
  | nil => simp at h
  | cons x xs ih =>
    cases i with
    | zero => simp
    | succ i => simp at h; simp [ih i h]

theorem keysLoop_spec : ∀ (fuel i : Nat) (ls2 : LS2) (s : Sl), i + fuel = ls2.encryptionKeys.length →
    ∃ r, parseEncryptionKeysLoopC fuel (i : Int) ((i + fuel : Nat) : Int) ls2 s = .ok r ∧
      match r with
      | none => readKeys fuel s.data [] = none
      | some (l, rem, n) => n = fuel ∧ rem.len + 4 * fuel ≤ s.len ∧
          ∃ ks : List EncKey, ks.length = fuel ∧
            l = { ls2 with encryptionKeys := ls2.encryptionKeys.take i ++ ks.map some } ∧
            readKeys fuel s.data [] = some (ks.flatMap EncKey.bytes, rem.data) := by
  intro fuel
  induction fuel with
  | zero =>
    intro i ls2 s hi
    refine ⟨_, rfl, rfl, by omega, [], rfl, ?_, rfl⟩
    simp only [List.map_nil, List.append_nil]
    rw [List.take_of_length_le (by omega)]
  | succ fuel ih =>
    intro i ls2 s hi
    simp only [parseEncryptionKeysLoopC]
    have hc : ¬ ¬ ((i : Int) < ((i + (fuel + 1) : Nat) : Int)) := by omega
    simp only [hc, if_false, parseSingleEncryptionKeyC_eq ls2 i s (by omega), bind_ok]
    by_cases h4 : s.len < 4
    · simp only [h4, if_true, pure_eq_ok]
      refine ⟨none, rfl, ?_⟩
      simp [readKeys, h4]
    · simp only [h4, if_false]
      have l1 := Sl.adv_len (s := s) (n := 2) (by omega)
      have l2 := Sl.adv_len (s := s.adv 2) (n := 2) (by omega)
      have d2 : ((s.adv 2).adv 2).data = s.data.drop 4 := by
        rw [Sl.adv_data (by omega), Sl.adv_data (by omega), List.drop_drop]
      by_cases hk : s.len - 4 < (keyOf s.data).keyLen
      · simp only [hk, if_true, pure_eq_ok]
        refine ⟨none, rfl, ?_⟩
        have hk' : (s.data.drop 4).length < beVal ((s.data.drop 2).take 2) := by simpa [keyOf] using hk
        have h4' : ¬ s.data.length < 4 := by simpa using h4
        show readKeys (fuel + 1) s.data [] = none
        rw [readKeys]
        simp only [h4', if_false, hk', if_true]
      · simp only [hk, if_false]
        have l3 := Sl.adv_len (s := (s.adv 2).adv 2) (n := (keyOf s.data).keyLen) (by omega)
        have d3 : (((s.adv 2).adv 2).adv (keyOf s.data).keyLen).data = (s.data.drop 4).drop (keyOf s.data).keyLen := by
          rw [Sl.adv_data (by omega), d2]
        have hi' : (i + 1) + fuel = ({ ls2 with encryptionKeys := ls2.encryptionKeys.set i (some (keyOf s.data)) } : LS2).encryptionKeys.length := by
          simp; omega
        obtain ⟨r, hr, hm⟩ := ih (i + 1) _ (((s.adv 2).adv 2).adv (keyOf s.data).keyLen) hi'
        have e : (((i + 1 : Nat) : Int)) = (i : Int) + 1 := by omega
        have e2 : (i + 1 + fuel) = (i + (fuel + 1)) := by omega
        rw [e, e2] at hr
        rw [hr]
        -- the pure side
        have hp : readKeys (fuel + 1) s.data [] =
            (readKeys fuel ((s.data.drop 4).drop (keyOf s.data).keyLen) []).map
              (fun p => ((keyOf s.data).bytes ++ p.1, p.2)) := by
          have h4' : ¬ s.data.length < 4 := by simpa using h4
          have hk' : ¬ (s.data.drop 4).length < beVal ((s.data.drop 2).take 2) := by simpa [keyOf] using hk
          rw [readKeys]
          simp only [h4', if_false, hk']
          rw [readKeys_acc, keyOf_bytes s.data (by simp at hk'; simp; omega)]
          rfl
        cases r with
        | none =>
          simp only [bind_ok, pure_eq_ok]
          refine ⟨none, rfl, ?_⟩
          simp only [] at hm
          rw [hp, d3] at *
          rw [hm]; rfl
        | some q =>
          obtain ⟨l, rem, n⟩ := q
          simp only [bind_ok, pure_eq_ok]
          obtain ⟨hn, hlen, ks, hks, hl, hrk⟩ := hm
          refine ⟨_, rfl, by omega, by omega, keyOf s.data :: ks, by simp [hks], ?_, ?_⟩
          · rw [hl]
            simp only [take_set_succ _ _ _ (show i < ls2.encryptionKeys.length by omega), List.map_cons, List.append_assoc,
              List.singleton_append]
          · rw [hp, ← d3, hrk]; rfl


/-- the lines of the pure `readLeaseSet2` that read the key count and the keys -/
def keysPure (d : Bytes) : Option (Bytes × Bytes) :=
  match d with
  | [] => none
  | nk :: r => if nk.toNat < 1 ∨ nk.toNat > 16 then none else readKeys nk.toNat r []

theorem head_of_data {s : Sl} {b : UInt8} {t : Bytes} (h : s.data = b :: t) :
    index s 0 = .ok b ∧ sliceFrom s 1 = .ok (s.adv 1) ∧ (s.adv 1).data = t ∧ (s.adv 1).len + 1 = s.len := by
  have hl : s.len = t.length + 1 := by rw [← s.data_length, h]; simp
  refine ⟨?_, ?_, ?_, ?_⟩
  · rw [index_eq (by omega) (by omega), h]; rfl
  · have := sliceFrom_adv (s := s) (n := 1) (by omega)
    simpa using this
  · rw [Sl.adv_data (by omega), h]; rfl
  · rw [Sl.adv_len (by omega)]; omega

theorem parseEncryptionKeysC_spec (ls2 : LS2) (s : Sl) :
    ∃ r, parseEncryptionKeysC ls2 s = .ok r ∧
      match r with
      | none => keysPure s.data = none
      | some (l, rem) => ∃ (nk : UInt8) (ks : List EncKey), ks.length = nk.toNat ∧ 1 ≤ nk.toNat ∧ nk.toNat ≤ 16 ∧
          l = { ls2 with encryptionKeys := ks.map some } ∧ rem.len + 1 + 4 * ks.length ≤ s.len ∧
          s.data.head? = some nk ∧ keysPure s.data = some (ks.flatMap EncKey.bytes, rem.data) := by
  simp only [parseEncryptionKeysC, Sl.ilen_eq]
  cases hd : s.data with
  | nil =>
    have : s.len = 0 := by rw [← s.data_length, hd]; rfl
    have : (s.len : Int) < 1 := by omega
    simp only [this, if_true, pure_eq_ok]
    exact ⟨none, rfl, rfl⟩
  | cons nk t =>
    obtain ⟨h1, h2, h3, h4⟩ := head_of_data hd
    have : ¬ (s.len : Int) < 1 := by omega
    simp only [this, if_false, h1, h2, bind_ok]
    by_cases hn : nk.toNat < 1 ∨ nk.toNat > 16
    · have : ((nk.toNat : Nat) : Int) < 1 ∨ ((nk.toNat : Nat) : Int) > 16 := by omega
      simp only [this, if_true, pure_eq_ok]
      refine ⟨none, rfl, ?_⟩
      simp only [keysPure, hn, if_true]
    · have : ¬ (((nk.toNat : Nat) : Int) < 1 ∨ ((nk.toNat : Nat) : Int) > 16) := by omega
      simp only [this, if_false, Int.toNat_natCast]
      have hlen : 0 + nk.toNat = ({ ls2 with encryptionKeys := List.replicate nk.toNat none } : LS2).encryptionKeys.length := by
        simp
      obtain ⟨r, hr, hm⟩ := keysLoop_spec nk.toNat 0 _ (s.adv 1) hlen
      simp only [Nat.zero_add, Int.cast_ofNat_Int] at hr
      rw [hr]
      cases r with
      | none =>
        simp only [bind_ok, pure_eq_ok]
        refine ⟨none, rfl, ?_⟩
        simp only [] at hm
        simp only [keysPure, hn, if_false]
        rw [← h3]; exact hm
      | some q =>
        obtain ⟨l, rem, n⟩ := q
        obtain ⟨-, hlen', ks, hks, hl, hrk⟩ := hm
        simp only [bind_ok, pure_eq_ok]
        refine ⟨_, rfl, nk, ks, hks, by omega, by omega, ?_, by omega, rfl, ?_⟩
        · rw [hl]; simp
        · simp only [keysPure, hn, if_false]
          rw [← h3]; exact hrk

/-! ### the lease loop -/

theorem readLease2S_eq (s : Sl) :
    readLease2S s = .ok (if s.len < 40 then none else some (s.data.take 40, s.adv 40)) := by
  simp only [readLease2S, Sl.ilen_eq]
  by_cases h : s.len < 40
  · have : (s.len : Int) < 40 := by omega
    simp only [this, if_true, h, pure_eq_ok]
  · have : ¬ (s.len : Int) < 40 := by omega
    simp only [this, if_false, h]
    rw [mk_eq (by omega), sliceTo_eq (by omega) (by omega), sliceFrom_eq (by omega) (by omega)]
    simp only [bind_ok, Int.reduceToNat, Int.reduceAdd]
    have hL : (copy (Sl.zeros 40) (s.sub 0 40)).len = 40 := rfl
    rw [slice_eq (by omega) (by omega) (by rw [hL]; omega), sliceFrom_eq (by omega) (by rw [hL]; omega)]
    simp only [bind_ok, Int.reduceToNat, hL]
    rw [beUint32_eq (by rw [Sl.sub_len (by omega) (by rw [hL]; omega)]; omega),
      beUint32_eq (by rw [Sl.sub_len (by omega) (by rw [hL]; omega)]; omega)]
    simp only [bind_ok, pure_eq_ok]
    rw [copy_zeros_data (by rw [Sl.sub_len (by omega) (by omega)]; omega), Sl.sub_data_to (by omega), List.take_take]
    rfl

theorem readFixed_succ (n : Nat) (d : Bytes) :
    readFixed (n + 1) 40 d =
      if d.length < 40 then none else (readFixed n 40 (d.drop 40)).map (fun p => (d.take 40 ++ p.1, p.2)) := by
  simp only [readFixed, List.length_drop]
  by_cases h : d.length < 40
  · have : d.length < (n + 1) * 40 := by omega
    simp only [this, if_true, h]
  · simp only [h, if_false]
    by_cases h2 : d.length < (n + 1) * 40
    · have : d.length - 40 < n * 40 := by omega
      simp only [h2, if_true, this, Option.map_none]
    · have : ¬ d.length - 40 < n * 40 := by omega
      simp only [h2, if_false, this, Option.map_some, List.drop_drop]
      congr 2
      · rw [show (n + 1) * 40 = 40 + n * 40 by omega, ← take_split3]
      · rw [show (n + 1) * 40 = 40 + n * 40 by omega]

theorem leaseLoop_spec : ∀ (fuel i : Nat) (leases : List Bytes) (s : Sl), i + fuel = leases.length →
    ∃ r, parseLease2ArrayLoopC fuel (i : Int) ((i + fuel : Nat) : Int) leases s = .ok r ∧
      match r with
      | none => readFixed fuel 40 s.data = none
      | some (ls, rem, n) => n = fuel ∧ rem.len + 40 * fuel = s.len ∧
          ∃ xs : List Bytes, xs.length = fuel ∧ ls = leases.take i ++ xs ∧
            readFixed fuel 40 s.data = some (xs.flatten, rem.data) := by
  intro fuel
  induction fuel with
  | zero =>
    intro i leases s hi
    refine ⟨_, rfl, rfl, by omega, [], rfl, ?_, ?_⟩
    · simp only [List.append_nil]; rw [List.take_of_length_le (by omega)]
    · simp [readFixed]
  | succ fuel ih =>
    intro i leases s hi
    simp only [parseLease2ArrayLoopC]
    have hc : ¬ ¬ ((i : Int) < ((i + (fuel + 1) : Nat) : Int)) := by omega
    simp only [hc, if_false, readLease2S_eq, bind_ok]
    rw [readFixed_succ]
    simp only [Sl.data_length]
    by_cases h : s.len < 40
    · simp only [h, if_true, pure_eq_ok]
      exact ⟨none, rfl, trivial⟩
    · simp only [h, if_false, setAt_eq _ _ _ (show i < leases.length by omega), bind_ok]
      have hi' : (i + 1) + fuel = (leases.set i (s.data.take 40)).length := by simp; omega
      obtain ⟨r, hr, hm⟩ := ih (i + 1) _ (s.adv 40) hi'
      have e : (((i + 1 : Nat) : Int)) = (i : Int) + 1 := by omega
      have e2 : (i + 1 + fuel) = (i + (fuel + 1)) := by omega
      rw [e, e2] at hr
      rw [hr]
      have l1 := Sl.adv_len (s := s) (n := 40) (by omega)
      have d1 := Sl.adv_data (s := s) (n := 40) (by omega)
      cases r with
      | none =>
        simp only [bind_ok, pure_eq_ok]
        refine ⟨none, rfl, ?_⟩
        simp only [] at hm ⊢
        rw [← d1, hm]; rfl
      | some q =>
        obtain ⟨ls, rem, n⟩ := q
        obtain ⟨hn, hlen, xs, hxs, hl, hrk⟩ := hm
        simp only [bind_ok, pure_eq_ok]
        refine ⟨_, rfl, by omega, by omega, s.data.take 40 :: xs, by simp [hxs], ?_, ?_⟩
        · rw [hl, take_set_succ _ _ _ (show i < leases.length by omega)]; simp
        · rw [← d1, hrk]; rfl


/-- the lines of the pure `readLeaseSet2` that read the lease count and the leases -/
def leasesPure (d : Bytes) : Option (Bytes × Bytes) :=
  match d with
  | [] => none
  | nl :: r => if nl.toNat > 16 then none else readFixed nl.toNat 40 r

theorem parseLeasesC_spec (ls2 : LS2) (s : Sl) :
    ∃ r, parseLeasesC ls2 s = .ok r ∧
      match r with
      | none => leasesPure s.data = none
      | some (l, rem) => ∃ (nl : UInt8) (xs : List Bytes), xs.length = nl.toNat ∧ nl.toNat ≤ 16 ∧
          l = { ls2 with leases := xs } ∧ rem.len + 1 + 40 * xs.length = s.len ∧
          s.data.head? = some nl ∧ leasesPure s.data = some (xs.flatten, rem.data) := by
  simp only [parseLeasesC, Sl.ilen_eq]
  cases hd : s.data with
  | nil =>
    have : s.len = 0 := by rw [← s.data_length, hd]; rfl
    have : (s.len : Int) < 1 := by omega
    simp only [this, if_true, pure_eq_ok]
    exact ⟨none, rfl, rfl⟩
  | cons nl t =>
    obtain ⟨h1, h2, h3, h4⟩ := head_of_data hd
    have : ¬ (s.len : Int) < 1 := by omega
    simp only [this, if_false, h1, h2, bind_ok]
    by_cases hn : nl.toNat > 16
    · have : ((nl.toNat : Nat) : Int) > 16 := by omega
      simp only [this, if_true, pure_eq_ok]
      refine ⟨none, rfl, ?_⟩
      simp only [leasesPure, hn, if_true]
    · have : ¬ (((nl.toNat : Nat) : Int) > 16) := by omega
      have hneg : ¬ (((nl.toNat : Nat) : Int) < 0) := by omega
      simp only [this, if_false, parseLease2ArrayC, hneg, Int.toNat_natCast]
      have hlen : 0 + nl.toNat = (List.replicate nl.toNat ([] : Bytes)).length := by simp
      obtain ⟨r, hr, hm⟩ := leaseLoop_spec nl.toNat 0 _ (s.adv 1) hlen
      simp only [Nat.zero_add, Int.cast_ofNat_Int] at hr
      rw [hr]
      cases r with
      | none =>
        simp only [bind_ok, pure_eq_ok]
        refine ⟨none, rfl, ?_⟩
        simp only [] at hm
        simp only [leasesPure, hn, if_false]
        rw [← h3]; exact hm
      | some q =>
        obtain ⟨ls, rem, n⟩ := q
        obtain ⟨-, hlen', xs, hxs, hl, hrk⟩ := hm
        simp only [bind_ok, pure_eq_ok]
        refine ⟨_, rfl, nl, xs, hxs, by omega, ?_, by omega, rfl, ?_⟩
        · rw [hl]; simp
        · simp only [leasesPure, hn, if_false]
          rw [← h3]; exact hrk

/-- the type of the trailing signature: the transient type when an offline signature is present -/
def LS2.sigTypeOf (l : LS2) (k : KeysAndCert) : Nat :=
  match l.offlineSignature with
  | some o => if l.flags % 2 = 1 then o.sigtype else k.kc.spk
  | none => k.kc.spk

theorem parseSignatureAndFinalizeC_spec (ls2 : LS2) (s : Sl) (k : KeysAndCert) (hd : ls2.destination = some k) :
    ∃ r, parseSignatureAndFinalizeC ls2 s = .ok r ∧
      match r with
      | none => readSig s.data (ls2.sigTypeOf k) = none
      | some (l, rem) => ∃ sb, l = { ls2 with signature := sb } ∧
          readSig s.data (ls2.sigTypeOf k) = some (sb, rem.data) := by
  have hty : (if (ls2.hasOfflineKeys && ls2.offlineSignature.isSome) = true then do
        let o ← deref ls2.offlineSignature
        pure (o.sigtype : Int)
      else do
        let dest ← deref ls2.destination
        pure (dest.kc.spk : Int) : Go Int) = .ok ((ls2.sigTypeOf k : Nat) : Int) := by
    simp only [LS2.hasOfflineKeys, LS2.sigTypeOf, hd, deref, bind_ok, pure_eq_ok]
    cases ho : ls2.offlineSignature with
    | none => simp
    | some o =>
      by_cases hf : ls2.flags % 2 = 1
      · simp [hf]
      · simp [hf]
  simp only [parseSignatureAndFinalizeC, hty, bind_ok]
  obtain ⟨r, hr, hv⟩ := readSigS_spec s (ls2.sigTypeOf k)
  rw [hr, ← hv]
  cases r with
  | none => exact ⟨none, rfl, rfl⟩
  | some p =>
    obtain ⟨sb, rem⟩ := p
    exact ⟨_, rfl, sb, rfl, rfl⟩

/-- the lines of the pure `readLeaseSet2` after the options mapping: key count, keys, lease count, leases,
    signature of type `sigT`; the re-serialised bytes and the remainder -/
def ls2Tail (sigT : Nat) (r : Bytes) : Option (Bytes × Bytes) :=
  match r with
  | [] => none
  | nk :: r =>
    if nk.toNat < 1 ∨ nk.toNat > 16 then none else
    match readKeys nk.toNat r [] with
    | none => none
    | some (kb, r) =>
      match r with
      | [] => none
      | nl :: r =>
        if nl.toNat > 16 then none else
        match readFixed nl.toNat 40 r with
        | none => none
        | some (lb, r) =>
          match readSig r sigT with
          | none => none
          | some (sb, r) => some ([nk] ++ kb ++ [nl] ++ lb ++ sb, r)

theorem ls2Tail_eq (sigT : Nat) (r : Bytes) :
    ls2Tail sigT r =
      match keysPure r with
      | none => none
      | some (kb, r1) =>
        match leasesPure r1 with
        | none => none
        | some (lb, r2) =>
          match readSig r2 sigT with
          | none => none
          | some (sb, r3) => some ([r.headD 0] ++ kb ++ [r1.headD 0] ++ lb ++ sb, r3) := by
  unfold ls2Tail keysPure
  cases r with
  | nil => rfl
  | cons nk r =>
    simp only []
    split
    · rfl
    · cases readKeys nk.toNat r [] with
      | none => rfl
      | some p =>
        obtain ⟨kb, r1⟩ := p
        simp only [leasesPure]
        cases r1 with
        | nil => rfl
        | cons nl r1 =>
          simp only []
          split
          · rfl
          · cases readFixed nl.toNat 40 r1 with
            | none => rfl
            | some q => rfl

/-- what the parse helpers leave in `ls2`, re-serialised like the pure model does -/
def LS2.tailBytes (l : LS2) : Bytes :=
  [UInt8.ofNat l.encryptionKeys.length] ++
    l.encryptionKeys.flatMap (fun o => match o with | none => [] | some k => k.bytes) ++
    [UInt8.ofNat l.leases.length] ++ l.leases.flatten ++ l.signature

theorem flatMap_map_some (ks : List EncKey) :
    (ks.map some).flatMap (fun o => match o with | none => [] | some k => k.bytes) = ks.flatMap EncKey.bytes := by
  induction ks with
  | nil => rfl
  | cons k ks ih => simp [List.flatMap_cons, ih]

theorem head?_headD {d : Bytes} {b : UInt8} (h : d.head? = some b) : d.headD 0 = b := by
  cases d with
  | nil => simp at h
  | cons x xs => simp at h; simp [h]

/-- `parseKeysLeasesAndSignature` never panics once the destination is set, and computes the tail of the pure
    `readLeaseSet2` -/
theorem parseKeysLeasesAndSignatureC_spec (ls2 : LS2) (s : Sl) (k : KeysAndCert) (hd : ls2.destination = some k) :
    ∃ r, parseKeysLeasesAndSignatureC ls2 s = .ok r ∧
      r.map (fun p => (p.1.tailBytes, p.2.data)) = ls2Tail (ls2.sigTypeOf k) s.data := by
  simp only [parseKeysLeasesAndSignatureC]
  rw [ls2Tail_eq]
  obtain ⟨r1, hr1, hm1⟩ := parseEncryptionKeysC_spec ls2 s
  rw [hr1]
  cases r1 with
  | none =>
    simp only [] at hm1
    rw [hm1]; exact ⟨none, rfl, rfl⟩
  | some p1 =>
    obtain ⟨l1, s1⟩ := p1
    obtain ⟨nk, ks, hks, hk1, hk16, hl1, -, hh1, hp1⟩ := hm1
    simp only [bind_ok, hp1]
    obtain ⟨r2, hr2, hm2⟩ := parseLeasesC_spec l1 s1
    rw [hr2]
    cases r2 with
    | none =>
      simp only [] at hm2
      rw [hm2]; exact ⟨none, rfl, rfl⟩
    | some p2 =>
      obtain ⟨l2, s2⟩ := p2
      obtain ⟨nl, xs, hxs, hn16, hl2, -, hh2, hp2⟩ := hm2
      simp only [bind_ok, hp2]
      have hd2 : l2.destination = some k := by rw [hl2, hl1]; exact hd
      obtain ⟨r3, hr3, hm3⟩ := parseSignatureAndFinalizeC_spec l2 s2 k hd2
      have hst : l2.sigTypeOf k = ls2.sigTypeOf k := by rw [hl2, hl1]; rfl
      rw [hr3]
      rw [hst] at hm3
      cases r3 with
      | none =>
        simp only [] at hm3
        rw [hm3]; exact ⟨none, rfl, rfl⟩
      | some p3 =>
        obtain ⟨l3, s3⟩ := p3
        obtain ⟨sb, hl3, hp3⟩ := hm3
        refine ⟨_, rfl, ?_⟩
        simp only [hp3, Option.map_some]
        congr 2
        rw [hl3, hl2, hl1]
        simp only [LS2.tailBytes, List.length_map, hks, hxs, flatMap_map_some, head?_headD hh1, head?_headD hh2]
        have e1 : UInt8.ofNat nk.toNat = nk := by simp
        have e2 : UInt8.ofNat nl.toNat = nl := by simp
        rw [e1, e2]


/-! ### loop bounds, for arbitrary arguments -/

theorem parseSingleEncryptionKeyC_consumes {ls2 : LS2} {i : Int} {s : Sl} {l' : LS2} {s' : Sl}
    (h : parseSingleEncryptionKeyC ls2 i s = .ok (some (l', s'))) : s'.len + 4 ≤ s.len := by
  simp only [parseSingleEncryptionKeyC, Sl.ilen_eq] at h
  by_cases h4 : s.len < 4
  · have : (s.len : Int) < 2 + 2 := by omega
    simp only [this, if_true] at h
    simp at h
  · have : ¬ (s.len : Int) < 2 + 2 := by omega
    simp only [this, if_false, extractEncryptionKeyHeaderC_eq s (by omega), bind_ok] at h
    have l1 := Sl.adv_len (s := s) (n := 2) (by omega)
    have l2 := Sl.adv_len (s := s.adv 2) (n := 2) (by omega)
    have hl : ((s.adv 2).adv 2).len = s.len - 4 := by omega
    by_cases hk : s.len - 4 < beVal ((s.data.drop 2).take 2)
    · have : (((s.adv 2).adv 2).len : Int) < (beVal ((s.data.drop 2).take 2) : Int) := by omega
      simp only [this, if_true] at h
      simp at h
    · have : ¬ (((s.adv 2).adv 2).len : Int) < (beVal ((s.data.drop 2).take 2) : Int) := by omega
      simp only [this, if_false, extractEncryptionKeyDataC_eq _ _ (show beVal ((s.data.drop 2).take 2) ≤ ((s.adv 2).adv 2).len by omega),
        bind_ok, storeEncryptionKeyC, setAt] at h
      split at h
      · simp only [bind_ok, pure_eq_ok, Except.ok.injEq, Option.some.injEq, Prod.mk.injEq] at h
        rw [← h.2, Sl.adv_len (by omega)]; omega
      · simp at h

/-- LeaseSet2 encryption-key loop: at most `fuel` iterations, never past `numKeys`, and every iteration
    consumes at least 4 bytes of the remaining input -/
theorem parseEncryptionKeysLoopC_bounds : ∀ (fuel : Nat) (i numKeys : Int) (ls2 : LS2) (s : Sl) (l : LS2) (rem : Sl) (n : Nat),
    parseEncryptionKeysLoopC fuel i numKeys ls2 s = .ok (some (l, rem, n)) →
      n ≤ fuel ∧ (n = 0 ∨ i + n ≤ numKeys) ∧ rem.len + 4 * n ≤ s.len := by
  intro fuel
  induction fuel with
  | zero =>
    intro i numKeys ls2 s l rem n h
    simp only [parseEncryptionKeysLoopC, pure_eq_ok, Except.ok.injEq, Option.some.injEq, Prod.mk.injEq] at h
    obtain ⟨-, h2, h3⟩ := h
    subst h2 h3
    exact ⟨by omega, Or.inl rfl, by omega⟩
  | succ fuel ih =>
    intro i numKeys ls2 s l rem n h
    simp only [parseEncryptionKeysLoopC] at h
    by_cases hc : i < numKeys
    · simp only [hc, not_true_eq_false, if_false] at h
      cases hp : parseSingleEncryptionKeyC ls2 i s with
      | error e => simp [hp] at h
      | ok r =>
        cases r with
        | none => simp [hp] at h
        | some q =>
          obtain ⟨l', s'⟩ := q
          have hcons := parseSingleEncryptionKeyC_consumes hp
          simp only [hp, bind_ok] at h
          cases hq : parseEncryptionKeysLoopC fuel (i + 1) numKeys l' s' with
          | error e => simp [hq] at h
          | ok r2 =>
            cases r2 with
            | none => simp [hq] at h
            | some t =>
              obtain ⟨l2, rem2, n2⟩ := t
              simp only [hq, bind_ok, pure_eq_ok, Except.ok.injEq, Option.some.injEq, Prod.mk.injEq] at h
              obtain ⟨-, h2, h3⟩ := h
              subst h2 h3
              obtain ⟨b1, b2, b3⟩ := ih _ _ _ _ _ _ _ hq
              exact ⟨by omega, Or.inr (by omega), by omega⟩
    · simp only [hc, not_false_eq_true, if_true, pure_eq_ok, Except.ok.injEq, Option.some.injEq, Prod.mk.injEq] at h
      obtain ⟨-, h2, h3⟩ := h
      subst h2 h3
      exact ⟨by omega, Or.inl rfl, by omega⟩

/-- LeaseSet2 lease loop: at most `fuel` iterations, never past `numLeases`, every iteration consumes
    exactly 40 bytes -/
theorem parseLease2ArrayLoopC_bounds : ∀ (fuel : Nat) (i numLeases : Int) (ls : List Bytes) (s : Sl) (ls' : List Bytes) (rem : Sl) (n : Nat),
    parseLease2ArrayLoopC fuel i numLeases ls s = .ok (some (ls', rem, n)) →
      n ≤ fuel ∧ (n = 0 ∨ i + n ≤ numLeases) ∧ rem.len + 40 * n = s.len := by
  intro fuel
  induction fuel with
  | zero =>
    intro i numLeases ls s ls' rem n h
    simp only [parseLease2ArrayLoopC, pure_eq_ok, Except.ok.injEq, Option.some.injEq, Prod.mk.injEq] at h
    obtain ⟨-, h2, h3⟩ := h
    subst h2 h3
    exact ⟨by omega, Or.inl rfl, by omega⟩
  | succ fuel ih =>
    intro i numLeases ls s ls' rem n h
    simp only [parseLease2ArrayLoopC] at h
    by_cases hc : i < numLeases
    · simp only [hc, not_true_eq_false, if_false, readLease2S_eq, bind_ok] at h
      by_cases h40 : s.len < 40
      · simp [h40] at h
      · simp only [h40, if_false] at h
        cases hs : setAt ls i (s.data.take 40) with
        | error e => simp [hs] at h
        | ok ls1 =>
          simp only [hs, bind_ok] at h
          cases hq : parseLease2ArrayLoopC fuel (i + 1) numLeases ls1 (s.adv 40) with
          | error e => simp [hq] at h
          | ok r2 =>
            cases r2 with
            | none => simp [hq] at h
            | some t =>
              obtain ⟨l2, rem2, n2⟩ := t
              simp only [hq, bind_ok, pure_eq_ok, Except.ok.injEq, Option.some.injEq, Prod.mk.injEq] at h
              obtain ⟨-, h2, h3⟩ := h
              subst h2 h3
              obtain ⟨b1, b2, b3⟩ := ih _ _ _ _ _ _ _ hq
              have := Sl.adv_len (s := s) (n := 40) (by omega)
              exact ⟨by omega, Or.inr (by omega), by omega⟩
    · simp only [hc, not_false_eq_true, if_true, pure_eq_ok, Except.ok.injEq, Option.some.injEq, Prod.mk.injEq] at h
      obtain ⟨-, h2, h3⟩ := h
      subst h2 h3
      exact ⟨by omega, Or.inl rfl, by omega⟩


/-! ### EncryptedLeaseSet helpers -/

theorem elsParseSigTypeC_eq (els : ELS) (s : Sl) (h : 2 ≤ s.len) :
    elsParseSigTypeC els s = .ok (if sigPubSize (beVal (s.data.take 2)) = 0 then none
      else some ({ els with sigType := beVal (s.data.take 2) }, s.adv 2)) := by
  have : ¬ (s.len : Int) < 2 := by omega
  simp only [elsParseSigTypeC, Sl.ilen_eq, this, if_false]
  rw [sliceTo_eq (by omega) (by omega)]
  simp only [bind_ok, Int.reduceToNat, beUint16_sub (s := s) h]
  by_cases h0 : sigPubSize (beVal (s.data.take 2)) = 0
  · simp only [h0, if_true, pure_eq_ok]
  · have a1 := sliceFrom_adv (s := s) (n := 2) (by omega)
    simp only [Int.cast_ofNat_Int] at a1
    simp only [h0, if_false, a1, bind_ok, pure_eq_ok]

theorem elsParseBlindedPublicKeyC_eq (els : ELS) (s : Sl) :
    elsParseBlindedPublicKeyC els s = .ok (if s.len < sigPubSize els.sigType then none
      else some ({ els with blindedPublicKey := s.data.take (sigPubSize els.sigType) }, s.adv (sigPubSize els.sigType))) := by
  simp only [elsParseBlindedPublicKeyC, Sl.ilen_eq]
  by_cases h : s.len < sigPubSize els.sigType
  · have : (s.len : Int) < (sigPubSize els.sigType : Int) := by omega
    simp only [this, if_true, h, pure_eq_ok]
  · have : ¬ (s.len : Int) < (sigPubSize els.sigType : Int) := by omega
    simp only [this, if_false, h]
    rw [mk_eq (by omega), sliceTo_eq (by omega) (by omega), sliceFrom_adv (by omega)]
    simp only [bind_ok, pure_eq_ok, Int.toNat_natCast]
    rw [copy_zeros_data (by rw [Sl.sub_len (by omega) (by omega)]; omega), Sl.sub_data_to (by omega), List.take_take]
    simp

theorem elsParseHeaderFieldsC_eq (els : ELS) (s : Sl) :
    elsParseHeaderFieldsC els s = .ok (if s.len < 8 then none
      else if beVal ((s.data.drop 6).take 2) / 4 ≠ 0 then none
      else some ({ els with published := beVal (s.data.take 4), expires := beVal ((s.data.drop 4).take 2), flags := beVal ((s.data.drop 6).take 2) },
                 ((s.adv 4).adv 2).adv 2)) := by
  simp only [elsParseHeaderFieldsC, Sl.ilen_eq]
  by_cases h : s.len < 8
  · have : (s.len : Int) < 4 + 2 + 2 := by omega
    simp only [this, if_true, h, pure_eq_ok]
  · have : ¬ (s.len : Int) < 4 + 2 + 2 := by omega
    simp only [this, if_false, h]
    have a1 := sliceFrom_adv (s := s) (n := 4) (by omega)
    have l1 := Sl.adv_len (s := s) (n := 4) (by omega)
    have a2 := sliceFrom_adv (s := s.adv 4) (n := 2) (by omega)
    have l2 := Sl.adv_len (s := s.adv 4) (n := 2) (by omega)
    have a3 := sliceFrom_adv (s := (s.adv 4).adv 2) (n := 2) (by omega)
    simp only [Int.cast_ofNat_Int] at a1 a2 a3
    rw [sliceTo_eq (by omega) (by omega)]
    simp only [bind_ok, Int.reduceToNat, a1, beUint32_sub (s := s) (by omega)]
    rw [sliceTo_eq (by omega) (by omega)]
    simp only [bind_ok, Int.reduceToNat, a2, beUint16_sub (s := s.adv 4) (by omega)]
    rw [sliceTo_eq (by omega) (by omega)]
    simp only [bind_ok, Int.reduceToNat, a3, beUint16_sub (s := (s.adv 4).adv 2) (by omega), pure_eq_ok]
    have d1 : (s.adv 4).data = s.data.drop 4 := Sl.adv_data (by omega)
    have d2 : ((s.adv 4).adv 2).data = s.data.drop 6 := by rw [Sl.adv_data (by omega), d1, List.drop_drop]
    rw [d2, d1]
    split <;> rfl

theorem elsParseEncryptedInnerDataC_eq (els : ELS) (s : Sl) :
    elsParseEncryptedInnerDataC els s = .ok (if s.len < 2 then none
      else if beVal (s.data.take 2) = 0 then none
      else if s.len - 2 < beVal (s.data.take 2) then none
      else some ({ els with innerLength := beVal (s.data.take 2), encryptedInnerData := (s.data.drop 2).take (beVal (s.data.take 2)) },
                 (s.adv 2).adv (beVal (s.data.take 2)))) := by
  simp only [elsParseEncryptedInnerDataC, Sl.ilen_eq]
  by_cases h : s.len < 2
  · have : (s.len : Int) < 2 := by omega
    simp only [this, if_true, h, pure_eq_ok]
  · have : ¬ (s.len : Int) < 2 := by omega
    simp only [this, if_false, h]
    have a1 := sliceFrom_adv (s := s) (n := 2) (by omega)
    have l1 := Sl.adv_len (s := s) (n := 2) (by omega)
    have d1 : (s.adv 2).data = s.data.drop 2 := Sl.adv_data (by omega)
    simp only [Int.cast_ofNat_Int] at a1
    rw [sliceTo_eq (by omega) (by omega)]
    simp only [bind_ok, Int.reduceToNat, a1, beUint16_sub (s := s) (by omega)]
    generalize beVal (s.data.take 2) = il
    by_cases h0 : il = 0
    · simp only [h0, if_true, pure_eq_ok]
    · simp only [h0, if_false]
      by_cases hk : s.len - 2 < il
      · have : ((s.adv 2).len : Int) < (il : Int) := by omega
        simp only [this, if_true, hk, pure_eq_ok]
      · have : ¬ ((s.adv 2).len : Int) < (il : Int) := by omega
        simp only [this, if_false, hk]
        rw [mk_eq (by omega), sliceTo_eq (by omega) (by omega), sliceFrom_adv (by omega)]
        simp only [bind_ok, pure_eq_ok, Int.toNat_natCast]
        rw [copy_zeros_data (by rw [Sl.sub_len (by omega) (by omega)]; omega), Sl.sub_data_to (by omega), List.take_take, d1]
        simp

/-- serialised offline signature / type of the trailing signature, as the pure `readELS` tracks them -/
def offBytes (oo : Option OffSig) : Bytes := match oo with | none => [] | some o => o.bytes
def offSigT (oo : Option OffSig) (st : Nat) : Nat := match oo with | none => st | some o => o.sigtype

theorem elsParseOfflineSignatureC_spec (els : ELS) (s : Sl) (ho : els.offlineSignature = none) :
    ∃ r, elsParseOfflineSignatureC els s = .ok r ∧
      match r with
      | none => (if els.flags % 2 = 1 then readOffSig s.data els.sigType else some ([], s.data, els.sigType)) = none
      | some (e, rem) => ∃ oo : Option OffSig, e = { els with offlineSignature := oo } ∧ (oo.isSome ↔ els.flags % 2 = 1) ∧
          (if els.flags % 2 = 1 then readOffSig s.data els.sigType else some ([], s.data, els.sigType)) =
            some (offBytes oo, rem.data, offSigT oo els.sigType) := by
  simp only [elsParseOfflineSignatureC, ELS.hasOfflineKeys]
  by_cases hf : els.flags % 2 = 1
  · simp only [hf, decide_true, Bool.not_true, Bool.false_eq_true, if_false, if_true]
    obtain ⟨r, hr, hv⟩ := readOffSigS_spec s els.sigType
    rw [hr, ← hv]
    cases r with
    | none => exact ⟨none, rfl, rfl⟩
    | some p =>
      obtain ⟨o, rem⟩ := p
      exact ⟨_, rfl, some o, rfl, by simp, rfl⟩
  · simp only [hf, decide_false, Bool.not_false, if_true, pure_eq_ok, if_false]
    refine ⟨_, rfl, none, ?_, by simp [hf], rfl⟩
    cases els; simp_all

theorem elsParseSignatureAndFinalizeC_spec (els : ELS) (s : Sl) (hoff : els.offlineSignature.isSome ↔ els.flags % 2 = 1) :
    ∃ r, elsParseSignatureAndFinalizeC els s = .ok r ∧
      match r with
      | none => readSig s.data (offSigT els.offlineSignature els.sigType) = none
      | some (e, rem) => ∃ sb, e = { els with signature := sb, signatureType := (offSigT els.offlineSignature els.sigType : Nat) } ∧
          readSig s.data (offSigT els.offlineSignature els.sigType) = some (sb, rem.data) := by
  have hty : (if (els.hasOfflineKeys && els.offlineSignature.isSome) = true then do
        let o ← deref els.offlineSignature
        pure (o.sigtype : Int)
      else pure (els.sigType : Int) : Go Int) = .ok ((offSigT els.offlineSignature els.sigType : Nat) : Int) := by
    simp only [ELS.hasOfflineKeys, offSigT, deref, bind_ok, pure_eq_ok]
    cases ho : els.offlineSignature with
    | none => simp
    | some o =>
      have : els.flags % 2 = 1 := hoff.mp (by simp [ho])
      simp [this]
  simp only [elsParseSignatureAndFinalizeC, hty, bind_ok]
  obtain ⟨r, hr, hv⟩ := readSigS_spec s (offSigT els.offlineSignature els.sigType)
  rw [hr, ← hv]
  cases r with
  | none => exact ⟨none, rfl, rfl⟩
  | some p =>
    obtain ⟨sb, rem⟩ := p
    exact ⟨_, rfl, sb, rfl, rfl⟩

theorem readSig_some {d : Bytes} {t : Nat} {sb r : Bytes} (h : readSig d t = some (sb, r)) :
    sigLen t ≠ 0 ∧ sb.length = sigLen t := by
  simp only [readSig] at h
  by_cases h0 : sigLen t = 0
  · simp [h0] at h
  · by_cases hl : d.length < sigLen t
    · simp [h0, hl] at h
    · simp only [h0, hl, if_false, Option.some.injEq, Prod.mk.injEq] at h
      refine ⟨h0, ?_⟩
      rw [← h.1]; simp; omega


/-- projection of a parsed EncryptedLeaseSet on what the pure model returns -/
def vELS (r : Option (ELS × Sl)) : Option (Bytes × Bytes) := r.map fun p => (p.1.bytes, p.2.data)

theorem getSignatureLengthC_of_sigLen {t : Nat} (h : sigLen t ≠ 0) : getSignatureLengthC (t : Int) = some (sigLen t : Int) := by
  rw [getSignatureLengthC_nat]; simp [h]

theorem hdr_split (r : Bytes) (h : 8 ≤ r.length) :
    beEnc 4 (beVal (r.take 4)) ++ beEnc 2 (beVal ((r.drop 4).take 2)) ++ beEnc 2 (beVal ((r.drop 6).take 2)) = r.take 8 := by
  have b1 := beEnc_beVal_take r 0 4 (by omega)
  have b2 := beEnc_beVal_take r 4 2 (by omega)
  have b3 := beEnc_beVal_take r 6 2 (by omega)
  simp only [List.drop_zero] at b1
  rw [b1, b2, b3, take_split3 r 4 2, take_split3 r 6 2]

theorem readELSS_spec (s : Sl) : ∃ r, readELSS s = .ok r ∧ vELS r = readELS s.data := by
  simp only [readELSS, readELS, Sl.ilen_eq, Sl.data_length]
  by_cases h : s.len < 109
  · have : (s.len : Int) < 109 := by omega
    simp only [this, if_true, h, pure_eq_ok]; exact ⟨none, rfl, rfl⟩
  have : ¬ (s.len : Int) < 109 := by omega
  simp only [this, if_false, h, elsParseAllFieldsC, elsParseSigTypeC_eq _ s (by omega)]
  generalize hst : beVal (s.data.take 2) = st
  by_cases hk0 : sigPubSize st = 0
  · simp only [hk0, if_true, bind_ok, pure_eq_ok]; exact ⟨none, rfl, rfl⟩
  simp only [hk0, if_false, bind_ok, elsParseBlindedPublicKeyC_eq, List.length_drop, Sl.data_length]
  have l1 := Sl.adv_len (s := s) (n := 2) (by omega)
  have d1 : (s.adv 2).data = s.data.drop 2 := Sl.adv_data (by omega)
  rw [l1]
  by_cases hk : s.len - 2 < sigPubSize st
  · simp only [hk, if_true, bind_ok, pure_eq_ok]; exact ⟨none, rfl, rfl⟩
  simp only [hk, if_false, bind_ok, elsParseHeaderFieldsC_eq]
  generalize hks : sigPubSize st = ks at *
  have l2 := Sl.adv_len (s := s.adv 2) (n := ks) (by omega)
  have d2 : ((s.adv 2).adv ks).data = (s.data.drop 2).drop ks := by rw [Sl.adv_data (by omega), d1]
  generalize hs2 : (s.adv 2).adv ks = s2 at *
  generalize hr2 : (s.data.drop 2).drop ks = r2 at *
  have hl2 : r2.length = s2.len := by rw [← d2]; simp
  have e2 : s.len - 2 - ks = s2.len := by omega
  rw [e2, d1]
  by_cases h8 : s2.len < 8
  · simp only [h8, if_true, bind_ok, pure_eq_ok]; exact ⟨none, rfl, rfl⟩
  simp only [h8, if_false, d2]
  by_cases hfl' : ¬ beVal ((r2.drop 6).take 2) / 4 = 0
  · simp only [hfl', ne_eq, not_false_eq_true, if_true, bind_ok, pure_eq_ok]; exact ⟨none, rfl, rfl⟩
  have hfl : beVal ((r2.drop 6).take 2) / 4 = 0 := by omega
  simp only [hfl, ne_eq, not_true_eq_false, if_false, bind_ok]
  have d3 : (((s2.adv 4).adv 2).adv 2).data = r2.drop 8 := by rw [adv3_data s2 (by omega), d2]
  generalize hs3 : ((s2.adv 4).adv 2).adv 2 = s3 at *
  -- offline signature
  obtain ⟨ro, hro, hmo⟩ := elsParseOfflineSignatureC_spec
    { sigType := st, blindedPublicKey := (s.data.drop 2).take ks, published := beVal (r2.take 4),
      expires := beVal ((r2.drop 4).take 2), flags := beVal ((r2.drop 6).take 2) } s3 rfl
  rw [hro]
  simp only [d3] at hmo
  cases ro with
  | none =>
    simp only [] at hmo
    simp only [bind_ok, pure_eq_ok, hmo]; exact ⟨none, rfl, rfl⟩
  | some po =>
    obtain ⟨e4, s4⟩ := po
    obtain ⟨oo, he4, hoo, hoff⟩ := hmo
    subst he4
    simp only [bind_ok, hoff, elsParseEncryptedInnerDataC_eq, Sl.data_length]
    by_cases h2 : s4.len < 2
    · simp only [h2, if_true, bind_ok, pure_eq_ok]; exact ⟨none, rfl, rfl⟩
    simp only [h2, if_false]
    generalize hil : beVal (s4.data.take 2) = il
    by_cases hi0 : il = 0
    · simp only [hi0, if_true, bind_ok, pure_eq_ok]; exact ⟨none, rfl, rfl⟩
    simp only [hi0, if_false, List.length_drop, Sl.data_length]
    by_cases hik : s4.len - 2 < il
    · simp only [hik, if_true, bind_ok, pure_eq_ok]; exact ⟨none, rfl, rfl⟩
    simp only [hik, if_false, bind_ok]
    have l5 := Sl.adv_len (s := s4) (n := 2) (by omega)
    have d5 : ((s4.adv 2).adv il).data = (s4.data.drop 2).drop il := by
      rw [Sl.adv_data (by omega), Sl.adv_data (by omega)]
    -- trailing signature
    obtain ⟨rs, hrs, hms⟩ := elsParseSignatureAndFinalizeC_spec
      { sigType := st, blindedPublicKey := (s.data.drop 2).take ks, published := beVal (r2.take 4),
        expires := beVal ((r2.drop 4).take 2), flags := beVal ((r2.drop 6).take 2), offlineSignature := oo,
        innerLength := il, encryptedInnerData := (s4.data.drop 2).take il } ((s4.adv 2).adv il) hoo
    rw [hrs]
    simp only [d5] at hms
    cases rs with
    | none =>
      simp only [] at hms
      simp only [bind_ok, pure_eq_ok, hms]; exact ⟨none, rfl, rfl⟩
    | some ps =>
      obtain ⟨e6, s6⟩ := ps
      obtain ⟨sb, he6, hsig⟩ := hms
      obtain ⟨hs0, hsl⟩ := readSig_some hsig
      simp only [bind_ok, hsig]
      -- Validate()
      have hv : e6.validateC = decide (beVal ((r2.drop 4).take 2) ≠ 0 ∧ ¬ il < 61) := by
        rw [he6]
        simp only [ELS.validateC, ELS.hasOfflineKeys, getSignatureLengthC_of_sigLen hs0, hsl]
        have hkl : ((s.data.drop 2).take ks).length = ks := by simp; omega
        have hin : ((s4.data.drop 2).take il).length = il := by simp; omega
        have hil16 : il < 65536 := by
          rw [← hil]; have := beVal_lt (s4.data.take 2); simp at this
          have : 256 ^ min 2 s4.len ≤ 256 ^ 2 := Nat.pow_le_pow_right (by omega) (by omega)
          omega
        have hfl' := hfl
        congr 1
        apply propext
        simp only [hks, hkl, hin, hfl', ne_eq, not_true_eq_false, not_false_eq_true, true_and, and_true]
        constructor
        · rintro ⟨-, ⟨he, -, -⟩, ⟨-, h61, -⟩⟩; exact ⟨he, h61⟩
        · rintro ⟨he, h61⟩
          refine ⟨by omega, ⟨he, ?_, ?_⟩, ⟨by omega, h61, by omega⟩⟩
          · intro ⟨ha, hb⟩
            have : oo.isSome = true := hoo.mpr (by simpa using ha)
            cases oo <;> simp_all
          · intro ⟨ha, hb⟩
            have : beVal ((r2.drop 6).take 2) % 2 = 1 := hoo.mp hb
            simp [this] at ha
      rw [hv]
      by_cases he0 : beVal ((r2.drop 4).take 2) = 0
      · simp only [he0, ne_eq, not_true_eq_false, false_and, decide_false, Bool.not_false, if_true, pure_eq_ok]
        exact ⟨none, rfl, rfl⟩
      by_cases h61 : il < 61
      · simp only [he0, ne_eq, not_false_eq_true, h61, not_true_eq_false, and_false, decide_false, Bool.not_false, if_true,
          pure_eq_ok, if_false]
        exact ⟨none, rfl, rfl⟩
      simp only [he0, ne_eq, not_false_eq_true, h61, and_self, decide_true, Bool.not_true, Bool.false_eq_true, if_false,
        pure_eq_ok]
      refine ⟨_, rfl, ?_⟩
      simp only [vELS, Option.map_some]
      congr 2
      rw [he6]
      simp only [ELS.bytes]
      have b0 : beEnc 2 st = s.data.take 2 := by
        rw [← hst]; have := beEnc_beVal_take s.data 0 2 (by simp; omega); simpa using this
      have bi : beEnc 2 il = s4.data.take 2 := by
        rw [← hil]; have := beEnc_beVal_take s4.data 0 2 (by simp; omega); simpa using this
      rw [b0, bi, hdr_split r2 (by omega)]
      cases oo <;> simp [offBytes, List.append_assoc]


/-- `ls2Tail` really is the tail of the pure `readLeaseSet2` (and the head is `readDestination` + 8 header
    bytes + optional offline signature + options) -/
theorem readLeaseSet2_decomp (d : Bytes) : readLeaseSet2 d =
    if d.length < 499 then none else
    match readDestination d with
    | none => none
    | some (k, r) =>
      match k.bytes with
      | none => none
      | some db =>
        if r.length < 8 then none else
        match (if beVal ((r.drop 6).take 2) % 2 = 1 then readOffSig (r.drop 8) k.kc.spk
               else some ([], r.drop 8, k.kc.spk)) with
        | none => none
        | some (ob, r1, sigT) =>
          match readOptions r1 true with
          | none => none
          | some (optb, r2) => (ls2Tail sigT r2).map (fun p => (db ++ r.take 8 ++ ob ++ optb ++ p.1, p.2)) := by
  unfold readLeaseSet2
  split
  · rfl
  · cases readDestination d with
    | none => rfl
    | some p =>
      obtain ⟨k, r⟩ := p
      simp only []
      cases k.bytes with
      | none => rfl
      | some db =>
        simp only []
        split
        · rfl
        · cases (if beVal ((r.drop 6).take 2) % 2 = 1 then readOffSig (r.drop 8) k.kc.spk
               else some ([], r.drop 8, k.kc.spk)) with
          | none => rfl
          | some q =>
            obtain ⟨ob, r1, sigT⟩ := q
            simp only []
            cases readOptions r1 true with
            | none => rfl
            | some o =>
              obtain ⟨optb, r2⟩ := o
              simp only [ls2Tail]
              cases r2 with
              | nil => rfl
              | cons nk r2 =>
                simp only []
                split
                · rfl
                · cases readKeys nk.toNat r2 [] with
                  | none => rfl
                  | some p =>
                    obtain ⟨kb, r3⟩ := p
                    simp only []
                    cases r3 with
                    | nil => rfl
                    | cons nl r3 =>
                      simp only []
                      split
                      · rfl
                      · cases readFixed nl.toNat 40 r3 with
                        | none => rfl
                        | some q =>
                          obtain ⟨lb, r4⟩ := q
                          simp only []
                          cases readSig r4 sigT with
                          | none => rfl
                          | some z =>
                            obtain ⟨sb, r5⟩ := z
                            simp [List.append_assoc]

/-! ### byte-level entry points -/

theorem onBytes_of_spec {α : Type} {f : Sl → Go (Option (α × Sl))} {g : Bytes → Option (α × Bytes)}
    (h : ∀ s, ∃ r, f s = .ok r ∧ vRem r = g s.data) (w : Bytes) : onBytes f w = .ok (g w) := by
  obtain ⟨r, hr, hv⟩ := h (.ofBytes w)
  simp only [onBytes, hr, bind_ok, pure_eq_ok, hv, Sl.ofBytes_data]

theorem onBytes_ok {α : Type} {f : Sl → Go (Option (α × Sl))} {w : Bytes} {r : Option (α × Sl)}
    (h : f (.ofBytes w) = .ok r) : onBytes f w = .ok (vRem r) := by
  simp only [onBytes, h, bind_ok, pure_eq_ok]

theorem onBytes_error {α : Type} {f : Sl → Go (Option (α × Sl))} {w : Bytes} {e : Panic}
    (h : f (.ofBytes w) = .error e) : onBytes f w = .error e := by
  simp only [onBytes, h, bind_error]

end I2P.Checked
