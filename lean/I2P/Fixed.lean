import I2P.Bytes
/-! Fixed-width integer helpers of `data/encoding.go` (C12: "the same holds for the fixed-width helpers").
    `w` is the width in bytes (2, 4, 8 in the library).  Go's conversions are modelled exactly:
    `uintN(v)` of a signed `v` is `v mod 2^(8w)`, `intN(u)` of an unsigned `u` is the two's-complement reading. -/
namespace I2P.Fixed
open I2P

/-- `data.EncodeUint16/32/64`: `binary.BigEndian.PutUintN` into a `[w]byte` -/
def encodeUint (w : Nat) (v : Nat) : Bytes := beEnc w v

/-- `data.DecodeUint16/32/64`: `binary.BigEndian.UintN` of a `[w]byte` -/
def decodeUint (b : Bytes) : Nat := beVal b

/-- Go's `uintN(value)` for a signed `value` -/
def toUnsigned (w : Nat) (v : Int) : Nat := (v % (256 ^ w : Nat)).toNat

/-- Go's `intN(u)` for an unsigned `u < 2^(8w)` -/
def toSigned (w : Nat) (u : Nat) : Int := if 2 * u < 256 ^ w then (u : Int) else (u : Int) - (256 ^ w : Nat)

/-- `data.EncodeInt16/32/64` = `EncodeUintN(uintN(value))` -/
def encodeInt (w : Nat) (v : Int) : Bytes := encodeUint w (toUnsigned w v)

/-- `data.DecodeInt16/32/64` = `intN(DecodeUintN(data))` -/
def decodeInt (b : Bytes) : Int := toSigned b.length (decodeUint b)

end I2P.Fixed
