import I2P.Structs
import I2P.Time
/-! # Twin entry points (C19, model half)

Code-mirroring models of the *second* (and third) way the library offers to parse or build a structure,
for the pairs whose two sides are separately written Go code.  Where one side is already modelled
(`I2P.Data`, `I2P.Kac`, `I2P.Structs`, `I2P.Mapping`, `I2P.Time`) that model is used, not repeated:

| Go entry point                                   | model                                |
|--------------------------------------------------|--------------------------------------|
| `signature.ReadSignature`                        | `Structs.readSig` (via `readSignature`) |
| `data.NewI2PString`, `NewI2PStringFromBytes`, `ReadI2PString` | `newStr`, `newStrFromBytes`, `readStr` |
| `data.NewIntegerFromInt`, `DecodeIntN`, `Integer.IntSafe` | `newIntegerFromInt`, `decodeIntN`, `integerIntSafe` |
| `data.ReadDate`, `NewDateFromUnix`, `NewDateFromMillis`, `DateFromTime`, `time.UnixMilli` | `readDate`, `newDateFromUnix`, `newDateFromMillis`, `dateFromTime`, `Time.timeUnixMilli` |
| `data.ReadHash`, `data.ReadMapping`              | `readHash`, `Mapping.readMapping`    |
| `lease.ReadLease`, `lease.ReadLease2`            | `Structs.readFixedN 44 / 40`         |
| `certificate.NewCertificateWithType`, `key_certificate.KeyCertificateFromCertificate` | `Kac.newCertWithType`, `Kac.keyCertFromCert` |

Everything below is the other side.  `none` = the Go function returns a non-nil error. Core only. -/

namespace I2P.Twins
open I2P I2P.Spec I2P.Kac I2P.Structs

/-- The pointer-returning wrappers `NewX(data) (*X, remainder, err)`: call `ReadX`; on error return
    `nil, remainder, err`; otherwise `&value, remainder, nil`.  (`signature.NewSignature`, `data.NewDate`,
    `lease.NewLeaseFromBytes`, `lease.NewLease2FromBytes`, `session_key.NewSessionKey`,
    `session_tag.NewSessionTag`, `session_tag.NewECIESSessionTag`.) -/
def ptrOf {α : Type} (r : Option (α × Bytes)) : Option (α × Bytes) :=
  match r with
  | none => none
  | some (v, rem) => some (v, rem)

/-! ### 1. Signature (`signature/utils.go`, `signature/signature_struct.go`) -/

/-- `getSignatureLength` (signature/utils.go): the range check, then the `switch` on the type code. -/
def getSignatureLength (t : Int) : Option Nat :=
  if t < 0 ∨ t > 65535 then none else
  match t.toNat with
  | 0 => some 40      -- DSA_SHA1_SIZE
  | 1 => some 64      -- ECDSA_SHA256_P256_SIZE
  | 2 => some 96      -- ECDSA_SHA384_P384_SIZE
  | 3 => some 132     -- ECDSA_SHA512_P521_SIZE
  | 4 => some 256     -- RSA_SHA256_2048_SIZE
  | 5 => some 384     -- RSA_SHA384_3072_SIZE
  | 6 => some 512     -- RSA_SHA512_4096_SIZE
  | 7 => some 64      -- EdDSA_SHA512_Ed25519_SIZE
  | 8 => some 64      -- EdDSA_SHA512_Ed25519ph_SIZE
  | 9 => none         -- GOST reserved
  | 10 => none        -- GOST reserved
  | 11 => some 64     -- RedDSA_SHA512_Ed25519_SIZE
  | _ => none         -- MLDSA reserved, experimental, unknown

/-- `signature.ReadSignature(data, sigType)` (signature/utils.go) for a Go `int` type code: the existing
    model `Structs.readSig` on the non-negative codes. -/
def readSignature (d : Bytes) (t : Int) : P := if t < 0 then none else readSig d t.toNat

/-- `signature.NewSignature(data, sigType)` (signature/signature_struct.go): pointer wrapper of `ReadSignature`. -/
def newSignature (d : Bytes) (t : Int) : P := ptrOf (readSignature d t)

/-- `signature.NewSignatureFromBytes(data, sigType)` (signature/signature_struct.go): own length lookup,
    *exact* length required, defensive copy. -/
def newSignatureFromBytes (d : Bytes) (t : Int) : Option Bytes :=
  match getSignatureLength t with
  | none => none
  | some n => if d.length ≠ n then none else some d

/-! ### 2. I2PString (`data/string.go`) -/

/-- `data.ToI2PString(data)`: `[]byte{byte(len)}` followed by `append`.  (`data.NewI2PString`, the twin,
    allocates `1+len` bytes, stores the length byte and `copy`s: `I2P.newStr`.) -/
def toI2PString (data : Bytes) : Option Bytes :=
  if data.length > STRING_MAX_SIZE then none else some ([UInt8.ofNat data.length] ++ data)

/-! ### 3. Integer (`data/encoding.go`) -/

/-- `data.EncodeIntN(value, size)` (data/encoding.go): its own copy of the range checks, `PutUint64` into an
    eight-byte buffer, then the low `size` bytes. -/
def encodeIntN (value size : Int) : Option Bytes :=
  if value < 0 then none
  else if size < 1 ∨ size > 8 then none
  else
    let maxValue : Nat := if size ≥ 8 then 2^64 - 1 else 2^(size.toNat * 8) - 1
    if toUInt64 value > maxValue then none
    else some ((beEnc 8 (toUInt64 value)).drop (8 - size.toNat))

/-- `data.EncodeUint16(v)` for `v : uint16` -/
def encodeUint16 (v : Nat) : Bytes := beEnc 2 v
/-- `data.EncodeUint32(v)` for `v : uint32` -/
def encodeUint32 (v : Nat) : Bytes := beEnc 4 v
/-- `data.EncodeUint64(v)` for `v : uint64` -/
def encodeUint64 (v : Nat) : Bytes := beEnc 8 v

/-- the harness's `EncodeUint<8n>(uint<8n>(v))` for `n ∈ {2,4,8}`: Go conversion `uint<8n>(int)` first -/
def encodeUintN (v : Int) (n : Nat) : Option Bytes :=
  match n with
  | 2 => some (encodeUint16 (toUInt64 v % 2^16))
  | 4 => some (encodeUint32 (toUInt64 v % 2^32))
  | 8 => some (encodeUint64 (toUInt64 v))
  | _ => none

/-! ### 4. Date (`data/date.go`) -/

/-- `data.NewDate(data)`: pointer wrapper of `ReadDate`. -/
def newDate (d : Bytes) : P := ptrOf (readDate d)

/-! ### 5. Hash (`data/hash.go`) -/

/-- `data.NewHashFromSlice(data)`: exactly 32 bytes, copied. -/
def newHashFromSlice (d : Bytes) : Option Bytes := if d.length ≠ 32 then none else some d

/-! ### 6. Mapping (`data/mapping.go`) -/

/-- `data.NewMapping(bytes)`: `ReadMapping`, then the address of the value — unconditionally (the error list
    does not make the pointer nil). -/
def newMapping (d : Bytes) : Mapping.Res := Mapping.readMapping d

/-! ### 7. Lease / Lease2 (`lease/utils.go`, `lease/lease2.go`) -/

/-- `lease.NewLeaseFromBytes` -/
def newLeaseFromBytes (d : Bytes) : P := ptrOf (readFixedN 44 d)
/-- `lease.NewLease2FromBytes` -/
def newLease2FromBytes (d : Bytes) : P := ptrOf (readFixedN 40 d)

/-! ### 8. SessionKey / SessionTag / ECIESSessionTag (`session_key/`, `session_tag/`) -/

/-- `session_key.ReadSessionKey` (session_key/session_key_struct.go) -/
def readSessionKey (d : Bytes) : P := if d.length < 32 then none else some (d.take 32, d.drop 32)
/-- `session_key.NewSessionKey` -/
def newSessionKey (d : Bytes) : P := ptrOf (readSessionKey d)

/-- `(*SessionTag).SetBytes` / `(*ECIESSessionTag).SetBytes` / `(*SessionKey).SetBytes` for an array of `n` bytes -/
def setBytes (n : Nat) (d : Bytes) : Option Bytes := if d.length ≠ n then none else some d

/-- `session_tag.ReadSessionTag` (session_tag/utils.go): copies the first 32 bytes itself -/
def readSessionTag (d : Bytes) : P := if d.length < 32 then none else some (d.take 32, d.drop 32)
/-- `session_tag.NewSessionTag` -/
def newSessionTag (d : Bytes) : P := ptrOf (readSessionTag d)
/-- `session_tag.NewSessionTagFromBytes` (session_tag/session_tag_struct.go): zero value, then `SetBytes` -/
def newSessionTagFromBytes (d : Bytes) : Option Bytes := setBytes 32 d

/-- `session_tag.NewECIESSessionTagFromBytes` (session_tag/ecies_session_tag.go) -/
def newECIESSessionTagFromBytes (d : Bytes) : Option Bytes := setBytes 8 d
/-- `session_tag.ReadECIESSessionTag`: length check, then `NewECIESSessionTagFromBytes(data[:8])` -/
def readECIESSessionTag (d : Bytes) : P :=
  if d.length < 8 then none else
  match newECIESSessionTagFromBytes (d.take 8) with
  | none => none
  | some st => some (st, d.drop 8)
/-- `session_tag.NewECIESSessionTag` (returns a nil remainder on error, unlike the other wrappers) -/
def newECIESSessionTag (d : Bytes) : P := ptrOf (readECIESSessionTag d)

/-! ### 9. Certificate builder vs direct constructors
    (`certificate/builder.go`, `certificate/certificate_struct.go`, `key_certificate/constructors.go`) -/

/-- `binary.BigEndian.PutUint16(p, uint16(v))` for a Go `int` -/
def putUint16 (v : Int) : Bytes := beEnc 2 (toUInt64 v % 2^16)

/-- `certificate.BuildKeyTypePayload(signingType, cryptoType)` -/
def buildKeyTypePayload (s c : Int) : Option Bytes :=
  if s < 0 then none
  else if c < 0 then none
  else if s > 65535 then none
  else if c > 65535 then none
  else some (putUint16 s ++ putUint16 c)

/-- `certificate.CertificateBuilder` (the certificate type is a `uint8`: `certType < 256` in every call) -/
structure CertBuilder where
  certType : Nat
  payload : Bytes
  signingType : Option Int
  cryptoType : Option Int
  payloadSet : Bool
deriving Repr, DecidableEq

/-- `certificate.NewCertificateBuilder()` -/
def newCertBuilder : CertBuilder :=
  { certType := 0, payload := [], signingType := none, cryptoType := none, payloadSet := false }

/-- `isValidCertType` (builder.go): NULL, HASHCASH, HIDDEN, SIGNED, MULTIPLE, KEY -/
def isValidCertType (t : Nat) : Bool :=
  match t with
  | 0 | 1 | 2 | 3 | 4 | 5 => true
  | _ => false

/-- `(*CertificateBuilder).WithType`: `none` = error, the builder is left unchanged -/
def CertBuilder.withType (cb : CertBuilder) (t : Nat) : Option CertBuilder :=
  if !isValidCertType t then none else some { cb with certType := t }

/-- `(*CertificateBuilder).WithKeyTypes`: `none` = error, the builder is left unchanged -/
def CertBuilder.withKeyTypes (cb : CertBuilder) (s c : Int) : Option CertBuilder :=
  if s < 0 then none
  else if c < 0 then none
  else if s > 65535 then none
  else if c > 65535 then none
  else some { cb with certType := 5, signingType := some s, cryptoType := some c, payloadSet := false }

/-- `(*CertificateBuilder).WithPayload` (cannot fail) -/
def CertBuilder.withPayload (cb : CertBuilder) (p : Bytes) : CertBuilder :=
  { cb with payload := p, payloadSet := true }

/-- `validateKeyCertificateFields` -/
def CertBuilder.validateKeyCertificateFields (cb : CertBuilder) : Bool :=
  if cb.certType ≠ 5 then true
  else if cb.signingType.isNone ∧ cb.cryptoType.isNone ∧ !cb.payloadSet then false
  else if cb.signingType.isSome ∧ cb.cryptoType.isNone then false
  else if cb.cryptoType.isSome ∧ cb.signingType.isNone then false
  else true

/-- `(*CertificateBuilder).Validate` = `validateCertificateType`, `validateKeyCertificateFields` -/
def CertBuilder.validate (cb : CertBuilder) : Bool :=
  isValidCertType cb.certType && cb.validateKeyCertificateFields

/-- `buildKeyTypePayload` (method): no range check of its own, plain `uint16(...)` conversions -/
def CertBuilder.keyTypePayload (s c : Int) : Bytes := putUint16 s ++ putUint16 c

/-- `buildPayloadIfNeeded`: `none` = error -/
def CertBuilder.buildPayloadIfNeeded (cb : CertBuilder) : Option CertBuilder :=
  if cb.payloadSet then some cb
  else
    match cb.signingType, cb.cryptoType with
    | some s, some c => some { cb with payload := CertBuilder.keyTypePayload s c }
    | _, _ =>
      if cb.certType = 5 ∧ cb.payload.length = 0 then none
      else if cb.certType = 0 ∨ cb.certType = 2 then some { cb with payload := [] }
      else some cb

/-- `(*CertificateBuilder).Build` = `Validate`, `buildPayloadIfNeeded`, `NewCertificateWithType` -/
def CertBuilder.build (cb : CertBuilder) : Option Cert :=
  if !cb.validate then none else
  match cb.buildPayloadIfNeeded with
  | none => none
  | some cb' => newCertWithType cb'.certType cb'.payload

/-- one builder call -/
inductive Step
  | type (t : Nat)
  | payload (p : Bytes)
  | keyTypes (s c : Int)
deriving Repr

/-- apply a call; a rejected call returns an error and leaves the builder as it was -/
def CertBuilder.step (cb : CertBuilder) : Step → CertBuilder × Bool
  | .type t => match cb.withType t with | some cb' => (cb', true) | none => (cb, false)
  | .payload p => (cb.withPayload p, true)
  | .keyTypes s c => match cb.withKeyTypes s c with | some cb' => (cb', true) | none => (cb, false)

/-- a sequence of calls, rejected ones skipped (what `!certBuilder` of the harness does) -/
def CertBuilder.run (cb : CertBuilder) : List Step → CertBuilder
  | [] => cb
  | s :: rest => CertBuilder.run (cb.step s).1 rest

/-- The direct-constructor route for the configuration a builder state describes (the oracle of
    `harness/ops_builder.go`, word for word): the type last set; the explicit payload if `WithPayload` came
    last, else the payload `BuildKeyTypePayload` makes from the key types, else (no payload source) an empty
    payload — except that a KEY certificate without any payload source is an error. -/
def CertBuilder.direct (cb : CertBuilder) : Option Cert :=
  if cb.payloadSet then newCertWithType cb.certType cb.payload
  else
    match cb.signingType, cb.cryptoType with
    | some s, some c =>
      match buildKeyTypePayload s c with
      | none => none
      | some pl => newCertWithType cb.certType pl
    | _, _ => if cb.certType = 5 then none else newCertWithType cb.certType []

/-- `validateSigningType` (key_certificate/constructors.go): the ten implemented codes or the experimental range -/
def validSigningType (s : Int) : Bool :=
  if 65280 ≤ s ∧ s ≤ 65534 then true
  else s = 0 ∨ s = 1 ∨ s = 2 ∨ s = 3 ∨ s = 4 ∨ s = 5 ∨ s = 6 ∨ s = 7 ∨ s = 8 ∨ s = 11

/-- `validateCryptoType` (key_certificate/constructors.go) -/
def validCryptoType (c : Int) : Bool :=
  if 65280 ≤ c ∧ c ≤ 65534 then true
  else c = 0 ∨ c = 1 ∨ c = 2 ∨ c = 3 ∨ c = 4 ∨ c = 5 ∨ c = 6 ∨ c = 7

/-- `buildKeyCertificatePayload` (key_certificate/constructors.go): a `bytes.Buffer`, two `PutUint16` -/
def buildKeyCertificatePayload (s c : Int) : Bytes := putUint16 s ++ putUint16 c

/-- `key_certificate.NewKeyCertificateWithTypes(signingType, cryptoType)` -/
def newKeyCertWithTypes (s c : Int) : Option KeyCert :=
  if !validSigningType s then none
  else if !validCryptoType c then none
  else
    match newCertWithType 5 (buildKeyCertificatePayload s c) with
    | none => none
    | some cert => keyCertFromCert cert

end I2P.Twins
