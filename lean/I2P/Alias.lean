import I2P.Kac
import I2P.Structs
/-! Aliasing model for C08.  A byte field of a parsed value is either `owned` (the Go code made a copy:
    `make`+`copy`, array assignment, `append` to nil) or a `view` into the caller's buffer (a sub-slice).
    `observe buf` reads a field through the *current* contents of the buffer.  The provenance tables below
    record, field by field, what the Go readers do today; the scribble oracle of the harness checks the
    same thing on the real library (overwrite the buffer after parsing, compare every observation). -/
namespace I2P.Alias
open I2P I2P.Kac

inductive Fld
  | owned (b : Bytes)
  | view (off len : Nat)
deriving Repr, DecidableEq

def Fld.observe (buf : Bytes) : Fld → Bytes
  | .owned b => b
  | .view off len => (buf.drop off).take len

def Fld.isOwned : Fld → Bool
  | .owned _ => true
  | .view _ _ => false

abbrev Fields := List (String × Fld)
def noViews (fs : Fields) : Bool := fs.all (·.2.isOwned)
def observeAll (buf : Bytes) (fs : Fields) : List (String × Bytes) := fs.map fun f => (f.1, f.2.observe buf)

/-- `certificate.ReadCertificate` → `handleValidCertificateData`: kind, len and payload are `make`+`copy` -/
def certFields (c : Cert) : Fields :=
  [("cert.kind", .owned c.kind), ("cert.len", .owned c.len), ("cert.payload", .owned c.payload)]

/-- `keys_and_cert.ReadKeysAndCert`: ElGamal key = array copy, X25519 key = `make`+`copy`, padding =
    `make`+`copy` (`extractPaddingFromData`), DSA/ECDSA keys = array copies, Ed25519-family keys = `make`+`copy`
    before `NewEd25519PublicKey` (since the repair recorded as D07), certificate as above. -/
def kacFields (k : KeysAndCert) : Fields :=
  [("pub", .owned k.pub), ("padding", .owned k.padding), ("sig", .owned k.sig)] ++ certFields k.kc.cert

/-- the pre-repair provenance of the Ed25519 signing key (a sub-slice of the input at offset 352) -/
def kacFieldsBeforeD07 (k : KeysAndCert) : Fields :=
  [("pub", .owned k.pub), ("padding", .owned k.padding), ("sig", .view 352 32)] ++ certFields k.kc.cert

end I2P.Alias
