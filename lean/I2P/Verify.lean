import I2P.Structs
/-! Data-flow model of signature verification (property C05): `LeaseSet2.Verify`, `MetaLeaseSet.Verify`,
    `EncryptedLeaseSet.Verify`, `LeaseSet.Verify`, `RouterInfo.VerifySignature`,
    `OfflineSignature.VerifySignature`.

    The cryptography is an *unconstrained* oracle `SigScheme.verify alg key msg sig`; what is modelled is
    which algorithm, which key, which message and which signature the library hands to it, and in which
    order.  Field-level parse results (`Parsed`) are built on top of the validated byte-level readers of
    `I2P/Structs.lean`: acceptance, consumed bytes and remainder are those of `readX`; the fields are read
    off the input with the same stage functions (`readDestination`, `readOffSig`, …).  Core-only. -/

namespace I2P.Verify
open I2P I2P.Spec I2P.Kac I2P.Structs

/-- an arbitrary verification oracle.  `alg` is an *algorithm tag* (not an I2P signature type):
    `0` DSA-SHA1 (`dsa.DSAPublicKey.NewVerifier`), `1` ECDSA-P256/SHA-256, `2` ECDSA-P384/SHA-384
    (`ecdsa.ECP256PublicKey` / `ECP384PublicKey`), `7` pure Ed25519 (`crypto/ed25519.Verify`, false on a key
    that is not 32 or a signature that is not 64 bytes — both `go-i2p/crypto/ed25519.Ed25519Verifier.Verify`
    and `offline_signature.verifyEd25519` are exactly that), `8` the Ed25519ph API
    (`ed25519.VerifyWithOptions{Hash: SHA512}`) applied to the message as given. -/
structure SigScheme where
  verify : (alg : Nat) → (key msg sig : Bytes) → Bool

/-- the algorithm the library runs for a *key object* of I2P signing type `t`, i.e. for what
    `key_certificate.selectSigningKeyConstructor` builds and `NewVerifier()` of that object does:
    * `0 ↦ 0`  `constructDSAKey` → `dsa.DSAPublicKey`
    * `1 ↦ 1`  `constructECDSAP256Key` → `ecdsa.ECP256PublicKey`
    * `2 ↦ 2`  `constructECDSAP384Key` → `ecdsa.ECP384PublicKey`
    * `7 ↦ 7`  `constructEd25519Key` → `ed25519.Ed25519PublicKey`
    * `8 ↦ 7`  `constructEd25519PHKey` returns an ordinary `ed25519.Ed25519PublicKey`: an Ed25519ph key is
               verified with the non-prehashed algorithm (candidate finding D17)
    * `11 ↦ 7` `selectSigningKeyConstructor` maps RedDSA to `constructEd25519Key`
    Types 3–6 and unknown types have no constructor (`sigConstructible` is false); the value is irrelevant. -/
def algOf : Nat → Nat
  | 8 => 7
  | 11 => 7
  | t => t

/-- the algorithm `offline_signature.verifyWithDestinationType` runs for destination type `t`:
    `7, 11 ↦ verifyEd25519` (tag 7), `8 ↦ verifyEd25519ph` (tag 8), anything else is an error. -/
def offAlgOf : Nat → Option Nat
  | 7 => some 7
  | 11 => some 7
  | 8 => some 8
  | _ => none

/-- `key_certificate.ConstructSigningPublicKeyByType(data, t)`: the bytes of the key object, `none` = error.
    (DSA/ECDSA accept a padded 128-byte field and take the key from its end.) -/
def constructKey (t : Nat) (data : Bytes) : Option Bytes :=
  match t with
  | 0 => if data.length < 128 then none else some (data.take 128)
  | 1 => if data.length < 64 then none else
         if data.length ≥ 128 then some ((data.take 128).drop 64) else some (data.take 64)
  | 2 => if data.length < 96 then none else
         if data.length ≥ 128 then some ((data.take 128).drop 32) else some (data.take 96)
  | 7 => if data.length ≠ 32 then none else some data
  | 8 => if data.length ≠ 32 then none else some data
  | 11 => if data.length ≠ 32 then none else some data
  | _ => none

/-! ### field-level values -/

/-- an `OfflineSignature` value (`expires`: the four bytes of the uint32) -/
structure OffBlock where
  expires : Bytes
  ttype : Nat
  tkey : Bytes
  sig : Bytes
  destType : Nat
deriving Repr, DecidableEq

/-- `OfflineSignature.SignedData()`: expires(4) ‖ sigtype(2) ‖ transient public key -/
def OffBlock.signedData (o : OffBlock) : Bytes := o.expires ++ beEnc 2 o.ttype ++ o.tkey

/-- the fields `ReadOfflineSignature` stores, read off the bytes of an accepted block
    (`parseOfflineSignatureHeader`, `extractTransientPublicKey`, `extractSignature`) -/
def offFields (ob : Bytes) (destType : Nat) : OffBlock :=
  let tt := beVal ((ob.drop 4).take 2)
  { expires := ob.take 4, ttype := tt, tkey := (ob.drop 6).take (sigPubSize tt),
    sig := (ob.drop (6 + sigPubSize tt)).take (sigLen destType), destType := destType }

/-- what a signed structure exposes to `Verify`.  `bytes` is `Bytes()` of the parsed value (all consumed
    bytes), `idType`/`idKey` the signing type and key of the contained identity (for an EncryptedLeaseSet:
    `sig_type` and the blinded key), `flagsOffline` = `HasOfflineKeys()`, `off` = `OfflineSignature()`,
    `sigType`/`sig` = `Signature().Type()` / `Signature().Bytes()`. -/
structure Parsed where
  bytes : Bytes
  rem : Bytes
  idType : Nat
  idKey : Bytes
  flagsOffline : Bool
  off : Option OffBlock
  sigType : Nat
  sig : Bytes
deriving Repr, DecidableEq

abbrev LS2Parsed := Parsed
abbrev MetaParsed := Parsed
abbrev ELSParsed := Parsed
abbrev LSParsed := Parsed
abbrev RIParsed := Parsed

/-- the optional offline block after the 8-byte header (the same branch as in `readLeaseSet2`, `readMeta`,
    `readELS`): the block's fields and the type the final signature is read with -/
def offPart (flags : Nat) (r : Bytes) (destType : Nat) : Option (Option OffBlock × Nat) :=
  if flags % 2 = 1 then
    match readOffSig r destType with
    | none => none
    | some (ob, _, st) => some (some (offFields ob destType), st)
  else some (none, destType)

/-- LeaseSet2 / MetaLeaseSet: destination, 8-byte header, optional offline block, …, signature -/
def parseDestSigned (read : Bytes → P) (d : Bytes) : Option Parsed :=
  match read d with
  | none => none
  | some (b, rem) =>
    match readDestination d with
    | none => none
    | some (k, r0) =>
      let flags := beVal ((r0.drop 6).take 2)
      match offPart flags (r0.drop 8) k.kc.spk with
      | none => none
      | some (off, sigT) =>
        some { bytes := b, rem := rem, idType := k.kc.spk, idKey := k.sig,
               flagsOffline := decide (flags % 2 = 1), off := off,
               sigType := sigT, sig := b.drop (b.length - sigLen sigT) }

/-- `lease_set2.ReadLeaseSet2` at field level -/
def parseLS2 (d : Bytes) : Option LS2Parsed := parseDestSigned readLeaseSet2 d

/-- `meta_leaseset.ReadMetaLeaseSet` at field level -/
def parseMeta (d : Bytes) : Option MetaParsed := parseDestSigned readMeta d

/-- `encrypted_leaseset.ReadEncryptedLeaseSet` at field level: sig_type, blinded key, header, offline block -/
def parseELS (d : Bytes) : Option ELSParsed :=
  match readELS d with
  | none => none
  | some (b, rem) =>
    let st := beVal (d.take 2)
    let r := d.drop (2 + sigPubSize st)
    let flags := beVal ((r.drop 6).take 2)
    match offPart flags (r.drop 8) st with
    | none => none
    | some (off, sigT) =>
      some { bytes := b, rem := rem, idType := st, idKey := (d.drop 2).take (sigPubSize st),
             flagsOffline := decide (flags % 2 = 1), off := off,
             sigType := sigT, sig := b.drop (b.length - sigLen sigT) }

/-- `lease_set.ReadLeaseSet` at field level: the signature type is the key certificate's signing type,
    DSA-SHA1 (0) under a NULL certificate (`determineSignatureType`) -/
def parseLS (d : Bytes) : Option LSParsed :=
  match readLeaseSet d with
  | none => none
  | some (b, rem) =>
    match readCert (d.drop 384) with
    | none => none
    | some (c, _) =>
      match readDestination (d.take (387 + c.declared)) with
      | none => none
      | some (k, _) =>
        let sigT := if c.kind == [5] then k.kc.spk else 0
        some { bytes := b, rem := rem, idType := k.kc.spk, idKey := k.sig, flagsOffline := false, off := none,
               sigType := sigT, sig := b.drop (b.length - sigLen sigT) }

/-- `router_info.ReadRouterInfo` at field level (`parseRouterInfoSignature`: the signature type is the key
    certificate's signing type, DSA-SHA1 without a key certificate) -/
def parseRI (d : Bytes) : Option RIParsed :=
  match readRouterInfo d with
  | none => none
  | some (b, rem) =>
    match readRouterIdentity d with
    | none => none
    | some (k, _) =>
      let sigT := if (d.drop 384).take 1 == [5] then k.kc.spk else 0
      some { bytes := b, rem := rem, idType := k.kc.spk, idKey := k.sig, flagsOffline := false, off := none,
             sigType := sigT, sig := b.drop (b.length - sigLen sigT) }

/-- length of an identity on the wire: 384-byte key block, 3-byte certificate header, declared payload
    (used to say where the header and the offline block sit in the raw input) -/
def idLen (w : Bytes) : Nat := 387 + beVal ((w.drop 385).take 2)

/-! ### verification as data flow -/

/-- `OfflineSignature.VerifySignature(destKey)`: `ValidateStructure` (non-zero expiry, transient key and
    signature sizes), then `verifyWithDestinationType` over `SignedData()`; only destination types 7, 8, 11,
    only 32-byte keys.  `false` covers both `(false, nil)` and `(false, err)`. -/
def verifyOffline (C : SigScheme) (o : OffBlock) (destKey : Bytes) : Bool :=
  if beVal o.expires = 0 then false else
  if sigPubSize o.ttype = 0 then false else
  if o.tkey.length ≠ sigPubSize o.ttype then false else
  if sigLen o.destType = 0 then false else
  if o.sig.length ≠ sigLen o.destType then false else
  match offAlgOf o.destType with
  | none => false
  | some a => if destKey.length ≠ 32 then false else C.verify a destKey o.signedData o.sig

/-- the signed message: store-type prefix ‖ `Bytes()[:len − len(signature)]` -/
def signedMsg (pfx : Bytes) (p : Parsed) : Bytes := pfx ++ p.bytes.take (p.bytes.length - p.sig.length)

/-- `LeaseSet2.Verify` / `MetaLeaseSet.Verify` (`signingPublicKeyForVerification`, current code): with
    offline keys the block is first verified under the destination's key, then the transient key is
    constructed by type and used; otherwise the destination's own key object is used. -/
def verifyDest (pfx : Bytes) (C : SigScheme) (p : Parsed) : Bool :=
  if p.bytes.length < p.sig.length then false else
  match p.flagsOffline, p.off with
  | true, some o =>
    if !verifyOffline C o p.idKey then false else
    match constructKey o.ttype o.tkey with
    | none => false
    | some k => C.verify (algOf o.ttype) k (signedMsg pfx p) p.sig
  | _, _ => sigConstructible p.idType && C.verify (algOf p.idType) p.idKey (signedMsg pfx p) p.sig

/-- `LeaseSet2.Verify`, prefix `LEASESET2_DBSTORE_TYPE = 0x03` -/
def verifyLS2 (C : SigScheme) (p : LS2Parsed) : Bool := verifyDest [3] C p

/-- `MetaLeaseSet.Verify`, prefix `META_LEASESET_DBSTORE_TYPE = 0x07` -/
def verifyMeta (C : SigScheme) (p : MetaParsed) : Bool := verifyDest [7] C p

/-- `LeaseSet2.Verify` BEFORE the commit "fix: Verify trusted an offline (transient) key without checking the
    offline signature": the transient key was used without looking at the offline block's signature -/
def verifyLS2Prefix (C : SigScheme) (p : LS2Parsed) : Bool :=
  if p.bytes.length < p.sig.length then false else
  match p.flagsOffline, p.off with
  | true, some o =>
    match constructKey o.ttype o.tkey with
    | none => false
    | some k => C.verify (algOf o.ttype) k (signedMsg [3] p) p.sig
  | _, _ => sigConstructible p.idType && C.verify (algOf p.idType) p.idKey (signedMsg [3] p) p.sig

/-- `EncryptedLeaseSet.Verify`: message `dataForSigning()` = `0x05 ‖ bytesWithoutSignature()`; key = transient
    key after the block verified under the blinded key, else the blinded key constructed by `sig_type` -/
def verifyELS (C : SigScheme) (p : ELSParsed) : Bool :=
  match p.flagsOffline, p.off with
  | true, some o =>
    if !verifyOffline C o p.idKey then false else
    match constructKey o.ttype o.tkey with
    | none => false
    | some k => C.verify (algOf o.ttype) k (signedMsg [5] p) p.sig
  | _, _ =>
    match constructKey p.idType p.idKey with
    | none => false
    | some k => C.verify (algOf p.idType) k (signedMsg [5] p) p.sig

/-- `LeaseSet.Verify`: no prefix, the destination's key object; an empty signature is an error -/
def verifyLS (C : SigScheme) (p : LSParsed) : Bool :=
  if p.sig.length = 0 ∨ p.bytes.length < p.sig.length then false else
  sigConstructible p.idType && C.verify (algOf p.idType) p.idKey (signedMsg [] p) p.sig

/-- `RouterInfo.VerifySignature` / `verifyRouterInfoSignature`: only a signature of type 7 (Ed25519) can be
    verified, with a 32-byte key, over `serializeWithoutSignature()`; every other type is an error -/
def verifyRI (C : SigScheme) (p : RIParsed) : Bool :=
  if p.sigType = 7 then
    if p.idKey.length ≠ 32 then false else C.verify 7 p.idKey (signedMsg [] p) p.sig
  else false

/-! ### the same data flow as a list of obligations (what the driver prints) -/

/-- one call of the verification oracle -/
structure Obl where
  alg : Nat
  key : Bytes
  msg : Bytes
  sig : Bytes
deriving Repr, DecidableEq

def SigScheme.holds (C : SigScheme) (o : Obl) : Bool := C.verify o.alg o.key o.msg o.sig

/-- `none`: verification fails whatever the oracle says; `some l`: it succeeds iff every obligation holds -/
def SigScheme.all (C : SigScheme) : Option (List Obl) → Bool
  | none => false
  | some l => l.all C.holds

def oblOffline (o : OffBlock) (destKey : Bytes) : Option Obl :=
  if beVal o.expires = 0 then none else
  if sigPubSize o.ttype = 0 then none else
  if o.tkey.length ≠ sigPubSize o.ttype then none else
  if sigLen o.destType = 0 then none else
  if o.sig.length ≠ sigLen o.destType then none else
  match offAlgOf o.destType with
  | none => none
  | some a => if destKey.length ≠ 32 then none else some ⟨a, destKey, o.signedData, o.sig⟩

def oblDest (pfx : Bytes) (p : Parsed) : Option (List Obl) :=
  if p.bytes.length < p.sig.length then none else
  match p.flagsOffline, p.off with
  | true, some o =>
    match oblOffline o p.idKey with
    | none => none
    | some ob =>
      match constructKey o.ttype o.tkey with
      | none => none
      | some k => some [ob, ⟨algOf o.ttype, k, signedMsg pfx p, p.sig⟩]
  | _, _ => if sigConstructible p.idType then some [⟨algOf p.idType, p.idKey, signedMsg pfx p, p.sig⟩] else none

def oblLS2 (p : LS2Parsed) : Option (List Obl) := oblDest [3] p
def oblMeta (p : MetaParsed) : Option (List Obl) := oblDest [7] p

def oblELS (p : ELSParsed) : Option (List Obl) :=
  match p.flagsOffline, p.off with
  | true, some o =>
    match oblOffline o p.idKey with
    | none => none
    | some ob =>
      match constructKey o.ttype o.tkey with
      | none => none
      | some k => some [ob, ⟨algOf o.ttype, k, signedMsg [5] p, p.sig⟩]
  | _, _ =>
    match constructKey p.idType p.idKey with
    | none => none
    | some k => some [⟨algOf p.idType, k, signedMsg [5] p, p.sig⟩]

def oblLS (p : LSParsed) : Option (List Obl) :=
  if p.sig.length = 0 ∨ p.bytes.length < p.sig.length then none else
  if sigConstructible p.idType then some [⟨algOf p.idType, p.idKey, signedMsg [] p, p.sig⟩] else none

def oblRI (p : RIParsed) : Option (List Obl) :=
  if p.sigType = 7 then
    if p.idKey.length ≠ 32 then none else some [⟨7, p.idKey, signedMsg [] p, p.sig⟩]
  else none

end I2P.Verify
