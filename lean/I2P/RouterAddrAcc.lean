import I2P.Mapping
import I2P.NetAddr
/-! Code-mirroring model of the option accessors of `router_address/router_address_methods.go`
    over the stored option pairs (`RouterAddress.Options().Values()`), and of
    `data/mapping_values.go: MappingValues.Get`.

    Representation: an `I2PString` is its raw bytes *including* the length byte; Go's nil `I2PString`
    is `[]` when it is a value and `none` when it is "no pair matched".  Every Go caller treats
    a nil and an empty-slice option alike (both make `Data()` fail or are rejected by a nil check), so
    the two need not be told apart.  Nil receivers / nil `TransportOptions` behave like the empty
    option list (`Options()` returns an empty Mapping). -/

namespace I2P.RouterAddr
open I2P I2P.Mapping I2P.NetAddr

/-! ### constants.go -/
def HOST_OPTION_KEY : Bytes := [104, 111, 115, 116]                    -- "host"
def PORT_OPTION_KEY : Bytes := [112, 111, 114, 116]                    -- "port"
def CAPS_OPTION_KEY : Bytes := [99, 97, 112, 115]                      -- "caps"
def STATIC_KEY_OPTION_KEY : Bytes := [115]                             -- "s"
def INITIALIZATION_VECTOR_OPTION_KEY : Bytes := [105]                  -- "i"
def PROTOCOL_VERSION_OPTION_KEY : Bytes := [118]                       -- "v"
def INTRODUCER_HASH_PREFIX : Bytes := [105, 104]                       -- "ih"
def INTRODUCER_EXPIRATION_PREFIX : Bytes := [105, 101, 120, 112]       -- "iexp"
def INTRODUCER_TAG_PREFIX : Bytes := [105, 116, 97, 103]               -- "itag"
def STATIC_KEY_SIZE : Nat := 32
def INITIALIZATION_VECTOR_SIZE : Nat := 16
def MIN_INTRODUCER_NUMBER : Int := 0
def MAX_INTRODUCER_NUMBER : Int := 2
def DEFAULT_INTRODUCER_NUMBER : Int := 0

/-- `k, _ := data.ToI2PString(key)`: the error is dropped, leaving a nil string for keys over 255 bytes -/
def toI2PString (s : Bytes) : Bytes := (newStr s).getD []

/-- `MappingValues.Get(key)`: the value of the first pair whose key decodes (`Data()` without error)
    to exactly the decoded requested key; nothing when the requested key itself does not decode. -/
def get (o : List Pair) (key : Bytes) : Option Bytes :=
  if !strDataOk key then none
  else (o.find? fun p => strDataOk p.1 && strData p.1 == strData key).map (·.2)

/-- `RouterAddress.GetOption(key)` = `ra.Options().Values().Get(key)` -/
def getOption (o : List Pair) (key : Bytes) : Option Bytes := get o key

/-- is this lookup result a non-nil `I2PString`? -/
def nonNil : Option Bytes → Bool
  | none => false
  | some v => !v.isEmpty

/-- `RouterAddress.HasOption` -/
def hasOption (o : List Pair) (key : Bytes) : Bool := nonNil (getOption o key)

/-- `RouterAddress.CheckOption(key string)` -/
def checkOption (o : List Pair) (key : Bytes) : Bool := hasOption o (toI2PString key)

/-- `HostString`, `PortString`, `CapsString`, `StaticKeyString`, `InitializationVectorString`,
    `ProtocolVersionString`: `GetOption(ToI2PString(KEY))` -/
def optString (o : List Pair) (key : Bytes) : Option Bytes := getOption o (toI2PString key)

def hostString (o : List Pair) := optString o HOST_OPTION_KEY
def portString (o : List Pair) := optString o PORT_OPTION_KEY
def capsString (o : List Pair) := optString o CAPS_OPTION_KEY
def staticKeyString (o : List Pair) := optString o STATIC_KEY_OPTION_KEY
def initializationVectorString (o : List Pair) := optString o INITIALIZATION_VECTOR_OPTION_KEY
def protocolVersionString (o : List Pair) := optString o PROTOCOL_VERSION_OPTION_KEY

/-- the number used by the three `Introducer…String(num)` accessors: out-of-range falls back to 0 -/
def introducerNum (num : Int) : Nat :=
  if num ≥ MIN_INTRODUCER_NUMBER ∧ num ≤ MAX_INTRODUCER_NUMBER then num.toNat else DEFAULT_INTRODUCER_NUMBER.toNat

/-- `IntroducerHashString(num)` -/
def introducerHashString (o : List Pair) (num : Int) : Option Bytes :=
  optString o (INTRODUCER_HASH_PREFIX ++ decimal (introducerNum num))
/-- `IntroducerExpirationString(num)` -/
def introducerExpirationString (o : List Pair) (num : Int) : Option Bytes :=
  optString o (INTRODUCER_EXPIRATION_PREFIX ++ decimal (introducerNum num))
/-- `IntroducerTagString(num)` -/
def introducerTagString (o : List Pair) (num : Int) : Option Bytes :=
  optString o (INTRODUCER_TAG_PREFIX ++ decimal (introducerNum num))

/-- the content of the option stored under `key` when its value decodes: what every accessor below
    works on (`option.Data()` after the lookup) -/
def lookup (o : List Pair) (key : Bytes) : Option Bytes :=
  match optString o key with
  | none => none
  | some v => if strDataOk v then some (strData v) else none

/-- `extractOptionBytes(ra, key, option)` with `option` = the same lookup: missing key, nil option,
    `Data()` error and empty content are all errors. -/
def extractOptionBytes (o : List Pair) (key : Bytes) : Option Bytes :=
  if !checkOption o key then none
  else match optString o key with
    | none => none
    | some v =>
      if v.isEmpty then none                       -- `option == nil`
      else if !strDataOk v then none               -- `option.Data()` error
      else if (strData v).length == 0 then none    -- empty content
      else some (strData v)

/-- `resolveHostIP`: `net.ParseIP` and then `net.ResolveIPAddr("", ip.String())`, which for the textual
    form of an IP address returns that address without any lookup. -/
def resolveHostIP (s : Bytes) : Option (List Nat) := parseIP s

/-- `RouterAddress.Host()`: the 16-byte form of the returned `*net.IPAddr`, `none` for an error -/
def host (o : List Pair) : Option (List Nat) :=
  match extractOptionBytes o HOST_OPTION_KEY with
  | none => none
  | some s => resolveHostIP s

/-- `RouterAddress.HasValidHost()` -/
def hasValidHost (o : List Pair) : Bool :=
  if !checkOption o HOST_OPTION_KEY then false
  else match hostString o with
    | none => false
    | some v =>
      if v.isEmpty then false
      else if !strDataOk v || (strData v).length == 0 then false
      else (parseIP (strData v)).isSome

/-- `ipVersionFromHost`: `""` is `[]`, `"4"` is `[52]`, `"6"` is `[54]` -/
def ipVersionFromHost (o : List Pair) : Bytes :=
  match hostString o with
  | none => []
  | some v =>
    if v.isEmpty then []
    else if !strDataOk v || (strData v).length == 0 then []
    else match parseIP (strData v) with
      | none => []
      | some ip => if isV4 ip then [52] else [54]

/-- `ipVersionFromCaps`: any decodable caps option yields "6" if it ends in '6', otherwise "4" -/
def ipVersionFromCaps (o : List Pair) : Bytes :=
  match capsString o with
  | none => []
  | some v =>
    if v.isEmpty then []
    else if !strDataOk v then []
    else if (strData v).getLast? == some 54 then [54] else [52]

/-- `RouterAddress.IPVersion()` -/
def ipVersion (o : List Pair) : Bytes :=
  let ver := ipVersionFromHost o
  if ver ≠ [] then ver else ipVersionFromCaps o

/-- `validatePortValue` -/
def validatePortValue (s : Bytes) : Option Bytes :=
  match atoi s with
  | none => none
  | some val => if val < 1 ∨ val > 65535 then none else some (decimal val.toNat)

/-- `RouterAddress.Port()` -/
def port (o : List Pair) : Option Bytes :=
  match extractOptionBytes o PORT_OPTION_KEY with
  | none => none
  | some s => validatePortValue s

/-- `RouterAddress.HasValidPort()` -/
def hasValidPort (o : List Pair) : Bool :=
  if !checkOption o PORT_OPTION_KEY then false
  else match portString o with
    | none => false
    | some v =>
      if v.isEmpty then false
      else if !strDataOk v || (strData v).length == 0 then false
      else match atoi (strData v) with
        | none => false
        | some val => decide (val ≥ 1 ∧ val ≤ 65535)

/-- common body of `StaticKey()` / `InitializationVector()` -/
def fixedOption (o : List Pair) (key : Bytes) (size : Nat) : Option Bytes :=
  match optString o key with
  | none => none
  | some v =>
    if v.isEmpty then none                         -- nil
    else if !strDataOk v then none                 -- `Data()` error
    else if (strData v).length ≠ size then none
    else some (strData v)

/-- `RouterAddress.StaticKey()` -/
def staticKey (o : List Pair) : Option Bytes := fixedOption o STATIC_KEY_OPTION_KEY STATIC_KEY_SIZE

/-- `RouterAddress.InitializationVector()` -/
def initializationVector (o : List Pair) : Option Bytes :=
  fixedOption o INITIALIZATION_VECTOR_OPTION_KEY INITIALIZATION_VECTOR_SIZE

/-- `RouterAddress.ProtocolVersion()` = `ProtocolVersionString().Data()` (nil string: error) -/
def protocolVersion (o : List Pair) : Option Bytes :=
  match protocolVersionString o with
  | none => none
  | some v => if strDataOk v then some (strData v) else none

/-- the stored pairs of an option list given by content, in the given order (what both
    `GoMapToMapping` and a clean parse store: `len :: content`) -/
def storedPairs (m : List (Bytes × Bytes)) : List Pair := m.map fun kv => (toI2PString kv.1, toI2PString kv.2)

end I2P.RouterAddr
