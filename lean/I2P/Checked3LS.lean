import I2P.Checked2
/-! Checked ("can it panic?") mirrors, third part: `lease_set/utils.go` (`ReadLeaseSet` and every helper it
    calls), `key_certificate.KeyCertificateFromCertificate`, `signature.NewSignatureFromBytes`, and the two
    go-i2p/crypto constructors `ReadLeaseSet` hands key bytes to (`elg.NewElgPublicKey`,
    `dsa.NewDSAPublicKey`: a length check, a range check on the big-endian value, a copy).

    Same conventions as `I2P/Checked.lean`: one Lean function per Go function (the Go name is in the doc
    comment), every index expression, slice expression, `make` and pointer dereference goes through a
    checked primitive.  The functions of package `lease_set` carry the prefix `ls` because `Checked.lean`
    already uses `parseLeasesC`, … for package `lease_set2`.  `Props/C04c.lean` proves that `ReadLeaseSet`
    never returns `.error _` and returns what the pure model `Structs.readLeaseSet` returns.  Core-only. -/

namespace I2P.Checked
open I2P I2P.Spec I2P.Kac

/-! ### pointers into a parsed Destination -/

/-- `destination.Destination`: a struct wrapping `*keys_and_cert.KeysAndCert`, nil in the zero value
    `Destination{}` (`KeysAndCert.KeyCertificate`, the second pointer on the path to the certificate, has
    no nil state in `Kac.KeysAndCert`: `ReadKeysAndCert` always sets it) -/
abbrev Dest := Option KeysAndCert

/-- `(*KeysAndCert).Certificate()` through the embedded pointer of a `Destination`: nil-safe, returns
    `&keys_and_cert.KeyCertificate.Certificate` -/
def destCertificateC (dest : Dest) : Option Cert := dest.map (·.kc.cert)

/-- `(*Certificate).Type()` on a pointer that may be nil: `IsValid()` is false for a nil receiver, so
    the call is an error (`none`), not a dereference -/
def certTypeP (c : Option Cert) : Go (Option Int) :=
  match c with
  | none => return none
  | some c => certTypeC c

/-! ### key_certificate/key_certificate_struct.go: `KeyCertificateFromCertificate` and three accessors -/

/-- `logExtractedKeyTypes`: evaluates `spkType.Int()` and `cpkType.Int()` -/
def logExtractedKeyTypesC (spkType cpkType : Option Sl) : Go Unit := do
  let _ ← integerIntC' spkType
  let _ ← integerIntC' cpkType
  return ()

/-- `key_certificate.KeyCertificateFromCertificate(cert)`; `none` = error.  `validateKeyCertificateType`
    calls `cert.Type()`, which is an error for a nil `cert`; `buildKeyCertificate` evaluates `*cert` -/
def keyCertificateFromCertificateC (cert : Option Cert) : Go (Option KeyCert) := do
  match cert with
  | none => return none                                -- validateKeyCertificateType → cert.Type() → !IsValid()
  | some c =>
  if !(← validateKeyCertificateTypeC c) then return none else
  match ← certDataC c with
  | none => return none
  | some certData =>
  if !(← validateKeyCertificateDataLengthC certData) then return none else
  let (spkType, cpkType) ← extractKeyTypesC certData
  logExtractedKeyTypesC spkType cpkType
  return some (← buildKeyCertificateC (← deref cert) spkType cpkType)

/-- `KeyCertificate.SigningPublicKeyType()` (`Kac.KeyCert.spk` already is `SpkType.Int()`) -/
def signingPublicKeyTypeC (kc : KeyCert) : Int := kc.spk

/-- `KeyCertificate.SigningPublicKeySize()`: `SigningKeySizes[spkType].SigningPublicKeySize`, 0 when the
    map has no entry -/
def signingPublicKeySizeC (kc : KeyCert) : Int := sigPubSize kc.spk

/-- `KeyCertificate.SignatureSize()`: `SigningKeySizes[key_type].SignatureSize`, 0 when the map has no entry -/
def signatureSizeC (kc : KeyCert) : Int := sigLen kc.spk

/-! ### go-i2p/crypto: `elg.NewElgPublicKey`, `dsa.NewDSAPublicKey`

    Both check the length, then the value `new(big.Int).SetBytes(data)` (the pure predicates
    `Structs.elgValid` / `Structs.dsaValid`, exactly as the pure model uses them), then copy the bytes
    into a fresh array. -/

/-- `elg.NewElgPublicKey(data)`: returns a pointer, nil (`none`) together with every error -/
def newElgPublicKeyC (data : Sl) : Go (Option Bytes) := do
  if data.ilen ≠ 256 then return none else
  if !Structs.elgValid data.data then return none else
  let key ← mk 256                                     -- var key ElgPublicKey
  let key := copy key data
  return some key.data

/-- `dsa.NewDSAPublicKey(data)`; `none` = error -/
def newDSAPublicKeyC (data : Sl) : Go (Option Bytes) := do
  if data.ilen ≠ 128 then return none else
  if !Structs.dsaValid data.data then return none else
  let key ← mk 128                                     -- var key DSAPublicKey
  let key := copy key data
  return some key.data

/-! ### signature/signature_struct.go -/

/-- `signature.NewSignatureFromBytes(data, sigType)`: the pair is `Signature{data, sigType}`; `none` = error -/
def newSignatureFromBytesC (data : Sl) (sigType : Int) : Go (Option (Bytes × Int)) := do
  match getSignatureLengthC sigType with
  | none => return none
  | some expectedLen =>
  if data.ilen ≠ expectedLen then return none else
  let sigData ← mk data.ilen
  let sigData := copy sigData data
  return some (sigData.data, sigType)

/-! ### lease_set/utils.go -/

/-- the fields of `lease_set.LeaseSet` -/
structure LS where
  dest : Dest := none
  encryptionKey : Bytes := []                           -- `encryptionKey.Bytes()`
  signingKey : Bytes := []                              -- `signingKey.Bytes()`
  leaseCount : Int := 0
  leases : List Bytes := []
  signature : Bytes := []                               -- `signature.data`
  signatureType : Int := 0                              -- `signature.sigType`

/-- what `LeaseSet.Bytes()` emits (the serialiser itself is outside C04); `none` = error
    (`dest.KeysAndCert.Bytes()` failed); `NewIntegerFromInt(leaseCount, 1)` is `beEnc 1` for `0 … 255` -/
def LS.bytes (l : LS) : Option Bytes :=
  (l.dest.bind KeysAndCert.bytes).map fun db =>
    db ++ l.encryptionKey ++ l.signingKey ++ beEnc 1 l.leaseCount.toNat ++ l.leases.flatten ++ l.signature

/-- `validateDestinationMinSize(dataLen)`: `true` = no error -/
def lsValidateDestinationMinSizeC (dataLen : Int) : Bool := !(decide (dataLen < 387))

/-- `parseCertificateFromLeaseSet(data, certDataStart)`: (kind, certLength); `none` = error.
    `ReadCertificate` returns a non-nil certificate whenever it returns no error. -/
def lsParseCertificateFromLeaseSetC (data : Sl) (certDataStart : Int) : Go (Option (Int × Int)) := do
  let certData ← sliceFrom data certDataStart
  match ← readCertS certData with
  | none => return none
  | some (cert, _) =>
  match ← certTypeC cert with
  | none => return none
  | some kind =>
  match ← certLengthFieldC cert with
  | none => return none
  | some certLength => return some (kind, certLength)

/-- `calculateDestinationLength(certDataStart, certLength)` -/
def lsCalculateDestinationLengthC (certDataStart certLength : Int) : Int :=
  let certTotalLength := 3 + certLength
  let destinationLength := certDataStart + certTotalLength
  destinationLength

/-- `validateDestinationDataSize(dataLen, destinationLength)`: `true` = no error -/
def lsValidateDestinationDataSizeC (dataLen destinationLength : Int) : Bool := !(decide (dataLen < destinationLength))

/-- `extractDestinationFromData(data, destinationLength)`; `none` = error -/
def lsExtractDestinationFromDataC (data : Sl) (destinationLength : Int) : Go (Option (Dest × Sl)) := do
  let destinationData ← sliceTo data destinationLength
  match ← readDestinationS destinationData with
  | none => return none
  | some (dest, _) =>
  let remainder ← sliceFrom data destinationLength
  return some (some dest, remainder)

/-- `lease_set.ReadDestinationFromLeaseSet(data)`; `none` = error -/
def readDestinationFromLeaseSetS (data : Sl) : Go (Option (Dest × Sl)) := do
  if !lsValidateDestinationMinSizeC data.ilen then return none else
  let certDataStart : Int := 384
  match ← lsParseCertificateFromLeaseSetC data certDataStart with
  | none => return none
  | some (_kind, certLength) =>
  let destinationLength := lsCalculateDestinationLengthC certDataStart certLength
  if !lsValidateDestinationDataSizeC data.ilen destinationLength then return none else
  lsExtractDestinationFromDataC data destinationLength

/-- `validateLeaseSetDataLength(data)`: `true` = no error -/
def lsValidateLeaseSetDataLengthC (data : Sl) : Bool := !(decide (data.ilen < 387))

/-- `parseEncryptionKey(data)`; `*encryptionKeyPtr` dereferences the constructor's result -/
def lsParseEncryptionKeyC (data : Sl) : Go (Option (Bytes × Sl)) := do
  if data.ilen < 256 then return none else
  let encKeyBytes ← sliceTo data 256
  let encryptionKeyPtr ← newElgPublicKeyC encKeyBytes
  if encryptionKeyPtr.isNone then return none else      -- err != nil
  let remainder ← sliceFrom data 256
  return some (← deref encryptionKeyPtr, remainder)

/-- `determineSigningKeySize(cert, kind)`: `keyCert.SigningPublicKeySize()` is reached only with `err == nil`,
    i.e. a non-nil `keyCert` -/
def lsDetermineSigningKeySizeC (cert : Option Cert) (kind : Int) : Go Int := do
  if kind = 5 then
    match ← keyCertificateFromCertificateC cert with
    | some keyCert => return signingPublicKeySizeC keyCert
    | none => return 128
  else return 128

/-- `constructSigningKey(keyData, cert, kind)`: the key's `Bytes()`; `none` = error -/
def lsConstructSigningKeyC (keyData : Sl) (cert : Option Cert) (kind : Int) : Go (Option Bytes) := do
  if kind = 5 then
    match ← keyCertificateFromCertificateC cert with
    | some keyCert => constructSigningPublicKeyC keyCert keyData
    | none => newDSAPublicKeyC keyData                  -- falls through to the default DSA key
  else newDSAPublicKeyC keyData

/-- `parseSigningKey(data, dest)` -/
def lsParseSigningKeyC (data : Sl) (dest : Dest) : Go (Option (Bytes × Sl)) := do
  let cert := destCertificateC dest
  match ← certTypeP cert with
  | none => return none
  | some kind =>
  let sigKeySize ← lsDetermineSigningKeySizeC cert kind
  if data.ilen < sigKeySize then return none else
  match ← lsConstructSigningKeyC (← sliceTo data sigKeySize) cert kind with
  | none => return none
  | some signingKey => return some (signingKey, ← sliceFrom data sigKeySize)

/-- the loop `for i := 0; i < leaseCount; i++` of `extractLeases`, from index `i`; `fuel` is the
    structural recursion argument (`leaseCount - i` suffices).  `var l lease.Lease` is a fresh 44-byte
    array, `data[i*44:(i+1)*44]` a slice expression, `append` extends `leases`.  The second component of
    the result is a ghost counter: the number of loop bodies executed. -/
def lsExtractLeasesLoopC : (fuel : Nat) → (i leaseCount : Int) → List Bytes → Sl → Go (List Bytes × Nat)
  | 0, _, _, leases, _ => return (leases, 0)
  | fuel + 1, i, leaseCount, leases, data => do
    if ¬ (i < leaseCount) then return (leases, 0) else
    let l ← mk 44                                      -- var l lease.Lease
    let l := copy l (← slice data (i * 44) ((i + 1) * 44))
    let leases := leases ++ [l.data]
    let (leases, n) ← lsExtractLeasesLoopC fuel (i + 1) leaseCount leases data
    return (leases, n + 1)

/-- `extractLeases(data, leaseCount)` (`var leases []lease.Lease` is nil) -/
def lsExtractLeasesC (data : Sl) (leaseCount : Int) : Go (List Bytes × Nat) :=
  lsExtractLeasesLoopC leaseCount.toNat 0 leaseCount [] data

/-- `parseLeases(data)`: (leaseCount, leases, remainder); `none` = error -/
def lsParseLeasesC (data : Sl) : Go (Option (Int × List Bytes × Sl)) := do
  if data.ilen < 1 then return none else
  let leaseCount : Int := (← index data 0).toNat
  if leaseCount > 16 then return none else
  let remainder ← sliceFrom data 1
  if remainder.ilen < leaseCount * 44 then return none else
  let (leases, _) ← lsExtractLeasesC remainder leaseCount
  let remainder ← sliceFrom remainder (leaseCount * 44)
  return some (leaseCount, leases, remainder)

/-- `determineSignatureSize(cert, kind)` -/
def lsDetermineSignatureSizeC (cert : Option Cert) (kind : Int) : Go Int := do
  if kind = 5 then
    match ← keyCertificateFromCertificateC cert with
    | some keyCert => return signatureSizeC keyCert
    | none => return 40
  else return 40

/-- `determineSignatureType(cert, kind)` -/
def lsDetermineSignatureTypeC (cert : Option Cert) (kind : Int) : Go Int := do
  if kind = 5 then
    match ← keyCertificateFromCertificateC cert with
    | some keyCert => return signingPublicKeyTypeC keyCert
    | none => return 0
  else return 0

/-- `parseSignature(data, dest)`: (signature, remainder); `none` = error -/
def lsParseSignatureC (data : Sl) (dest : Dest) : Go (Option ((Bytes × Int) × Sl)) := do
  let cert := destCertificateC dest
  match ← certTypeP cert with
  | none => return none
  | some kind =>
  let sigSize ← lsDetermineSignatureSizeC cert kind
  if data.ilen < sigSize then return none else
  let remainder ← sliceFrom data sigSize
  let sigType ← lsDetermineSignatureTypeC cert kind
  match ← newSignatureFromBytesC (← sliceTo data sigSize) sigType with
  | none => return none
  | some sigVal => return some (sigVal, remainder)

/-- `assembleLeaseSetFromParsedData` -/
def lsAssembleLeaseSetFromParsedDataC (dest : Dest) (encryptionKey signingKey : Bytes) (leaseCount : Int)
    (leases : List Bytes) (signature : Bytes × Int) : LS :=
  { dest := dest, encryptionKey := encryptionKey, signingKey := signingKey, leaseCount := leaseCount,
    leases := leases, signature := signature.1, signatureType := signature.2 }

/-- `parseLeaseSetComponents(data)`.  The second component of the result is a GHOST: the remainder that
    `parseSignature` returns and `parseLeaseSetComponents` discards (`signature, _, err := …`); it is kept
    only so that the refinement theorem can speak about the unread bytes. -/
def lsParseLeaseSetComponentsC (data : Sl) : Go (Option (LS × Sl)) := do
  match ← readDestinationFromLeaseSetS data with
  | none => return none
  | some (dest, remainder) =>
  match ← lsParseEncryptionKeyC remainder with
  | none => return none
  | some (encryptionKey, remainder) =>
  match ← lsParseSigningKeyC remainder dest with
  | none => return none
  | some (signingKey, remainder) =>
  match ← lsParseLeasesC remainder with
  | none => return none
  | some (leaseCount, leases, remainder) =>
  match ← lsParseSignatureC remainder dest with
  | none => return none
  | some (signature, unread) =>
  return some (lsAssembleLeaseSetFromParsedDataC dest encryptionKey signingKey leaseCount leases signature, unread)

/-- `lease_set.ReadLeaseSet(data)`; `none` = error; the `Sl` is the ghost of `lsParseLeaseSetComponentsC` -/
def readLeaseSetS (data : Sl) : Go (Option (LS × Sl)) := do
  if !lsValidateLeaseSetDataLengthC data then return none else
  lsParseLeaseSetComponentsC data

/-! ### byte-level entry point: the caller's buffer as a slice with `cap = len` -/

def readLeaseSetC := onBytes readLeaseSetS

end I2P.Checked
