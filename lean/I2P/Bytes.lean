/-! Byte strings and big-endian helpers shared by the whole model.  Core-only. -/

abbrev Bytes := List UInt8

namespace I2P

/-- big-endian value of a byte string (any length) -/
def beVal (b : Bytes) : Nat := b.foldl (fun a c => a * 256 + c.toNat) 0

/-- big-endian encoding of `v` in exactly `n` bytes (high-order bytes are dropped, like Go's
    `PutUint64` followed by taking the low `n` bytes) -/
def beEnc : (n : Nat) → (v : Nat) → Bytes
  | 0, _ => []
  | n+1, v => beEnc n (v / 256) ++ [UInt8.ofNat (v % 256)]

theorem snoc_induction {α} {p : List α → Prop} (hnil : p []) (hsnoc : ∀ l a, p l → p (l ++ [a])) :
    ∀ l, p l := by
  have h : ∀ l : List α, p l.reverse := by
    intro l
    induction l with
    | nil => exact hnil
    | cons a t ih => rw [List.reverse_cons]; exact hsnoc _ _ ih
  intro l
  have := h l.reverse
  rwa [List.reverse_reverse] at this

@[simp] theorem beEnc_length (n v : Nat) : (beEnc n v).length = n := by
  induction n generalizing v with
  | zero => rfl
  | succ n ih => simp [beEnc, ih]

theorem beVal_append_singleton (b : Bytes) (c : UInt8) : beVal (b ++ [c]) = beVal b * 256 + c.toNat := by
  simp [beVal, List.foldl_append]

theorem beVal_beEnc (n v : Nat) (h : v < 256 ^ n) : beVal (beEnc n v) = v := by
  induction n generalizing v with
  | zero => simp at h; subst h; rfl
  | succ n ih =>
    have h1 : v / 256 < 256 ^ n := by
      rw [Nat.pow_succ] at h
      exact Nat.div_lt_of_lt_mul (by rw [Nat.mul_comm]; exact h)
    have h2 : (UInt8.ofNat (v % 256)).toNat = v % 256 := by
      simp [UInt8.toNat_ofNat']
    rw [beEnc, beVal_append_singleton, ih _ h1, h2]
    omega

theorem beVal_lt (b : Bytes) : beVal b < 256 ^ b.length := by
  induction b using snoc_induction with
  | hnil => simp [beVal]
  | hsnoc b c ih =>
    rw [beVal_append_singleton]
    simp [Nat.pow_succ]
    have := UInt8.toNat_lt c
    omega

theorem beEnc_beVal (b : Bytes) : beEnc b.length (beVal b) = b := by
  induction b using snoc_induction with
  | hnil => rfl
  | hsnoc b c ih =>
    rw [beVal_append_singleton]
    simp only [List.length_append, List.length_singleton, beEnc]
    have hc := UInt8.toNat_lt c
    have h1 : (beVal b * 256 + c.toNat) / 256 = beVal b := by omega
    have h2 : (beVal b * 256 + c.toNat) % 256 = c.toNat := by omega
    rw [h1, h2, ih]
    simp

/-- `beEnc` is injective on in-range values -/
theorem beEnc_inj (n a b : Nat) (ha : a < 256 ^ n) (hb : b < 256 ^ n) (h : beEnc n a = beEnc n b) : a = b := by
  have := congrArg beVal h
  rwa [beVal_beEnc _ _ ha, beVal_beEnc _ _ hb] at this

end I2P
