import I2P.Bytes
/-! Code-mirroring model of `data/integer.go`, `data/encoding.go`, `data/string.go`, `data/date.go`,
    `data/hash.go` (readers).  Go `int` is 64-bit two's complement; lengths and offsets are `Nat`. -/

namespace I2P

def MAX_INTEGER_SIZE : Nat := 8
def STRING_MAX_SIZE : Nat := 255

/-- Go `int(uint64)` / `int64(uint64)` conversion -/
def toInt64 (u : Nat) : Int := if u % 2^64 < 2^63 then ((u % 2^64 : Nat) : Int) else ((u % 2^64 : Nat) : Int) - 2^64
/-- Go `uint64(int)` conversion -/
def toUInt64 (v : Int) : Nat := (v % 2^64).toNat

/-- `data.ReadInteger(bytes, size)`: `none` models the nil Integer returned for an invalid size. -/
def readInteger (b : Bytes) (size : Int) : Option Bytes × Bytes :=
  if size ≤ 0 ∨ size > 8 then (none, b)
  else if b.length < size.toNat then (some b, [])
  else (some (b.take size.toNat), b.drop size.toNat)

/-- `intFromBytes`: error on empty input; shorter than 8 bytes is left-padded; `binary.BigEndian.Uint64`
    reads the first eight bytes of anything longer. -/
def intFromBytes (b : Bytes) : Option Int :=
  if b.length = 0 then none
  else if b.length < 8 then some (beVal b)
  else some (toInt64 (beVal (b.take 8)))

/-- `Integer.Int()` -/
def integerInt (b : Bytes) : Int := (intFromBytes b).getD 0

/-- `Integer.IntSafe()` -/
def integerIntSafe (b : Bytes) : Option Int :=
  if b.length = 0 ∨ b.length > 8 then none else intFromBytes b

/-- `Integer.UintSafe()` -/
def integerUintSafe (b : Bytes) : Option Nat :=
  if b.length = 0 ∨ b.length > 8 then none else some (beVal b)

/-- `calculateMaxValueForSize` for a size already known to be in 1..8 -/
def maxValueForSize (size : Int) : Nat := if size ≥ 8 then 2^64 - 1 else 2^(size.toNat * 8) - 1

/-- `data.NewIntegerFromInt(value, size)` and `data.EncodeIntN(value, size)` (same checks, same bytes) -/
def newIntegerFromInt (value size : Int) : Option Bytes :=
  if value < 0 then none
  else if size < 1 ∨ size > 8 then none
  else if toUInt64 value > maxValueForSize size then none
  else some (beEnc size.toNat (toUInt64 value))

/-- `data.DecodeIntN` -/
def decodeIntN (b : Bytes) : Option Int :=
  if b.length = 0 ∨ b.length > 8 then none
  else if beVal b > 2^63 - 1 then none
  else some (beVal b)

/-- `data.NewIntegerFromBytes` -/
def newIntegerFromBytes (b : Bytes) : Option Bytes :=
  if b.length = 0 ∨ b.length > 8 then none else some b

/-! ### I2PString -/

inductive StrErr | zero | short | mismatch
deriving DecidableEq, Repr

/-- `data.ReadI2PString`: (string including its length byte, remainder, error). On a short buffer the
    whole input is returned as the "string" together with the error. -/
def readStr (d : Bytes) : Bytes × Bytes × Option StrErr :=
  match d with
  | [] => ([], [], some .zero)
  | l :: rest =>
    if l.toNat ≤ rest.length then (l :: rest.take l.toNat, rest.drop l.toNat, none)
    else (d, [], some .short)

/-- `I2PString.Data()`: the content when the length byte matches exactly, `""` (plus an error) otherwise. -/
def strData (s : Bytes) : Bytes :=
  match s with
  | [] => []
  | l :: rest => if l.toNat = rest.length then rest else []

/-- `I2PString.Data()` error flag -/
def strDataOk (s : Bytes) : Bool :=
  match s with
  | [] => false
  | l :: rest => l.toNat = rest.length

/-- `I2PString.IsValid()` -/
def strIsValid (s : Bytes) : Bool := strDataOk s

/-- `data.NewI2PString` / `data.ToI2PString` -/
def newStr (content : Bytes) : Option Bytes :=
  if content.length > 255 then none else some (UInt8.ofNat content.length :: content)

/-- `data.NewI2PStringFromBytes` -/
def newStrFromBytes (d : Bytes) : Option Bytes :=
  match d with
  | [] => none
  | l :: rest => if rest.length ≠ l.toNat then none else some d

/-! ### Date -/

/-- `data.ReadDate` -/
def readDate (d : Bytes) : Option (Bytes × Bytes) :=
  if d.length < 8 then none else some (d.take 8, d.drop 8)

/-- `Date.Int()` -/
def dateInt (d : Bytes) : Int := integerInt d

/-- `time.Time` as the library uses it: whole seconds and nanoseconds in [0, 1e9) -/
structure GoTime where
  sec : Int
  nsec : Nat

/-- `time.Unix(sec, nsec)` normalisation (nsec may be any int64) -/
def timeUnix (sec nsec : Int) : GoTime :=
  { sec := sec + nsec / 1000000000, nsec := (nsec % 1000000000).toNat }   -- Int `/` and `%` are floor/emod-style on a positive divisor

/-- `Time.UnixMilli()` -/
def GoTime.unixMilli (t : GoTime) : Int := toInt64 (toUInt64 (t.sec * 1000 + t.nsec / 1000000))

/-- `Time.UnixNano()` (wraps silently) -/
def GoTime.unixNano (t : GoTime) : Int := toInt64 (toUInt64 (t.sec * 1000000000 + t.nsec))

/-- `data.DateFromTime`: eight low-order bytes of `t.UnixMilli()` -/
def dateFromTime (t : GoTime) : Bytes := beEnc 8 (toUInt64 t.unixMilli)

/-- `data.NewDateFromMillis` -/
def newDateFromMillis (ms : Int) : Option Bytes :=
  if ms < 0 then none
  else some (dateFromTime (timeUnix (ms / 1000) ((ms % 1000) * 1000000)))

/-- `data.NewDateFromUnix` -/
def newDateFromUnix (s : Int) : Option Bytes :=
  if s < 0 then none
  else if s > (2^63 - 1) / 1000 then none
  else some (dateFromTime (timeUnix s 0))

/-- `time.UnixMilli(ms)` then `.Unix()`/`.UnixMilli()` : `Date.Time()` observed as milliseconds -/
def dateTimeMillis (d : Bytes) : Int := dateInt d

/-! ### Hash / fixed-size readers -/

/-- `data.ReadHash`: on short input the *input* is returned as remainder together with the error. -/
def readHash (d : Bytes) : Option (Bytes × Bytes) :=
  if d.length < 32 then none else some (d.take 32, d.drop 32)

end I2P
