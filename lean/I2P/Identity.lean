import I2P.Kac
import I2P.Base
/-! Model of the identity-level accessors of `destination/` and `router_identity/`: `Hash()`,
    `Base32Address()`, `Base64()`, `Equals()/Equal()`, `RouterInfo.IdentHash()`.  SHA-256 is a parameter. -/
namespace I2P.Identity
open I2P I2P.Kac

/-- `Destination.Hash()` / `RouterInfo.IdentHash()`: SHA-256 of `KeysAndCert.Bytes()` -/
def hash (H : Bytes → Bytes) (k : KeysAndCert) : Option Bytes := k.bytes.map H

/-- `strings.TrimRight(s, "=")` -/
def trimPad (s : Bytes) : Bytes := (s.reverse.dropWhile (· == Base.padChar)).reverse

/-- `".b32.i2p"` -/
def suffix : Bytes := [0x2e, 0x62, 0x33, 0x32, 0x2e, 0x69, 0x32, 0x70]

/-- `Destination.Base32Address()`: padded I2P base32 of the hash, padding trimmed, suffix appended -/
def base32Address (H : Bytes → Bytes) (k : KeysAndCert) : Option Bytes :=
  k.bytes.map fun b => trimPad (Base.enc32 (H b)) ++ suffix

/-- `Destination.Base64()` -/
def base64 (k : KeysAndCert) : Option Bytes := k.bytes.map Base.enc64

/-- `Destination.Equals` / `RouterIdentity.Equal`: both serialise and the bytes are equal -/
def equals (a b : KeysAndCert) : Bool :=
  match a.bytes, b.bytes with
  | some x, some y => x == y
  | _, _ => false

end I2P.Identity
