/-! Spec-layer size and policy tables (I2P 0.9.67 common structures), typed in once.
    `Gen/Observed.lean` and `Gen/Tables.lean` (regenerated from /repo on every run) are proved equal
    to these in `Props/C10.lean`. -/
namespace I2P.Spec

/-- signing type code ↦ (public key bytes, signature bytes) -/
def sigInfo : Nat → Option (Nat × Nat)
  | 0 => some (128, 40)    -- DSA-SHA1
  | 1 => some (64, 64)     -- ECDSA-SHA256-P256
  | 2 => some (96, 96)     -- ECDSA-SHA384-P384
  | 3 => some (132, 132)   -- ECDSA-SHA512-P521
  | 4 => some (256, 256)   -- RSA-SHA256-2048
  | 5 => some (384, 384)   -- RSA-SHA384-3072
  | 6 => some (512, 512)   -- RSA-SHA512-4096
  | 7 => some (32, 64)     -- EdDSA-SHA512-Ed25519
  | 8 => some (32, 64)     -- EdDSA-SHA512-Ed25519ph
  | 11 => some (32, 64)    -- RedDSA-SHA512-Ed25519
  | _ => none

/-- crypto type code ↦ public key bytes -/
def cryptoInfo : Nat → Option Nat
  | 0 => some 256          -- ElGamal
  | 1 => some 64           -- P256
  | 2 => some 96           -- P384
  | 3 => some 132          -- P521
  | 4 => some 32           -- X25519
  | 5 => some 32           -- MLKEM512_X25519 (size of the key carried in the key block)
  | 6 => some 32           -- MLKEM768_X25519
  | 7 => some 32           -- MLKEM1024_X25519
  | _ => none

def sigPubSize (t : Nat) : Nat := ((sigInfo t).map (·.1)).getD 0
def sigLen (t : Nat) : Nat := ((sigInfo t).map (·.2)).getD 0
def cryptoSize (t : Nat) : Nat := (cryptoInfo t).getD 0

/-- prohibited in a Destination -/
def destProhibitedSig : Nat → Bool | 4 | 5 | 6 | 8 => true | _ => false
def destProhibitedCrypto : Nat → Bool | 5 | 6 | 7 => true | _ => false
/-- prohibited in a RouterIdentity -/
def ridProhibitedSig : Nat → Bool | 4 | 5 | 6 | 8 | 11 => true | _ => false
def ridProhibitedCrypto : Nat → Bool | 5 | 6 | 7 => true | _ => false

def destAllowed (s c : Nat) : Bool := !destProhibitedSig s && !destProhibitedCrypto c
def ridAllowed (s c : Nat) : Bool := !ridProhibitedSig s && !ridProhibitedCrypto c

end I2P.Spec
