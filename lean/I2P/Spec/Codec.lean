import I2P.Bytes

/-! # Lawful byte codecs and combinators (specification layer)

A `Codec α` packages a reader, a writer and a well-formedness predicate with three primitive laws
(`consumed`, `complete`, `sound`).  Append-stability, prefix-freeness and the round trips are derived
once for all codecs; every combinator below is a `def … : Codec …` with all three laws proved.
Core-only (no Mathlib). -/

namespace I2P.Spec

/-- A reader/writer pair for values of type `α` with the three primitive laws. -/
structure Codec (α : Type) where
  /-- parse a value from the front of `w`, returning the remainder -/
  read  : Bytes → Option (α × Bytes)
  /-- serialise -/
  write : α → Bytes
  /-- the values that have a wire representation -/
  wf    : α → Prop
  /-- the reader consumed exactly the serialisation of what it returned -/
  consumed : ∀ {w a r}, read w = some (a, r) → write a ++ r = w
  /-- every well-formed value is read back, whatever follows -/
  complete : ∀ {a} (x : Bytes), wf a → read (write a ++ x) = some (a, x)
  /-- the reader only returns well-formed values -/
  sound    : ∀ {w a r}, read w = some (a, r) → wf a

namespace Codec

variable {α β : Type}

/-! ## Laws derived once for all codecs -/

/-- Append-stability: bytes after a successful parse are passed through untouched. -/
theorem append (c : Codec α) {w : Bytes} {a : α} {r : Bytes} (x : Bytes)
    (h : c.read w = some (a, r)) : c.read (w ++ x) = some (a, r ++ x) := by
  have h1 := c.consumed h
  have h2 := c.sound h
  rw [← h1, List.append_assoc]
  exact c.complete _ h2

/-- Round trip write-then-read. -/
theorem read_write (c : Codec α) {a : α} (h : c.wf a) : c.read (c.write a) = some (a, []) := by
  have := c.complete [] h
  rwa [List.append_nil] at this

/-- Round trip read-then-write (restatement of `consumed` for a full parse). -/
theorem write_read (c : Codec α) {w : Bytes} {a : α} (h : c.read w = some (a, [])) :
    c.write a = w := by
  have := c.consumed h
  rwa [List.append_nil] at this

/-- The reader is deterministic in the strong sense: the result determines the split of the input. -/
theorem read_eq_iff (c : Codec α) {w : Bytes} {a : α} {r : Bytes} :
    c.read w = some (a, r) ↔ c.wf a ∧ c.write a ++ r = w := by
  constructor
  · intro h; exact ⟨c.sound h, c.consumed h⟩
  · intro ⟨h1, h2⟩; rw [← h2]; exact c.complete _ h1

/-- No proper prefix of a fully consumed input parses at all. -/
theorem no_prefix (c : Codec α) {w : Bytes} {a : α} (h : c.read w = some (a, []))
    {k : Nat} (hk : k < w.length) : c.read (w.take k) = none := by
  cases hp : c.read (w.take k) with
  | none => rfl
  | some p =>
    obtain ⟨b, r'⟩ := p
    have h3 := c.append (w.drop k) hp
    rw [List.take_append_drop, h] at h3
    injection h3 with h3
    injection h3 with _ h4
    have h5 := congrArg List.length h4
    simp only [List.length_nil, List.length_append, List.length_drop] at h5
    omega

/-- Prefix-freeness of the set of encodings: an encoding followed by anything determines the value
    and the rest. -/
theorem write_append_inj (c : Codec α) {a b : α} {x y : Bytes} (ha : c.wf a) (hb : c.wf b)
    (h : c.write a ++ x = c.write b ++ y) : a = b ∧ x = y := by
  have h1 := c.complete x ha
  rw [h, c.complete y hb] at h1
  injection h1 with h1
  injection h1 with h2 h3
  exact ⟨h2.symm, h3.symm⟩

/-- `write` is injective on well-formed values. -/
theorem write_inj (c : Codec α) {a b : α} (ha : c.wf a) (hb : c.wf b)
    (h : c.write a = c.write b) : a = b :=
  (c.write_append_inj (x := []) (y := []) ha hb (by rw [h])).1

/-- An encoding is never a proper prefix of another encoding. -/
theorem write_prefix_free (c : Codec α) {a b : α} {x : Bytes} (ha : c.wf a) (hb : c.wf b)
    (h : c.write a ++ x = c.write b) : a = b ∧ x = [] := by
  have := c.write_append_inj (x := x) (y := []) ha hb (by rw [h, List.append_nil])
  exact this

/-- A successful read never returns more bytes than it was given. -/
theorem read_length (c : Codec α) {w : Bytes} {a : α} {r : Bytes} (h : c.read w = some (a, r)) :
    w.length = (c.write a).length + r.length := by
  rw [← c.consumed h, List.length_append]

end Codec

open Codec

variable {α β : Type}

/-! ## Re-stating the well-formedness predicate -/

/-- Same codec with the well-formedness predicate replaced by an equivalent one (so that derived
    codecs get a readable, definitional `wf`). -/
def withWf (A : Codec α) (p : α → Prop) (h : ∀ a, A.wf a ↔ p a) : Codec α where
  read := A.read
  write := A.write
  wf := p
  consumed := A.consumed
  complete := fun x hp => A.complete x ((h _).2 hp)
  sound := fun hr => (h _).1 (A.sound hr)

theorem withWf_read (A : Codec α) (p h) (w : Bytes) : (withWf A p h).read w = A.read w := rfl
@[simp] theorem withWf_write (A : Codec α) (p h) (a : α) : (withWf A p h).write a = A.write a := rfl
@[simp] theorem withWf_wf (A : Codec α) (p h) (a : α) : (withWf A p h).wf a = p a := rfl

/-! ## Fixed-size primitives -/

/-- exactly `n` raw bytes -/
def bytesN (n : Nat) : Codec Bytes where
  read w := if n ≤ w.length then some (w.take n, w.drop n) else none
  write b := b
  wf b := b.length = n
  consumed := by
    intro w a r h
    split at h
    · injection h with h
      injection h with h1 h2
      subst h1 h2
      exact List.take_append_drop _ _
    · contradiction
  complete := by
    intro a x h
    have h1 : n ≤ (a ++ x).length := by rw [List.length_append]; omega
    rw [if_pos h1, List.take_left' h, List.drop_left' h]
  sound := by
    intro w a r h
    split at h
    · injection h with h
      injection h with h1 h2
      subst h1
      rw [List.length_take]; omega
    · contradiction

theorem bytesN_read (n : Nat) (w : Bytes) :
    (bytesN n).read w = if n ≤ w.length then some (w.take n, w.drop n) else none := rfl
@[simp] theorem bytesN_write (n : Nat) (b : Bytes) : (bytesN n).write b = b := rfl
@[simp] theorem bytesN_wf (n : Nat) (b : Bytes) : (bytesN n).wf b = (b.length = n) := rfl

/-- `n`-byte big-endian unsigned integer -/
def beInt (n : Nat) : Codec Nat where
  read w := if n ≤ w.length then some (beVal (w.take n), w.drop n) else none
  write v := beEnc n v
  wf v := v < 256 ^ n
  consumed := by
    intro w a r h
    split at h
    · rename_i hn
      injection h with h
      injection h with h1 h2
      subst h1 h2
      have hl : (w.take n).length = n := by rw [List.length_take]; omega
      have := beEnc_beVal (w.take n)
      rw [hl] at this
      rw [this]
      exact List.take_append_drop _ _
    · contradiction
  complete := by
    intro a x h
    have hl : (beEnc n a).length = n := beEnc_length n a
    have h1 : n ≤ (beEnc n a ++ x).length := by rw [List.length_append]; omega
    rw [if_pos h1, List.take_left' hl, List.drop_left' hl, beVal_beEnc n a h]
  sound := by
    intro w a r h
    split at h
    · rename_i hn
      injection h with h
      injection h with h1 h2
      subst h1
      have hl : (w.take n).length = n := by rw [List.length_take]; omega
      have := beVal_lt (w.take n)
      rwa [hl] at this
    · contradiction

theorem beInt_read (n : Nat) (w : Bytes) :
    (beInt n).read w = if n ≤ w.length then some (beVal (w.take n), w.drop n) else none := rfl
@[simp] theorem beInt_write (n v : Nat) : (beInt n).write v = beEnc n v := rfl
@[simp] theorem beInt_wf (n v : Nat) : (beInt n).wf v = (v < 256 ^ n) := rfl

/-- one byte -/
def byte : Codec UInt8 where
  read w := match w with
    | [] => none
    | b :: r => some (b, r)
  write b := [b]
  wf _ := True
  consumed := by
    intro w a r h
    cases w with
    | nil => contradiction
    | cons b t =>
      injection h with h
      injection h with h1 h2
      subst h1 h2
      rfl
  complete := by
    intro a x _
    rfl
  sound := by
    intros
    trivial

theorem byte_read_nil : byte.read [] = none := rfl
theorem byte_read_cons (b : UInt8) (r : Bytes) : byte.read (b :: r) = some (b, r) := rfl
@[simp] theorem byte_write (b : UInt8) : byte.write b = [b] := rfl
@[simp] theorem byte_wf (b : UInt8) : byte.wf b = True := rfl

/-- exactly the literal bytes `bs` (delimiters) -/
def const (bs : Bytes) : Codec Unit where
  read w := if w.take bs.length = bs then some ((), w.drop bs.length) else none
  write _ := bs
  wf _ := True
  consumed := by
    intro w a r h
    split at h
    · rename_i hp
      injection h with h
      injection h with h1 h2
      subst h2
      have := List.take_append_drop bs.length w
      rw [hp] at this
      exact this
    · contradiction
  complete := by
    intro a x _
    have h1 : (bs ++ x).take bs.length = bs := List.take_left' rfl
    rw [if_pos h1, List.drop_left' rfl]
  sound := by
    intros
    trivial

theorem const_read (bs w : Bytes) :
    (const bs).read w = if w.take bs.length = bs then some ((), w.drop bs.length) else none := rfl
@[simp] theorem const_write (bs : Bytes) (u : Unit) : (const bs).write u = bs := rfl
@[simp] theorem const_wf (bs : Bytes) (u : Unit) : (const bs).wf u = True := rfl

/-! ## Sequencing -/

/-- Dependent sequencing: the codec of the second component is chosen by the first value. -/
def dpair (A : Codec α) (B : α → Codec β) : Codec (α × β) where
  read w := match A.read w with
    | none => none
    | some (a, r) => match (B a).read r with
      | none => none
      | some (b, r') => some ((a, b), r')
  write p := A.write p.1 ++ (B p.1).write p.2
  wf p := A.wf p.1 ∧ (B p.1).wf p.2
  consumed := by
    intro w p r h
    cases hA : A.read w with
    | none => simp only [hA] at h; contradiction
    | some q =>
      obtain ⟨a, r1⟩ := q
      simp only [hA] at h
      cases hB : (B a).read r1 with
      | none => simp only [hB] at h; contradiction
      | some q2 =>
        obtain ⟨b, r2⟩ := q2
        simp only [hB] at h
        injection h with h
        injection h with h1 h2
        subst h1 h2
        show A.write a ++ (B a).write b ++ r2 = w
        rw [List.append_assoc, (B a).consumed hB, A.consumed hA]
  complete := by
    intro p x h
    obtain ⟨a, b⟩ := p
    obtain ⟨h1, h2⟩ := h
    show (match A.read (A.write a ++ (B a).write b ++ x) with
      | none => none
      | some (a, r) => match (B a).read r with
        | none => none
        | some (b, r') => some ((a, b), r')) = some ((a, b), x)
    rw [List.append_assoc, A.complete _ h1]
    simp only
    rw [(B a).complete _ h2]
  sound := by
    intro w p r h
    cases hA : A.read w with
    | none => simp only [hA] at h; contradiction
    | some q =>
      obtain ⟨a, r1⟩ := q
      simp only [hA] at h
      cases hB : (B a).read r1 with
      | none => simp only [hB] at h; contradiction
      | some q2 =>
        obtain ⟨b, r2⟩ := q2
        simp only [hB] at h
        injection h with h
        injection h with h1 h2
        subst h1
        exact ⟨A.sound hA, (B a).sound hB⟩

theorem dpair_read (A : Codec α) (B : α → Codec β) (w : Bytes) :
    (dpair A B).read w = match A.read w with
      | none => none
      | some (a, r) => match (B a).read r with
        | none => none
        | some (b, r') => some ((a, b), r') := rfl
@[simp] theorem dpair_write (A : Codec α) (B : α → Codec β) (a : α) (b : β) :
    (dpair A B).write (a, b) = A.write a ++ (B a).write b := rfl
@[simp] theorem dpair_wf (A : Codec α) (B : α → Codec β) (a : α) (b : β) :
    (dpair A B).wf (a, b) = (A.wf a ∧ (B a).wf b) := rfl

/-- Characterisation of a successful dependent-pair read. -/
theorem dpair_read_eq_some (A : Codec α) (B : α → Codec β) {w : Bytes} {a : α} {b : β} {r : Bytes} :
    (dpair A B).read w = some ((a, b), r) ↔
      ∃ r1, A.read w = some (a, r1) ∧ (B a).read r1 = some (b, r) := by
  constructor
  · intro h
    have hc := (dpair A B).consumed h
    have hs := (dpair A B).sound h
    refine ⟨(B a).write b ++ r, ?_, ?_⟩
    · rw [← hc]
      show A.read (A.write a ++ (B a).write b ++ r) = _
      rw [List.append_assoc]
      exact A.complete _ hs.1
    · exact (B a).complete _ hs.2
  · intro ⟨r1, h1, h2⟩
    rw [dpair_read, h1]
    simp only
    rw [h2]

/-- Sequencing of two independent codecs. -/
def pair (A : Codec α) (B : Codec β) : Codec (α × β) := dpair A (fun _ => B)

/-- alias of `pair` -/
abbrev seq (A : Codec α) (B : Codec β) : Codec (α × β) := pair A B

theorem pair_read (A : Codec α) (B : Codec β) (w : Bytes) :
    (pair A B).read w = match A.read w with
      | none => none
      | some (a, r) => match B.read r with
        | none => none
        | some (b, r') => some ((a, b), r') := rfl
@[simp] theorem pair_write (A : Codec α) (B : Codec β) (a : α) (b : β) :
    (pair A B).write (a, b) = A.write a ++ B.write b := rfl
@[simp] theorem pair_wf (A : Codec α) (B : Codec β) (a : α) (b : β) :
    (pair A B).wf (a, b) = (A.wf a ∧ B.wf b) := rfl

theorem pair_read_eq_some (A : Codec α) (B : Codec β) {w : Bytes} {a : α} {b : β} {r : Bytes} :
    (pair A B).read w = some ((a, b), r) ↔
      ∃ r1, A.read w = some (a, r1) ∧ B.read r1 = some (b, r) :=
  dpair_read_eq_some A (fun _ => B)

/-! ## Transport, guards, options -/

/-- Transport along a map that is a bijection between the well-formed values of `A` and `β`. -/
def isoOn (A : Codec α) (f : α → β) (g : β → α) (hfg : ∀ b, f (g b) = b)
    (hgf : ∀ a, A.wf a → g (f a) = a) : Codec β where
  read w := match A.read w with
    | none => none
    | some (a, r) => some (f a, r)
  write b := A.write (g b)
  wf b := A.wf (g b)
  consumed := by
    intro w b r h
    cases hA : A.read w with
    | none => simp only [hA] at h; contradiction
    | some q =>
      obtain ⟨a, r1⟩ := q
      simp only [hA] at h
      injection h with h
      injection h with h1 h2
      subst h1 h2
      show A.write (g (f a)) ++ r1 = w
      rw [hgf a (A.sound hA)]
      exact A.consumed hA
  complete := by
    intro b x h
    show (match A.read (A.write (g b) ++ x) with
      | none => none
      | some (a, r) => some (f a, r)) = some (b, x)
    rw [A.complete _ h]
    simp only [hfg]
  sound := by
    intro w b r h
    cases hA : A.read w with
    | none => simp only [hA] at h; contradiction
    | some q =>
      obtain ⟨a, r1⟩ := q
      simp only [hA] at h
      injection h with h
      injection h with h1 h2
      subst h1
      show A.wf (g (f a))
      rw [hgf a (A.sound hA)]
      exact A.sound hA

theorem isoOn_read (A : Codec α) (f : α → β) (g hfg hgf) (w : Bytes) :
    (isoOn A f g hfg hgf).read w = match A.read w with
      | none => none
      | some (a, r) => some (f a, r) := rfl
@[simp] theorem isoOn_write (A : Codec α) (f : α → β) (g hfg hgf) (b : β) :
    (isoOn A f g hfg hgf).write b = A.write (g b) := rfl
@[simp] theorem isoOn_wf (A : Codec α) (f : α → β) (g hfg hgf) (b : β) :
    (isoOn A f g hfg hgf).wf b = A.wf (g b) := rfl

/-- Transport along a bijection. -/
def iso (A : Codec α) (f : α → β) (g : β → α) (hfg : ∀ b, f (g b) = b) (hgf : ∀ a, g (f a) = a) :
    Codec β := isoOn A f g hfg (fun a _ => hgf a)

theorem iso_read (A : Codec α) (f : α → β) (g hfg hgf) (w : Bytes) :
    (iso A f g hfg hgf).read w = match A.read w with
      | none => none
      | some (a, r) => some (f a, r) := rfl
@[simp] theorem iso_write (A : Codec α) (f : α → β) (g hfg hgf) (b : β) :
    (iso A f g hfg hgf).write b = A.write (g b) := rfl
@[simp] theorem iso_wf (A : Codec α) (f : α → β) (g hfg hgf) (b : β) :
    (iso A f g hfg hgf).wf b = A.wf (g b) := rfl

/-- Same wire format; the read fails unless `p` holds of the value. -/
def guard (A : Codec α) (p : α → Bool) : Codec α where
  read w := match A.read w with
    | none => none
    | some (a, r) => if p a then some (a, r) else none
  write := A.write
  wf a := A.wf a ∧ p a = true
  consumed := by
    intro w b r h
    cases hA : A.read w with
    | none => simp only [hA] at h; contradiction
    | some q =>
      obtain ⟨a, r1⟩ := q
      simp only [hA] at h
      split at h
      · injection h with h
        injection h with h1 h2
        subst h1 h2
        exact A.consumed hA
      · contradiction
  complete := by
    intro a x h
    show (match A.read (A.write a ++ x) with
      | none => none
      | some (a, r) => if p a then some (a, r) else none) = some (a, x)
    rw [A.complete _ h.1]
    simp only [h.2, if_true]
  sound := by
    intro w b r h
    cases hA : A.read w with
    | none => simp only [hA] at h; contradiction
    | some q =>
      obtain ⟨a, r1⟩ := q
      simp only [hA] at h
      split at h
      · rename_i hp
        injection h with h
        injection h with h1 h2
        subst h1
        exact ⟨A.sound hA, hp⟩
      · contradiction

theorem guard_read (A : Codec α) (p : α → Bool) (w : Bytes) :
    (guard A p).read w = match A.read w with
      | none => none
      | some (a, r) => if p a then some (a, r) else none := rfl
@[simp] theorem guard_write (A : Codec α) (p : α → Bool) (a : α) :
    (guard A p).write a = A.write a := rfl
@[simp] theorem guard_wf (A : Codec α) (p : α → Bool) (a : α) :
    (guard A p).wf a = (A.wf a ∧ p a = true) := rfl

/-- Present iff `p`: if `p` reads `A` and returns `some`, else reads nothing and returns `none`. -/
def optionalIf (p : Bool) (A : Codec α) : Codec (Option α) where
  read w := if p then
      match A.read w with
      | none => none
      | some (a, r) => some (some a, r)
    else some (none, w)
  write o := match o with
    | some a => A.write a
    | none => []
  wf o := match o with
    | some a => p = true ∧ A.wf a
    | none => p = false
  consumed := by
    intro w o r h
    cases p with
    | false =>
      simp only [Bool.false_eq_true, if_false] at h
      injection h with h
      injection h with h1 h2
      subst h1 h2
      rfl
    | true =>
      simp only [if_true] at h
      cases hA : A.read w with
      | none => simp only [hA] at h; contradiction
      | some q =>
        obtain ⟨a, r1⟩ := q
        simp only [hA] at h
        injection h with h
        injection h with h1 h2
        subst h1 h2
        exact A.consumed hA
  complete := by
    intro o x h
    cases o with
    | none =>
      have h : p = false := h
      subst h
      rfl
    | some a =>
      have h : p = true ∧ A.wf a := h
      obtain ⟨h1, h2⟩ := h
      subst h1
      show (if true = true then
        match A.read (A.write a ++ x) with
        | none => none
        | some (a, r) => some (some a, r)
        else some (none, A.write a ++ x)) = some (some a, x)
      rw [if_pos rfl, A.complete _ h2]
  sound := by
    intro w o r h
    cases p with
    | false =>
      simp only [Bool.false_eq_true, if_false] at h
      injection h with h
      injection h with h1 h2
      subst h1
      rfl
    | true =>
      simp only [if_true] at h
      cases hA : A.read w with
      | none => simp only [hA] at h; contradiction
      | some q =>
        obtain ⟨a, r1⟩ := q
        simp only [hA] at h
        injection h with h
        injection h with h1 h2
        subst h1
        exact ⟨rfl, A.sound hA⟩

theorem optionalIf_read (p : Bool) (A : Codec α) (w : Bytes) :
    (optionalIf p A).read w = if p then
      match A.read w with
      | none => none
      | some (a, r) => some (some a, r)
    else some (none, w) := rfl
theorem optionalIf_read_false (A : Codec α) (w : Bytes) :
    (optionalIf false A).read w = some (none, w) := rfl
theorem optionalIf_read_true (A : Codec α) (w : Bytes) :
    (optionalIf true A).read w = match A.read w with
      | none => none
      | some (a, r) => some (some a, r) := rfl
@[simp] theorem optionalIf_write_some (p : Bool) (A : Codec α) (a : α) :
    (optionalIf p A).write (some a) = A.write a := rfl
@[simp] theorem optionalIf_write_none (p : Bool) (A : Codec α) :
    (optionalIf p A).write none = [] := rfl
theorem optionalIf_write (p : Bool) (A : Codec α) (o : Option α) :
    (optionalIf p A).write o = match o with
      | some a => A.write a
      | none => [] := rfl
@[simp] theorem optionalIf_wf_some (p : Bool) (A : Codec α) (a : α) :
    (optionalIf p A).wf (some a) = (p = true ∧ A.wf a) := rfl
@[simp] theorem optionalIf_wf_none (p : Bool) (A : Codec α) :
    (optionalIf p A).wf none = (p = false) := rfl
theorem optionalIf_wf (p : Bool) (A : Codec α) (o : Option α) :
    (optionalIf p A).wf o = match o with
      | some a => p = true ∧ A.wf a
      | none => p = false := rfl

/-! ## Nested framing -/

/-- Read a byte string with `B`, then parse it *entirely* with `A`. -/
def through (B : Codec Bytes) (A : Codec α) : Codec α where
  read w := match B.read w with
    | none => none
    | some (body, r) => match A.read body with
      | none => none
      | some (a, r') => match r' with
        | [] => some (a, r)
        | _ :: _ => none
  write a := B.write (A.write a)
  wf a := A.wf a ∧ B.wf (A.write a)
  consumed := by
    intro w a r h
    cases hB : B.read w with
    | none => simp only [hB] at h; contradiction
    | some q =>
      obtain ⟨body, r1⟩ := q
      simp only [hB] at h
      cases hA : A.read body with
      | none => simp only [hA] at h; contradiction
      | some q2 =>
        obtain ⟨a', r2⟩ := q2
        simp only [hA] at h
        cases r2 with
        | cons _ _ => contradiction
        | nil =>
          injection h with h
          injection h with h1 h2
          subst h1 h2
          show B.write (A.write a') ++ r1 = w
          rw [A.write_read hA]
          exact B.consumed hB
  complete := by
    intro a x h
    show (match B.read (B.write (A.write a) ++ x) with
      | none => none
      | some (body, r) => match A.read body with
        | none => none
        | some (a, r') => match r' with
          | [] => some (a, r)
          | _ :: _ => none) = some (a, x)
    rw [B.complete _ h.2]
    simp only
    rw [A.read_write h.1]
  sound := by
    intro w a r h
    cases hB : B.read w with
    | none => simp only [hB] at h; contradiction
    | some q =>
      obtain ⟨body, r1⟩ := q
      simp only [hB] at h
      cases hA : A.read body with
      | none => simp only [hA] at h; contradiction
      | some q2 =>
        obtain ⟨a', r2⟩ := q2
        simp only [hA] at h
        cases r2 with
        | cons _ _ => contradiction
        | nil =>
          injection h with h
          injection h with h1 h2
          subst h1
          refine ⟨A.sound hA, ?_⟩
          rw [A.write_read hA]
          exact B.sound hB

theorem through_read (B : Codec Bytes) (A : Codec α) (w : Bytes) :
    (through B A).read w = match B.read w with
      | none => none
      | some (body, r) => match A.read body with
        | none => none
        | some (a, r') => match r' with
          | [] => some (a, r)
          | _ :: _ => none := rfl
@[simp] theorem through_write (B : Codec Bytes) (A : Codec α) (a : α) :
    (through B A).write a = B.write (A.write a) := rfl
@[simp] theorem through_wf (B : Codec Bytes) (A : Codec α) (a : α) :
    (through B A).wf a = (A.wf a ∧ B.wf (A.write a)) := rfl

/-- Characterisation of a successful `through` read. -/
theorem through_read_eq_some (B : Codec Bytes) (A : Codec α) {w : Bytes} {a : α} {r : Bytes} :
    (through B A).read w = some (a, r) ↔
      ∃ body, B.read w = some (body, r) ∧ A.read body = some (a, []) := by
  constructor
  · intro h
    have hc := (through B A).consumed h
    have hs := (through B A).sound h
    refine ⟨A.write a, ?_, A.read_write hs.1⟩
    rw [← hc]
    exact B.complete _ hs.2
  · intro ⟨body, h1, h2⟩
    rw [through_read, h1]
    simp only
    rw [h2]

/-- `k`-byte big-endian length, then that many bytes (`k = 1`: the I2P String). -/
def lenPrefixed (k : Nat) : Codec Bytes :=
  withWf
    (isoOn (dpair (beInt k) bytesN) Prod.snd (fun b => (b.length, b)) (fun _ => rfl)
      (by
        intro p h
        obtain ⟨n, b⟩ := p
        have h2 : b.length = n := h.2
        subst h2
        rfl))
    (fun b => b.length < 256 ^ k)
    (by
      intro b
      constructor
      · intro h; exact h.1
      · intro h; exact ⟨h, rfl⟩)

@[simp] theorem lenPrefixed_write (k : Nat) (b : Bytes) :
    (lenPrefixed k).write b = beEnc k b.length ++ b := rfl
@[simp] theorem lenPrefixed_wf (k : Nat) (b : Bytes) :
    (lenPrefixed k).wf b = (b.length < 256 ^ k) := rfl

theorem lenPrefixed_read (k : Nat) (w : Bytes) :
    (lenPrefixed k).read w =
      if k ≤ w.length then
        if beVal (w.take k) ≤ (w.drop k).length then
          some ((w.drop k).take (beVal (w.take k)), (w.drop k).drop (beVal (w.take k)))
        else none
      else none := by
  unfold lenPrefixed
  rw [withWf_read, isoOn_read, dpair_read, beInt_read]
  by_cases h1 : k ≤ w.length
  · rw [if_pos h1, if_pos h1]
    simp only [bytesN_read]
    by_cases h2 : beVal (w.take k) ≤ (w.drop k).length
    · rw [if_pos h2]
    · rw [if_neg h2]
  · rw [if_neg h1, if_neg h1]

/-- `k`-byte big-endian length `L`, then exactly `L` bytes which `A` must consume entirely. -/
def within (k : Nat) (A : Codec α) : Codec α := through (lenPrefixed k) A

theorem within_read (k : Nat) (A : Codec α) (w : Bytes) :
    (within k A).read w = match (lenPrefixed k).read w with
      | none => none
      | some (body, r) => match A.read body with
        | none => none
        | some (a, r') => match r' with
          | [] => some (a, r)
          | _ :: _ => none := rfl
@[simp] theorem within_write (k : Nat) (A : Codec α) (a : α) :
    (within k A).write a = beEnc k (A.write a).length ++ A.write a := rfl
@[simp] theorem within_wf (k : Nat) (A : Codec α) (a : α) :
    (within k A).wf a = (A.wf a ∧ (A.write a).length < 256 ^ k) := rfl

theorem within_read_eq_some (k : Nat) (A : Codec α) {w : Bytes} {a : α} {r : Bytes} :
    (within k A).read w = some (a, r) ↔
      ∃ body, (lenPrefixed k).read w = some (body, r) ∧ A.read body = some (a, []) :=
  through_read_eq_some (lenPrefixed k) A

/-! ## Repetition -/

/-- read exactly `n` elements with the reader `rd` -/
def readN (rd : Bytes → Option (α × Bytes)) : Nat → Bytes → Option (List α × Bytes)
  | 0, w => some ([], w)
  | n+1, w => match rd w with
    | none => none
    | some (a, r) => match readN rd n r with
      | none => none
      | some (l, r') => some (a :: l, r')

/-- concatenated encodings of a list -/
def writeAll (A : Codec α) : List α → Bytes
  | [] => []
  | a :: l => A.write a ++ writeAll A l

theorem readN_zero (rd : Bytes → Option (α × Bytes)) (w : Bytes) : readN rd 0 w = some ([], w) := rfl
theorem readN_succ (rd : Bytes → Option (α × Bytes)) (n : Nat) (w : Bytes) :
    readN rd (n+1) w = match rd w with
      | none => none
      | some (a, r) => match readN rd n r with
        | none => none
        | some (l, r') => some (a :: l, r') := rfl

@[simp] theorem writeAll_nil (A : Codec α) : writeAll A [] = [] := rfl
@[simp] theorem writeAll_cons (A : Codec α) (a : α) (l : List α) :
    writeAll A (a :: l) = A.write a ++ writeAll A l := rfl
theorem writeAll_append (A : Codec α) (l₁ l₂ : List α) :
    writeAll A (l₁ ++ l₂) = writeAll A l₁ ++ writeAll A l₂ := by
  induction l₁ with
  | nil => rfl
  | cons a t ih => simp only [List.cons_append, writeAll_cons, ih, List.append_assoc]
theorem writeAll_eq_flatMap (A : Codec α) (l : List α) : writeAll A l = l.flatMap A.write := by
  induction l with
  | nil => rfl
  | cons a t ih => rw [writeAll_cons, List.flatMap_cons, ih]
/-- length of the encoding of a list of fixed-size elements -/
theorem writeAll_length_const (A : Codec α) (m : Nat) (l : List α)
    (h : ∀ a ∈ l, (A.write a).length = m) : (writeAll A l).length = l.length * m := by
  induction l with
  | nil => simp
  | cons a t ih =>
    have h1 := h a (List.mem_cons_self ..)
    have h2 := ih (fun b hb => h b (List.mem_cons_of_mem _ hb))
    rw [writeAll_cons, List.length_append, h1, h2, List.length_cons, Nat.succ_mul]
    omega

theorem readN_consumed (A : Codec α) : ∀ (n : Nat) {w : Bytes} {l : List α} {r : Bytes},
    readN A.read n w = some (l, r) → writeAll A l ++ r = w := by
  intro n
  induction n with
  | zero =>
    intro w l r h
    rw [readN_zero] at h
    injection h with h
    injection h with h1 h2
    subst h1 h2
    rfl
  | succ n ih =>
    intro w l r h
    rw [readN_succ] at h
    cases hA : A.read w with
    | none => simp only [hA] at h; contradiction
    | some q =>
      obtain ⟨a, r1⟩ := q
      simp only [hA] at h
      cases hR : readN A.read n r1 with
      | none => simp only [hR] at h; contradiction
      | some q2 =>
        obtain ⟨l', r2⟩ := q2
        simp only [hR] at h
        injection h with h
        injection h with h1 h2
        subst h1 h2
        rw [writeAll_cons, List.append_assoc, ih hR, A.consumed hA]

theorem readN_sound (A : Codec α) : ∀ (n : Nat) {w : Bytes} {l : List α} {r : Bytes},
    readN A.read n w = some (l, r) → l.length = n ∧ ∀ a ∈ l, A.wf a := by
  intro n
  induction n with
  | zero =>
    intro w l r h
    rw [readN_zero] at h
    injection h with h
    injection h with h1 h2
    subst h1
    exact ⟨rfl, fun a ha => nomatch ha⟩
  | succ n ih =>
    intro w l r h
    rw [readN_succ] at h
    cases hA : A.read w with
    | none => simp only [hA] at h; contradiction
    | some q =>
      obtain ⟨a, r1⟩ := q
      simp only [hA] at h
      cases hR : readN A.read n r1 with
      | none => simp only [hR] at h; contradiction
      | some q2 =>
        obtain ⟨l', r2⟩ := q2
        simp only [hR] at h
        injection h with h
        injection h with h1 h2
        subst h1
        have ⟨i1, i2⟩ := ih hR
        refine ⟨by rw [List.length_cons, i1], ?_⟩
        intro b hb
        cases hb with
        | head => exact A.sound hA
        | tail _ hb => exact i2 b hb

theorem readN_complete (A : Codec α) : ∀ (l : List α) (x : Bytes), (∀ a ∈ l, A.wf a) →
    readN A.read l.length (writeAll A l ++ x) = some (l, x) := by
  intro l
  induction l with
  | nil => intro x _; rfl
  | cons a t ih =>
    intro x h
    rw [List.length_cons, readN_succ, writeAll_cons, List.append_assoc,
      A.complete _ (h a (List.mem_cons_self ..))]
    simp only
    rw [ih x (fun b hb => h b (List.mem_cons_of_mem _ hb))]

/-- exactly `n` elements, one after the other -/
def repeatN (n : Nat) (A : Codec α) : Codec (List α) where
  read := readN A.read n
  write := writeAll A
  wf l := l.length = n ∧ ∀ a ∈ l, A.wf a
  consumed := readN_consumed A n
  complete := by
    intro l x h
    obtain ⟨h1, h2⟩ := h
    subst h1
    exact readN_complete A l x h2
  sound := readN_sound A n

theorem repeatN_read (n : Nat) (A : Codec α) (w : Bytes) :
    (repeatN n A).read w = readN A.read n w := rfl
theorem repeatN_read_zero (A : Codec α) (w : Bytes) : (repeatN 0 A).read w = some ([], w) := rfl
theorem repeatN_read_succ (n : Nat) (A : Codec α) (w : Bytes) :
    (repeatN (n+1) A).read w = match A.read w with
      | none => none
      | some (a, r) => match (repeatN n A).read r with
        | none => none
        | some (l, r') => some (a :: l, r') := rfl
@[simp] theorem repeatN_write (n : Nat) (A : Codec α) (l : List α) :
    (repeatN n A).write l = writeAll A l := rfl
@[simp] theorem repeatN_wf (n : Nat) (A : Codec α) (l : List α) :
    (repeatN n A).wf l = (l.length = n ∧ ∀ a ∈ l, A.wf a) := rfl

/-- `k`-byte big-endian count `n` with `lo ≤ n ≤ hi`, then `n` elements. -/
def counted (k lo hi : Nat) (A : Codec α) : Codec (List α) :=
  withWf
    (isoOn
      (dpair (guard (beInt k) (fun n => decide (lo ≤ n) && decide (n ≤ hi))) (fun n => repeatN n A))
      Prod.snd (fun l => (l.length, l)) (fun _ => rfl)
      (by
        intro p h
        obtain ⟨n, l⟩ := p
        have h2 : l.length = n := h.2.1
        subst h2
        rfl))
    (fun l => lo ≤ l.length ∧ l.length ≤ hi ∧ l.length < 256 ^ k ∧ ∀ a ∈ l, A.wf a)
    (by
      intro l
      constructor
      · intro h
        obtain ⟨⟨h1, h2⟩, _, h4⟩ := h
        have h2 : (decide (lo ≤ l.length) && decide (l.length ≤ hi)) = true := h2
        rw [Bool.and_eq_true, decide_eq_true_eq, decide_eq_true_eq] at h2
        exact ⟨h2.1, h2.2, h1, h4⟩
      · intro ⟨h1, h2, h3, h4⟩
        refine ⟨⟨h3, ?_⟩, rfl, h4⟩
        show (decide (lo ≤ l.length) && decide (l.length ≤ hi)) = true
        rw [Bool.and_eq_true, decide_eq_true_eq, decide_eq_true_eq]
        exact ⟨h1, h2⟩)

@[simp] theorem counted_write (k lo hi : Nat) (A : Codec α) (l : List α) :
    (counted k lo hi A).write l = beEnc k l.length ++ writeAll A l := rfl
@[simp] theorem counted_wf (k lo hi : Nat) (A : Codec α) (l : List α) :
    (counted k lo hi A).wf l =
      (lo ≤ l.length ∧ l.length ≤ hi ∧ l.length < 256 ^ k ∧ ∀ a ∈ l, A.wf a) := rfl

theorem counted_read (k lo hi : Nat) (A : Codec α) (w : Bytes) :
    (counted k lo hi A).read w =
      if k ≤ w.length then
        if lo ≤ beVal (w.take k) ∧ beVal (w.take k) ≤ hi then
          (repeatN (beVal (w.take k)) A).read (w.drop k)
        else none
      else none := by
  unfold counted
  rw [withWf_read, isoOn_read, dpair_read, guard_read, beInt_read]
  by_cases h1 : k ≤ w.length
  · rw [if_pos h1, if_pos h1]
    simp only
    by_cases h2 : lo ≤ beVal (w.take k) ∧ beVal (w.take k) ≤ hi
    · have h3 : (decide (lo ≤ beVal (w.take k)) && decide (beVal (w.take k) ≤ hi)) = true := by
        rw [Bool.and_eq_true, decide_eq_true_eq, decide_eq_true_eq]; exact h2
      rw [if_pos h2, if_pos h3]
      simp only
      cases (repeatN (beVal (w.take k)) A).read (w.drop k) with
      | none => rfl
      | some q => rfl
    · have h3 : ¬ (decide (lo ≤ beVal (w.take k)) && decide (beVal (w.take k) ≤ hi)) = true := by
        rw [Bool.and_eq_true, decide_eq_true_eq, decide_eq_true_eq]; exact h2
      rw [if_neg h2, if_neg h3]
  · rw [if_neg h1, if_neg h1]

/-! ## Zero or more elements filling a length-prefixed body (the I2P Mapping body) -/

/-- Parse `w` entirely as zero or more `A`-encodings back to back (fuel: one unit per element;
    `w.length` always suffices when encodings are non-empty). -/
def readAll (A : Codec α) : (fuel : Nat) → Bytes → Option (List α)
  | _, [] => some []
  | 0, _ :: _ => none
  | fuel+1, b :: t => match A.read (b :: t) with
    | none => none
    | some (a, r) => match readAll A fuel r with
      | none => none
      | some l => some (a :: l)

theorem readAll_nil (A : Codec α) (fuel : Nat) : readAll A fuel [] = some [] := by
  cases fuel <;> rfl
theorem readAll_zero_cons (A : Codec α) (b : UInt8) (t : Bytes) : readAll A 0 (b :: t) = none := rfl
theorem readAll_succ_cons (A : Codec α) (fuel : Nat) (b : UInt8) (t : Bytes) :
    readAll A (fuel+1) (b :: t) = match A.read (b :: t) with
      | none => none
      | some (a, r) => match readAll A fuel r with
        | none => none
        | some l => some (a :: l) := rfl
theorem readAll_succ_of_ne_nil (A : Codec α) (fuel : Nat) {w : Bytes} (hw : w ≠ []) :
    readAll A (fuel+1) w = match A.read w with
      | none => none
      | some (a, r) => match readAll A fuel r with
        | none => none
        | some l => some (a :: l) := by
  cases w with
  | nil => exact absurd rfl hw
  | cons b t => rfl
/-- the `Option.map` form of the step equation -/
theorem readAll_succ_of_ne_nil' (A : Codec α) (fuel : Nat) {w : Bytes} (hw : w ≠ []) :
    readAll A (fuel+1) w = match A.read w with
      | none => none
      | some (a, r) => (readAll A fuel r).map (a :: ·) := by
  rw [readAll_succ_of_ne_nil A fuel hw]
  cases A.read w with
  | none => rfl
  | some q =>
    obtain ⟨a, r⟩ := q
    simp only
    cases readAll A fuel r <;> rfl

theorem readAll_consumed (A : Codec α) : ∀ (fuel : Nat) {w : Bytes} {l : List α},
    readAll A fuel w = some l → writeAll A l = w := by
  intro fuel
  induction fuel with
  | zero =>
    intro w l h
    cases w with
    | nil =>
      rw [readAll_nil] at h
      injection h with h
      subst h
      rfl
    | cons b t => rw [readAll_zero_cons] at h; contradiction
  | succ n ih =>
    intro w l h
    cases w with
    | nil =>
      rw [readAll_nil] at h
      injection h with h
      subst h
      rfl
    | cons b t =>
      rw [readAll_succ_cons] at h
      cases hA : A.read (b :: t) with
      | none => simp only [hA] at h; contradiction
      | some q =>
        obtain ⟨a, r⟩ := q
        simp only [hA] at h
        cases hR : readAll A n r with
        | none => simp only [hR] at h; contradiction
        | some l' =>
          simp only [hR] at h
          injection h with h
          subst h
          rw [writeAll_cons, ih hR]
          exact A.consumed hA

theorem readAll_sound (A : Codec α) : ∀ (fuel : Nat) {w : Bytes} {l : List α},
    readAll A fuel w = some l → ∀ a ∈ l, A.wf a := by
  intro fuel
  induction fuel with
  | zero =>
    intro w l h
    cases w with
    | nil =>
      rw [readAll_nil] at h
      injection h with h
      subst h
      exact fun a ha => nomatch ha
    | cons b t => rw [readAll_zero_cons] at h; contradiction
  | succ n ih =>
    intro w l h
    cases w with
    | nil =>
      rw [readAll_nil] at h
      injection h with h
      subst h
      exact fun a ha => nomatch ha
    | cons b t =>
      rw [readAll_succ_cons] at h
      cases hA : A.read (b :: t) with
      | none => simp only [hA] at h; contradiction
      | some q =>
        obtain ⟨a, r⟩ := q
        simp only [hA] at h
        cases hR : readAll A n r with
        | none => simp only [hR] at h; contradiction
        | some l' =>
          simp only [hR] at h
          injection h with h
          subst h
          intro c hc
          cases hc with
          | head => exact A.sound hA
          | tail _ hc => exact ih hR c hc

theorem readAll_complete (A : Codec α) (hpos : ∀ a, A.wf a → A.write a ≠ []) :
    ∀ (l : List α) (fuel : Nat), (∀ a ∈ l, A.wf a) → (writeAll A l).length ≤ fuel →
      readAll A fuel (writeAll A l) = some l := by
  intro l
  induction l with
  | nil => intro fuel _ _; exact readAll_nil A fuel
  | cons a t ih =>
    intro fuel h hf
    have hwa := h a (List.mem_cons_self ..)
    have hne : A.write a ≠ [] := hpos a hwa
    have hlen : 0 < (A.write a).length := List.length_pos_iff.mpr hne
    rw [writeAll_cons, List.length_append] at hf
    cases fuel with
    | zero => omega
    | succ n =>
      have hne2 : A.write a ++ writeAll A t ≠ [] := by
        intro h0
        exact hne (List.append_eq_nil_iff.mp h0).1
      rw [writeAll_cons, readAll_succ_of_ne_nil A n hne2, A.complete _ hwa]
      simp only
      rw [ih n (fun b hb => h b (List.mem_cons_of_mem _ hb)) (by omega)]

/-- Every element of a successful `readAll` consumed at least one byte, so `w.length` fuel is
    enough: more fuel never changes a successful result. -/
theorem readAll_fuel_irrelevant (A : Codec α) (hpos : ∀ a, A.wf a → A.write a ≠ [])
    {fuel : Nat} {w : Bytes} {l : List α} (h : readAll A fuel w = some l) :
    readAll A w.length w = some l := by
  have h1 := readAll_consumed A fuel h
  have h2 := readAll_sound A fuel h
  rw [← h1]
  exact readAll_complete A hpos l _ h2 (Nat.le_refl _)

/-- `k`-byte big-endian length `L`, then exactly `L` bytes consisting of zero or more
    `A`-encodings back to back. -/
def withinAll (k : Nat) (A : Codec α) (hpos : ∀ a, A.wf a → A.write a ≠ []) : Codec (List α) where
  read w := match (lenPrefixed k).read w with
    | none => none
    | some (body, r) => (readAll A body.length body).map (·, r)
  write l := beEnc k (writeAll A l).length ++ writeAll A l
  wf l := (∀ a ∈ l, A.wf a) ∧ (writeAll A l).length < 256 ^ k
  consumed := by
    intro w l r h
    cases hL : (lenPrefixed k).read w with
    | none => simp only [hL] at h; contradiction
    | some q =>
      obtain ⟨body, r1⟩ := q
      simp only [hL] at h
      cases hR : readAll A body.length body with
      | none => rw [hR] at h; contradiction
      | some l' =>
        rw [hR] at h
        injection h with h
        injection h with h1 h2
        subst h1 h2
        show beEnc k (writeAll A l').length ++ writeAll A l' ++ r1 = w
        rw [readAll_consumed A _ hR]
        exact (lenPrefixed k).consumed hL
  complete := by
    intro l x h
    show (match (lenPrefixed k).read ((lenPrefixed k).write (writeAll A l) ++ x) with
      | none => none
      | some (body, r) => (readAll A body.length body).map (·, r)) = some (l, x)
    rw [(lenPrefixed k).complete x h.2]
    simp only
    rw [readAll_complete A hpos l _ h.1 (Nat.le_refl _)]
    rfl
  sound := by
    intro w l r h
    cases hL : (lenPrefixed k).read w with
    | none => simp only [hL] at h; contradiction
    | some q =>
      obtain ⟨body, r1⟩ := q
      simp only [hL] at h
      cases hR : readAll A body.length body with
      | none => rw [hR] at h; contradiction
      | some l' =>
        rw [hR] at h
        injection h with h
        injection h with h1 h2
        subst h1
        refine ⟨readAll_sound A _ hR, ?_⟩
        rw [readAll_consumed A _ hR]
        exact (lenPrefixed k).sound hL

theorem withinAll_read (k : Nat) (A : Codec α) (hpos) (w : Bytes) :
    (withinAll k A hpos).read w = match (lenPrefixed k).read w with
      | none => none
      | some (body, r) => (readAll A body.length body).map (·, r) := rfl
@[simp] theorem withinAll_write (k : Nat) (A : Codec α) (hpos) (l : List α) :
    (withinAll k A hpos).write l = beEnc k (writeAll A l).length ++ writeAll A l := rfl
@[simp] theorem withinAll_wf (k : Nat) (A : Codec α) (hpos) (l : List α) :
    (withinAll k A hpos).wf l = ((∀ a ∈ l, A.wf a) ∧ (writeAll A l).length < 256 ^ k) := rfl

/-- Characterisation of a successful `withinAll` read. -/
theorem withinAll_read_eq_some (k : Nat) (A : Codec α) (hpos) {w : Bytes} {l : List α} {r : Bytes} :
    (withinAll k A hpos).read w = some (l, r) ↔
      ∃ body, (lenPrefixed k).read w = some (body, r) ∧ readAll A body.length body = some l := by
  constructor
  · intro h
    have hc := (withinAll k A hpos).consumed h
    have hs := (withinAll k A hpos).sound h
    refine ⟨writeAll A l, ?_, readAll_complete A hpos l _ hs.1 (Nat.le_refl _)⟩
    rw [← hc]
    exact (lenPrefixed k).complete r hs.2
  · intro ⟨body, h1, h2⟩
    rw [withinAll_read, h1]
    simp only
    rw [h2]
    rfl

/-! ## Examples -/

/-- the I2P `String`: one length byte, then that many bytes -/
def i2pString : Codec Bytes := lenPrefixed 1

/-- e.g. a one-byte count (at most 16) of 40-byte records -/
def exampleRecords : Codec (List Bytes) := counted 1 0 16 (bytesN 40)

example : (counted 1 0 16 (bytesN 2)).read [2, 1,2, 3,4, 9] = some ([[1,2],[3,4]], [9]) := by decide
example : (counted 1 1 16 (bytesN 2)).read [0, 1,2] = none := by decide
example : (counted 1 0 16 (bytesN 2)).write [[1,2],[3,4]] = [2, 1,2, 3,4] := by decide
example : i2pString.read [3, 97, 98, 99, 7] = some ([97, 98, 99], [7]) := by decide
example : i2pString.read [3, 97, 98] = none := by decide
example : (within 1 (pair byte (beInt 2))).read [3, 5, 1, 0, 8] = some ((5, 256), [8]) := by decide
example : (within 1 (pair byte (beInt 2))).read [4, 5, 1, 0, 8] = none := by decide
example : (optionalIf true byte).read [7, 8] = some (some 7, [8]) := by decide
example : (optionalIf false byte).read [7, 8] = some (none, [7, 8]) := by decide
example : (const [61]).read [61, 1] = some ((), [1]) := by decide
example : i2pString.wf [1, 2, 3] := by show [1, 2, 3].length < 256 ^ 1; decide

/-- a key/value-like pair of two I2P strings; every encoding has at least two bytes -/
def examplePairC : Codec (Bytes × Bytes) := pair (lenPrefixed 1) (lenPrefixed 1)

theorem examplePairC_pos : ∀ p, examplePairC.wf p → examplePairC.write p ≠ [] := by
  intro p _ h
  obtain ⟨a, b⟩ := p
  have h1 := congrArg List.length h
  simp [examplePairC] at h1

example : (withinAll 2 examplePairC examplePairC_pos).read [0,5, 1,97,0, 0,0, 9]
    = some ([([97],[]), ([],[])], [9]) := by decide
example : (withinAll 2 examplePairC examplePairC_pos).read [0,4, 1,97,0, 0,0, 9] = none := by decide
example : (withinAll 2 examplePairC examplePairC_pos).read [0,0, 9] = some ([], [9]) := by decide
example : (withinAll 2 examplePairC examplePairC_pos).write [([97],[]), ([],[])]
    = [0,5, 1,97,0, 0,0] := by decide

end I2P.Spec
