import I2P.Spec.Codec
import I2P.Tables
/-! # Spec layer: the I2P 0.9.67 common structures as datatypes + codecs

Every structure is a record holding exactly the fields the specification names, together with a
`Codec` (I2P/Spec/Codec.lean) built from the combinators in the order, widths and endianness the
specification prescribes.  `encode = codec.write`, `decode = codec.read`, `wf = codec.wf`; the laws
`consumed / complete / sound` (hence `append`, `no_prefix`, round trip) come with the codec.

This file is the Lean transcription of the layout; `harness/spec.go` is the independent Go one.
Sizes come from `I2P/Tables.lean`.  Nothing here mentions the code-mirroring model: the refinement
theorems live in `I2P/Proofs/SpecLemmas.lean` and `I2P/Props/C02.lean`.

Scope notes (all reported in Props/C02.lean):
* signing keys longer than 128 bytes (P521, RSA) spill into the KEY certificate; the library cannot
  construct such identities at all, so `SIdentity` keeps the whole signing key inside the key block
  (`sigPubSize ≤ 128` is part of `SIdentity.wf`);
* certificates other than NULL and KEY do not occur in any identity the library supports;
* MetaLeaseSet follows the layout documented in /repo/meta_leaseset/meta_leaseset_struct.go. -/

namespace I2P.Spec
open I2P

variable {α β : Type}

/-! ## one more combinator: transport along a partial map -/

/-- `A`-values are re-interpreted as `β`-values by `f` (which may refuse) with inverse `g`;
    `wfB` is the stated well-formedness of the result. -/
def mapPartial (A : Codec α) (f : α → Option β) (g : β → α) (wfB : β → Prop)
    (h1 : ∀ b, wfB b → A.wf (g b) ∧ f (g b) = some b)
    (h2 : ∀ a b, A.wf a → f a = some b → g b = a ∧ wfB b) : Codec β where
  read w := match A.read w with
    | none => none
    | some (a, r) => match f a with
      | none => none
      | some b => some (b, r)
  write b := A.write (g b)
  wf := wfB
  consumed := by
    intro w b r h
    cases hA : A.read w with
    | none => simp only [hA] at h; contradiction
    | some q =>
      obtain ⟨a, r1⟩ := q
      simp only [hA] at h
      cases hf : f a with
      | none => simp only [hf] at h; contradiction
      | some b' =>
        simp only [hf, Option.some.injEq, Prod.mk.injEq] at h
        obtain ⟨rfl, rfl⟩ := h
        show A.write (g b') ++ r1 = w
        rw [(h2 a b' (A.sound hA) hf).1]
        exact A.consumed hA
  complete := by
    intro b x hb
    obtain ⟨hw, hf⟩ := h1 b hb
    show (match A.read (A.write (g b) ++ x) with
      | none => none
      | some (a, r) => match f a with
        | none => none
        | some b => some (b, r)) = some (b, x)
    rw [A.complete x hw]
    simp only [hf]
  sound := by
    intro w b r h
    cases hA : A.read w with
    | none => simp only [hA] at h; contradiction
    | some q =>
      obtain ⟨a, r1⟩ := q
      simp only [hA] at h
      cases hf : f a with
      | none => simp only [hf] at h; contradiction
      | some b' =>
        simp only [hf, Option.some.injEq, Prod.mk.injEq] at h
        obtain ⟨rfl, rfl⟩ := h
        exact (h2 a b' (A.sound hA) hf).2

@[simp] theorem mapPartial_write (A : Codec α) (f : α → Option β) (g wfB h1 h2) (b : β) :
    (mapPartial A f g wfB h1 h2).write b = A.write (g b) := rfl
@[simp] theorem mapPartial_wf (A : Codec α) (f : α → Option β) (g wfB h1 h2) (b : β) :
    (mapPartial A f g wfB h1 h2).wf b = wfB b := rfl

/-! ## size-table facts -/

theorem cryptoSize_le (c : Nat) : cryptoSize c ≤ 256 := by
  unfold cryptoSize cryptoInfo; split <;> simp

theorem sigPubSize_lt (t : Nat) (h : sigPubSize t ≠ 0) : t < 65536 := by
  unfold sigPubSize sigInfo at h; split at h <;> first | omega | simp at h

theorem cryptoSize_lt (c : Nat) (h : cryptoSize c ≠ 0) : c < 65536 := by
  unfold cryptoSize cryptoInfo at h; split at h <;> first | omega | simp at h

theorem sigLen_ne_of_pub (t : Nat) (h : sigPubSize t ≠ 0) : sigLen t ≠ 0 := by
  unfold sigPubSize sigInfo at h; unfold sigLen sigInfo; split at h <;> first | decide | (exfalso; simp at h)

theorem sigPub_ne_of_len (t : Nat) (h : sigLen t ≠ 0) : sigPubSize t ≠ 0 := by
  unfold sigLen sigInfo at h; unfold sigPubSize sigInfo; split at h <;> first | decide | (exfalso; simp at h)

/-! ## Identity (KeysAndCert / Destination / RouterIdentity) -/

/-- The specification's fields of a KeysAndCert.  `nullCert`: certificate type 0 (DSA-SHA1 signing key,
    ElGamal crypto key, no padding), `certExtra` is then the certificate payload.  Otherwise a KEY
    certificate (type 5) carrying the two type codes followed by `certExtra`. -/
structure SIdentity where
  nullCert : Bool
  sigType : Nat
  cryptoType : Nat
  cryptoKey : Bytes
  padding : Bytes
  sigKey : Bytes
  certExtra : Bytes
deriving DecidableEq, Repr

namespace SIdentity

/-- certificate: 1 type byte, 2 length bytes, payload -/
def certType (v : SIdentity) : UInt8 := if v.nullCert then 0 else 5
def certPayload (v : SIdentity) : Bytes :=
  if v.nullCert then v.certExtra else beEnc 2 v.sigType ++ (beEnc 2 v.cryptoType ++ v.certExtra)

/-- the 384-byte key block: crypto key at the START, signing key at the END, padding in between -/
def block (v : SIdentity) : Bytes := v.cryptoKey ++ (v.padding ++ v.sigKey)

def wf (v : SIdentity) : Prop :=
  if v.nullCert = true then
    v.sigType = 0 ∧ v.cryptoType = 0 ∧ v.cryptoKey.length = 256 ∧ v.padding = [] ∧ v.sigKey.length = 128 ∧
      v.certExtra.length ≤ 65535
  else
    cryptoSize v.cryptoType ≠ 0 ∧ sigPubSize v.sigType ≠ 0 ∧ sigPubSize v.sigType ≤ 128 ∧
      v.cryptoKey.length = cryptoSize v.cryptoType ∧ v.sigKey.length = sigPubSize v.sigType ∧
      v.padding.length = 384 - cryptoSize v.cryptoType - sigPubSize v.sigType ∧ v.certExtra.length ≤ 65531

/-- the raw shape: key block, certificate type, certificate payload -/
abbrev Raw := Bytes × (UInt8 × Bytes)

def rawCodec : Codec Raw := pair (bytesN 384) (pair byte (lenPrefixed 2))

def toRaw (v : SIdentity) : Raw := (v.block, (v.certType, v.certPayload))

/-- interpretation of the raw shape (sizes are chosen by the certificate, which FOLLOWS the block) -/
def ofRaw (a : Raw) : Option SIdentity :=
  let blk := a.1
  let payload := a.2.2
  if a.2.1 = 0 then
    some { nullCert := true, sigType := 0, cryptoType := 0, cryptoKey := blk.take 256, padding := [],
           sigKey := blk.drop 256, certExtra := payload }
  else if a.2.1 = 5 then
    if payload.length < 4 then none else
    let st := beVal (payload.take 2)
    let ct := beVal ((payload.drop 2).take 2)
    let cs := cryptoSize ct
    let ss := sigPubSize st
    if cs = 0 ∨ ss = 0 ∨ 128 < ss then none else
    some { nullCert := false, sigType := st, cryptoType := ct, cryptoKey := blk.take cs,
           padding := (blk.drop cs).take (384 - cs - ss), sigKey := blk.drop (384 - ss),
           certExtra := payload.drop 4 }
  else none

theorem two_split (p : Bytes) (h : 4 ≤ p.length) :
    p = beEnc 2 (beVal (p.take 2)) ++ (beEnc 2 (beVal ((p.drop 2).take 2)) ++ p.drop 4) := by
  have e1 : beEnc 2 (beVal (p.take 2)) = p.take 2 := by
    have := beEnc_beVal (p.take 2)
    rwa [List.length_take, Nat.min_eq_left (by omega)] at this
  have e2 : beEnc 2 (beVal ((p.drop 2).take 2)) = (p.drop 2).take 2 := by
    have := beEnc_beVal ((p.drop 2).take 2)
    rwa [List.length_take, List.length_drop, Nat.min_eq_left (by omega)] at this
  rw [e1, e2]
  have : p.drop 4 = (p.drop 2).drop 2 := by rw [List.drop_drop]
  rw [this, List.take_append_drop, List.take_append_drop]

theorem h1 (b : SIdentity) (hb : b.wf) : rawCodec.wf (toRaw b) ∧ ofRaw (toRaw b) = some b := by
  obtain ⟨nc, st, ct, ck, pad, sk, ex⟩ := b
  cases nc with
  | true =>
    simp only [wf, if_true] at hb
    obtain ⟨rfl, rfl, hck, rfl, hsk, hex⟩ := hb
    refine ⟨?_, ?_⟩
    · simp only [rawCodec, toRaw, pair_wf, bytesN_wf, byte_wf, lenPrefixed_wf, block, certPayload, if_true,
        List.length_append, List.length_nil, true_and]
      omega
    · simp only [ofRaw, toRaw, certType, if_true, block, certPayload, List.nil_append]
      rw [List.take_left' hck, List.drop_left' hck]
  | false =>
    simp only [wf, Bool.false_eq_true, if_false] at hb
    obtain ⟨hcs, hss, hs128, hck, hsk, hpad, hex⟩ := hb
    have hc256 := cryptoSize_le ct
    have hst := sigPubSize_lt st hss
    have hct := cryptoSize_lt ct hcs
    refine ⟨?_, ?_⟩
    · simp only [rawCodec, toRaw, pair_wf, bytesN_wf, byte_wf, lenPrefixed_wf, block, certPayload,
        Bool.false_eq_true, if_false, List.length_append, beEnc_length, true_and]
      omega
    · have e5 : ((5 : UInt8) = 0) = False := by decide
      simp only [ofRaw, toRaw, certType, Bool.false_eq_true, if_false, e5, if_true, certPayload, block]
      have hl : ¬ (beEnc 2 st ++ (beEnc 2 ct ++ ex)).length < 4 := by
        simp only [List.length_append, beEnc_length]; omega
      rw [if_neg hl]
      have t1 : (beEnc 2 st ++ (beEnc 2 ct ++ ex)).take 2 = beEnc 2 st := List.take_left' (beEnc_length _ _)
      have t2 : ((beEnc 2 st ++ (beEnc 2 ct ++ ex)).drop 2).take 2 = beEnc 2 ct := by
        rw [List.drop_left' (beEnc_length _ _), List.take_left' (beEnc_length _ _)]
      have t3 : (beEnc 2 st ++ (beEnc 2 ct ++ ex)).drop 4 = ex := by
        rw [← List.append_assoc]
        exact List.drop_left' (by simp only [List.length_append, beEnc_length])
      rw [t1, t2, t3, beVal_beEnc 2 st (by omega), beVal_beEnc 2 ct (by omega)]
      rw [if_neg (by omega)]
      have k1 : (ck ++ (pad ++ sk)).take (cryptoSize ct) = ck := List.take_left' hck
      have k2 : ((ck ++ (pad ++ sk)).drop (cryptoSize ct)).take (384 - cryptoSize ct - sigPubSize st) = pad := by
        rw [List.drop_left' hck, List.take_left' hpad]
      have k3 : (ck ++ (pad ++ sk)).drop (384 - sigPubSize st) = sk := by
        rw [← List.append_assoc]
        exact List.drop_left' (by rw [List.length_append]; omega)
      rw [k1, k2, k3]

theorem h2 (a : Raw) (b : SIdentity) (ha : rawCodec.wf a) (hf : ofRaw a = some b) : toRaw b = a ∧ b.wf := by
  obtain ⟨blk, t, payload⟩ := a
  simp only [rawCodec, pair_wf, bytesN_wf, byte_wf, lenPrefixed_wf, true_and] at ha
  obtain ⟨hblk, hpl⟩ := ha
  have hpl' : payload.length < 65536 := hpl
  simp only [ofRaw] at hf
  by_cases h0 : t = 0
  · rw [if_pos h0] at hf
    cases hf
    subst h0
    refine ⟨?_, ?_⟩
    · simp only [toRaw, block, certType, certPayload, if_true, List.nil_append, List.take_append_drop]
    · simp only [wf, if_true, List.length_take, List.length_drop, true_and]
      omega
  · rw [if_neg h0] at hf
    by_cases h5 : t = 5
    · rw [if_pos h5] at hf
      by_cases hl : payload.length < 4
      · rw [if_pos hl] at hf; cases hf
      · rw [if_neg hl] at hf
        by_cases hz : cryptoSize (beVal ((payload.drop 2).take 2)) = 0 ∨ sigPubSize (beVal (payload.take 2)) = 0 ∨
            128 < sigPubSize (beVal (payload.take 2))
        · rw [if_pos hz] at hf; cases hf
        · rw [if_neg hz] at hf
          cases hf
          subst h5
          have hc256 := cryptoSize_le (beVal ((payload.drop 2).take 2))
          refine ⟨?_, ?_⟩
          · simp only [toRaw, block, certType, certPayload, Bool.false_eq_true, if_false]
            rw [← two_split payload (by omega)]
            have : blk.take (cryptoSize (beVal ((payload.drop 2).take 2))) ++
                ((blk.drop (cryptoSize (beVal ((payload.drop 2).take 2)))).take
                    (384 - cryptoSize (beVal ((payload.drop 2).take 2)) - sigPubSize (beVal (payload.take 2))) ++
                  blk.drop (384 - sigPubSize (beVal (payload.take 2)))) = blk := by
              generalize cryptoSize (beVal ((payload.drop 2).take 2)) = cs at hz hc256 ⊢
              generalize sigPubSize (beVal (payload.take 2)) = ss at hz ⊢
              have e : blk.drop (384 - ss) = (blk.drop cs).drop (384 - cs - ss) := by
                rw [List.drop_drop]; congr 1; omega
              rw [e, List.take_append_drop, List.take_append_drop]
            rw [this]
          · simp only [wf, Bool.false_eq_true, if_false, List.length_take, List.length_drop]
            omega
    · rw [if_neg h5] at hf; cases hf

end SIdentity

/-- the identity codec: 384-byte block, then the certificate that says how to cut the block -/
def identityCodec : Codec SIdentity :=
  mapPartial SIdentity.rawCodec SIdentity.ofRaw SIdentity.toRaw SIdentity.wf SIdentity.h1 SIdentity.h2

/-- the explicit wire image of an identity -/
theorem identityCodec_write (v : SIdentity) :
    identityCodec.write v =
      v.cryptoKey ++ (v.padding ++ v.sigKey) ++ ([v.certType] ++ (beEnc 2 v.certPayload.length ++ v.certPayload)) := rfl

/-! ## Lease, Lease2 -/

/-- Lease: 32-byte gateway hash, 4-byte tunnel id, 8-byte end date (milliseconds) -/
structure SLease where
  gateway : Bytes
  tunnelId : Nat
  endDate : Nat
deriving DecidableEq, Repr

def SLease.wf (v : SLease) : Prop := v.gateway.length = 32 ∧ v.tunnelId < 256 ^ 4 ∧ v.endDate < 256 ^ 8

def leaseCodec : Codec SLease :=
  withWf (iso (pair (bytesN 32) (pair (beInt 4) (beInt 8)))
    (fun t => ⟨t.1, t.2.1, t.2.2⟩) (fun v => (v.gateway, v.tunnelId, v.endDate)) (fun _ => rfl) (fun _ => rfl))
    SLease.wf (fun _ => Iff.rfl)

theorem leaseCodec_write (v : SLease) :
    leaseCodec.write v = v.gateway ++ (beEnc 4 v.tunnelId ++ beEnc 8 v.endDate) := rfl

/-- Lease2: 32-byte gateway hash, 4-byte tunnel id, 4-byte end date (seconds) -/
structure SLease2 where
  gateway : Bytes
  tunnelId : Nat
  endDate : Nat
deriving DecidableEq, Repr

def SLease2.wf (v : SLease2) : Prop := v.gateway.length = 32 ∧ v.tunnelId < 256 ^ 4 ∧ v.endDate < 256 ^ 4

def lease2Codec : Codec SLease2 :=
  withWf (iso (pair (bytesN 32) (pair (beInt 4) (beInt 4)))
    (fun t => ⟨t.1, t.2.1, t.2.2⟩) (fun v => (v.gateway, v.tunnelId, v.endDate)) (fun _ => rfl) (fun _ => rfl))
    SLease2.wf (fun _ => Iff.rfl)

theorem lease2Codec_write (v : SLease2) :
    lease2Codec.write v = v.gateway ++ (beEnc 4 v.tunnelId ++ beEnc 4 v.endDate) := rfl

/-! ## OfflineSignature -/

/-- 4-byte expires, 2-byte transient type, transient public key (size by that type), signature by the
    destination's key (size by the DESTINATION's signing type, which is context) -/
structure SOfflineSig where
  expires : Nat
  transientType : Nat
  transientKey : Bytes
  signature : Bytes
deriving DecidableEq, Repr

def SOfflineSig.wf (destType : Nat) (v : SOfflineSig) : Prop :=
  v.expires < 256 ^ 4 ∧ v.transientType < 256 ^ 2 ∧ sigPubSize v.transientType ≠ 0 ∧ sigLen destType ≠ 0 ∧
    v.transientKey.length = sigPubSize v.transientType ∧ v.signature.length = sigLen destType

def offlineCodec (destType : Nat) : Codec SOfflineSig :=
  withWf (iso
    (dpair (guard (pair (beInt 4) (beInt 2)) (fun h => sigPubSize h.2 != 0 && sigLen destType != 0))
      (fun h => pair (bytesN (sigPubSize h.2)) (bytesN (sigLen destType))))
    (fun t => ⟨t.1.1, t.1.2, t.2.1, t.2.2⟩) (fun v => ((v.expires, v.transientType), (v.transientKey, v.signature)))
    (fun _ => rfl) (fun _ => rfl))
    (SOfflineSig.wf destType)
    (fun v => by
      simp only [iso_wf, dpair_wf, guard_wf, pair_wf, beInt_wf, bytesN_wf, SOfflineSig.wf, Bool.and_eq_true, bne_iff_ne,
        ne_eq, and_assoc])

theorem offlineCodec_write (destType : Nat) (v : SOfflineSig) :
    (offlineCodec destType).write v =
      beEnc 4 v.expires ++ beEnc 2 v.transientType ++ (v.transientKey ++ v.signature) := rfl

/-- the signing type of the trailing signature of a LeaseSet2-family structure -/
def finalSigType (destType : Nat) (off : Option SOfflineSig) : Nat :=
  match off with
  | some o => o.transientType
  | none => destType

/-! ## String and Mapping -/

/-- String: one length byte, then that many bytes -/
def str : Codec Bytes := lenPrefixed 1

/-- a Mapping as the ordered list of its (key, value) pairs -/
abbrev SMapping := List (Bytes × Bytes)

/-- one pair: String `=` String `;` -/
def pairCodec : Codec (Bytes × Bytes) :=
  withWf (iso (pair (pair str (const [0x3d])) (pair str (const [0x3b])))
    (fun t => (t.1.1, t.2.1)) (fun p => ((p.1, ()), (p.2, ()))) (fun _ => rfl) (fun _ => rfl))
    (fun p => p.1.length ≤ 255 ∧ p.2.length ≤ 255)
    (fun p => by
      simp only [iso_wf, pair_wf, str, lenPrefixed_wf, const_wf, and_true]
      omega)

theorem pairCodec_write (p : Bytes × Bytes) :
    pairCodec.write p = (beEnc 1 p.1.length ++ p.1 ++ [0x3d]) ++ (beEnc 1 p.2.length ++ p.2 ++ [0x3b]) := rfl

theorem pairCodec_write_length (p : Bytes × Bytes) : (pairCodec.write p).length = p.1.length + p.2.length + 4 := by
  rw [pairCodec_write]
  simp only [List.length_append, beEnc_length, List.length_singleton]
  omega

theorem pairCodec_pos : ∀ p, pairCodec.wf p → pairCodec.write p ≠ [] := by
  intro p _ h
  have := congrArg List.length h
  rw [pairCodec_write_length] at this
  simp at this

/-- Mapping: 2-byte size of the body; the body is pairs back to back and nothing else -/
def mappingCodec : Codec SMapping := withinAll 2 pairCodec pairCodec_pos

/-- size of the body of a mapping -/
def SMapping.bodySize (m : SMapping) : Nat := (m.map fun p => p.1.length + p.2.length + 4).sum

theorem writeAll_pair_length (m : SMapping) : (writeAll pairCodec m).length = SMapping.bodySize m := by
  induction m with
  | nil => rfl
  | cons p t ih =>
    rw [writeAll_cons, List.length_append, ih, pairCodec_write_length]
    simp [SMapping.bodySize]

/-- strings of at most 255 bytes, body of at most 65535 bytes -/
def SMapping.wf (m : SMapping) : Prop :=
  (∀ p ∈ m, p.1.length ≤ 255 ∧ p.2.length ≤ 255) ∧ SMapping.bodySize m ≤ 65535

theorem mappingCodec_wf (m : SMapping) : mappingCodec.wf m ↔ SMapping.wf m := by
  show ((∀ a ∈ m, pairCodec.wf a) ∧ (writeAll pairCodec m).length < 256 ^ 2) ↔ _
  rw [writeAll_pair_length]
  unfold SMapping.wf
  constructor
  · rintro ⟨h1, h2⟩; exact ⟨h1, by omega⟩
  · rintro ⟨h1, h2⟩; exact ⟨h1, by omega⟩

theorem mappingCodec_write (m : SMapping) :
    mappingCodec.write m = beEnc 2 (writeAll pairCodec m).length ++ writeAll pairCodec m := rfl

/-! ## LeaseSet2 -/

/-- one encryption key slot: 2-byte type, 2-byte length, key bytes -/
structure SEncKey where
  keyType : Nat
  data : Bytes
deriving DecidableEq, Repr

def SEncKey.wf (v : SEncKey) : Prop := v.keyType < 256 ^ 2 ∧ v.data.length < 256 ^ 2

def encKeyCodec : Codec SEncKey :=
  withWf (iso (pair (beInt 2) (lenPrefixed 2)) (fun t => ⟨t.1, t.2⟩) (fun v => (v.keyType, v.data)) (fun _ => rfl) (fun _ => rfl))
    SEncKey.wf (fun _ => Iff.rfl)

theorem encKeyCodec_write (v : SEncKey) :
    encKeyCodec.write v = beEnc 2 v.keyType ++ (beEnc 2 v.data.length ++ v.data) := rfl

/-- the header shared by LeaseSet2 and MetaLeaseSet: published (4), expires (2), flags (2) -/
abbrev Hdr3 := Nat × Nat × Nat
def hdrCodec : Codec Hdr3 := pair (beInt 4) (pair (beInt 2) (beInt 2))

structure SLeaseSet2 where
  dest : SIdentity
  published : Nat
  expires : Nat
  flags : Nat
  offline : Option SOfflineSig      -- present iff flags bit 0
  options : SMapping
  keys : List SEncKey               -- 1..16
  leases : List SLease2             -- 0..16
  signature : Bytes                 -- length by the transient type if offline, else by the destination's type
deriving DecidableEq, Repr

def leaseSet2Codec : Codec SLeaseSet2 :=
  iso
    (dpair identityCodec fun d =>
     dpair hdrCodec fun h =>
     dpair (optionalIf (h.2.2 % 2 == 1) (offlineCodec d.sigType)) fun off =>
     pair mappingCodec (pair (counted 1 1 16 encKeyCodec) (pair (counted 1 0 16 lease2Codec)
       (bytesN (sigLen (finalSigType d.sigType off))))))
    (fun t => ⟨t.1, t.2.1.1, t.2.1.2.1, t.2.1.2.2, t.2.2.1, t.2.2.2.1, t.2.2.2.2.1, t.2.2.2.2.2.1, t.2.2.2.2.2.2⟩)
    (fun v => (v.dest, (v.published, v.expires, v.flags), v.offline, v.options, v.keys, v.leases, v.signature))
    (fun _ => rfl) (fun _ => rfl)

/-- explicit well-formedness of a LeaseSet2 according to the specification -/
def SLeaseSet2.wf (v : SLeaseSet2) : Prop :=
  v.dest.wf ∧ v.published < 256 ^ 4 ∧ v.expires < 256 ^ 2 ∧ v.flags < 256 ^ 2 ∧
  (match v.offline with
    | some o => (v.flags % 2 == 1) = true ∧ o.wf v.dest.sigType
    | none => (v.flags % 2 == 1) = false) ∧
  v.options.wf ∧
  (1 ≤ v.keys.length ∧ v.keys.length ≤ 16 ∧ ∀ k ∈ v.keys, k.wf) ∧
  (v.leases.length ≤ 16 ∧ ∀ l ∈ v.leases, l.wf) ∧
  v.signature.length = sigLen (finalSigType v.dest.sigType v.offline)

theorem leaseSet2Codec_wf (v : SLeaseSet2) : leaseSet2Codec.wf v ↔ v.wf := by
  obtain ⟨d, p, e, f, off, o, ks, ls, sg⟩ := v
  simp only [leaseSet2Codec, iso_wf, dpair_wf, pair_wf, hdrCodec, beInt_wf, bytesN_wf, counted_wf, SLeaseSet2.wf,
    mappingCodec_wf]
  cases off with
  | none =>
    simp only [optionalIf_wf_none]
    show _ ↔ _
    constructor
    · rintro ⟨h1, ⟨h2, h3, h4⟩, h5, h6, ⟨h7, h8, _, h9⟩, ⟨_, h10, _, h11⟩, h12⟩
      exact ⟨h1, h2, h3, h4, h5, h6, ⟨h7, h8, h9⟩, ⟨h10, h11⟩, h12⟩
    · rintro ⟨h1, h2, h3, h4, h5, h6, ⟨h7, h8, h9⟩, ⟨h10, h11⟩, h12⟩
      exact ⟨h1, ⟨h2, h3, h4⟩, h5, h6, ⟨h7, h8, by omega, h9⟩, ⟨by omega, h10, by omega, h11⟩, h12⟩
  | some ob =>
    simp only [optionalIf_wf_some]
    show _ ↔ _
    constructor
    · rintro ⟨h1, ⟨h2, h3, h4⟩, h5, h6, ⟨h7, h8, _, h9⟩, ⟨_, h10, _, h11⟩, h12⟩
      exact ⟨h1, h2, h3, h4, h5, h6, ⟨h7, h8, h9⟩, ⟨h10, h11⟩, h12⟩
    · rintro ⟨h1, h2, h3, h4, h5, h6, ⟨h7, h8, h9⟩, ⟨h10, h11⟩, h12⟩
      exact ⟨h1, ⟨h2, h3, h4⟩, h5, h6, ⟨h7, h8, by omega, h9⟩, ⟨by omega, h10, by omega, h11⟩, h12⟩

/-- the optional offline block as bytes -/
def offlineBytes (destType : Nat) (off : Option SOfflineSig) : Bytes :=
  match off with
  | some o => (offlineCodec destType).write o
  | none => []

theorem optionalIf_write_eq (p : Bool) (destType : Nat) (off : Option SOfflineSig) :
    (optionalIf p (offlineCodec destType)).write off = offlineBytes destType off := by
  cases off <;> rfl

theorem leaseSet2Codec_write (v : SLeaseSet2) :
    leaseSet2Codec.write v =
      identityCodec.write v.dest ++ ((beEnc 4 v.published ++ (beEnc 2 v.expires ++ beEnc 2 v.flags)) ++
        (offlineBytes v.dest.sigType v.offline ++ (mappingCodec.write v.options ++
          ((beEnc 1 v.keys.length ++ writeAll encKeyCodec v.keys) ++
            ((beEnc 1 v.leases.length ++ writeAll lease2Codec v.leases) ++ v.signature))))) := by
  show identityCodec.write v.dest ++ ((beEnc 4 v.published ++ (beEnc 2 v.expires ++ beEnc 2 v.flags)) ++
        ((optionalIf (v.flags % 2 == 1) (offlineCodec v.dest.sigType)).write v.offline ++ _)) = _
  rw [optionalIf_write_eq]
  rfl

/-! ## MetaLeaseSet (layout of /repo/meta_leaseset/meta_leaseset_struct.go) -/

/-- one entry: 32-byte hash, 1-byte type (1, 3 or 5), 4-byte expires, 1-byte cost, properties Mapping -/
structure SMetaEntry where
  hash : Bytes
  entryType : Nat
  expires : Nat
  cost : Nat
  properties : SMapping
deriving DecidableEq, Repr

def entryTypeKnown (t : Nat) : Bool := t == 1 || t == 3 || t == 5

def SMetaEntry.wf (v : SMetaEntry) : Prop :=
  v.hash.length = 32 ∧ (v.entryType < 256 ^ 1 ∧ entryTypeKnown v.entryType = true) ∧ v.expires < 256 ^ 4 ∧ v.cost < 256 ^ 1 ∧
    v.properties.wf

def metaEntryCodec : Codec SMetaEntry :=
  withWf (iso (pair (bytesN 32) (pair (guard (beInt 1) entryTypeKnown) (pair (beInt 4) (pair (beInt 1) mappingCodec))))
    (fun t => ⟨t.1, t.2.1, t.2.2.1, t.2.2.2.1, t.2.2.2.2⟩)
    (fun v => (v.hash, v.entryType, v.expires, v.cost, v.properties)) (fun _ => rfl) (fun _ => rfl))
    SMetaEntry.wf
    (fun v => by
      simp only [iso_wf, pair_wf, guard_wf, bytesN_wf, beInt_wf, mappingCodec_wf, SMetaEntry.wf])

theorem metaEntryCodec_write (v : SMetaEntry) :
    metaEntryCodec.write v =
      v.hash ++ (beEnc 1 v.entryType ++ (beEnc 4 v.expires ++ (beEnc 1 v.cost ++ mappingCodec.write v.properties))) := rfl

structure SMetaLeaseSet where
  dest : SIdentity
  published : Nat
  expires : Nat
  flags : Nat
  offline : Option SOfflineSig
  options : SMapping
  entries : List SMetaEntry          -- 1..16
  signature : Bytes
deriving DecidableEq, Repr

def metaLeaseSetCodec : Codec SMetaLeaseSet :=
  iso
    (dpair identityCodec fun d =>
     dpair hdrCodec fun h =>
     dpair (optionalIf (h.2.2 % 2 == 1) (offlineCodec d.sigType)) fun off =>
     pair mappingCodec (pair (counted 1 1 16 metaEntryCodec) (bytesN (sigLen (finalSigType d.sigType off)))))
    (fun t => ⟨t.1, t.2.1.1, t.2.1.2.1, t.2.1.2.2, t.2.2.1, t.2.2.2.1, t.2.2.2.2.1, t.2.2.2.2.2⟩)
    (fun v => (v.dest, (v.published, v.expires, v.flags), v.offline, v.options, v.entries, v.signature))
    (fun _ => rfl) (fun _ => rfl)

def SMetaLeaseSet.wf (v : SMetaLeaseSet) : Prop :=
  v.dest.wf ∧ v.published < 256 ^ 4 ∧ v.expires < 256 ^ 2 ∧ v.flags < 256 ^ 2 ∧
  (match v.offline with
    | some o => (v.flags % 2 == 1) = true ∧ o.wf v.dest.sigType
    | none => (v.flags % 2 == 1) = false) ∧
  v.options.wf ∧
  (1 ≤ v.entries.length ∧ v.entries.length ≤ 16 ∧ ∀ e ∈ v.entries, e.wf) ∧
  v.signature.length = sigLen (finalSigType v.dest.sigType v.offline)

theorem metaLeaseSetCodec_wf (v : SMetaLeaseSet) : metaLeaseSetCodec.wf v ↔ v.wf := by
  obtain ⟨d, p, e, f, off, o, es, sg⟩ := v
  simp only [metaLeaseSetCodec, iso_wf, dpair_wf, pair_wf, hdrCodec, beInt_wf, bytesN_wf, counted_wf, SMetaLeaseSet.wf,
    mappingCodec_wf]
  cases off with
  | none =>
    simp only [optionalIf_wf_none]
    show _ ↔ _
    constructor
    · rintro ⟨h1, ⟨h2, h3, h4⟩, h5, h6, ⟨h7, h8, _, h9⟩, h12⟩
      exact ⟨h1, h2, h3, h4, h5, h6, ⟨h7, h8, h9⟩, h12⟩
    · rintro ⟨h1, h2, h3, h4, h5, h6, ⟨h7, h8, h9⟩, h12⟩
      exact ⟨h1, ⟨h2, h3, h4⟩, h5, h6, ⟨h7, h8, by omega, h9⟩, h12⟩
  | some ob =>
    simp only [optionalIf_wf_some]
    show _ ↔ _
    constructor
    · rintro ⟨h1, ⟨h2, h3, h4⟩, h5, h6, ⟨h7, h8, _, h9⟩, h12⟩
      exact ⟨h1, h2, h3, h4, h5, h6, ⟨h7, h8, h9⟩, h12⟩
    · rintro ⟨h1, h2, h3, h4, h5, h6, ⟨h7, h8, h9⟩, h12⟩
      exact ⟨h1, ⟨h2, h3, h4⟩, h5, h6, ⟨h7, h8, by omega, h9⟩, h12⟩

theorem metaLeaseSetCodec_write (v : SMetaLeaseSet) :
    metaLeaseSetCodec.write v =
      identityCodec.write v.dest ++ ((beEnc 4 v.published ++ (beEnc 2 v.expires ++ beEnc 2 v.flags)) ++
        (offlineBytes v.dest.sigType v.offline ++ (mappingCodec.write v.options ++
          ((beEnc 1 v.entries.length ++ writeAll metaEntryCodec v.entries) ++ v.signature)))) := by
  show identityCodec.write v.dest ++ ((beEnc 4 v.published ++ (beEnc 2 v.expires ++ beEnc 2 v.flags)) ++
        ((optionalIf (v.flags % 2 == 1) (offlineCodec v.dest.sigType)).write v.offline ++ _)) = _
  rw [optionalIf_write_eq]
  rfl

/-! ## EncryptedLeaseSet -/

structure SEncryptedLeaseSet where
  sigType : Nat
  blindedKey : Bytes
  published : Nat
  expires : Nat
  flags : Nat
  offline : Option SOfflineSig
  inner : Bytes
  signature : Bytes
deriving DecidableEq, Repr

def encryptedLeaseSetCodec : Codec SEncryptedLeaseSet :=
  iso
    (dpair (guard (beInt 2) (fun t => sigPubSize t != 0)) fun st =>
     dpair (pair (bytesN (sigPubSize st)) hdrCodec) fun kh =>
     dpair (optionalIf (kh.2.2.2 % 2 == 1) (offlineCodec st)) fun off =>
     pair (lenPrefixed 2) (bytesN (sigLen (finalSigType st off))))
    (fun t => ⟨t.1, t.2.1.1, t.2.1.2.1, t.2.1.2.2.1, t.2.1.2.2.2, t.2.2.1, t.2.2.2.1, t.2.2.2.2⟩)
    (fun v => (v.sigType, (v.blindedKey, v.published, v.expires, v.flags), v.offline, v.inner, v.signature))
    (fun _ => rfl) (fun _ => rfl)

def SEncryptedLeaseSet.wf (v : SEncryptedLeaseSet) : Prop :=
  (v.sigType < 256 ^ 2 ∧ sigPubSize v.sigType ≠ 0) ∧ v.blindedKey.length = sigPubSize v.sigType ∧
  v.published < 256 ^ 4 ∧ v.expires < 256 ^ 2 ∧ v.flags < 256 ^ 2 ∧
  (match v.offline with
    | some o => (v.flags % 2 == 1) = true ∧ o.wf v.sigType
    | none => (v.flags % 2 == 1) = false) ∧
  v.inner.length < 256 ^ 2 ∧
  v.signature.length = sigLen (finalSigType v.sigType v.offline)

theorem encryptedLeaseSetCodec_wf (v : SEncryptedLeaseSet) : encryptedLeaseSetCodec.wf v ↔ v.wf := by
  obtain ⟨st, bk, p, e, f, off, inn, sg⟩ := v
  simp only [encryptedLeaseSetCodec, iso_wf, dpair_wf, pair_wf, guard_wf, hdrCodec, beInt_wf, bytesN_wf, lenPrefixed_wf,
    SEncryptedLeaseSet.wf, bne_iff_ne, ne_eq]
  cases off with
  | none =>
    simp only [optionalIf_wf_none]
    show _ ↔ _
    constructor
    · rintro ⟨h1, ⟨h2, h3, h4, h5⟩, h6, h7, h8⟩
      exact ⟨h1, h2, h3, h4, h5, h6, h7, h8⟩
    · rintro ⟨h1, h2, h3, h4, h5, h6, h7, h8⟩
      exact ⟨h1, ⟨h2, h3, h4, h5⟩, h6, h7, h8⟩
  | some ob =>
    simp only [optionalIf_wf_some]
    show _ ↔ _
    constructor
    · rintro ⟨h1, ⟨h2, h3, h4, h5⟩, h6, h7, h8⟩
      exact ⟨h1, h2, h3, h4, h5, h6, h7, h8⟩
    · rintro ⟨h1, h2, h3, h4, h5, h6, h7, h8⟩
      exact ⟨h1, ⟨h2, h3, h4, h5⟩, h6, h7, h8⟩

theorem encryptedLeaseSetCodec_write (v : SEncryptedLeaseSet) :
    encryptedLeaseSetCodec.write v =
      beEnc 2 v.sigType ++ ((v.blindedKey ++ (beEnc 4 v.published ++ (beEnc 2 v.expires ++ beEnc 2 v.flags))) ++
        (offlineBytes v.sigType v.offline ++ ((beEnc 2 v.inner.length ++ v.inner) ++ v.signature))) := by
  show beEnc 2 v.sigType ++ ((v.blindedKey ++ (beEnc 4 v.published ++ (beEnc 2 v.expires ++ beEnc 2 v.flags))) ++
        ((optionalIf (v.flags % 2 == 1) (offlineCodec v.sigType)).write v.offline ++ _)) = _
  rw [optionalIf_write_eq]
  rfl

/-! ## LeaseSet (type 1) -/

structure SLeaseSet where
  dest : SIdentity
  encKey : Bytes                    -- 256-byte ElGamal key
  signingKey : Bytes                -- revocation key: size of the destination's signing key type
  leases : List SLease              -- 0..16
  signature : Bytes
deriving DecidableEq, Repr

def leaseSetCodec : Codec SLeaseSet :=
  iso
    (dpair identityCodec fun d =>
     pair (bytesN 256) (pair (bytesN (sigPubSize d.sigType)) (pair (counted 1 0 16 leaseCodec) (bytesN (sigLen d.sigType)))))
    (fun t => ⟨t.1, t.2.1, t.2.2.1, t.2.2.2.1, t.2.2.2.2⟩)
    (fun v => (v.dest, v.encKey, v.signingKey, v.leases, v.signature)) (fun _ => rfl) (fun _ => rfl)

def SLeaseSet.wf (v : SLeaseSet) : Prop :=
  v.dest.wf ∧ v.encKey.length = 256 ∧ v.signingKey.length = sigPubSize v.dest.sigType ∧
  (v.leases.length ≤ 16 ∧ ∀ l ∈ v.leases, l.wf) ∧ v.signature.length = sigLen v.dest.sigType

theorem leaseSetCodec_wf (v : SLeaseSet) : leaseSetCodec.wf v ↔ v.wf := by
  obtain ⟨d, ek, sk, ls, sg⟩ := v
  simp only [leaseSetCodec, iso_wf, dpair_wf, pair_wf, bytesN_wf, counted_wf, SLeaseSet.wf]
  show _ ↔ _
  constructor
  · rintro ⟨h1, h2, h3, ⟨_, h4, _, h5⟩, h6⟩; exact ⟨h1, h2, h3, ⟨h4, h5⟩, h6⟩
  · rintro ⟨h1, h2, h3, ⟨h4, h5⟩, h6⟩; exact ⟨h1, h2, h3, ⟨by omega, h4, by omega, h5⟩, h6⟩

theorem leaseSetCodec_write (v : SLeaseSet) :
    leaseSetCodec.write v =
      identityCodec.write v.dest ++ (v.encKey ++ (v.signingKey ++
        ((beEnc 1 v.leases.length ++ writeAll leaseCodec v.leases) ++ v.signature))) := rfl

/-! ## RouterAddress, RouterInfo -/

/-- 1-byte cost, 8-byte expiration, transport style String, options Mapping -/
structure SRouterAddress where
  cost : Nat
  expiration : Nat
  style : Bytes
  options : SMapping
deriving DecidableEq, Repr

def SRouterAddress.wf (v : SRouterAddress) : Prop :=
  v.cost < 256 ^ 1 ∧ v.expiration < 256 ^ 8 ∧ v.style.length < 256 ^ 1 ∧ v.options.wf

def routerAddressCodec : Codec SRouterAddress :=
  withWf (iso (pair (beInt 1) (pair (beInt 8) (pair str mappingCodec)))
    (fun t => ⟨t.1, t.2.1, t.2.2.1, t.2.2.2⟩) (fun v => (v.cost, v.expiration, v.style, v.options)) (fun _ => rfl) (fun _ => rfl))
    SRouterAddress.wf
    (fun v => by simp only [iso_wf, pair_wf, beInt_wf, str, lenPrefixed_wf, mappingCodec_wf, SRouterAddress.wf])

theorem routerAddressCodec_write (v : SRouterAddress) :
    routerAddressCodec.write v =
      beEnc 1 v.cost ++ (beEnc 8 v.expiration ++ ((beEnc 1 v.style.length ++ v.style) ++ mappingCodec.write v.options)) := rfl

/-- RouterIdentity, 8-byte published date, counted addresses (1-byte count), counted peer hashes (1-byte
    count, always zero in every router), options Mapping, signature by the identity's key -/
structure SRouterInfo where
  ident : SIdentity
  published : Nat
  addresses : List SRouterAddress
  peers : List Bytes
  options : SMapping
  signature : Bytes
deriving DecidableEq, Repr

def routerInfoCodec : Codec SRouterInfo :=
  iso
    (dpair identityCodec fun d =>
     pair (beInt 8) (pair (counted 1 0 255 routerAddressCodec) (pair (counted 1 0 255 (bytesN 32)) (pair mappingCodec
       (bytesN (sigLen d.sigType))))))
    (fun t => ⟨t.1, t.2.1, t.2.2.1, t.2.2.2.1, t.2.2.2.2.1, t.2.2.2.2.2⟩)
    (fun v => (v.ident, v.published, v.addresses, v.peers, v.options, v.signature)) (fun _ => rfl) (fun _ => rfl)

def SRouterInfo.wf (v : SRouterInfo) : Prop :=
  v.ident.wf ∧ v.published < 256 ^ 8 ∧ (v.addresses.length ≤ 255 ∧ ∀ a ∈ v.addresses, a.wf) ∧
  (v.peers.length ≤ 255 ∧ ∀ p ∈ v.peers, p.length = 32) ∧ v.options.wf ∧ v.signature.length = sigLen v.ident.sigType

theorem routerInfoCodec_wf (v : SRouterInfo) : routerInfoCodec.wf v ↔ v.wf := by
  obtain ⟨d, p, as, ps, o, sg⟩ := v
  simp only [routerInfoCodec, iso_wf, dpair_wf, pair_wf, beInt_wf, bytesN_wf, counted_wf, mappingCodec_wf, SRouterInfo.wf]
  show _ ↔ _
  constructor
  · rintro ⟨h1, h2, ⟨_, h3, _, h4⟩, ⟨_, h5, _, h6⟩, h7, h8⟩; exact ⟨h1, h2, ⟨h3, h4⟩, ⟨h5, h6⟩, h7, h8⟩
  · rintro ⟨h1, h2, ⟨h3, h4⟩, ⟨h5, h6⟩, h7, h8⟩
    exact ⟨h1, h2, ⟨by omega, h3, by omega, h4⟩, ⟨by omega, h5, by omega, h6⟩, h7, h8⟩

theorem routerInfoCodec_write (v : SRouterInfo) :
    routerInfoCodec.write v =
      identityCodec.write v.ident ++ (beEnc 8 v.published ++
        ((beEnc 1 v.addresses.length ++ writeAll routerAddressCodec v.addresses) ++
          ((beEnc 1 v.peers.length ++ writeAll (bytesN 32) v.peers) ++ (mappingCodec.write v.options ++ v.signature)))) := rfl

/-! ## round trips (instances of `Codec.complete`, stated once for the record) -/

theorem identity_roundtrip (v : SIdentity) (x : Bytes) (h : v.wf) :
    identityCodec.read (identityCodec.write v ++ x) = some (v, x) := identityCodec.complete x h
theorem mapping_roundtrip (m : SMapping) (x : Bytes) (h : SMapping.wf m) :
    mappingCodec.read (mappingCodec.write m ++ x) = some (m, x) := mappingCodec.complete x ((mappingCodec_wf m).2 h)
theorem leaseSet2_roundtrip (v : SLeaseSet2) (x : Bytes) (h : v.wf) :
    leaseSet2Codec.read (leaseSet2Codec.write v ++ x) = some (v, x) := leaseSet2Codec.complete x ((leaseSet2Codec_wf v).2 h)

end I2P.Spec
