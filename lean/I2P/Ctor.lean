import I2P.Tables
import I2P.Kac
/-! # Constructors, validators and parsers at rule level (C14), and what the signing constructors sign (C06)

Part 1 (C14).  For every structure that has a constructor and a `Validate`, three Boolean predicates over a
record of *shape parameters* (counts, lengths, type codes, flags, presence of optional parts, zero-ness of
fields):

* `…CtorAccepts a` — the constructor returns a value for the argument shape `a` (one conjunct per Go check),
* `…Validates v`   — `Validate()` / `IsValid()` / `ValidateStructure()` accepts the value shape `v`,
* `…Parses v`      — the serialisation of `v` is accepted by the parser with an empty remainder and
  re-serialises identically (the rules the parser applies on top of the framing).

`built a` is the shape of the value the constructor returns.  The Go function mirrored is named in each doc
comment.  The model describes the code as it is at /repo HEAD (after the fixes D06, D13, D16a, D20, D21b,
D22, D23, D33; the commit that added a conjunct is named next to it), quirks included; each rule that one
layer has and another lacks is a row of DESIGN.md Appendix F.  Constructors whose failure modes matter are
modelled with a three-valued `Outcome` (no constructor modelled here can reach `panic` any more).

Part 2 (C06).  Byte-level data flow of the signing constructors for an abstract signature scheme with the
single law `sig_correct`: the message the constructor signs and the message `Verify` recomputes from the value.

Core-only. -/

namespace I2P.Ctor
open I2P I2P.Spec

/-- result of a constructor call -/
inductive Outcome | ok | err | panic
  deriving DecidableEq, Repr

/-- `NewIntegerFromInt(v, 1)` succeeds -/
def fits1 (n : Nat) : Bool := n ≤ 255

/-! ## KeysAndCert -/

/-- Shape of `NewKeysAndCert(keyCertificate, publicKey, padding, signingPublicKey)` and of the
    `KeysAndCert` value (the constructor stores its arguments unchanged, so `built a = a`). -/
structure KacShape where
  certNil : Bool := false
  /-- key types declared by the key certificate -/
  sigType : Nat
  cryptoType : Nat
  /-- `none` = nil interface value -/
  cryptoKeyLen : Option Nat
  signingKeyLen : Option Nat
  paddingLen : Nat
  deriving DecidableEq, Repr

/-- `keys_and_cert.validatePublicKeySize` / `validateSigningKeySize`: a nil key passes -/
def keyLenOk (k : Option Nat) (size : Nat) : Bool :=
  match k with
  | none => true
  | some n => n == size

/-- `keys_and_cert.NewKeysAndCert`: nil certificate; `CryptoSize()` / `SigningPublicKeySize()` of 0 (unknown
    key type) is an error (4315d7c, D16a); key sizes against them; `validatePaddingSize`
    (`len(padding) == 384 - pubKeySize - sigKeySize`, an `int` comparison: no solution when the sizes exceed 384). -/
def kacCtorAccepts (a : KacShape) : Bool :=
  !a.certNil
  && cryptoSize a.cryptoType != 0 && sigPubSize a.sigType != 0
  && keyLenOk a.cryptoKeyLen (cryptoSize a.cryptoType)
  && keyLenOk a.signingKeyLen (sigPubSize a.sigType)
  && (a.paddingLen + cryptoSize a.cryptoType + sigPubSize a.sigType == 384)

/-- `(*KeysAndCert).Validate` = `validateRequiredFields` (certificate and both keys non-nil) then
    `validateKeySizes` (a declared size of 0 = unknown type is an error since 4315d7c, D16a; otherwise the
    key length must equal it); the padding is not looked at. -/
def kacValidates (v : KacShape) : Bool :=
  !v.certNil && v.cryptoKeyLen.isSome && v.signingKeyLen.isSome
  && (cryptoSize v.cryptoType != 0 && v.cryptoKeyLen == some (cryptoSize v.cryptoType))
  && (sigPubSize v.sigType != 0 && v.signingKeyLen == some (sigPubSize v.sigType))

/-- `keys_and_cert.ReadKeysAndCert` on the bytes of a validated value: `constructPublicKeyFromCert`
    (`CryptoSize() ≠ 0`, `ConstructPublicKey` knows ElGamal and the X25519 family only) and
    `constructSigningKeyFromCert` (size in 1..128, `selectSigningKeyConstructor`). -/
def kacParses (v : KacShape) : Bool :=
  Kac.cryptoConstructible v.cryptoType && Kac.sigConstructible v.sigType
  && (0 < sigPubSize v.sigType && sigPubSize v.sigType ≤ 128)

/-! ## Destination / RouterIdentity -/

/-- `destination.NewDestination(kac)`: nil, `kac.Validate()`, `validateDestinationKeyTypes` -/
def destCtorAccepts (k : Option KacShape) : Bool :=
  match k with
  | none => false
  | some k => kacValidates k && destAllowed k.sigType k.cryptoType

/-- `(*Destination).Validate`: nil receiver / nil KeysAndCert / `KeysAndCert.Validate()` — no key-type policy -/
def destValidates (k : Option KacShape) : Bool :=
  match k with
  | none => false
  | some k => kacValidates k

/-- `destination.ReadDestination` -/
def destParses (k : KacShape) : Bool := kacParses k && destAllowed k.sigType k.cryptoType

/-- `router_identity.NewRouterIdentity(publicKey, signingPublicKey, cert, padding)`:
    `KeyCertificateFromCertificate`, `NewKeysAndCert`, `validateRouterIdentityKeyTypes` -/
def ridCtorAccepts (a : KacShape) : Bool := kacCtorAccepts a && ridAllowed a.sigType a.cryptoType

/-- `router_identity.NewRouterIdentityFromKeysAndCert(kac)` -/
def ridFromKacCtorAccepts (k : Option KacShape) : Bool :=
  match k with
  | none => false
  | some k => kacValidates k && ridAllowed k.sigType k.cryptoType

/-- `(*RouterIdentity).Validate` -/
def ridValidates (k : Option KacShape) : Bool := destValidates k

/-- `router_identity.ReadRouterIdentity` -/
def ridParses (k : KacShape) : Bool := kacParses k && ridAllowed k.sigType k.cryptoType

/-! ## Mapping (options) -/

/-- Shape of a Go map / `MappingValues` handed to `GoMapToMapping` / `ValuesToMapping`. -/
structure MapShape where
  pairs : Nat
  /-- longest key or value, in bytes -/
  maxString : Nat
  /-- `2·pairs + Σ (1 + len)` : the encoded body length computed by `ValuesToMapping` -/
  bodyLen : Nat
  duplicateKeys : Bool := false
  deriving DecidableEq, Repr

/-- `data.GoMapToMapping`: `ToI2PString` on every key and value (≤ 255), then `ValuesToMapping`
    (`baseLength ≤ MAX_MAPPING_DATA_SIZE`). A Go map has no duplicate keys. -/
def mapCtorAccepts (m : MapShape) : Bool := m.maxString ≤ 255 && m.bodyLen ≤ 65535

/-- `(*Mapping).Validate`: size present, `Data()` of every key and value succeeds (well-formed strings) -/
def mapValidates (m : MapShape) : Bool := m.maxString ≤ 255

/-- `data.ReadMapping` on `Data()`: at most `MAX_MAPPING_PAIRS` pairs, duplicate keys are reported as an error -/
def mapParses (m : MapShape) : Bool := m.pairs ≤ 1000 && !m.duplicateKeys

/-! ## RouterAddress -/

/-- `router_address.NewRouterAddress(cost uint8, expiration, transportType, options)` -/
structure RaArgs where
  styleLen : Nat
  options : MapShape
  deriving DecidableEq, Repr

/-- shape of a `RouterAddress` value (exported pointer fields) -/
structure RaVal where
  costNil : Bool
  dateNil : Bool
  styleLen : Nat
  optionsNil : Bool
  options : MapShape
  deriving DecidableEq, Repr

/-- `NewRouterAddress`: empty transport type; `createTransportType` (`ToI2PString`, ≤ 255);
    `createTransportOptions` (`GoMapToMapping`). Cost is a `uint8`, the expiration is forced to zero. -/
def raCtorAccepts (a : RaArgs) : Bool :=
  a.styleLen != 0 && a.styleLen ≤ 255 && mapCtorAccepts a.options

def raBuilt (a : RaArgs) : RaVal :=
  { costNil := false, dateNil := false, styleLen := a.styleLen, optionsNil := false, options := a.options }

/-- `(*RouterAddress).Validate` = `validateRouterAddressFields` + `TransportOptions.Validate()` -/
def raValidates (v : RaVal) : Bool :=
  !v.costNil && !v.dateNil && v.styleLen != 0 && !v.optionsNil && mapValidates v.options

/-- `router_address.ReadRouterAddress`: the options mapping must parse -/
def raParses (v : RaVal) : Bool := mapParses v.options

/-! ## RouterInfo -/

/-- `router_info.NewRouterInfo(routerIdentity, publishedTime, addresses, options, signingPrivateKey, sigType)` -/
structure RiArgs where
  identity : Option KacShape
  publishedZero : Bool
  nAddresses : Nat
  someAddressNil : Bool := false
  options : MapShape
  privKeyNil : Bool := false
  /-- the private key is a `*Ed25519PrivateKey` of 64 bytes -/
  privKeyEd25519 : Bool := true
  sigType : Nat := 7
  deriving DecidableEq, Repr

structure RiVal where
  identity : Option KacShape
  publishedZero : Bool
  sizeField : Nat
  nAddresses : Nat
  options : MapShape
  signatureNil : Bool
  deriving DecidableEq, Repr

/-- `NewRouterInfo` in its order of evaluation: nil identity and nil address elements are errors
    (6596339, D20); `createPublishedDate` rejects the zero date (1683fe6, D21b); `createSizeIntegers`
    (`NewIntegerFromInt(len, 1)`), `convertOptionsToMapping`, `createSignerFromPrivateKey` (nil key,
    type ≠ 7, wrong key object), then `signRouterInfoData` → `serializeWithoutSignature`, which fails when
    the identity does not serialise (`KeysAndCert.Validate`). -/
def riCtor (a : RiArgs) : Outcome :=
  if a.identity.isNone || a.someAddressNil then .err
  else if a.publishedZero then .err
  else if !fits1 a.nAddresses then .err
  else if !mapCtorAccepts a.options then .err
  else if a.privKeyNil || a.sigType != 7 || !a.privKeyEd25519 then .err
  else if !ridValidates a.identity then .err
  else .ok

def riBuilt (a : RiArgs) : RiVal :=
  { identity := a.identity, publishedZero := a.publishedZero, sizeField := a.nAddresses,
    nAddresses := a.nAddresses, options := a.options, signatureNil := false }

/-- `(*RouterInfo).Validate` = `validateRouterIdentity`, `validateTimestampAndSize`, `validateAddressesAndOptions` -/
def riValidates (v : RiVal) : Bool :=
  ridValidates v.identity && !v.publishedZero
  && v.nAddresses != 0 && v.sizeField == v.nAddresses
  && mapValidates v.options && !v.signatureNil

/-! ## Lease / Lease2 -/

structure LeaseArgs where
  gatewayZero : Bool
  /-- Lease2 only: `expirationTime.Unix()` within `0 … 2^32-1` -/
  endInRange : Bool := true
  deriving DecidableEq, Repr

/-- `lease.NewLease`: no check at all -/
def leaseCtorAccepts (_ : LeaseArgs) : Bool := true
/-- `lease.NewLease2`: `ErrTimestampOverflow` outside the uint32 range -/
def lease2CtorAccepts (a : LeaseArgs) : Bool := a.endInRange
/-- `Lease.Validate` / `Lease2.Validate` without the time-dependent expiry: `ErrZeroGatewayHash` -/
def leaseValidates (a : LeaseArgs) : Bool := !a.gatewayZero
/-- `ReadLease` / `ReadLease2`: length only -/
def leaseParses (_ : LeaseArgs) : Bool := true

/-! ## LeaseSet -/

structure LsArgs where
  dest : Option KacShape
  /-- destination certificate is a KEY certificate (else NULL: DSA, 128-byte key, 40-byte signature) -/
  keyCert : Bool := true
  encKeyLen : Option Nat
  /-- the revocation ("signing") key -/
  signingKeyLen : Option Nat
  nLeases : Nat
  privKeyNil : Bool := false
  /-- length of the signature the signer returns -/
  producedSigLen : Nat
  /-- ElGamal encryption key value within `2 ≤ Y < p-1` (`elgamal.NewElgPublicKey`) -/
  elgInRange : Bool := true
  /-- revocation key value within `2 ≤ Y < p` (`dsa.NewDSAPublicKey`; looked at for NULL certificates only) -/
  revKeyInRange : Bool := true
  deriving DecidableEq, Repr

def lsSigKeySize (a : LsArgs) : Nat :=
  match a.dest with
  | some k => if a.keyCert then sigPubSize k.sigType else 128
  | none => 128
def lsSigLen (a : LsArgs) : Nat :=
  match a.dest with
  | some k => if a.keyCert then sigLen k.sigType else 40
  | none => 40

/-- `lease_set.NewLeaseSet`: nil encryption key, signing key or private key are errors (ffaf3b9, D33);
    `validateLeaseSetInputs` (destination serialises, 256-byte encryption key whose value
    `NewElgPublicKey` accepts (186a243, D22), ≤ 16 leases, `validateSigningKey`: size of the declared type,
    and for a NULL certificate a value `NewDSAPublicKey` accepts (186a243)), `createLeaseSetSignature`,
    `assembleLeaseSet` (`NewSignatureFromBytes`: produced length = size of the destination's type). -/
def lsCtor (a : LsArgs) : Outcome :=
  match a.encKeyLen, a.signingKeyLen with
  | none, _ => .err
  | _, none => .err
  | some e, some s =>
    if a.privKeyNil then .err
    else if !destValidates a.dest then .err
    else if e != 256 then .err
    else if !a.elgInRange then .err
    else if a.nLeases > 16 then .err
    else if s != lsSigKeySize a then .err
    else if !a.keyCert && !a.revKeyInRange then .err
    else if a.producedSigLen != lsSigLen a || lsSigLen a == 0 then .err
    else .ok

structure LsVal where
  leaseCount : Nat
  nLeases : Nat
  encKeyLen : Option Nat
  signingKeyNil : Bool
  sigLenOk : Bool
  keyCert : Bool
  elgInRange : Bool
  revKeyInRange : Bool
  deriving DecidableEq, Repr

def lsBuilt (a : LsArgs) : LsVal :=
  { leaseCount := a.nLeases, nLeases := a.nLeases, encKeyLen := a.encKeyLen,
    signingKeyNil := a.signingKeyLen.isNone, sigLenOk := a.producedSigLen == lsSigLen a && lsSigLen a != 0,
    keyCert := a.keyCert, elgInRange := a.elgInRange, revKeyInRange := a.revKeyInRange }

/-- `(*LeaseSet).Validate` = `validateLeaseSetCounts`, `validateLeaseSetKeys` (256 bytes and, since 186a243,
    a value `NewElgPublicKey` accepts; signing key non-nil), `validateLeaseSetSignature` -/
def lsValidates (v : LsVal) : Bool :=
  v.leaseCount ≤ 16 && v.nLeases == v.leaseCount && v.encKeyLen == some 256 && v.elgInRange
  && !v.signingKeyNil && v.sigLenOk

/-- A LeaseSet value can only come from `NewLeaseSet` or `ReadLeaseSet` (all fields are private); both apply
    the DSA value range to the revocation key of a NULL-certificate destination. `Validate` does not repeat it. -/
def lsObtainable (v : LsVal) : Bool := v.keyCert || v.revKeyInRange

/-- `lease_set.ReadLeaseSet`: `parseEncryptionKey` (`NewElgPublicKey` range check), `constructSigningKey`
    (`NewDSAPublicKey` range check for NULL certificates), `parseLeases` (≤ 16) -/
def lsParses (v : LsVal) : Bool := v.leaseCount ≤ 16 && v.elgInRange && (v.keyCert || v.revKeyInRange)

/-! ## LeaseSet2 -/

/-- what is passed as `signingKey interface{}` to `NewLeaseSet2`: nil, a `types.Signer` or a key with
    `NewSigner()`, or anything else -/
inductive SigningKeyArg | nil | signer | unsupported
  deriving DecidableEq, Repr

/-- one `EncryptionKey{KeyType, KeyLen, KeyData}` -/
structure EncKey where
  keyType : Nat
  keyLen : Nat
  dataLen : Nat
  deriving DecidableEq, Repr

structure Ls2Args where
  destOk : Bool := true
  flags : Nat
  offlinePresent : Bool
  keys : List EncKey
  nLeases : Nat
  /-- `offline_signature.SignatureSize(sigType) ≠ 0` for the type that signs -/
  sigTypeKnown : Bool := true
  /-- the `signingKey interface{}` argument -/
  key : SigningKeyArg := .signer
  /-- the signer returned a signature of the size of the signing type -/
  producedSigLenOk : Bool := true
  deriving DecidableEq, Repr

def offlineFlag (flags : Nat) : Bool := flags % 2 == 1
/-- `flags & 0xFFF8` -/
def ls2Reserved (flags : Nat) : Bool := flags / 8 != 0
/-- `flags & 0xFFFC` -/
def elsReserved (flags : Nat) : Bool := flags / 4 != 0

/-- `validateEncryptionKeyConsistency` (in `Validate`) and, since 43eefaf (D13), the loop of
    `validateEncryptionKeyInputs` (in the constructor): `KeyLen == len(KeyData)` and, for a type in
    `CryptoPublicKeySizes`, `KeyLen` = that size -/
def encKeyValid (k : EncKey) : Bool :=
  k.keyLen == k.dataLen &&
  (match cryptoInfo k.keyType with
   | some n => k.keyLen == n
   | none => true)

/-- `createLeaseSet2Signature` (c5dd9b4, D06): unknown signature type; nil key ⇒ placeholder; `signerFromKey`
    (unsupported key object ⇒ error); produced length = size of the type -/
def ls2SignatureOk (a : Ls2Args) : Bool :=
  a.sigTypeKnown &&
  (match a.key with
   | .nil => true
   | .signer => a.producedSigLenOk
   | .unsupported => false)

/-- `lease_set2.NewLeaseSet2` = `validateLeaseSet2Inputs` (`validateDestinationSize`,
    `validateExpiresOffset` — vacuous for a uint16, `validateReservedFlags` (43eefaf, D13),
    `validateOfflineSignatureFlags`, `validateEncryptionKeyInputs`, `validateLeaseInputs`: 1..16) and
    `createLeaseSet2Signature`. -/
def ls2CtorAccepts (a : Ls2Args) : Bool :=
  a.destOk && !ls2Reserved a.flags && (offlineFlag a.flags == a.offlinePresent)
  && (1 ≤ a.keys.length && a.keys.length ≤ 16) && a.keys.all encKeyValid
  && (1 ≤ a.nLeases && a.nLeases ≤ 16) && ls2SignatureOk a

/-- `(*LeaseSet2).Validate` = `validateEncryptionKeys`, `validateOfflineSignatureConsistency`,
    `validateReservedFlagsAndLeases` -/
def ls2Validates (a : Ls2Args) : Bool :=
  (1 ≤ a.keys.length && a.keys.length ≤ 16) && a.keys.all encKeyValid
  && (offlineFlag a.flags == a.offlinePresent)
  && !ls2Reserved a.flags && a.nLeases ≤ 16

/-- `lease_set2.ReadLeaseSet2`: 1..16 keys, ≤ 16 leases; reserved bits and key sizes are only logged -/
def ls2Parses (a : Ls2Args) : Bool := (1 ≤ a.keys.length && a.keys.length ≤ 16) && a.nLeases ≤ 16

/-! ## EncryptedLeaseSet -/

structure ElsArgs where
  sigType : Nat
  blindedKeyLen : Nat
  expires : Nat
  flags : Nat
  offlinePresent : Bool
  /-- `len(encryptedInnerData)`: an `int`, may exceed 65 535 -/
  innerLen : Nat
  /-- `createSignature` knows the key object and the 64-byte Ed25519 signature has the size of the signing type -/
  signatureOk : Bool := true
  deriving DecidableEq, Repr

structure ElsVal where
  sigType : Nat
  blindedKeyLen : Nat
  expires : Nat
  flags : Nat
  offlinePresent : Bool
  /-- the uint16 field -/
  innerLength : Nat
  dataLen : Nat
  signatureOk : Bool
  deriving DecidableEq, Repr

/-- `encrypted_leaseset.NewEncryptedLeaseSet` = `validateInputs` (`validateSigTypeAndKeySize`,
    `validateConstructorFlags`, `validateEncryptedPayload`: non-empty, ≥ 61 and, since 9f2a61a (D23),
    ≤ `ENCRYPTED_LEASESET_MAX_ENCRYPTED_SIZE` = 65 535) and `createSignature`. -/
def elsCtorAccepts (a : ElsArgs) : Bool :=
  (sigInfo a.sigType).isSome && a.blindedKeyLen == sigPubSize a.sigType
  && a.expires != 0 && !elsReserved a.flags && (offlineFlag a.flags == a.offlinePresent)
  && a.innerLen != 0 && 61 ≤ a.innerLen && a.innerLen ≤ 65535 && a.signatureOk

/-- `innerLength: uint16(len(encryptedInnerData))` -/
def elsBuilt (a : ElsArgs) : ElsVal :=
  { sigType := a.sigType, blindedKeyLen := a.blindedKeyLen, expires := a.expires, flags := a.flags,
    offlinePresent := a.offlinePresent, innerLength := a.innerLen % 65536, dataLen := a.innerLen,
    signatureOk := a.signatureOk }

/-- `(*EncryptedLeaseSet).Validate` = `validateSigTypeAndKey`, `validateEncryptedLeaseSetFields`,
    `validateEncryptedInnerDataIntegrity` (`int(els.innerLength) != len(data)`: compared as `int` since
    9f2a61a, D23), `signature.Validate()` -/
def elsValidates (v : ElsVal) : Bool :=
  (sigInfo v.sigType).isSome && v.blindedKeyLen == sigPubSize v.sigType
  && v.expires != 0 && !elsReserved v.flags && (offlineFlag v.flags == v.offlinePresent)
  && v.dataLen != 0 && 61 ≤ v.dataLen && v.innerLength == v.dataLen && v.signatureOk

/-- `ReadEncryptedLeaseSet` on `Bytes()`: the reader takes `innerLength` bytes of data; it gets the value
    back only when that is all the data that was written -/
def elsParses (v : ElsVal) : Bool := v.innerLength == v.dataLen

/-! ## OfflineSignature -/

structure OffArgs where
  expires : Nat
  transientType : Nat
  transientKeyLen : Nat
  destType : Nat
  signatureLen : Nat
  deriving DecidableEq, Repr

/-- `offline_signature.NewOfflineSignature`: known transient type and key size, known destination type and
    signature size. No rule on `expires`. -/
def offCtorAccepts (a : OffArgs) : Bool :=
  sigPubSize a.transientType != 0 && a.transientKeyLen == sigPubSize a.transientType
  && sigLen a.destType != 0 && a.signatureLen == sigLen a.destType

/-- `(*OfflineSignature).ValidateStructure` -/
def offValidates (a : OffArgs) : Bool := a.expires != 0 && offCtorAccepts a

/-- `signWithDestinationType`: Ed25519 and RedDSA sign; Ed25519ph (8) hands an un-hashed message to the
    pre-hash API and always errors; every other type is "not implemented" -/
def offCreateSigns : Nat → Bool | 7 | 11 => true | _ => false

/-- `offline_signature.CreateOfflineSignature` = `validateCreateParams` (expires ≠ 0, …),
    `signWithDestinationType`, `NewOfflineSignature` (the produced signature has 64 bytes) -/
def offCreateAccepts (expires transientType transientKeyLen destType : Nat) : Bool :=
  expires != 0 && offCreateSigns destType
  && offCtorAccepts { expires, transientType, transientKeyLen, destType, signatureLen := 64 }

/-- `ReadOfflineSignature`: known types; no rule on `expires` -/
def offParses (a : OffArgs) : Bool := sigPubSize a.transientType != 0 && sigLen a.destType != 0

/-! ## Signature -/

/-- `signature.NewSignatureFromBytes(data, sigType)` = `getSignatureLength` (known type) and exact length;
    `Signature.Validate` applies the same two rules; so does `ReadSignature` on exactly-sized input -/
def sigCtorAccepts (t len : Nat) : Bool := (sigInfo t).isSome && len == sigLen t
def sigValidates (t len : Nat) : Bool := (sigInfo t).isSome && len == sigLen t
def sigParses (t len : Nat) : Bool := (sigInfo t).isSome && len == sigLen t

/-! ## Certificate and its builder -/

/-- `certificate.NewCertificateWithType(certType, payload)` = `validateCertType` (0..5) and
    `validateCertPayload` (≤ 65 535; NULL and HIDDEN empty; SIGNED 40 or 72). -/
def certCtorAccepts (t payloadLen : Nat) : Bool :=
  t ≤ 5 && payloadLen ≤ 65535
  && (t != 0 || payloadLen == 0) && (t != 2 || payloadLen == 0)
  && (t != 3 || payloadLen == 40 || payloadLen == 72)

/-- `(*Certificate).IsValid`: non-nil, `kind` and `len` non-empty — true of every constructed value -/
def certValidates (_t _payloadLen : Nat) : Bool := true

/-- `certificate.ReadCertificate` on `Bytes()`: declared length = payload length; type-specific rules are
    logged only -/
def certParses (_t _payloadLen : Nat) : Bool := true

/-- settings of a `CertificateBuilder` -/
structure Builder where
  certType : Nat := 0
  signingTypeSet : Bool := false
  cryptoTypeSet : Bool := false
  payloadSet : Bool := false
  payloadLen : Nat := 0
  deriving DecidableEq, Repr

/-- `(*CertificateBuilder).Validate` = `validateCertificateType`, `validateKeyCertificateFields` -/
def builderValidates (b : Builder) : Bool :=
  b.certType ≤ 5 &&
  (b.certType != 5 ||
    ((b.signingTypeSet || b.cryptoTypeSet || b.payloadSet) && (b.signingTypeSet == b.cryptoTypeSet)))

/-- payload after `buildPayloadIfNeeded` -/
def builderPayloadLen (b : Builder) : Nat :=
  if b.payloadSet then b.payloadLen else if b.signingTypeSet && b.cryptoTypeSet then 4 else b.payloadLen

/-- `(*CertificateBuilder).Build` = `Validate`, `buildPayloadIfNeeded`, `NewCertificateWithType` -/
def builderBuilds (b : Builder) : Bool :=
  builderValidates b
  && !(b.certType == 5 && !b.payloadSet && !(b.signingTypeSet && b.cryptoTypeSet) && b.payloadLen == 0)
  && certCtorAccepts b.certType (builderPayloadLen b)

/-! # Part 2 — what the signing constructors sign (C06) -/

/-- An abstract signature scheme: type code, secret key, message, randomness. One law. -/
structure Scheme where
  SK : Type
  pub : Nat → SK → Bytes
  sign : Nat → SK → Bytes → Bytes → Bytes
  verify : Nat → Bytes → Bytes → Bytes → Bool
  sig_correct : ∀ t sk m r, verify t (pub t sk) m (sign t sk m r) = true

/-! ### RouterInfo -/

/-- serialised parts of a RouterInfo -/
structure RiParts where
  identity : Bytes
  published : Bytes
  size : Bytes
  addresses : Bytes
  peerSize : Bytes
  options : Bytes
  signature : Bytes := []

/-- `(*RouterInfo).serializeWithoutSignature` -/
def RiParts.unsigned (p : RiParts) : Bytes :=
  p.identity ++ p.published ++ p.size ++ p.addresses ++ p.peerSize ++ p.options

/-- `RouterInfo.Bytes` -/
def RiParts.bytes (p : RiParts) : Bytes := p.unsigned ++ p.signature

/-- `signRouterInfoData`: the message handed to the signer -/
def riSignedMessage (p : RiParts) : Bytes := p.unsigned

/-- `NewRouterInfo`: sign `serializeWithoutSignature` with Ed25519 (type 7), store the signature -/
def riNew (C : Scheme) (p : RiParts) (sk : C.SK) (r : Bytes) : RiParts :=
  { p with signature := C.sign 7 sk (riSignedMessage p) r }

/-- `(*RouterInfo).VerifySignature`: the message it recomputes from the value -/
def riVerifiedMessage (v : RiParts) : Bytes := v.unsigned

def riVerify (C : Scheme) (v : RiParts) (identityKey : Bytes) : Bool :=
  C.verify 7 identityKey (riVerifiedMessage v) v.signature

/-! ### LeaseSet -/

structure LsParts where
  destination : Bytes
  encryptionKey : Bytes
  signingKey : Bytes
  count : Bytes
  leases : Bytes
  signature : Bytes := []

/-- `serializeLeaseSetData` -/
def LsParts.unsigned (p : LsParts) : Bytes :=
  p.destination ++ p.encryptionKey ++ p.signingKey ++ p.count ++ p.leases

/-- `LeaseSet.Bytes` -/
def LsParts.bytes (p : LsParts) : Bytes := p.unsigned ++ p.signature

def lsSignedMessage (p : LsParts) : Bytes := p.unsigned

/-- `NewLeaseSet`: sign `serializeLeaseSetData` with the destination's type `t` -/
def lsNew (C : Scheme) (t : Nat) (p : LsParts) (sk : C.SK) (r : Bytes) : LsParts :=
  { p with signature := C.sign t sk (lsSignedMessage p) r }

/-- `LeaseSet.Verify`: `Bytes()` with the last `len(signature)` bytes cut off -/
def lsVerifiedMessage (v : LsParts) : Bytes := v.bytes.take (v.bytes.length - v.signature.length)

def lsVerify (C : Scheme) (t : Nat) (v : LsParts) (destKey : Bytes) : Bool :=
  C.verify t destKey (lsVerifiedMessage v) v.signature

/-! ### LeaseSet2 -/

structure Ls2Parts where
  destination : Bytes
  published : Bytes
  expires : Bytes
  flags : Bytes
  /-- empty when there is no offline block -/
  offline : Bytes
  options : Bytes
  keys : Bytes
  leases : Bytes
  signature : Bytes := []

/-- `serializeLeaseSet2Content` -/
def Ls2Parts.content (p : Ls2Parts) : Bytes :=
  p.destination ++ p.published ++ p.expires ++ p.flags ++ p.offline ++ p.options ++ p.keys ++ p.leases

/-- `LeaseSet2.Bytes` -/
def Ls2Parts.bytes (p : Ls2Parts) : Bytes := p.content ++ p.signature

/-- `serializeLeaseSet2ForSigning`: DatabaseStore type 3, then the content -/
def ls2SignedMessage (p : Ls2Parts) : Bytes := 3 :: p.content

/-- `NewLeaseSet2` with a nil key: `createLeaseSet2Signature` stores zero bytes (an unsigned LeaseSet2;
    outside C06, which speaks of a private key matching the identity). Before c5dd9b4 (D06) this was the
    result for every key. -/
def ls2NewPlaceholder (sigLen : Nat) (p : Ls2Parts) : Ls2Parts :=
  { p with signature := List.replicate sigLen 0 }

/-- `NewLeaseSet2` with a key: `createLeaseSet2Signature` signs `serializeLeaseSet2ForSigning` (c5dd9b4, D06) -/
def ls2NewSigned (C : Scheme) (t : Nat) (p : Ls2Parts) (sk : C.SK) (r : Bytes) : Ls2Parts :=
  { p with signature := C.sign t sk (ls2SignedMessage p) r }

/-- `LeaseSet2.Verify`: 3 ‖ (`Bytes()` minus the last `len(signature)` bytes) -/
def ls2VerifiedMessage (v : Ls2Parts) : Bytes := 3 :: v.bytes.take (v.bytes.length - v.signature.length)

def ls2Verify (C : Scheme) (t : Nat) (v : Ls2Parts) (key : Bytes) : Bool :=
  C.verify t key (ls2VerifiedMessage v) v.signature

/-! ### EncryptedLeaseSet -/

structure ElsParts where
  sigType : Bytes
  blindedKey : Bytes
  published : Bytes
  expires : Bytes
  flags : Bytes
  offline : Bytes
  innerLength : Bytes
  innerData : Bytes
  signature : Bytes := []

/-- `(*EncryptedLeaseSet).bytesWithoutSignature` -/
def ElsParts.unsigned (p : ElsParts) : Bytes :=
  p.sigType ++ p.blindedKey ++ p.published ++ p.expires ++ p.flags ++ p.offline ++ p.innerLength ++ p.innerData

/-- `(*EncryptedLeaseSet).dataForSigning`: DatabaseStore type 5, then the content — used by the
    constructor and by `Verify` alike -/
def elsSignedMessage (p : ElsParts) : Bytes := 5 :: p.unsigned

def elsNew (C : Scheme) (t : Nat) (p : ElsParts) (sk : C.SK) (r : Bytes) : ElsParts :=
  { p with signature := C.sign t sk (elsSignedMessage p) r }

def elsVerifiedMessage (v : ElsParts) : Bytes := 5 :: v.unsigned

def elsVerify (C : Scheme) (t : Nat) (v : ElsParts) (key : Bytes) : Bool :=
  C.verify t key (elsVerifiedMessage v) v.signature

/-! ### OfflineSignature -/

structure OffParts where
  expires : Bytes
  transientType : Bytes
  transientKey : Bytes
  signature : Bytes := []

/-- `buildSignedData(expires, sigtype, transientPublicKey)` -/
def offSignedMessage (p : OffParts) : Bytes := p.expires ++ p.transientType ++ p.transientKey

/-- `CreateOfflineSignature` -/
def offCreate (C : Scheme) (destType : Nat) (p : OffParts) (sk : C.SK) (r : Bytes) : OffParts :=
  { p with signature := C.sign destType sk (offSignedMessage p) r }

/-- `(*OfflineSignature).SignedData` -/
def offVerifiedMessage (v : OffParts) : Bytes := v.expires ++ v.transientType ++ v.transientKey

/-- `(*OfflineSignature).VerifySignature(destinationPublicKey)` -/
def offVerify (C : Scheme) (destType : Nat) (v : OffParts) (destKey : Bytes) : Bool :=
  C.verify destType destKey (offVerifiedMessage v) v.signature

end I2P.Ctor
