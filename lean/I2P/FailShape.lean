import I2P.Structs
/-! # Which value does a reader hand out together with an error?  (C20, failed-parse half)

`harness/ops_failshape.go` dumps the *nil-structure* of the value a reader of /repo returns together with
a non-nil error: a canonical, reflect-based string (`shapeOf`) plus one bit saying whether the value is the
zero value of its type (`reflect.Value.IsZero`).  This file gives, for every reader, the same line computed
on the model, by following the reader's error paths as they are in /repo: the accept/reject decision is the
existing reader model (`Kac`, `Structs`, `Data`, `Mapping`); what is new is *where* the reader stopped and
which fields it had already assigned at that point.

Grammar of a shape (Go side: `shapeOf`): `nil` (nil pointer/slice/interface) · `&s` (pointer) · `is`
(interface holding a value of shape `s`) · `{f1,…,fn}` (struct, declaration order, unexported fields
included) · `b<len>` (`[]byte`) · `a<N>` (`[N]byte`) · `[e1,…,en]` (slice of structs or pointers, every
element) · `[<len>]` (any other slice) · `_` (scalar).  Core only. -/

namespace I2P.FailShape
open I2P I2P.Spec I2P.Kac I2P.Structs

/-- Shapes.  Field lists and element lists are `fnil`/`fcons` chains (a non-nested inductive, so that
    `DecidableEq` can be derived).  `bstar`, `sstar`, `any` occur only in shape *classes*. -/
inductive Shape where
  | nil
  | ptr (s : Shape)
  | iface (s : Shape)
  | bytes (n : Nat)
  | arr (n : Nat)
  | slice (n : Nat)
  | scalar
  | struct (fs : Shape)
  | elems (es : Shape)
  | fnil
  | fcons (h t : Shape)
  | bstar
  | sstar
  | any
  | bad
deriving DecidableEq, Repr

namespace Shape

def ofList : List Shape → Shape
  | [] => .fnil
  | h :: t => .fcons h (ofList t)

/-- a struct with the given field shapes -/
def S (l : List Shape) : Shape := .struct (ofList l)
/-- a non-nil slice of structs/pointers with the given element shapes -/
def E (l : List Shape) : Shape := .elems (ofList l)

/-- exactly the string `shapeOf` prints -/
def render : Shape → String
  | .nil => "nil"
  | .ptr s => "&" ++ render s
  | .iface s => "i" ++ render s
  | .bytes n => "b" ++ toString n
  | .arr n => "a" ++ toString n
  | .slice n => "[" ++ toString n ++ "]"
  | .scalar => "_"
  | .struct fs => "{" ++ render fs ++ "}"
  | .elems es => "[" ++ render es ++ "]"
  | .fnil => ""
  | .fcons h .fnil => render h
  | .fcons h t => render h ++ "," ++ render t
  | .bstar => "b*"
  | .sstar => "[*]"
  | .any => "*"
  | .bad => "?"

/-- removes every copy of `x` from a chain -/
def remove (x : Shape) : Shape → Shape
  | .fcons h t => if h = x then remove x t else .fcons h (remove x t)
  | s => s

/-- keeps the first copy of every element of a chain -/
def dedup : Shape → Shape
  | .fcons h t => .fcons h (remove h (dedup t))
  | s => s

/-- The *class* of a shape (Go side: `shapeClass`): every `[]byte` length and every plain-slice length is
    forgotten, the dynamic value under an interface is forgotten (`i*`), and an element list keeps one copy
    of every distinct element class, in order of first occurrence.  Array lengths stay (they are types). -/
def cls : Shape → Shape
  | .ptr s => .ptr (cls s)
  | .iface _ => .iface .any
  | .bytes _ => .bstar
  | .slice _ => .sstar
  | .struct fs => .struct (cls fs)
  | .elems es => .elems (dedup (cls es))
  | .fcons h t => .fcons (cls h) (cls t)
  | s => s

/-- `i`-th cell of a chain (`bad` when there is none) -/
def nth : Nat → Shape → Shape
  | 0, .fcons h _ => h
  | n+1, .fcons _ t => nth n t
  | _, _ => .bad

/-- `i`-th field of a struct shape, counting from 0 (`bad` for anything else) -/
def field (i : Nat) : Shape → Shape
  | .struct fs => nth i fs
  | _ => .bad

/-- number of cells of a chain -/
def clen : Shape → Nat
  | .fcons _ t => clen t + 1
  | _ => 0

/-- token list of a shape *class* (Go side: `shapeCode`), for comparisons that avoid strings:
    nil 0 · &s 1,s · i* 2 · b* 3 · a<N> 4,N · [*] 5 · _ 6 · {f1..fk} 7,k,f1..fk · [e1..ek] 8,k,e1..ek; 9 = not a class -/
def code : Shape → List Nat
  | .nil => [0]
  | .ptr s => 1 :: code s
  | .iface .any => [2]
  | .bstar => [3]
  | .arr n => [4, n]
  | .sstar => [5]
  | .scalar => [6]
  | .struct fs => 7 :: clen fs :: code fs
  | .elems es => 8 :: clen es :: code es
  | .fnil => []
  | .fcons h t => code h ++ code t
  | _ => [9]

end Shape
open Shape

/-- what `failShape` observes when the reader reports an error: is the value the zero value of its
    type (`reflect.Value.IsZero`), and its shape -/
structure Obs where
  zero : Bool
  shape : Shape
deriving DecidableEq, Repr

def Obs.render (o : Obs) : String := "err " ++ (if o.zero then "z " else "p ") ++ o.shape.render

/-- the line of the op: `ok`, or the observation of the value returned with the error -/
def line : Option Obs → String
  | none => "ok"
  | some o => o.render

/-- a reader that returns the zero value (shape `z`) on every error path -/
def zstop (accepted : Bool) (z : Shape) : Option Obs := if accepted then none else some ⟨true, z⟩

/-! ### zero shapes of the value types -/

def sig0 : Shape := S [.scalar, .nil]                         -- signature.Signature{sigType, data}
def map0 : Shape := S [.nil, .nil]                            -- data.Mapping{size, vals}
def dest0 : Shape := S [.nil]                                 -- destination.Destination{*KeysAndCert}
def off0 : Shape := S [.scalar, .scalar, .nil, .nil, .scalar] -- OfflineSignature
def ra0 : Shape := S [.nil, .nil, .nil, .nil]                 -- RouterAddress
def leaseSet0 : Shape := S [dest0, .nil, .nil, .scalar, .nil, sig0]
def ls20 : Shape := S [dest0, .scalar, .scalar, .scalar, .nil, map0, .nil, .nil, sig0]
def meta0 : Shape := S [dest0, .scalar, .scalar, .scalar, .nil, map0, .scalar, .nil, sig0]
def els0 : Shape := S [.scalar, .nil, .scalar, .scalar, .scalar, .nil, .scalar, .nil, sig0]
def ri0 : Shape := S [.nil, .nil, .nil, .nil, .nil, .nil, .nil]
def key0 : Shape := S [.scalar, .scalar, .nil]                -- lease_set2.EncryptionKey
def entry0 : Shape := S [.arr 32, .scalar, .scalar, .scalar, map0]  -- MetaLeaseSetEntry

/-! ### readers that return the zero value / a nil pointer on every error path -/

/-- `certificate.ReadCertificate`: `return nil, data, err` -/
def stopCert (w : Bytes) : Option Obs := zstop (readCert w).isSome .nil
/-- `key_certificate.NewKeyCertificate`: every error path returns `nil` -/
def stopKeyCert (w : Bytes) : Option Obs := zstop (newKeyCert w).isSome .nil
/-- `keys_and_cert.ReadKeysAndCert`: every error path returns `nil` -/
def stopKac (w : Bytes) : Option Obs := zstop (readKac w).isSome .nil
/-- `destination.ReadDestination`: `return Destination{}, remainder, err` -/
def stopDest (w : Bytes) : Option Obs := zstop (readDestination w).isSome dest0
/-- `destination.NewDestinationFromBytes` -/
def stopNewDest (w : Bytes) : Option Obs := zstop (readDestination w).isSome .nil
/-- `router_identity.ReadRouterIdentity` (named result `ri` stays nil) and `NewRouterIdentityFromBytes` -/
def stopRid (w : Bytes) : Option Obs := zstop (readRouterIdentity w).isSome .nil

def readSigInt (w : Bytes) (t : Int) : P := if t < 0 then none else readSig w t.toNat
/-- `signature.ReadSignature`: named result `sig` stays `Signature{}` -/
def stopSig (w : Bytes) (t : Int) : Option Obs := zstop (readSigInt w t).isSome sig0
/-- `signature.NewSignature` -/
def stopNewSig (w : Bytes) (t : Int) : Option Obs := zstop (readSigInt w t).isSome .nil
/-- `signature.NewSignatureFromBytes`: known type and exactly the signature length -/
def newSigFromBytesOk (w : Bytes) (t : Int) : Bool := decide (0 ≤ t) && sigLen t.toNat != 0 && w.length == sigLen t.toNat
def stopSigFromBytes (w : Bytes) (t : Int) : Option Obs := zstop (newSigFromBytesOk w t) sig0

/-- `lease.ReadLease` / `ReadLease2`, `session_key.ReadSessionKey`, `data.ReadDate`, `data.ReadHash`:
    the array result is only written after the length check -/
def stopArr (n : Nat) (w : Bytes) : Option Obs := zstop (readFixedN n w).isSome (.arr n)
/-- `session_tag.ReadSessionTag` / `ReadECIESSessionTag`: a struct around the array -/
def stopTag (n : Nat) (w : Bytes) : Option Obs := zstop (readFixedN n w).isSome (S [.arr n])
/-- the pointer-returning twins (`NewLeaseFromBytes`, `NewSessionKey`, `NewDate`, …): `nil` on error -/
def stopPtrN (n : Nat) (w : Bytes) : Option Obs := zstop (readFixedN n w).isSome .nil
/-- `NewSessionTagFromBytes` / `NewECIESSessionTagFromBytes` (`SetBytes` copies nothing on a wrong length) -/
def stopTagExact (n : Nat) (w : Bytes) : Option Obs := zstop (w.length == n) (S [.arr n])
/-- `data.NewHashFromSlice` -/
def stopHashExact (w : Bytes) : Option Obs := zstop (w.length == 32) (.arr 32)
/-- `data.NewIntegerFromBytes` -/
def stopIntFromBytes (w : Bytes) : Option Obs := zstop (newIntegerFromBytes w).isSome .nil
/-- `data.NewI2PStringFromBytes` -/
def stopStrFromBytes (w : Bytes) : Option Obs := zstop (newStrFromBytes w).isSome .nil
/-- `lease_set.ReadLeaseSet`: every error path is `return LeaseSet{}, err` -/
def stopLeaseSet (w : Bytes) : Option Obs := zstop (readLeaseSet w).isSome leaseSet0

/-- `lease_set.ReadDestinationFromLeaseSet` (accept/reject; it is the first stage of `readLeaseSet`) -/
def readDestFromLS (d : Bytes) : Option (KeysAndCert × Bytes) :=
  if d.length < 387 then none else
  match readCert (d.drop 384) with
  | none => none
  | some (c, _) =>
    let destLen := 387 + c.declared
    if d.length < destLen then none else
    match readDestination (d.take destLen) with
    | none => none
    | some (k, _) => some (k, d.drop destLen)
/-- the named result `dest` is only assigned from `extractDestinationFromData`, which returns
    `Destination{}` with its error -/
def stopDestFromLS (w : Bytes) : Option Obs := zstop (readDestFromLS w).isSome dest0

/-! ### readers that hand out partially populated values -/

/-- `data.ReadI2PString`: nothing on empty input; on a short buffer the *whole input* is returned as the string -/
def stopStr (d : Bytes) : Option Obs :=
  match (readStr d).2.2 with
  | none => none
  | some .zero => some ⟨true, .nil⟩
  | some _ => some ⟨false, .bytes d.length⟩

/-- shape of a `data.Mapping` as `ReadMapping` leaves it: `size` is set once two bytes were read, `vals` is
    whatever `ReadMappingValues` returned (nil when there was no body at all) -/
def mapShape (r : Mapping.Res) : Shape :=
  S [if r.hasSize then .ptr (.bytes 2) else .nil,
     match r.vals with | none => .nil | some v => .ptr (.slice v.length)]

/-- `data.ReadMapping`: error = any entry in the returned error list (warnings included) -/
def stopMapping (d : Bytes) : Option Obs :=
  let r := Mapping.readMapping d
  if r.errs.isEmpty then none else some ⟨!r.hasSize, mapShape r⟩

/-- `data.NewMapping`: always a non-nil pointer to what `ReadMapping` returned -/
def stopNewMapping (d : Bytes) : Option Obs :=
  let r := Mapping.readMapping d
  if r.errs.isEmpty then none else some ⟨false, .ptr (mapShape r)⟩

/-- `offline_signature.ReadOfflineSignature(d, destType)`: `expires`/`sigtype` are stored before the
    transient type is checked, the transient key before the destination type is checked -/
def stopOffSig (d : Bytes) (destType : Nat) : Option Obs :=
  if d.length < 6 then some ⟨true, off0⟩ else
  let exp := beVal (d.take 4)
  let st := beVal ((d.drop 4).take 2)
  let hdrZero : Bool := exp == 0 && st == 0
  let ks := sigPubSize st
  if ks = 0 then some ⟨hdrZero, off0⟩ else
  let r := d.drop 6
  if r.length < ks then some ⟨hdrZero, off0⟩ else
  let part : Shape := S [.scalar, .scalar, .bytes ks, .nil, .scalar]
  let ss := sigLen destType
  if ss = 0 then some ⟨false, part⟩ else
  if (r.drop ks).length < ss then some ⟨false, part⟩ else none

/-- an accepted offline block with transient type `st` under a destination of signing type `destType` -/
def offOk (st destType : Nat) : Shape := S [.scalar, .scalar, .bytes (sigPubSize st), .bytes (sigLen destType), .scalar]

/-- `ReadKeysAndCertElgAndEd25519` (`c = 0`) / `ReadKeysAndCertX25519AndEd25519` (`c = 4`): the keys and
    the padding are stored in a fresh `&KeysAndCert{}` *before* the certificate is parsed -/
def stopKacFast (c : Nat) (w : Bytes) : Option Obs :=
  if w.length < 387 then some ⟨true, .nil⟩ else
  match newKeyCert (w.drop 384) with
  | none => some ⟨false, .ptr (S [.nil, .iface (if c = 0 then .arr 256 else .bytes 32),
                                 .bytes (if c = 0 then 96 else 320), .iface (.bytes 32)])⟩
  | some (kc, _) => if kc.spk ≠ 7 ∨ kc.cpk ≠ c then some ⟨true, .nil⟩ else none

/-- `router_address.ReadRouterAddress`: cost and expiration are stored first; the transport style only when
    it parsed; the options pointer always once `NewMapping` was called -/
def stopRA (d : Bytes) : Option Obs :=
  if d.length < 12 then some ⟨true, ra0⟩ else
  let (str, r, e) := readStr (d.drop 9)
  if e.isSome then some ⟨false, S [.ptr (.bytes 1), .ptr (.arr 8), .nil, .nil]⟩ else
  let m := Mapping.readMapping r
  if !Mapping.accepted m then some ⟨false, S [.ptr (.bytes 1), .ptr (.arr 8), .bytes str.length, .ptr (mapShape m)]⟩
  else none

/-- an accepted RouterAddress (as stored behind a pointer in `RouterInfo.addresses`) -/
def raOk (d : Bytes) : Shape :=
  let (str, r, _) := readStr (d.drop 9)
  .ptr (S [.ptr (.bytes 1), .ptr (.arr 8), .bytes str.length, .ptr (mapShape (Mapping.readMapping r))])

/-- dynamic type of `KeysAndCert.ReceivingPublic`: `elg.ElgPublicKey` is `[256]byte`,
    `curve25519.Curve25519PublicKey` a byte slice -/
def cryptoKeyShape (cpk : Nat) : Shape := if cpk = 0 then .arr 256 else .bytes 32
/-- dynamic type of `KeysAndCert.SigningPublic`: DSA `[128]byte`, ECDSA P-256 `[64]byte`, P-384 `[96]byte`,
    Ed25519 / RedDSA byte slices -/
def sigKeyShape (spk : Nat) : Shape :=
  if spk = 0 then .arr 128 else if spk = 1 then .arr 64 else if spk = 2 then .arr 96 else .bytes 32

/-- a `*KeysAndCert` built by `ReadKeysAndCert`: the certificate keeps everything that followed its
    header in the buffer; `extractPaddingFromData` returns nil when the keys fill the 384 bytes -/
def kacOk (k : KeysAndCert) : Shape :=
  let cs := cryptoSize k.kc.cpk
  let ss := sigPubSize k.kc.spk
  .ptr (S [.ptr (S [S [.bytes k.kc.cert.kind.length, .bytes k.kc.cert.len.length, .bytes k.kc.cert.payload.length],
                    .bytes 2, .bytes 2]),
           .iface (cryptoKeyShape k.kc.cpk),
           if 384 ≤ cs + ss then .nil else .bytes (384 - cs - ss),
           .iface (sigKeyShape k.kc.spk)])

/-- an accepted `destination.Destination` (a struct around the pointer) -/
def destOk (k : KeysAndCert) : Shape := S [kacOk k]
/-- an accepted `*router_identity.RouterIdentity` -/
def ridOk (k : KeysAndCert) : Shape := .ptr (S [kacOk k])

/-- the optional offline block of an accepted header: nil pointer unless flag bit 0 is set -/
def offField (flags sigT destType : Nat) : Shape := if flags % 2 = 1 then .ptr (offOk sigT destType) else .nil

/-- an EncryptedLeaseSet with blinded key `K`, offline block `O`, inner data `I` and no signature yet -/
def elsPart (K O I : Shape) : Shape := S [.scalar, K, .scalar, .scalar, .scalar, O, .scalar, I, sig0]

/-- `ReadEncryptedLeaseSet` after the optional offline block: inner length, inner data, signature, `Validate` -/
def elsTail (K O : Shape) (r : Bytes) (expires sigT : Nat) : Option Obs :=
  if r.length < 2 then some ⟨false, elsPart K O .nil⟩ else
  let il := beVal (r.take 2)
  let r2 := r.drop 2
  if il = 0 then some ⟨false, elsPart K O .nil⟩ else
  if r2.length < il then some ⟨false, elsPart K O .nil⟩ else
  match readSig (r2.drop il) sigT with
  | none => some ⟨false, elsPart K O (.bytes il)⟩
  | some _ =>
    if expires = 0 then some ⟨true, els0⟩ else
    if il < 61 then some ⟨true, els0⟩ else none

/-- `encrypted_leaseset.ReadEncryptedLeaseSet`: every field is stored as soon as it is read; a value that
    parsed completely but fails `Validate` is replaced by `EncryptedLeaseSet{}` -/
def stopELS (d : Bytes) : Option Obs :=
  if d.length < 109 then some ⟨true, els0⟩ else
  let st := beVal (d.take 2)
  let stZero : Bool := st == 0
  let ks := sigPubSize st
  if ks = 0 then some ⟨stZero, els0⟩ else
  let r := d.drop 2
  if r.length < ks then some ⟨stZero, els0⟩ else
  let r := r.drop ks
  if r.length < 8 then some ⟨false, elsPart (.bytes ks) .nil .nil⟩ else
  let expires := beVal ((r.drop 4).take 2)
  let flags := beVal ((r.drop 6).take 2)
  let r := r.drop 8
  if flags / 4 ≠ 0 then some ⟨false, elsPart (.bytes ks) .nil .nil⟩ else
  match (if flags % 2 = 1 then readOffSig r st else some ([], r, st)) with
  | none => some ⟨false, elsPart (.bytes ks) .nil .nil⟩
  | some (_, r, sigT) => elsTail (.bytes ks) (offField flags sigT st) r expires sigT

/-- the optional offline-signature block: (bytes, remainder, type the final signature is read with) -/
def offStage (flags : Nat) (r : Bytes) (spk : Nat) : Option (Bytes × Bytes × Nat) :=
  if flags % 2 = 1 then readOffSig r spk else some ([], r, spk)

/-- the common prefix of `ReadLeaseSet2` and `ReadMetaLeaseSet` (`parseDestinationAndHeader`,
    `parseOfflineSignature`, `parseOptionsMapping`): the destination is stored when it parsed, the three
    header scalars when eight more bytes exist, the offline block when it parsed, the options only when
    the mapping was accepted.  `part D O M` is the structure with the given destination, offline block and
    options and nothing after them; `cont` continues after the options. -/
def stopHdr (minLen : Nat) (z : Shape) (part : Shape → Shape → Shape → Shape)
    (cont : Shape → Shape → Shape → Bytes → Nat → Option Obs) (d : Bytes) : Option Obs :=
  if d.length < minLen then some ⟨true, z⟩ else
  match readDestination d with
  | none => some ⟨true, z⟩
  | some (k, r) =>
    let D := destOk k
    if r.length < 8 then some ⟨false, part D .nil map0⟩ else
    let flags := beVal ((r.drop 6).take 2)
    match offStage flags (r.drop 8) k.kc.spk with
    | none => some ⟨false, part D .nil map0⟩
    | some (_, r2, sigT) =>
      let O := offField flags sigT k.kc.spk
      match readOptions r2 true with
      | none => some ⟨false, part D O map0⟩
      | some (_, r3) => cont D O (mapShape (Mapping.readMapping r2)) r3 sigT

/-- `parseEncryptionKeys`: `make([]EncryptionKey, n)`, filled from the front; returns the element shapes and
    the remainder when every key was read -/
def keysWalk : Nat → Bytes → List Shape → List Shape × Option Bytes
  | 0, d, acc => (acc, some d)
  | n+1, d, acc =>
    if d.length < 4 then (acc ++ List.replicate (n+1) key0, none) else
    let kl := beVal ((d.drop 2).take 2)
    let r := d.drop 4
    if r.length < kl then (acc ++ List.replicate (n+1) key0, none)
    else keysWalk n (r.drop kl) (acc ++ [S [.scalar, .scalar, .bytes kl]])

/-- `ReadLeaseSet2` after the options -/
def ls2Tail (D O M : Shape) (r : Bytes) (sigT : Nat) : Option Obs :=
  let mk (K L : Shape) : Shape := S [D, .scalar, .scalar, .scalar, O, M, K, L, sig0]
  match r with
  | [] => some ⟨false, mk .nil .nil⟩
  | nk :: r =>
    if nk.toNat < 1 ∨ nk.toNat > 16 then some ⟨false, mk .nil .nil⟩ else
    match keysWalk nk.toNat r [] with
    | (ks, none) => some ⟨false, mk (E ks) .nil⟩
    | (ks, some r) =>
      match r with
      | [] => some ⟨false, mk (E ks) .nil⟩
      | nl :: r =>
        if nl.toNat > 16 then some ⟨false, mk (E ks) .nil⟩ else
        match readFixed nl.toNat 40 r with
        | none => some ⟨false, mk (E ks) .nil⟩
        | some (_, r) =>
          match readSig r sigT with
          | none => some ⟨false, mk (E ks) (.slice nl.toNat)⟩
          | some _ => none

/-- `lease_set2.ReadLeaseSet2` -/
def stopLS2 (d : Bytes) : Option Obs :=
  stopHdr 499 ls20 (fun D O M => S [D, .scalar, .scalar, .scalar, O, M, .nil, .nil, sig0]) ls2Tail d

/-- `parseEntries`: `make([]MetaLeaseSetEntry, n)`; an entry is stored only when its type is valid and its
    properties mapping was accepted -/
def entriesWalk : Nat → Bytes → List Shape → List Shape × Option Bytes
  | 0, d, acc => (acc, some d)
  | n+1, d, acc =>
    if d.length < 40 then (acc ++ List.replicate (n+1) entry0, none) else
    let t := (d.drop 32).take 1
    if !(t == [1] || t == [3] || t == [5]) then (acc ++ List.replicate (n+1) entry0, none) else
    match readOptions (d.drop 38) true with
    | none => (acc ++ List.replicate (n+1) entry0, none)
    | some (_, r) =>
      entriesWalk n r (acc ++ [S [.arr 32, .scalar, .scalar, .scalar, mapShape (Mapping.readMapping (d.drop 38))]])

/-- `ReadMetaLeaseSet` after the options -/
def metaTail (D O M : Shape) (r : Bytes) (sigT : Nat) : Option Obs :=
  let mk (N : Shape) : Shape := S [D, .scalar, .scalar, .scalar, O, M, .scalar, N, sig0]
  match r with
  | [] => some ⟨false, mk .nil⟩
  | ne :: r =>
    if ne.toNat < 1 ∨ ne.toNat > 16 then some ⟨false, mk .nil⟩ else
    match entriesWalk ne.toNat r [] with
    | (es, none) => some ⟨false, mk (E es)⟩
    | (es, some r) =>
      match readSig r sigT with
      | none => some ⟨false, mk (E es)⟩
      | some _ => none

/-- `meta_leaseset.ReadMetaLeaseSet` -/
def stopMeta (d : Bytes) : Option Obs :=
  stopHdr 505 meta0 (fun D O M => S [D, .scalar, .scalar, .scalar, O, M, .scalar, .nil, sig0]) metaTail d

/-- `parseRouterAddresses`: pointers to the addresses read so far (`var addresses` stays nil until the first
    `append`); the remainder when all `n` were read -/
def addrsWalk : Nat → Bytes → List Shape → List Shape × Option Bytes
  | 0, d, acc => (acc, some d)
  | n+1, d, acc =>
    match readRouterAddress d with
    | none => (acc, none)
    | some (_, r) => addrsWalk n r (acc ++ [raOk d])

def addrsField (l : List Shape) : Shape := if l.isEmpty then .nil else E l

/-- `router_info.ReadRouterInfo`.  `NewInteger` on an empty buffer yields a pointer to an empty Integer and a
    nil remainder, so a buffer that ends right after the date gives `size = &b0`, `peer_size = &nil`. -/
def stopRI (d : Bytes) : Option Obs :=
  match readRouterIdentity d with
  | none => some ⟨true, ri0⟩
  | some (k, r) =>
    let R := ridOk k
    if r.length < 8 then some ⟨false, S [R, .nil, .nil, .nil, .nil, .nil, .nil]⟩ else
    let date : Shape := .ptr (.arr 8)
    let r := r.drop 8
    match r with
    | [] => some ⟨false, S [R, date, .ptr (.bytes 0), .nil, .ptr .nil, .ptr map0, .nil]⟩
    | n :: r =>
      let size : Shape := .ptr (.bytes 1)
      match addrsWalk n.toNat r [] with
      | (as, none) => some ⟨false, S [R, date, size, addrsField as, .nil, .nil, .nil]⟩
      | (as, some r) =>
        match r with
        | [] => some ⟨false, S [R, date, size, addrsField as, .ptr (.bytes 0), .ptr map0, .nil]⟩
        | _ :: r =>
          let m := Mapping.readMapping r
          let mk (sg : Shape) : Shape := S [R, date, size, addrsField as, .ptr (.bytes 1), .ptr (mapShape m), sg]
          if !Mapping.accepted m then some ⟨false, mk .nil⟩ else
          let sigT := if (d.drop 384).take 1 == [5] then k.kc.spk else 0
          match readSig m.rem sigT with
          | none => some ⟨false, mk .nil⟩
          | some _ => none

/-! ### shape classes

The explicit, finite lists the theorems of `Props/C20b.lean` range over.  A class fixes the nil-structure;
what it leaves open is named in `Shape.cls`: the length of every byte string (`b*`), the length of every
plain slice (`[*]`), the dynamic type under an interface (`i*`), and how often an element class occurs in an
element list.  -/

/-- an accepted identity: everything present; the padding slice is nil exactly when the two keys fill the
    384-byte block (ElGamal + DSA-SHA1) -/
def kacClsPad : Shape := .ptr (S [.ptr (S [S [.bstar, .bstar, .bstar], .bstar, .bstar]), .iface .any, .bstar, .iface .any])
def kacClsNoPad : Shape := .ptr (S [.ptr (S [S [.bstar, .bstar, .bstar], .bstar, .bstar]), .iface .any, .nil, .iface .any])
def kacClasses : List Shape := [kacClsPad, kacClsNoPad]
def offCls : Shape := S [.scalar, .scalar, .bstar, .bstar, .scalar]
/-- the offline-block field of a value whose header parsed: absent or complete -/
def offClasses : List Shape := [.nil, .ptr offCls]
/-- an accepted mapping: size and values present -/
def mapOkCls : Shape := S [.ptr .bstar, .ptr .sstar]
/-- a mapping that has a size but whose values were never built (no body at all) -/
def mapNoValsCls : Shape := S [.ptr .bstar, .nil]
def keyOkCls : Shape := S [.scalar, .scalar, .bstar]
def entryOkCls : Shape := S [.arr 32, .scalar, .scalar, .scalar, mapOkCls]
def raOkCls : Shape := .ptr (S [.ptr .bstar, .ptr (.arr 8), .bstar, .ptr mapOkCls])
def EC (l : List Shape) : Shape := .elems (ofList l)

def shapes_ReadI2PString : List Shape := [.nil, .bstar]
def shapes_ReadMapping : List Shape := [map0, mapNoValsCls, mapOkCls]
def shapes_NewMapping : List Shape := [.ptr map0, .ptr mapNoValsCls, .ptr mapOkCls]
def shapes_ReadOfflineSignature : List Shape := [off0, S [.scalar, .scalar, .bstar, .nil, .scalar]]
def shapes_ReadKeysAndCertFast : List Shape := [.nil, .ptr (S [.nil, .iface .any, .bstar, .iface .any])]
def shapes_ReadRouterAddress : List Shape :=
  [ra0, S [.ptr .bstar, .ptr (.arr 8), .nil, .nil]] ++
  [map0, mapNoValsCls, mapOkCls].map fun M => S [.ptr .bstar, .ptr (.arr 8), .bstar, .ptr M]

def elsMk (K O I : Shape) : Shape := S [.scalar, K, .scalar, .scalar, .scalar, O, .scalar, I, sig0]
def shapes_ReadEncryptedLeaseSet : List Shape :=
  [els0, elsMk .bstar .nil .nil, elsMk .bstar (.ptr offCls) .nil, elsMk .bstar .nil .bstar, elsMk .bstar (.ptr offCls) .bstar]

def ls2Mk (D O M K L : Shape) : Shape := S [D, .scalar, .scalar, .scalar, O, M, K, L, sig0]
def shapes_ReadLeaseSet2 : List Shape :=
  ls20 :: kacClasses.flatMap fun kc =>
    let D := S [kc]
    [ls2Mk D .nil map0 .nil .nil, ls2Mk D (.ptr offCls) map0 .nil .nil] ++
    offClasses.flatMap fun O =>
      [ls2Mk D O mapOkCls .nil .nil, ls2Mk D O mapOkCls (EC [key0]) .nil, ls2Mk D O mapOkCls (EC [keyOkCls, key0]) .nil,
       ls2Mk D O mapOkCls (EC [keyOkCls]) .nil, ls2Mk D O mapOkCls (EC [keyOkCls]) .sstar]

def metaMk (D O M N : Shape) : Shape := S [D, .scalar, .scalar, .scalar, O, M, .scalar, N, sig0]
def shapes_ReadMetaLeaseSet : List Shape :=
  meta0 :: kacClasses.flatMap fun kc =>
    let D := S [kc]
    [metaMk D .nil map0 .nil, metaMk D (.ptr offCls) map0 .nil] ++
    offClasses.flatMap fun O =>
      [metaMk D O mapOkCls .nil, metaMk D O mapOkCls (EC [entry0]), metaMk D O mapOkCls (EC [entryOkCls, entry0]),
       metaMk D O mapOkCls (EC [entryOkCls])]

def riMk (R dt sz A P M : Shape) : Shape := S [R, dt, sz, A, P, M, .nil]
def shapes_ReadRouterInfo : List Shape :=
  ri0 :: kacClasses.flatMap fun kc =>
    let R : Shape := .ptr (S [kc])
    let dt : Shape := .ptr (.arr 8)
    [riMk R .nil .nil .nil .nil .nil, riMk R dt (.ptr .bstar) .nil (.ptr .nil) (.ptr map0)] ++
    [Shape.nil, EC [raOkCls]].flatMap fun A =>
      [riMk R dt (.ptr .bstar) A .nil .nil, riMk R dt (.ptr .bstar) A (.ptr .bstar) (.ptr map0),
       riMk R dt (.ptr .bstar) A (.ptr .bstar) (.ptr mapNoValsCls), riMk R dt (.ptr .bstar) A (.ptr .bstar) (.ptr mapOkCls)]

end I2P.FailShape
