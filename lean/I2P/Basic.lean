def hello := "world"
