import I2P.Structs
/-! Checked ("can it panic?") mirrors of the Go parsers of go-i2p/common.

    The pure models (`Data.lean`, `Kac.lean`, `Structs.lean`) use total `List.take/drop` and therefore
    cannot express a Go run-time panic.  This file transcribes the same Go functions a second time,
    slice expression by slice expression, in the monad `Go α = Except Panic α`, with Go's bounds checks
    made explicit.  `Props/C04.lean` proves that no reader ever returns `.error _` and that every reader
    returns exactly what the pure model returns.

    Go `int` values are `Int` (sizes are tiny, 64-bit overflow is not modelled); a slice is a window on
    an underlying array, exactly as in Go (`Sl`), so `s[lo:hi]` is legal up to the *capacity*.
    Core-only. -/

namespace I2P.Checked
open I2P I2P.Spec I2P.Kac

/-! ### The panic monad -/

inductive Panic
  | sliceOOB      -- "slice bounds out of range"
  | indexOOB      -- "index out of range"
  | nilDeref      -- "invalid memory address or nil pointer dereference"
  | negativeLen   -- "makeslice: len out of range"
deriving DecidableEq, Repr

abbrev Go (α : Type) := Except Panic α

/-! ### Go slices -/

/-- A Go `[]byte`: a window `[off, off+len)` on the underlying array `arr`; the capacity extends to the
    end of the array (three-index slices do not occur in the mirrored code). -/
structure Sl where
  arr : Bytes
  off : Nat
  len : Nat
  wf : off + len ≤ arr.length

namespace Sl
/-- `cap(s)` -/
def cap (s : Sl) : Nat := s.arr.length - s.off
/-- the visible elements `s[0], …, s[len-1]` -/
def data (s : Sl) : Bytes := (s.arr.drop s.off).take s.len
/-- the caller's buffer seen as a slice with `cap = len` (the tightest, most panic-prone view) -/
def ofBytes (b : Bytes) : Sl := ⟨b, 0, b.length, by simp⟩
/-- the `nil` slice (`len = cap = 0`) -/
def nil : Sl := ofBytes []
/-- `len(s)` as a Go `int` -/
def ilen (s : Sl) : Int := s.len
end Sl

/-- overwrite `a[off ..]` with `v` (clipped at the end of `a`); the length never changes -/
def write (a : Bytes) (off : Nat) (v : Bytes) : Bytes :=
  a.take off ++ v.take (a.length - off) ++ a.drop (off + v.length)

theorem write_length (a : Bytes) (off : Nat) (v : Bytes) : (write a off v).length = a.length := by
  simp only [write, List.length_append, List.length_take, List.length_drop]; omega

/-- `s[i]` -/
def index (s : Sl) (i : Int) : Go UInt8 :=
  if 0 ≤ i ∧ i < s.len then .ok (s.data.getD i.toNat 0) else .error .indexOOB

/-- `s[lo:hi]`: Go requires `0 ≤ lo ≤ hi ≤ cap(s)` -/
def slice (s : Sl) (lo hi : Int) : Go Sl :=
  if h : 0 ≤ lo ∧ lo ≤ hi ∧ hi ≤ s.cap then
    .ok ⟨s.arr, s.off + lo.toNat, (hi - lo).toNat, by have := s.wf; simp only [Sl.cap] at h; omega⟩
  else .error .sliceOOB

/-- `s[lo:]` (= `s[lo:len(s)]`) -/
def sliceFrom (s : Sl) (lo : Int) : Go Sl := slice s lo s.len
/-- `s[:hi]` -/
def sliceTo (s : Sl) (hi : Int) : Go Sl := slice s 0 hi

/-- `make([]byte, n)`: zero-filled, `len = cap = n`; panics for a negative length -/
def mk (n : Int) : Go Sl :=
  if 0 ≤ n then .ok ⟨List.replicate n.toNat 0, 0, n.toNat, by simp⟩ else .error .negativeLen

/-- `copy(dst, src)`: never panics, copies `min(len(dst), len(src))` bytes.  The result is `dst` after
    the write (Go returns the count, which none of the mirrored functions uses). -/
def copy (dst src : Sl) : Sl :=
  ⟨write dst.arr dst.off (src.data.take dst.len), dst.off, dst.len, by rw [write_length]; exact dst.wf⟩

/-- the statement `copy(p[lo:hi], src)`: the slice expression may panic; the result is `p` after the
    write (the sub-slice shares `p`'s array). -/
def copyAt (p : Sl) (lo hi : Int) (src : Sl) : Go Sl := do
  let dst ← slice p lo hi
  .ok ⟨write p.arr dst.off (src.data.take dst.len), p.off, p.len, by rw [write_length]; exact p.wf⟩

/-- `binary.BigEndian.Uint16(b)`: starts with the bounds-check hint `_ = b[1]` -/
def beUint16 (b : Sl) : Go Nat := do let _ ← index b 1; .ok (beVal (b.data.take 2))
/-- `binary.BigEndian.Uint32(b)`: `_ = b[3]` -/
def beUint32 (b : Sl) : Go Nat := do let _ ← index b 3; .ok (beVal (b.data.take 4))
/-- `binary.BigEndian.Uint64(b)`: `_ = b[7]` -/
def beUint64 (b : Sl) : Go Nat := do let _ ← index b 7; .ok (beVal (b.data.take 8))

/-- `*p` / `p.field` on a pointer that may be nil -/
def deref {α : Type} (p : Option α) : Go α :=
  match p with
  | some a => .ok a
  | none => .error .nilDeref


/-- `copy(p[lo:], src)` -/
def copyFrom (p : Sl) (lo : Int) (src : Sl) : Go Sl := copyAt p lo p.len src
/-- `copy(p[:hi], src)` -/
def copyTo (p : Sl) (hi : Int) (src : Sl) : Go Sl := copyAt p 0 hi src

/-- `l[i] = v` on a slice of structs -/
def setAt {α : Type} (l : List α) (i : Int) (v : α) : Go (List α) :=
  if 0 ≤ i ∧ i < l.length then .ok (l.set i.toNat v) else .error .indexOOB

/-! ### data/integer.go, data/utils.go -/

/-- `data.ReadInteger(bytes, size)`; `none` is the nil Integer, `Sl.nil` the nil remainder -/
def readIntegerC (bytes : Sl) (size : Int) : Go (Option Sl × Sl) := do
  if size ≤ 0 ∨ size > 8 then return (none, bytes) else
  if bytes.ilen < size then return (some bytes, Sl.nil) else
  let i ← sliceTo bytes size
  let r ← sliceFrom bytes size
  return (some i, r)

/-- `intFromBytes(number)`; `none` = error -/
def intFromBytesC (number : Sl) : Go (Option Int) := do
  let numLen := number.ilen
  if numLen = 0 then return none else
  let number ← (if numLen < 8 then do
      let paddedNumber ← mk 8
      copyFrom paddedNumber (8 - numLen) number
    else pure number)
  let v ← beUint64 number
  return some (toInt64 v)

/-- `Integer.Int()` (`i.Bytes()` is `i[:]`); a nil Integer behaves like the empty slice -/
def integerIntC (i : Sl) : Go Int := do
  let b ← slice i 0 i.ilen
  match ← intFromBytesC b with
  | none => return 0
  | some v => return v

/-- `Integer.Int()` on an Integer that may be nil -/
def integerIntC' (i : Option Sl) : Go Int := integerIntC (i.getD Sl.nil)

/-! ### data/string.go -/

/-- the errors `ReadI2PString` can return; `lengthRead` ("failed to read I2PString length") has no
    counterpart in the pure model because it is unreachable -/
inductive StrErrC | zero | short | mismatch | lengthRead
deriving DecidableEq, Repr

def StrErrC.ofPure : StrErr → StrErrC
  | .zero => .zero | .short => .short | .mismatch => .mismatch

/-- `validateI2PStringData`: `true` = no error -/
def validateI2PStringDataC (data : Sl) : Bool := data.ilen ≠ 0

/-- `parseI2PStringLength` -/
def parseI2PStringLengthC (data : Sl) : Go (Option Int) := do
  let (l, _) ← readIntegerC data 1
  match l with
  | none => return none
  | some l => return some (← integerIntC l)

/-- `validateI2PStringDataLength`: `true` = no error -/
def validateI2PStringDataLengthC (data : Sl) (length : Int) : Bool := ¬ (length + 1 > data.ilen)

/-- `extractI2PStringData` -/
def extractI2PStringDataC (data : Sl) (length : Int) : Go (Sl × Sl) := do
  let data_len := length + 1
  let str ← sliceTo data data_len
  let remainder ← sliceFrom data data_len
  return (str, remainder)

/-- `verifyI2PStringLength` -/
def verifyI2PStringLengthC (str : Sl) (expectedLength : Int) : Option StrErrC :=
  if str.ilen = 0 then some .zero
  else if str.ilen - 1 ≠ expectedLength then some .mismatch else none

/-- `data.ReadI2PString` -/
def readStrS (data : Sl) : Go (Sl × Sl × Option StrErrC) := do
  if !validateI2PStringDataC data then return (Sl.nil, Sl.nil, some .zero) else
  match ← parseI2PStringLengthC data with
  | none => return (Sl.nil, Sl.nil, some .lengthRead)
  | some length =>
  if !validateI2PStringDataLengthC data length then return (data, Sl.nil, some .short) else
  let (str, remainder) ← extractI2PStringDataC data length
  return (str, remainder, verifyI2PStringLengthC str length)

/-! ### data/date.go, data/hash.go -/

/-- `data.ReadDate`; the success log line evaluates `date.Int()` -/
def readDateS (data : Sl) : Go (Option (Bytes × Sl)) := do
  if data.ilen < 8 then return none else
  let date ← mk 8                                   -- var date [8]byte
  let date := copy date (← sliceTo data 8)
  let remainder ← sliceFrom data 8
  let _ ← integerIntC date
  return some (date.data, remainder)

/-- `data.ReadHash` -/
def readHashS (data : Sl) : Go (Option (Bytes × Sl)) := do
  if data.ilen < 32 then return none else
  let h ← mk 32                                      -- var h Hash
  let h := copy h (← sliceTo data 32)
  return some (h.data, ← sliceFrom data 32)

/-! ### certificate/certificate.go, certificate/certificate_struct.go

    `kind`, `len` and `payload` of a parsed certificate are fresh `make`d copies (`cap = len`), so they are
    kept as `Bytes` in `Kac.Cert` and re-wrapped with `Sl.ofBytes` when the Go code slices them. -/

/-- `(*Certificate).IsValid()` for a non-nil receiver -/
def certIsValidC (c : Cert) : Bool := c.kind.length ≠ 0 && c.len.length ≠ 0

/-- `handleEmptyCertificateData`: always an error (`false`); the log line evaluates `kind.Int()` -/
def handleEmptyCertificateDataC : Go (Cert × Bool) := do
  let c : Cert := { kind := [0], len := [0, 0], payload := [] }
  let _ ← integerIntC (.ofBytes c.kind)
  return (c, false)

/-- `handleShortCertificateData`: always an error -/
def handleShortCertificateDataC (bytes : Sl) : Go (Cert × Bool) := do
  let kind ← (if bytes.ilen ≥ 1 then do let k ← sliceTo bytes 1; pure k.data else pure [0])
  let len ← (if bytes.ilen ≥ 2 then do let l ← sliceFrom bytes 1; pure l.data else pure [0, 0])
  let c : Cert := { kind := kind, len := len, payload := [] }
  let _ ← integerIntC (.ofBytes c.kind)
  return (c, false)

/-- `validateCertificatePayloadLength`: `true` = no error; the error log line evaluates
    `bytes[0:1]` and `bytes[1:3]` -/
def validateCertificatePayloadLengthC (c : Cert) (bytes : Sl) : Go Bool := do
  if (← integerIntC (.ofBytes c.len)) > bytes.ilen - 3 then
    let _ ← integerIntC (.ofBytes c.len)
    let _ ← slice bytes 0 1
    let _ ← slice bytes 1 3
    return false
  else return true

/-- `handleValidCertificateData` -/
def handleValidCertificateDataC (bytes : Sl) : Go (Cert × Bool) := do
  let kindCopy ← mk 1
  let kindCopy := copy kindCopy (← slice bytes 0 1)
  let lenCopy ← mk (3 - 1)
  let lenCopy := copy lenCopy (← slice bytes 1 3)
  let payloadLength := bytes.ilen - 3
  let payloadCopy ← mk payloadLength
  let payloadCopy := copy payloadCopy (← sliceFrom bytes 3)
  let c : Cert := { kind := kindCopy.data, len := lenCopy.data, payload := payloadCopy.data }
  if !(← validateCertificatePayloadLengthC c bytes) then return (c, false) else
  let _ ← integerIntC (.ofBytes c.kind)
  let _ ← integerIntC (.ofBytes c.len)
  return (c, true)

/-- `parseCertificateFromData` -/
def parseCertificateFromDataC (bytes : Sl) : Go (Cert × Bool) :=
  if bytes.ilen = 0 then handleEmptyCertificateDataC
  else if bytes.ilen = 1 ∨ bytes.ilen = 2 then handleShortCertificateDataC bytes
  else handleValidCertificateDataC bytes

/-- `validateTypeSpecificPayload`: only a warning; evaluates `kind.Int()` and `len.Int()` -/
def validateTypeSpecificPayloadC (c : Cert) : Go Unit := do
  let _ ← integerIntC (.ofBytes c.kind)
  let _ ← integerIntC (.ofBytes c.len)
  return ()

/-- `(*Certificate).length()` -/
def certLengthC (c : Cert) : Go Int := do
  if !certIsValidC c then return 0 else
  let declaredLen ← integerIntC (.ofBytes c.len)
  let actualPayloadLen : Int := c.payload.length
  let payloadLen := if actualPayloadLen < declaredLen then actualPayloadLen else declaredLen
  return 3 + payloadLen

/-- `calculateRemainder` -/
def calculateRemainderC (data : Sl) (c : Cert) : Go Sl := do
  let certLength ← certLengthC c
  if data.ilen > certLength then sliceFrom data certLength else return Sl.nil

/-- `certificate.ReadCertificate`; `none` = error (nil certificate) -/
def readCertS (data : Sl) : Go (Option (Cert × Sl)) := do
  let (cert, ok) ← parseCertificateFromDataC data
  if !ok then return none else
  validateTypeSpecificPayloadC cert
  let remainder ← calculateRemainderC data cert
  let _ ← certLengthC cert                           -- logCertificateReadCompletion
  return some (cert, remainder)

/-- `(*Certificate).Type()`; `none` = error -/
def certTypeC (c : Cert) : Go (Option Int) := do
  if !certIsValidC c then return none else
  let certType ← integerIntC (.ofBytes c.kind)
  if certType < 0 ∨ certType > 255 then return none else return some certType

/-- `(*Certificate).Length()`; `none` = error -/
def certLengthFieldC (c : Cert) : Go (Option Int) := do
  if !certIsValidC c then return none else
  let length ← integerIntC (.ofBytes c.len)
  if length < 0 ∨ length > 65535 then return none else return some length

/-- `(*Certificate).Data()`; `none` = error -/
def certDataC (c : Cert) : Go (Option Sl) := do
  match ← certLengthFieldC c with
  | none => return none
  | some length =>
    let payload := Sl.ofBytes c.payload
    if length > payload.ilen then return some payload
    else return some (← slice payload 0 length)

/-! ### key_certificate/key_certificate_struct.go -/

/-- `validateKeyCertificateType`: `true` = no error -/
def validateKeyCertificateTypeC (c : Cert) : Go Bool := do
  match ← certTypeC c with
  | none => return false
  | some kind => return (kind = 5)

/-- `validateKeyCertificateDataLength`: `true` = no error; the log line evaluates `certData[0:2]`, `certData[2:4]` -/
def validateKeyCertificateDataLengthC (certData : Sl) : Go Bool := do
  if certData.ilen < 4 then return false else
  let _ ← slice certData 0 2
  let _ ← slice certData 2 4
  return true

/-- `extractKeyTypes`; the log line evaluates both `Int()`s -/
def extractKeyTypesC (certData : Sl) : Go (Option Sl × Option Sl) := do
  let (spkType, _) ← readIntegerC (← slice certData 0 2) 2
  let (cpkType, _) ← readIntegerC (← slice certData 2 4) 2
  let _ ← integerIntC' cpkType
  let _ ← integerIntC' spkType
  return (spkType, cpkType)

/-- `validatePayloadLengthAgainstKeyTypes`: only a warning; evaluates both `Int()`s -/
def validatePayloadLengthAgainstKeyTypesC (spkType cpkType : Option Sl) : Go Unit := do
  let _ ← integerIntC' spkType
  let _ ← integerIntC' cpkType
  return ()

/-- `buildKeyCertificate`: `Kac.KeyCert` stores the two types as the numbers `SpkType.Int()`,
    `CpkType.Int()` (both evaluated here by the log line) -/
def buildKeyCertificateC (c : Cert) (spkType cpkType : Option Sl) : Go KeyCert := do
  let spk ← integerIntC' spkType
  let cpk ← integerIntC' cpkType
  return { cert := c, spk := spk.toNat, cpk := cpk.toNat }

/-- `key_certificate.NewKeyCertificate` -/
def newKeyCertS (bytes : Sl) : Go (Option (KeyCert × Sl)) := do
  match ← readCertS bytes with                       -- parseBaseCertificate
  | none => return none
  | some (cert, remainder) =>
  if !(← validateKeyCertificateTypeC cert) then return none else
  match ← certDataC cert with
  | none => return none
  | some certData =>
  if !(← validateKeyCertificateDataLengthC certData) then return none else
  let (spkType, cpkType) ← extractKeyTypesC certData
  validatePayloadLengthAgainstKeyTypesC spkType cpkType
  return some (← buildKeyCertificateC cert spkType cpkType, remainder)

/-- `KeyCertificate.ConstructPublicKey(data)`: the key bytes, `none` = error -/
def constructPublicKeyC (kc : KeyCert) (data : Sl) : Go (Option Bytes) := do
  let key_type : Int := kc.cpk
  if data.ilen < 256 then return none else
  if key_type = 0 then
    let elg_key ← mk 256                             -- var elg_key elgamal.ElgPublicKey
    let elg_key := copy elg_key (← slice data 0 256)
    return some elg_key.data
  else if key_type = 4 ∨ key_type = 5 ∨ key_type = 6 ∨ key_type = 7 then
    let curve25519_key ← mk 32
    let curve25519_key := copy curve25519_key (← slice data 0 32)
    return some curve25519_key.data
  else return none

/-- `constructDSAKey` / `constructECDSAP256Key` / `constructECDSAP384Key` share this shape
    (`keySize` = 128 / 64 / 96, the field size is `KEYCERT_SPK_SIZE = 128`) -/
def constructPaddedKeyC (keySize : Int) (data : Sl) : Go (Option Bytes) := do
  if data.ilen < keySize then return none else
  let key ← mk keySize                               -- var key [keySize]byte
  if data.ilen ≥ 128 then
    let key := copy key (← slice data (128 - keySize) 128)
    return some key.data
  else
    let key := copy key (← sliceTo data keySize)
    return some key.data

/-- `constructDSAKey` -/
def constructDSAKeyC (data : Sl) := constructPaddedKeyC 128 data
/-- `constructECDSAP256Key` -/
def constructECDSAP256KeyC (data : Sl) := constructPaddedKeyC 64 data
/-- `constructECDSAP384Key` -/
def constructECDSAP384KeyC (data : Sl) := constructPaddedKeyC 96 data

/-- `constructEd25519Key` / `constructEd25519PHKey`; `ed25519.NewEd25519PublicKey` (go-i2p/crypto)
    only checks `len(data) == 32` and wraps the slice -/
def constructEd25519KeyC (data : Sl) : Go (Option Bytes) := do
  if data.ilen ≠ 32 then return none else
  let keyBytes ← mk data.ilen
  let keyBytes := copy keyBytes data
  if keyBytes.ilen ≠ 32 then return none else return some keyBytes.data

/-- `selectSigningKeyConstructor` -/
def selectSigningKeyConstructorC (signing_key_type : Int) (data : Sl) : Go (Option Bytes) :=
  if signing_key_type = 0 then constructDSAKeyC data
  else if signing_key_type = 1 then constructECDSAP256KeyC data
  else if signing_key_type = 2 then constructECDSAP384KeyC data
  else if signing_key_type = 3 ∨ signing_key_type = 4 ∨ signing_key_type = 5 ∨ signing_key_type = 6 then return none
  else if signing_key_type = 7 then constructEd25519KeyC data
  else if signing_key_type = 8 then constructEd25519KeyC data
  else if signing_key_type = 11 then constructEd25519KeyC data
  else return none

/-- `KeyCertificate.ConstructSigningPublicKey(data)` -/
def constructSigningPublicKeyC (kc : KeyCert) (data : Sl) : Go (Option Bytes) := do
  let signing_key_type : Int := kc.spk
  if data.ilen < (sigPubSize kc.spk : Int) then return none else   -- validateSigningKeyData
  selectSigningKeyConstructorC signing_key_type data

/-! ### keys_and_cert/keys_and_cert_struct.go -/

/-- `parseKeyCertificateFromData(data, offset)` -/
def parseKeyCertificateFromDataC (data : Sl) (offset : Int) : Go (Option (KeyCert × Sl)) := do
  newKeyCertS (← sliceFrom data offset)

/-- `constructPublicKeyFromCert` -/
def constructPublicKeyFromCertC (kc : KeyCert) (data : Sl) : Go (Option Bytes) := do
  let pubKeySize : Int := cryptoSize kc.cpk
  if pubKeySize = 0 then return none else
  if data.ilen < 256 then return none else
  constructPublicKeyC kc (← sliceTo data 256)

/-- `extractPaddingFromData(data, pubKeySize, sigKeySize)`; nil is `[]` -/
def extractPaddingFromDataC (data : Sl) (pubKeySize sigKeySize : Int) : Go Bytes := do
  let paddingSize := 384 - pubKeySize - sigKeySize
  if paddingSize ≤ 0 then return [] else
  let padding ← mk paddingSize
  let pubPaddingSize := 256 - pubKeySize
  let sigPaddingSize := 128 - sigKeySize
  let padding ← (if pubPaddingSize > 0 then do
      copyTo padding pubPaddingSize (← slice data pubKeySize 256)
    else pure padding)
  let padding ← (if sigPaddingSize > 0 then do
      copyFrom padding pubPaddingSize (← slice data 256 (256 + sigPaddingSize))
    else pure padding)
  return padding.data

/-- `constructSigningKeyFromCert` -/
def constructSigningKeyFromCertC (kc : KeyCert) (data : Sl) (sigKeySize : Int) : Go (Option Bytes) := do
  if sigKeySize ≤ 0 then return none else
  if sigKeySize > 128 then return none else
  constructSigningPublicKeyC kc (← slice data (384 - sigKeySize) 384)

/-- `readKeysAndCertNonKeyCert` -/
def readKeysAndCertNonKeyCertC (rawData : Sl) (certType : Int) : Go (Option (KeysAndCert × Sl)) := do
  if certType ≠ 0 then return none else
  match ← readCertS (← sliceFrom rawData 384) with
  | none => return none
  | some (cert, remainder) =>
  let keyCert : KeyCert := { cert := cert, spk := 0, cpk := 0 }   -- buildNullCertKeyCertificate
  match ← constructPublicKeyFromCertC keyCert rawData with
  | none => return none
  | some pubKey =>
  let sigKeySize : Int := sigPubSize keyCert.spk
  let pubKeySize : Int := cryptoSize keyCert.cpk
  let padding ← extractPaddingFromDataC rawData pubKeySize sigKeySize
  match ← constructSigningKeyFromCertC keyCert rawData sigKeySize with
  | none => return none
  | some sigKey =>
  return some ({ kc := keyCert, pub := pubKey, padding := padding, sig := sigKey }, remainder)

/-- `keys_and_cert.ReadKeysAndCert` (current order: the signing key is validated before the padding
    is extracted) -/
def readKacS (data : Sl) : Go (Option (KeysAndCert × Sl)) := do
  if data.ilen < 387 then return none else
  let certType : Int := (← index data 384).toNat
  if certType ≠ 5 then readKeysAndCertNonKeyCertC data certType else
  match ← parseKeyCertificateFromDataC data 384 with
  | none => return none
  | some (keyCert, remainder) =>
  match ← constructPublicKeyFromCertC keyCert data with
  | none => return none
  | some pubKey =>
  let pubKeySize : Int := cryptoSize keyCert.cpk
  let sigKeySize : Int := sigPubSize keyCert.spk
  match ← constructSigningKeyFromCertC keyCert data sigKeySize with
  | none => return none
  | some sigKey =>
  let padding ← extractPaddingFromDataC data pubKeySize sigKeySize
  return some ({ kc := keyCert, pub := pubKey, padding := padding, sig := sigKey }, remainder)

/-- `keys_and_cert.ReadKeysAndCert` as it was BEFORE commit 706c093: the padding is extracted before
    the signing key size is validated -/
def readKacPrefixS (data : Sl) : Go (Option (KeysAndCert × Sl)) := do
  if data.ilen < 387 then return none else
  let certType : Int := (← index data 384).toNat
  if certType ≠ 5 then readKeysAndCertNonKeyCertC data certType else
  match ← parseKeyCertificateFromDataC data 384 with
  | none => return none
  | some (keyCert, remainder) =>
  match ← constructPublicKeyFromCertC keyCert data with
  | none => return none
  | some pubKey =>
  let pubKeySize : Int := cryptoSize keyCert.cpk
  let sigKeySize : Int := sigPubSize keyCert.spk
  let padding ← extractPaddingFromDataC data pubKeySize sigKeySize
  match ← constructSigningKeyFromCertC keyCert data sigKeySize with
  | none => return none
  | some sigKey =>
  return some ({ kc := keyCert, pub := pubKey, padding := padding, sig := sigKey }, remainder)

/-- `extractElGamalPublicKey` -/
def extractElGamalPublicKeyC (data : Sl) (pubKeySize : Int) : Go (Option Bytes) := do
  if data.ilen < pubKeySize then return none else
  let elgPublicKey ← mk 256                          -- var elgPublicKey elgamal.ElgPublicKey
  let elgPublicKey := copy elgPublicKey (← sliceTo data pubKeySize)
  return some elgPublicKey.data

/-- `extractPaddingData` -/
def extractPaddingDataC (data : Sl) (paddingStart paddingEnd : Int) : Go Bytes := do
  let padding ← mk (paddingEnd - paddingStart)
  let padding := copy padding (← slice data paddingStart paddingEnd)
  return padding.data

/-- `extractEd25519SigningKey` -/
def extractEd25519SigningKeyC (data : Sl) (offset sigKeySize : Int) : Go (Option Bytes) := do
  if offset + sigKeySize > data.ilen then return none else
  let signingPubKeyData ← mk sigKeySize
  let signingPubKeyData := copy signingPubKeyData (← slice data offset (offset + sigKeySize))
  if signingPubKeyData.ilen ≠ 32 then return none else return some signingPubKeyData.data

/-- `extractKeyCertificate` -/
def extractKeyCertificateC (data : Sl) (totalKeySize : Int) : Go (Option (KeyCert × Sl)) := do
  newKeyCertS (← sliceFrom data totalKeySize)

/-- `requireKeyTypes`: `true` = no error -/
def requireKeyTypesC (kc : KeyCert) (signingType cryptoType : Int) : Bool :=
  ¬ ((kc.spk : Int) ≠ signingType ∨ (kc.cpk : Int) ≠ cryptoType)

/-- `ReadKeysAndCertElgAndEd25519` -/
def readKacElgEdS (data : Sl) : Go (Option (KeysAndCert × Sl)) := do
  let pubKeySize : Int := 256
  let sigKeySize : Int := 32
  let totalKeySize : Int := 384
  let paddingSize := totalKeySize - pubKeySize - sigKeySize
  let minDataLength := totalKeySize + 3
  if data.ilen < minDataLength then return none else
  -- extractElgEd25519Keys
  match ← extractElGamalPublicKeyC data pubKeySize with
  | none => return none
  | some pubKey =>
  let paddingStart := pubKeySize
  let paddingEnd := paddingStart + paddingSize
  let padding ← extractPaddingDataC data paddingStart paddingEnd
  match ← extractEd25519SigningKeyC data paddingEnd sigKeySize with
  | none => return none
  | some sigKey =>
  match ← extractKeyCertificateC data totalKeySize with
  | none => return none
  | some (keyCert, remainder) =>
  if !requireKeyTypesC keyCert 7 0 then return none else
  return some ({ kc := keyCert, pub := pubKey, padding := padding, sig := sigKey }, remainder)

/-- `extractX25519PublicKey` -/
def extractX25519PublicKeyC (data : Sl) : Go (Option Bytes) := do
  if data.ilen < 256 then return none else
  let x25519Key ← mk 32
  let x25519Key := copy x25519Key (← slice data 0 32)
  return some x25519Key.data

/-- `ReadKeysAndCertX25519AndEd25519` -/
def readKacX25519EdS (data : Sl) : Go (Option (KeysAndCert × Sl)) := do
  let pubKeySize : Int := 32
  let sigKeySize : Int := 32
  let totalKeySize : Int := 384
  let minDataLength := totalKeySize + 3
  if data.ilen < minDataLength then return none else
  match ← extractX25519PublicKeyC data with
  | none => return none
  | some pubKey =>
  let padding ← extractPaddingFromDataC data pubKeySize sigKeySize
  let sigKeyOffset := totalKeySize - sigKeySize
  match ← extractEd25519SigningKeyC data sigKeyOffset sigKeySize with
  | none => return none
  | some sigKey =>
  match ← extractKeyCertificateC data totalKeySize with
  | none => return none
  | some (keyCert, remainder) =>
  if !requireKeyTypesC keyCert 7 4 then return none else
  return some ({ kc := keyCert, pub := pubKey, padding := padding, sig := sigKey }, remainder)

/-- `validateDestinationKeyTypes` after `ReadKeysAndCert` (`destination.ReadDestination`) -/
def readDestinationS (data : Sl) : Go (Option (KeysAndCert × Sl)) := do
  match ← readKacS data with
  | none => return none
  | some (k, remainder) =>
    if destAllowed k.kc.spk k.kc.cpk then return some (k, remainder) else return none


/-! ### signature/utils.go -/

/-- `getSignatureLength(sigType)`: `none` = error (out of the 16-bit range, reserved or unknown type) -/
def getSignatureLengthC (sigType : Int) : Option Int :=
  if sigType < 0 ∨ sigType > 65535 then none
  else if sigLen sigType.toNat = 0 then none else some (sigLen sigType.toNat : Int)

/-- `extractSignatureData` -/
def extractSignatureDataC (data : Sl) (sigLength : Int) : Go (Bytes × Sl) := do
  let sigData ← mk sigLength
  let sigData := copy sigData (← sliceTo data sigLength)
  let remainder ← sliceFrom data sigLength
  return (sigData.data, remainder)

/-- `signature.ReadSignature(data, sigType)` -/
def readSigS (data : Sl) (sigType : Int) : Go (Option (Bytes × Sl)) := do
  match getSignatureLengthC sigType with
  | none => return none
  | some sigLength =>
  if data.ilen < sigLength then return none else       -- validateSignatureData
  return some (← extractSignatureDataC data sigLength)

/-! ### offline_signature/offline_signature.go -/

structure OffSig where
  expires : Nat
  sigtype : Nat
  transientPublicKey : Bytes
  signature : Bytes
  destinationSigType : Nat
deriving Repr, DecidableEq

/-- what `OfflineSignature.Bytes()` emits (the serialiser itself is outside C04) -/
def OffSig.bytes (o : OffSig) : Bytes :=
  beEnc 4 o.expires ++ beEnc 2 o.sigtype ++ o.transientPublicKey ++ o.signature

/-- `parseOfflineSignatureHeader` -/
def parseOfflineSignatureHeaderC (data : Sl) : Go (Nat × Nat × Sl) := do
  let expires ← beUint32 (← slice data 0 4)
  let sigtype ← beUint16 (← slice data 4 6)
  return (expires, sigtype, ← sliceFrom data (4 + 2))

/-- `extractTransientPublicKey` / `extractSignature` (same shape) -/
def extractPrefixCopyC (data : Sl) (size : Int) : Go (Bytes × Sl) := do
  let out ← mk size
  let out := copy out (← sliceTo data size)
  return (out.data, ← sliceFrom data size)

/-- `offline_signature.ReadOfflineSignature(data, destinationSigType)` -/
def readOffSigS (data : Sl) (destinationSigType : Nat) : Go (Option (OffSig × Sl)) := do
  if data.ilen < 4 + 2 then return none else           -- validateMinimumOfflineSignatureData
  let (expires, sigtype, rem) ← parseOfflineSignatureHeaderC data
  let transientKeySize : Int := sigPubSize sigtype     -- validateTransientKeyType
  if transientKeySize = 0 then return none else
  if rem.ilen < transientKeySize then return none else -- validateTransientKeyData
  let (transientKey, rem) ← extractPrefixCopyC rem transientKeySize
  let signatureSize : Int := sigLen destinationSigType -- validateDestinationSignatureType
  if signatureSize = 0 then return none else
  if rem.ilen < signatureSize then return none else    -- validateSignatureData
  let (signature, remainder) ← extractPrefixCopyC rem signatureSize
  return some ({ expires := expires, sigtype := sigtype, transientPublicKey := transientKey,
                 signature := signature, destinationSigType := destinationSigType }, remainder)

/-! ### lease/utils.go, lease/lease2.go -/

/-- `lease.ReadLease`; the success log line evaluates `lease.TunnelID()` and `lease.Date().Time()` -/
def readLeaseS (data : Sl) : Go (Option (Bytes × Sl)) := do
  if data.ilen < 44 then return none else
  let lease ← mk 44                                  -- var lease Lease
  let lease := copy lease (← sliceTo data 44)
  let remainder ← sliceFrom data 44
  let _ ← beUint32 (← slice lease 32 (32 + 4))       -- TunnelID()
  let date ← mk 8                                    -- Date()
  let date := copy date (← sliceFrom lease (32 + 4))
  let _ ← integerIntC (← slice date 0 date.ilen)     -- Time(): Integer(date[:]).Int()
  return some (lease.data, remainder)

/-- `lease.ReadLease2`; the success log line evaluates `TunnelID()`, `Time()` and `EndDate()` -/
def readLease2S (data : Sl) : Go (Option (Bytes × Sl)) := do
  if data.ilen < 40 then return none else
  let lease2 ← mk 40                                 -- var lease2 Lease2
  let lease2 := copy lease2 (← sliceTo data 40)
  let remainder ← sliceFrom data 40
  let _ ← beUint32 (← slice lease2 32 (32 + 4))      -- TunnelID()
  let _ ← beUint32 (← sliceFrom lease2 (32 + 4))     -- Time() → EndDate()
  let _ ← beUint32 (← sliceFrom lease2 (32 + 4))     -- EndDate()
  return some (lease2.data, remainder)

/-! ### lease_set2/lease_set2.go: the parse helpers of `ReadLeaseSet2` -/

structure EncKey where
  keyType : Nat
  keyLen : Nat
  keyData : Bytes
deriving Repr, DecidableEq

/-- what `LeaseSet2.Bytes()` emits for one encryption key -/
def EncKey.bytes (k : EncKey) : Bytes := beEnc 2 k.keyType ++ beEnc 2 k.keyLen ++ k.keyData

/-- the fields of `LeaseSet2` the parse helpers write (`destination` wraps a pointer: nil until parsed) -/
structure LS2 where
  destination : Option KeysAndCert := none
  published : Nat := 0
  expires : Nat := 0
  flags : Nat := 0
  offlineSignature : Option OffSig := none
  encryptionKeys : List (Option EncKey) := []
  leases : List Bytes := []
  signature : Bytes := []

/-- `HasOfflineKeys()`: `flags & 1 != 0` -/
def LS2.hasOfflineKeys (l : LS2) : Bool := l.flags % 2 = 1

/-- `parseHeaderFields` -/
def parseHeaderFieldsC (ls2 : LS2) (data : Sl) : Go (LS2 × Sl) := do
  let published ← beUint32 (← sliceTo data 4)
  let data ← sliceFrom data 4
  let expires ← beUint16 (← sliceTo data 2)
  let data ← sliceFrom data 2
  let flags ← beUint16 (← sliceTo data 2)
  let data ← sliceFrom data 2
  return ({ ls2 with published := published, expires := expires, flags := flags }, data)

/-- `parseDestinationAndHeader` (with `validateLeaseSet2MinSize`, `parseDestinationField`,
    `validateHeaderDataSize`) -/
def parseDestinationAndHeaderC (ls2 : LS2) (data : Sl) : Go (Option (LS2 × Sl)) := do
  if data.ilen < 499 then return none else
  match ← readDestinationS data with
  | none => return none
  | some (dest, rem) =>
  let ls2 := { ls2 with destination := some dest }
  if rem.ilen < 4 + 2 + 2 then return none else
  return some (← parseHeaderFieldsC ls2 rem)

/-- `parseOfflineSignature`; `ls2.destination.KeyCertificate.SigningPublicKeyType()` dereferences the
    destination pointer; `uint16(…)` truncates -/
def parseOfflineSignatureC (ls2 : LS2) (data : Sl) : Go (Option (LS2 × Sl)) := do
  if !ls2.hasOfflineKeys then return some (ls2, data) else
  let dest ← deref ls2.destination
  let destSigType : Nat := dest.kc.spk % 65536
  match ← readOffSigS data destSigType with
  | none => return none
  | some (offlineSig, rem) => return some ({ ls2 with offlineSignature := some offlineSig }, rem)

/-- `extractEncryptionKeyHeader` -/
def extractEncryptionKeyHeaderC (data : Sl) : Go (Nat × Nat × Sl) := do
  let keyType ← beUint16 (← sliceTo data 2)
  let data ← sliceFrom data 2
  let keyLen ← beUint16 (← sliceTo data 2)
  let data ← sliceFrom data 2
  return (keyType, keyLen, data)

/-- `extractEncryptionKeyData` -/
def extractEncryptionKeyDataC (data : Sl) (keyLen : Nat) : Go (Bytes × Sl) := do
  let keyData ← mk keyLen
  let keyData := copy keyData (← sliceTo data keyLen)
  let data ← sliceFrom data keyLen
  return (keyData.data, data)

/-- `storeEncryptionKey`: `ls2.encryptionKeys[keyIndex] = …` is an indexed store -/
def storeEncryptionKeyC (ls2 : LS2) (keyIndex : Int) (k : EncKey) : Go LS2 := do
  return { ls2 with encryptionKeys := ← setAt ls2.encryptionKeys keyIndex (some k) }

/-- `parseSingleEncryptionKey` -/
def parseSingleEncryptionKeyC (ls2 : LS2) (keyIndex : Int) (data : Sl) : Go (Option (LS2 × Sl)) := do
  if data.ilen < 2 + 2 then return none else           -- validateEncryptionKeyHeaderData
  let (keyType, keyLen, rem) ← extractEncryptionKeyHeaderC data
  if rem.ilen < (keyLen : Int) then return none else   -- validateEncryptionKeyDataLength
  let (keyData, remainder) ← extractEncryptionKeyDataC rem keyLen
  let ls2 ← storeEncryptionKeyC ls2 keyIndex { keyType := keyType, keyLen := keyLen, keyData := keyData }
  return some (ls2, remainder)

/-- the loop `for i := 0; i < numKeys; i++` of `parseEncryptionKeys`, from index `i`; `fuel` is the
    structural recursion argument (`numKeys - i` suffices).  The third component of the result is a ghost
    counter: the number of loop bodies executed. -/
def parseEncryptionKeysLoopC : (fuel : Nat) → (i numKeys : Int) → LS2 → Sl → Go (Option (LS2 × Sl × Nat))
  | 0, _, _, ls2, data => return some (ls2, data, 0)
  | fuel + 1, i, numKeys, ls2, data => do
    if ¬ (i < numKeys) then return some (ls2, data, 0) else
    match ← parseSingleEncryptionKeyC ls2 i data with
    | none => return none
    | some (ls2, data) =>
      match ← parseEncryptionKeysLoopC fuel (i + 1) numKeys ls2 data with
      | none => return none
      | some (ls2, data, n) => return some (ls2, data, n + 1)

/-- `parseEncryptionKeys` -/
def parseEncryptionKeysC (ls2 : LS2) (data : Sl) : Go (Option (LS2 × Sl)) := do
  if data.ilen < 1 then return none else
  let numKeys : Int := (← index data 0).toNat
  let data ← sliceFrom data 1
  if numKeys < 1 ∨ numKeys > 16 then return none else
  let ls2 := { ls2 with encryptionKeys := List.replicate numKeys.toNat none }   -- make([]EncryptionKey, numKeys)
  match ← parseEncryptionKeysLoopC numKeys.toNat 0 numKeys ls2 data with
  | none => return none
  | some (ls2, data, _) => return some (ls2, data)

/-- the loop of `parseLease2Array` from index `i` (`leases[i] = lease2` is an indexed store); ghost
    iteration counter as above -/
def parseLease2ArrayLoopC : (fuel : Nat) → (i numLeases : Int) → List Bytes → Sl → Go (Option (List Bytes × Sl × Nat))
  | 0, _, _, leases, data => return some (leases, data, 0)
  | fuel + 1, i, numLeases, leases, data => do
    if ¬ (i < numLeases) then return some (leases, data, 0) else
    match ← readLease2S data with
    | none => return none
    | some (lease2, rem) =>
      let leases ← setAt leases i lease2
      match ← parseLease2ArrayLoopC fuel (i + 1) numLeases leases rem with
      | none => return none
      | some (leases, data, n) => return some (leases, data, n + 1)

/-- `parseLease2Array` -/
def parseLease2ArrayC (numLeases : Int) (data : Sl) : Go (Option (List Bytes × Sl)) := do
  if numLeases < 0 then throw .negativeLen else        -- make([]lease.Lease2, numLeases)
  let leases : List Bytes := List.replicate numLeases.toNat []
  match ← parseLease2ArrayLoopC numLeases.toNat 0 numLeases leases data with
  | none => return none
  | some (leases, data, _) => return some (leases, data)

/-- `parseLeases` (with `validateLeaseCountData`, `validateLeaseCount`) -/
def parseLeasesC (ls2 : LS2) (data : Sl) : Go (Option (LS2 × Sl)) := do
  if data.ilen < 1 then return none else
  let numLeases : Int := (← index data 0).toNat
  let data ← sliceFrom data 1
  if numLeases > 16 then return none else
  match ← parseLease2ArrayC numLeases data with
  | none => return none
  | some (leases, remainder) => return some ({ ls2 with leases := leases }, remainder)

/-- `parseSignatureAndFinalize`: both branches dereference a pointer -/
def parseSignatureAndFinalizeC (ls2 : LS2) (data : Sl) : Go (Option (LS2 × Sl)) := do
  let sigType : Int ←
    (if ls2.hasOfflineKeys && ls2.offlineSignature.isSome then do
      let o ← deref ls2.offlineSignature
      pure (o.sigtype : Int)
    else do
      let dest ← deref ls2.destination
      pure (dest.kc.spk : Int))
  match ← readSigS data sigType with
  | none => return none
  | some (signature, rem) => return some ({ ls2 with signature := signature }, rem)

/-- `parseKeysLeasesAndSignature` -/
def parseKeysLeasesAndSignatureC (ls2 : LS2) (data : Sl) : Go (Option (LS2 × Sl)) := do
  match ← parseEncryptionKeysC ls2 data with
  | none => return none
  | some (ls2, data) =>
  match ← parseLeasesC ls2 data with
  | none => return none
  | some (ls2, data) => parseSignatureAndFinalizeC ls2 data

/-! ### encrypted_leaseset/encrypted_leaseset.go -/

structure ELS where
  sigType : Nat := 0
  blindedPublicKey : Bytes := []
  published : Nat := 0
  expires : Nat := 0
  flags : Nat := 0
  offlineSignature : Option OffSig := none
  innerLength : Nat := 0
  encryptedInnerData : Bytes := []
  signature : Bytes := []
  signatureType : Int := 0                              -- `sig.Signature.sigType`

/-- what `EncryptedLeaseSet.Bytes()` emits (the serialiser itself is outside C04) -/
def ELS.bytes (e : ELS) : Bytes :=
  beEnc 2 e.sigType ++ e.blindedPublicKey ++ (beEnc 4 e.published ++ beEnc 2 e.expires ++ beEnc 2 e.flags) ++
    (match e.offlineSignature with | none => [] | some o => o.bytes) ++
    beEnc 2 e.innerLength ++ e.encryptedInnerData ++ e.signature

/-- `HasOfflineKeys()`: `flags & 1 != 0` -/
def ELS.hasOfflineKeys (e : ELS) : Bool := e.flags % 2 = 1

/-- `parseSigType` (the map lookup `SigningKeySizes[int(sigType)]` succeeds iff the size is non-zero) -/
def elsParseSigTypeC (els : ELS) (data : Sl) : Go (Option (ELS × Sl)) := do
  if data.ilen < 2 then return none else
  let sigType ← beUint16 (← sliceTo data 2)
  let els := { els with sigType := sigType }
  if sigPubSize sigType = 0 then return none else
  return some (els, ← sliceFrom data 2)

/-- `parseBlindedPublicKey` -/
def elsParseBlindedPublicKeyC (els : ELS) (data : Sl) : Go (Option (ELS × Sl)) := do
  let keySize : Int := sigPubSize els.sigType
  if data.ilen < keySize then return none else
  let key ← mk keySize
  let key := copy key (← sliceTo data keySize)
  return some ({ els with blindedPublicKey := key.data }, ← sliceFrom data keySize)

/-- `parseHeaderFields`; `flags & 0xFFFC != 0` on a uint16 is `flags / 4 ≠ 0` -/
def elsParseHeaderFieldsC (els : ELS) (data : Sl) : Go (Option (ELS × Sl)) := do
  let headerSize : Int := 4 + 2 + 2
  if data.ilen < headerSize then return none else
  let published ← beUint32 (← sliceTo data 4)
  let data ← sliceFrom data 4
  let expires ← beUint16 (← sliceTo data 2)
  let data ← sliceFrom data 2
  let flags ← beUint16 (← sliceTo data 2)
  let data ← sliceFrom data 2
  let els := { els with published := published, expires := expires, flags := flags }
  if flags / 4 ≠ 0 then return none else
  return some (els, data)

/-- `parseOfflineSignature` -/
def elsParseOfflineSignatureC (els : ELS) (data : Sl) : Go (Option (ELS × Sl)) := do
  if !els.hasOfflineKeys then return some (els, data) else
  match ← readOffSigS data els.sigType with
  | none => return none
  | some (offlineSig, rem) => return some ({ els with offlineSignature := some offlineSig }, rem)

/-- `parseEncryptedInnerData` -/
def elsParseEncryptedInnerDataC (els : ELS) (data : Sl) : Go (Option (ELS × Sl)) := do
  if data.ilen < 2 then return none else
  let innerLength ← beUint16 (← sliceTo data 2)
  let els := { els with innerLength := innerLength }
  let data ← sliceFrom data 2
  if innerLength = 0 then return none else
  if data.ilen < (innerLength : Int) then return none else
  let inner ← mk innerLength
  let inner := copy inner (← sliceTo data innerLength)
  return some ({ els with encryptedInnerData := inner.data }, ← sliceFrom data innerLength)

/-- `parseSignatureAndFinalize` -/
def elsParseSignatureAndFinalizeC (els : ELS) (data : Sl) : Go (Option (ELS × Sl)) := do
  let sigType : Int ←
    (if els.hasOfflineKeys && els.offlineSignature.isSome then do
      let o ← deref els.offlineSignature
      pure (o.sigtype : Int)
    else pure (els.sigType : Int))
  match ← readSigS data sigType with
  | none => return none
  | some (signature, rem) => return some ({ els with signature := signature, signatureType := sigType }, rem)

/-- `parseAllEncryptedLeaseSetFields` -/
def elsParseAllFieldsC (els : ELS) (data : Sl) : Go (Option (ELS × Sl)) := do
  match ← elsParseSigTypeC els data with
  | none => return none
  | some (els, data) =>
  match ← elsParseBlindedPublicKeyC els data with
  | none => return none
  | some (els, data) =>
  match ← elsParseHeaderFieldsC els data with
  | none => return none
  | some (els, data) =>
  match ← elsParseOfflineSignatureC els data with
  | none => return none
  | some (els, data) =>
  match ← elsParseEncryptedInnerDataC els data with
  | none => return none
  | some (els, data) => elsParseSignatureAndFinalizeC els data

/-- `(*EncryptedLeaseSet).Validate()` for a non-nil receiver: `true` = no error -/
def ELS.validateC (els : ELS) : Bool := decide <|
  -- validateSigTypeAndKey
  (sigPubSize els.sigType ≠ 0 ∧ els.blindedPublicKey.length = sigPubSize els.sigType) ∧
  -- validateEncryptedLeaseSetFields
  (els.expires ≠ 0 ∧ els.flags / 4 = 0 ∧ ¬ (els.hasOfflineKeys ∧ els.offlineSignature.isNone) ∧
    ¬ (!els.hasOfflineKeys ∧ els.offlineSignature.isSome)) ∧
  -- validateEncryptedInnerDataIntegrity
  (els.encryptedInnerData.length ≠ 0 ∧ ¬ els.encryptedInnerData.length < 61 ∧
    els.innerLength = els.encryptedInnerData.length % 65536) ∧
  -- signature.Validate()
  (getSignatureLengthC els.signatureType = some (els.signature.length : Int))

/-- `encrypted_leaseset.ReadEncryptedLeaseSet` -/
def readELSS (data : Sl) : Go (Option (ELS × Sl)) := do
  if data.ilen < 109 then return none else
  match ← elsParseAllFieldsC {} data with
  | none => return none
  | some (els, remainder) =>
  if !els.validateC then return none else
  return some (els, remainder)

/-! ### byte-level entry points: the caller's buffer as a slice with `cap = len` -/

/-- the remainder of a reader result as bytes -/
def vRem {α : Type} (r : Option (α × Sl)) : Option (α × Bytes) := r.map fun p => (p.1, p.2.data)

/-- run a slice-level reader on a caller buffer -/
def onBytes {α : Type} (f : Sl → Go (Option (α × Sl))) (w : Bytes) : Go (Option (α × Bytes)) := do
  return vRem (← f (.ofBytes w))

def readDateC := onBytes readDateS
def readHashC := onBytes readHashS
def readCertC := onBytes readCertS
def newKeyCertC := onBytes newKeyCertS
def readKacC := onBytes readKacS
def readKacPrefixC := onBytes readKacPrefixS
def readKacElgEdC := onBytes readKacElgEdS
def readKacX25519EdC := onBytes readKacX25519EdS
def readDestinationC := onBytes readDestinationS
def readSigC (w : Bytes) (t : Int) := onBytes (readSigS · t) w
def readOffSigC (w : Bytes) (t : Nat) := onBytes (readOffSigS · t) w
def readLeaseC := onBytes readLeaseS
def readLease2C := onBytes readLease2S
def readELSC := onBytes readELSS

/-- `data.ReadInteger` on a caller buffer -/
def readIntegerB (w : Bytes) (size : Int) : Go (Option Bytes × Bytes) := do
  let (i, r) ← readIntegerC (.ofBytes w) size
  return (i.map Sl.data, r.data)

/-- `data.ReadI2PString` on a caller buffer -/
def readStrC (w : Bytes) : Go (Bytes × Bytes × Option StrErrC) := do
  let (s, r, e) ← readStrS (.ofBytes w)
  return (s.data, r.data, e)

end I2P.Checked
