import I2P.Alias
/-! History model for the second sentence of C08 (and the "histories" the other properties quantify over).

A value is a store of named byte fields, each owned or a view into the caller's buffer (`Alias.Fields`).  An
*accessor* hands a byte string to the caller; it is either a `copy` (fresh memory: `make`+`copy`, `append` onto nil,
a serialiser that builds its result) or it `share`s field `i` of the store (a sub-slice of the value's own memory,
or — for `spare` — the capacity behind a result whose backing array continues into the value's memory).  The caller
may then write anything, any number of times, into the buffer it owns or into what an accessor handed out.  -/
namespace I2P.History
open I2P I2P.Alias

inductive Accessor
  | copy                 -- the result is fresh memory
  | share (i : Nat)      -- the result aliases field i of the value
deriving Repr, DecidableEq

/-- one step of the caller's history -/
inductive Step
  | writeBuffer (newBuf : Bytes)                     -- overwrite the input buffer with arbitrary contents
  | writeResult (a : Accessor) (f : Bytes → Bytes)   -- overwrite (or append into) what accessor `a` returned

structure State where
  buf : Bytes
  fields : Fields

def writeField (fs : Fields) (i : Nat) (f : Bytes → Bytes) : Fields :=
  fs.mapIdx fun j p => if j = i then
      (p.1, match p.2 with
            | .owned b => .owned (f b)
            | .view o l => .view o l)   -- writing through a view writes the buffer, which the caller owns anyway
    else p

def step (s : State) : Step → State
  | .writeBuffer nb => { s with buf := nb }
  | .writeResult .copy _ => s
  | .writeResult (.share i) f => { s with fields := writeField s.fields i f }

def run (s : State) (h : List Step) : State := h.foldl step s

def State.observe (s : State) : List (String × Bytes) := observeAll s.buf s.fields

/-- every accessor the history writes through is a copy -/
def copiesOnly : List Step → Bool
  | [] => true
  | .writeBuffer _ :: t => copiesOnly t
  | .writeResult .copy _ :: t => copiesOnly t
  | .writeResult (.share _) _ :: _ => false

end I2P.History
