"""Per-property configuration of ./check: which harness suites and Lean module decide a property."""

COMMON_ASSUME = [
    "Go compiler/runtime and the standard library behave as documented",
    "logging side effects are ignored",
]

PROPS = {
    "C11": {
        "suites": "C11",
        "assumptions": COMMON_ASSUME + [
            "Go map iteration order is modelled as an arbitrary permutation of the association list",
            "sort.SliceStable is modelled by List.mergeSort (stable); validated differentially",
        ],
        "trusted_base": ["model files: lean/I2P/Data.lean, lean/I2P/Mapping.lean"],
    },
    "C12": {
        "suites": "C12",
        "assumptions": COMMON_ASSUME + [
            "time.Unix/UnixMilli are modelled as exact integer arithmetic with int64 wrap-around; validated differentially",
        ],
        "trusted_base": ["model file: lean/I2P/Data.lean"],
    },
    "C13": {
        "suites": "C13",
        "assumptions": COMMON_ASSUME + [
            "encoding/base32 and encoding/base64 are modelled as observed (bit-level Lean codec validated differentially)",
            "at the 10 MiB limit sizes only the guard decision and the output length are compared with the model",
        ],
        "trusted_base": ["model file: lean/I2P/Base.lean"],
    },
    "C15": {
        "suites": "C15",
        "assumptions": COMMON_ASSUME + [
            "time.Unix/UnixMilli/UnixNano, Time.Add (truncating split of the Duration, saturating addSec), Time.After/Before are "
            "modelled on (seconds, nanoseconds) pairs with explicit int64 wrap-around; validated differentially",
            "time.Now() is a parameter of the model; IsExpired is compared with the library at clock-relative expiries "
            "at least 3 s away from the clock reading, where the outcome depends on the offset only",
        ],
        "trusted_base": ["model files: lean/I2P/Data.lean, lean/I2P/Time.lean"],
    },
}
