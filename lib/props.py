"""Per-property configuration of ./check: which harness suites and Lean module decide a property."""

COMMON_ASSUME = [
    "Go compiler/runtime and the standard library behave as documented",
    "logging side effects are ignored",
]

PROPS = {
    "C11": {
        "suites": "C11",
        "assumptions": COMMON_ASSUME + [
            "Go map iteration order is modelled as an arbitrary permutation of the association list",
            "sort.SliceStable is modelled by List.mergeSort (stable); validated differentially",
        ],
        "trusted_base": ["model files: lean/I2P/Data.lean, lean/I2P/Mapping.lean"],
    },
    "C12": {
        "suites": "C12",
        "assumptions": COMMON_ASSUME + [
            "time.Unix/UnixMilli are modelled as exact integer arithmetic with int64 wrap-around; validated differentially",
        ],
        "trusted_base": ["model file: lean/I2P/Data.lean"],
    },
}
