"""Per-property configuration of ./check: which harness suites (generator groups) and Lean modules
(lean/I2P/Props/<id>*.lean) decide a property."""

COMMON_ASSUME = [
    "Go compiler/runtime and the standard library behave as documented",
    "logging side effects are ignored",
]
PARSE_GROUPS = "DATA,MAP,KAC,STRUCT"
MODEL_FILES = "model files: lean/I2P/Data.lean, Mapping.lean, Kac.lean, Structs.lean"

PROPS = {
    "C01": {
        "suites": PARSE_GROUPS + ",HIST",
        "assumptions": COMMON_ASSUME + [
            "for the list-of-errors readers 'accepted' means: no error other than the documented trailing-data warning",
            "ElGamal/DSA key-value checks of go-i2p/crypto are approximated in the model (clearly valid / clearly invalid keys are generated)",
        ],
        "trusted_base": [MODEL_FILES],
    },
    "C03": {
        "suites": PARSE_GROUPS + ",HIST",
        "assumptions": COMMON_ASSUME + ["ReadLeaseSet returns no remainder and ignores trailing bytes: outside the letter of C03, only its C01 extent is judged"],
        "trusted_base": [MODEL_FILES],
    },
    "C04": {
        "suites": PARSE_GROUPS + ",C13,C17,LOOKUPS,MARGS",
        "assumptions": COMMON_ASSUME + [
            "running time is enforced by a per-call deadline in the harness (2 s + 1 ms per input character), not proved",
        ],
        "trusted_base": [MODEL_FILES, "checked-slice layer lean/I2P/Checked.lean refines the pure model (Props/C04.lean)"],
    },
    "C05": {
        "suites": "STRUCT,C05" + ",HIST",
        "assumptions": COMMON_ASSUME + [
            "signature unforgeability is computational and not a theorem; the data-flow statement (which key, which bytes, which prefix) is what is checked",
            "independent verification uses the Go standard library (Ed25519, ECDSA) and go-i2p/crypto (DSA), both outside /repo",
        ],
        "trusted_base": [MODEL_FILES],
    },
    "C07": {
        "suites": "KAC,IDENT,STRUCT" + ",HIST",
        "assumptions": COMMON_ASSUME + ["SHA-256 is a parameter of the model (its value is carried on the op line, computed by crypto/sha256)",
                                        "collision resistance is not assumed by any theorem"],
        "trusted_base": ["model files: lean/I2P/Kac.lean, Identity.lean, Base.lean"],
    },
    "C08": {
        "suites": "KAC,STRUCT" + ",HIST",
        "assumptions": COMMON_ASSUME + ["aliasing is a property of Go memory, not of byte values: it is decided by the scribble oracle on the real library; the model states which fields are copies"],
        "trusted_base": [MODEL_FILES],
    },
    "C09": {
        "suites": "KAC,STRUCT" + ",HIST",
        "gen": True,
        "assumptions": COMMON_ASSUME,
        "trusted_base": [MODEL_FILES, "translator /verif/extract and the exhaustive sweep `harness observe` (Gen/*.lean)"],
    },
    "C10": {
        "suites": "KAC,LOOKUPS,CTWIN" + ",HIST",
        "gen": True,
        "assumptions": COMMON_ASSUME,
        "trusted_base": ["model files: lean/I2P/Tables.lean, Kac.lean", "translator /verif/extract and the exhaustive sweep `harness observe` (Gen/*.lean)"],
    },
    "C11": {
        "suites": "MAP" + ",HIST",
        "assumptions": COMMON_ASSUME + [
            "Go map iteration order is modelled as an arbitrary permutation of the association list",
            "sort.SliceStable is modelled by List.mergeSort (stable); validated differentially",
        ],
        "trusted_base": ["model files: lean/I2P/Data.lean, lean/I2P/Mapping.lean"],
    },
    "C12": {
        "suites": "DATA",
        "assumptions": COMMON_ASSUME + [
            "time.Unix/UnixMilli are modelled as exact integer arithmetic with int64 wrap-around; validated differentially",
        ],
        "trusted_base": ["model file: lean/I2P/Data.lean"],
    },
    "C13": {
        "suites": "C13",
        "assumptions": COMMON_ASSUME + [
            "encoding/base32 and encoding/base64 are modelled as observed (bit-level Lean codec validated differentially)",
            "at the 10 MiB limit sizes only the guard decision and the output length are compared with the model",
        ],
        "trusted_base": ["model file: lean/I2P/Base.lean"],
    },
    "C15": {
        "suites": "C15",
        "assumptions": COMMON_ASSUME + [
            "time.Unix/UnixMilli/UnixNano, Time.Add (truncating split of the Duration, saturating addSec), Time.After/Before are "
            "modelled on (seconds, nanoseconds) pairs with explicit int64 wrap-around; validated differentially",
            "time.Now() is a parameter of the model; IsExpired is compared with the library at clock-relative expiries "
            "at least 3 s away from the clock reading, where the outcome depends on the offset only",
        ],
        "trusted_base": ["model files: lean/I2P/Data.lean, lean/I2P/Time.lean"],
    },
    "C17": {
        "suites": "C17",
        "assumptions": COMMON_ASSUME + [
            "net.ParseIP, strconv.Atoi and strconv.Itoa are modelled in Lean (I2P/NetAddr.lean) and validated differentially against the standard library on every run",
            "net.ResolveIPAddr on an IP literal performs no lookup and returns that literal",
            "'decimal port' is read as: what strconv.Atoi accepts with value in 1..65535 ('+80' and '0080' are accepted and canonicalised to '80')",
        ],
        "trusted_base": ["model files: lean/I2P/NetAddr.lean, lean/I2P/RouterAddrAcc.lean, lean/I2P/Mapping.lean, lean/I2P/Data.lean"],
    },
    "C19": {
        "suites": PARSE_GROUPS + ",C13,C17,BUILDER,CTWIN,TWIN" + ",HIST",
        "assumptions": COMMON_ASSUME,
        "trusted_base": [MODEL_FILES],
    },
    "C20": {
        "suites": "ZERO,KAC,STRUCT,DATA,MAP,C20P",
        "gen": True,
        "assumptions": COMMON_ASSUME + [
            "the zero-value half is complete (finite domain enumerated by reflection on every run); the failed-parse half is explored by the generated truncations/mutations, not proved",
        ],
        "trusted_base": ["exhaustive reflective sweep `harness observe` (Gen/Observed.lean) and the API translator /verif/extract (Gen/Api.lean)"],
    },
    "C16": {
        "suites": "C16,CLS2",
        "assumptions": COMMON_ASSUME + [
            "the primitives are parameters of the model (EncScheme/BlindScheme); every fact about them is a named hypothesis: "
            "laws DhComm, DhDefined, PubLen, TagLen, CtLen, AeadCorrect, BlindLen; idealisations (computational security stated "
            "absolutely, per session) AeadAuthAt, AeadWrongKeyAt, DeriveInj, DhInjOn canon, BlindInj",
            "AeadCorrect and AeadAuthAt cannot hold together (whoever knows the key can seal): roundtrip and tamper_partial are "
            "proved under separate hypothesis sets, each shown satisfiable",
            "tamper_partial excludes replacement ephemeral keys outside `canon` (X25519 ignores bit 255: D10) and blobs that "
            "change the ephemeral key and the rest at once (a fresh encryption to the same recipient decrypts by design)",
            "'a different private key' is read as a key denoting a different X25519 scalar: keys differing only in the bits "
            "RFC 7748 clamping discards are the same key (their acceptance is counted, not judged)",
            "the auth cookie is length-checked only and not bound to the ciphertext (DESIGN.md); 'all cookies' is vacuous",
            "independent recomputation uses golang.org/x/crypto (curve25519, hkdf, chacha20poly1305) and filippo.io/edwards25519 "
            "directly, outside /repo and go-i2p/crypto",
            "Time.UTC().Format(\"2006-01-02\") is modelled by a civil-from-days algorithm (Crypto16.civil), validated "
            "differentially on every run (op utcDay) for years -1000..11000",
        ],
        "trusted_base": ["model file: lean/I2P/Crypto16.lean (data flow of encryption.go and blinding.go; primitives abstract)",
                         "model file: lean/I2P/Structs.lean (readLeaseSet2)"],
    },
    "C06": {
        "suites": "C06" + ",HIST",
        "assumptions": COMMON_ASSUME + [
            "signature schemes are abstract in the Lean statement: one law, verify t (pub t sk) m (sign t sk m r) = true; the theorems are about "
            "data flow (the constructor signs exactly the byte string Verify recomputes from the value)",
            "keys are generated by the harness from seeds (Ed25519, ECDSA P-256/P-384 via the standard library, DSA and key objects via go-i2p/crypto); "
            "the independent check of the produced signature uses the Go standard library and go-i2p/crypto (DSA), both outside /repo",
            "'every signing type the constructor supports': NewRouterInfo, NewEncryptedLeaseSet and CreateOfflineSignature sign with Ed25519-family keys only; "
            "NewLeaseSet (and NewLeaseSet2) with any types.SigningPrivateKey",
        ],
        "trusted_base": ["model file: lean/I2P/Ctor.lean (rule-level and data-flow model of the constructors)", MODEL_FILES],
    },
    "C14": {
        "suites": "C14",
        "assumptions": COMMON_ASSUME + [
            "time-dependent expiry checks are excluded: Lease/Lease2.Validate errors that are ErrExpiredLease are ignored, OfflineSignature is judged by ValidateStructure",
            "a 'documented defect' is a rule named in a Validate doc comment or enforced in its body (key length vs type, counts, flag/offline-block mismatch, "
            "reserved bits, length-field mismatch, nil fields, zero expiry, zero gateway); rules stated by one layer only for itself (padding length, key-type policy, "
            "builder payload rules) are recorded as observations, not failures",
            "for structures with private fields the validator side of a defect is exercised only where a public route (lenient parser, exported fields) can build the defective value",
            "the Lean model is rule-level: Boolean predicates over shape parameters (counts, lengths, type codes, flags, nil-ness), one conjunct per Go check",
        ],
        "trusted_base": ["model file: lean/I2P/Ctor.lean (ctorAccepts / validates / parses per structure; size tables from lean/I2P/Tables.lean)"],
    },
    "C02": {
        "suites": "C02" + ",HIST",
        "assumptions": COMMON_ASSUME + [
            "the specification is the I2P 0.9.67 common-structures layout as transcribed twice, independently: harness/spec.go (Go) and lean/I2P/Spec/Structs.lean (Lean); "
            "for MetaLeaseSet the layout documented in /repo/meta_leaseset/meta_leaseset_struct.go is used",
            "signatures are opaque byte strings for C02 (their validity is C05/C06); ElGamal/DSA key values are generated inside the range the LeaseSet parser checks",
            "mappings built from Go maps are compared in the specification's canonical order (sorted bytewise by key)",
        ],
        "trusted_base": [MODEL_FILES, "spec transcriptions: harness/spec.go, lean/I2P/Spec/Codec.lean, lean/I2P/Spec/Structs.lean, lean/I2P/Tables.lean"],
    },
    "C18": {
        "suites": "C18" + ",HIST",
        "race": True,     # harness built with -race and run as .build/harness-race (GORACE=halt_on_error=1)
        "gen": True,      # lean/I2P/Gen/Effects.lean is re-extracted from the SSA form of /repo on every run
        "claim": "proof (partial)",
        "assumptions": COMMON_ASSUME + [
            "claimed as proof (partial): Theorem 1 (Props/C18.lean schedule_independent) covers every interleaving of an abstract "
            "shared-memory machine; its premise (no shared write on a read path) is tied to the code by Theorem 2 over SSA effect facts, "
            "not by a proof about Go semantics",
            "the Go memory model, scheduler and runtime are trusted; the race half is observed by the Go race detector "
            "(8 goroutines x R rounds of every read-only method on one shared value of every structure), which finds only races that occur in the runs",
            "soundness of the effect extractor's backward slice (extract/effects.go) is trusted; origins it cannot classify are emitted as 'unknown' and rejected",
            "the invariant CapTight (cap == len for the receiver-derived append bases, today Certificate.kind) is checked by reflection on values from every parser/constructor path, not proved",
            "external callees handed shared memory — github.com/go-i2p/logger / logrus, samber/oops, go-i2p/crypto and the value-oriented standard-library "
            "packages (Props/C18.lean readOnlyExternalGroups) — are assumed goroutine-safe and not to modify their arguments, except the known writers "
            "tabulated in extract/effects.go (extWriteArg), which are judged by the origin of the written argument",
            "results that legitimately depend on the clock (IsExpired and its callers Lease.Validate, Lease2.Validate, OfflineSignature.Validate/IsValid/String) are excluded from the result comparison",
        ],
        "trusted_base": ["model file: lean/I2P/Conc.lean (abstract machine)", "translator /verif/extract/effects.go (Gen/Effects.lean)",
                         "Go race detector (-race build of the harness)"],
    },
}
