#!/bin/sh
# Which statements of go-i2p/common do the correspondence streams execute?  (Diagnostic, not a check: it tells where
# the generators are blind; DESIGN.md section A.1 records what was done about the answer.)
#   tools/coverage.sh [tier] [seed]      → prints the total, the per-file misses and the functions below 75 %
set -e
ROOT=$(cd "$(dirname "$0")/.." && pwd)
TIER=${1:-quick}; SEED=${2:-1}
export GOFLAGS=-mod=mod GOPROXY=off
W=$(mktemp -d /tmp/verif-cov.XXXXXX)
trap 'rm -rf "$W"' EXIT
cd "$ROOT/harness"
PK=$(go list -deps . | grep "go-i2p/common" | paste -sd,)
go build -cover -coverpkg="$PK,verif/harness" -o "$W/h" .
mkdir "$W/data"
SUITES=$(python3 -c "
import sys; sys.path.insert(0,'$ROOT/lib'); from props import PROPS
s=set()
for p in PROPS.values(): s|=set(p['suites'].split(','))
print(','.join(sorted(s)))")
(cd "$W" && GOCOVERDIR="$W/data" "$W/h" run -props "$SUITES" -tier "$TIER" -seed "$SEED" -out "$W/run" >/dev/null 2>&1)
go tool covdata textfmt -i="$W/data" -o "$W/cov.txt"
go tool cover -func="$W/cov.txt" | grep -v "verif/harness" > "$W/func.txt"
echo "suites: $SUITES  tier=$TIER seed=$SEED"
tail -1 "$W/func.txt"
echo "--- functions below 75 %"
awk '$NF+0 < 75.0' "$W/func.txt" | grep -v "^total" | sed 's|github.com/go-i2p/common/||' | awk '{printf "%-62s %-42s %s\n",$1,$2,$3}'
