#!/usr/bin/env python3
"""Numbers quoted in DESIGN.md section 0: property theorems per property, sizes of the parts."""
import glob, os, re, subprocess, sys, importlib.machinery, importlib.util
ROOT = os.path.dirname(os.path.dirname(os.path.abspath(__file__)))
loader = importlib.machinery.SourceFileLoader('chk', os.path.join(ROOT, 'check'))
spec = importlib.util.spec_from_loader('chk', loader); chk = importlib.util.module_from_spec(spec)
sys.argv = ['check']
try: loader.exec_module(chk)
except SystemExit: pass
tot = 0
for i in range(1, 21):
    p = "C%02d" % i
    n = len(chk.theorem_names(p)); tot += n
    print(p, n, [os.path.basename(f) for f in chk.prop_files(p)])
print("property theorems:", tot)
def lines(pats):
    n = 0
    for pat in pats:
        for f in glob.glob(os.path.join(ROOT, pat), recursive=True):
            if '/Gen/' in f or '/Audit/' in f or '/.lake/' in f: continue
            n += sum(1 for _ in open(f, errors='ignore'))
    return n
print("lean model   :", lines(["lean/I2P/*.lean", "lean/I2P/Spec/*.lean"]))
print("lean proofs  :", lines(["lean/I2P/Proofs/*.lean"]))
print("lean props   :", lines(["lean/I2P/Props/*.lean"]))
print("lean driver  :", lines(["lean/I2P/Driver/*.lean", "lean/Main.lean"]))
print("go harness   :", lines(["harness/*.go"]))
print("go extractor :", lines(["extract/*.go"]))
print("python       :", lines(["check", "lib/*.py", "tools/*.py"]))
