#!/usr/bin/env python3
"""Freeze the statements of proved lemmas into a Props file: `theorem n : <type> := @lemma`."""
import subprocess, sys, re, json
spec=json.load(open(sys.argv[1]))   # {"file":..., "namespace":..., "imports":[...], "open":[...], "header":..., "items":[[newname, lemma, doc], ...]}
src="".join("import %s\n"%i for i in spec["imports"])+"set_option pp.fieldNotation.generalized false in\n"
chk=src+"".join("open %s\n"%o for o in spec["open"])+"".join("#check (@%s)\n"%it[1] for it in spec["items"])
open('/tmp/chk.lean','w').write(chk.replace("set_option pp.fieldNotation.generalized false in\n",""))
out=subprocess.run(['lake','env','lean','/tmp/chk.lean'],cwd='/verif/lean',capture_output=True,text=True).stdout
# split messages: each starts with "@name : "
types={}
cur=None
for line in out.split('\n'):
    m=re.match(r'^(?:/tmp/chk.lean:\d+:\d+: )?(?:info: )?@?([\w.\']+) : (.*)$', line)
    if m:
        cur=m.group(1); types[cur]=m.group(2)
    elif cur and line.strip() and not line.startswith('/tmp/chk.lean'):
        types[cur]+='\n'+line
body=[]
missing=[]
for new,lem,doc in spec["items"]:
    t=types.get(lem) or types.get(lem.split('.')[-1])
    if t is None:
        # names are printed fully qualified
        cands=[k for k in types if k.endswith(lem)]
        t=types[cands[0]] if cands else None
    if t is None:
        missing.append(lem); continue
    ind="\n".join("    "+l for l in t.split('\n'))
    body.append("/-- %s -/\ntheorem %s :\n%s :=\n  @%s\n"%(doc,new,ind,lem))
res="".join("import %s\n"%i for i in spec["imports"])+spec["header"]+"\nnamespace %s\n"%spec["namespace"]+"".join("open %s\n"%o for o in spec["open"])+"\n"+"\n".join(body)+"\nend %s\n"%spec["namespace"]
open(spec["file"],'w').write(res)
print("missing:",missing)
