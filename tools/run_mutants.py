#!/usr/bin/env python3
"""Apply each catalogued mutant (design/mutants.json or seeded/*/patch.diff) to /repo, run the quick checks of
the properties it breaks, record which checks report a VIOLATION, and restore /repo.

  tools/run_mutants.py [--all|--survivors] [--only M03,M04] [--seeded]
"""
import json, subprocess, sys, os, argparse, time, glob
ROOT = os.path.dirname(os.path.dirname(os.path.abspath(__file__)))
REPO = os.environ.get("VERIF_REPO", "/repo")
sys.path.insert(0, os.path.join(ROOT, "lib"))
from props import PROPS
SEED = ""

def sh(cmd, **kw):
    return subprocess.run(cmd, shell=True, capture_output=True, text=True, **kw)

def clean():
    assert sh("git -C %s checkout -- . && git -C %s clean -fdq" % (REPO, REPO) + "").returncode == 0

def run_one(mid, patch, props, extra_props=()):
    clean()
    p = subprocess.run(["git", "-C", REPO, "apply", "--recount", "-"], input=patch, capture_output=True, text=True)
    if p.returncode != 0:
        p = subprocess.run(["patch", "-p1", "-d", REPO, "--no-backup-if-mismatch", "-f"], input=patch, capture_output=True, text=True)
        if p.returncode != 0:
            clean()
            return {"id": mid, "applied": False, "why": (p.stdout + p.stderr)[-300:]}
    b = sh("cd %s && GOFLAGS=-mod=mod GOPROXY=off go build ./..." % REPO)
    if b.returncode != 0:
        clean()
        return {"id": mid, "applied": False, "why": "does not build: " + b.stderr[-300:]}
    res = {"id": mid, "applied": True, "checks": {}}
    for pr in list(props) + [x for x in extra_props if x not in props]:
        if pr not in PROPS:
            res["checks"][pr] = "no-check"
            continue
        t = time.time()
        r = sh("cd %s && %s./check %s --tier quick" % (ROOT, ("VERIF_SEED=%s " % SEED) if SEED else "", pr))
        lines = [l for l in r.stdout.splitlines() if l.startswith("VIOLATION")]
        res["checks"][pr] = {"rc": r.returncode, "violations": lines[:4], "s": round(time.time() - t, 1)}
    clean()
    return res

def main():
    ap = argparse.ArgumentParser()
    ap.add_argument("--only")
    ap.add_argument("--all", action="store_true")
    ap.add_argument("--seeded", action="store_true")
    ap.add_argument("--extra", default="")
    ap.add_argument("--out", default="/tmp/mutant_results.json")
    ap.add_argument("--seed", default="")
    a = ap.parse_args()
    global SEED
    SEED = a.seed
    items = []
    if a.seeded:
        for d in sorted(glob.glob(os.path.join(ROOT, "seeded", "*"))):
            meta = json.load(open(os.path.join(d, "meta.json")))
            items.append((os.path.basename(d), open(os.path.join(d, "patch.diff")).read(), meta["breaks"], meta.get("harmless", False)))
    else:
        ms = json.load(open(os.path.join(ROOT, "design", "mutants.json")))["mutants"]
        for m in ms:
            if not a.all and m["unedited_suite"] == "KILLED":
                continue
            items.append((m["id"], m["patch"], eval(m["properties"]) if isinstance(m["properties"], str) else m["properties"], m["harmless"] in (True, "True")))
    if a.only:
        keep = set(a.only.split(","))
        items = [i for i in items if i[0] in keep]
    out = []
    for mid, patch, props, harmless in items:
        extra = sorted(PROPS) if a.extra == "all" else [x for x in a.extra.split(",") if x]
        r = run_one(mid, patch, props, extra)
        r["harmless"] = harmless
        r["expected"] = props
        if r["applied"]:
            det = [p for p, c in r["checks"].items() if isinstance(c, dict) and c["rc"] != 0]
            r["detected_by"] = det
        print(json.dumps(r)[:400], flush=True)
        out.append(r)
        json.dump(out, open(a.out, "w"), indent=1)

if __name__ == "__main__":
    main()
