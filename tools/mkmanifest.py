#!/usr/bin/env python3
"""Regenerate MANIFEST.json from lib/props.py and the claim texts below."""
import json, os, sys
ROOT = os.path.dirname(os.path.dirname(os.path.abspath(__file__)))
sys.path.insert(0, os.path.join(ROOT, "lib"))
from props import PROPS

TIE = ("The theorems are about a hand-written, executable, code-mirroring Lean model; the model is tied to /repo's working tree on every run by "
       "differential execution (the same generated op stream through the real library and the compiled Lean driver, outputs diffed) and the property "
       "sentence itself is evaluated on the real library as an oracle that yields replayable failing inputs.")
CLAIMS = {
 "C01": "Proved for every input: each modelled parser (certificate, key certificate, KeysAndCert incl. both key-type-specific readers, Destination, RouterIdentity, mapping, I2PString, signature, offline signature, leases, router address, RouterInfo, LeaseSet, LeaseSet2, MetaLeaseSet, EncryptedLeaseSet) returns a value whose serialisation followed by the remainder is the input. " + TIE,
 "C03": "Proved for every input and every appended byte string: suffix, append-stability and no-accepted-proper-prefix for every remainder-returning parser of the model (the third derived once from the second). " + TIE,
 "C04": "Proved for every input (and every 16-bit type argument): a second, *checked* Lean layer mirrors the Go slice/index/make expressions of the readers one by one with Go's bounds rules (slice = window on an array with capacity), never returns a panic, and equals the pure model (59 theorems: data primitives, certificate, key certificate, ReadKeysAndCert and both key-type-specific readers, ReadDestination, ReadSignature, ReadOfflineSignature, leases, the LeaseSet2 header/offline/keys/leases/signature helpers with loop bounds, ReadEncryptedLeaseSet). The pre-repair order of ReadKeysAndCert is kept as a definition with a proved sliceOOB witness. Not mirrored (explored only): ReadMapping, MetaLeaseSet, RouterAddress, RouterInfo, ReadLeaseSet, serialisers. Every generated input of every parser/decoder/lookup group runs under recover and a per-call deadline on the real library; accepted values get every exported argument-free method called by reflection. Running time itself is enforced, not proved (partial). " + TIE,
 "C05": "Proved for EVERY verification oracle C (no assumption on it), for RouterInfo, LeaseSet, LeaseSet2, MetaLeaseSet, EncryptedLeaseSet and OfflineSignature: if the model's Verify succeeds on a parsed value then C accepts the signature under the identity's own key (located in the raw input: end of the 384-byte block, or the blinded key) over prefix ++ exactly the received bytes minus the signature, and — with an offline block — C accepts the transient key's signature AND the identity key's signature over expires‖type‖transient key, both located in the raw input. The field-level parser is proved to agree with the byte-level model; Verify is proved equal to 'all obligations hold', and the obligation list is what the driver prints and the harness compares with the library's accessors. The pre-repair Verify is kept as a definition with a proved forged witness. Unforgeability (flipping a bit turns success into failure) is computational, not a theorem: it is exercised by adversarial derivations (wrong key, other key present, near-miss messages, bit flips, forged/transplanted offline blocks) judged by independent verification over the raw bytes. " + TIE,
 "C16": "Proved on a symbolic model with named hypotheses about the primitives (DH commutativity, AEAD correctness for the round trip; per-session AEAD integrity, KDF and DH injectivity on canonical keys for tampering): decrypt(encrypt x) = x for every LeaseSet2 the parser accepts, blob layout eph‖nonce‖ct‖tag, any single-byte change or other shared secret fails (partial: replacement ephemeral keys outside the canonical set are excluded — after the repair the top bit is rejected outright, proved), UTC-day derivation independent of the Location, blinding a function of (destination, secret, UTC day), kept fields, new key, the library's own check accepts exactly the derived factor for types 7 and 11. The real library is checked through the model's layout with independent crypto (x/crypto curve25519, hkdf, chacha20poly1305, filippo edwards25519), every bit of every blob flipped, instants either side of UTC midnight in several locations. " + TIE,
 "C07": "Proved: hash = H(bytes), address = unpadded I2P base32 of the hash + '.b32.i2p' with length 60 (incl. TrimRight('=') of the padded encoding = the unpadded encoding), Base64 decodes back, Equals iff equal bytes, and the serialisation determines every field (so any key/padding/certificate byte change changes the hashed bytes). SHA-256 is a parameter. " + TIE,
 "C08": "Proved on the model: a value all of whose byte fields are copies observes the same bytes whatever the caller's buffer is overwritten with, and every field of a parsed certificate / KeysAndCert / Destination / RouterIdentity is a copy (provenance table written from the Go code, with the pre-repair sub-slice as a proved counter-witness). Memory sharing itself is decided on the real library by the scribble oracle: after parsing, the whole input buffer is overwritten and every observation (serialisation, keys, leases, signature, offline block) is compared, for every accepted input of every structure in scope, and slices returned by accessors documented to copy are overwritten too. " + TIE,
 "C20": "Zero-value half: proved complete by kernel `decide` on every run — the reflective sweep of the freshly built library covers exactly the (type, argument-free exported method) pairs the source declares (259 today), none panics, no verification succeeds. Failed-parse half: explored, not proved — the same reflective method sweep runs on the value returned together with an error for every rejected generated input (truncations at and around every field boundary, mutations), and Verify on such values must not succeed. " + TIE,
 "C09": "Proved on the model: every Destination/RouterIdentity a reader returns satisfies the policy, the RouterIdentity policy implies the Destination policy, nothing permitted is rejected, every supported pair parses. Re-proved on every run against tables regenerated from /repo: the (signing, crypto) pairs the built library accepts (exhaustive sweep) and the prohibited sets written in the source (AST) equal the specification's. Embedded paths (RouterInfo, LeaseSet, LeaseSet2, MetaLeaseSet) are judged by an oracle on the real library. " + TIE,
 "C10": "Re-proved on every run by kernel `decide` against tables regenerated from /repo: every size lookup, observed over all 65,536 codes through the public API, and every source-level copy of the tables (map literals and switch statements, translated from the Go AST) equals the specification table. Layout of the 384-byte block proved for all inputs on the model (parser side and constructor side). " + TIE,
 "C11": "Proved for all maps: order independence (Go map iteration = arbitrary permutation), acceptance within limits with strictly key-sorted pairs, rejection beyond limits, map -> bytes -> map identity (partial: up to 1000 pairs, the parser's MAX_MAPPING_PAIRS), size field, re-serialisation of every accepted input, append stability, no accepted proper prefix. " + TIE,
 "C12": "Proved for all values, widths, millisecond counts and strings: encode/decode inverses inside the domain, rejection outside, exact n-byte big-endian encodings, full-range unsigned accessor, no complete value from short input. " + TIE,
 "C13": "Proved for all byte strings: decode(encode x) = x for padded/unpadded base32 and base64, output alphabet, alphabets distinct (kernel decide), rejection of foreign characters and malformed padding (for the strict decoders the library now has), exact Safe-variant limits. The bit-level Lean codec is the independent implementation. " + TIE,
 "C15": "Proved for all 32-bit seconds, 16-bit offsets and millisecond dates below 2^63 against an explicit fixed-width model of each Go expression: expiry sums, second/millisecond conversions, NewLease2's domain, newest/oldest membership and bounds, IsExpired a day either side. " + TIE,
 "C17": "Proved for all option lists: host/port accessors succeed exactly on IP literals / decimal ports in range and return canonical forms, validity helpers agree, IP version agrees with the family, lookup is by exact key, static key / IV exactly 32/16 bytes; parseIP accepts only hex digits, '.' and ':'. net.ParseIP/strconv.Atoi/Itoa are modelled in Lean and validated against the standard library on every run. " + TIE,
 "C19": "Proved on the model for the separately written twins (generic vs key-type-specific KeysAndCert readers, key certificate from bytes vs from a certificate, Destination/RouterIdentity wrappers vs ReadKeysAndCert); all other twin pairs (about 25) are compared directly on the real library on every generated input. " + TIE,
}
NOTE = ("Trusted: Lean 4.33 kernel (axioms propext, Classical.choice, Quot.sound only, audited per run by #print axioms; no sorry/native_decide/bv_decide); "
        "the hand-written model corresponds to the Go code only as far as the differential run and its generators reach (the evidence file reports the distribution); "
        "Go toolchain and standard library; for Gen/*.lean the translator /verif/extract and the exhaustive sweep `harness observe`.")
TECH = "Lean 4 theorems over a hand-written executable model + differential correspondence check against the real library + implementation-side property oracle"
REASONS = {
 "C02": "not built yet: needs the spec-layer codecs and a spec-directed encoder with field comparison; partially covered under C01/C03/C09 (spec → parser acceptance for identities)",
 "C06": "being built (constructor ops and classification of the open constructor findings)", "C14": "being built (constructor/Validate/parser rule sets; several open findings to classify)",
 "C18": "being built (generic schedule-independence theorem, SSA effect facts, race-detector soak)",
}
props = [json.loads(l) for l in open(os.path.join(ROOT, "properties.jsonl"))]
checks = []
for p in props:
    pid = p["id"]
    if pid in PROPS and pid in CLAIMS:
        checks.append({
            "property_id": pid,
            "quick_cmd": "./check %s --tier quick" % pid,
            "thorough_cmd": "./check %s --tier thorough" % pid,
            "evidence_file": "/verif/evidence/%s.json" % pid,
            "replay_cmd_template": "./check %s --replay {path}" % pid,
            "engine": "lean-model+harness",
            "level_claimed": {"category": "proof", "text": CLAIMS[pid], "design_ref": "DESIGN.md section 6, " + pid},
            "level_note": NOTE + " Property-specific: " + "; ".join(PROPS[pid].get("assumptions", [])[2:]),
            "technique": TECH,
        })
claimed = [c["property_id"] for c in checks]
na = [{"property_id": p["id"], "reason": REASONS.get(p["id"], "not built yet")} for p in props if p["id"] not in claimed]
m = {"version": 1, "setup_cmd": "./check --setup",
     "hooks": {"guard": "verif", "enable": "no source hooks are needed: the harness links /repo's working tree through a replace directive and reads unexported state by reflection only",
               "baseline_off_cmd": "cd /repo && GOFLAGS=-mod=mod GOPROXY=off go test -vet=off -count=1 ./...", "source_commits": [], "add_only": True},
     "engines": [{"name": "lean-model", "path": "/verif/lean", "serves_properties": claimed, "kind_free_text": "Lean 4 model, theorems (I2P/Props), compiled line-protocol driver"},
                 {"name": "harness", "path": "/verif/harness", "serves_properties": claimed, "kind_free_text": "Go harness: generators, real-library executor, property oracles, exhaustive lookup sweep"},
                 {"name": "extract", "path": "/verif/extract", "serves_properties": [c for c in claimed if PROPS[c].get("gen")], "kind_free_text": "Go AST/types translator: constants, tables, API surface -> lean/I2P/Gen/*.lean"}],
     "checks": checks, "not_applicable": na,
     "notes": "See DESIGN.md. Repairs of genuine defects are 'fix:' commits in /repo, listed in known_findings.json with status 'fixed'."}
json.dump(m, open(os.path.join(ROOT, "MANIFEST.json"), "w"), indent=1)
print("claimed:", claimed)
