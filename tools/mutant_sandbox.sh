#!/bin/sh
# Create (or refresh) a sandbox for mutant runs that does not disturb /repo or /verif:
#   /tmp/mrun/repo  = detached worktree of /repo HEAD;  /tmp/mrun/verif = copy of /verif whose harness/extract link to it.
set -e
rm -rf /tmp/mrun/verif
git -C /repo worktree remove --force /tmp/mrun/repo 2>/dev/null || true
mkdir -p /tmp/mrun
git -C /repo worktree add -q --detach /tmp/mrun/repo HEAD
rsync -a --exclude .git --exclude .run --exclude replays /verif/ /tmp/mrun/verif/
sed -i 's|=> /repo|=> /tmp/mrun/repo|' /tmp/mrun/verif/harness/go.mod
echo "sandbox ready: VERIF_REPO=/tmp/mrun/repo /tmp/mrun/verif/tools/run_mutants.py …"
