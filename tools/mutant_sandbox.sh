#!/bin/sh
# Create (or refresh) a sandbox for mutant runs that does not disturb /repo or /verif:
#   $D/repo  = detached worktree of /repo HEAD;  $D/verif = copy of /verif whose harness/extract link to it.
set -e
D=${1:-/tmp/mrun}
rm -rf $D/verif
git -C /repo worktree remove --force $D/repo 2>/dev/null || true
mkdir -p $D
git -C /repo worktree add -q --detach $D/repo HEAD
rsync -a --exclude .git --exclude .run --exclude replays /verif/ $D/verif/
sed -i "s|=> /repo|=> $D/repo|" $D/verif/harness/go.mod
echo "sandbox ready: VERIF_REPO=$D/repo $D/verif/tools/run_mutants.py …"
