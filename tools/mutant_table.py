#!/usr/bin/env python3
"""Render the results of tools/run_mutants.py as the markdown table of DESIGN.md section B."""
import json, sys, os, glob
ROOT = os.path.dirname(os.path.dirname(os.path.abspath(__file__)))
def load(p):
    try: return json.load(open(p))
    except Exception: return []
seeded = {r["id"]: r for r in load(sys.argv[1])}
catalogue = {r["id"]: r for r in load(sys.argv[2])}
harmless = {r["id"]: r for r in load(sys.argv[3])} if len(sys.argv) > 3 else {}
cat_meta = {m["id"]: m for m in json.load(open(os.path.join(ROOT, "design", "mutants.json")))["mutants"]}
def verdict(r):
    if not r.get("applied"): return "patch no longer applies"
    det = r.get("detected_by") or []
    kinds = []
    for p in det:
        v = r["checks"][p]["violations"]
        concrete = any("no-failing-input-found" not in x for x in v)
        kinds.append("%s (%s)" % (p, "failing input" if concrete else "broken obligation/correspondence"))
    return ", ".join(kinds) if kinds else "**missed**"
print("| Change | Breaks | What it is / what it needs to manifest | Reported by |")
print("|---|---|---|---|")
for d in sorted(glob.glob(os.path.join(ROOT, "seeded", "S*-*"))):
    m = json.load(open(d + "/meta.json")); sid = os.path.basename(d)
    r = seeded.get(sid, {})
    print("| %s | %s | %s — *needs:* %s | %s |" % (sid, " ".join(m["breaks"]), m["summary"].replace("|", "/")[:160], m["needs_to_manifest"].replace("|", "/")[:170], verdict(r) if r else "not run"))
for mid, r in catalogue.items():
    m = cat_meta[mid]
    if m["harmless"] in (True, "True"): continue
    print("| %s | %s | %s | %s |" % (mid, " ".join(r["expected"]), m["description"].replace("|", "/")[:160], verdict(r)))
print()
print("Behaviour-preserving changes (every one of the 20 quick checks was run against each; any VIOLATION here would be a false alarm):")
print()
print("| Change | What it is | Alarms |")
print("|---|---|---|")
for d in sorted(glob.glob(os.path.join(ROOT, "seeded", "H-*"))):
    m = json.load(open(d + "/meta.json")); sid = os.path.basename(d)
    r = harmless.get(sid, {})
    al = [p for p, c in (r.get("checks") or {}).items() if isinstance(c, dict) and c["rc"] != 0]
    print("| %s | %s | %s |" % (sid, m["summary"].replace("|", "/")[:170], ("none (%d checks)" % len(r.get("checks", {}))) if r and not al else ("**" + ", ".join(al) + "**" if al else "not run")))
for mid, r in catalogue.items():
    m = cat_meta[mid]
    if m["harmless"] in (True, "True"):
        al = [p for p, c in (r.get("checks") or {}).items() if isinstance(c, dict) and c["rc"] != 0]
        print("| %s | %s | %s |" % (mid, m["description"][:170], "none" if not al else "**" + ", ".join(al) + "**"))
