#!/usr/bin/env python3
"""Render the results of tools/run_mutants.py as the markdown table of DESIGN.md section B."""
import json, sys, os, glob
ROOT = os.path.dirname(os.path.dirname(os.path.abspath(__file__)))
def load(p):
    try: return json.load(open(p))
    except Exception: return []
# seeded results: one file, or several comma-separated files (one per seed)
seed_files = sys.argv[1].split(",")
seeded_runs = [{r["id"]: r for r in load(f)} for f in seed_files]
seeded = seeded_runs[0]
catalogue = {r["id"]: r for r in load(sys.argv[2])}
harmless = {r["id"]: r for r in load(sys.argv[3])} if len(sys.argv) > 3 else {}
cat_meta = {m["id"]: m for m in json.load(open(os.path.join(ROOT, "design", "mutants.json")))["mutants"]}
def verdict(r):
    if not r.get("applied"): return "patch no longer applies"
    det = r.get("detected_by") or []
    kinds = []
    for p in det:
        v = r["checks"][p]["violations"]
        concrete = any("no-failing-input-found" not in x for x in v)
        kinds.append("%s (%s)" % (p, "failing input" if concrete else "broken obligation/correspondence"))
    return ", ".join(kinds) if kinds else "**missed**"
print("| Change | Breaks | What it is / what it needs to manifest | Reported by |")
print("|---|---|---|---|")
for d in sorted(glob.glob(os.path.join(ROOT, "seeded", "S*-*"))):
    m = json.load(open(d + "/meta.json")); sid = os.path.basename(d)
    rs = [run.get(sid) for run in seeded_runs if run.get(sid)]
    if not rs:
        v = "not run"
    elif not rs[0].get("applied"):
        v = "patch no longer applies" + (" (" + m["note"][:90] + "…)" if m.get("note") else "")
    else:
        hits = sum(1 for r in rs if r.get("detected_by"))
        concrete = any(any("no-failing-input-found" not in x for p in (r.get("detected_by") or []) for x in r["checks"][p]["violations"]) for r in rs)
        props = sorted({p for r in rs for p in (r.get("detected_by") or [])})
        if hits == 0:
            v = "**missed**" + (" — " + m["note"][:140] if m.get("note") else "")
        else:
            v = "%s (%s)%s" % (", ".join(props), "failing input" if concrete else "broken obligation/correspondence, no failing input",
                               "" if len(rs) == 1 else ", %d/%d seeds" % (hits, len(rs)))
    print("| %s | %s | %s — *needs:* %s | %s |" % (sid, " ".join(m["breaks"]), m["summary"].replace("|", "/")[:160], m["needs_to_manifest"].replace("|", "/")[:170], v))
for mid, r in catalogue.items():
    m = cat_meta[mid]
    if m["harmless"] in (True, "True"): continue
    print("| %s | %s | %s | %s |" % (mid, " ".join(r["expected"]), m["description"].replace("|", "/")[:160], verdict(r)))
print()
print("Behaviour-preserving changes (every one of the 20 quick checks was run against each; any VIOLATION here would be a false alarm):")
print()
print("| Change | What it is | Alarms |")
print("|---|---|---|")
for d in sorted(glob.glob(os.path.join(ROOT, "seeded", "H-*"))):
    m = json.load(open(d + "/meta.json")); sid = os.path.basename(d)
    r = harmless.get(sid, {})
    al = [p for p, c in (r.get("checks") or {}).items() if isinstance(c, dict) and c["rc"] != 0]
    exp = m.get("expected_alarms") or []
    if not r:
        v = "not run"
    elif not al:
        v = "none (%d checks)" % len(r.get("checks", {}))
    elif sorted(al) == sorted(exp):
        v = "%s only, `no-failing-input-found` — by the letter of its third sentence (package-level `sync.Pool` on a read path); the other %d checks silent" % (", ".join(al), len(r["checks"]) - len(al))
    else:
        v = "**" + ", ".join(al) + "**"
    print("| %s | %s | %s |" % (sid, m["summary"].replace("|", "/")[:170], v))
for mid, r in catalogue.items():
    m = cat_meta[mid]
    if m["harmless"] in (True, "True"):
        al = [p for p, c in (r.get("checks") or {}).items() if isinstance(c, dict) and c["rc"] != 0]
        print("| %s | %s | %s |" % (mid, m["description"][:170], "none" if not al else "**" + ", ".join(al) + "**"))
