#!/usr/bin/env python3
"""Confirm a mutant delivered by a mutation sub-agent and store it as /verif/seeded/<id>/.
  tools/confirm_seeded.py <prop> <n> <seeded-id>
Runs in the agent's scratch worktree /tmp/mut/<prop>/repo: (1) patch applies and builds, (2) the complete unedited suite
passes with it, (3) the demonstration fails with it, (4) the demonstration passes without it."""
import sys, os, json, subprocess, shutil
prop, n, sid = sys.argv[1], sys.argv[2], sys.argv[3]
wt = "/tmp/mut/%s/repo" % prop
out = "/tmp/mut/%s/out" % prop
ENV = dict(os.environ, GOFLAGS="-mod=mod", GOPROXY="off")
def sh(cmd, cwd=wt):
    return subprocess.run(cmd, shell=True, cwd=cwd, env=ENV, capture_output=True, text=True)
def clean():
    sh("git checkout -- . && git clean -fdq")
meta = json.load(open("%s/meta%s.json" % (out, n)))
patch = open("%s/mutant%s.diff" % (out, n)).read()
demo = open("%s/demo%s_test.go" % (out, n)).read()
pkg = meta["demo_package_dir"].strip("./")
test = meta["demo_test_name"]
res = {"id": sid, "breaks": [prop.rstrip("bcdefg")], "summary": meta["summary"], "needs_to_manifest": meta["needs_to_manifest"],
       "demo_package_dir": pkg, "demo_test_name": test, "source": "sub-agent mut-%s, mutant %s" % (prop, n)}
clean()
r = sh("git apply --recount %s/mutant%s.diff" % (out, n))
assert r.returncode == 0, r.stderr
r = sh("go build ./...")
res["builds"] = r.returncode == 0
r = sh("go test -vet=off -count=1 ./... 2>&1 | grep -v 'no test files' | grep -v '^ok' | head -20")
res["suite_passes_with_mutant"] = r.stdout.strip() == ""
res["suite_output_if_not"] = r.stdout[-500:]
demo_path = os.path.join(wt, pkg, "zz_demo_%s_test.go" % n)
open(demo_path, "w").write(demo)
run = "go test -vet=off -count=1 -run '%s' ./%s/" % (test.split("/")[0].split(" ")[0], pkg)
r = sh(run)
res["demo_fails_with_mutant"] = r.returncode != 0 and "FAIL" in r.stdout
res["demo_output_with_mutant"] = r.stdout[-600:]
sh("git checkout -- .")
r = sh(run)
res["demo_passes_without_mutant"] = r.returncode == 0
res["ran"] = ["git apply mutant.diff", "go build ./...", "go test -vet=off -count=1 ./...", run + " (with mutant: must fail)", run + " (without: must pass)"]
clean()
ok = res["builds"] and res["suite_passes_with_mutant"] and res["demo_fails_with_mutant"] and res["demo_passes_without_mutant"]
res["confirmed"] = ok
print(json.dumps({k: res[k] for k in ("id", "builds", "suite_passes_with_mutant", "demo_fails_with_mutant", "demo_passes_without_mutant", "confirmed")}))
if ok:
    d = "/verif/seeded/%s" % sid
    os.makedirs(d, exist_ok=True)
    open(d + "/patch.diff", "w").write(patch)
    open(d + "/demo_test.go", "w").write(demo)
    res.pop("suite_output_if_not", None)
    json.dump(res, open(d + "/meta.json", "w"), indent=1)
else:
    print(json.dumps(res, indent=1)[:1500])
